(* C05 on bytes, top layer: the abstract file computed from the bytes of a
   serialised file is well-formed, its value lists and generator chunk lists are
   the (labelled) eager data of read_correct, and therefore every operation of
   every history yields the window / index / slice / chunk of the EAGER data.

   Hypotheses (Section Main): those of read_correct (Props/C01_read.v), plus
     seg_paths_distinct st   no segment's object list names a path twice (as for
                             lazy = eager, Props/C03_read.v, where it is shown
                             necessary)
     io_regular st = true    what IoPlan.wf_file demands beyond that (Model/IoBytes.v):
                             every data object declares >= 1 value and >= 1 byte per
                             chunk; a segment has kTocRawData iff it has data objects,
                             and then >= 1 chunk.

     iofile_tie / iofile_wf        iofile_of_bytes succeeds, IoPlan.wf_file holds
     file_vals, file_cchunks, file_fchunks
                                   the three views of the abstract file in eager terms
     io_read_is_lazy_read, io_index_is_eager_index, io_slice_is_eager_slice,
     io_chan_iterator, io_file_iterator
                                   one operation on a fresh state
     history_independent_bytes     all histories *)
From Coq Require Import List ZArith Bool Lia ZifyBool.
From Coq Require Import Init.Byte.
Import ListNotations.
From NpTdms Require Import Base.Bytes Base.Res Base.PySlice Model.Tokens Model.TokensWf Model.SegState
     Model.Layout Model.Reader Model.FileSyn Model.LazyBytes Model.IoBytes
     Proofs.SegStateProofs Proofs.LayoutProofs Proofs.FileSynProofs Proofs.ReadCorrect
     Proofs.SliceProofs Proofs.LazyEagerIndex Proofs.LazyEagerView Proofs.LazyEagerTop
     Proofs.IoBytesSeg Proofs.IoBytesFile.
From NpTdms Require Model.IoPlan Proofs.IoPlanProofs Proofs.IoBytesIndex.
Local Open Scope Z_scope.

(* ---- channel numbers -------------------------------------------------------------------- *)

(* the path of channel number i *)
Definition chan_path (ps : list bytes) (i : Z) : option bytes :=
  if i <? 0 then None else nth_error ps (Z.to_nat i).

Lemma chan_path_index ps i p : NoDup ps -> (chan_path ps i = Some p <-> path_index p ps = Some i).
Proof.
  intros Hnd. unfold chan_path. split.
  - destruct (i <? 0) eqn:E; [discriminate|]. intros H.
    rewrite (path_index_of_nth ps Hnd _ _ H). f_equal. lia.
  - intros H. pose proof (path_index_range _ _ _ H). replace (i <? 0) with false by lia.
    exact (path_index_nth _ _ _ H).
Qed.

Lemma chan_path_none ps i : chan_path ps i = None -> forall p, path_index p ps <> Some i.
Proof.
  unfold chan_path. intros H p Hp. pose proof (path_index_range _ _ _ Hp).
  replace (i <? 0) with false in H by lia. rewrite (path_index_nth _ _ _ Hp) in H. discriminate.
Qed.

(* ---- the file-level iterator in eager terms ------------------------------------------------- *)

(* what channel number i holds in one decoded chunk, and how many values in a list of them *)
Definition chunk_vals_no (ps : list bytes) (i : Z) (c : chunk) : list Z :=
  match chan_path ps i with Some p => map lab (chunk_values p c) | None => [] end.

Definition chunks_count_no (ps : list bytes) (i : Z) (cs : list chunk) : Z :=
  match chan_path ps i with Some p => Z.of_nat (length (chan_values p cs)) | None => 0 end.

(* the outputs of tdms_file.data_chunks() for a list of decoded chunks: per channel of the
   file (.offset = number of its values in the chunks before, its values in this chunk) *)
Fixpoint eager_file_outs (ps : list bytes) (chans : list Z) (before : list chunk) (l : list chunk)
  : list IoPlan.out :=
  match l with
  | [] => []
  | c :: r =>
    IoPlan.OFChunk (map (fun i => (i, (chunks_count_no ps i before, IoPlan.Vals (chunk_vals_no ps i c)))) chans)
    :: eager_file_outs ps chans (before ++ [c]) r
  end.

Lemma chunk_rel_assoc ps i : NoDup ps -> forall (c : chunk) l,
    NoDup (map fst c) -> chunk_rel ps c l ->
    IoPlan.ovals (IoPlan.assoc Z.eqb i l) = chunk_vals_no ps i c.
Proof.
  intros Hps c l Hnd Hr. unfold chunk_rel in Hr. unfold chunk_vals_no.
  induction Hr as [|[k d] [j vl] c l (Hj & vs & Hd & Hvl) _ IH].
  - destruct (chan_path ps i); reflexivity.
  - cbn [fst snd] in *. subst d vl. cbn [map fst] in Hnd. inversion Hnd as [|x y Hnin Hnd']; subst x y.
    specialize (IH Hnd'). cbn [IoPlan.assoc].
    destruct (chan_path ps i) as [p|] eqn:Ep.
    + apply (chan_path_index _ _ _ Hps) in Ep. rewrite chunk_values_cons. unfold entry_values. cbn [fst snd].
      destruct (i =? j) eqn:Eij.
      * apply Z.eqb_eq in Eij. subst j. rewrite (path_index_inj _ _ _ _ Ep Hj), bytes_eqb_refl.
        rewrite (chunk_values_not_in k c Hnin), app_nil_r. reflexivity.
      * destruct (bytes_eqb p k) eqn:Epk.
        { apply bytes_eqb_eq in Epk. subst k. rewrite Hj in Ep. injection Ep as ->.
          rewrite Z.eqb_refl in Eij. discriminate. }
        exact IH.
    + destruct (i =? j) eqn:Eij; [|exact IH].
      apply Z.eqb_eq in Eij. subst j. exfalso. exact (chan_path_none _ _ Ep _ Hj).
Qed.

Lemma chunk_rel_keys ps : forall (c : chunk) l,
    NoDup (map fst c) -> chunk_rel ps c l -> NoDup (map fst l).
Proof.
  intros c l Hnd Hr. unfold chunk_rel in Hr.
  induction Hr as [|kv il c l (Hj & _) Hr' IH]; [constructor|].
  cbn [map] in *. inversion Hnd as [|x y Hnin Hnd']; subst x y. constructor; [|exact (IH Hnd')].
  intros Hin. apply Hnin. clear IH Hnd Hnd' Hnin.
  induction Hr' as [|kv' il' c l (Hj' & _) _ IH']; [contradiction|].
  cbn [map In] in *. destruct Hin as [Heq|Hin]; [left|right; exact (IH' Hin)].
  rewrite Heq in Hj'. exact (path_index_inj _ _ _ _ Hj' Hj).
Qed.

Lemma file_outs_eager ps chans : NoDup ps -> forall cs L before b,
    Forall2 (chunk_rel ps) cs L ->
    Forall (fun c : chunk => NoDup (map fst c)) cs ->
    (forall i, b i = chunks_count_no ps i before) ->
    IoBytesIndex.file_outs chans b L = eager_file_outs ps chans before cs.
Proof.
  intros Hps cs L before b Hr. revert before b.
  induction Hr as [|c l cs L Hc _ IH]; intros before b Hk Hb; [reflexivity|].
  inversion Hk as [|x y Hk1 Hk']; subst x y. cbn [IoBytesIndex.file_outs eager_file_outs]. f_equal.
  - f_equal. apply map_ext. intros i. rewrite Hb, (chunk_rel_assoc ps i Hps c l Hk1 Hc). reflexivity.
  - apply IH; [exact Hk'|]. intros i. rewrite Hb, (chunk_rel_assoc ps i Hps c l Hk1 Hc).
    unfold chunks_count_no, chunk_vals_no. destruct (chan_path ps i) as [p|]; [|reflexivity].
    rewrite chan_values_app, app_length, map_length. unfold chan_values at 3. cbn [flat_map].
    rewrite app_nil_r. lia.
Qed.

Lemma eager_file_chunks_keys : forall gs segs chunkss,
    segs_encode gs segs chunkss ->
    Forall (fun c : chunk => NoDup (map fst c)) (eager_file_chunks gs chunkss).
Proof.
  induction 1 as [|g gs s r cs css Hcs _ IH]; [constructor|].
  unfold eager_file_chunks in *. cbn [combine flat_map fst snd]. apply Forall_app. split; [|exact IH].
  destruct (toc_has (sg_toc g) TOC_RAW); [exact (seg_encodes_nodup_keys g _ cs Hcs)|].
  constructor; [constructor|constructor].
Qed.

(* ---- data objects are channels ------------------------------------------------------------ *)

Lemma dobj_paths_channels h : forall gs segs chunkss pos,
    segs_at pos segs gs -> segs_encode gs segs chunkss ->
    Forall (fun g => io_regular_seg g = true) gs ->
    data_paths_are_channels h (concat chunkss) ->
    Forall (fun g => forall o, In o (data_objs (sg_objs g)) ->
                               In (so_path o) (map ch_path (all_channels h))) gs.
Proof.
  induction gs as [|g gs IH]; intros segs chunkss pos Hat Henc Hreg Hdata; [constructor|].
  inversion Hat as [|pos' s r g' gs' Hg Hat']; subst.
  inversion Henc as [|g' gs'' s' r' cs css Hcs Henc']; subst.
  inversion Hreg as [|x y Hreg1 Hreg']; subst x y.
  constructor.
  - intros o Ho.
    pose proof Hg as (_ & _ & _ & _ & _ & Hcc).
    destruct (seg_encodes_norm g (fs_data s) cs Hcs Hcc) as (il & _ & _ & _ & _ & Hkeys & Hshape).
    destruct (io_regular_seg_parts g Hreg1) as [_ Hraw].
    assert (Hne : data_objs (sg_objs g) <> []) by (intros E; rewrite E in Ho; contradiction).
    assert (Hc : exists c cs', cs = c :: cs').
    { destruct il.
      - destruct Hshape as [(Hd & _)|(_ & c & ->)]; [contradiction|]. exists c, []. reflexivity.
      - destruct (toc_has (sg_toc g) TOC_RAW); [|contradiction]. destruct Hraw as [_ Hn].
        destruct cs as [|c cs']; [cbn [length] in Hshape; lia|]. exists c, cs'. reflexivity. }
    destruct Hc as (c & cs' & ->). inversion Hkeys as [|x y [Hk _] _]; subst x y.
    assert (Hin : In (so_path o) (map fst c)) by (rewrite Hk; apply in_map; exact Ho).
    apply in_map_iff in Hin. destruct Hin as (kv & Hkv & Hkvc).
    destruct (Hdata c kv) as (ch & Hch & Hp & _).
    + cbn [concat]. apply in_or_app. left. left. reflexivity.
    + exact Hkvc.
    + rewrite <- Hkv, <- Hp. apply in_map. exact Hch.
  - apply (IH r css _ Hat' Henc' Hreg'). intros c kv Hc Hkv. apply (Hdata c kv); [|exact Hkv].
    cbn [concat]. apply in_or_app. right. exact Hc.
Qed.

Lemma segs_encode_lengths gs segs chunkss :
  segs_encode gs segs chunkss -> length gs = length chunkss /\ length gs = length segs.
Proof. induction 1 as [|g gs s r cs css _ _ [IH1 IH2]]; cbn [length]; split; congruence. Qed.

(* negative offset / length: ValueError, on any file *)
Theorem io_read_rejects_negative (f : IoPlan.file) i offs len :
  offs < 0 \/ (exists l, len = Some l /\ l < 0) ->
  snd (IoPlan.step f IoPlan.init (IoPlan.Read i offs len)) = IoPlan.OErr.
Proof.
  intros Hneg.
  change (IoPlan.step f IoPlan.init (IoPlan.Read i offs len)) with (IoPlan.do_read f IoPlan.init i offs len).
  unfold IoPlan.do_read.
  replace ((offs <? 0) || match len with Some l => l <? 0 | None => false end) with true; [reflexivity|].
  destruct Hneg as [H|(l & -> & H)]; lia.
Qed.

Section Main.
  Variables (segs : list fseg) (st : rstate) (h : hierarchy) (chunkss : list (list chunk)).
  Hypothesis Hwf : wf_file segs.
  Hypothesis Hrun : sm_run segs false = Ok st.
  Hypothesis Hh : build_hierarchy (rs_om st) = Ok h.
  Hypothesis Henc : segs_encode (rs_segments st) segs chunkss.
  Hypothesis Hcanon : om_paths_canonical (rs_om st).
  Hypothesis Htyped : typed_objects_are_channels (rs_om st).
  Hypothesis Hdist : seg_paths_distinct st.
  Hypothesis Hreg : io_regular st = true.

  Local Notation data := (ser_file segs).
  Local Notation paths := (map ch_path (all_channels h)).
  Local Notation eager p := (chan_values p (concat chunkss)).
  Local Notation chans := (map Z.of_nat (seq 0 (length paths))).

  Lemma paths_nodup : NoDup paths.
  Proof. exact (channel_paths_distinct_ser (rs_om st) h Hh Hcanon). Qed.

  (* ---- (1), (2): the abstract file exists and is well-formed ----------------------------- *)

  Lemma iofile_tie :
    exists st' f,
      rd_metadata data false (Some (blen data)) true = Ok st' /\
      iofile_of st' data = Ok f /\
      IoPlan.wf_file f = true /\
      IoPlan.f_chans f = chans /\
      segs_tie paths (map with_index (rs_segments st)) chunkss (IoPlan.f_segs f).
  Proof.
    destruct (sm_run_with_index segs st Hrun) as (st' & Hrun' & Hsegs & _ & Hom & _).
    pose proof (sm_segment_positions segs true st' Hrun') as Hat.
    pose proof (sm_run_nvals_nonneg segs true st' Hwf Hrun') as Hnv.
    pose proof (segs_encode_with_index _ _ _ Henc) as Henc'. rewrite <- Hsegs in Henc'.
    pose proof (data_paths_are_channels_ser segs false st h chunkss Hrun Hh Henc Hcanon Htyped) as Hdata.
    assert (Hregs : Forall (fun g => io_regular_seg g = true) (rs_segments st')).
    { rewrite Hsegs. apply Forall_map. apply Forall_forall. intros g Hg.
      unfold io_regular in Hreg. rewrite forallb_forall in Hreg. exact (Hreg g Hg). }
    pose proof (dobj_paths_channels h _ _ _ _ Hat Henc' Hregs Hdata) as Hpaths.
    assert (Hfit : Forall (seg_fit paths) (rs_segments st')).
    { apply Forall_forall. intros g Hg. rewrite Forall_forall in Hregs, Hpaths.
      split; [|split; [exact (Hnv g Hg)|split; [exact (Hregs g Hg)|exact (Hpaths g Hg)]]].
      rewrite Hsegs in Hg. apply in_map_iff in Hg. destruct Hg as (g0 & <- & Hg0).
      unfold seg_paths_distinct in Hdist. rewrite Forall_forall in Hdist. exact (Hdist g0 Hg0). }
    destruct (io_loop_ser paths data segs (rs_segments st') chunkss [] Hwf eq_refl Hat Henc' Hfit)
      as (sgs & Hm & Hties & Hlay & Hshape).
    set (f := IoPlan.mkFile chans sgs).
    exists st', f. split; [rewrite (rd_metadata_ser segs true Hwf); exact Hrun'|].
    split; [unfold iofile_of, iofile_with; rewrite Hom, Hh; cbn [bind]; rewrite Hm; reflexivity|].
    split; [|split; [reflexivity|rewrite <- Hsegs; exact Hties]].
    unfold IoPlan.wf_file. subst f. cbn [IoPlan.f_segs IoPlan.f_chans].
    rewrite (segs_tie_wf paths _ _ _ _ sgs sgs Hat Henc' Hfit Hties Hshape).
    change (blen []) with 0 in Hlay. rewrite Hlay.
    rewrite (nodupb_complete _ (nodup_chans _)). reflexivity.
  Qed.

  Theorem iofile_wf :
    exists f, iofile_of_bytes data = Ok f /\ IoPlan.wf_file f = true /\ IoPlan.f_chans f = chans /\
              length (IoPlan.f_segs f) = length segs.
  Proof.
    destruct iofile_tie as (st' & f & Hmd & Hf & Hwff & Hch & Htie).
    exists f. split; [unfold iofile_of_bytes; rewrite Hmd; exact Hf|]. split; [exact Hwff|].
    split; [exact Hch|].
    rewrite <- (segs_tie_length _ _ _ _ Htie), combine_length, map_length.
    destruct (segs_encode_lengths _ _ _ Henc) as [H1 H2]. lia.
  Qed.

  (* ---- (3): the three views in eager terms ----------------------------------------------- *)

  (* channel number -> labelled eager values *)
  Definition eager_vals (i : Z) : list Z :=
    match chan_path paths i with
    | Some p => map lab (eager p)
    | None => []
    end.

  (* channel number -> the outputs of channel.data_chunks() *)
  Definition eager_cseq (i : Z) : list IoPlan.out :=
    IoPlan.with_offsets 0
      (match chan_path paths i with
       | Some p => map (map lab) (eager_chan_chunks p (rs_segments st) chunkss)
       | None => []
       end).

  (* the outputs of tdms_file.data_chunks() for a labelled chunk list *)
  Definition eager_fseq (L : list (list (Z * list Z))) : list IoPlan.out :=
    IoPlan.file_with_offsets (IoPlan.mkFile chans []) [] L.

  Section File.
    Variable f : IoPlan.file.
    Hypothesis Hf : iofile_of_bytes data = Ok f.

    Lemma the_file :
      IoPlan.wf_file f = true /\ IoPlan.f_chans f = chans /\
      segs_tie paths (map with_index (rs_segments st)) chunkss (IoPlan.f_segs f).
    Proof.
      destruct iofile_tie as (st' & f' & Hmd & Hf' & Hwff & Hch & Htie).
      unfold iofile_of_bytes in Hf. rewrite Hmd in Hf. cbn [bind] in Hf. rewrite Hf' in Hf.
      injection Hf as <-. auto.
    Qed.

    Lemma file_vals i : IoPlan.chan_values f i = eager_vals i.
    Proof.
      destruct the_file as (_ & _ & Htie). unfold IoPlan.chan_values, eager_vals.
      destruct (chan_path paths i) as [p|] eqn:E.
      - apply (chan_path_index _ _ _ paths_nodup) in E.
        exact (file_chan_values paths p i E _ segs chunkss _ (segs_encode_with_index _ _ _ Henc) Htie).
      - exact (proj1 (file_chan_none paths i (chan_path_none _ _ E) _ _ _ Htie)).
    Qed.

    Lemma file_cchunks i : IoPlan.chan_gen_chunks f i = eager_cseq i.
    Proof.
      destruct the_file as (_ & _ & Htie). unfold IoPlan.chan_gen_chunks, eager_cseq. f_equal.
      destruct (chan_path paths i) as [p|] eqn:E.
      - apply (chan_path_index _ _ _ paths_nodup) in E.
        rewrite (file_chan_chunks paths p i E _ segs chunkss _ (segs_encode_with_index _ _ _ Henc) Htie).
        rewrite eager_chan_chunks_with_index. reflexivity.
      - exact (proj2 (file_chan_none paths i (chan_path_none _ _ E) _ _ _ Htie)).
    Qed.

    Lemma file_fchunks :
      exists L, label_chunks paths (eager_file_chunks (rs_segments st) chunkss) = Ok L /\
                IoPlan.file_gen_chunks f = eager_fseq L.
    Proof.
      destruct the_file as (_ & Hch & Htie).
      pose proof (file_file_chunks paths _ segs chunkss _ (segs_encode_with_index _ _ _ Henc) Htie) as H.
      rewrite eager_file_chunks_with_index in H.
      exists (flat_map IoPlan.seg_file_chunks (IoPlan.f_segs f)). split; [exact (chunks_rel_label _ _ _ H)|].
      unfold IoPlan.file_gen_chunks, eager_fseq.
      apply IoBytesIndex.file_with_offsets_chans. exact Hch.
    Qed.

    (* the outputs of tdms_file.data_chunks(), from the eager chunks alone *)
    Definition eager_fouts : list IoPlan.out :=
      eager_file_outs paths chans [] (eager_file_chunks (rs_segments st) chunkss).

    Lemma file_fouts : IoPlan.file_gen_chunks f = eager_fouts.
    Proof.
      destruct the_file as (_ & Hch & Htie).
      pose proof (file_file_chunks paths _ segs chunkss _ (segs_encode_with_index _ _ _ Henc) Htie) as H.
      rewrite eager_file_chunks_with_index in H.
      pose proof (eager_file_chunks_keys _ _ _ Henc) as Hk.
      unfold IoPlan.file_gen_chunks, eager_fouts.
      rewrite IoBytesIndex.file_with_offsets_outs.
      - rewrite Hch. apply (file_outs_eager paths chans paths_nodup _ _ [] _ H Hk).
        intros i. unfold chunks_count_no. destruct (chan_path paths i); reflexivity.
      - clear - H Hk. induction H as [|c l cs L Hc _ IH]; [constructor|].
        inversion Hk as [|x y Hk1 Hk']; subst x y.
        constructor; [exact (chunk_rel_keys _ c l Hk1 Hc)|exact (IH Hk')].
    Qed.

    (* len(channel) *)
    Lemma eager_vals_length c i :
      In c (all_channels h) -> path_index (ch_path c) paths = Some i ->
      eager_vals i = map lab (eager (ch_path c)) /\ Z.of_nat (length (eager_vals i)) = ch_len c.
    Proof.
      intros Hc Hi. unfold eager_vals.
      rewrite (proj2 (chan_path_index _ _ _ paths_nodup) Hi). split; [reflexivity|].
      rewrite map_length.
      exact (proj1 (full_read_length_ser segs st h chunkss Hwf Hrun Hh Henc Hcanon Hdist c Hc)).
    Qed.

    (* ---- one operation on a fresh state ------------------------------------------------- *)

    Lemma channel_number c : In c (all_channels h) -> exists i, path_index (ch_path c) paths = Some i.
    Proof. intros Hc. apply path_index_in. apply in_map. exact Hc. Qed.

    (* channel.read_data(offs, len) *)
    Theorem io_read_is_lazy_read c i offs len :
      In c (all_channels h) -> path_index (ch_path c) paths = Some i ->
      0 <= offs -> len_nonneg len ->
      exists vs, lz_read_bytes data (ch_path c) offs len = Ok vs /\
                 vs = window_of offs len (eager (ch_path c)) /\
                 snd (IoPlan.step f IoPlan.init (IoPlan.Read i offs len)) = IoPlan.OVals (map lab vs).
    Proof.
      intros Hc Hi Ho Hl. exists (window_of offs len (eager (ch_path c))).
      split; [exact (lazy_is_window_of_eager segs st h chunkss Hwf Hrun Hh Henc Hcanon Hdist c offs len Hc Ho Hl)|].
      split; [reflexivity|].
      destruct the_file as (Hwff & _).
      change (IoPlan.step f IoPlan.init (IoPlan.Read i offs len)) with (IoPlan.do_read f IoPlan.init i offs len).
      destruct (IoPlanProofs.do_read_spec f IoPlan.init i offs len (IoPlanProofs.tbl_ok_nil f)) as (H & _).
      rewrite H. unfold IoPlanProofs.read_out.
      replace ((offs <? 0) || match len with Some l => l <? 0 | None => false end) with false
        by (destruct len; cbn in Hl; lia).
      unfold IoPlan.window. rewrite (file_vals i), (proj1 (eager_vals_length c i Hc Hi)).
      unfold window_of, zfirstn, zskipn.
      destruct len; rewrite skipn_map; [rewrite firstn_map|]; reflexivity.
    Qed.

    Definition lab_index (E : list bytes) (k : Z) : IoPlan.out :=
      match py_index E k with Ok x => IoPlan.OVal (lab x) | Err _ => IoPlan.OErr end.

    Lemma list_index_lab E k : IoBytesIndex.list_index (map lab E) k = lab_index E k.
    Proof.
      unfold IoBytesIndex.list_index, lab_index, py_index, zlen. rewrite map_length.
      set (n := Z.of_nat (length E)).
      replace (if k <? 0 then k + n else k) with (if k <? 0 then n + k else k) by (destruct (k <? 0); lia).
      set (k' := if k <? 0 then n + k else k).
      destruct ((k' <? 0) || (n <=? k')) eqn:E1.
      - replace ((0 <=? k') && (k' <? n)) with false by lia. reflexivity.
      - replace ((0 <=? k') && (k' <? n)) with true by lia. rewrite nth_error_map.
        destruct (nth_error E (Z.to_nat k')); reflexivity.
    Qed.

    (* channel[k] *)
    Theorem io_index_is_eager_index c i k :
      In c (all_channels h) -> path_index (ch_path c) paths = Some i ->
      snd (IoPlan.step f IoPlan.init (IoPlan.Index i k)) = lab_index (eager (ch_path c)) k.
    Proof.
      intros Hc Hi. destruct the_file as (Hwff & _).
      change (IoPlan.step f IoPlan.init (IoPlan.Index i k)) with (IoPlan.do_index f IoPlan.init i k).
      destruct (IoPlanProofs.do_index_spec f IoPlan.init i k Hwff (IoPlanProofs.tbl_ok_nil f)) as (H & _).
      { intros ch ce Hce. discriminate. }
      rewrite H, (IoBytesIndex.index_value f i k Hwff), (file_vals i), (proj1 (eager_vals_length c i Hc Hi)).
      apply list_index_lab.
    Qed.

    Definition lab_slice (E : list bytes) (a b s : option Z) : IoPlan.out :=
      match py_slice3 E a b s with Ok vs => IoPlan.OVals (map lab vs) | Err _ => IoPlan.OErr end.

    Lemma every_aux_map {A B} (g : A -> B) : forall (l : list A) K j,
        every_aux K j (map g l) = map g (every_aux K j l).
    Proof.
      induction l as [|x l IH]; intros K j; [reflexivity|].
      cbn [map every_aux]. destruct j; cbn [map]; rewrite IH; reflexivity.
    Qed.

    Lemma slice_out_lab E a b s : IoBytesIndex.slice_out (map lab E) a b s = lab_slice E a b s.
    Proof.
      unfold IoBytesIndex.slice_out, lab_slice, py_slice3, zlen. rewrite map_length.
      destruct (_ =? 0); [reflexivity|].
      destruct (_ >? 0); unfold every, sl, zfirstn, zskipn;
        rewrite ?skipn_map, ?firstn_map, <- ?map_rev, every_aux_map; reflexivity.
    Qed.

    (* channel[a:b:s], zero-length channels included *)
    Theorem io_slice_is_eager_slice c i a b s :
      In c (all_channels h) -> path_index (ch_path c) paths = Some i ->
      snd (IoPlan.step f IoPlan.init (IoPlan.Slice i a b s)) = lab_slice (eager (ch_path c)) a b s /\
      run_slice (fun o l => lz_read_bytes data (ch_path c) o (Some l)) (ch_len c) a b s
      = py_slice3 (eager (ch_path c)) a b s.
    Proof.
      intros Hc Hi. split.
      - destruct the_file as (Hwff & _). destruct (eager_vals_length c i Hc Hi) as [Hv Hl].
        change (IoPlan.step f IoPlan.init (IoPlan.Slice i a b s)) with (IoPlan.do_slice f IoPlan.init i a b s).
        rewrite (IoBytesIndex.slice_value f i a b s Hwff), (file_vals i), Hv. apply slice_out_lab.
      - exact (lazy_slice_correct segs st h chunkss Hwf Hrun Hh Henc Hcanon Hdist c a b s Hc).
    Qed.

    (* for chunk in channel.data_chunks(): the n-th next() *)
    Theorem io_chan_iterator c i n :
      In c (all_channels h) -> path_index (ch_path c) paths = Some i ->
      IoPlan.fresh_out f (IoPlan.ANext (IoPlan.KChan i) n)
      = IoBytesIndex.nth_or_stop
          (IoPlan.with_offsets 0 (map (map lab) (eager_chan_chunks (ch_path c) (rs_segments st) chunkss))) n /\
      concat (eager_chan_chunks (ch_path c) (rs_segments st) chunkss) = eager (ch_path c).
    Proof.
      intros Hc Hi. destruct the_file as (Hwff & _). split.
      - rewrite (IoPlanProofs.fresh_seq_spec f (IoPlan.KChan i) n Hwff). cbn [IoPlan.gen_chunks].
        rewrite (file_cchunks i). unfold eager_cseq.
        rewrite (proj2 (chan_path_index _ _ _ paths_nodup) Hi). reflexivity.
      - exact (eager_chan_chunks_concat _ _ _ _ _ (sm_segment_positions segs false st Hrun) Henc).
    Qed.

    (* for chunk in tdms_file.data_chunks(): the n-th next() *)
    Theorem io_file_iterator n :
      IoPlan.fresh_out f (IoPlan.ANext IoPlan.KFile n) = IoBytesIndex.nth_or_stop eager_fouts n.
    Proof.
      destruct the_file as (Hwff & _).
      rewrite (IoPlanProofs.fresh_seq_spec f IoPlan.KFile n Hwff). cbn [IoPlan.gen_chunks].
      rewrite file_fouts. reflexivity.
    Qed.

    (* ---- (4): all histories ------------------------------------------------------------- *)

    Theorem history_independent_bytes ops :
      snd (IoPlan.run f IoPlan.init ops)
      = map (IoBytesIndex.spec_out eager_vals eager_cseq eager_fouts) (IoPlan.annotate ops).
    Proof.
      destruct the_file as (Hwff & _).
      rewrite (IoBytesIndex.run_values f ops Hwff).
      apply map_ext. intros a. apply IoBytesIndex.spec_out_ext.
      - exact file_vals.
      - exact file_cchunks.
      - exact file_fouts.
    Qed.

    (* the invariant of Props/C05.v holds along the way *)
    Theorem history_inv_bytes ops : IoPlanProofs.Inv f (fst (IoPlan.run f IoPlan.init ops)).
    Proof.
      destruct the_file as (Hwff & _). exact (proj1 (IoPlanProofs.history_independent_E f ops Hwff)).
    Qed.
  End File.
End Main.
