(* The running-offset accounting of TdmsChannel.data_chunks / TdmsFile.data_chunks, TRANSLATED
   (Gen/PyFuncsLazyIdx.v), against the generator frames of Model/IoPlan.v (property C05):
   with_offsets / file_with_offsets hand every chunk object exactly the translated offsets. *)
From Coq Require Import ZArith List Bool Lia ZifyBool.
Import ListNotations.
From NpTdms Require Import Base.Bytes Base.Res Base.PySlice Model.Tokens Model.SegState Model.IoPlan
     Gen.PyFuncsLazyIdx Proofs.SegStateProofs Proofs.IoPlanProofs Proofs.GenLazyIdxEquiv.
Local Open Scope Z_scope.

(* channel.data_chunks(): the chunk objects of the model carry the translated offsets *)
Lemma with_offsets_running : forall (cs : list (list Z)) acc,
  with_offsets acc cs
  = map (fun ov => OChunk (fst ov) (Vals (snd ov))) (combine (running acc (map (fun vs => Z.of_nat (length vs)) cs)) cs).
Proof.
  induction cs as [|vs r IH]; intros acc; cbn [with_offsets map running combine]; [reflexivity|].
  rewrite IH. reflexivity.
Qed.

Theorem channel_offsets_translated (cs : list (list Z)) offs :
  channel_data_chunks_gen (map (fun vs => Z.of_nat (length vs)) cs) = Ok offs ->
  with_offsets 0 cs = map (fun ov => OChunk (fst ov) (Vals (snd ov))) (combine offs cs).
Proof. rewrite channel_data_chunks_eq. intros H. injection H as <-. apply with_offsets_running. Qed.

(* tdms_file.data_chunks(): channels are numbers in IoPlan and path strings in the code *)
Section FileOffsets.
  Variable key : Z -> bytes.
  Hypothesis key_inj : forall a b, key a = key b -> a = b.

  Definition dflt0 (o : option Z) : Z := match o with Some x => x | None => 0 end.

  Definition off_rel (a : alist Z) (o : list (Z * Z)) : Prop :=
    forall ch, alookup_z0 (key ch) a = dflt0 (assoc Z.eqb ch o).

  Definition enc_lens (c : list (Z * Z)) : list (bytes * Z) := map (fun cn => (key (fst cn), snd cn)) c.

  Lemma add_lens_rel : forall c a o, off_rel a o -> off_rel (add_chunk_lens a (enc_lens c)) (add_lens o c).
  Proof.
    induction c as [|[ch n] r IH]; intros a o H; cbn [enc_lens map add_chunk_lens add_lens fst snd]; [exact H|].
    apply IH. intros ch'. unfold alookup_z0 at 1. rewrite alookup_aset.
    destruct (Z.eq_dec ch' ch) as [->|Hne].
    - rewrite bytes_eqb_refl, (assoc_set_same Z.eqb zeqb_spec). cbn [dflt0].
      pose proof (H ch) as Hc. unfold dflt0 in Hc. rewrite Hc. reflexivity.
    - assert (bytes_eqb (key ch') (key ch) = false) as -> by (apply bytes_eqb_neq; intros E; apply key_inj in E; contradiction).
      rewrite (assoc_set_other Z.eqb zeqb_spec) by exact Hne. apply H.
  Qed.

  Lemma file_chunk_out_rel f a o l : off_rel a o ->
    file_chunk_out f o l
    = OFChunk (map (fun ch => (ch, (alookup_z0 (key ch) a, odata (assoc Z.eqb ch l)))) (f_chans f)).
  Proof.
    intros H. unfold file_chunk_out. f_equal. apply map_ext. intros ch. rewrite (H ch). reflexivity.
  Qed.

  Definition chunk_lens (c : list (Z * list Z)) : list (Z * Z) := map (fun cv => (fst cv, Z.of_nat (length (snd cv)))) c.

  Lemma file_with_offsets_running f : forall l a o, off_rel a o ->
    file_with_offsets f o l
    = map (fun yc => OFChunk (map (fun ch => (ch, (alookup_z0 (key ch) (fst yc),
                                                   odata (assoc Z.eqb ch (map (fun cv => (fst cv, Vals (snd cv))) (snd yc))))))
                                  (f_chans f)))
          (combine (running_offsets a (map (fun c => enc_lens (chunk_lens c)) l)) l).
  Proof.
    induction l as [|c r IH]; intros a o H; cbn [file_with_offsets map running_offsets combine fst snd]; [reflexivity|].
    rewrite (file_chunk_out_rel f a o _ H). f_equal. apply IH. apply add_lens_rel. exact H.
  Qed.

  (* every DataChunk of the model is built with the translated channel_offsets *)
  Theorem file_offsets_translated f (l : list (list (Z * list Z))) ys :
    file_data_chunks_gen (map (fun c => enc_lens (chunk_lens c)) l) = Ok ys ->
    file_with_offsets f [] l
    = map (fun yc => OFChunk (map (fun ch => (ch, (alookup_z0 (key ch) (fst yc),
                                                   odata (assoc Z.eqb ch (map (fun cv => (fst cv, Vals (snd cv))) (snd yc))))))
                                  (f_chans f)))
          (combine ys l).
  Proof.
    rewrite file_data_chunks_eq. intros H. injection H as <-. apply file_with_offsets_running.
    intros ch. reflexivity.
  Qed.
End FileOffsets.
