(* The headline statements of Props/C01.v (decoders invert the encoders) and Props/C15.v (the byte order does not
   change the meaning) carried over to the functions TRANSLATED from the source (Gen/PyFuncsDecode.v), through the
   equalities of Proofs/GenDecodeEquiv.v; and the seek-over walk of _read_channel_data_chunk related to the
   model's sequential chunk decoder. *)
From Coq Require Import String Ascii.
From Coq Require Import ZArith List Bool Lia ZifyBool.
From Coq Require Import Init.Byte.
Import ListNotations.
From NpTdms Require Import Base.Bytes Base.Res Base.PySlice Model.Tokens Model.TokensWf Model.SegState Model.Layout Model.Reader
     Gen.TypeTable Gen.PyFuncsReader Gen.PyFuncsDecode Proofs.SegStateProofs Proofs.TokensRoundtrip Proofs.LayoutProofs
     Proofs.DaqmxProofs Proofs.GenReaderEquiv Proofs.GenDecodeEquiv.
Local Open Scope Z_scope.
Ltac Zify.zify_post_hook ::= Z.to_euclidean_division_equations.

(* ---- property values ------------------------------------------------------------------------------------------------ *)

(* tdms_segment.read_property on the serialisation of a property, either byte order: its name and its value *)
Theorem read_property_roundtrip e p rest :
  wf_prop p = true -> utf8_valid (p_name p) = true -> (p_type p = T_STRING -> utf8_valid (p_val p) = true) ->
  mapr (fun x => (fst (fst x), pyval_toks (snd (fst x)), snd x)) (read_property_gen (ser_prop e p ++ rest) e)
  = Ok (p_name p, obs_prop_value (p_type p) (p_val p), rest).
Proof.
  intros Hwf Hn Hv. rewrite read_property_eq, parse_prop_ser by exact Hwf. cbn [mapr fst snd].
  rewrite str_fix_valid by exact Hn. rewrite prop_fix_valid by exact Hv. reflexivity.
Qed.

Corollary read_property_endian_irrelevant e e' p rest :
  wf_prop p = true -> utf8_valid (p_name p) = true -> (p_type p = T_STRING -> utf8_valid (p_val p) = true) ->
  mapr (fun x => (fst (fst x), pyval_toks (snd (fst x)), snd x)) (read_property_gen (ser_prop e p ++ rest) e)
  = mapr (fun x => (fst (fst x), pyval_toks (snd (fst x)), snd x)) (read_property_gen (ser_prop e' p ++ rest) e').
Proof. intros H1 H2 H3. rewrite !read_property_roundtrip by assumption. reflexivity. Qed.

(* <class>.read on a stored value, either byte order *)
Theorem tds_read_roundtrip e ty v rest :
  readable_prop_type ty = true -> prop_val_ok ty v = true -> (ty = T_STRING -> utf8_valid v = true) ->
  mapr (fun p => (pyval_toks (fst p), snd p)) (tds_read_gen ty (ser_prop_value e ty v ++ rest) e)
  = Ok (obs_prop_value ty v, rest).
Proof.
  intros Hr Hok Hv. destruct (readable_tds_size ty Hr) as [s Hs].
  rewrite tds_read_eq by congruence. rewrite parse_prop_value_ser by assumption. cbn [mapr fst snd].
  rewrite prop_fix_valid by exact Hv. reflexivity.
Qed.

(* ---- values of one object ---------------------------------------------------------------------------------------------- *)

Lemma vals_ok_obj n o vs : vals_ok n o vs -> obj_ok o /\ 0 <= n.
Proof.
  intros [Hn Hok]. split; [|lia]. unfold obj_ok, data_type_ok.
  destruct (so_dtype o) as [dt|]; [|contradiction]. exists dt. split; [reflexivity|].
  destruct (tds_size dt) as [[sz|]|] eqn:Hs; [exact I|exact (proj1 Hok)|].
  destruct Hok as [-> _]. discriminate Hs.
Qed.

(* TdmsSegmentObject.read_values inverts the encoders (every sized type incl. complex and timestamps, strings),
   either byte order, anything following *)
Theorem segobj_read_values_roundtrip e o n vs rest :
  vals_ok n o vs -> decode_neutral o vs ->
  mapr (fun p => (pydata_values (fst p), snd p)) (segobj_read_values_gen o (enc_obj e o vs ++ rest) n e)
  = Ok (Some vs, rest).
Proof.
  intros Hok Hneu. destruct (vals_ok_obj n o vs Hok) as [[dt [Hdt Hdok]] Hn].
  rewrite (segobj_read_values_eq e o n _ dt Hdt Hdok Hn). rewrite read_values_roundtrip by exact Hok.
  cbn [mapr fst snd]. rewrite (decode_neutral_fix o dt vs Hdt Hneu). reflexivity.
Qed.

Corollary segobj_read_values_endian_irrelevant e e' o n vs rest :
  vals_ok n o vs -> decode_neutral o vs ->
  mapr (fun p => (pydata_values (fst p), snd p)) (segobj_read_values_gen o (enc_obj e o vs ++ rest) n e)
  = mapr (fun p => (pydata_values (fst p), snd p)) (segobj_read_values_gen o (enc_obj e' o vs ++ rest) n e').
Proof. intros H1 H2. rewrite !segobj_read_values_roundtrip by assumption. reflexivity. Qed.

(* <class>.from_bytes on the stored bytes of [vs], either byte order: the array holds [vs] *)
Theorem from_bytes_roundtrip e ty sz vs :
  tds_size ty = Some (Some sz) -> Forall (fun v => blen v = sz) vs ->
  exists a, tds_from_bytes_gen ty (mkArr U1 (enc_values e ty vs)) e = Ok a /\ arr_values a = Some vs.
Proof.
  intros Hs Hvs. pose proof (tds_size_pos _ _ Hs) as Hpos.
  assert (Hmod : (blen (enc_values e ty vs) mod sz =? 0) = true).
  { rewrite (enc_values_blen e ty sz vs Hvs). rewrite Z.mod_mul by lia. reflexivity. }
  destruct (dec_cls_nptype ty) as [d|] eqn:Hd.
  - destruct (numeric_from_bytes_eq ty d sz (enc_values e ty vs) e Hd Hs) as [Hg Hv]. rewrite Hg, Hmod.
    eexists. split; [reflexivity|]. rewrite Hv. rewrite items_enc_values by assumption. reflexivity.
  - assert (Hnp : has_nptype ty = false).
    { pose proof (dec_nptype_some ty) as H. rewrite Hd in H. cbn in H. destruct (has_nptype ty); [discriminate|reflexivity]. }
    destruct (sized_no_nptype_is_time ty sz Hnp Hs) as [-> ->].
    rewrite timestamp_from_bytes_eq, Hmod. eexists. split; [reflexivity|].
    rewrite ts_values. rewrite items_enc_values by assumption. reflexivity.
Qed.

(* ---- contiguous chunks --------------------------------------------------------------------------------------------------- *)

Lemma enc_chunk_strings_valid e ci nc fin : forall ovs rest,
    Forall (fun ov => vals_ok (chunk_nvals (fst ov) ci nc fin) (fst ov) (snd ov)) ovs ->
    Forall (fun ov => decode_neutral (fst ov) (snd ov)) ovs ->
    chunk_strings_valid e (map fst ovs) ci nc fin (enc_chunk e ovs ++ rest).
Proof.
  induction ovs as [|[o vs] ovs IH]; intros rest Hok Hneu; [exact I|].
  inversion Hok as [|? ? Ho Hok']; subst. inversion Hneu as [|? ? Hn Hneu']; subst. cbn [fst snd] in *.
  cbn [map fst chunk_strings_valid]. unfold enc_chunk. cbn [flat_map fst snd]. rewrite <- app_assoc.
  rewrite read_values_roundtrip by exact Ho. split; [exact Hn|]. apply IH; assumption.
Qed.

Theorem contig_read_data_chunk_roundtrip e ci nc fin ovs rest :
  Forall (fun ov => vals_ok (chunk_nvals (fst ov) ci nc fin) (fst ov) (snd ov)) ovs ->
  Forall (fun ov => decode_neutral (fst ov) (snd ov)) ovs ->
  NoDup (map (fun ov => so_path (fst ov)) ovs) ->
  mapr (fun p => (rawchunk_chunk (fst p), snd p))
       (contig_read_data_chunk_gen nc fin e (enc_chunk e ovs ++ rest) (map fst ovs) ci)
  = Ok (Some (chunk_of ovs), rest).
Proof.
  intros Hok Hneu Hnd.
  rewrite contig_read_data_chunk_eq.
  - rewrite read_contig_chunk_roundtrip_final by assumption. reflexivity.
  - apply Forall_map. eapply Forall_impl; [|exact Hok]. intros [o vs] H. exact (proj1 (vals_ok_obj _ _ _ H)).
  - apply Forall_map. eapply Forall_impl; [|exact Hok]. intros [o vs] H. exact (proj2 (vals_ok_obj _ _ _ H)).
  - apply enc_chunk_strings_valid; assumption.
Qed.

Corollary contig_read_data_chunk_endian_irrelevant e e' ci nc fin ovs rest :
  Forall (fun ov => vals_ok (chunk_nvals (fst ov) ci nc fin) (fst ov) (snd ov)) ovs ->
  Forall (fun ov => decode_neutral (fst ov) (snd ov)) ovs ->
  NoDup (map (fun ov => so_path (fst ov)) ovs) ->
  mapr (fun p => (rawchunk_chunk (fst p), snd p))
       (contig_read_data_chunk_gen nc fin e (enc_chunk e ovs ++ rest) (map fst ovs) ci)
  = mapr (fun p => (rawchunk_chunk (fst p), snd p))
         (contig_read_data_chunk_gen nc fin e' (enc_chunk e' ovs ++ rest) (map fst ovs) ci).
Proof. intros H1 H2 H3. rewrite !contig_read_data_chunk_roundtrip by assumption. reflexivity. Qed.

(* ---- interleaved segments -------------------------------------------------------------------------------------------------- *)

Theorem interleaved_read_data_chunks_roundtrip e objs nchunks nv rows rest :
  objs <> [] ->
  Forall (fun o => so_nvals o = nv) objs ->
  Forall (fun o => sized o <> None) objs ->
  NoDup (map so_path objs) ->
  Forall (row_ok objs) rows ->
  nv * nchunks = Z.of_nat (length rows) ->
  mapr (fun p => (chunks_abs (fst p), snd p)) (interleaved_read_data_chunks_gen e (enc_rows e objs rows ++ rest) objs nchunks)
  = Ok (Some [cols_of objs rows], rest).
Proof.
  intros Hne Hnv Hsz Hnd Hrows Hlen.
  rewrite interleaved_read_data_chunks_eq.
  - rewrite (read_interleaved_roundtrip e objs nchunks nv rows rest) by assumption. reflexivity.
  - exact Hsz.
  - intros o0 Ho0. destruct objs as [|o r]; [discriminate|]. injection Ho0 as <-.
    inversion Hnv; subst. lia.
Qed.

Corollary interleaved_read_data_chunks_endian_irrelevant e e' objs nchunks nv rows rest :
  objs <> [] ->
  Forall (fun o => so_nvals o = nv) objs ->
  Forall (fun o => sized o <> None) objs ->
  NoDup (map so_path objs) ->
  Forall (row_ok objs) rows ->
  nv * nchunks = Z.of_nat (length rows) ->
  mapr (fun p => (chunks_abs (fst p), snd p)) (interleaved_read_data_chunks_gen e (enc_rows e objs rows ++ rest) objs nchunks)
  = mapr (fun p => (chunks_abs (fst p), snd p)) (interleaved_read_data_chunks_gen e' (enc_rows e' objs rows ++ rest) objs nchunks).
Proof. intros. rewrite !(interleaved_read_data_chunks_roundtrip _ objs nchunks nv rows rest) by assumption. reflexivity. Qed.

(* ---- the channel walk and the sequential chunk decoder ------------------------------------------------------------------------ *)

Lemma read_contig_chunk_keeps e ci nc fin path : forall objs cur acc c rest,
    read_contig_chunk e objs ci nc fin cur acc = Ok (c, rest) -> ~ In path (map so_path objs) ->
    alookup path c = alookup path acc.
Proof.
  induction objs as [|o objs IH]; intros cur acc c rest H Hnin.
  - cbn in H. injection H as <- _. reflexivity.
  - cbn [read_contig_chunk] in H.
    destruct (read_values e o (chunk_nvals o ci nc fin) cur) as [[vs cur1]|]; cbn [bind] in H; [|discriminate].
    rewrite (IH _ _ _ _ H) by (intros Hin; apply Hnin; right; exact Hin).
    rewrite alookup_aset. destruct (bytes_eqb path (so_path o)) eqn:E; [|reflexivity].
    apply bytes_eqb_eq in E. exfalso. apply Hnin. left. symmetry. exact E.
Qed.

(* what the sequential walk to the channel returns is the channel's entry of the chunk the model decodes *)
Theorem seq_channel_chunk_is_entry e ci nc fin path : forall objs cur acc c rest,
    read_contig_chunk e objs ci nc fin cur acc = Ok (c, rest) ->
    NoDup (map so_path objs) -> In path (map so_path objs) ->
    exists vs cur1, seq_channel_chunk e objs ci nc fin path cur = Ok (Some vs, cur1)
                    /\ alookup path c = Some (CData vs).
Proof.
  induction objs as [|o objs IH]; intros cur acc c rest H Hnd Hin; [destruct Hin|].
  cbn [read_contig_chunk seq_channel_chunk] in *. cbn [map] in Hnd, Hin. inversion Hnd as [|? ? Hnin Hnd']; subst.
  destruct (read_values e o (chunk_nvals o ci nc fin) cur) as [[vs cur1]|]; cbn [bind] in *; [|discriminate].
  destruct (bytes_eqb (so_path o) path) eqn:E.
  - apply bytes_eqb_eq in E. subst path. exists vs, cur1. split; [reflexivity|].
    rewrite (read_contig_chunk_keeps e ci nc fin (so_path o) _ _ _ _ _ H Hnin).
    rewrite alookup_aset, bytes_eqb_refl. reflexivity.
  - destruct Hin as [Heq|Hin]; [subst path; rewrite bytes_eqb_refl in E; discriminate|].
    exact (IH _ _ _ _ H Hnd' Hin).
Qed.
