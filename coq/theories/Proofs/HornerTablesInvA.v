(* Proofs/HornerTablesInvA.v -- inverse tables, types B, E, J, K: per piece the rounding bound of
   Proofs/HornerTables.v holds (computed coefficient by coefficient with `interval`).
   Also: the inverse tables over R are the float tables carried into R. *)
From Coq Require Import Reals ZArith List Lra Bool.
From Coq Require Import PrimFloat FloatOps.
From Flocq Require Import Core BinarySingleNaN.
From Interval Require Import Tactic.
Import ListNotations.
From NpTdms Require Import Gen.ThermoTables.
From NpTdms Require Import Model.ThermoR.
From NpTdms Require Import Proofs.HornerRound.
From NpTdms Require Import Proofs.HornerTables.
Open Scope R_scope.

(* the PrimFloat literals of the inverse tables denote the hex real literals next to them *)
Lemma inv_tables_FR : forall T, map piece_FR (code_invF T) = map Some (code_invR T).
Proof. intros T. tables_FR_tac T. Qed.

Lemma inv_pieces_ok_B :
  all2 (piece_ok (fst (inv_range TB)) (snd (inv_range TB))) (code_invR TB) (inv_Xe TB).
Proof. pieces_ok_tac. Qed.

Lemma inv_pieces_ok_E :
  all2 (piece_ok (fst (inv_range TE)) (snd (inv_range TE))) (code_invR TE) (inv_Xe TE).
Proof. pieces_ok_tac. Qed.

Lemma inv_pieces_ok_J :
  all2 (piece_ok (fst (inv_range TJ)) (snd (inv_range TJ))) (code_invR TJ) (inv_Xe TJ).
Proof. pieces_ok_tac. Qed.

Lemma inv_pieces_ok_K :
  all2 (piece_ok (fst (inv_range TK)) (snd (inv_range TK))) (code_invR TK) (inv_Xe TK).
Proof. pieces_ok_tac. Qed.
