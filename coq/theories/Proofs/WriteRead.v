(* C07 composed: what TdmsWriter writes is what TdmsFile reads.

   read_writer_file   the reader model on the file syntax of ANY list of sorted
                      calls (well-formed objects, distinct paths per call, one
                      data type per channel, every channel's group declared)
                      returns the content tokens of the concatenated calls;
   write_read         the same for the bytes Model/Writer.v produces from a
                      list of sessions, against [content_tokens_of_calls]
                      (defined from the calls alone, Proofs/WriteReadSpec.v).

   Steps: WriteReadBytes (bytes = ser_file of a syntax), WriteReadState (the
   metadata pass on it), WriteReadHier (the hierarchy), WriteReadData (the data
   pass, including segments whose channels are all empty), and here the
   assembly plus the comparison of the file's object sequence with the
   specification's [obj_seq]. *)
From Coq Require Import List ZArith Bool Lia ZifyBool.
From Coq Require Import Init.Byte.
Import ListNotations.
From NpTdms Require Import Base.Bytes Base.Res Model.Tokens Model.TokensWf Model.ByteStr
  Model.StrictParse Model.Writer Proofs.TokensRoundtrip Proofs.ByteStrProofs Proofs.StrictParseProofs
  Proofs.WriterProofs.
From NpTdms Require Import Model.SegState Model.Layout Model.Reader Model.FileSyn
  Proofs.SegStateProofs Proofs.LayoutProofs Proofs.FileSynProofs Proofs.ReadCorrect
  Proofs.WriteReadSpec Proofs.WriteReadBytes Proofs.WriteReadState Proofs.WriteReadHier
  Proofs.WriteReadData Proofs.WriteReadCalls.
Local Open Scope Z_scope.

(* ---- channels of the content hierarchy ------------------------------------------------------- *)

Lemma all_channels_content S ch :
  In ch (all_channels (content_hierarchy S)) <->
  exists g c, ch = content_channel S g c /\ In g (group_names S) /\ In c (chan_names g S).
Proof.
  unfold all_channels, content_hierarchy. cbn [h_groups]. rewrite in_flat_map. split.
  - intros [kg [Hkg Hch]]. apply in_map_iff in Hkg. destruct Hkg as [g [<- Hg]].
    cbn [snd content_group g_chans] in Hch. rewrite map_map in Hch. cbn [snd] in Hch.
    apply in_map_iff in Hch. destruct Hch as [c [<- Hc]]. exists g, c. auto.
  - intros (g & c & -> & Hg & Hc). exists (g, content_group S g). split.
    + apply in_map_iff. exists g. auto.
    + cbn [snd content_group g_chans]. rewrite map_map. cbn [snd]. apply in_map_iff. exists c. auto.
Qed.

Lemma dtypes_of_in p S d :
  In d (dtypes_of p S) ->
  exists o, In o S /\ is_typed o = true /\ obj_dtype o = d /\ obj_path o = p.
Proof.
  unfold dtypes_of. rewrite in_flat_map. intros [o [Ho Hd]]. unfold at_path in Hd.
  destruct (bytes_eqb p (obj_path o)) eqn:E; [|destruct Hd]. apply bytes_eqb_eq in E.
  exists o. destruct o as [ps|g ps|g c dt vs ps]; cbn [obj_dtypes] in Hd; try destruct Hd.
  cbn [is_typed obj_dtype]. destruct (dt =? T_VOID); [destruct Hd|].
  destruct Hd as [<-|[]]. auto.
Qed.

Lemma typed_in_dtypes S o :
  In o S -> is_typed o = true -> In (obj_dtype o) (dtypes_of (obj_path o) S).
Proof.
  intros Hin Ht. unfold dtypes_of. apply in_flat_map. exists o. split; [exact Hin|].
  unfold at_path. rewrite bytes_eqb_refl, (typed_dtypes o Ht). left. reflexivity.
Qed.

Lemma typed_is_chan o : is_typed o = true -> exists g c dt vs ps, o = WChan g c dt vs ps.
Proof. destruct o as [ps|g ps|g c dt vs ps]; cbn [is_typed]; try discriminate. eauto 6. Qed.

Lemma chan_in_content S g c dt vs ps :
  groups_present S -> In (WChan g c dt vs ps) S ->
  In (content_channel S g c) (all_channels (content_hierarchy S)).
Proof.
  intros Hgp Hin. apply all_channels_content. exists g, c. split; [reflexivity|]. split.
  - unfold group_names. apply (proj2 (dedup_in _ _)). exact (Hgp _ _ _ _ _ Hin).
  - unfold chan_names. apply (proj2 (dedup_in _ _)). apply in_flat_map.
    eexists. split; [exact Hin|]. cbn [chan_name_of]. rewrite bytes_eqb_refl. left. reflexivity.
Qed.

(* ---- segments: decode, status ----------------------------------------------------------------- *)

Lemma segs_decode_writer : forall sl gs pos,
  sl_ok sl -> Forall2 seg_rel sl gs -> segs_at pos (fsegs_of sl) gs ->
  segs_decode gs (fsegs_of sl) (map (fun vs => chunks_of (snd vs)) sl).
Proof.
  induction sl as [|vs sl IH]; intros gs pos Hok HF2 Hat.
  - inversion HF2; subst. constructor.
  - inversion HF2 as [|x g y gs' Hrel HF2']; subst.
    inversion Hok as [|x y [Hwf Hnd] Hok']; subst.
    cbn [fsegs_of map] in Hat. inversion Hat as [|pos' s r g' gs'' Hg Hat']; subst.
    cbn [fsegs_of map]. constructor; [|exact (IH gs' _ Hok' HF2' Hat')].
    destruct Hrel as (Htoc & prev & Hk & Hobjs & Hn & Hf).
    destruct Hg as (_ & _ & _ & _ & Hinc & _).
    cbn [fs_data fseg_of]. exact (writer_decodes g prev (snd vs) Htoc Hinc Hobjs Hn Hf Hwf Hnd).
Qed.

Lemma segs_at_complete : forall segs gs pos,
  segs_at pos segs gs -> Forall (fun g => sg_incomplete g = false) gs.
Proof.
  induction segs as [|s r IH]; intros gs pos Hat; inversion Hat as [|p s' r' g gs' Hg Hat']; subst;
    constructor; [|exact (IH _ _ Hat')].
  destruct Hg as (_ & _ & _ & _ & Hinc & _). exact Hinc.
Qed.

Lemma seg_rel_final sl gs : Forall2 seg_rel sl gs -> Forall (fun g => sg_final g = None) gs.
Proof.
  induction 1 as [|vs g sl gs Hrel _ IH]; constructor; [|exact IH].
  destruct Hrel as (_ & prev & _ & _ & _ & Hf). exact Hf.
Qed.

Lemma obs_status_complete st :
  Forall (fun g => sg_incomplete g = false) (rs_segments st) ->
  Forall (fun g => sg_final g = None) (rs_segments st) ->
  obs_status st = [TZ 0; TZ 0].
Proof.
  intros Hi Hf. unfold obs_status. destruct (rev (rs_segments st)) as [|g r] eqn:E; [reflexivity|].
  assert (Hin : In g (rs_segments st)) by (apply in_rev; rewrite E; left; reflexivity).
  rewrite Forall_forall in Hi, Hf. rewrite (Hi g Hin), (Hf g Hin). reflexivity.
Qed.

(* ---- the reader on the file syntax of sorted calls ------------------------------------------- *)

Theorem read_writer_file sl :
  sl_ok sl ->
  wf_file (fsegs_of sl) ->
  consistent (flat_map snd sl) ->
  groups_present (flat_map snd sl) ->
  rd_all (ser_file (fsegs_of sl)) =
  Ok (content_tokens_of_seq (sl_version sl) (flat_map snd sl), true).
Proof.
  intros Hok Hwf Hc Hgp. set (S := flat_map snd sl) in *.
  destruct (sm_run_writer sl Hok Hc) as (st & Hrun & Hinv & HF2). fold S in Hinv.
  pose proof (build_hierarchy_writer S _ _ Hinv Hgp) as Hh.
  destruct (sm_run_trace _ _ _ Hrun) as (Hat & _ & _ & _ & Hver).
  pose proof (segs_decode_writer sl _ 0 Hok HF2 Hat) as Hdec.
  set (chunkss := map (fun vs : Z * list wobj => chunks_of (snd vs)) sl) in *.
  assert (Hwfs : Forall (fun vs : Z * list wobj => forallb wf_obj (snd vs) = true) sl).
  { eapply Forall_impl; [|exact Hok]. intros vs [H _]. exact H. }
  assert (HwfS : forall o, In o S -> wf_obj o = true).
  { intros o Ho. unfold S in Ho. apply in_flat_map in Ho. destruct Ho as [vs [Hvs Ho]].
    rewrite Forall_forall in Hwfs. specialize (Hwfs vs Hvs). rewrite forallb_forall in Hwfs. exact (Hwfs o Ho). }
  assert (Hvals : forall p, chan_values p (concat chunkss) = values_at p S).
  { intros p. exact (chan_values_file p sl Hwfs). }
  assert (Hpaths : data_paths_are_channels (content_hierarchy S) (concat chunkss)).
  { intros c kv Hc' Hkv. apply in_concat in Hc'. destruct Hc' as [cs [Hcs Hc']].
    apply in_map_iff in Hcs. destruct Hcs as [vs [<- Hvs]].
    unfold chunks_of in Hc'. destruct (seg_nch (snd vs) =? 0); [destruct Hc'|].
    destruct Hc' as [<-|[]]. apply in_map_iff in Hkv. destruct Hkv as [o [<- Ho]].
    apply filter_In in Ho. destruct Ho as [Ho Ht].
    assert (HoS : In o S) by (apply in_flat_map; exists vs; split; assumption).
    destruct (typed_is_chan o Ht) as (g & c & dt & vals & ps & ->).
    exists (content_channel S g c). split; [exact (chan_in_content S g c dt vals ps Hgp HoS)|].
    split; [reflexivity|]. cbn [content_channel ch_dtype]. rewrite dtype_at_dtypes.
    pose proof (typed_in_dtypes S _ HoS Ht) as Hd. cbn [obj_path] in Hd.
    destruct (dtypes_of (chan_path g c) S); [destruct Hd|discriminate]. }
  assert (Hnd : no_daqmx_channels (content_hierarchy S)).
  { intros ch Hch Hd. apply all_channels_content in Hch. destruct Hch as (g & c & -> & _ & _).
    cbn [content_channel ch_dtype] in Hd. rewrite dtype_at_dtypes in Hd.
    destruct (dtypes_of (chan_path g c) S) as [|d r] eqn:Ed; [discriminate|]. injection Hd as ->.
    destruct (dtypes_of_in (chan_path g c) S T_DAQMX) as (o & Ho & Ht & Hdt & _); [rewrite Ed; left; reflexivity|].
    destruct (typed_tds_size o (HwfS o Ho) Ht) as [[Hs _]|(k & Hk & _ & _)]; rewrite Hdt in *; discriminate. }
  assert (Hcanon : om_paths_canonical (rs_om st)).
  { intros p m g c Hin Hp.
    assert (Hk : In p (map fst (rs_om st))) by (apply in_map_iff; exists (p, m); auto).
    rewrite (inv_keys _ _ _ Hinv) in Hk. apply (proj1 (dedup_in _ _)) in Hk.
    apply in_map_iff in Hk. destruct Hk as [o [<- _]]. rewrite pfs_obj in Hp.
    destruct o as [ps|g' ps|g' c' dt vs ps]; try discriminate. injection Hp as -> ->. apply pts_chan. }
  pose proof (channel_paths_distinct_ser _ _ Hh Hcanon) as Hdist.
  assert (Hlen : lengths_consistent (content_hierarchy S) (concat chunkss)).
  { intros ch Hch _. apply all_channels_content in Hch. destruct Hch as (g & c & -> & _ & _).
    cbn [content_channel ch_path ch_len]. rewrite Hvals. reflexivity. }
  rewrite (read_correct_decodes _ st _ chunkss Hwf Hrun Hh Hdec Hpaths Hnd Hdist Hlen).
  f_equal. f_equal. unfold expected_tokens, content_tokens_of_seq. f_equal; [|f_equal].
  - rewrite Hver. destruct sl as [|vs sl']; reflexivity.
  - apply obs_hierarchy_ext. intros ch Hch. unfold expected_data, content_data. rewrite Hvals. reflexivity.
  - apply obs_status_complete; [exact (segs_at_complete _ _ _ Hat)|exact (seg_rel_final _ _ HF2)].
Qed.

(* ---- file sequence vs. specification sequence ------------------------------------------------- *)

Lemma at_path_blank {B} (f : wobj -> list B) p :
  f (WRoot []) = [] -> (forall g, f (WGroup g []) = []) -> blank_vanish (at_path p f).
Proof.
  intros Hr Hg. split; [|intros g]; unfold at_path.
  - rewrite Hr. destruct (bytes_eqb p (obj_path (WRoot []))); reflexivity.
  - rewrite Hg. destruct (bytes_eqb p (obj_path (WGroup g []))); reflexivity.
Qed.

Lemma chan_name_blank g : blank_vanish (chan_name_of g).
Proof. split; reflexivity. Qed.

Lemma content_equiv v S C :
  (forall B (h : wobj -> list B), blank_vanish h -> flat_map h S = flat_map h C) ->
  group_names S = group_names C ->
  content_tokens_of_seq v S = content_tokens_of_seq v C.
Proof.
  intros Hfm Hgn.
  assert (Hp : forall p, props_at p S = props_at p C).
  { intros p. unfold props_at. rewrite (Hfm _ (at_path p obj_props)); [reflexivity|].
    apply at_path_blank; reflexivity. }
  assert (Hv : forall p, values_at p S = values_at p C).
  { intros p. unfold values_at. apply Hfm. apply at_path_blank; reflexivity. }
  assert (Hd : forall p, dtype_at p S = dtype_at p C).
  { intros p. unfold dtype_at. rewrite (Hfm _ (at_path p obj_dtypes)); [reflexivity|].
    apply at_path_blank; reflexivity. }
  assert (Hc : forall g, chan_names g S = chan_names g C).
  { intros g. unfold chan_names. rewrite (Hfm _ (chan_name_of g) (chan_name_blank g)). reflexivity. }
  assert (Hch : forall g c, content_channel S g c = content_channel C g c).
  { intros g c. unfold content_channel. rewrite Hp, Hv, Hd. reflexivity. }
  assert (Hg : forall g, content_group S g = content_group C g).
  { intros g. unfold content_group. rewrite Hp, Hc. f_equal. apply map_ext. intros c. rewrite Hch. reflexivity. }
  assert (Hh : content_hierarchy S = content_hierarchy C).
  { unfold content_hierarchy. rewrite Hp, Hgn. f_equal. apply map_ext. intros g. rewrite Hg. reflexivity. }
  unfold content_tokens_of_seq. rewrite Hh. f_equal. f_equal.
  apply obs_hierarchy_ext. intros c _. unfold content_data. rewrite Hv. reflexivity.
Qed.

Lemma all_same_spec l a b : all_same l = true -> In a l -> In b l -> a = b.
Proof.
  destruct l as [|x r]; intros H Ha Hb; [destruct Ha|].
  cbn [all_same] in H. rewrite forallb_forall in H.
  assert (Hx : forall y, In y (x :: r) -> y = x).
  { intros y [<-|Hy]; [reflexivity|]. specialize (H y Hy). lia. }
  rewrite (Hx a Ha), (Hx b Hb). reflexivity.
Qed.

Lemma consistent_of_bool ss : dtypes_consistent ss = true -> consistent (obj_seq ss).
Proof.
  unfold dtypes_consistent. intros H p d1 d2 H1 H2. rewrite forallb_forall in H.
  destruct (dtypes_of_in p _ d1 H1) as (o & Ho & Ht & _ & Hp).
  assert (Hc : is_chan o = true) by (destruct (typed_is_chan o Ht) as (g & c & dt & vs & ps & ->); reflexivity).
  specialize (H o (proj2 (filter_In _ _ _) (conj Ho Hc))). rewrite Hp in H.
  exact (all_same_spec _ d1 d2 H H1 H2).
Qed.

(* ---- the theorem ------------------------------------------------------------------------------------ *)

Theorem write_read_lemma : forall sessions data index,
  Writer.wf_file sessions = true ->
  sizes_below_marker sessions = true ->
  dtypes_consistent sessions = true ->
  wr_file sessions = Ok (data, index) ->
  rd_all data = Ok (content_tokens_of_calls sessions, true).
Proof.
  intros sessions data index Hwf Hsz Hdt Hwr.
  destruct (writer_bytes_are_ser_file sessions data index Hwf Hsz Hwr) as (sl & Hsl & HF & Hwfs & ->).
  destruct (file_trace sessions sl Hsl) as (T1 & T2 & Tgp & Tnd & Tver).
  assert (Hok : sl_ok sl).
  { unfold sl_ok. rewrite Forall_forall in *. intros vs Hvs. split; [exact (proj1 (HF vs Hvs))|exact (Tnd vs Hvs)]. }
  assert (Hc : consistent (flat_map snd sl)).
  { pose proof (consistent_of_bool sessions Hdt) as HcC. intros p d1 d2.
    unfold dtypes_of. rewrite (T1 _ (at_path p obj_dtypes)) by (apply at_path_blank; reflexivity).
    apply (HcC p). }
  rewrite (read_writer_file sl Hok Hwfs Hc Tgp). f_equal. f_equal.
  unfold content_tokens_of_calls. rewrite Tver. apply content_equiv; [exact T1|].
  unfold group_names. unfold dedup. exact (T2 []).
Qed.
