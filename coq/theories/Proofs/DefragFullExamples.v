(* Concrete instances for Props/C10_full.v: a source file with an untyped
   channel, an EMPTY string channel and an EMPTY raw-timestamp channel, with
   property types that defragment re-types (int8, uint8, single, bool). *)
From Coq Require Import List ZArith Bool.
From Coq Require Import Init.Byte.
Import ListNotations.
From NpTdms Require Import Base.Bytes Base.Res Model.Tokens Model.TokensWf Model.ByteStr
  Model.StrictParse Model.Writer Model.Defrag.
From NpTdms Require Import Model.SegState Model.Layout Model.Reader Model.FileSyn
  Proofs.SegStateInherit Proofs.LayoutProofs Proofs.FileSynProofs Proofs.ReadCorrect
  Proofs.WriteReadSpec Proofs.WriteReadBytes Proofs.DefragRead Proofs.DefragFull.
Local Open Scope Z_scope.

Section DxExample.
Import String.
Local Open Scope string_scope.

(* Segment 1 (ToC 14: metadata, new object list, raw data): root with an int8
   property -3 and a single-precision property 1.5; group g; channel a (int32,
   2 values per chunk, a uint8 property 200); channel s (string, 0 values);
   channel n (no raw data index at all, a bool property); channel t (raw
   timestamps, 0 values).  Segment 2 (ToC 8: no metadata) repeats the layout
   with two more values for a. *)
Definition dx_path_a : bytes := hex "2f2767272f276127".
Definition dx_path_s : bytes := hex "2f2767272f277327".
Definition dx_path_n : bytes := hex "2f2767272f276e27".
Definition dx_path_t : bytes := hex "2f2767272f277427".

Definition dx_file : list fseg :=
  [ mkFseg 14 4713
      (Some [ mkEntry (hex "2f") INoData [mkProp (hex "69") 1 (hex "fd"); mkProp (hex "66") 9 (hex "0000c03f")];
              mkEntry (hex "2f276727") INoData [];
              mkEntry dx_path_a (IFull 20 3 1 2 None) [mkProp (hex "75") 5 (hex "c8")];
              mkEntry dx_path_s (IFull 28 T_STRING 1 0 (Some 0)) [];
              mkEntry dx_path_n INoData [mkProp (hex "62") T_BOOL (hex "01")];
              mkEntry dx_path_t (IFull 20 T_TIME 1 0 None) [] ])
      (hex "0100000002000000");
    mkFseg 8 4713 None (hex "0300000004000000") ].

Definition dx_st : rstate := match sm_run dx_file false with Ok st => st | Err _ => rstate0 end.
Definition dx_h : hierarchy :=
  match build_hierarchy (rs_om dx_st) with Ok h => h | Err _ => mkHier [] [] end.

Definition dx_obj_a : sobj := mkSobj dx_path_a true 2 8 (Some 3) None.
Definition dx_obj_s : sobj := mkSobj dx_path_s true 0 0 (Some T_STRING) None.
Definition dx_obj_t : sobj := mkSobj dx_path_t true 0 0 (Some T_TIME) None.

Definition dx_values : list (list (list (list bytes))) :=
  [ [ [ [hex "01000000"; hex "02000000"]; []; [] ] ];
    [ [ [hex "03000000"; hex "04000000"]; []; [] ] ] ].

Definition dx_chunks : list (list chunk) :=
  map (map (fun vss => [(dx_path_a, CData (nth 0 vss [])); (dx_path_s, CData (nth 1 vss []));
                        (dx_path_t, CData (nth 2 vss []))]))
      dx_values.

Example dx_wf : wf_file dx_file.
Proof. unfold wf_file. vm_compute. reflexivity. Qed.

Example dx_run : sm_run dx_file false = Ok dx_st.
Proof. vm_compute. reflexivity. Qed.

Example dx_hier : build_hierarchy (rs_om dx_st) = Ok dx_h.
Proof. vm_compute. reflexivity. Qed.

Example dx_encodes : segs_encode (rs_segments dx_st) dx_file dx_chunks.
Proof.
  assert (Hsegs : rs_segments dx_st = [nth 0 (rs_segments dx_st) (mkSeg 0 0 0 0 false [] [] 0 None);
                                        nth 1 (rs_segments dx_st) (mkSeg 0 0 0 0 false [] [] 0 None)])
    by (vm_compute; reflexivity).
  rewrite Hsegs. clear Hsegs.
  unfold dx_file, dx_chunks, dx_values. cbn [map].
  constructor; [|constructor; [|constructor]].
  - eapply (rc_seg_contig _ _ [dx_obj_a; dx_obj_s; dx_obj_t] (nth 0 dx_values [])).
    + vm_compute. reflexivity.
    + vm_compute. reflexivity.
    + vm_compute. reflexivity.
    + vm_compute. reflexivity.
    + unfold dx_values. cbn [nth]. repeat constructor.
    + unfold dx_values. cbn [nth]. repeat constructor.
    + vm_compute. reflexivity.
    + vm_compute. reflexivity.
  - eapply (rc_seg_contig _ _ [dx_obj_a; dx_obj_s; dx_obj_t] (nth 1 dx_values [])).
    + vm_compute. reflexivity.
    + vm_compute. reflexivity.
    + vm_compute. reflexivity.
    + vm_compute. reflexivity.
    + unfold dx_values. cbn [nth]. repeat constructor.
    + unfold dx_values. cbn [nth]. repeat constructor.
    + vm_compute. reflexivity.
    + vm_compute. reflexivity.
Qed.

Example dx_canonical : om_paths_canonical (rs_om dx_st).
Proof. apply om_paths_canonical_b_sound. vm_compute. reflexivity. Qed.

Example dx_typed_channels : typed_objects_are_channels (rs_om dx_st).
Proof. apply typed_objects_are_channels_b_sound. vm_compute. reflexivity. Qed.

End DxExample.
