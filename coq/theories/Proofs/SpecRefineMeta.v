(* Refinement of the reader model to Model/Spec.v — the metadata pass.

   Simulation between the specification's state (active list with "has data"
   marks, most recent index per path, content so far) and the state of the
   model's segment state machine (previous segment's object list, global
   previous-object map, per-object metadata):
     - the previous segment's list IS [objs_of (active) (last)];
     - the global map holds, for every object of the content, the object
       [mk_obj p _ (last p)];
     - the per-object metadata lists the content's objects in the same order
       with the same properties and data type.
   One listed object ([sim_entry]), a metadata block ([sim_entries]), the
   per-object metadata update ([sim_touch], [sim_props]).  The mechanism's
   positional index map is removed first with
   SegStateInherit.positional_update_is_update_by_path (C02). *)
From Coq Require Import List ZArith Bool Lia ZifyBool.
From Coq Require Import Init.Byte.
Import ListNotations.
From NpTdms Require Import Base.Bytes Base.Res Model.Tokens Model.TokensWf Model.SegState Model.Layout
     Model.Reader Model.FileSyn Model.Spec Proofs.SegStateProofs Proofs.LayoutProofs
     Proofs.FileSynProofs Proofs.SegStateInherit Proofs.ReadCorrect Proofs.SpecRefineBase.
Local Open Scope Z_scope.

Ltac to_model :=
  repeat match goal with
         | |- context [@get ?V ?k ?d] => change (@get V k d) with (@alookup V k d)
         | |- context [@put ?V ?k ?v ?d] => change (@put V k v d) with (@aset V k v d)
         | H : context [@get ?V ?k ?d] |- _ => change (@get V k d) with (@alookup V k d) in H
         | H : context [@put ?V ?k ?v ?d] |- _ => change (@put V k v d) with (@aset V k v d) in H
         end.

(* ---- generic facts about ordered dictionaries -------------------------------- *)

Lemma alookup_some_in_keys {V} (k : bytes) (v : V) (l : alist V) :
  alookup k l = Some v -> In k (map fst l).
Proof. intros H. apply alookup_In in H. apply (in_map fst) in H. exact H. Qed.

Lemma in_keys_alookup {V} (k : bytes) (l : alist V) :
  In k (map fst l) -> alookup k l <> None.
Proof. intros H E. exact (alookup_none_not_in _ _ E H). Qed.

Lemma alookup_aset_same {V} (k : bytes) (v : V) (l : alist V) :
  alookup k l = Some v -> aset k v l = l.
Proof.
  induction l as [|[k' v'] r IH]; cbn [alookup aset]; [discriminate|].
  destruct (bytes_eqb k k') eqn:E.
  - intros H. injection H as ->. reflexivity.
  - intros H. rewrite (IH H). reflexivity.
Qed.

Lemma alookup_aset_eq {V} (k : bytes) (v : V) (l : alist V) : alookup k (aset k v l) = Some v.
Proof. rewrite alookup_aset, bytes_eqb_refl. reflexivity. Qed.

Lemma alookup_aset_neq {V} (p k : bytes) (v : V) (l : alist V) :
  p <> k -> alookup p (aset k v l) = alookup p l.
Proof. intros H. rewrite alookup_aset. apply bytes_eqb_neq in H. rewrite H. reflexivity. Qed.

(* two dictionaries related entry by entry stay related under the same update *)
Section Rel.
  Context {A B : Type} (R : bytes * A -> bytes * B -> Prop).
  Hypothesis R_key : forall x y, R x y -> fst x = fst y.

  Lemma rel_aset k (a : A) (b : B) la lb :
    Forall2 R la lb -> R (k, a) (k, b) -> Forall2 R (aset k a la) (aset k b lb).
  Proof.
    intros H Hab. induction H as [|[ka va] [kb vb] la lb Hxy H IH]; cbn [aset].
    - constructor; [exact Hab|constructor].
    - pose proof (R_key _ _ Hxy) as Hk. cbn [fst] in Hk. subst kb.
      destruct (bytes_eqb k ka) eqn:E.
      + apply bytes_eqb_eq in E. subst ka. constructor; [exact Hab|exact H].
      + constructor; [exact Hxy|exact IH].
  Qed.

  Lemma rel_alookup k la lb :
    Forall2 R la lb ->
    match alookup k la, alookup k lb with
    | Some a, Some b => R (k, a) (k, b)
    | None, None => True
    | _, _ => False
    end.
  Proof.
    intros H. induction H as [|[ka va] [kb vb] la lb Hxy H IH]; cbn [alookup]; [exact I|].
    pose proof (R_key _ _ Hxy) as Hk. cbn [fst] in Hk. subst kb.
    destruct (bytes_eqb k ka) eqn:E; [|exact IH].
    apply bytes_eqb_eq in E. subst ka. exact Hxy.
  Qed.

  Lemma rel_keys la lb : Forall2 R la lb -> map fst la = map fst lb.
  Proof.
    intros H. induction H as [|x y la lb Hxy H IH]; cbn [map]; [reflexivity|].
    rewrite (R_key _ _ Hxy), IH. reflexivity.
  Qed.
End Rel.

(* ---- the model's object list for an active list -------------------------------- *)

Definition isd (a : option rawidx) : bool := match a with Some _ => true | None => false end.

Definition objs_of (act : dict (option rawidx)) (lst : dict rawidx) : list sobj :=
  map (fun pa => mk_obj (fst pa) (isd (snd pa)) (alookup (fst pa) lst)) act.

Lemma mk_obj_path p hd oi : so_path (mk_obj p hd oi) = p.
Proof. destruct oi; reflexivity. Qed.

Lemma mk_obj_has_data p hd oi : so_has_data (mk_obj p hd oi) = hd.
Proof. destruct oi; reflexivity. Qed.

Lemma mk_obj_daqmx p hd oi : so_daqmx (mk_obj p hd oi) = None.
Proof. destruct oi; reflexivity. Qed.

Lemma mk_obj_dtype p hd oi : so_dtype (mk_obj p hd oi) = option_map ri_dt oi.
Proof. destruct oi; reflexivity. Qed.

Lemma set_has_data_mk p hd oi b : set_has_data (mk_obj p hd oi) b = mk_obj p b oi.
Proof. destruct oi; reflexivity. Qed.

Lemma objs_of_paths act lst : map so_path (objs_of act lst) = map fst act.
Proof.
  unfold objs_of. rewrite map_map. apply map_ext. intros [p a]. apply mk_obj_path.
Qed.

Lemma objs_of_ext act lst lst' :
  (forall q, In q (map fst act) -> alookup q lst' = alookup q lst) ->
  objs_of act lst' = objs_of act lst.
Proof.
  intros H. unfold objs_of. apply map_ext_in. intros [q a] Hin. cbn [fst snd].
  rewrite H; [reflexivity|]. apply (in_map fst) in Hin. exact Hin.
Qed.

Lemma find_path_objs_of p lst : forall act,
  find_path p (objs_of act lst) =
  match alookup p act with
  | Some a => Some (mk_obj p (isd a) (alookup p lst))
  | None => None
  end.
Proof.
  induction act as [|[k a] r IH]; cbn [objs_of map find_path alookup fst snd]; [reflexivity|].
  rewrite mk_obj_path. destruct (bytes_eqb p k) eqn:E.
  - apply bytes_eqb_eq in E. subst k. reflexivity.
  - exact IH.
Qed.

(* update in place *)
Lemma replace_path_objs_of p a lst lst' : forall act,
  NoDup (map fst act) ->
  alookup p act <> None ->
  (forall q, q <> p -> alookup q lst' = alookup q lst) ->
  replace_path p (mk_obj p (isd a) (alookup p lst')) (objs_of act lst) = objs_of (aset p a act) lst'.
Proof.
  induction act as [|[k a0] r IH]; intros Hnd Hin Hagree; [contradiction Hin; reflexivity|].
  cbn [objs_of map replace_path aset fst snd]. rewrite mk_obj_path.
  cbn [map fst] in Hnd. apply NoDup_cons_iff in Hnd. destruct Hnd as [Hk Hnd].
  destruct (bytes_eqb p k) eqn:E.
  - apply bytes_eqb_eq in E. subst k. cbn [map fst snd]. f_equal.
    symmetry. apply objs_of_ext. intros q Hq. apply Hagree. intros ->. exact (Hk Hq).
  - cbn [map fst snd]. apply bytes_eqb_neq in E. rewrite (Hagree k) by congruence. f_equal.
    apply IH; [exact Hnd| |exact Hagree].
    cbn [alookup] in Hin. apply bytes_eqb_neq in E. rewrite E in Hin. exact Hin.
Qed.

(* append *)
Lemma append_objs_of p a lst lst' act :
  alookup p act = None ->
  (forall q, q <> p -> alookup q lst' = alookup q lst) ->
  objs_of act lst ++ [mk_obj p (isd a) (alookup p lst')] = objs_of (aset p a act) lst'.
Proof.
  intros Hnone Hagree.
  rewrite (aset_fresh p a act) by (apply alookup_none_not_in; exact Hnone).
  unfold objs_of at 2. rewrite map_app. cbn [map fst snd]. f_equal.
  symmetry. apply objs_of_ext. intros q Hq. apply Hagree. intros ->.
  exact (alookup_none_not_in _ _ Hnone Hq).
Qed.

(* ---- one listed object: the model's three update functions on [mk_obj] ---------- *)

Lemma new_object_index_of p lf dt dim n total i :
  index_of dt dim n total = Some i ->
  new_object p (IFull lf dt dim n total) = Ok (mk_obj p true (Some i)).
Proof.
  unfold index_of, type_size, new_object. intros H.
  destruct (dim =? 1) eqn:Edim; cbn [negb] in H |- *; cbv beta iota in H; [|discriminate].
  destruct (tds_size dt) as [[sz|]|] eqn:Esz; cbv beta iota in H.
  - injection H as <-. cbn [andb negb]. reflexivity.
  - destruct total as [t|]; [|discriminate].
    destruct (dt =? T_STRING) eqn:Es; cbv beta iota in H; [|discriminate]. injection H as <-.
    cbn [andb negb]. reflexivity.
  - destruct total as [t|]; [|discriminate].
    destruct (dt =? T_STRING) eqn:Es; cbv beta iota in H; [|discriminate].
    apply Z.eqb_eq in Es. subst dt. discriminate Esz.
Qed.

Lemma index_of_idx_ok dt dim n total i :
  index_of dt dim n total = Some i -> 0 <= n -> (forall t, total = Some t -> 0 <= t) ->
  ri_dt i = dt /\ idx_ok0 i.
Proof.
  unfold index_of, idx_ok0. intros H Hn Ht.
  destruct (negb (dim =? 1)); [discriminate|].
  destruct (type_size dt) as [sz|] eqn:Esz.
  - injection H as <-. cbn [ri_dt ri_n ri_bytes]. rewrite Esz. split; [reflexivity|].
    assert (0 < sz).
    { unfold type_size in Esz. destruct (tds_size dt) as [[s|]|] eqn:E; try discriminate.
      injection Esz as ->. exact (tds_size_pos dt sz E). }
    split; [exact Hn|]. split; [nia|reflexivity].
  - destruct total as [t|]; [|discriminate].
    destruct (dt =? T_STRING) eqn:Es; cbv beta iota in H; [|discriminate]. injection H as <-.
    cbn [ri_dt ri_n ri_bytes]. rewrite Esz. split; [reflexivity|].
    split; [exact Hn|]. split; [apply Ht; reflexivity|lia].
Qed.

(* a well-formed full index has counts that fit their fields *)
Lemma wf_entry_full x lf dt dim n total :
  wf_entry x = true -> e_idx x = IFull lf dt dim n total ->
  0 <= n /\ forall t, total = Some t -> 0 <= t.
Proof.
  unfold wf_entry. intros H E. rewrite E in H. unfold wf_idx, is_u64 in H.
  split; [lia|]. intros t ->. lia.
Qed.

(* update_existing and reuse_previous are the same function *)
Lemma update_existing_mk p hd oi (x : idx) :
  update_existing (mk_obj p hd oi) x =
  match x with
  | INoData => Ok (mk_obj p false oi)
  | IMatchPrev => Ok (mk_obj p true oi)
  | _ => new_object p x
  end.
Proof.
  unfold update_existing. rewrite mk_obj_has_data, mk_obj_path.
  destruct x; try reflexivity; destruct hd; rewrite ?set_has_data_mk; reflexivity.
Qed.

Lemma reuse_previous_mk p hd oi (x : idx) :
  reuse_previous (mk_obj p hd oi) x =
  match x with
  | INoData => Ok (mk_obj p false oi)
  | IMatchPrev => Ok (mk_obj p true oi)
  | _ => new_object p x
  end.
Proof. exact (update_existing_mk p hd oi x). Qed.

(* ---- simulation of one metadata block -------------------------------------------- *)

(* what is known about the global map: it holds exactly the content's objects,
   each as the object its most recent index describes *)
Definition prev_rel (prev : alist sobj) (c : dict cobj) (lst : dict rawidx) : Prop :=
  forall p, match alookup p c with
            | None => alookup p prev = None
            | Some _ => exists hd, alookup p prev = Some (mk_obj p hd (alookup p lst))
            end.

Section Entries.
  Variable prev : alist sobj.
  Variable c0 : dict cobj.          (* content at the start of the block (unchanged by entries) *)
  Variable last0 : dict rawidx.     (* most recent indexes at the start of the block *)
  Hypothesis Hprev : prev_rel prev c0 last0.

  Record J (st : sstate) (done : list bytes) : Prop := mkJ {
    j_objs : objs st = c0;
    j_nodup : NoDup (map fst (active st));
    j_act_last : forall p i, In (p, Some i) (active st) -> alookup p (last st) = Some i;
    j_last_other : forall p, ~ In p done -> alookup p (last st) = alookup p last0;
    j_act_known : forall p, In p (map fst (active st)) -> In p done \/ alookup p c0 <> None;
    j_dt : forall p i0, alookup p last0 = Some i0 ->
                        exists i, alookup p (last st) = Some i /\ ri_dt i = ri_dt i0;
    j_idx_ok : forall p i, alookup p (last st) = Some i -> idx_ok0 i;
    j_last_known : forall p i, alookup p (last st) = Some i -> In p done \/ alookup p c0 <> None;
    j_done_act : forall p, In p done -> In p (map fst (active st)) }.

  Lemma In_aset_keys {V} p k (v : V) l : In p (map fst (aset k v l)) -> p = k \/ In p (map fst l).
  Proof.
    intros H. destruct (alookup k l) eqn:E.
    - rewrite aset_keys_in in H by (rewrite E; discriminate). right. exact H.
    - rewrite aset_keys_new in H by exact E. apply in_app_or in H.
      destruct H as [H|[<-|[]]]; [right; exact H|left; reflexivity].
  Qed.

  Lemma aset_keys_incl {V} p k (v : V) l : In p (map fst l) -> In p (map fst (aset k v l)).
  Proof.
    intros H. destruct (alookup k l) eqn:E.
    - rewrite aset_keys_in by (rewrite E; discriminate). exact H.
    - rewrite aset_keys_new by exact E. apply in_or_app. left. exact H.
  Qed.

  Lemma aset_key_in {V} k (v : V) l : In k (map fst (aset k v l)).
  Proof. apply (alookup_some_in_keys k v). apply alookup_aset_eq. Qed.

  Lemma In_aset_some {V} p k (v x : V) l :
    NoDup (map fst l) -> In (p, x) (aset k v l) -> (p = k /\ x = v) \/ (p <> k /\ In (p, x) l).
  Proof.
    intros Hnd H. pose proof (aset_keys_nodup k v l Hnd) as Hnd'.
    pose proof (alookup_in_nodup p x _ Hnd' H) as Hl. rewrite alookup_aset in Hl.
    destruct (bytes_eqb p k) eqn:E.
    - injection Hl as <-. apply bytes_eqb_eq in E. left. split; [exact E|reflexivity].
    - apply bytes_eqb_neq in E. right. split; [exact E|]. apply alookup_In. exact Hl.
  Qed.

  (* the state after a listed object that keeps the indexes *)
  Lemma J_keep st done p a :
    J st done -> ~ In p done ->
    (forall i, a = Some i -> alookup p (last st) = Some i) ->
    J (mkSstate (aset p a (active st)) (last st) (objs st)) (p :: done).
  Proof.
    intros HJ Hp Ha. destruct HJ as [H1 H2 H3 H4 H5 H6 H7 H8 H9].
    constructor; cbn [active last objs].
    - exact H1.
    - apply aset_keys_nodup. exact H2.
    - intros q i Hin. apply (In_aset_some q p a (Some i) _ H2) in Hin.
      destruct Hin as [[-> <-]|[_ Hin]]; [apply Ha; reflexivity|exact (H3 q i Hin)].
    - intros q Hq. apply H4. intros Hin. apply Hq. right. exact Hin.
    - intros q Hq. apply In_aset_keys in Hq. destruct Hq as [->|Hq]; [left; left; reflexivity|].
      destruct (H5 q Hq) as [Hd|Hk]; [left; right; exact Hd|right; exact Hk].
    - exact H6.
    - exact H7.
    - intros q i Hq. destruct (H8 q i Hq) as [Hd|Hk]; [left; right; exact Hd|right; exact Hk].
    - intros q [<-|Hq]; [apply aset_key_in|apply aset_keys_incl; exact (H9 q Hq)].
  Qed.

  (* the state after a listed object with a full index *)
  Lemma J_full st done p i :
    J st done -> ~ In p done -> idx_ok0 i ->
    (forall i0, alookup p (last st) = Some i0 -> ri_dt i = ri_dt i0) ->
    J (mkSstate (aset p (Some i) (active st)) (aset p i (last st)) (objs st)) (p :: done).
  Proof.
    intros HJ Hp Hok Hdt. destruct HJ as [H1 H2 H3 H4 H5 H6 H7 H8 H9].
    constructor; cbn [active last objs].
    - exact H1.
    - apply aset_keys_nodup. exact H2.
    - intros q j Hin. apply (In_aset_some q p _ (Some j) _ H2) in Hin.
      destruct Hin as [[-> Hj]|[Hne Hin]].
      + injection Hj as ->. apply alookup_aset_eq.
      + rewrite alookup_aset_neq by exact Hne. exact (H3 q j Hin).
    - intros q Hq. rewrite alookup_aset_neq; [apply H4; intros Hin; apply Hq; right; exact Hin|].
      intros ->. apply Hq. left. reflexivity.
    - intros q Hq. apply In_aset_keys in Hq. destruct Hq as [->|Hq]; [left; left; reflexivity|].
      destruct (H5 q Hq) as [Hd|Hk]; [left; right; exact Hd|right; exact Hk].
    - intros q i0 Hq. destruct (H6 q i0 Hq) as (j & Hj & Hjdt).
      rewrite alookup_aset. destruct (bytes_eqb q p) eqn:E.
      + apply bytes_eqb_eq in E. subst q. exists i. split; [reflexivity|].
        rewrite (Hdt j Hj). exact Hjdt.
      + exists j. split; [exact Hj|exact Hjdt].
    - intros q j Hq. rewrite alookup_aset in Hq. destruct (bytes_eqb q p).
      + injection Hq as <-. exact Hok.
      + exact (H7 q j Hq).
    - intros q j Hq. rewrite alookup_aset in Hq. destruct (bytes_eqb q p) eqn:E.
      + apply bytes_eqb_eq in E. subst q. left. left. reflexivity.
      + destruct (H8 q j Hq) as [Hd|Hk]; [left; right; exact Hd|right; exact Hk].
    - intros q [<-|Hq]; [apply aset_key_in|apply aset_keys_incl; exact (H9 q Hq)].
  Qed.

  (* what the global map holds for a path not yet listed in this block *)
  Lemma prev_lookup st done p :
    J st done -> ~ In p done ->
    match alookup p c0 with
    | None => alookup p prev = None
    | Some _ => exists hd, alookup p prev = Some (mk_obj p hd (alookup p (last st)))
    end.
  Proof.
    intros HJ Hp. pose proof (Hprev p) as H. destruct (alookup p c0); [|exact H].
    destruct H as (hd & H). exists hd. rewrite (j_last_other _ _ HJ p Hp). exact H.
  Qed.

  (* model step = by-path step on the list built from the specification's state *)
  Lemma sim_entry st done x st' :
    J st done -> ~ In (e_path x) done -> entry_ok x = true -> wf_entry x = true ->
    apply_entry st x = SOk st' ->
    spec_step prev (objs_of (active st) (last st)) x = Ok (objs_of (active st') (last st')) /\
    J st' (e_path x :: done).
  Proof.
    intros HJ Hp Hok Hwfx Hap. pose proof (prev_lookup st done (e_path x) HJ Hp) as Hpl.
    unfold apply_entry in Hap. to_model. unfold spec_step. rewrite find_path_objs_of.
    set (p := e_path x) in *.
    assert (Hact : alookup p (active st) <> None -> alookup p c0 <> None).
    { intros Hin. destruct (alookup p (active st)) as [a|] eqn:Ea; [|contradiction Hin; reflexivity].
      apply alookup_some_in_keys in Ea. destruct (j_act_known _ _ HJ p Ea) as [Hd|Hk]; [contradiction|exact Hk]. }
    destruct (e_idx x) as [| |lf dt dim n total|kind dt dim n scalers widths] eqn:Eidx.
    - (* no data *)
      injection Hap as <-. cbn [active last objs].
      split; [|apply J_keep; [exact HJ|exact Hp|discriminate]].
      destruct (alookup p (active st)) as [a|] eqn:Ea.
      + rewrite update_existing_mk. cbn [bind]. f_equal.
        apply (replace_path_objs_of p None (last st) (last st));
          [exact (j_nodup _ _ HJ)|rewrite Ea; discriminate|reflexivity].
      + destruct (alookup p c0) as [o|] eqn:Ec.
        * destruct Hpl as (hd & ->). rewrite reuse_previous_mk. cbn [bind]. f_equal.
          apply (append_objs_of p None (last st) (last st)); [exact Ea|reflexivity].
        * rewrite Hpl. cbn [new_object bind]. f_equal.
          assert (Hl : alookup p (last st) = None).
          { destruct (alookup p (last st)) as [i|] eqn:El; [|reflexivity].
            destruct (j_last_known _ _ HJ p i El) as [Hd|Hk]; [contradiction|]. rewrite Ec in Hk. contradiction Hk; reflexivity. }
          replace (mkSobj p false 0 0 None None) with (mk_obj p (isd None) (alookup p (last st)))
            by (rewrite Hl; reflexivity).
          apply (append_objs_of p None (last st) (last st)); [exact Ea|reflexivity].
    - (* same as before *)
      destruct (alookup p (last st)) as [i|] eqn:El.
      + injection Hap as <-. cbn [active last objs].
        split; [|apply J_keep; [exact HJ|exact Hp|intros i' Hi'; injection Hi' as <-; exact El]].
        assert (Hk : alookup p c0 <> None).
        { destruct (j_last_known _ _ HJ p i El) as [Hd|Hk]; [contradiction|exact Hk]. }
        assert (Hmk : mk_obj p true (Some i) = mk_obj p (isd (Some i)) (alookup p (last st)))
          by (rewrite El; reflexivity).
        destruct (alookup p (active st)) as [a|] eqn:Ea.
        * rewrite update_existing_mk. cbn [bind]. f_equal. rewrite Hmk.
          apply (replace_path_objs_of p (Some i) (last st) (last st));
            [exact (j_nodup _ _ HJ)|rewrite Ea; discriminate|reflexivity].
        * destruct (alookup p c0) as [o|] eqn:Ec; [|contradiction Hk; reflexivity].
          destruct Hpl as (hd & ->). rewrite reuse_previous_mk. cbn [bind]. f_equal. rewrite Hmk.
          apply (append_objs_of p (Some i) (last st) (last st)); [exact Ea|reflexivity].
      + rewrite (j_objs _ _ HJ) in Hap. destruct (alookup p c0); discriminate.
    - (* full index *)
      destruct (index_of dt dim n total) as [i|] eqn:Ei; [|discriminate].
      assert (Hiok : ri_dt i = dt /\ idx_ok0 i).
      { destruct (wf_entry_full x lf dt dim n total Hwfx Eidx) as [Hn Ht].
        exact (index_of_idx_ok dt dim n total i Ei Hn Ht). }
      destruct Hiok as [Hidt Hiok].
      destruct (match alookup p (last st) with Some i' => ri_dt i' =? dt | None => true end) eqn:Edt;
        [|discriminate].
      injection Hap as <-. cbn [active last objs].
      split.
      2:{ apply J_full; [exact HJ|exact Hp|exact Hiok|].
          intros i0 Hi0. rewrite Hi0 in Edt. lia. }
      assert (Hagree : forall q, q <> p -> alookup q (aset p i (last st)) = alookup q (last st)).
      { intros q Hq. apply alookup_aset_neq. exact Hq. }
      assert (Hnew : forall hd oi, update_existing (mk_obj p hd oi) (IFull lf dt dim n total)
                                   = Ok (mk_obj p true (Some i))).
      { intros hd oi. rewrite update_existing_mk. apply new_object_index_of. exact Ei. }
      assert (Hmk : mk_obj p true (Some i) = mk_obj p (isd (Some i)) (alookup p (aset p i (last st)))).
      { rewrite alookup_aset_eq. reflexivity. }
      destruct (alookup p (active st)) as [a|] eqn:Ea.
      + rewrite Hnew. cbn [bind]. f_equal. rewrite Hmk.
        apply (replace_path_objs_of p (Some i) (last st));
          [exact (j_nodup _ _ HJ)|rewrite Ea; discriminate|exact Hagree].
      + destruct (alookup p c0) as [o|] eqn:Ec.
        * destruct Hpl as (hd & ->). change reuse_previous with update_existing. rewrite Hnew.
          cbn [bind]. f_equal. rewrite Hmk.
          apply (append_objs_of p (Some i) (last st)); [exact Ea|exact Hagree].
        * rewrite Hpl. rewrite (new_object_index_of p lf dt dim n total i Ei). cbn [bind]. f_equal.
          rewrite Hmk. apply (append_objs_of p (Some i) (last st)); [exact Ea|exact Hagree].
    - discriminate.
  Qed.

  Lemma sim_entries : forall es st done st',
    J st done ->
    NoDup (map e_path es) -> (forall p, In p (map e_path es) -> ~ In p done) ->
    forallb entry_ok es = true -> forallb wf_entry es = true ->
    apply_entries st es = SOk st' ->
    spec_fold_entries prev (objs_of (active st) (last st)) es = Ok (objs_of (active st') (last st')) /\
    J st' (rev (map e_path es) ++ done).
  Proof.
    induction es as [|x es IH]; intros st done st' HJ Hnd Hdis Hok Hwf Hap.
    - cbn [apply_entries] in Hap. injection Hap as <-. split; [reflexivity|exact HJ].
    - cbn [apply_entries sbind] in Hap. cbn [map] in Hnd. apply NoDup_cons_iff in Hnd.
      destruct Hnd as [Hx Hnd]. cbn [forallb] in Hok. apply andb_prop in Hok. destruct Hok as [Hokx Hok].
      cbn [forallb] in Hwf. apply andb_prop in Hwf. destruct Hwf as [Hwfx Hwf].
      destruct (apply_entry st x) as [st1|e] eqn:E1; cbn [sbind] in Hap; [|discriminate].
      destruct (sim_entry st done x st1 HJ (Hdis _ (or_introl eq_refl)) Hokx Hwfx E1) as [Hstep HJ1].
      cbn [spec_fold_entries]. rewrite Hstep. cbn [bind].
      destruct (IH st1 (e_path x :: done) st' HJ1 Hnd) as [Hfold HJ'].
      + intros p Hp [<-|Hd]; [exact (Hx Hp)|]. apply (Hdis p); [right; exact Hp|exact Hd].
      + exact Hok.
      + exact Hwf.
      + exact Hap.
      + split; [exact Hfold|]. cbn [map rev]. rewrite <- app_assoc. exact HJ'.
  Qed.
End Entries.

(* ---- data objects and chunk arithmetic --------------------------------------------- *)

Lemma data_objs_objs_of lst : forall act,
  (forall p i, In (p, Some i) act -> alookup p lst = Some i) ->
  data_objs (objs_of act lst) = map dobj (data_objects act).
Proof.
  induction act as [|[p a] r IH]; intros Hl; [reflexivity|].
  cbn [objs_of map data_objs filter fst snd data_objects flat_map]. rewrite mk_obj_has_data.
  assert (Hr : forall q i, In (q, Some i) r -> alookup q lst = Some i).
  { intros q i Hin. apply Hl. right. exact Hin. }
  specialize (IH Hr). unfold data_objs, objs_of in IH.
  destruct a as [i|]; cbn [isd app map].
  - rewrite (Hl p i (or_introl eq_refl)). f_equal. exact IH.
  - exact IH.
Qed.

Lemma data_objects_in p i act : In (p, i) (data_objects act) <-> In (p, Some i) act.
Proof.
  unfold data_objects. rewrite in_flat_map. split.
  - intros ([q a] & Hin & Hq). cbn [fst snd] in Hq. destruct a as [j|]; [|contradiction].
    destruct Hq as [Hq|[]]. injection Hq as -> ->. exact Hin.
  - intros Hin. exists (p, Some i). split; [exact Hin|left; reflexivity].
Qed.

Lemma data_objects_nodup : forall act, NoDup (map fst act) -> NoDup (map fst (data_objects act)).
Proof.
  induction act as [|[p a] r IH]; intros Hnd; [constructor|].
  cbn [map fst] in Hnd. apply NoDup_cons_iff in Hnd. destruct Hnd as [Hp Hnd].
  cbn [data_objects flat_map fst snd]. destruct a as [i|]; cbn [app map fst]; [|exact (IH Hnd)].
  constructor; [|exact (IH Hnd)].
  intros Hin. apply in_map_iff in Hin. destruct Hin as ([q j] & Hq & Hin). cbn [fst] in Hq. subst q.
  apply data_objects_in in Hin. apply Hp. apply (in_map fst) in Hin. exact Hin.
Qed.

Lemma chunk_size_objs_of act lst :
  (forall p i, In (p, Some i) act -> alookup p lst = Some i) ->
  chunk_size (objs_of act lst) = Ok (chunk_bytes (data_objects act)).
Proof.
  intros Hl. unfold chunk_size, have_daqmx. rewrite (data_objs_objs_of lst act Hl).
  assert (Hf : filter (fun o => match so_daqmx o with Some _ => true | None => false end)
                      (map dobj (data_objects act)) = []).
  { induction (data_objects act) as [|o r IH]; [reflexivity|].
    cbn [map filter]. unfold dobj at 1. rewrite mk_obj_daqmx. exact IH. }
  rewrite Hf. cbn [length Nat.eqb bind]. f_equal.
  unfold chunk_bytes. rewrite map_map. reflexivity.
Qed.

Lemma sum_z_nonneg (l : list Z) : Forall (fun z => 0 <= z) l -> 0 <= sum_z l.
Proof. induction 1 as [|z l Hz _ IH]; cbn [sum_z fold_right]; [lia|]. unfold sum_z in IH. lia. Qed.

Lemma chunk_bytes_nonneg dobjs : Forall (fun o => idx_ok0 (snd o)) dobjs -> 0 <= chunk_bytes dobjs.
Proof.
  intros H. unfold chunk_bytes. apply sum_z_nonneg. apply Forall_map.
  eapply Forall_impl; [|exact H]. intros o (_ & Hb & _). cbn beta. lia.
Qed.

Lemma whole_chunks_sizes e cs unit d css :
  whole_chunks e cs unit d = SOk css -> (cs = 0 /\ blen d = 0) \/ (cs <> 0 /\ blen d mod cs = 0).
Proof.
  unfold whole_chunks. destruct (cs =? 0) eqn:E0.
  - destruct (blen d =? 0) eqn:Ed; [|discriminate]. intros _. left. lia.
  - destruct (blen d mod cs =? 0) eqn:Em; cbn [negb]; [|discriminate]. intros _. right. lia.
Qed.

Lemma decode_data_sizes toc dobjs d css :
  decode_data toc dobjs d = SOk css ->
  (chunk_bytes dobjs = 0 /\ blen d = 0) \/ (chunk_bytes dobjs <> 0 /\ blen d mod chunk_bytes dobjs = 0).
Proof.
  unfold decode_data. cbv zeta.
  destruct (negb (toc_has toc TOC_INTERLEAVED)); [apply whole_chunks_sizes|].
  destruct (forallb is_fixed dobjs).
  - destruct (same_counts dobjs); [apply whole_chunks_sizes|discriminate].
  - destruct dobjs as [|o [|o' r]]; try discriminate. apply whole_chunks_sizes.
Qed.

Lemma calculate_chunks_whole toc objs cs total :
  chunk_size objs = Ok cs -> 0 <= cs -> 0 <= total ->
  (cs = 0 /\ total = 0) \/ (cs <> 0 /\ total mod cs = 0) ->
  exists nch, calculate_chunks toc false objs total = Ok (nch, None).
Proof.
  intros Hcs Hnn Ht Hw. unfold calculate_chunks. rewrite Hcs. cbn [bind].
  replace ((cs <? 0) || (total <? 0)) with false by lia.
  destruct Hw as [[-> ->]|[Hne Hm]].
  - exists 0. reflexivity.
  - replace (cs =? 0) with false by lia. rewrite Hm. cbn [Z.eqb]. eexists. reflexivity.
Qed.

(* ---- per-object metadata ------------------------------------------------------------ *)

(* path, properties, data type (lengths are handled separately) *)
Definition om_rel0 (pm : bytes * ometa) (po : bytes * cobj) : Prop :=
  fst pm = fst po /\
  om_props (snd pm) = o_props (snd po) /\
  om_dtype (snd pm) = o_dtype (snd po) /\
  om_scalers (snd pm) = None.

Lemma om_rel0_key x y : om_rel0 x y -> fst x = fst y.
Proof. intros H. exact (proj1 H). Qed.

(* data type of a content object, if the object exists *)
Definition cdt (c : dict cobj) (p : bytes) : option (option Z) := option_map o_dtype (alookup p c).

Lemma cdt_none c p : cdt c p = None <-> alookup p c = None.
Proof. unfold cdt. destruct (alookup p c); cbn; split; intros H; try discriminate; reflexivity. Qed.

Lemma cdt_none_iff_not c p : alookup p c <> None <-> cdt c p <> None.
Proof. rewrite cdt_none. tauto. Qed.

Lemma touch_eq lst c p :
  touch lst c p =
  aset p (mkCobj (o_props (match alookup p c with Some o => o | None => cobj0 end))
                 (option_map ri_dt (alookup p lst))
                 (o_vals (match alookup p c with Some o => o | None => cobj0 end))) c.
Proof. reflexivity. Qed.

Lemma cdt_touch lst c q p :
  cdt (touch lst c q) p = if bytes_eqb p q then Some (option_map ri_dt (alookup q lst)) else cdt c p.
Proof.
  unfold cdt. rewrite touch_eq, alookup_aset. destruct (bytes_eqb p q); reflexivity.
Qed.

Lemma cdt_fold_touch lst : forall ps c p,
  cdt (fold_left (touch lst) ps c) p =
  if existsb (bytes_eqb p) ps then Some (option_map ri_dt (alookup p lst)) else cdt c p.
Proof.
  induction ps as [|q ps IH]; intros c p; cbn [fold_left existsb]; [reflexivity|].
  rewrite IH, cdt_touch. destruct (bytes_eqb p q) eqn:E; cbn [orb].
  - apply bytes_eqb_eq in E. subst q. destruct (existsb (bytes_eqb p) ps); reflexivity.
  - reflexivity.
Qed.

Lemma set_props_eq c x :
  Spec.set_props c x =
  match alookup (e_path x) c with
  | Some o => aset (e_path x)
                   (mkCobj (fold_left (fun ps pr => aset (p_name pr) pr ps) (e_props x) (o_props o))
                           (o_dtype o) (o_vals o)) c
  | None => c
  end.
Proof. reflexivity. Qed.

Lemma cdt_set_props c x p : cdt (Spec.set_props c x) p = cdt c p.
Proof.
  rewrite set_props_eq. destruct (alookup (e_path x) c) as [o|] eqn:E; [|reflexivity].
  unfold cdt. rewrite alookup_aset. destruct (bytes_eqb p (e_path x)) eqn:Ep; [|reflexivity].
  apply bytes_eqb_eq in Ep. subst p. rewrite E. reflexivity.
Qed.

Lemma cdt_fold_set_props : forall es c p, cdt (fold_left Spec.set_props es c) p = cdt c p.
Proof.
  induction es as [|x es IH]; intros c p; cbn [fold_left]; [reflexivity|].
  rewrite IH. apply cdt_set_props.
Qed.

Definition with_vals (F : bytes * cobj -> list bytes) (c : dict cobj) : dict cobj :=
  map (fun po => (fst po, mkCobj (o_props (snd po)) (o_dtype (snd po)) (F po))) c.

Lemma with_vals_keys F c : map fst (with_vals F c) = map fst c.
Proof. unfold with_vals. rewrite map_map. reflexivity. Qed.

Lemma alookup_with_vals F p : forall c,
  alookup p (with_vals F c) =
  option_map (fun o => mkCobj (o_props o) (o_dtype o) (F (p, o))) (alookup p c).
Proof.
  induction c as [|[k o] r IH]; [reflexivity|].
  cbn [with_vals map alookup fst snd]. destruct (bytes_eqb p k) eqn:E.
  - apply bytes_eqb_eq in E. subst k. reflexivity.
  - exact IH.
Qed.

Lemma cdt_with_vals F c p : cdt (with_vals F c) p = cdt c p.
Proof. unfold cdt. rewrite alookup_with_vals. destruct (alookup p c); reflexivity. Qed.

Lemma om_rel0_with_vals F om c : Forall2 om_rel0 om c -> Forall2 om_rel0 om (with_vals F c).
Proof.
  intros H. induction H as [|x y om c Hxy H IH]; [constructor|].
  cbn [with_vals map]. constructor; [|exact IH]. exact Hxy.
Qed.

Lemma touch_nodup lst c p : NoDup (map fst c) -> NoDup (map fst (touch lst c p)).
Proof. rewrite touch_eq. apply aset_keys_nodup. Qed.

Lemma fold_touch_nodup lst : forall ps c, NoDup (map fst c) -> NoDup (map fst (fold_left (touch lst) ps c)).
Proof.
  induction ps as [|p ps IH]; intros c H; cbn [fold_left]; [exact H|]. apply IH. apply touch_nodup. exact H.
Qed.

Lemma set_props_nodup c x : NoDup (map fst c) -> NoDup (map fst (Spec.set_props c x)).
Proof. rewrite set_props_eq. destruct (alookup (e_path x) c); [apply aset_keys_nodup|tauto]. Qed.

Lemma fold_set_props_nodup : forall es c, NoDup (map fst c) -> NoDup (map fst (fold_left Spec.set_props es c)).
Proof.
  induction es as [|x es IH]; intros c H; cbn [fold_left]; [exact H|]. apply IH. apply set_props_nodup. exact H.
Qed.

Lemma oz_eqb_refl a : oz_eqb a a = true.
Proof. destruct a; cbn; [apply Z.eqb_refl|reflexivity]. Qed.

(* the model's update of the per-object metadata for the segment's objects is
   the specification's "every active object is part of the content" *)
Lemma sim_touch lst nch fin : forall act prev om c,
  Forall2 om_rel0 om c ->
  (forall p, In p (map fst act) ->
             cdt c p = None \/ cdt c p = Some None \/ cdt c p = Some (option_map ri_dt (alookup p lst))) ->
  exists prev' om',
    update_object_metadata (objs_of act lst) nch fin prev om = Ok (prev', om') /\
    Forall2 om_rel0 om' (fold_left (touch lst) (map fst act) c).
Proof.
  induction act as [|[p a] r IH]; intros prev om c Hrel Hdt.
  - exists prev, om. split; [reflexivity|exact Hrel].
  - cbn [objs_of map fst snd update_object_metadata fold_left]. rewrite mk_obj_path.
    set (o := mk_obj p (isd a) (alookup p lst)).
    pose proof (rel_alookup om_rel0 om_rel0_key p om c Hrel) as Hlk.
    specialize (Hdt p (or_introl eq_refl)) as Hdtp. unfold cdt in Hdtp.
    assert (Hm : exists m', update_ometa (get_ometa p om) o nch fin = Ok m' /\
                            om_rel0 (p, m') (p, mkCobj (o_props (match alookup p c with Some oc => oc | None => cobj0 end))
                                                       (option_map ri_dt (alookup p lst))
                                                       (o_vals (match alookup p c with Some oc => oc | None => cobj0 end)))).
    { unfold get_ometa, update_ometa. subst o. rewrite mk_obj_dtype, mk_obj_daqmx.
      destruct (alookup p om) as [m|] eqn:Em; destruct (alookup p c) as [oc|] eqn:Ec; try contradiction.
      - destruct Hlk as (_ & Hprops & Hdtype & Hsc). cbn [fst snd] in *.
        assert (Hchk : (match om_dtype m with Some _ => true | None => false end) &&
                       negb (oz_eqb (om_dtype m) (option_map ri_dt (alookup p lst))) = false).
        { rewrite Hdtype. cbn [option_map] in Hdtp.
          destruct Hdtp as [Hd|[Hd|Hd]]; [discriminate| |]; injection Hd as ->.
          - reflexivity.
          - rewrite oz_eqb_refl. apply andb_false_r. }
        rewrite Hchk. eexists. split; [reflexivity|].
        unfold om_rel0. cbn [fst snd om_props om_dtype om_scalers o_props o_dtype]. auto.
      - cbn [ometa0 om_dtype andb]. eexists. split; [reflexivity|].
        unfold om_rel0. cbn [fst snd om_props om_dtype om_scalers o_props o_dtype cobj0 ometa0]. auto. }
    destruct Hm as (m' & -> & Hrel'). cbn [bind].
    apply IH.
    + rewrite touch_eq. apply (rel_aset om_rel0 om_rel0_key); assumption.
    + intros q Hq. rewrite cdt_touch. destruct (bytes_eqb q p) eqn:E.
      * apply bytes_eqb_eq in E. subst q. right. right. reflexivity.
      * apply Hdt. right. exact Hq.
Qed.

(* the entries that carry properties, as the reader collects them *)
Definition plist (es : list entry) : alist (list prop) :=
  flat_map (fun x => match e_props x with [] => [] | ps => [(e_path x, ps)] end) es.

Lemma collect_props_plist : forall es acc,
  NoDup (map fst acc ++ map e_path es) -> collect_props es acc = acc ++ plist es.
Proof.
  induction es as [|x es IH]; intros acc Hnd; cbn [collect_props plist flat_map].
  - rewrite app_nil_r. reflexivity.
  - cbn [map] in Hnd. destruct (e_props x) as [|pr ps] eqn:Ep.
    + cbn [app]. apply IH. apply NoDup_remove_1 in Hnd. exact Hnd.
    + destruct (NoDup_app_cons_l _ _ _ Hnd) as [Hx Hnd'].
      rewrite (aset_fresh (e_path x) (pr :: ps) acc Hx). rewrite IH.
      * rewrite <- app_assoc. reflexivity.
      * rewrite map_app. exact Hnd'.
Qed.

Lemma update_object_properties_cons k ps props om :
  update_object_properties ((k, ps) :: props) om =
  update_object_properties props (aset k (SegState.set_props (get_ometa k om) ps) om).
Proof. reflexivity. Qed.

Lemma sim_props : forall es om c,
  Forall2 om_rel0 om c ->
  (forall x, In x es -> alookup (e_path x) c <> None) ->
  Forall2 om_rel0 (update_object_properties (plist es) om) (fold_left Spec.set_props es c).
Proof.
  induction es as [|x es IH]; intros om c Hrel Hin; [exact Hrel|].
  cbn [fold_left plist flat_map]. rewrite set_props_eq.
  pose proof (rel_alookup om_rel0 om_rel0_key (e_path x) om c Hrel) as Hlk.
  destruct (alookup (e_path x) c) as [oc|] eqn:Ec; [|contradiction (Hin x (or_introl eq_refl)); exact Ec].
  destruct (alookup (e_path x) om) as [m|] eqn:Em; [|contradiction].
  destruct Hlk as (_ & Hprops & Hdtype & Hsc). cbn [fst snd] in *.
  assert (Hin' : forall c' : dict cobj, (forall p, alookup p c <> None -> alookup p c' <> None) ->
                            forall y, In y es -> alookup (e_path y) c' <> None).
  { intros c' Hc' y Hy. apply Hc'. apply Hin. right. exact Hy. }
  destruct (e_props x) as [|pr ps] eqn:Ep.
  - cbv beta iota. cbn [app fold_left].
    replace (mkCobj (o_props oc) (o_dtype oc) (o_vals oc)) with oc by (destruct oc; reflexivity).
    rewrite (alookup_aset_same _ _ _ Ec). apply IH; [exact Hrel|]. apply Hin'. tauto.
  - cbv beta iota. cbn [app].
    rewrite update_object_properties_cons. apply IH.
    + apply (rel_aset om_rel0 om_rel0_key); [exact Hrel|].
      unfold om_rel0, get_ometa. rewrite Em.
      cbn [fst snd SegState.set_props om_props om_dtype om_scalers o_props o_dtype].
      rewrite Hprops. auto.
    + apply Hin'. intros p Hp. rewrite alookup_aset. destruct (bytes_eqb p (e_path x)); [discriminate|exact Hp].
Qed.

(* ---- the invariant between the two states ----------------------------------------- *)

Record Inv (first : bool) (st : sstate) (ps : option (list sobj)) (prev : alist sobj) (om : alist ometa)
  : Prop := mkInv {
  i_ps : ps = if first then None else Some (objs_of (active st) (last st));
  i_first : first = true -> active st = [];
  i_act_nodup : NoDup (map fst (active st));
  i_act_last : forall p i, In (p, Some i) (active st) -> alookup p (last st) = Some i;
  i_act_known : forall p, In p (map fst (active st)) -> alookup p (objs st) <> None;
  i_last_known : forall p i, alookup p (last st) = Some i -> alookup p (objs st) <> None;
  i_idx_ok : forall p i, alookup p (last st) = Some i -> idx_ok0 i;
  i_prev : prev_rel prev (objs st) (last st);
  i_prev_keys : prev_keys_ok prev;
  i_om : Forall2 om_rel0 om (objs st);
  i_dtype : forall p, cdt (objs st) p = None \/
                      cdt (objs st) p = Some (option_map ri_dt (alookup p (last st)));
  i_objs_nodup : NoDup (map fst (objs st)) }.

Lemma Inv_init : Inv true sstate0 None [] [].
Proof.
  constructor; cbn [sstate0 active last objs map].
  - reflexivity.
  - intros _. reflexivity.
  - constructor.
  - intros p i [].
  - intros p [].
  - intros p i H. discriminate H.
  - intros p i H. discriminate H.
  - intros p. reflexivity.
  - intros p po H. discriminate H.
  - constructor.
  - intros p. left. reflexivity.
  - constructor.
Qed.

(* appending values to content objects does not touch anything the invariant reads *)
Lemma Inv_with_vals first st ps prev om F :
  Inv first st ps prev om ->
  Inv first (mkSstate (active st) (last st) (with_vals F (objs st))) ps prev om.
Proof.
  intros [H1 H2 H3 H4 H5 H6 H7 H8 H9 H10 H11 H12].
  assert (Hk : forall p, alookup p (with_vals F (objs st)) <> None <-> alookup p (objs st) <> None).
  { intros p. rewrite alookup_with_vals. destruct (alookup p (objs st)); cbn; split; intros H; congruence. }
  constructor; cbn [active last objs]; try assumption.
  - intros p Hp. apply Hk. exact (H5 p Hp).
  - intros p i Hp. apply Hk. exact (H6 p i Hp).
  - intros p. specialize (H8 p). rewrite alookup_with_vals.
    destruct (alookup p (objs st)); cbn [option_map]; exact H8.
  - apply om_rel0_with_vals. exact H10.
  - intros p. rewrite cdt_with_vals. exact (H11 p).
  - rewrite with_vals_keys. exact H12.
Qed.

(* the start of a metadata block *)
Lemma J_init first st ps prev om (newlist : bool) :
  Inv first st ps prev om ->
  J (objs st) (last st) (if newlist then mkSstate [] (last st) (objs st) else st) [].
Proof.
  intros HI. destruct HI as [H1 H2 H3 H4 H5 H6 H7 H8 H9 H10 H11 H12].
  destruct newlist; constructor; cbn [active last objs map].
  - reflexivity.
  - constructor.
  - intros p i [].
  - reflexivity.
  - intros p [].
  - intros p i0 H. exists i0. split; [exact H|reflexivity].
  - exact H7.
  - intros p i H. right. exact (H6 p i H).
  - intros p [].
  - reflexivity.
  - exact H3.
  - exact H4.
  - reflexivity.
  - intros p Hp. right. exact (H5 p Hp).
  - intros p i0 H. exists i0. split; [exact H|reflexivity].
  - exact H7.
  - intros p i H. right. exact (H6 p i H).
  - intros p [].
Qed.

Lemma existsb_bytes_in p l : existsb (bytes_eqb p) l = true <-> In p l.
Proof.
  rewrite existsb_exists. split.
  - intros (x & Hx & E). apply bytes_eqb_eq in E. subst x. exact Hx.
  - intros H. exists p. split; [exact H|apply bytes_eqb_refl].
Qed.

Lemma existsb_bytes_not_in p l : existsb (bytes_eqb p) l = false <-> ~ In p l.
Proof.
  rewrite <- existsb_bytes_in. destruct (existsb (bytes_eqb p) l); split; intros H; congruence.
Qed.

Lemma nodup_b_sound l : nodup_b l = true -> NoDup l.
Proof.
  induction l as [|x l IH]; cbn [nodup_b]; intros H; [constructor|].
  apply andb_prop in H. destruct H as [Hx Hl]. constructor; [|exact (IH Hl)].
  apply negb_true_iff in Hx. apply (existsb_bytes_not_in x l). exact Hx.
Qed.

(* what the segment's metadata amounts to, in both worlds *)
Definition seg_entries (s : fseg) : list entry := match fs_meta s with Some es => es | None => [] end.

Lemma apply_metadata_inv first st s st1 :
  apply_metadata first st s = SOk st1 ->
  exists ste,
    match fs_meta s with
    | None => first = false /\ ste = st
    | Some es => apply_entries (if toc_has (fs_toc s) TOC_NEWLIST
                                then mkSstate [] (last st) (objs st) else st) es = SOk ste
    end /\
    st1 = mkSstate (active ste) (last ste)
                   (fold_left Spec.set_props (seg_entries s)
                              (fold_left (touch (last ste)) (map fst (active ste)) (objs ste))).
Proof.
  unfold apply_metadata, seg_entries. destruct (fs_meta s) as [es|].
  - destruct (apply_entries _ es) as [ste|e] eqn:E; cbn [sbind]; [|discriminate].
    intros H. injection H as <-. exists ste. split; reflexivity.
  - destruct first; cbn [sbind]; [discriminate|]. intros H. injection H as <-.
    exists st. split; [split; reflexivity|reflexivity].
Qed.

Lemma wf_fseg_entries s es : wf_fseg s = true -> fs_meta s = Some es -> forallb wf_entry es = true.
Proof.
  intros H E. apply wf_fseg_spec in H. destruct H as (_ & _ & _ & H). rewrite E in H.
  destruct H as [_ H]. unfold wf_metadata in H. apply andb_prop in H. exact (proj2 H).
Qed.

(* the metadata block of an accepted segment: the model computes the object list
   the specification's active list describes *)
Lemma sim_read_objects first st ps prev om s ste :
  Inv first st ps prev om -> seg_ok s = true -> wf_fseg s = true ->
  match fs_meta s with
  | None => first = false /\ ste = st
  | Some es => apply_entries (if toc_has (fs_toc s) TOC_NEWLIST
                              then mkSstate [] (last st) (objs st) else st) es = SOk ste
  end ->
  read_segment_objects (fs_toc s) (fs_meta s) prev ps
  = Ok (objs_of (active ste) (last ste), plist (seg_entries s)) /\
  exists done, J (objs st) (last st) ste done /\ NoDup (map e_path (seg_entries s)) /\
               forall x, In x (seg_entries s) -> In (e_path x) done.
Proof.
  intros HI Hok Hwfs Hm. pose proof (wf_fseg_entries s) as Hwfes.
  unfold seg_ok, seg_entries in *. unfold read_segment_objects.
  rewrite (i_ps _ _ _ _ _ HI).
  destruct (fs_meta s) as [es|].
  - apply andb_prop in Hok. destruct Hok as [Hnd Hoks]. apply nodup_b_sound in Hnd.
    specialize (Hwfes es Hwfs eq_refl).
    pose proof (J_init first st ps prev om (toc_has (fs_toc s) TOC_NEWLIST) HI) as HJ0.
    destruct (sim_entries prev (objs st) (last st) (i_prev _ _ _ _ _ HI) es _ [] ste HJ0 Hnd
                          (fun p _ H => H) Hoks Hwfes Hm) as [Hfold HJ].
    assert (Hfe : fold_entries (if toc_has (fs_toc s) TOC_NEWLIST then None
                                else (if first then None else Some (objs_of (active st) (last st))))
                               prev
                               (match (if toc_has (fs_toc s) TOC_NEWLIST then None
                                       else (if first then None else Some (objs_of (active st) (last st))))
                                with Some l => l | None => [] end) es
                  = Ok (objs_of (active ste) (last ste))).
    { rewrite <- Hfold. destruct (toc_has (fs_toc s) TOC_NEWLIST).
      - cbn [active last objs_of map].
        apply new_list_update_is_update_by_path0; [exact (i_prev_keys _ _ _ _ _ HI)|exact Hnd].
      - destruct first.
        + rewrite (i_first _ _ _ _ _ HI eq_refl). cbn [objs_of map].
          apply new_list_update_is_update_by_path0; [exact (i_prev_keys _ _ _ _ _ HI)|exact Hnd].
        + apply positional_update_is_update_by_path;
            [exact (i_prev_keys _ _ _ _ _ HI)|rewrite objs_of_paths; exact (i_act_nodup _ _ _ _ _ HI)|exact Hnd]. }
    rewrite Hfe. cbn [bind]. split.
    + f_equal. f_equal. apply (collect_props_plist es []). exact Hnd.
    + eexists. split; [exact HJ|]. split; [exact Hnd|].
      intros x Hx. rewrite app_nil_r. apply -> in_rev. apply in_map. exact Hx.
  - destruct Hm as [-> ->]. split; [reflexivity|].
    exists []. split; [|split; [constructor|intros x []]].
    exact (J_init false st ps prev om false HI).
Qed.

(* One accepted segment: the model's four steps succeed and re-establish the
   invariant for the specification's state after the metadata. *)
Lemma sim_segment first st ps prev om s st1 css :
  Inv first st ps prev om -> seg_ok s = true -> wf_fseg s = true ->
  apply_metadata first st s = SOk st1 ->
  decode_data (fs_toc s) (data_objects (active st1)) (fs_data s) = SOk css ->
  exists props nch po om1,
    read_segment_objects (fs_toc s) (fs_meta s) prev ps = Ok (objs_of (active st1) (last st1), props) /\
    calculate_chunks (fs_toc s) false (objs_of (active st1) (last st1)) (blen (fs_data s)) = Ok (nch, None) /\
    update_object_metadata (objs_of (active st1) (last st1)) nch None prev om = Ok (po, om1) /\
    Inv false st1 (Some (objs_of (active st1) (last st1))) po (update_object_properties props om1) /\
    Forall (fun o => idx_ok0 (snd o)) (data_objects (active st1)).
Proof.
  intros HI Hok Hwfs Hmeta Hdec.
  destruct (apply_metadata_inv first st s st1 Hmeta) as (ste & Hm & Hst1).
  destruct (sim_read_objects first st ps prev om s ste HI Hok Hwfs Hm) as (Hro & done & HJ & Hnd & Hdone).
  set (c1 := fold_left (touch (last ste)) (map fst (active ste)) (objs ste)) in *.
  set (c2 := fold_left Spec.set_props (seg_entries s) c1) in *.
  subst st1. cbn [active last objs] in *.
  assert (Hidx : Forall (fun o => idx_ok0 (snd o)) (data_objects (active ste))).
  { apply Forall_forall. intros [p i] Hin. cbn [snd]. apply data_objects_in in Hin.
    exact (j_idx_ok _ _ _ _ HJ p i (j_act_last _ _ _ _ HJ p i Hin)). }
  (* chunk arithmetic *)
  pose proof (chunk_size_objs_of (active ste) (last ste) (j_act_last _ _ _ _ HJ)) as Hcs.
  destruct (calculate_chunks_whole (fs_toc s) _ _ (blen (fs_data s)) Hcs
              (chunk_bytes_nonneg _ Hidx) (blen_nonneg _) (decode_data_sizes _ _ _ _ Hdec)) as (nch & Hcc).
  (* per-object metadata *)
  assert (Hc0 : objs ste = objs st) by exact (j_objs _ _ _ _ HJ).
  assert (Hdt0 : forall p, cdt (objs st) p = None \/ cdt (objs st) p = Some None \/
                           cdt (objs st) p = Some (option_map ri_dt (alookup p (last ste)))).
  { intros p. destruct (i_dtype _ _ _ _ _ HI p) as [H|H]; [left; exact H|].
    destruct (alookup p (last st)) as [i0|] eqn:E0; [|right; left; exact H].
    right. right. rewrite H. destruct (j_dt _ _ _ _ HJ p i0 E0) as (i & -> & Hi).
    cbn [option_map]. rewrite Hi. reflexivity. }
  destruct (sim_touch (last ste) nch None (active ste) prev om (objs ste)) as (po & om1 & Hum & Hrel1).
  { rewrite Hc0. exact (i_om _ _ _ _ _ HI). }
  { intros p _. rewrite Hc0. exact (Hdt0 p). }
  fold c1 in Hrel1.
  assert (Hcdt1 : forall p, cdt c1 p = if existsb (bytes_eqb p) (map fst (active ste))
                                       then Some (option_map ri_dt (alookup p (last ste)))
                                       else cdt (objs st) p).
  { intros p. unfold c1. rewrite cdt_fold_touch, Hc0. reflexivity. }
  assert (Hcdt2 : forall p, cdt c2 p = cdt c1 p).
  { intros p. unfold c2. apply cdt_fold_set_props. }
  assert (Hlisted : forall x, In x (seg_entries s) -> In (e_path x) (map fst (active ste))).
  { intros x Hx. exact (j_done_act _ _ _ _ HJ _ (Hdone x Hx)). }
  assert (Hrel2 : Forall2 om_rel0 (update_object_properties (plist (seg_entries s)) om1) c2).
  { unfold c2. apply sim_props; [exact Hrel1|].
    intros x Hx. apply cdt_none_iff_not. rewrite Hcdt1.
    rewrite (proj2 (existsb_bytes_in _ _) (Hlisted x Hx)). discriminate. }
  exists (plist (seg_entries s)), nch, po, om1.
  split; [exact Hro|]. split; [exact Hcc|]. split; [exact Hum|]. split; [|exact Hidx].
  (* the invariant *)
  assert (Hobjs_nd : NoDup (map so_path (objs_of (active ste) (last ste)))).
  { rewrite objs_of_paths. exact (j_nodup _ _ _ _ HJ). }
  destruct (prev_objs_tracks_segments _ _ _ _ _ _ _ Hum Hobjs_nd) as [Htr1 Htr2].
  assert (Hdone_act : forall p, ~ In p (map fst (active ste)) -> alookup p (last ste) = alookup p (last st)).
  { intros p Hp. apply (j_last_other _ _ _ _ HJ). intros Hd. apply Hp. exact (j_done_act _ _ _ _ HJ p Hd). }
  constructor; cbn [active last objs].
  - reflexivity.
  - discriminate.
  - exact (j_nodup _ _ _ _ HJ).
  - exact (j_act_last _ _ _ _ HJ).
  - intros p Hp. apply cdt_none_iff_not. rewrite Hcdt2, Hcdt1.
    rewrite (proj2 (existsb_bytes_in _ _) Hp). discriminate.
  - intros p i Hp. apply cdt_none_iff_not. rewrite Hcdt2, Hcdt1.
    destruct (existsb (bytes_eqb p) (map fst (active ste))) eqn:Ex; [discriminate|].
    apply existsb_bytes_not_in in Ex.
    destruct (j_last_known _ _ _ _ HJ p i Hp) as [Hd|Hk].
    + contradiction Ex. exact (j_done_act _ _ _ _ HJ p Hd).
    + apply cdt_none_iff_not. exact Hk.
  - exact (j_idx_ok _ _ _ _ HJ).
  - (* the global map *)
    intros p. destruct (existsb (bytes_eqb p) (map fst (active ste))) eqn:Ex.
    + apply existsb_bytes_in in Ex.
      destruct (alookup p (active ste)) as [a|] eqn:Ea; [|contradiction (in_keys_alookup _ _ Ex Ea)].
      assert (Hc2 : alookup p c2 <> None).
      { apply cdt_none_iff_not. rewrite Hcdt2, Hcdt1, (proj2 (existsb_bytes_in _ _) Ex). discriminate. }
      destruct (alookup p c2); [|contradiction Hc2; reflexivity].
      exists (isd a).
      assert (Hin : In (mk_obj p (isd a) (alookup p (last ste))) (objs_of (active ste) (last ste))).
      { apply alookup_In in Ea. unfold objs_of. apply in_map_iff. exists (p, a). split; [reflexivity|exact Ea]. }
      specialize (Htr1 _ Hin). rewrite mk_obj_path in Htr1. exact Htr1.
    + apply existsb_bytes_not_in in Ex as Hnin.
      rewrite Htr2 by (rewrite objs_of_paths; exact Hnin).
      pose proof (i_prev _ _ _ _ _ HI p) as Hp0.
      assert (Hsame : cdt c2 p = cdt (objs st) p) by (rewrite Hcdt2, Hcdt1, Ex; reflexivity).
      unfold cdt in Hsame.
      destruct (alookup p c2) as [o2|]; destruct (alookup p (objs st)) as [o0|]; try discriminate.
      * rewrite (Hdone_act p Hnin). exact Hp0.
      * exact Hp0.
  - exact (update_object_metadata_keys_ok _ _ _ _ _ _ _ Hum (i_prev_keys _ _ _ _ _ HI)).
  - exact Hrel2.
  - intros p. rewrite Hcdt2, Hcdt1.
    destruct (existsb (bytes_eqb p) (map fst (active ste))) eqn:Ex; [right; reflexivity|].
    apply existsb_bytes_not_in in Ex. rewrite (Hdone_act p Ex). exact (i_dtype _ _ _ _ _ HI p).
  - unfold c2, c1. apply fold_set_props_nodup. apply fold_touch_nodup. rewrite Hc0.
    exact (i_objs_nodup _ _ _ _ _ HI).
Qed.

(* ---- the forbidden encodings: the model rejects what the specification forbids ------ *)

Lemma apply_entries_err : forall es st e,
  apply_entries st es = SErr e ->
  exists pre x rest st', es = pre ++ x :: rest /\ apply_entries st pre = SOk st' /\ apply_entry st' x = SErr e.
Proof.
  induction es as [|x es IH]; intros st e H; [discriminate|].
  cbn [apply_entries] in H. destruct (apply_entry st x) as [st1|e1] eqn:E1; cbn [sbind] in H.
  - destruct (IH st1 e H) as (pre & y & rest & st' & -> & Hpre & Hy).
    exists (x :: pre), y, rest, st'. split; [reflexivity|]. split; [|exact Hy].
    cbn [apply_entries]. rewrite E1. cbn [sbind]. exact Hpre.
  - injection H as <-. exists [], x, es, st. split; [reflexivity|]. split; [reflexivity|exact E1].
Qed.

Lemma spec_fold_entries_app prev : forall pre l suf,
  spec_fold_entries prev l (pre ++ suf) =
  (do l' <- spec_fold_entries prev l pre; spec_fold_entries prev l' suf).
Proof.
  induction pre as [|x pre IH]; intros l suf; cbn [app spec_fold_entries bind]; [reflexivity|].
  destruct (spec_step prev l x) as [l1|e]; cbn [bind]; [apply IH|reflexivity].
Qed.

Lemma find_path_app_other p l o : so_path o <> p -> find_path p (l ++ [o]) = find_path p l.
Proof.
  intros Hne. induction l as [|o1 l IH]; cbn [app find_path].
  - apply not_eq_sym in Hne. apply bytes_eqb_neq in Hne. rewrite Hne. reflexivity.
  - destruct (bytes_eqb p (so_path o1)); [reflexivity|exact IH].
Qed.

Lemma find_path_replace_other p q o l : so_path o = q -> q <> p ->
  find_path p (replace_path q o l) = find_path p l.
Proof.
  intros Ho Hne. induction l as [|o1 l IH]; cbn [replace_path find_path]; [reflexivity|].
  destruct (bytes_eqb q (so_path o1)) eqn:E.
  - apply bytes_eqb_eq in E. cbn [find_path]. rewrite Ho, <- E.
    apply not_eq_sym in Hne. apply bytes_eqb_neq in Hne. rewrite Hne. reflexivity.
  - cbn [find_path]. destruct (bytes_eqb p (so_path o1)); [reflexivity|exact IH].
Qed.

Lemma find_path_path p l o : find_path p l = Some o -> so_path o = p /\ In o l.
Proof.
  induction l as [|o1 l IH]; cbn [find_path]; [discriminate|].
  destruct (bytes_eqb p (so_path o1)) eqn:E.
  - intros H. injection H as <-. apply bytes_eqb_eq in E. split; [symmetry; exact E|left; reflexivity].
  - intros H. destruct (IH H) as [H1 H2]. split; [exact H1|right; exact H2].
Qed.

(* a listed object only changes the list's object under its own path *)
Lemma spec_step_other prev l y l' p :
  prev_keys_ok prev -> spec_step prev l y = Ok l' -> e_path y <> p -> find_path p l' = find_path p l.
Proof.
  intros Hk H Hne. unfold spec_step in H.
  destruct (find_path (e_path y) l) as [o|] eqn:Ef.
  - destruct (update_existing o (e_idx y)) as [o'|e] eqn:Eu; cbn [bind] in H; [|discriminate].
    injection H as <-. apply find_path_replace_other; [|exact Hne].
    rewrite (update_existing_path _ _ _ Eu). exact (proj1 (find_path_path _ _ _ Ef)).
  - destruct (alookup (e_path y) prev) as [po|] eqn:Ea.
    + destruct (reuse_previous po (e_idx y)) as [o'|e] eqn:Er; cbn [bind] in H; [|discriminate].
      injection H as <-. apply find_path_app_other.
      rewrite (reuse_previous_path _ _ _ Er), (Hk _ _ Ea). exact Hne.
    + destruct (e_idx y) as [| |lf dt dim n total|kind dt dim n scalers widths] eqn:Ei; [|discriminate| |];
        match type of H with
        | bind ?r _ = _ => destruct r as [o'|e] eqn:En; cbn [bind] in H; [|discriminate]
        end;
        injection H as <-; apply find_path_app_other;
        rewrite (new_object_path _ _ _ En); exact Hne.
Qed.

Lemma spec_fold_entries_other prev p : forall es l l',
  prev_keys_ok prev -> spec_fold_entries prev l es = Ok l' -> ~ In p (map e_path es) ->
  find_path p l' = find_path p l.
Proof.
  induction es as [|y es IH]; intros l l' Hk H Hp; cbn [spec_fold_entries] in H.
  - injection H as <-. reflexivity.
  - destruct (spec_step prev l y) as [l1|e] eqn:E1; cbn [bind] in H; [|discriminate].
    rewrite (IH l1 l' Hk H); [|intros Hin; apply Hp; right; exact Hin].
    apply (spec_step_other prev l y l1 p Hk E1). intros Heq. apply Hp. left. exact Heq.
Qed.

Lemma option_eq_dec_Z (a b : option Z) : {a = b} + {a <> b}.
Proof. decide equality. apply Z.eq_dec. Qed.

(* an object whose data type differs from the one recorded for its path makes the
   metadata update fail, wherever it stands in the list *)
Lemma update_object_metadata_type_change : forall objs n f prev om o m t,
  In o objs -> alookup (so_path o) om = Some m -> om_dtype m = Some t -> so_dtype o <> Some t ->
  exists e, update_object_metadata objs n f prev om = Err e.
Proof.
  induction objs as [|o1 r IH]; intros n f prev om o m t Hin Hm Ht Ho; [contradiction|].
  cbn [update_object_metadata].
  destruct (update_ometa (get_ometa (so_path o1) om) o1 n f) as [m1|e] eqn:Eu; cbn [bind];
    [|exists e; reflexivity].
  destruct Hin as [->|Hin].
  - unfold get_ometa in Eu. rewrite Hm in Eu.
    rewrite (forbidden_rejected_type_change m o n f t Ht Ho) in Eu. discriminate.
  - destruct (bytes_eqb (so_path o) (so_path o1)) eqn:E.
    + apply bytes_eqb_eq in E.
      apply (IH n f _ _ o m1 t Hin); [rewrite E; apply alookup_aset_eq| |exact Ho].
      unfold get_ometa in Eu. rewrite <- E, Hm in Eu.
      destruct (option_eq_dec_Z (so_dtype o1) (Some t)) as [Heq|Hneq].
      * unfold update_ometa in Eu. rewrite Ht in Eu.
        destruct (negb (oz_eqb (Some t) (so_dtype o1))); cbn [andb] in Eu; [discriminate|].
        destruct (so_daqmx o1) as [q|].
        -- destruct (om_scalers m) as [st0|].
           ++ destruct (scaler_types_eqb st0 (scaler_types q)); [|discriminate].
              injection Eu as <-. exact Heq.
           ++ injection Eu as <-. exact Heq.
        -- injection Eu as <-. exact Heq.
      * rewrite (forbidden_rejected_type_change m o1 n f t Ht Hneq) in Eu. discriminate.
    + apply (IH n f _ _ o m t Hin); [|exact Ht|exact Ho].
      apply bytes_eqb_neq in E. rewrite alookup_aset_neq by exact E. exact Hm.
Qed.

Definition seg_start (st : sstate) (s : fseg) : sstate :=
  if toc_has (fs_toc s) TOC_NEWLIST then mkSstate [] (last st) (objs st) else st.

(* the positional mechanism on the segment's metadata block is update-by-path on
   the list the specification's start state describes *)
Lemma read_segment_objects_by_path first st ps prev om s es :
  Inv first st ps prev om -> fs_meta s = Some es -> NoDup (map e_path es) ->
  read_segment_objects (fs_toc s) (fs_meta s) prev ps =
  (do ordered <- spec_fold_entries prev (objs_of (active (seg_start st s)) (last (seg_start st s))) es;
   Ok (ordered, collect_props es [])).
Proof.
  intros HI Hmeta Hnd. unfold read_segment_objects, seg_start. rewrite Hmeta, (i_ps _ _ _ _ _ HI).
  f_equal. destruct (toc_has (fs_toc s) TOC_NEWLIST).
  - cbn [active last objs_of map].
    apply new_list_update_is_update_by_path0; [exact (i_prev_keys _ _ _ _ _ HI)|exact Hnd].
  - destruct first.
    + rewrite (i_first _ _ _ _ _ HI eq_refl). cbn [objs_of map].
      apply new_list_update_is_update_by_path0; [exact (i_prev_keys _ _ _ _ _ HI)|exact Hnd].
    + apply positional_update_is_update_by_path;
        [exact (i_prev_keys _ _ _ _ _ HI)|rewrite objs_of_paths; exact (i_act_nodup _ _ _ _ _ HI)|exact Hnd].
Qed.

Lemma find_path_replace_same p o' : forall l,
  so_path o' = p -> find_path p l <> None -> find_path p (replace_path p o' l) = Some o'.
Proof.
  intros l Ho. induction l as [|o1 l IH]; cbn [find_path replace_path]; intros H; [contradiction H; reflexivity|].
  destruct (bytes_eqb p (so_path o1)) eqn:E; cbn [find_path].
  - rewrite Ho, bytes_eqb_refl. reflexivity.
  - rewrite E. apply IH. exact H.
Qed.

Lemma find_path_app_new p o' : forall l,
  so_path o' = p -> find_path p l = None -> find_path p (l ++ [o']) = Some o'.
Proof.
  intros l Ho. induction l as [|o1 l IH]; cbn [app find_path]; intros H.
  - rewrite Ho, bytes_eqb_refl. reflexivity.
  - destruct (bytes_eqb p (so_path o1)); [discriminate|]. apply IH. exact H.
Qed.

Lemma NoDup_app_mid {A} (pre : list A) x rest :
  NoDup (pre ++ x :: rest) -> NoDup pre /\ ~ In x pre /\ ~ In x rest.
Proof.
  intros H. pose proof (NoDup_remove_2 _ _ _ H) as Hx.
  apply NoDup_remove_1 in H. split.
  - clear Hx. induction pre as [|a pre IH]; [constructor|].
    cbn [app] in H. apply NoDup_cons_iff in H. destruct H as [Ha H].
    constructor; [|exact (IH H)]. intros Hin. apply Ha. apply in_or_app. left. exact Hin.
  - split; intros Hin; apply Hx; apply in_or_app; [left|right]; exact Hin.
Qed.

Lemma sim_segment_forbidden first st ps prev om s e :
  Inv first st ps prev om -> seg_ok s = true -> wf_fseg s = true ->
  apply_metadata first st s = SErr e -> forbidden e ->
  forall mobjs props, read_segment_objects (fs_toc s) (fs_meta s) prev ps = Ok (mobjs, props) ->
  forall nch fin, exists e', update_object_metadata mobjs nch fin prev om = Err e'.
Proof.
  intros HI Hok Hwfs Hmeta Hforb mobjs props Hro nch fin.
  unfold apply_metadata in Hmeta. destruct (fs_meta s) as [es|] eqn:Efs.
  2:{ destruct first; cbn [sbind] in Hmeta; [|discriminate].
      rewrite (i_ps _ _ _ _ _ HI) in Hro. cbn [read_segment_objects] in Hro. discriminate. }
  fold (seg_start st s) in Hmeta.
  destruct (apply_entries (seg_start st s) es) as [ste|e0] eqn:Eap; cbn [sbind] in Hmeta; [discriminate|].
  injection Hmeta as ->.
  unfold seg_ok in Hok. rewrite Efs in Hok. apply andb_prop in Hok. destruct Hok as [Hnd Hoks].
  apply nodup_b_sound in Hnd.
  destruct (apply_entries_err es _ e Eap) as (pre & x & rest & st' & -> & Hpre & Hx).
  rewrite map_app in Hnd. cbn [map] in Hnd. destruct (NoDup_app_mid _ _ _ Hnd) as (Hnd_pre & Hx_pre & Hx_rest).
  rewrite forallb_app in Hoks. apply andb_prop in Hoks. destruct Hoks as [Hok_pre Hok_rest].
  pose proof (wf_fseg_entries s _ Hwfs Efs) as Hwfes.
  rewrite forallb_app in Hwfes. apply andb_prop in Hwfes. destruct Hwfes as [Hwf_pre _].
  pose proof (J_init first st ps prev om (toc_has (fs_toc s) TOC_NEWLIST) HI) as HJ0.
  fold (seg_start st s) in HJ0.
  destruct (sim_entries prev (objs st) (last st) (i_prev _ _ _ _ _ HI) pre _ [] st' HJ0 Hnd_pre
                        (fun p _ H => H) Hok_pre Hwf_pre Hpre) as [Hfold HJ].
  rewrite app_nil_r in HJ.
  assert (Hp : ~ In (e_path x) (rev (map e_path pre))) by (rewrite <- in_rev; exact Hx_pre).
  rewrite <- Efs in Hro.
  rewrite (read_segment_objects_by_path first st ps prev om s _ HI Efs) in Hro
    by (rewrite map_app; exact Hnd).
  rewrite spec_fold_entries_app, Hfold in Hro. cbn [bind spec_fold_entries] in Hro.
  pose proof (prev_lookup prev (objs st) (last st) (i_prev _ _ _ _ _ HI) st' _ (e_path x) HJ Hp) as Hpl.
  set (p := e_path x) in *.
  assert (Hact : alookup p (active st') <> None -> alookup p (objs st) <> None).
  { intros Hin. destruct (alookup p (active st')) as [a|] eqn:Ea; [|contradiction Hin; reflexivity].
    apply alookup_some_in_keys in Ea. destruct (j_act_known _ _ _ _ HJ p Ea) as [Hd|Hk]; [contradiction|exact Hk]. }
  unfold apply_entry in Hx. fold p in Hx. to_model.
  unfold spec_step in Hro. fold p in Hro. rewrite find_path_objs_of in Hro.
  destruct (e_idx x) as [| |lf dt dim n total|kind dt dim n scalers widths] eqn:Eidx.
  - discriminate.
  - (* same as before *)
    destruct (alookup p (last st')) as [i|]; [discriminate|].
    rewrite (j_objs _ _ _ _ HJ) in Hx.
    destruct (alookup p (objs st)) as [o|] eqn:Ec.
    + injection Hx as <-. destruct Hforb as [H|[H|H]]; discriminate.
    + destruct (alookup p (active st')) as [a|] eqn:Ea.
      * contradiction Hact; [discriminate|reflexivity].
      * rewrite Hpl in Hro. discriminate.
  - (* full index *)
    destruct (index_of dt dim n total) as [i|] eqn:Ei.
    2:{ injection Hx as <-. destruct Hforb as [H|[H|H]]; discriminate. }
    destruct (alookup p (last st')) as [i'|] eqn:El; [|discriminate].
    destruct (ri_dt i' =? dt) eqn:Edt; [discriminate|]. clear Hx.
    assert (Hidt : ri_dt i = dt).
    { unfold index_of in Ei. destruct (negb (dim =? 1)); [discriminate|].
      destruct (type_size dt); [injection Ei as <-; reflexivity|].
      destruct total; [|discriminate]. destruct (dt =? T_STRING); [|discriminate].
      injection Ei as <-. reflexivity. }
    (* the object the model builds for p *)
    assert (Hnew : forall hd oi, update_existing (mk_obj p hd oi) (IFull lf dt dim n total)
                                 = Ok (mk_obj p true (Some i))).
    { intros hd oi. rewrite update_existing_mk. apply new_object_index_of. exact Ei. }
    assert (Hk : alookup p (objs st) <> None).
    { destruct (j_last_known _ _ _ _ HJ p i' El) as [Hd|Hk]; [contradiction|exact Hk]. }
    assert (Hl1 : exists l1, spec_fold_entries prev l1 rest = Ok mobjs /\
                             find_path p l1 = Some (mk_obj p true (Some i))).
    { destruct (alookup p (active st')) as [a|] eqn:Ea.
      - rewrite Hnew in Hro. cbn [bind] in Hro.
        destruct (spec_fold_entries prev _ rest) as [l'|e'] eqn:Er; cbn [bind] in Hro; [|discriminate].
        injection Hro as <- _. eexists. split; [exact Er|].
        apply find_path_replace_same; [apply mk_obj_path|].
        rewrite find_path_objs_of, Ea. discriminate.
      - destruct (alookup p (objs st)) as [o|] eqn:Ec; [|contradiction Hk; reflexivity].
        destruct Hpl as (hd & Hpl). rewrite Hpl in Hro. change reuse_previous with update_existing in Hro.
        rewrite Hnew in Hro. cbn [bind] in Hro.
        destruct (spec_fold_entries prev _ rest) as [l'|e'] eqn:Er; cbn [bind] in Hro; [|discriminate].
        injection Hro as <- _. eexists. split; [exact Er|].
        apply find_path_app_new; [apply mk_obj_path|].
        rewrite find_path_objs_of, Ea. reflexivity. }
    destruct Hl1 as (l1 & Hrest & Hfind).
    rewrite <- (spec_fold_entries_other prev p rest l1 mobjs (i_prev_keys _ _ _ _ _ HI) Hrest Hx_rest) in Hfind.
    destruct (find_path_path _ _ _ Hfind) as [_ Hin].
    (* the data type recorded for p *)
    assert (El0 : alookup p (last st) = Some i').
    { rewrite <- (j_last_other _ _ _ _ HJ p Hp). exact El. }
    pose proof (rel_alookup om_rel0 om_rel0_key p om (objs st) (i_om _ _ _ _ _ HI)) as Hlk.
    destruct (i_dtype _ _ _ _ _ HI p) as [Hd|Hd]; [apply cdt_none in Hd; contradiction|].
    unfold cdt in Hd. rewrite El0 in Hd.
    destruct (alookup p (objs st)) as [o|]; [|contradiction Hk; reflexivity].
    destruct (alookup p om) as [m|] eqn:Em; [|contradiction].
    destruct Hlk as (_ & _ & Hdtype & _). cbn [fst snd option_map] in *. injection Hd as Hd.
    apply (update_object_metadata_type_change mobjs nch fin prev om _ m (ri_dt i') Hin).
    + rewrite mk_obj_path. exact Em.
    + rewrite Hdtype. exact Hd.
    + rewrite mk_obj_dtype. cbn [option_map]. rewrite Hidt. intros Heq. injection Heq as Heq. lia.
  - injection Hx as <-. destruct Hforb as [H|[H|H]]; discriminate.
Qed.
