(* Proofs about Model/Writer.v: the writer's bytes are the canonical
   serialisation of the segment syntax the calls describe, that syntax is
   well-formed and passes every check of the strict parser; hence the strict
   parser returns exactly that syntax, and the index file is the data file
   with raw data removed and the tag replaced. *)

From Coq Require Import List ZArith Bool Lia ZifyBool.
From Coq Require Import Init.Byte.
Import ListNotations.
From NpTdms Require Import Base.Bytes Base.Res Model.Tokens Model.TokensWf Model.ByteStr
  Model.StrictParse Model.Writer Gen.PyFuncsWriter
  Proofs.TokensRoundtrip Proofs.ByteStrProofs Proofs.StrictParseProofs.
Local Open Scope Z_scope.

(* ---- the stable sort by _path_ordering_key is a three-way partition ------------------ *)

Definition key_of (o : wobj) : Z := if is_root o then 0 else if is_group o then 1 else 2.
Definition kf (o : wobj) : Z * wobj := (key_of o, o).

Lemma with_key_ok o : with_key o = Ok (kf o).
Proof. destruct o; reflexivity. Qed.

Lemma mapM_with_key l : mapM with_key l = Ok (map kf l).
Proof.
  induction l as [|o r IH]; [reflexivity|].
  cbn [mapM map]. rewrite with_key_ok. cbn [bind]. rewrite IH. reflexivity.
Qed.

Lemma insert_skip x P Q :
  (forall y, In y P -> fst y < fst x) -> insert_stable x (P ++ Q) = P ++ insert_stable x Q.
Proof.
  induction P as [|y P IH]; intros H; [reflexivity|].
  cbn [app insert_stable].
  replace (fst x <=? fst y) with false by (specialize (H y (or_introl eq_refl)); lia).
  rewrite IH; [reflexivity|]. intros z Hz. apply H. right. exact Hz.
Qed.

Lemma insert_head x Q :
  (forall y, In y Q -> fst x <= fst y) -> insert_stable x Q = x :: Q.
Proof.
  destruct Q as [|y Q]; intros H; [reflexivity|].
  cbn [insert_stable]. replace (fst x <=? fst y) with true; [reflexivity|].
  specialize (H y (or_introl eq_refl)). lia.
Qed.

Lemma key_in_filter (f : wobj -> bool) (k : Z) l y :
  (forall o, f o = true -> key_of o = k) -> In y (map kf (filter f l)) -> fst y = k.
Proof.
  intros Hf Hy. apply in_map_iff in Hy. destruct Hy as [o [<- Ho]].
  apply filter_In in Ho. destruct Ho as [_ Ho]. cbn [kf fst]. apply Hf. exact Ho.
Qed.

Lemma key_root o : is_root o = true -> key_of o = 0.
Proof. destruct o; cbn; intros; try discriminate; reflexivity. Qed.
Lemma key_group o : is_group o = true -> key_of o = 1.
Proof. destruct o; cbn; intros; try discriminate; reflexivity. Qed.
Lemma key_chan o : is_chan o = true -> key_of o = 2.
Proof. destruct o; cbn; intros; try discriminate; reflexivity. Qed.

Definition partition3 (l : list wobj) : list wobj :=
  filter is_root l ++ filter is_group l ++ filter is_chan l.

Lemma sort_stable_partition l :
  sort_stable (map kf l) =
  map kf (filter is_root l) ++ map kf (filter is_group l) ++ map kf (filter is_chan l).
Proof.
  induction l as [|x l IH]; [reflexivity|].
  cbn [map]. unfold sort_stable in *. cbn [fold_right]. rewrite IH.
  destruct x as [ps|g ps|g c dt vs ps]; cbn [filter is_root is_group is_chan map].
  - apply insert_head. intros y Hy. cbn [kf fst key_of is_root].
    apply in_app_or in Hy. destruct Hy as [Hy|Hy];
      [rewrite (key_in_filter is_root 0 l y key_root Hy); lia|].
    apply in_app_or in Hy. destruct Hy as [Hy|Hy];
      [rewrite (key_in_filter is_group 1 l y key_group Hy); lia|].
    rewrite (key_in_filter is_chan 2 l y key_chan Hy). lia.
  - rewrite insert_skip.
    + rewrite insert_head; [reflexivity|]. intros y Hy. cbn [kf fst key_of is_root is_group].
      apply in_app_or in Hy. destruct Hy as [Hy|Hy];
        [rewrite (key_in_filter is_group 1 l y key_group Hy); lia|].
      rewrite (key_in_filter is_chan 2 l y key_chan Hy). lia.
    + intros y Hy. rewrite (key_in_filter is_root 0 l y key_root Hy). cbn. lia.
  - rewrite app_assoc. rewrite insert_skip.
    + rewrite insert_head; [rewrite <- app_assoc; reflexivity|].
      intros y Hy. cbn [kf fst key_of is_root is_group].
      rewrite (key_in_filter is_chan 2 l y key_chan Hy). lia.
    + intros y Hy. cbn [kf fst key_of is_root is_group].
      apply in_app_or in Hy. destruct Hy as [Hy|Hy];
        [rewrite (key_in_filter is_root 0 l y key_root Hy); lia|].
      rewrite (key_in_filter is_group 1 l y key_group Hy). lia.
Qed.

Lemma map_snd_kf l : map snd (map kf l) = l.
Proof. induction l as [|x l IH]; [reflexivity|]. cbn [map kf snd]. rewrite IH. reflexivity. Qed.

Definition pairs_of (st : wstate) (objs : list wobj) : list wobj :=
  objs ++ (if negb (root_written st) && negb (existsb is_root objs) then [WRoot []] else []) ++
  map (fun g => WGroup g []) (groups_to_add st objs).

Lemma wr_objects_spec st objs sorted st' :
  wr_objects st objs = Ok (sorted, st') ->
  sorted = partition3 (pairs_of st objs) /\
  has_dup (map obj_path sorted) = false /\
  st' = mkW true (groups_written st ++ groups_included objs ++ groups_to_add st objs).
Proof.
  unfold wr_objects. fold (pairs_of st objs). rewrite mapM_with_key. cbn [bind].
  rewrite sort_stable_partition, !(map_app snd), !map_snd_kf. fold (partition3 (pairs_of st objs)).
  destruct (has_dup (map obj_path (partition3 (pairs_of st objs)))) eqn:E; [discriminate|].
  intros H. injection H as <- <-. repeat split. exact E.
Qed.

Lemma in_partition3 o l : In o (partition3 l) <-> In o l.
Proof.
  unfold partition3. rewrite !in_app_iff, !filter_In. split.
  - intros [[H _]|[[H _]|[H _]]]; exact H.
  - intros H. destruct o; cbn; auto.
Qed.

(* ---- entries ---------------------------------------------------------------------------- *)

Definition idx_of (o : wobj) : idx :=
  match o with
  | WChan _ _ dt vals _ =>
    if dt =? T_VOID then INoData
    else IFull (if dt =? T_STRING then 28 else 20) dt 1 (Z.of_nat (length vals))
           (if dt =? T_STRING then Some (string_total vals) else None)
  | _ => INoData
  end.

Definition entry_of (o : wobj) : entry := mkEntry (obj_path o) (idx_of o) (obj_props o).

Lemma wr_entry_fixed o : wr_entry true o = Ok (entry_of o).
Proof.
  unfold wr_entry, entry_of. destruct o as [ps|g ps|g c dt vs ps]; cbn [obj_idx idx_of bind];
    try reflexivity.
  destruct (dt =? T_VOID); cbn [bind andb]; reflexivity.
Qed.

Lemma mapM_wr_entry l : mapM (wr_entry true) l = Ok (map entry_of l).
Proof.
  induction l as [|o r IH]; [reflexivity|].
  cbn [mapM map]. rewrite wr_entry_fixed. cbn [bind]. rewrite IH. reflexivity.
Qed.

Lemma map_path_entries l : map e_path (map entry_of l) = map obj_path l.
Proof. rewrite map_map. reflexivity. Qed.

(* ---- bytes = canonical serialisation of the syntax ------------------------------------------ *)

Lemma wr_string_offsets_eq off vals : wr_string_offsets off vals = string_offsets LE off vals.
Proof.
  revert off. induction vals as [|s r IH]; intros off; [reflexivity|].
  cbn [wr_string_offsets string_offsets]. rewrite IH. reflexivity.
Qed.

Lemma flat_map_store_le dt vals : flat_map (store_value LE dt) vals = concat vals.
Proof.
  induction vals as [|v r IH]; [reflexivity|].
  cbn [flat_map concat]. rewrite IH. reflexivity.
Qed.

Lemma obj_raw_ser o : ser_obj_raw LE (idx_of o) (obj_values o) = obj_raw o.
Proof.
  destruct o as [ps|g ps|g c dt vs ps]; try reflexivity.
  cbn [idx_of obj_values obj_raw]. destruct (dt =? T_VOID); [reflexivity|].
  cbn [ser_obj_raw]. destruct (dt =? T_STRING).
  - rewrite wr_string_offsets_eq. reflexivity.
  - apply flat_map_store_le.
Qed.

Lemma ser_raw_objs l : ser_raw LE (map entry_of l) (map obj_values l) = flat_map obj_raw l.
Proof.
  induction l as [|o r IH]; [reflexivity|].
  cbn [map ser_raw flat_map e_idx entry_of]. rewrite obj_raw_ser, IH. reflexivity.
Qed.

Lemma toc_writer_le : toc_endian TOC_WRITER = LE.
Proof. reflexivity. Qed.

Lemma segment_bytes_syntax v objs d i :
  wr_segment_bytes true v objs = Ok (d, i) ->
  exists s, syntax_of_objs v objs = Ok s /\ d = ser_segment s /\ i = ser_index_segment s.
Proof.
  unfold wr_segment_bytes, syntax_of_objs. rewrite mapM_wr_entry. cbn [bind].
  destruct (data_size objs) as [dsize|e]; cbn [bind]; [|discriminate].
  intros H. injection H as <- <-. eexists. split; [reflexivity|].
  unfold ser_segment, ser_index_segment, retag.
  cbn [sg_leadin sg_entries sg_values l_tag l_toc l_version l_next l_raw].
  rewrite toc_writer_le, ser_raw_objs. split; reflexivity.
Qed.

Lemma calls_syntax v : forall calls st d i,
  wr_calls true v st calls = Ok (d, i) ->
  exists segs, syntax_of_calls_from v st calls = Ok segs /\
               d = flat_map ser_segment segs /\ i = flat_map ser_index_segment segs.
Proof.
  induction calls as [|objs r IH]; intros st d i H.
  - cbn in H. injection H as <- <-. exists []. repeat split.
  - cbn [wr_calls] in H. unfold wr_segment_gen in H.
    destruct (wr_objects st objs) as [[sorted st']|e] eqn:Eo; cbn [bind] in H; [|discriminate].
    destruct (wr_segment_bytes true v sorted) as [[d1 i1]|e] eqn:Eb; cbn [bind] in H; [|discriminate].
    destruct (wr_calls true v st' r) as [[d2 i2]|e] eqn:Er; cbn [bind] in H; [|discriminate].
    injection H as <- <-.
    destruct (segment_bytes_syntax v sorted d1 i1 Eb) as [s [Hs [-> ->]]].
    destruct (IH st' d2 i2 Er) as [segs [Hsegs [-> ->]]].
    exists (s :: segs). cbn [syntax_of_calls_from]. rewrite Eo. cbn [bind]. rewrite Hs. cbn [bind].
    rewrite Hsegs. cbn [bind]. repeat split.
Qed.

Lemma file_syntax : forall sessions d i,
  wr_file sessions = Ok (d, i) ->
  exists segs, syntax_of_file sessions = Ok segs /\
               d = flat_map ser_segment segs /\ i = flat_map ser_index_segment segs.
Proof.
  induction sessions as [|[v calls] r IH]; intros d i H.
  - cbn in H. injection H as <- <-. exists []. repeat split.
  - unfold wr_file in H. cbn [wr_file_gen] in H. unfold wr_session_gen in H.
    destruct (valid_version v) eqn:Ev; [|discriminate].
    destruct (wr_calls true v w_init calls) as [[d1 i1]|e] eqn:Ec; cbn [bind] in H; [|discriminate].
    fold wr_file in H.
    destruct (wr_file r) as [[d2 i2]|e] eqn:Er; cbn [bind] in H; [|discriminate].
    injection H as <- <-.
    destruct (calls_syntax v calls w_init d1 i1 Ec) as [s1 [Hs1 [-> ->]]].
    destruct (IH d2 i2 eq_refl) as [s2 [Hs2 [-> ->]]].
    exists (s1 ++ s2). cbn [syntax_of_file]. unfold syntax_of_calls. rewrite Hs1. cbn [bind].
    rewrite Hs2. cbn [bind]. rewrite !flat_map_app. repeat split.
Qed.

(* ---- well-formedness of the planned syntax ------------------------------------------------------ *)

Lemma sized_type_facts dt k :
  sized_type dt = Some k -> is_u32 dt = true /\ (dt =? T_STRING) = false /\ (dt =? T_VOID) = false.
Proof.
  unfold sized_type. destruct (has_nptype dt || (dt =? T_TIME)) eqn:E; [|discriminate].
  intros _. unfold has_nptype, is_struct_type, T_C64, T_C128, T_TIME, T_STRING, T_VOID, is_u32 in *.
  lia.
Qed.

Lemma wf_obj_entry o :
  wf_obj o = true ->
  wf_entry (entry_of o) = true /\
  strings_u32 (idx_of o) (obj_values o) = true /\
  idx_ok (idx_of o) (obj_values o) = true.
Proof.
  intros Hwf. unfold wf_obj in Hwf.
  apply andb_prop in Hwf. destruct Hwf as [Hwf Hch].
  apply andb_prop in Hwf. destruct Hwf as [Hwf Hps].
  apply andb_prop in Hwf. destruct Hwf as [Hpath Hpl].
  unfold wf_entry, entry_of. cbn [e_path e_idx e_props].
  rewrite Hpath, Hpl, Hps. rewrite !andb_true_r. cbn [andb].
  destruct o as [ps|g ps|g c dt vs ps]; cbn [idx_of obj_values]; try (repeat split; reflexivity).
  unfold wf_chan_part in Hch.
  apply andb_prop in Hch. destruct Hch as [Hch Hst].
  apply andb_prop in Hch. destruct Hch as [Hch Hn].
  apply andb_prop in Hch. destruct Hch as [Hty Hgp].
  unfold chan_type_ok in Hty.
  destruct (dt =? T_VOID) eqn:Ev.
  - destruct vs; [repeat split; reflexivity|discriminate].
  - destruct (dt =? T_STRING) eqn:Es.
    + assert (dt = T_STRING) by lia. subst dt.
      cbn [wf_idx strings_u32 idx_ok]. rewrite Es, Hn, Hst.
      apply is_u32_spec in Hst.
      replace (is_u64 (string_total vs)) with true by (symmetry; apply is_u64_spec; lia).
      rewrite !Z.eqb_refl. repeat split; reflexivity.
    + destruct (sized_type dt) as [k|] eqn:Ek; [|discriminate].
      destruct (sized_type_facts dt k Ek) as [Hu [_ _]].
      cbn [wf_idx strings_u32 idx_ok]. rewrite Es, Ek, Hn, Hu, Hty.
      rewrite !Z.eqb_refl. repeat split; reflexivity.
Qed.

Lemma forall_entries l :
  forallb wf_obj l = true ->
  forallb wf_entry (map entry_of l) = true /\
  vals_wf (map entry_of l) (map obj_values l) = true /\
  idxs_ok (map entry_of l) (map obj_values l) = true.
Proof.
  induction l as [|o r IH]; intros H; [repeat split; reflexivity|].
  cbn [forallb] in H. apply andb_prop in H. destruct H as [Ho Hr].
  destruct (wf_obj_entry o Ho) as [H1 [H2 H3]]. destruct (IH Hr) as [I1 [I2 I3]].
  cbn [map forallb vals_wf idxs_ok e_idx entry_of].
  fold (entry_of o). rewrite H1, I1, I2, I3. cbn [e_idx entry_of] in *. rewrite H2, H3.
  repeat split; reflexivity.
Qed.

(* membership in sorted(set(...)) *)
Lemma in_insert_uniq x g l : In x (insert_uniq g l) <-> x = g \/ In x l.
Proof.
  induction l as [|h r IH]; cbn [insert_uniq].
  - cbn. intuition.
  - destruct (bytes_eqb g h) eqn:E.
    + apply bytes_eqb_eq in E. subst h. cbn [In]. intuition.
    + destruct (bytes_ltb g h); cbn [In]; [intuition|]. rewrite IH. intuition.
Qed.

Lemma in_sorted_set x l : In x (sorted_set l) <-> In x l.
Proof.
  unfold sorted_set. induction l as [|g r IH]; cbn [fold_right]; [reflexivity|].
  rewrite in_insert_uniq, IH. cbn [In]. intuition.
Qed.

Lemma in_groups_required g objs :
  In g (groups_required objs) <-> exists c dt vs ps, In (WChan g c dt vs ps) objs.
Proof.
  unfold groups_required. rewrite in_flat_map. split.
  - intros [o [Ho Hg]]. destruct o as [ps|g' ps|g' c dt vs ps]; cbn in Hg; try contradiction.
    destruct Hg as [<-|[]]. eauto.
  - intros [c [dt [vs [ps H]]]]. eexists. split; [exact H|]. cbn. auto.
Qed.

Lemma in_groups_included g objs :
  In g (groups_included objs) <-> exists ps, In (WGroup g ps) objs.
Proof.
  unfold groups_included. rewrite in_flat_map. split.
  - intros [o [Ho Hg]]. destruct o as [ps|g' ps|g' c dt vs ps]; cbn in Hg; try contradiction.
    destruct Hg as [<-|[]]. eauto.
  - intros [ps H]. eexists. split; [exact H|]. cbn. auto.
Qed.

Lemma in_groups_to_add g st objs :
  In g (groups_to_add st objs) <->
  In g (groups_required objs) /\ bmem g (groups_included objs) = false /\
  bmem g (groups_written st) = false.
Proof.
  unfold groups_to_add. rewrite in_sorted_set, filter_In.
  rewrite andb_true_iff, !negb_true_iff. reflexivity.
Qed.

Lemma root_path_u32 : is_u32 (blen ROOT_PATH) = true.
Proof. reflexivity. Qed.

Lemma wf_obj_root_nil : wf_obj (WRoot []) = true.
Proof. vm_compute. reflexivity. Qed.

Lemma wf_obj_group_nil g : is_u32 (blen (group_path g)) = true -> wf_obj (WGroup g []) = true.
Proof. intros H. unfold wf_obj. cbn [obj_path obj_props]. rewrite H. reflexivity. Qed.

Lemma wf_obj_chan_part o : wf_obj o = true -> wf_chan_part o = true.
Proof.
  intros H. unfold wf_obj in H. apply andb_prop in H. destruct H as [_ H]. exact H.
Qed.

Lemma wf_obj_chan_group g c dt vs ps :
  wf_obj (WChan g c dt vs ps) = true -> is_u32 (blen (group_path g)) = true.
Proof.
  intros H. apply wf_obj_chan_part in H. unfold wf_chan_part in H.
  apply andb_prop in H. destruct H as [H _]. apply andb_prop in H. destruct H as [H _].
  apply andb_prop in H. destruct H as [_ H]. exact H.
Qed.

Lemma wf_pairs st objs :
  forallb wf_obj objs = true -> forallb wf_obj (pairs_of st objs) = true.
Proof.
  intros H. unfold pairs_of. rewrite !forallb_app. rewrite H. cbn [andb].
  apply andb_true_intro. split.
  - destruct (negb (root_written st) && negb (existsb is_root objs)); [|reflexivity].
    cbn [forallb]. rewrite wf_obj_root_nil. reflexivity.
  - apply forallb_forall. intros o Ho. apply in_map_iff in Ho. destruct Ho as [g [<- Hg]].
    apply in_groups_to_add in Hg. destruct Hg as [Hreq _].
    apply in_groups_required in Hreq. destruct Hreq as [c [dt [vs [ps Hin]]]].
    rewrite forallb_forall in H. specialize (H _ Hin).
    apply wf_obj_group_nil. exact (wf_obj_chan_group _ _ _ _ _ H).
Qed.

Lemma wf_sorted st objs sorted st' :
  wr_objects st objs = Ok (sorted, st') -> forallb wf_obj objs = true ->
  forallb wf_obj sorted = true.
Proof.
  intros Ho Hwf. destruct (wr_objects_spec _ _ _ _ Ho) as [-> _].
  apply forallb_forall. intros o Hin. apply (proj1 (in_partition3 _ _)) in Hin.
  pose proof (wf_pairs st objs Hwf) as Hp. rewrite forallb_forall in Hp. apply Hp. exact Hin.
Qed.

(* ---- the planned syntax passes every check of the strict parser ------------------------------ *)

Lemma sized_tds_size dt k : sized_type dt = Some k -> tds_size dt = Some (Some k).
Proof.
  unfold sized_type. destruct (has_nptype dt || (dt =? T_TIME)); [|discriminate].
  destruct (tds_size dt) as [[k'|]|]; try discriminate. intros H. injection H as ->. reflexivity.
Qed.

Lemma obj_data_size_idx o a :
  wf_obj o = true -> obj_data_size o = Ok a -> idx_raw_size (idx_of o) = a.
Proof.
  intros Hwf. apply wf_obj_chan_part in Hwf.
  destruct o as [ps|g ps|g c dt vs ps]; cbn [obj_data_size idx_of idx_raw_size];
    try (intros H; injection H as <-; reflexivity).
  unfold wf_chan_part in Hwf.
  apply andb_prop in Hwf. destruct Hwf as [Hwf _]. apply andb_prop in Hwf. destruct Hwf as [Hwf _].
  apply andb_prop in Hwf. destruct Hwf as [Hty _]. unfold chan_type_ok in Hty.
  destruct (dt =? T_VOID) eqn:Ev; [intros H; injection H as <-; reflexivity|].
  cbn [idx_raw_size]. destruct (dt =? T_STRING) eqn:Es; [intros H; injection H as <-; reflexivity|].
  destruct (sized_type dt) as [k|] eqn:Ek; [|discriminate].
  rewrite (sized_tds_size dt k Ek). intros H. injection H as <-. reflexivity.
Qed.

Lemma data_size_raw_size l : forall dsize,
  forallb wf_obj l = true -> data_size l = Ok dsize -> raw_size (map entry_of l) = dsize.
Proof.
  induction l as [|o r IH]; intros dsize Hwf H.
  - cbn in H. injection H as <-. reflexivity.
  - cbn [forallb] in Hwf. apply andb_prop in Hwf. destruct Hwf as [Ho Hr].
    cbn [data_size] in H.
    destruct (obj_data_size o) as [a|e] eqn:Ea; cbn [bind] in H; [|discriminate].
    destruct (data_size r) as [b|e] eqn:Eb; cbn [bind] in H; [|discriminate].
    injection H as <-. cbn [map raw_size e_idx entry_of].
    rewrite (obj_data_size_idx o a Ho Ea), (IH b Hr eq_refl). reflexivity.
Qed.

Lemma order_ok_app D a b :
  order_ok D (a ++ b) = order_ok D a && order_ok (rev (map e_path a) ++ D) b.
Proof.
  revert D. induction a as [|x a IH]; intros D; cbn [app order_ok map rev].
  - reflexivity.
  - rewrite IH, <- app_assoc. cbn [app]. rewrite andb_assoc. reflexivity.
Qed.

Lemma order_ok_nonchan l : forall D,
  (forall o, In o l -> is_chan o = false) -> order_ok D (map entry_of l) = true.
Proof.
  induction l as [|o r IH]; intros D H; [reflexivity|].
  cbn [map order_ok e_path entry_of].
  rewrite IH by (intros o' Ho'; apply H; right; exact Ho').
  pose proof (H o (or_introl eq_refl)) as Ho.
  destruct o as [ps|g ps|g c dt vs ps]; cbn [obj_path].
  - rewrite classify_root. reflexivity.
  - rewrite classify_group. reflexivity.
  - discriminate Ho.
Qed.

Lemma bmem_cons_mono x p D : bmem x D = true -> bmem x (p :: D) = true.
Proof. intros H. unfold bmem in *. cbn [existsb]. rewrite H. apply orb_true_r. Qed.

Definition chan_group_in (D : list bytes) (o : wobj) : Prop :=
  match o with
  | WChan g _ _ _ _ => bmem (group_path g) D = true
  | _ => True
  end.

Lemma order_ok_chans l : forall D,
  (forall o, In o l -> chan_group_in D o) -> order_ok D (map entry_of l) = true.
Proof.
  induction l as [|o r IH]; intros D H; [reflexivity|].
  cbn [map order_ok e_path entry_of].
  rewrite IH.
  - pose proof (H o (or_introl eq_refl)) as Ho.
    destruct o as [ps|g ps|g c dt vs ps]; cbn [obj_path].
    + rewrite classify_root. reflexivity.
    + rewrite classify_group. reflexivity.
    + rewrite classify_chan. cbn [chan_group_in] in Ho. rewrite Ho. reflexivity.
  - intros o' Ho'. specialize (H o' (or_intror Ho')).
    destruct o'; cbn [chan_group_in] in *; try exact I. apply bmem_cons_mono. exact H.
Qed.

Definition inv (st : wstate) (D : list bytes) : Prop :=
  forall g, bmem g (groups_written st) = true -> bmem (group_path g) D = true.

Lemma in_pairs_objs st objs o : In o objs -> In o (pairs_of st objs).
Proof. intros H. unfold pairs_of. apply in_or_app. left. exact H. Qed.

Lemma in_pairs_added st objs g :
  In g (groups_to_add st objs) -> In (WGroup g []) (pairs_of st objs).
Proof.
  intros H. unfold pairs_of. apply in_or_app. right. apply in_or_app. right.
  apply in_map_iff. exists g. split; [reflexivity|exact H].
Qed.

Lemma chan_in_pairs st objs g c dt vs ps :
  In (WChan g c dt vs ps) (pairs_of st objs) -> In (WChan g c dt vs ps) objs.
Proof.
  unfold pairs_of. intros H. apply in_app_or in H. destruct H as [H|H]; [exact H|].
  apply in_app_or in H. destruct H as [H|H].
  - destruct (negb (root_written st) && negb (existsb is_root objs)); cbn in H;
      [destruct H as [H|[]]; discriminate H|contradiction].
  - apply in_map_iff in H. destruct H as [g' [H _]]. discriminate H.
Qed.

(* paths of the non-channel part of the sorted list *)
Definition nonchan (l : list wobj) : list wobj := filter is_root l ++ filter is_group l.

Lemma partition3_nonchan l : partition3 l = nonchan l ++ filter is_chan l.
Proof. unfold partition3, nonchan. rewrite app_assoc. reflexivity. Qed.

Lemma group_in_nonchan l g ps :
  In (WGroup g ps) l -> In (group_path g) (map obj_path (nonchan l)).
Proof.
  intros H. apply in_map_iff. exists (WGroup g ps). split; [reflexivity|].
  unfold nonchan. apply in_or_app. right. apply filter_In. split; [exact H|reflexivity].
Qed.

Lemma group_decl st objs D g :
  inv st D -> In g (groups_required objs) ->
  bmem (group_path g) (rev (map obj_path (nonchan (pairs_of st objs))) ++ D) = true.
Proof.
  intros Hinv Hreq. rewrite bmem_app.
  destruct (bmem g (groups_included objs)) eqn:Einc.
  - apply bmem_In in Einc. apply in_groups_included in Einc. destruct Einc as [ps Hin].
    apply orb_true_intro. left. apply bmem_In. apply -> in_rev.
    apply (group_in_nonchan _ g ps). apply in_pairs_objs. exact Hin.
  - destruct (bmem g (groups_written st)) eqn:Ew.
    + apply orb_true_intro. right. apply Hinv. exact Ew.
    + apply orb_true_intro. left. apply bmem_In. apply -> in_rev.
      apply (group_in_nonchan _ g []). apply in_pairs_added.
      apply in_groups_to_add. repeat split; assumption.
Qed.

Lemma root_in_pairs st objs :
  root_written st = false -> exists ps, In (WRoot ps) (pairs_of st objs).
Proof.
  intros Hr. destruct (existsb is_root objs) eqn:E.
  - apply existsb_exists in E. destruct E as [o [Ho Hk]].
    destruct o as [ps| |]; try discriminate Hk. exists ps. apply in_pairs_objs. exact Ho.
  - exists []. unfold pairs_of. rewrite Hr, E. cbn [negb andb].
    apply in_or_app. right. left. reflexivity.
Qed.

Lemma toc_ok_writer : toc_ok TOC_WRITER = true.
Proof. vm_compute. reflexivity. Qed.

Lemma toc_raw_writer : toc_has TOC_WRITER TOC_RAW = true.
Proof. vm_compute. reflexivity. Qed.

Lemma call_seg_ok v st objs sorted st' s first D :
  valid_version v = true ->
  forallb wf_obj objs = true ->
  wr_objects st objs = Ok (sorted, st') ->
  syntax_of_objs v sorted = Ok s ->
  (first = true -> root_written st = false) ->
  inv st D ->
  seg_ok first D s = true /\ inv st' (rev (map e_path (sg_entries s)) ++ D) /\
  root_written st' = true.
Proof.
  intros Hv Hwf Ho Hs Hfirst Hinv.
  pose proof (wf_sorted _ _ _ _ Ho Hwf) as Hws.
  destruct (wr_objects_spec _ _ _ _ Ho) as [Hsorted [Hdup Hst']].
  unfold syntax_of_objs in Hs. rewrite mapM_wr_entry in Hs. cbn [bind] in Hs.
  destruct (data_size sorted) as [dsize|e] eqn:Ed; cbn [bind] in Hs; [|discriminate].
  injection Hs as <-.
  pose proof (data_size_raw_size sorted dsize Hws Ed) as Hrs.
  destruct (forall_entries sorted Hws) as [_ [_ Hidx]].
  split; [|split].
  - unfold seg_ok. cbn [sg_leadin sg_entries sg_values l_tag l_toc l_version l_next l_raw].
    rewrite toc_writer_le, toc_ok_writer, toc_raw_writer, bytes_eqb_refl, Hidx, Hrs.
    rewrite map_path_entries, Hdup, !Z.eqb_refl.
    unfold valid_version in Hv. unfold version_ok. rewrite Hv. cbn [andb orb negb].
    apply andb_true_intro. split.
    + (* order *)
      rewrite Hsorted, partition3_nonchan, map_app, order_ok_app.
      apply andb_true_intro. split.
      * apply order_ok_nonchan. intros o Hin. unfold nonchan in Hin.
        apply in_app_or in Hin. destruct Hin as [Hin|Hin]; apply filter_In in Hin;
          destruct Hin as [_ Hk]; destruct o; try discriminate Hk; reflexivity.
      * apply order_ok_chans. intros o Hin. apply filter_In in Hin. destruct Hin as [Hin _].
        destruct o as [ps|g ps|g c dt vs ps]; cbn [chan_group_in]; try exact I.
        rewrite map_path_entries. apply group_decl; [exact Hinv|].
        apply in_groups_required. exists c, dt, vs, ps. eapply chan_in_pairs. exact Hin.
    + (* root *)
      destruct first; [|reflexivity]. cbn [negb orb].
      destruct (root_in_pairs st objs (Hfirst eq_refl)) as [ps Hin].
      apply bmem_In. rewrite Hsorted. apply in_map_iff. exists (WRoot ps).
      split; [reflexivity|]. apply in_partition3. exact Hin.
  - (* invariant *)
    cbn [sg_entries]. rewrite map_path_entries. intros g Hg. rewrite Hst' in Hg.
    cbn [groups_written] in Hg. rewrite !bmem_app in Hg. rewrite bmem_app.
    assert (Hsub : forall ps, In (WGroup g ps) (pairs_of st objs) ->
                   bmem (group_path g) (rev (map obj_path sorted)) = true).
    { intros ps Hin. apply bmem_In. apply -> in_rev. apply in_map_iff. exists (WGroup g ps).
      split; [reflexivity|]. rewrite Hsorted. apply in_partition3. exact Hin. }
    destruct (bmem g (groups_written st)) eqn:E1.
    + rewrite (Hinv g E1). apply orb_true_r.
    + destruct (bmem g (groups_included objs)) eqn:E2.
      * apply bmem_In in E2. apply in_groups_included in E2. destruct E2 as [ps Hin].
        rewrite (Hsub ps (in_pairs_objs st objs _ Hin)). reflexivity.
      * cbn [orb] in Hg. apply bmem_In in Hg.
        rewrite (Hsub [] (in_pairs_added st objs g Hg)). reflexivity.
  - rewrite Hst'. reflexivity.
Qed.

(* ---- all calls, all sessions -------------------------------------------------------------------- *)

Definition declared_after (D : list bytes) (segs : list segsyn) : list bytes :=
  fold_left (fun D s => rev (map e_path (sg_entries s)) ++ D) segs D.

Definition first_after (first : bool) (segs : list segsyn) : bool :=
  match segs with [] => first | _ :: _ => false end.

Lemma first_after_false segs : first_after false segs = false.
Proof. destruct segs; reflexivity. Qed.

Lemma segs_ok_app : forall a first D b,
  segs_ok first D (a ++ b) =
  segs_ok first D a && segs_ok (first_after first a) (declared_after D a) b.
Proof.
  induction a as [|s a IH]; intros first D b; cbn [app segs_ok first_after declared_after fold_left].
  - reflexivity.
  - rewrite IH, first_after_false. rewrite andb_assoc. reflexivity.
Qed.

Lemma wf_leadin_writer v n r :
  valid_version v = true -> is_u64 n = true -> is_u64 r = true ->
  wf_leadin (mkLeadin TAG_DATA TOC_WRITER v n r) = true.
Proof.
  intros Hv Hn Hr. unfold wf_leadin. cbn [l_tag l_toc l_version l_next l_raw].
  rewrite Hn, Hr. unfold valid_version in Hv.
  assert (Hi : is_i32 v = true) by (unfold is_i32; lia). rewrite Hi. reflexivity.
Qed.

Lemma call_seg_wf v st objs sorted st' s :
  valid_version v = true ->
  forallb wf_obj objs = true ->
  wr_objects st objs = Ok (sorted, st') ->
  syntax_of_objs v sorted = Ok s ->
  implb (seg_sizes_ok s) (seg_wf s) = true.
Proof.
  intros Hv Hwf Ho Hs.
  pose proof (wf_sorted _ _ _ _ Ho Hwf) as Hws.
  unfold syntax_of_objs in Hs. rewrite mapM_wr_entry in Hs. cbn [bind] in Hs.
  destruct (data_size sorted) as [dsize|e] eqn:Ed; cbn [bind] in Hs; [|discriminate].
  remember (blen (ser_metadata LE (map entry_of sorted))) as m eqn:Hm in Hs.
  remember (m + dsize) as nx eqn:Hnx in Hs.
  injection Hs as <-.
  destruct (forall_entries sorted Hws) as [He [Hvw _]].
  unfold seg_sizes_ok, seg_wf. cbn [sg_leadin sg_entries sg_values l_next l_raw l_toc].
  destruct (len_u32 (map entry_of sorted)) eqn:E1; [|reflexivity].
  destruct (is_u64 nx) eqn:E2; [|reflexivity].
  destruct (is_u64 m) eqn:E3; [|reflexivity].
  cbn [andb implb].
  rewrite (wf_leadin_writer v _ _ Hv E2 E3). unfold wf_metadata. rewrite E1, He, Hvw.
  reflexivity.
Qed.

Lemma calls_ok v : forall calls st first D segs,
  valid_version v = true ->
  forallb (forallb wf_obj) calls = true ->
  syntax_of_calls_from v st calls = Ok segs ->
  (first = true -> root_written st = false) ->
  inv st D ->
  segs_ok first D segs = true /\
  forallb (fun s => implb (seg_sizes_ok s) (seg_wf s)) segs = true.
Proof.
  induction calls as [|objs r IH]; intros st first D segs Hv Hwf Hs Hfirst Hinv.
  - cbn in Hs. injection Hs as <-. split; reflexivity.
  - cbn [forallb] in Hwf. apply andb_prop in Hwf. destruct Hwf as [Hwo Hwr].
    cbn [syntax_of_calls_from] in Hs.
    destruct (wr_objects st objs) as [[sorted st']|e] eqn:Eo; cbn [bind] in Hs; [|discriminate].
    destruct (syntax_of_objs v sorted) as [s|e] eqn:Es; cbn [bind] in Hs; [|discriminate].
    destruct (syntax_of_calls_from v st' r) as [ss|e] eqn:Er; cbn [bind] in Hs; [|discriminate].
    injection Hs as <-.
    destruct (call_seg_ok v st objs sorted st' s first D Hv Hwo Eo Es Hfirst Hinv)
      as [Hok [Hinv' Hrw]].
    pose proof (call_seg_wf v st objs sorted st' s Hv Hwo Eo Es) as Hsw.
    destruct (IH st' false _ ss Hv Hwr Er (fun H => False_ind _ (Bool.diff_false_true H)) Hinv')
      as [Hoks Hwfs].
    cbn [segs_ok forallb]. rewrite Hok, Hoks, Hsw, Hwfs. split; reflexivity.
Qed.

Lemma inv_init D : inv w_init D.
Proof. intros g H. cbn in H. discriminate H. Qed.

Lemma file_ok : forall sessions first D segs,
  forallb (fun s => valid_version (fst s)) sessions = true ->
  forallb (fun s => forallb (forallb wf_obj) (snd s)) sessions = true ->
  syntax_of_file sessions = Ok segs ->
  segs_ok first D segs = true /\
  forallb (fun s => implb (seg_sizes_ok s) (seg_wf s)) segs = true.
Proof.
  induction sessions as [|[v calls] r IH]; intros first D segs Hv Hwf Hs.
  - cbn in Hs. injection Hs as <-. split; reflexivity.
  - cbn [forallb fst snd] in Hv, Hwf.
    apply andb_prop in Hv. destruct Hv as [Hv Hvr].
    apply andb_prop in Hwf. destruct Hwf as [Hw Hwr].
    cbn [syntax_of_file] in Hs. unfold syntax_of_calls in Hs.
    destruct (syntax_of_calls_from v w_init calls) as [a|e] eqn:Ea; cbn [bind] in Hs; [|discriminate].
    destruct (syntax_of_file r) as [b|e] eqn:Eb; cbn [bind] in Hs; [|discriminate].
    injection Hs as <-.
    destruct (calls_ok v calls w_init first D a Hv Hw Ea (fun _ => eq_refl) (inv_init D))
      as [Ha Hwa].
    destruct (IH (first_after first a) (declared_after D a) b Hvr Hwr eq_refl) as [Hb Hwb].
    rewrite segs_ok_app, Ha, Hb, forallb_app, Hwa, Hwb. split; reflexivity.
Qed.

Lemma wr_file_versions : forall sessions d i,
  wr_file sessions = Ok (d, i) -> forallb (fun s => valid_version (fst s)) sessions = true.
Proof.
  induction sessions as [|[v calls] r IH]; intros d i H; [reflexivity|].
  unfold wr_file in H. cbn [wr_file_gen] in H. unfold wr_session_gen in H.
  destruct (valid_version v) eqn:Ev; [|discriminate].
  destruct (wr_calls true v w_init calls) as [[d1 i1]|e]; cbn [bind] in H; [|discriminate].
  fold wr_file in H. destruct (wr_file r) as [[d2 i2]|e] eqn:Er; cbn [bind] in H; [|discriminate].
  cbn [forallb fst]. rewrite Ev, (IH d2 i2 eq_refl). reflexivity.
Qed.

Lemma forallb_implb {A} (p q : A -> bool) l :
  forallb (fun x => implb (p x) (q x)) l = true -> forallb p l = true -> forallb q l = true.
Proof.
  induction l as [|x l IH]; intros H1 H2; [reflexivity|].
  cbn [forallb] in *. apply andb_prop in H1. destruct H1 as [Hx Hl].
  apply andb_prop in H2. destruct H2 as [Px Pl]. rewrite Px in Hx. cbn [implb] in Hx.
  rewrite Hx, (IH Hl Pl). reflexivity.
Qed.

(* The main theorem: what the writer wrote strict-parses to exactly the syntax
   the calls describe, every structural clause holds, and the index file is the
   positional strip of the data file. *)
Theorem writer_file_valid : forall sessions data index,
  wf_file sessions = true ->
  wr_file sessions = Ok (data, index) ->
  exists segs,
    syntax_of_file sessions = Ok segs /\
    strict_parse data = Some segs /\
    segs_ok true [] segs = true /\
    forallb seg_wf segs = true /\
    data = flat_map ser_segment segs /\
    index = flat_map ser_index_segment segs /\
    strip_raw_and_retag data = Some index.
Proof.
  intros sessions data index Hwf Hwr.
  destruct (file_syntax sessions data index Hwr) as [segs [Hs [Hd Hi]]].
  exists segs. unfold wf_file in Hwf. rewrite Hs in Hwf.
  apply andb_prop in Hwf. destruct Hwf as [Hobjs Hsizes].
  pose proof (wr_file_versions sessions data index Hwr) as Hv.
  destruct (file_ok sessions true [] segs Hv Hobjs Hs) as [Hok Himp].
  pose proof (forallb_implb _ _ _ Himp Hsizes) as Hsw.
  repeat split; try assumption.
  - rewrite Hd. apply strict_parse_ser; assumption.
  - rewrite Hd, Hi. apply strip_ser; assumption.
Qed.
