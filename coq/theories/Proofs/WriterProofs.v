(* Proofs about Model/Writer.v: the writer's bytes are the canonical
   serialisation of the segment syntax the calls describe, that syntax is
   well-formed and passes every check of the strict parser; hence the strict
   parser returns exactly that syntax, and the index file is the data file
   with raw data removed and the tag replaced. *)

From Coq Require Import List ZArith Bool Lia ZifyBool.
From Coq Require Import Init.Byte.
Import ListNotations.
From NpTdms Require Import Base.Bytes Base.Res Model.Tokens Model.TokensWf Model.ByteStr
  Model.StrictParse Model.Writer Gen.PyFuncsWriter
  Proofs.TokensRoundtrip Proofs.ByteStrProofs Proofs.StrictParseProofs.
Local Open Scope Z_scope.

(* ---- the stable sort by _path_ordering_key is a three-way partition ------------------ *)

Definition key_of (o : wobj) : Z := if is_root o then 0 else if is_group o then 1 else 2.
Definition kf (o : wobj) : Z * wobj := (key_of o, o).

Lemma with_key_ok o : with_key o = Ok (kf o).
Proof. destruct o; reflexivity. Qed.

Lemma mapM_with_key l : mapM with_key l = Ok (map kf l).
Proof.
  induction l as [|o r IH]; [reflexivity|].
  cbn [mapM map]. rewrite with_key_ok. cbn [bind]. rewrite IH. reflexivity.
Qed.

Lemma insert_skip x P Q :
  (forall y, In y P -> fst y < fst x) -> insert_stable x (P ++ Q) = P ++ insert_stable x Q.
Proof.
  induction P as [|y P IH]; intros H; [reflexivity|].
  cbn [app insert_stable].
  replace (fst x <=? fst y) with false by (specialize (H y (or_introl eq_refl)); lia).
  rewrite IH; [reflexivity|]. intros z Hz. apply H. right. exact Hz.
Qed.

Lemma insert_head x Q :
  (forall y, In y Q -> fst x <= fst y) -> insert_stable x Q = x :: Q.
Proof.
  destruct Q as [|y Q]; intros H; [reflexivity|].
  cbn [insert_stable]. replace (fst x <=? fst y) with true; [reflexivity|].
  specialize (H y (or_introl eq_refl)). lia.
Qed.

Lemma key_in_filter (f : wobj -> bool) (k : Z) l y :
  (forall o, f o = true -> key_of o = k) -> In y (map kf (filter f l)) -> fst y = k.
Proof.
  intros Hf Hy. apply in_map_iff in Hy. destruct Hy as [o [<- Ho]].
  apply filter_In in Ho. destruct Ho as [_ Ho]. cbn [kf fst]. apply Hf. exact Ho.
Qed.

Lemma key_root o : is_root o = true -> key_of o = 0.
Proof. destruct o; cbn; intros; try discriminate; reflexivity. Qed.
Lemma key_group o : is_group o = true -> key_of o = 1.
Proof. destruct o; cbn; intros; try discriminate; reflexivity. Qed.
Lemma key_chan o : is_chan o = true -> key_of o = 2.
Proof. destruct o; cbn; intros; try discriminate; reflexivity. Qed.

Definition partition3 (l : list wobj) : list wobj :=
  filter is_root l ++ filter is_group l ++ filter is_chan l.

Lemma sort_stable_partition l :
  sort_stable (map kf l) =
  map kf (filter is_root l) ++ map kf (filter is_group l) ++ map kf (filter is_chan l).
Proof.
  induction l as [|x l IH]; [reflexivity|].
  cbn [map]. unfold sort_stable in *. cbn [fold_right]. rewrite IH.
  destruct x as [ps|g ps|g c dt vs ps]; cbn [filter is_root is_group is_chan map].
  - apply insert_head. intros y Hy. cbn [kf fst key_of is_root].
    apply in_app_or in Hy. destruct Hy as [Hy|Hy];
      [rewrite (key_in_filter is_root 0 l y key_root Hy); lia|].
    apply in_app_or in Hy. destruct Hy as [Hy|Hy];
      [rewrite (key_in_filter is_group 1 l y key_group Hy); lia|].
    rewrite (key_in_filter is_chan 2 l y key_chan Hy). lia.
  - rewrite insert_skip.
    + rewrite insert_head; [reflexivity|]. intros y Hy. cbn [kf fst key_of is_root is_group].
      apply in_app_or in Hy. destruct Hy as [Hy|Hy];
        [rewrite (key_in_filter is_group 1 l y key_group Hy); lia|].
      rewrite (key_in_filter is_chan 2 l y key_chan Hy). lia.
    + intros y Hy. rewrite (key_in_filter is_root 0 l y key_root Hy). cbn. lia.
  - rewrite app_assoc. rewrite insert_skip.
    + rewrite insert_head; [rewrite <- app_assoc; reflexivity|].
      intros y Hy. cbn [kf fst key_of is_root is_group].
      rewrite (key_in_filter is_chan 2 l y key_chan Hy). lia.
    + intros y Hy. cbn [kf fst key_of is_root is_group].
      apply in_app_or in Hy. destruct Hy as [Hy|Hy];
        [rewrite (key_in_filter is_root 0 l y key_root Hy); lia|].
      rewrite (key_in_filter is_group 1 l y key_group Hy). lia.
Qed.

Lemma map_snd_kf l : map snd (map kf l) = l.
Proof. induction l as [|x l IH]; [reflexivity|]. cbn [map kf snd]. rewrite IH. reflexivity. Qed.

Definition pairs_of (st : wstate) (objs : list wobj) : list wobj :=
  objs ++ (if negb (root_written st) && negb (existsb is_root objs) then [WRoot []] else []) ++
  map (fun g => WGroup g []) (groups_to_add st objs).

Lemma wr_objects_spec st objs sorted st' :
  wr_objects st objs = Ok (sorted, st') ->
  sorted = partition3 (pairs_of st objs) /\
  has_dup (map obj_path sorted) = false /\
  st' = mkW true (groups_written st ++ groups_included objs ++ groups_to_add st objs).
Proof.
  unfold wr_objects. fold (pairs_of st objs). rewrite mapM_with_key. cbn [bind].
  rewrite sort_stable_partition, !(map_app snd), !map_snd_kf. fold (partition3 (pairs_of st objs)).
  destruct (has_dup (map obj_path (partition3 (pairs_of st objs)))) eqn:E; [discriminate|].
  intros H. injection H as <- <-. repeat split. exact E.
Qed.

Lemma in_partition3 o l : In o (partition3 l) <-> In o l.
Proof.
  unfold partition3. rewrite !in_app_iff, !filter_In. split.
  - intros [[H _]|[[H _]|[H _]]]; exact H.
  - intros H. destruct o; cbn; auto.
Qed.

(* ---- entries ---------------------------------------------------------------------------- *)

Definition idx_of (o : wobj) : idx :=
  match o with
  | WChan _ _ dt vals _ =>
    if dt =? T_VOID then INoData
    else IFull (if dt =? T_STRING then 28 else 20) dt 1 (Z.of_nat (length vals))
           (if dt =? T_STRING then Some (string_total vals) else None)
  | _ => INoData
  end.

Definition entry_of (o : wobj) : entry := mkEntry (obj_path o) (idx_of o) (obj_props o).

Lemma wr_entry_fixed o : wr_entry true o = Ok (entry_of o).
Proof.
  unfold wr_entry, entry_of. destruct o as [ps|g ps|g c dt vs ps]; cbn [obj_idx idx_of bind];
    try reflexivity.
  destruct (dt =? T_VOID); cbn [bind andb]; reflexivity.
Qed.

Lemma mapM_wr_entry l : mapM (wr_entry true) l = Ok (map entry_of l).
Proof.
  induction l as [|o r IH]; [reflexivity|].
  cbn [mapM map]. rewrite wr_entry_fixed. cbn [bind]. rewrite IH. reflexivity.
Qed.

Lemma map_path_entries l : map e_path (map entry_of l) = map obj_path l.
Proof. rewrite map_map. reflexivity. Qed.

(* ---- bytes = canonical serialisation of the syntax ------------------------------------------ *)

Lemma wr_string_offsets_eq off vals : wr_string_offsets off vals = string_offsets LE off vals.
Proof.
  revert off. induction vals as [|s r IH]; intros off; [reflexivity|].
  cbn [wr_string_offsets string_offsets]. rewrite IH. reflexivity.
Qed.

Lemma flat_map_store_le dt vals : flat_map (store_value LE dt) vals = concat vals.
Proof.
  induction vals as [|v r IH]; [reflexivity|].
  cbn [flat_map concat]. rewrite IH. reflexivity.
Qed.

Lemma obj_raw_ser o : ser_obj_raw LE (idx_of o) (obj_values o) = obj_raw o.
Proof.
  destruct o as [ps|g ps|g c dt vs ps]; try reflexivity.
  cbn [idx_of obj_values obj_raw]. destruct (dt =? T_VOID); [reflexivity|].
  cbn [ser_obj_raw]. destruct (dt =? T_STRING).
  - rewrite wr_string_offsets_eq. reflexivity.
  - apply flat_map_store_le.
Qed.

Lemma ser_raw_objs l : ser_raw LE (map entry_of l) (map obj_values l) = flat_map obj_raw l.
Proof.
  induction l as [|o r IH]; [reflexivity|].
  cbn [map ser_raw flat_map e_idx entry_of]. rewrite obj_raw_ser, IH. reflexivity.
Qed.

Lemma toc_writer_le : toc_endian TOC_WRITER = LE.
Proof. reflexivity. Qed.

Lemma segment_bytes_syntax v objs d i :
  wr_segment_bytes true v objs = Ok (d, i) ->
  exists s, syntax_of_objs v objs = Ok s /\ d = ser_segment s /\ i = ser_index_segment s.
Proof.
  unfold wr_segment_bytes, syntax_of_objs. rewrite mapM_wr_entry. cbn [bind].
  destruct (data_size objs) as [dsize|e]; cbn [bind]; [|discriminate].
  intros H. injection H as <- <-. eexists. split; [reflexivity|].
  unfold ser_segment, ser_index_segment, retag.
  cbn [sg_leadin sg_entries sg_values l_tag l_toc l_version l_next l_raw].
  rewrite toc_writer_le, ser_raw_objs. split; reflexivity.
Qed.

Lemma calls_syntax v : forall calls st d i,
  wr_calls true v st calls = Ok (d, i) ->
  exists segs, syntax_of_calls_from v st calls = Ok segs /\
               d = flat_map ser_segment segs /\ i = flat_map ser_index_segment segs.
Proof.
  induction calls as [|objs r IH]; intros st d i H.
  - cbn in H. injection H as <- <-. exists []. repeat split.
  - cbn [wr_calls] in H. unfold wr_segment_gen in H.
    destruct (wr_objects st objs) as [[sorted st']|e] eqn:Eo; cbn [bind] in H; [|discriminate].
    destruct (wr_segment_bytes true v sorted) as [[d1 i1]|e] eqn:Eb; cbn [bind] in H; [|discriminate].
    destruct (wr_calls true v st' r) as [[d2 i2]|e] eqn:Er; cbn [bind] in H; [|discriminate].
    injection H as <- <-.
    destruct (segment_bytes_syntax v sorted d1 i1 Eb) as [s [Hs [-> ->]]].
    destruct (IH st' d2 i2 Er) as [segs [Hsegs [-> ->]]].
    exists (s :: segs). cbn [syntax_of_calls_from]. rewrite Eo. cbn [bind]. rewrite Hs. cbn [bind].
    rewrite Hsegs. cbn [bind]. repeat split.
Qed.

Lemma file_syntax : forall sessions d i,
  wr_file sessions = Ok (d, i) ->
  exists segs, syntax_of_file sessions = Ok segs /\
               d = flat_map ser_segment segs /\ i = flat_map ser_index_segment segs.
Proof.
  induction sessions as [|[v calls] r IH]; intros d i H.
  - cbn in H. injection H as <- <-. exists []. repeat split.
  - unfold wr_file in H. cbn [wr_file_gen] in H. unfold wr_session_gen in H.
    destruct (valid_version v) eqn:Ev; [|discriminate].
    destruct (wr_calls true v w_init calls) as [[d1 i1]|e] eqn:Ec; cbn [bind] in H; [|discriminate].
    fold wr_file in H.
    destruct (wr_file r) as [[d2 i2]|e] eqn:Er; cbn [bind] in H; [|discriminate].
    injection H as <- <-.
    destruct (calls_syntax v calls w_init d1 i1 Ec) as [s1 [Hs1 [-> ->]]].
    destruct (IH d2 i2 eq_refl) as [s2 [Hs2 [-> ->]]].
    exists (s1 ++ s2). cbn [syntax_of_file]. unfold syntax_of_calls. rewrite Hs1. cbn [bind].
    rewrite Hs2. cbn [bind]. rewrite !flat_map_app. repeat split.
Qed.

(* ---- well-formedness of the planned syntax ------------------------------------------------------ *)

Lemma sized_type_facts dt k :
  sized_type dt = Some k -> is_u32 dt = true /\ (dt =? T_STRING) = false /\ (dt =? T_VOID) = false.
Proof.
  unfold sized_type. destruct (has_nptype dt || (dt =? T_TIME)) eqn:E; [|discriminate].
  intros _. unfold has_nptype, is_struct_type, T_C64, T_C128, T_TIME, T_STRING, T_VOID, is_u32 in *.
  lia.
Qed.

Lemma wf_obj_entry o :
  wf_obj o = true ->
  wf_entry (entry_of o) = true /\
  strings_u32 (idx_of o) (obj_values o) = true /\
  idx_ok (idx_of o) (obj_values o) = true.
Proof.
  intros Hwf. unfold wf_obj in Hwf.
  apply andb_prop in Hwf. destruct Hwf as [Hwf Hch].
  apply andb_prop in Hwf. destruct Hwf as [Hwf Hps].
  apply andb_prop in Hwf. destruct Hwf as [Hpath Hpl].
  unfold wf_entry, entry_of. cbn [e_path e_idx e_props].
  rewrite Hpath, Hpl, Hps. rewrite !andb_true_r. cbn [andb].
  destruct o as [ps|g ps|g c dt vs ps]; cbn [idx_of obj_values]; try (repeat split; reflexivity).
  apply andb_prop in Hch. destruct Hch as [Hch Hst].
  apply andb_prop in Hch. destruct Hch as [Hch Hn].
  apply andb_prop in Hch. destruct Hch as [Hty Hgp].
  unfold chan_type_ok in Hty.
  destruct (dt =? T_VOID) eqn:Ev.
  - destruct vs; [repeat split; reflexivity|discriminate].
  - destruct (dt =? T_STRING) eqn:Es.
    + assert (dt = T_STRING) by lia. subst dt.
      cbn [wf_idx strings_u32 idx_ok]. rewrite Es, Hn, Hst.
      apply is_u32_spec in Hst.
      replace (is_u64 (string_total vs)) with true by (symmetry; apply is_u64_spec; lia).
      rewrite !Z.eqb_refl. repeat split; reflexivity.
    + destruct (sized_type dt) as [k|] eqn:Ek; [|discriminate].
      destruct (sized_type_facts dt k Ek) as [Hu [_ _]].
      cbn [wf_idx strings_u32 idx_ok]. rewrite Es, Ek, Hn, Hu, Hty.
      rewrite !Z.eqb_refl. repeat split; reflexivity.
Qed.

Lemma forall_entries l :
  forallb wf_obj l = true ->
  forallb wf_entry (map entry_of l) = true /\
  vals_wf (map entry_of l) (map obj_values l) = true /\
  idxs_ok (map entry_of l) (map obj_values l) = true.
Proof.
  induction l as [|o r IH]; intros H; [repeat split; reflexivity|].
  cbn [forallb] in H. apply andb_prop in H. destruct H as [Ho Hr].
  destruct (wf_obj_entry o Ho) as [H1 [H2 H3]]. destruct (IH Hr) as [I1 [I2 I3]].
  cbn [map forallb vals_wf idxs_ok e_idx entry_of].
  fold (entry_of o). rewrite H1, I1, I2, I3. cbn [e_idx entry_of] in *. rewrite H2, H3.
  repeat split; reflexivity.
Qed.

(* membership in sorted(set(...)) *)
Lemma in_insert_uniq x g l : In x (insert_uniq g l) <-> x = g \/ In x l.
Proof.
  induction l as [|h r IH]; cbn [insert_uniq].
  - cbn. intuition.
  - destruct (bytes_eqb g h) eqn:E.
    + apply bytes_eqb_eq in E. subst h. cbn [In]. intuition.
    + destruct (bytes_ltb g h); cbn [In]; [intuition|]. rewrite IH. intuition.
Qed.

Lemma in_sorted_set x l : In x (sorted_set l) <-> In x l.
Proof.
  unfold sorted_set. induction l as [|g r IH]; cbn [fold_right]; [reflexivity|].
  rewrite in_insert_uniq, IH. cbn [In]. intuition.
Qed.

Lemma in_groups_required g objs :
  In g (groups_required objs) <-> exists c dt vs ps, In (WChan g c dt vs ps) objs.
Proof.
  unfold groups_required. rewrite in_flat_map. split.
  - intros [o [Ho Hg]]. destruct o as [ps|g' ps|g' c dt vs ps]; cbn in Hg; try contradiction.
    destruct Hg as [<-|[]]. eauto.
  - intros [c [dt [vs [ps H]]]]. eexists. split; [exact H|]. cbn. auto.
Qed.

Lemma in_groups_included g objs :
  In g (groups_included objs) <-> exists ps, In (WGroup g ps) objs.
Proof.
  unfold groups_included. rewrite in_flat_map. split.
  - intros [o [Ho Hg]]. destruct o as [ps|g' ps|g' c dt vs ps]; cbn in Hg; try contradiction.
    destruct Hg as [<-|[]]. eauto.
  - intros [ps H]. eexists. split; [exact H|]. cbn. auto.
Qed.

Lemma in_groups_to_add g st objs :
  In g (groups_to_add st objs) <->
  In g (groups_required objs) /\ bmem g (groups_included objs) = false /\
  bmem g (groups_written st) = false.
Proof.
  unfold groups_to_add. rewrite in_sorted_set, filter_In.
  rewrite andb_true_iff, !negb_true_iff. reflexivity.
Qed.

Lemma root_path_u32 : is_u32 (blen ROOT_PATH) = true.
Proof. reflexivity. Qed.

Lemma wf_obj_root_nil : wf_obj (WRoot []) = true.
Proof. vm_compute. reflexivity. Qed.

Lemma wf_obj_group_nil g : is_u32 (blen (group_path g)) = true -> wf_obj (WGroup g []) = true.
Proof. intros H. unfold wf_obj. cbn [obj_path obj_props]. rewrite H. reflexivity. Qed.

Lemma wf_obj_chan_group g c dt vs ps :
  wf_obj (WChan g c dt vs ps) = true -> is_u32 (blen (group_path g)) = true.
Proof.
  intros H. unfold wf_obj in H. apply andb_prop in H. destruct H as [_ H].
  apply andb_prop in H. destruct H as [H _]. apply andb_prop in H. destruct H as [H _].
  apply andb_prop in H. destruct H as [_ H]. exact H.
Qed.

Lemma wf_pairs st objs :
  forallb wf_obj objs = true -> forallb wf_obj (pairs_of st objs) = true.
Proof.
  intros H. unfold pairs_of. rewrite !forallb_app. rewrite H. cbn [andb].
  apply andb_true_intro. split.
  - destruct (negb (root_written st) && negb (existsb is_root objs)); [|reflexivity].
    cbn [forallb]. rewrite wf_obj_root_nil. reflexivity.
  - apply forallb_forall. intros o Ho. apply in_map_iff in Ho. destruct Ho as [g [<- Hg]].
    apply in_groups_to_add in Hg. destruct Hg as [Hreq _].
    apply in_groups_required in Hreq. destruct Hreq as [c [dt [vs [ps Hin]]]].
    rewrite forallb_forall in H. specialize (H _ Hin).
    apply wf_obj_group_nil. exact (wf_obj_chan_group _ _ _ _ _ H).
Qed.

Lemma wf_sorted st objs sorted st' :
  wr_objects st objs = Ok (sorted, st') -> forallb wf_obj objs = true ->
  forallb wf_obj sorted = true.
Proof.
  intros Ho Hwf. destruct (wr_objects_spec _ _ _ _ Ho) as [-> _].
  apply forallb_forall. intros o Hin. apply in_partition3 in Hin.
  pose proof (wf_pairs st objs Hwf) as Hp. rewrite forallb_forall in Hp. apply Hp. exact Hin.
Qed.
