(* C04 (companion) — discharging hypotheses (b) of Props/C04_gen7.v translated_lazy_read_is_window_of_eager_rawflag_partial
   on a freshly opened serialised file.  Statements: Props/C04_gen8.v.

   cold table   : tbl = [] (what TdmsReader has before the first read of a channel); tbl_ok _ _ [] holds.
   object map   : the {path: num_values} association the translated loop receives is [om_nums (rs_om st')], the projection of
                  the reader's own object_metadata; om_nums (rs_om st')[path] = om_len (get_ometa path (rs_om st)) whenever
                  path is an object of the file (alookup path (rs_om st) <> None; otherwise /repo raises KeyError).
   2^63         : zsum (seg_nums ...) = number of expected values of the channel (zlen (chan_values path (concat chunkss))),
                  so the hypothesis is stated on the FILE's contents. *)
From Coq Require Import String Ascii.
From Coq Require Import ZArith List Bool Lia ZifyBool.
From Coq Require Import Init.Byte.
Import ListNotations.
From NpTdms Require Import Base.Bytes Base.Res Base.PySlice Model.Tokens Model.SegState Model.Layout Model.Reader Model.FileSyn
     Model.LazyRead Model.LazyBytes
     Gen.PyFuncsReader Gen.PyFuncsDecode Gen.PyFuncsLazySeg Gen.PyFuncsLazyIdx Gen.PyFuncsLazyLoop
     Proofs.SegStateProofs Proofs.LayoutProofs Proofs.FileSynProofs Proofs.ReadCorrect Proofs.LazyReadProofs
     Proofs.LazyEagerIndex Proofs.LazyEagerView Proofs.LazyEagerTop Proofs.LazyEagerExamples
     Proofs.GenReaderLazy Proofs.GenLazyIdxEquiv Proofs.GenLazyLoopEquiv Proofs.GenLazyFile Proofs.GenLazyRange.
Local Open Scope Z_scope.
Ltac Zify.zify_post_hook ::= Z.to_euclidean_division_equations.

(* ---- 1. the cold index table ------------------------------------------------------------------------------------------------ *)
Lemma tbl_ok_cold segs path : tbl_ok segs path [].
Proof. unfold tbl_ok. cbn [alookup]. exact I. Qed.

(* ---- 2. the object map handed to the loop: {path: object_metadata[path].num_values} ----------------------------------------- *)
Definition om_nums (om : alist ometa) : alist Z := map (fun kv => (fst kv, om_len (snd kv))) om.

Lemma alookup_om_nums path : forall om m, alookup path om = Some m -> alookup path (om_nums om) = Some (om_len m).
Proof.
  induction om as [|[k v] om IH]; intros m H; cbn [alookup om_nums map fst snd] in *; [discriminate H|].
  destruct (bytes_eqb path k) eqn:E.
  - injection H as <-. reflexivity.
  - exact (IH m H).
Qed.

Lemma om_nums_entry segs st st' path :
  wf_file segs -> sm_run segs false = Ok st ->
  rd_metadata (ser_file segs) false (Some (blen (ser_file segs))) true = Ok st' ->
  alookup path (rs_om st) <> None ->
  alookup path (om_nums (rs_om st')) = Some (om_len (get_ometa path (rs_om st))).
Proof.
  intros Hwf Hrun Hmeta Hin.
  destruct (rd_metadata_with_index segs st Hwf Hrun) as (st2 & H2 & _ & Hom).
  rewrite Hmeta in H2. injection H2 as <-. rewrite Hom. unfold get_ometa.
  destruct (alookup path (rs_om st)) as [m|] eqn:E; [|contradiction].
  exact (alookup_om_nums path _ m E).
Qed.

(* ---- 3. the sum of the per-segment value counts is the number of values of the channel in the file ------------------------- *)
Lemma wf_seg_nonneg (V : Type) (sv : segv V) : wf_seg V sv = true -> 0 <= number_of_segment_values V sv.
Proof.
  unfold wf_seg, number_of_segment_values. intros H.
  destruct (sv_chunk sv =? 0) eqn:E0; [lia|].
  destruct (sv_final sv) as [f|]; rewrite ?andb_true_iff in H; nia.
Qed.

Lemma seg_nums_sum_is_channel_length segs st st' chunkss path :
  wf_file segs -> sm_run segs false = Ok st -> segs_encode (rs_segments st) segs chunkss ->
  Forall (fun g => NoDup (map so_path (sg_objs g))) (rs_segments st) ->
  rd_metadata (ser_file segs) false (Some (blen (ser_file segs))) true = Ok st' ->
  zsum (seg_nums unit (seg_views (rs_segments st') path)) = zlen (chan_values path (concat chunkss)) /\
  zsum (seg_nums unit (seg_views (rs_segments st') path)) = om_len (get_ometa path (rs_om st)).
Proof.
  intros Hwf Hrun Henc Hnd Hmeta.
  destruct (channel_view_ser segs st chunkss path Hwf Hrun Henc Hnd) as (svs & Hcv & Hwfv & Hfull & Htot).
  unfold channel_view in Hcv. rewrite Hmeta in Hcv. cbn [bind] in Hcv.
  destruct (mapM (segv_of (ser_file segs) path) (rs_segments st')) as [svs'|] eqn:Em; cbn [bind] in Hcv; [|discriminate Hcv].
  injection Hcv as ->.
  pose proof (mapM_views _ _ _ _ Em) as Hviews.
  assert (Hs : zsum (seg_nums unit (seg_views (rs_segments st') path)) = total_values bytes svs).
  { rewrite GenLazyIdxEquiv.total_values_zsum.
    - rewrite <- Hviews, views_lviews, seg_nums_lviews by (rewrite map_length; reflexivity). reflexivity.
    - intros sv Hin. apply wf_seg_nonneg. unfold wf in Hwfv. rewrite forallb_forall in Hwfv. exact (Hwfv sv Hin). }
  split.
  - rewrite Hs, <- Hfull. symmetry. exact (LazyReadProofs.zlen_full bytes svs Hwfv).
  - rewrite Hs. exact Htot.
Qed.

(* ---- 4. the window theorem on a freshly opened file -------------------------------------------------------------------------- *)
Theorem translated_lazy_read_window_cold_path segs st st' chunkss path offs len (zero : bytes) rk f2 :
  wf_file segs -> sm_run segs false = Ok st -> segs_encode (rs_segments st) segs chunkss ->
  Forall (fun g => NoDup (map so_path (sg_objs g))) (rs_segments st) ->
  rd_metadata (ser_file segs) false (Some (blen (ser_file segs))) true = Ok st' ->
  (forall k s ch, nth_error (rs_segments st') k = Some s -> nth_error chunkss k = Some ch ->
                  Forall (strings_valid (data_objs (sg_objs s))) ch) ->
  pf_data f2 = ser_file segs ->
  Forall (fun s => sv_chunk (seg_view s path) <> 0 -> toc_has (sg_toc s) TOC_RAW = true) (rs_segments st') ->
  alookup path (rs_om st) <> None ->
  zlen (chan_values path (concat chunkss)) < 2 ^ 63 ->
  0 <= offs -> (match len with None => True | Some l => 0 <= l end) ->
  exists outs tbl' f2' dt n,
    read_raw_data_for_channel_gen posfile bytes bytes_verify (bytes_chunks path) (Some (rs_segments st')) [] (om_nums (rs_om st'))
                                  f2 path offs len
    = Ok (outs, tbl', f2') /\ pf_data f2' = ser_file segs /\ tbl_ok (rs_segments st') path tbl' /\
    read_channel_data_alloc_gen (Some dt) false (om_len (get_ometa path (rs_om st))) offs len = Ok (Some n) /\
    receive bytes zero rk n outs = Ok (match len with
                                       | None => zskipn offs (chan_values path (concat chunkss))
                                       | Some l => zfirstn l (zskipn offs (chan_values path (concat chunkss)))
                                       end).
Proof.
  intros Hwf Hrun Henc Hnd Hmeta Hstr Hf2 Hraw Hin Hfit Ho Hl.
  destruct (seg_nums_sum_is_channel_length segs st st' chunkss path Hwf Hrun Henc Hnd Hmeta) as [Hsum _].
  assert (Hfit' : zsum (seg_nums unit (seg_views (rs_segments st') path)) < 2 ^ 63) by (rewrite Hsum; exact Hfit).
  exact (translated_lazy_read_window_rawflag segs st st' chunkss path [] (om_nums (rs_om st')) offs len zero rk f2
           Hwf Hrun Henc Hnd Hmeta Hstr Hf2 Hraw Hfit' (tbl_ok_cold _ _) (om_nums_entry segs st st' path Hwf Hrun Hmeta Hin) Ho Hl).
Qed.

(* the same for a channel of the hierarchy, under the bundle of Props/C03_read.v lazy_is_window_of_eager: the path is an object of
   the file and om_len = ch_len c (= len(channel)) by Proofs/LazyEagerTop.v channel_lookup *)
Theorem translated_lazy_read_window_cold segs st st' h chunkss c offs len (zero : bytes) rk f2 :
  wf_file segs -> sm_run segs false = Ok st -> build_hierarchy (rs_om st) = Ok h ->
  segs_encode (rs_segments st) segs chunkss -> om_paths_canonical (rs_om st) ->
  Forall (fun g => NoDup (map so_path (sg_objs g))) (rs_segments st) ->
  In c (all_channels h) ->
  rd_metadata (ser_file segs) false (Some (blen (ser_file segs))) true = Ok st' ->
  (forall k s ch, nth_error (rs_segments st') k = Some s -> nth_error chunkss k = Some ch ->
                  Forall (strings_valid (data_objs (sg_objs s))) ch) ->
  pf_data f2 = ser_file segs ->
  Forall (fun s => sv_chunk (seg_view s (ch_path c)) <> 0 -> toc_has (sg_toc s) TOC_RAW = true) (rs_segments st') ->
  zlen (chan_values (ch_path c) (concat chunkss)) < 2 ^ 63 ->
  0 <= offs -> (match len with None => True | Some l => 0 <= l end) ->
  exists outs tbl' f2' dt n,
    read_raw_data_for_channel_gen posfile bytes bytes_verify (bytes_chunks (ch_path c)) (Some (rs_segments st')) []
                                  (om_nums (rs_om st')) f2 (ch_path c) offs len
    = Ok (outs, tbl', f2') /\ pf_data f2' = ser_file segs /\ tbl_ok (rs_segments st') (ch_path c) tbl' /\
    read_channel_data_alloc_gen (Some dt) false (ch_len c) offs len = Ok (Some n) /\
    receive bytes zero rk n outs = Ok (match len with
                                       | None => zskipn offs (chan_values (ch_path c) (concat chunkss))
                                       | Some l => zfirstn l (zskipn offs (chan_values (ch_path c) (concat chunkss)))
                                       end) /\
    receive bytes zero rk n outs = lz_read_bytes (ser_file segs) (ch_path c) offs len.
Proof.
  intros Hwf Hrun Hh Henc Hcanon Hnd Hc Hmeta Hstr Hf2 Hraw Hfit Ho Hl.
  destruct (channel_lookup segs false st h c Hrun Hh Hcanon Hc) as (m & Hlk & _ & Hlen).
  assert (Hin : alookup (ch_path c) (rs_om st) <> None) by (rewrite Hlk; discriminate).
  destruct (translated_lazy_read_window_cold_path segs st st' chunkss (ch_path c) offs len zero rk f2
              Hwf Hrun Henc Hnd Hmeta Hstr Hf2 Hraw Hin Hfit Ho Hl) as (outs & tbl' & f2' & dt & n & Hg & Hd & Ht & Ha & Hr).
  exists outs, tbl', f2', dt, n. repeat (split; [assumption|]).
  split; [|split; [exact Hr|]].
  - unfold get_ometa in Ha. rewrite Hlk in Ha. rewrite Hlen. exact Ha.
  - rewrite Hr. symmetry. exact (LazyEagerTop.lazy_is_window_of_eager segs st h chunkss Hwf Hrun Hh Henc Hcanon Hnd c offs len Hc Ho Hl).
Qed.

(* ---- 5. the three-segment file of Props/C04_gen6.v, channel a: every hypothesis of the cold theorem -------------------------- *)
Lemma cold_example_hyps :
  (wf_file le_file /\ sm_run le_file false = Ok le_st /\ build_hierarchy (rs_om le_st) = Ok le_h /\
   segs_encode (rs_segments le_st) le_file le_chunks /\ om_paths_canonical (rs_om le_st) /\
   Forall (fun g => NoDup (map so_path (sg_objs g))) (rs_segments le_st) /\ In (rc_chan le_h 0) (all_channels le_h)) /\
  rd_metadata (ser_file le_file) false (Some (blen (ser_file le_file))) true = Ok ex_f_st /\
  (forall k s ch, nth_error (rs_segments ex_f_st) k = Some s -> nth_error le_chunks k = Some ch ->
                  Forall (strings_valid (data_objs (sg_objs s))) ch) /\
  Forall (fun s => sv_chunk (seg_view s (ch_path (rc_chan le_h 0))) <> 0 -> toc_has (sg_toc s) TOC_RAW = true) (rs_segments ex_f_st) /\
  zlen (chan_values (ch_path (rc_chan le_h 0)) (concat le_chunks)) < 2 ^ 63 /\
  ch_path (rc_chan le_h 0) = rc_path_a /\ ch_len (rc_chan le_h 0) = 6 /\
  alookup rc_path_a (om_nums (rs_om ex_f_st)) = Some 6.
Proof.
  destruct ex_f_hyps as (Hm & _). destruct ex_f_window_hyps as (Hs & _).
  destruct le_chan_a as (Hin & Hp). destruct raw_flag_set_examples as (Hraw & _).
  split; [exact (conj le_wf (conj le_run (conj le_hier (conj le_encodes (conj le_canonical (conj le_distinct Hin))))))|].
  split; [exact Hm|]. split; [exact Hs|]. rewrite Hp. split; [exact Hraw|].
  split; [vm_compute; reflexivity|]. split; [reflexivity|]. split; vm_compute; reflexivity.
Qed.

Lemma cold_example_window :
  exists outs tbl' f2' dt n,
    read_raw_data_for_channel_gen posfile bytes bytes_verify (bytes_chunks rc_path_a) (Some (rs_segments ex_f_st)) []
                                  (om_nums (rs_om ex_f_st)) (mkPf (ser_file le_file) 0) rc_path_a 1 (Some 4) = Ok (outs, tbl', f2') /\
    read_channel_data_alloc_gen (Some dt) false 6 1 (Some 4) = Ok (Some n) /\
    receive bytes [] LazyRead.RNumpy n outs = Ok [hex "0304"; hex "0506"; hex "0708"; hex "0a0b"].
Proof.
  destruct cold_example_hyps as ((H1 & H2 & H3 & H4 & H5 & H6 & H7) & Hm & Hs & Hraw & Hfit & Hp & Hlen & _).
  destruct (translated_lazy_read_window_cold le_file le_st ex_f_st le_h le_chunks (rc_chan le_h 0) 1 (Some 4) [] LazyRead.RNumpy
              (mkPf (ser_file le_file) 0) H1 H2 H3 H4 H5 H6 H7 Hm Hs eq_refl Hraw Hfit ltac:(lia) ltac:(cbv beta iota; lia))
    as (outs & tbl' & f2' & dt & n & Hg & _ & _ & Ha & Hr & _).
  rewrite Hp in Hg, Hr. rewrite Hlen in Ha.
  exists outs, tbl', f2', dt, n. split; [exact Hg|]. split; [exact Ha|]. rewrite Hr. vm_compute. reflexivity.
Qed.
