(* Proofs about Model/ScaleGraph.v (C13): the evaluator computes exactly the dataflow
   relation, scaling is elementwise, lookup order, the 'scaled' status. *)
From Coq Require Import ZArith List Bool String Lia PrimFloat.
Import ListNotations.
From NpTdms Require Import Gen.NumpyPromote Model.ScaleGraph.

(* ------------------------------------------------------------------------------ *)
(* eval = flows *)

Lemma wf_from_nth : forall g k i sc,
  wf_from k g = true -> nth_error g i = Some sc -> wf_scalingb (k + i) sc = true.
Proof.
  induction g as [|s g IH]; intros k i sc Hwf Hn.
  - destruct i; discriminate.
  - cbn [wf_from] in Hwf. apply andb_prop in Hwf. destruct Hwf as [Hs Hr].
    destruct i as [|i].
    + cbn in Hn. injection Hn as <-. now rewrite Nat.add_0_r.
    + cbn in Hn. replace (k + S i) with (S k + i) by lia. eapply IH; eauto.
Qed.

Lemma wf_graphb_wf : forall g, wf_graphb g = true -> wf_graph g.
Proof. intros g H i sc Hn. exact (wf_from_nth g 0 i sc H Hn). Qed.

Lemma wf_from_complete : forall g k,
  (forall i sc, nth_error g i = Some sc -> wf_scalingb (k + i) sc = true) -> wf_from k g = true.
Proof.
  induction g as [|s g IH]; intros k H; [reflexivity|].
  cbn [wf_from]. apply andb_true_intro. split.
  - specialize (H 0 s eq_refl). now rewrite Nat.add_0_r in H.
  - apply IH. intros i sc Hn. specialize (H (S i) sc Hn).
    now replace (k + S i) with (S k + i) in H by lia.
Qed.

Lemma wf_graph_wfb : forall g, wf_graph g -> wf_graphb g = true.
Proof. intros g H. apply wf_from_complete. exact H. Qed.

Lemma py_index_nonneg : forall {A} (l : list A) z,
  (0 <= z)%Z -> py_index l z = nth_error l (Z.to_nat z).
Proof. intros A l z Hz. unfold py_index. destruct (0 <=? z)%Z eqn:E; [reflexivity|lia]. Qed.

Lemma py_index_of_nat : forall {A} (l : list A) i, py_index l (Z.of_nat i) = nth_error l i.
Proof. intros. rewrite py_index_nonneg by lia. now rewrite Nat2Z.id. Qed.

Definition src_nonneg (s : src) : Prop := match s with Raw => True | Idx z => (0 <= z)%Z end.

Lemma src_okb_nonneg : forall i s, src_okb i s = true -> src_nonneg s.
Proof. intros i [|z] H; cbn in *; [exact I|]. apply andb_prop in H. lia. Qed.

Lemma src_okb_lt : forall i z, src_okb i (Idx z) = true -> (0 <= z < Z.of_nat i)%Z.
Proof. intros i z H. cbn in H. apply andb_prop in H. lia. Qed.

Lemma eval_src_flows : forall g raw, wf_graph g ->
  forall fuel s v, src_nonneg s -> eval_src fuel g raw s = Ok v -> flows g raw s v.
Proof.
  intros g raw Hwf. induction fuel as [|fuel IH]; intros s v Hs He.
  - destruct s as [|z]; cbn in He.
    + destruct (rdata raw) eqn:Er; [|discriminate]. injection He as <-. now constructor.
    + discriminate.
  - destruct s as [|z].
    + cbn in He. destruct (rdata raw) eqn:Er; [|discriminate]. injection He as <-. now constructor.
    + cbn in Hs. cbn [eval_src] in He. rewrite py_index_nonneg in He by exact Hs.
      destruct (nth_error g (Z.to_nat z)) as [sc|] eqn:En; [|discriminate].
      pose proof (Hwf _ _ En) as Hsc.
      replace z with (Z.of_nat (Z.to_nat z)) by lia.
      destruct sc as [a b s'|cs s'|xs ys s'|l r|l r|s'|id|k s']; cbn [wf_scalingb] in Hsc.
      * destruct (eval_src fuel g raw s') as [vin|] eqn:Ei; cbn [bind] in He; [|discriminate].
        eapply F_linear; eauto using src_okb_nonneg.
      * destruct (eval_src fuel g raw s') as [vin|] eqn:Ei; cbn [bind] in He; [|discriminate].
        eapply F_polynomial; eauto using src_okb_nonneg.
      * destruct (eval_src fuel g raw s') as [vin|] eqn:Ei; cbn [bind] in He; [|discriminate].
        eapply F_table; eauto using src_okb_nonneg.
      * apply andb_prop in Hsc. destruct Hsc as [Hl Hr].
        destruct (eval_src fuel g raw l) as [lv|] eqn:El; cbn [bind] in He; [|discriminate].
        destruct (eval_src fuel g raw r) as [rv|] eqn:Er; cbn [bind] in He; [|discriminate].
        eapply F_add; eauto using src_okb_nonneg.
      * apply andb_prop in Hsc. destruct Hsc as [Hl Hr].
        destruct (eval_src fuel g raw l) as [lv|] eqn:El; cbn [bind] in He; [|discriminate].
        destruct (eval_src fuel g raw r) as [rv|] eqn:Er; cbn [bind] in He; [|discriminate].
        eapply F_subtract; eauto using src_okb_nonneg.
      * eapply F_noop; eauto using src_okb_nonneg.
      * destruct (assoc_nat id (rscalers raw)) eqn:Ea; [|discriminate]. injection He as <-.
        eapply F_daqmx; eauto.
      * destruct (eval_src fuel g raw s') as [vin|] eqn:Ei; cbn [bind] in He; discriminate.
Qed.

Definition fuel_ok (fuel : nat) (s : src) : Prop :=
  match s with Raw => True | Idx z => (z < Z.of_nat fuel)%Z end.

Lemma fuel_ok_sub : forall i fuel s, src_okb i s = true -> i <= fuel -> fuel_ok fuel s.
Proof. intros i fuel [|z] H Hi; cbn; [exact I|]. apply src_okb_lt in H. lia. Qed.

Lemma flows_eval_src : forall g raw, wf_graph g ->
  forall s v, flows g raw s v -> forall fuel, fuel_ok fuel s -> eval_src fuel g raw s = Ok v.
Proof.
  intros g raw Hwf s v Hf.
  induction Hf as [v Hr | i id v Hn Ha | i a b s vin v Hn Hf IH Hs | i cs s vin v Hn Hf IH Hs
                  | i xs ys s vin v Hn Hf IH Hs | i s v Hn Hf IH
                  | i l r lv rv v Hn Hfl IHl Hfr IHr Hs | i l r lv rv v Hn Hfl IHl Hfr IHr Hs];
    intros fuel Hfu.
  - destruct fuel; cbn; now rewrite Hr.
  - cbn in Hfu. destruct fuel as [|fuel]; [lia|]. cbn [eval_src].
    rewrite py_index_of_nat, Hn. now rewrite Ha.
  - cbn in Hfu. destruct fuel as [|fuel]; [lia|]. cbn [eval_src].
    rewrite py_index_of_nat, Hn. pose proof (Hwf _ _ Hn) as Hsc. cbn in Hsc.
    rewrite (IH fuel) by (eapply fuel_ok_sub; eauto; lia). exact Hs.
  - cbn in Hfu. destruct fuel as [|fuel]; [lia|]. cbn [eval_src].
    rewrite py_index_of_nat, Hn. pose proof (Hwf _ _ Hn) as Hsc. cbn in Hsc.
    rewrite (IH fuel) by (eapply fuel_ok_sub; eauto; lia). exact Hs.
  - cbn in Hfu. destruct fuel as [|fuel]; [lia|]. cbn [eval_src].
    rewrite py_index_of_nat, Hn. pose proof (Hwf _ _ Hn) as Hsc. cbn in Hsc.
    rewrite (IH fuel) by (eapply fuel_ok_sub; eauto; lia). exact Hs.
  - cbn in Hfu. destruct fuel as [|fuel]; [lia|]. cbn [eval_src].
    rewrite py_index_of_nat, Hn. pose proof (Hwf _ _ Hn) as Hsc. cbn in Hsc.
    apply IH. eapply fuel_ok_sub; eauto; lia.
  - cbn in Hfu. destruct fuel as [|fuel]; [lia|]. cbn [eval_src].
    rewrite py_index_of_nat, Hn. pose proof (Hwf _ _ Hn) as Hsc. cbn in Hsc.
    apply andb_prop in Hsc. destruct Hsc as [Hl Hr].
    rewrite (IHl fuel) by (eapply fuel_ok_sub; eauto; lia).
    rewrite (IHr fuel) by (eapply fuel_ok_sub; eauto; lia). exact Hs.
  - cbn in Hfu. destruct fuel as [|fuel]; [lia|]. cbn [eval_src].
    rewrite py_index_of_nat, Hn. pose proof (Hwf _ _ Hn) as Hsc. cbn in Hsc.
    apply andb_prop in Hsc. destruct Hsc as [Hl Hr].
    rewrite (IHl fuel) by (eapply fuel_ok_sub; eauto; lia).
    rewrite (IHr fuel) by (eapply fuel_ok_sub; eauto; lia). exact Hs.
Qed.

Lemma flows_idx_nonneg : forall g raw z v, flows g raw (Idx z) v -> (0 <= z)%Z.
Proof. intros g raw z v H. inversion H; subst; lia. Qed.

Theorem eval_is_dataflow_proof : forall g raw v,
  wf_graph g -> (eval g raw = Ok v <-> flows g raw (final_src g) v).
Proof.
  intros g raw v Hwf. unfold eval, final_src. split.
  - intro He. destruct g as [|sc g'].
    + cbn in He. discriminate.
    + eapply eval_src_flows; eauto. cbn [src_nonneg List.length]. lia.
  - intro Hf. eapply flows_eval_src; eauto. cbn. lia.
Qed.

(* the dataflow relation is a function (each wire carries one array) *)
Lemma flows_functional : forall g raw s v, flows g raw s v -> forall w, flows g raw s w -> v = w.
Proof.
  intros g raw s v Hf.
  induction Hf as [v Hr | i id v Hn Ha | i a b s vin v Hn Hf IH Hs | i cs s vin v Hn Hf IH Hs
                  | i xs ys s vin v Hn Hf IH Hs | i s v Hn Hf IH
                  | i l r lv rv v Hn Hfl IHl Hfr IHr Hs | i l r lv rv v Hn Hfl IHl Hfr IHr Hs];
    intros w Hw; inversion Hw; subst;
    try match goal with H : Z.of_nat _ = Z.of_nat _ |- _ => apply Nat2Z.inj in H; subst end;
    try congruence.
  - rewrite Hn in *. match goal with H : Some _ = Some _ |- _ => injection H as <- <- <- end.
    match goal with H : flows g raw s ?x |- _ => rewrite <- (IH x H) in * end. congruence.
  - rewrite Hn in *. match goal with H : Some _ = Some _ |- _ => injection H as <- <- end.
    match goal with H : flows g raw s ?x |- _ => rewrite <- (IH x H) in * end. congruence.
  - rewrite Hn in *. match goal with H : Some _ = Some _ |- _ => injection H as <- <- <- end.
    match goal with H : flows g raw s ?x |- _ => rewrite <- (IH x H) in * end. congruence.
  - rewrite Hn in *. match goal with H : Some _ = Some _ |- _ => injection H as <- end.
    now apply IH.
  - rewrite Hn in *. match goal with H : Some _ = Some _ |- _ => injection H as <- <- end.
    repeat match goal with
           | H : flows g raw l ?x |- _ => rewrite <- (IHl x H) in *; clear H
           | H : flows g raw r ?x |- _ => rewrite <- (IHr x H) in *; clear H
           end. congruence.
  - rewrite Hn in *. match goal with H : Some _ = Some _ |- _ => injection H as <- <- end.
    repeat match goal with
           | H : flows g raw l ?x |- _ => rewrite <- (IHl x H) in *; clear H
           | H : flows g raw r ?x |- _ => rewrite <- (IHr x H) in *; clear H
           end. congruence.
Qed.

(* ------------------------------------------------------------------------------ *)
(* elementwise: scaling a window = window of the scaled data *)

Lemma win_map : forall {A B} (f : A -> B) o l xs, win o l (map f xs) = map f (win o l xs).
Proof. intros. unfold win. now rewrite skipn_map, firstn_map. Qed.

Lemma skipn_combine : forall {A B} n (a : list A) (b : list B),
  skipn n (combine a b) = combine (skipn n a) (skipn n b).
Proof.
  induction n as [|n IH]; intros a b; [reflexivity|].
  destruct a as [|x a]; [reflexivity|]. destruct b as [|y b]; cbn.
  - now destruct (skipn n a).
  - apply IH.
Qed.

Lemma win_combine : forall {A B} o l (a : list A) (b : list B),
  win o l (combine a b) = combine (win o l a) (win o l b).
Proof. intros. unfold win. now rewrite skipn_combine, combine_firstn. Qed.

Lemma win_length : forall {A} o l (xs : list A),
  List.length (win o l xs) = Nat.min l (List.length xs - o).
Proof. intros. unfold win. now rewrite firstn_length, skipn_length. Qed.

Lemma skipn_repeat : forall {A} (x : A) n k, skipn k (repeat x n) = repeat x (n - k).
Proof.
  intros A x. induction n as [|n IH]; intros k.
  - now destruct k.
  - destruct k as [|k]; [reflexivity|]. cbn. apply IH.
Qed.

Lemma firstn_repeat : forall {A} (x : A) n k, firstn k (repeat x n) = repeat x (Nat.min k n).
Proof.
  intros A x. induction n as [|n IH]; intros k.
  - cbn. rewrite firstn_nil. now rewrite Nat.min_0_r.
  - destruct k as [|k]; [reflexivity|]. cbn. now rewrite IH.
Qed.

Lemma win_repeat : forall {A} (x : A) o l n, win o l (repeat x n) = repeat x (Nat.min l (n - o)).
Proof. intros. unfold win. now rewrite skipn_repeat, firstn_repeat. Qed.

Lemma dtype_of_window : forall o l v, dtype_of (window o l v) = dtype_of v.
Proof. now intros o l []. Qed.

Lemma vlen_window : forall o l v, vlen (window o l v) = Nat.min l (vlen v - o).
Proof. intros o l []; cbn; apply win_length. Qed.

Lemma astype_f64_window : forall o l v, astype_f64 (window o l v) = win o l (astype_f64 v).
Proof. intros o l []; cbn; now rewrite ?win_map. Qed.

Lemma promote_window : forall rt o l v,
  promote rt (window o l v) = rmap (window o l) (promote rt v).
Proof.
  intros rt o l v.
  destruct rt; destruct v as [xs|k xs|xs|xs]; cbn; rewrite ?win_map; try reflexivity;
    try (destruct (ibits k <=? 16)%Z; cbn; rewrite ?win_map; reflexivity).
Qed.

Lemma promote_vlen : forall rt v v', promote rt v = Ok v' -> vlen v' = vlen v.
Proof.
  intros rt v v' H.
  destruct rt; destruct v as [xs|k xs|xs|xs]; cbn in H;
    try discriminate;
    try (destruct (ibits k <=? 16)%Z; try discriminate);
    injection H as <-; cbn; now rewrite ?map_length.
Qed.

Lemma zip_with_window : forall {A B} (f : A -> A -> B) o l a b,
  List.length a = List.length b ->
  zip_with f (win o l a) (win o l b) = rmap (win o l) (zip_with f a b).
Proof.
  intros A B f o l a b Hl. unfold zip_with.
  rewrite !win_length, Hl, !Nat.eqb_refl. cbn. now rewrite win_map, win_combine.
Qed.

Lemma zip_with_length : forall {A B} (f : A -> A -> B) a b c,
  zip_with f a b = Ok c -> List.length c = List.length a.
Proof.
  intros A B f a b c H. unfold zip_with in H.
  destruct (Nat.eqb (List.length a) (List.length b)) eqn:E; [|discriminate].
  injection H as <-. apply Nat.eqb_eq in E. rewrite map_length, combine_length. lia.
Qed.

Lemma np_arith_window : forall sub tbl o l a b,
  vlen a = vlen b ->
  np_arith sub tbl (window o l a) (window o l b) = rmap (window o l) (np_arith sub tbl a b).
Proof.
  intros sub tbl o l a b Hl. unfold np_arith. destruct tbl as [rt|]; [|reflexivity].
  rewrite !promote_window.
  destruct (promote rt a) as [a'|e] eqn:Ea; [|reflexivity].
  destruct (promote rt b) as [b'|e] eqn:Eb; [|reflexivity].
  apply promote_vlen in Ea. apply promote_vlen in Eb.
  assert (Hl' : vlen a' = vlen b') by congruence.
  cbn [rmap bind].
  destruct a' as [x|k x|x|x], b' as [y|k' y|y|y]; cbn [window]; try reflexivity; cbn in Hl'.
  - destruct sub; [reflexivity|]. rewrite zip_with_window by exact Hl'.
    now destruct (zip_with orb x y).
  - destruct (ikind_eqb k k'); [|reflexivity]. rewrite zip_with_window by exact Hl'.
    now destruct (zip_with _ x y).
  - rewrite zip_with_window by exact Hl'. now destruct (zip_with _ x y).
  - rewrite zip_with_window by exact Hl'. now destruct (zip_with _ x y).
Qed.

Lemma np_arith_vlen : forall sub tbl a b v, np_arith sub tbl a b = Ok v -> vlen v = vlen a.
Proof.
  intros sub tbl a b v H. unfold np_arith in H. destruct tbl as [rt|]; [|discriminate].
  destruct (promote rt a) as [a'|e] eqn:Ea; [|discriminate].
  destruct (promote rt b) as [b'|e] eqn:Eb; [|discriminate].
  apply promote_vlen in Ea. cbn [bind] in H. rewrite <- Ea.
  destruct a' as [x|k x|x|x], b' as [y|k' y|y|y]; try discriminate.
  - destruct sub; [discriminate|]. destruct (zip_with orb x y) eqn:Ez; [|discriminate].
    injection H as <-. cbn. eapply zip_with_length; eauto.
  - destruct (ikind_eqb k k'); [|discriminate]. destruct (zip_with _ x y) eqn:Ez; [|discriminate].
    injection H as <-. cbn. eapply zip_with_length; eauto.
  - destruct (zip_with _ x y) eqn:Ez; [|discriminate].
    injection H as <-. cbn. eapply zip_with_length; eauto.
  - destruct (zip_with _ x y) eqn:Ez; [|discriminate].
    injection H as <-. cbn. eapply zip_with_length; eauto.
Qed.

Lemma scale_linear_window : forall a b o l v,
  scale_linear a b (window o l v) = rmap (window o l) (scale_linear a b v).
Proof.
  intros. unfold scale_linear. rewrite dtype_of_window, astype_f64_window.
  destruct (is_complexfloating (dtype_of v)); [reflexivity|]. cbn. now rewrite win_map.
Qed.

Lemma scale_polynomial_window : forall cs o l v,
  scale_polynomial cs (window o l v) = rmap (window o l) (scale_polynomial cs v).
Proof.
  intros. unfold scale_polynomial. destruct (rev cs) as [|c rest].
  - cbn. now rewrite vlen_window, win_repeat.
  - cbn [rmap window]. now rewrite astype_f64_window, win_map.
Qed.

Lemma scale_table_window : forall xs ys o l v,
  scale_table xs ys (window o l v) = rmap (window o l) (scale_table xs ys v).
Proof.
  intros. unfold scale_table.
  destruct (negb (Nat.eqb (List.length xs) (List.length ys))); [reflexivity|].
  destruct (combine xs ys) as [|p0 rest]; [reflexivity|].
  cbn [rmap window]. now rewrite astype_f64_window, win_map.
Qed.

Lemma scale_linear_vlen : forall a b v w, scale_linear a b v = Ok w -> vlen w = vlen v.
Proof.
  intros a b v w H. unfold scale_linear in H.
  destruct (is_complexfloating (dtype_of v)); [discriminate|]. injection H as <-.
  cbn. rewrite map_length. now destruct v; cbn; rewrite ?map_length.
Qed.

Lemma astype_f64_length : forall v, List.length (astype_f64 v) = vlen v.
Proof. now intros []; cbn; rewrite ?map_length. Qed.

Lemma scale_polynomial_vlen : forall cs v w, scale_polynomial cs v = Ok w -> vlen w = vlen v.
Proof.
  intros cs v w H. unfold scale_polynomial in H. destruct (rev cs); injection H as <-; cbn.
  - apply repeat_length.
  - now rewrite map_length, astype_f64_length.
Qed.

Lemma scale_table_vlen : forall xs ys v w, scale_table xs ys v = Ok w -> vlen w = vlen v.
Proof.
  intros xs ys v w H. unfold scale_table in H.
  destruct (negb (Nat.eqb (List.length xs) (List.length ys))); [discriminate|].
  destruct (combine xs ys); [discriminate|]. injection H as <-. cbn.
  now rewrite map_length, astype_f64_length.
Qed.

Lemma eval_src_vlen : forall g raw n, uniform n raw ->
  forall fuel s v, eval_src fuel g raw s = Ok v -> vlen v = n.
Proof.
  intros g raw n [Hu1 Hu2]. induction fuel as [|fuel IH]; intros s v He.
  - destruct s; cbn in He; [|discriminate].
    destruct (rdata raw) eqn:Er; [|discriminate]. injection He as <-. now apply Hu1.
  - destruct s as [|z]; cbn [eval_src] in He.
    + destruct (rdata raw) eqn:Er; [|discriminate]. injection He as <-. now apply Hu1.
    + destruct (py_index g z) as [sc|]; [|discriminate].
      destruct sc as [a b s'|cs s'|xs ys s'|l r|l r|s'|id|k s'].
      * destruct (eval_src fuel g raw s') eqn:Ei; cbn [bind] in He; [|discriminate].
        apply scale_linear_vlen in He. rewrite He. eauto.
      * destruct (eval_src fuel g raw s') eqn:Ei; cbn [bind] in He; [|discriminate].
        apply scale_polynomial_vlen in He. rewrite He. eauto.
      * destruct (eval_src fuel g raw s') eqn:Ei; cbn [bind] in He; [|discriminate].
        apply scale_table_vlen in He. rewrite He. eauto.
      * destruct (eval_src fuel g raw l) eqn:El; cbn [bind] in He; [|discriminate].
        destruct (eval_src fuel g raw r) eqn:Er; cbn [bind] in He; [|discriminate].
        apply np_arith_vlen in He. rewrite He. eauto.
      * destruct (eval_src fuel g raw l) eqn:El; cbn [bind] in He; [|discriminate].
        destruct (eval_src fuel g raw r) eqn:Er; cbn [bind] in He; [|discriminate].
        apply np_arith_vlen in He. rewrite He. eauto.
      * eauto.
      * destruct (assoc_nat id (rscalers raw)) eqn:Ea; [|discriminate]. injection He as <-. eauto.
      * destruct (eval_src fuel g raw s'); cbn [bind] in He; discriminate.
Qed.

Lemma assoc_nat_map : forall {A B} (f : A -> B) k l,
  assoc_nat k (map (fun kv => (fst kv, f (snd kv))) l) = option_map f (assoc_nat k l).
Proof.
  intros A B f k. induction l as [|[k' a] l IH]; [reflexivity|].
  cbn. destruct (Nat.eqb k k'); [reflexivity|apply IH].
Qed.

Lemma eval_src_window : forall g raw n o l, uniform n raw ->
  forall fuel s,
    eval_src fuel g (window_raw o l raw) s = rmap (window o l) (eval_src fuel g raw s).
Proof.
  intros g raw n o l Hu. induction fuel as [|fuel IH]; intros s.
  - destruct s; cbn; [|reflexivity]. now destruct (rdata raw).
  - destruct s as [|z]; cbn [eval_src].
    + cbn. now destruct (rdata raw).
    + destruct (py_index g z) as [sc|]; [|reflexivity].
      destruct sc as [a b s'|cs s'|xs ys s'|lft rgt|lft rgt|s'|id|k s'].
      * rewrite IH. destruct (eval_src fuel g raw s'); cbn [rmap bind]; [|reflexivity].
        apply scale_linear_window.
      * rewrite IH. destruct (eval_src fuel g raw s'); cbn [rmap bind]; [|reflexivity].
        apply scale_polynomial_window.
      * rewrite IH. destruct (eval_src fuel g raw s'); cbn [rmap bind]; [|reflexivity].
        apply scale_table_window.
      * rewrite !IH.
        destruct (eval_src fuel g raw lft) as [lv|] eqn:El; cbn [rmap bind]; [|reflexivity].
        destruct (eval_src fuel g raw rgt) as [rv|] eqn:Er; cbn [rmap bind]; [|reflexivity].
        unfold scale_add. rewrite !dtype_of_window. apply np_arith_window.
        rewrite (eval_src_vlen _ _ _ Hu _ _ _ El), (eval_src_vlen _ _ _ Hu _ _ _ Er). reflexivity.
      * rewrite !IH.
        destruct (eval_src fuel g raw lft) as [lv|] eqn:El; cbn [rmap bind]; [|reflexivity].
        destruct (eval_src fuel g raw rgt) as [rv|] eqn:Er; cbn [rmap bind]; [|reflexivity].
        unfold scale_subtract. rewrite !dtype_of_window. apply np_arith_window.
        rewrite (eval_src_vlen _ _ _ Hu _ _ _ El), (eval_src_vlen _ _ _ Hu _ _ _ Er). reflexivity.
      * apply IH.
      * cbn [window_raw rscalers]. rewrite assoc_nat_map.
        now destruct (assoc_nat id (rscalers raw)).
      * rewrite IH. now destruct (eval_src fuel g raw s').
Qed.

Theorem elementwise_proof : forall g raw n o l, uniform n raw ->
  eval g (window_raw o l raw) = rmap (window o l) (eval g raw).
Proof. intros. unfold eval. eapply eval_src_window; eauto. Qed.

(* the same through the property lookup: the whole channel *)
Theorem channel_elementwise_proof : forall ch gr fi raw n o l, uniform n raw ->
  channel_data ch gr fi (window_raw o l raw) = rmap (window o l) (channel_data ch gr fi raw).
Proof.
  intros ch gr fi raw n o l Hu. unfold channel_data.
  destruct (get_scaling ch gr fi) as [[g|]|e]; cbn [bind scale_data]; [| |reflexivity].
  - eapply elementwise_proof; eauto.
  - cbn [window_raw rscalers rdata]. destruct (rscalers raw); [|reflexivity].
    cbn. now destruct (rdata raw).
Qed.

(* ------------------------------------------------------------------------------ *)
(* lookup order and the 'scaled' status *)

Theorem lookup_channel_first : forall c g f s,
  get_channel_scaling c = Ok (Some s) -> get_scaling c g f = Ok (Some s).
Proof. intros c g f s H. unfold get_scaling. cbn. now rewrite H. Qed.

Theorem lookup_group_second : forall c g f s,
  get_channel_scaling c = Ok None -> get_channel_scaling g = Ok (Some s) ->
  get_scaling c g f = Ok (Some s).
Proof. intros c g f s Hc Hg. unfold get_scaling. cbn. now rewrite Hc, Hg. Qed.

Theorem lookup_file_last : forall c g f,
  get_channel_scaling c = Ok None -> get_channel_scaling g = Ok None ->
  get_scaling c g f = get_channel_scaling f.
Proof.
  intros c g f Hc Hg. unfold get_scaling. cbn. rewrite Hc, Hg.
  now destruct (get_channel_scaling f) as [[?|]|].
Qed.

Theorem scaled_status_proof : forall p,
  pget "NI_Scaling_Status" p = Some (PStr "scaled") ->
  (exists n, number_of_scalings p = Ok n) ->
  get_channel_scaling p = Ok None.
Proof.
  intros p Hs [n Hn]. unfold get_channel_scaling. rewrite Hn.
  destruct n as [n|]; [|reflexivity]. destruct (n =? 0)%Z; [reflexivity|]. now rewrite Hs.
Qed.

Theorem no_scaling_is_raw_proof : forall c g f raw v,
  get_channel_scaling c = Ok None -> get_channel_scaling g = Ok None ->
  get_channel_scaling f = Ok None ->
  rdata raw = Some v -> rscalers raw = [] ->
  channel_data c g f raw = Ok v.
Proof.
  intros c g f raw v Hc Hg Hf Hr Hs. unfold channel_data.
  rewrite (lookup_file_last c g f Hc Hg), Hf. cbn. now rewrite Hs, Hr.
Qed.
