(* Refinement of the reader model to Model/Spec.v — the composition.

   [sim_step]     one segment: the model's metadata step succeeds, the raw data block
                  is the model-level encoding of chunks holding the values the
                  specification decoded (SpecRefineDataZ.decode_data_encodes_z; the _z
                  forms include segments whose data objects all have zero size, see
                  Proofs/SegEncodesZ.v), and the invariant of SpecRefineMeta is
                  re-established;
   [sim_loop]     all segments: sm_loop succeeds; segs_encode; values per path;
   [spec_state_simulation]  the same for sm_run, stated on its own;
   [reader_refines_spec]    with ReadCorrectZ.read_correct_z and
                  SpecRefineHier.hierarchy_refines;
   [reader_rejects_forbidden]  the three forbidden encodings. *)
From Coq Require Import List ZArith Bool Lia ZifyBool.
From Coq Require Import Init.Byte.
Import ListNotations.
From NpTdms Require Import Base.Bytes Base.Res Model.Tokens Model.TokensWf Model.SegState Model.Layout
     Model.Reader Model.FileSyn Model.Spec Proofs.SegStateProofs Proofs.LayoutProofs
     Proofs.FileSynProofs Proofs.SegStateInherit Proofs.ReadCorrect Proofs.SegEncodesZ
     Proofs.ReadCorrectZ Proofs.SpecRefineBase Proofs.SpecRefineMeta Proofs.SpecRefineData
     Proofs.SpecRefineDataZ Proofs.SpecRefineHier.
Local Open Scope Z_scope.

(* ---- values of a content object ---------------------------------------------------- *)

Definition cvals (c : dict cobj) (p : bytes) : list bytes :=
  match alookup p c with Some o => o_vals o | None => [] end.

Lemma cvals_touch lst c q p : cvals (touch lst c q) p = cvals c p.
Proof.
  unfold cvals. rewrite touch_eq, alookup_aset. destruct (bytes_eqb p q) eqn:E; [|reflexivity].
  apply bytes_eqb_eq in E. subst q. cbn [o_vals]. destruct (alookup p c); reflexivity.
Qed.

Lemma cvals_fold_touch lst : forall ps c p, cvals (fold_left (touch lst) ps c) p = cvals c p.
Proof.
  induction ps as [|q ps IH]; intros c p; cbn [fold_left]; [reflexivity|].
  rewrite IH. apply cvals_touch.
Qed.

Lemma cvals_set_props c x p : cvals (Spec.set_props c x) p = cvals c p.
Proof.
  rewrite set_props_eq. destruct (alookup (e_path x) c) as [o|] eqn:E; [|reflexivity].
  unfold cvals. rewrite alookup_aset. destruct (bytes_eqb p (e_path x)) eqn:Ep; [|reflexivity].
  apply bytes_eqb_eq in Ep. subst p. rewrite E. reflexivity.
Qed.

Lemma cvals_fold_set_props : forall es c p, cvals (fold_left Spec.set_props es c) p = cvals c p.
Proof.
  induction es as [|x es IH]; intros c p; cbn [fold_left]; [reflexivity|].
  rewrite IH. apply cvals_set_props.
Qed.

Lemma cvals_apply_metadata first st s st1 p :
  apply_metadata first st s = SOk st1 -> cvals (objs st1) p = cvals (objs st) p.
Proof.
  intros H. destruct (apply_metadata_inv first st s st1 H) as (ste & Hm & ->). cbn [objs].
  rewrite cvals_fold_set_props, cvals_fold_touch.
  assert (Hobjs : objs ste = objs st).
  { destruct (fs_meta s) as [es|]; [|destruct Hm as [_ ->]; reflexivity].
    assert (Hgen : forall es st0 st', apply_entries st0 es = SOk st' -> objs st' = objs st0).
    { clear. induction es as [|x es IH]; intros st0 st' H; cbn [apply_entries] in H.
      - injection H as <-. reflexivity.
      - destruct (apply_entry st0 x) as [st1|e] eqn:E; cbn [sbind] in H; [|discriminate].
        rewrite (IH st1 st' H). unfold apply_entry in E.
        destruct (e_idx x); try discriminate.
        + injection E as <-. reflexivity.
        + destruct (get (e_path x) (last st0)); [injection E as <-; reflexivity|].
          destruct (get (e_path x) (objs st0)); discriminate.
        + destruct (index_of _ _ _ _); [|discriminate].
          destruct (match get (e_path x) (last st0) with Some i' => _ | None => true end); [|discriminate].
          injection E as <-. reflexivity. }
    rewrite (Hgen _ _ _ Hm). destruct (toc_has (fs_toc s) TOC_NEWLIST); reflexivity. }
  rewrite Hobjs. reflexivity.
Qed.

Lemma cvals_with_vals F c p :
  cvals (with_vals F c) p = match alookup p c with Some o => F (p, o) | None => [] end.
Proof. unfold cvals. rewrite alookup_with_vals. destruct (alookup p c); reflexivity. Qed.

(* ---- one step of the model's loop, evaluated ------------------------------------------ *)

Lemma seg_step_eval s pos ps pi rst k mobjs props nch fin po om1 :
  read_segment_objects (fs_toc s) (fs_meta s) (rs_prev_objs rst) ps = Ok (mobjs, props) ->
  calculate_chunks (fs_toc s) false mobjs (blen (fs_data s)) = Ok (nch, fin) ->
  update_object_metadata mobjs nch fin (rs_prev_objs rst) (rs_om rst) = Ok (po, om1) ->
  exists idx cache ver,
    seg_step s false pos ps pi rst k =
    k (Some mobjs) idx
      (mkRstate (rs_segments rst ++
                   [mkSeg pos (fs_toc s) (pos + 28 + blen (fs_meta_bytes s) + blen (fs_data s))
                          (pos + 28 + blen (fs_meta_bytes s)) false mobjs idx nch fin])
                po (update_object_properties props om1) cache ver).
Proof.
  intros Hro Hcc Hum. unfold seg_step. cbv zeta.
  cbn [rs_segments rs_prev_objs rs_om rs_cache rs_version].
  rewrite Hro. cbn [bind].
  destruct (match fs_meta s with
            | Some _ => _
            | None => _
            end) as [idx cache].
  replace (pos + 28 + blen (fs_meta_bytes s) + blen (fs_data s) - (pos + 28 + blen (fs_meta_bytes s)))
    with (blen (fs_data s)) by lia.
  rewrite Hcc. cbn [bind]. rewrite Hum. cbn [bind].
  eexists idx, cache, _. reflexivity.
Qed.

Lemma seg_step_rejects s pos ps pi rst k :
  (forall mobjs props, read_segment_objects (fs_toc s) (fs_meta s) (rs_prev_objs rst) ps = Ok (mobjs, props) ->
                       forall nch fin, exists e', update_object_metadata mobjs nch fin (rs_prev_objs rst) (rs_om rst) = Err e') ->
  exists e', seg_step s false pos ps pi rst k = Err e'.
Proof.
  intros H. unfold seg_step. cbv zeta.
  cbn [rs_segments rs_prev_objs rs_om rs_cache rs_version].
  destruct (read_segment_objects _ _ _ _) as [[mobjs props]|e] eqn:Ero; cbn [bind]; [|exists e; reflexivity].
  destruct (match fs_meta s with
            | Some _ => _
            | None => _
            end) as [idx cache].
  destruct (calculate_chunks _ _ _ _) as [[nch fin]|e] eqn:Ecc; cbn [bind]; [|exists e; reflexivity].
  destruct (H mobjs props eq_refl nch fin) as (e' & ->). cbn [bind]. exists e'. reflexivity.
Qed.

(* ---- one accepted segment ----------------------------------------------------------------- *)

Definition seg_plain (g : segment) : Prop := sg_incomplete g = false /\ sg_final g = None.

Lemma chan_values_no_key p (cs : list chunk) :
  (forall c, In c cs -> ~ In p (map fst c)) -> chan_values p cs = [].
Proof.
  induction cs as [|c cs IH]; intros H; [reflexivity|].
  rewrite chan_values_cons, IH.
  - rewrite (ReadCorrect.chunk_values_not_in p c); [reflexivity|]. apply H. left. reflexivity.
  - intros c' Hc'. apply H. right. exact Hc'.
Qed.

Lemma sim_step first st ps s st' rst pos pi k :
  Inv first st ps (rs_prev_objs rst) (rs_om rst) -> seg_ok s = true -> wf_fseg s = true ->
  spec_segment first st s = SOk st' ->
  exists mobjs idx rst' g cs,
    seg_step s false pos ps pi rst k = k (Some mobjs) idx rst' /\
    Inv false st' (Some mobjs) (rs_prev_objs rst') (rs_om rst') /\
    rs_segments rst' = rs_segments rst ++ [g] /\
    seg_encodes_z g (fs_data s) cs /\ seg_plain g /\
    (forall p, cvals (objs st') p = cvals (objs st) p ++ chan_values p cs).
Proof.
  intros HI Hok Hwfs Hseg. unfold spec_segment in Hseg.
  destruct (apply_metadata first st s) as [st1|e] eqn:Emeta; cbn [sbind] in Hseg; [|discriminate].
  destruct (decode_data (fs_toc s) (data_objects (active st1)) (fs_data s)) as [css|e] eqn:Edec;
    cbn [sbind] in Hseg; [|discriminate].
  injection Hseg as <-.
  destruct (sim_segment first st ps _ _ s st1 css HI Hok Hwfs Emeta Edec)
    as (props & nch & po & om1 & Hro & Hcc & Hum & HI1 & Hidx).
  destruct (seg_step_eval s pos ps pi rst k _ props nch None po om1 Hro Hcc Hum) as (idx & cache & ver & Hstep).
  set (mobjs := objs_of (active st1) (last st1)) in *.
  set (g := mkSeg pos (fs_toc s) (pos + 28 + blen (fs_meta_bytes s) + blen (fs_data s))
                  (pos + 28 + blen (fs_meta_bytes s)) false mobjs idx nch None) in *.
  destruct (decode_data_encodes_z g (data_objects (active st1)) (fs_data s) css) as (cs & Henc & Hvals).
  - cbn [g sg_objs]. apply data_objs_objs_of. exact (i_act_last _ _ _ _ _ HI1).
  - apply data_objects_nodup. exact (i_act_nodup _ _ _ _ _ HI1).
  - exact Hidx.
  - exact Edec.
  - specialize (Hvals (objs st1) (i_objs_nodup _ _ _ _ _ HI1)).
    change (fold_left (add_chunk (data_objects (active st1))) css (objs st1) =
            with_vals (fun po => o_vals (snd po) ++ chan_values (fst po) cs) (objs st1)) in Hvals.
    rewrite Hvals.
    exists mobjs, idx, (mkRstate (rs_segments rst ++ [g]) po (update_object_properties props om1) cache ver), g, cs.
    split; [exact Hstep|].
    cbn [rs_prev_objs rs_om rs_segments].
    split; [|split; [reflexivity|split; [exact Henc|split; [split; reflexivity|]]]].
    + apply (Inv_with_vals false st1 (Some mobjs) po _
                           (fun po => o_vals (snd po) ++ chan_values (fst po) cs)) in HI1.
      exact HI1.
    + intros p. cbn [objs]. rewrite cvals_with_vals.
      rewrite <- (cvals_apply_metadata first st s st1 p Emeta). unfold cvals.
      destruct (alookup p (objs st1)) as [o1|] eqn:E1; cbn [fst snd]; [reflexivity|].
      (* p is not an object of the content: the chunks hold nothing under p *)
      cbn [app]. symmetry. apply chan_values_no_key. intros c Hc Hin.
      apply in_map_iff in Hin. destruct Hin as (kv & Hk & Hkv).
      destruct (seg_encodes_z_keys g _ cs Henc c kv Hc Hkv) as (o & Ho & Hp & _).
      cbn [g sg_objs] in Ho. apply (in_map so_path) in Ho. unfold mobjs in Ho. rewrite objs_of_paths in Ho.
      rewrite Hp, Hk in Ho. exact (i_act_known _ _ _ _ _ HI1 p Ho E1).
Qed.

(* ---- all segments ---------------------------------------------------------------------------- *)

Lemma sim_loop : forall segs first st ps stF rst pos pi,
  Inv first st ps (rs_prev_objs rst) (rs_om rst) ->
  forallb seg_ok segs = true -> forallb wf_fseg segs = true ->
  spec_segments first st segs = SOk stF ->
  exists rstF gs chunkss psF firstF,
    sm_loop segs false pos ps pi rst = Ok rstF /\
    Inv firstF stF psF (rs_prev_objs rstF) (rs_om rstF) /\
    rs_segments rstF = rs_segments rst ++ gs /\
    segs_encode_z gs segs chunkss /\
    Forall seg_plain gs /\
    (forall p, cvals (objs stF) p = cvals (objs st) p ++ chan_values p (concat chunkss)).
Proof.
  induction segs as [|s segs IH]; intros first st ps stF rst pos pi HI Hok Hwf Hspec.
  - cbn [spec_segments] in Hspec. injection Hspec as <-.
    exists rst, [], [], ps, first. split; [reflexivity|]. split; [exact HI|].
    split; [rewrite app_nil_r; reflexivity|]. split; [constructor|]. split; [constructor|].
    intros p. cbn [concat]. unfold chan_values. cbn [flat_map]. rewrite app_nil_r. reflexivity.
  - cbn [spec_segments] in Hspec. cbn [forallb] in Hok. apply andb_prop in Hok. destruct Hok as [Hoks Hok].
    cbn [forallb] in Hwf. apply andb_prop in Hwf. destruct Hwf as [Hwfs Hwf].
    destruct (spec_segment first st s) as [st1|e] eqn:Eseg; cbn [sbind] in Hspec; [|discriminate].
    rewrite sm_loop_cons.
    destruct (sim_step first st ps s st1 rst pos pi
                       (fun o i st' => sm_loop segs false (pos + 28 + blen (fs_meta_bytes s) + blen (fs_data s)) o i st')
                       HI Hoks Hwfs Eseg)
      as (mobjs & idx & rst1 & g & cs & Hstep & HI1 & Hsegs1 & Henc & Hplain & Hv1).
    rewrite Hstep.
    destruct (IH false st1 (Some mobjs) stF rst1 (pos + 28 + blen (fs_meta_bytes s) + blen (fs_data s)) idx HI1 Hok Hwf Hspec)
      as (rstF & gs & chunkss & psF & firstF & Hloop & HIF & HsegsF & HencF & HplainF & HvF).
    exists rstF, (g :: gs), (cs :: chunkss), psF, firstF.
    split; [exact Hloop|]. split; [exact HIF|].
    split; [rewrite HsegsF, Hsegs1, <- app_assoc; reflexivity|].
    split; [constructor; assumption|]. split; [constructor; assumption|].
    intros p. rewrite (HvF p), (Hv1 p). cbn [concat]. rewrite chan_values_app, <- app_assoc. reflexivity.
Qed.

(* The metadata pass and the raw data, for the whole file: the state machine
   accepts what the specification accepts, the raw data blocks are encodings
   (of chunks holding exactly the specification's values) relative to the object
   lists the pass computed, and the per-object metadata lists the content's
   objects in order with the same properties and data types. *)
Theorem spec_state_simulation segs stF :
  wf_file segs -> spec_ok segs ->
  spec_segments true sstate0 segs = SOk stF ->
  exists rstF chunkss,
    sm_run segs false = Ok rstF /\
    segs_encode_z (rs_segments rstF) segs chunkss /\
    Forall seg_plain (rs_segments rstF) /\
    Forall2 om_rel0 (rs_om rstF) (objs stF) /\
    NoDup (map fst (objs stF)) /\
    (forall p, cvals (objs stF) p = chan_values p (concat chunkss)) /\
    (forall p, cdt (objs stF) p = None \/
               cdt (objs stF) p = Some (option_map ri_dt (alookup p (last stF)))).
Proof.
  intros Hwf Hok Hspec. unfold sm_run.
  destruct (sim_loop segs true sstate0 None stF rstate0 0 [] Inv_init Hok Hwf Hspec)
    as (rstF & gs & chunkss & psF & firstF & Hloop & HIF & Hsegs & Henc & Hplain & Hv).
  cbn [rstate0 rs_segments app] in Hsegs.
  exists rstF, chunkss. rewrite Hsegs.
  split; [exact Hloop|]. split; [exact Henc|]. split; [exact Hplain|].
  split; [exact (i_om _ _ _ _ _ HIF)|]. split; [exact (i_objs_nodup _ _ _ _ _ HIF)|].
  split; [intros p; rewrite (Hv p); reflexivity|exact (i_dtype _ _ _ _ _ HIF)].
Qed.

(* ---- the paths of the content are the listed paths -------------------------------------- *)

Definition canon_keys {V} (d : dict V) : Prop := forall p, In p (map fst d) -> canonical_path p = true.

Record Canon (st : sstate) : Prop := mkCanon {
  cn_act : canon_keys (active st);
  cn_objs : canon_keys (objs st);
  cn_last : forall p, In p (map fst (last st)) -> is_channel_path p = true }.

Lemma Canon_init : Canon sstate0.
Proof. constructor; intros p []. Qed.

Lemma canon_keys_aset {V} p (v : V) d : canonical_path p = true -> canon_keys d -> canon_keys (aset p v d).
Proof.
  intros Hp Hd q Hq. apply In_aset_keys in Hq. destruct Hq as [->|Hq]; [exact Hp|exact (Hd q Hq)].
Qed.

Lemma Canon_apply_entry st x st' :
  Canon st -> entry_ok x = true -> apply_entry st x = SOk st' -> Canon st'.
Proof.
  intros [Ha Ho Hl] Hok H. unfold entry_ok in Hok. apply andb_prop in Hok. destruct Hok as [Hcan Hidx].
  unfold apply_entry in H.
  destruct (e_idx x) as [| |lf dt dim n total|kind dt dim n scalers widths] eqn:Eidx.
  - injection H as <-. constructor; cbn [active last objs]; [|exact Ho|exact Hl].
    apply (canon_keys_aset (e_path x) None (active st) Hcan Ha).
  - destruct (get (e_path x) (last st)) as [i|].
    + injection H as <-. constructor; cbn [active last objs]; [|exact Ho|exact Hl].
      apply (canon_keys_aset (e_path x) (Some i) (active st) Hcan Ha).
    + destruct (get (e_path x) (objs st)); discriminate.
  - destruct (index_of dt dim n total) as [i|]; [|discriminate].
    destruct (match get (e_path x) (last st) with Some i' => ri_dt i' =? dt | None => true end); [|discriminate].
    injection H as <-. constructor; cbn [active last objs]; [|exact Ho|].
    + apply (canon_keys_aset (e_path x) (Some i) (active st) Hcan Ha).
    + intros p Hp. apply (In_aset_keys p (e_path x) i (last st)) in Hp.
      destruct Hp as [->|Hp]; [|exact (Hl p Hp)]. exact Hidx.
  - discriminate.
Qed.

Lemma Canon_apply_entries : forall es st st',
  Canon st -> forallb entry_ok es = true -> apply_entries st es = SOk st' -> Canon st'.
Proof.
  induction es as [|x es IH]; intros st st' Hc Hok H; cbn [apply_entries] in H.
  - injection H as <-. exact Hc.
  - cbn [forallb] in Hok. apply andb_prop in Hok. destruct Hok as [Hx Hok].
    destruct (apply_entry st x) as [st1|e] eqn:E; cbn [sbind] in H; [|discriminate].
    exact (IH st1 st' (Canon_apply_entry st x st1 Hc Hx E) Hok H).
Qed.

Lemma touch_keys lst c q p : In p (map fst (touch lst c q)) -> p = q \/ In p (map fst c).
Proof. rewrite touch_eq. apply In_aset_keys. Qed.

Lemma fold_touch_keys lst : forall ps c p,
  In p (map fst (fold_left (touch lst) ps c)) -> In p ps \/ In p (map fst c).
Proof.
  induction ps as [|q ps IH]; intros c p H; cbn [fold_left] in H; [right; exact H|].
  destruct (IH _ _ H) as [Hin|Hin]; [left; right; exact Hin|].
  apply touch_keys in Hin. destruct Hin as [->|Hin]; [left; left; reflexivity|right; exact Hin].
Qed.

Lemma set_props_keys c x : map fst (Spec.set_props c x) = map fst c.
Proof.
  rewrite set_props_eq. destruct (alookup (e_path x) c) eqn:E; [|reflexivity].
  apply aset_keys_in. rewrite E. discriminate.
Qed.

Lemma fold_set_props_keys : forall es c, map fst (fold_left Spec.set_props es c) = map fst c.
Proof.
  induction es as [|x es IH]; intros c; cbn [fold_left]; [reflexivity|]. rewrite IH. apply set_props_keys.
Qed.

Lemma add_values_keys c pv : map fst (add_values c pv) = map fst c.
Proof.
  unfold add_values. change (get (fst pv) c) with (alookup (fst pv) c).
  destruct (alookup (fst pv) c) eqn:E; [|reflexivity].
  apply (aset_keys_in (fst pv)). rewrite E. discriminate.
Qed.

Lemma add_chunk_keys dobjs c vss : map fst (add_chunk dobjs c vss) = map fst c.
Proof.
  unfold add_chunk. generalize (combine (map fst dobjs) vss). intros l. revert c.
  induction l as [|pv l IH]; intros c; cbn [fold_left]; [reflexivity|]. rewrite IH. apply add_values_keys.
Qed.

Lemma fold_add_chunk_keys dobjs : forall css c, map fst (fold_left (add_chunk dobjs) css c) = map fst c.
Proof.
  induction css as [|vss css IH]; intros c; cbn [fold_left]; [reflexivity|]. rewrite IH. apply add_chunk_keys.
Qed.

Lemma Canon_spec_segment first st s st' :
  Canon st -> seg_ok s = true -> spec_segment first st s = SOk st' -> Canon st'.
Proof.
  intros Hc Hok H. unfold spec_segment in H.
  destruct (apply_metadata first st s) as [st1|e] eqn:Emeta; cbn [sbind] in H; [|discriminate].
  destruct (decode_data _ _ _) as [css|e]; cbn [sbind] in H; [|discriminate]. injection H as <-.
  destruct (apply_metadata_inv first st s st1 Emeta) as (ste & Hm & ->). cbn [active last objs].
  assert (Hce : Canon ste).
  { unfold seg_ok in Hok. destruct (fs_meta s) as [es|]; [|destruct Hm as [_ ->]; exact Hc].
    apply andb_prop in Hok. refine (Canon_apply_entries es _ ste _ (proj2 Hok) Hm).
    destruct (toc_has (fs_toc s) TOC_NEWLIST); [|exact Hc].
    destruct Hc as [Ha Ho Hl]. constructor; cbn [active last objs]; [intros p []|exact Ho|exact Hl]. }
  destruct Hce as [Ha Ho Hl]. constructor; cbn [active last objs]; [exact Ha| |exact Hl].
  intros p Hp. rewrite fold_add_chunk_keys, fold_set_props_keys in Hp.
  apply fold_touch_keys in Hp. destruct Hp as [Hp|Hp]; [exact (Ha p Hp)|exact (Ho p Hp)].
Qed.

Lemma Canon_spec_segments : forall segs first st st',
  Canon st -> forallb seg_ok segs = true -> spec_segments first st segs = SOk st' -> Canon st'.
Proof.
  induction segs as [|s segs IH]; intros first st st' Hc Hok H; cbn [spec_segments] in H.
  - injection H as <-. exact Hc.
  - cbn [forallb] in Hok. apply andb_prop in Hok. destruct Hok as [Hs Hok].
    destruct (spec_segment first st s) as [st1|e] eqn:E; cbn [sbind] in H; [|discriminate].
    exact (IH false st1 st' (Canon_spec_segment first st s st1 Hc Hs E) Hok H).
Qed.

(* ---- the refinement theorem -------------------------------------------------------------- *)

Lemma Forall2_strengthen {A B} (R R' : A -> B -> Prop) : forall l1 l2,
  Forall2 R l1 l2 -> (forall x y, In x l1 -> In y l2 -> R x y -> R' x y) -> Forall2 R' l1 l2.
Proof.
  intros l1 l2 H. induction H as [|x y l1 l2 Hxy H IH]; intros Himp; [constructor|].
  constructor.
  - apply Himp; [left; reflexivity|left; reflexivity|exact Hxy].
  - apply IH. intros x' y' Hx' Hy'. apply Himp; right; assumption.
Qed.

Lemma obs_status_plain rst :
  Forall seg_plain (rs_segments rst) -> obs_status rst = [TZ 0; TZ 0].
Proof.
  intros H. unfold obs_status. destruct (rev (rs_segments rst)) as [|g r] eqn:E; [reflexivity|].
  assert (Hg : In g (rs_segments rst)) by (apply in_rev; rewrite E; left; reflexivity).
  rewrite Forall_forall in H. destruct (H g Hg) as [Hi Hf]. rewrite Hi, Hf. reflexivity.
Qed.

Theorem reader_refines_spec segs c :
  wf_file segs -> spec_ok segs -> spec_meaning segs = SOk c ->
  rd_all (ser_file segs) = Ok (spec_tokens c, true).
Proof.
  intros Hwf Hok Hmean. unfold spec_ok in Hok. unfold spec_meaning in Hmean.
  destruct (spec_segments true sstate0 segs) as [stF|e] eqn:Espec; cbn [sbind] in Hmean; [|discriminate].
  injection Hmean as <-.
  destruct (spec_state_simulation segs stF Hwf Hok Espec)
    as (rstF & chunkss & Hrun & Henc & Hplain & Hrel0 & Hnd & Hvals & Hdt).
  pose proof (Canon_spec_segments segs true sstate0 stF Canon_init Hok Espec) as [_ Hcan Hchan].
  pose proof (rel_keys om_rel0 om_rel0_key _ _ Hrel0) as Hkeys.
  assert (Hnd_om : NoDup (map fst (rs_om rstF))) by (rewrite Hkeys; exact Hnd).
  (* lengths *)
  assert (Hrel : Forall2 om_rel (rs_om rstF) (objs stF)).
  { apply (Forall2_strengthen om_rel0 om_rel _ _ Hrel0).
    intros [p m] [q o] Hin1 Hin2 (Hk & Hp & Hd & Hs). cbn [fst snd] in *. subst q.
    unfold om_rel. cbn [fst snd]. repeat split; try assumption.
    pose proof (om_len_counts_values_z segs false rstF chunkss p Hrun Henc) as Hlen.
    unfold get_ometa in Hlen. rewrite (alookup_in_nodup p m _ Hnd_om Hin1) in Hlen.
    rewrite Hlen, <- (Hvals p). unfold cvals. rewrite (alookup_in_nodup p o _ Hnd Hin2). reflexivity. }
  assert (Hcanon_all : Forall (fun po => canonical_path (fst po) = true) (objs stF)).
  { apply Forall_forall. intros po Hin. apply Hcan. apply in_map. exact Hin. }
  destruct (hierarchy_refines (rs_om rstF) (objs stF) Hrel Hnd Hcanon_all) as (h & Hh & Htok & _).
  (* hypotheses of read_correct about the paths *)
  assert (Hpc : om_paths_canonical (rs_om rstF)).
  { intros p m g ch Hin Hparse.
    assert (Hp : canonical_path p = true).
    { apply Hcan. rewrite <- Hkeys. apply (in_map fst) in Hin. exact Hin. }
    pose proof (canonical_path_from_string p Hp) as Hc.
    destruct (parse_path p) as [[|g' [|c' [|x r]]]|]; try contradiction.
    - destruct Hc as [_ Hc]. rewrite Hc in Hparse. discriminate.
    - destruct Hc as [Hc _]. rewrite Hc in Hparse. discriminate.
    - destruct Hc as [Hc Hs]. rewrite Hc in Hparse. injection Hparse as <- <-. exact Hs. }
  assert (Htc : typed_objects_are_channels (rs_om rstF)).
  { intros p m Hin Hty.
    pose proof (rel_alookup om_rel0 om_rel0_key p _ _ Hrel0) as Hlk.
    rewrite (alookup_in_nodup p m _ Hnd_om Hin) in Hlk.
    destruct (alookup p (objs stF)) as [o|] eqn:Eo; [|contradiction].
    destruct Hlk as (_ & _ & Hd & _). cbn [fst snd] in Hd.
    assert (Hl : alookup p (last stF) <> None).
    { destruct (Hdt p) as [H|H]; unfold cdt in H; rewrite Eo in H; cbn [option_map] in H; [discriminate|].
      injection H as H. intros El. rewrite El in H. cbn [option_map] in H. rewrite <- Hd in H. contradiction. }
    assert (Hch : is_channel_path p = true).
    { apply Hchan. destruct (alookup p (last stF)) as [i|] eqn:El; [|contradiction Hl; reflexivity].
      exact (alookup_some_in_keys _ _ _ El). }
    assert (Hp : canonical_path p = true).
    { apply Hcan. rewrite <- Hkeys. apply (in_map fst) in Hin. exact Hin. }
    pose proof (canonical_path_from_string p Hp) as Hc. unfold is_channel_path in Hch.
    destruct (parse_path p) as [[|g' [|c' [|x r]]]|]; try discriminate.
    exists g', c'. exact (proj1 Hc). }
  rewrite (read_correct_z segs rstF h chunkss Hwf Hrun Hh Henc Hpc Htc). f_equal. f_equal.
  unfold expected_tokens, spec_tokens. cbn [c_version c_objs].
  rewrite (sm_run_version segs false rstF Hrun). f_equal.
  rewrite (obs_status_plain rstF Hplain). f_equal.
  apply Htok. intros g name p o Hin Hparse.
  unfold expected_data, chan_of_cobj, values_tokens. cbn [ch_dtype ch_path].
  destruct (o_dtype o); [|reflexivity].
  rewrite <- (Hvals p). unfold cvals. rewrite (alookup_in_nodup p o _ Hnd Hin). reflexivity.
Qed.

(* ---- the forbidden encodings ------------------------------------------------------------------ *)

Lemma whole_chunks_err e cs unit d err : whole_chunks e cs unit d = SErr err -> err = BadRawData.
Proof.
  unfold whole_chunks. destruct (cs =? 0).
  - destruct (blen d =? 0); [discriminate|]. intros H. injection H as <-. reflexivity.
  - destruct (negb (blen d mod cs =? 0)); [intros H; injection H as <-; reflexivity|].
    destruct (all_some _); [discriminate|]. intros H. injection H as <-. reflexivity.
Qed.

Lemma decode_data_err toc dobjs d err :
  decode_data toc dobjs d = SErr err -> err = BadRawData \/ err = BadLayout.
Proof.
  unfold decode_data. cbv zeta.
  destruct (negb (toc_has toc TOC_INTERLEAVED)); [intros H; left; exact (whole_chunks_err _ _ _ _ _ H)|].
  destruct (forallb is_fixed dobjs).
  - destruct (same_counts dobjs); [intros H; left; exact (whole_chunks_err _ _ _ _ _ H)|].
    intros H. injection H as <-. right. reflexivity.
  - destruct dobjs as [|o [|o' r]]; try (intros H; injection H as <-; right; reflexivity).
    intros H. left. exact (whole_chunks_err _ _ _ _ _ H).
Qed.

Lemma sim_loop_forbidden : forall segs first st ps e rst pos pi,
  Inv first st ps (rs_prev_objs rst) (rs_om rst) ->
  forallb seg_ok segs = true -> forallb wf_fseg segs = true ->
  spec_segments first st segs = SErr e -> forbidden e ->
  exists e', sm_loop segs false pos ps pi rst = Err e'.
Proof.
  induction segs as [|s segs IH]; intros first st ps e rst pos pi HI Hok Hwf Hspec Hforb.
  - discriminate.
  - cbn [spec_segments] in Hspec. cbn [forallb] in Hok. apply andb_prop in Hok. destruct Hok as [Hoks Hok].
    cbn [forallb] in Hwf. apply andb_prop in Hwf. destruct Hwf as [Hwfs Hwf].
    rewrite sm_loop_cons.
    destruct (spec_segment first st s) as [st1|e1] eqn:Eseg; cbn [sbind] in Hspec.
    + destruct (sim_step first st ps s st1 rst pos pi
                         (fun o i st' => sm_loop segs false (pos + 28 + blen (fs_meta_bytes s) + blen (fs_data s)) o i st')
                         HI Hoks Hwfs Eseg)
        as (mobjs & idx & rst1 & g & cs & Hstep & HI1 & _).
      rewrite Hstep. exact (IH false st1 (Some mobjs) e rst1 _ idx HI1 Hok Hwf Hspec Hforb).
    + injection Hspec as ->. apply seg_step_rejects.
      unfold spec_segment in Eseg.
      destruct (apply_metadata first st s) as [st1|e1] eqn:Emeta; cbn [sbind] in Eseg.
      * destruct (decode_data _ _ _) as [css|e1] eqn:Edec; cbn [sbind] in Eseg; [discriminate|].
        injection Eseg as ->. destruct (decode_data_err _ _ _ _ Edec) as [He|He]; subst e;
          destruct Hforb as [H|[H|H]]; discriminate.
      * injection Eseg as ->.
        exact (sim_segment_forbidden first st ps _ _ s e HI Hoks Hwfs Emeta Hforb).
Qed.

Theorem reader_rejects_forbidden segs e :
  wf_file segs -> spec_ok segs -> spec_meaning segs = SErr e -> forbidden e ->
  exists e', rd_all (ser_file segs) = Err e'.
Proof.
  intros Hwf Hok Hmean Hforb. unfold spec_meaning in Hmean.
  destruct (spec_segments true sstate0 segs) as [stF|e0] eqn:Espec; cbn [sbind] in Hmean; [discriminate|].
  injection Hmean as ->.
  destruct (sim_loop_forbidden segs true sstate0 None e rstate0 0 [] Inv_init Hok Hwf Espec Hforb) as (e' & He').
  exists e'. unfold rd_all, rd_all_from. rewrite (rd_metadata_ser segs false Hwf).
  unfold sm_run. rewrite He'. reflexivity.
Qed.
