(* GenEagerFits.v -- [read_data_fits] (Proofs/GenEagerEquiv.v) derived for a serialised well-formed file; statements collected
   in Props/C01_gen6.v.

   1. [chunks_fit] is stated on the translated run itself (the receivers as they are when an item is reached).  It is reduced
      to a condition on the INITIAL receivers and the chunk list alone ([static_ok], [chunks_fit_of_static]): plain data
      items; every value has the receiver's SHAPE (never changed by an append: [append_static]); per receiver, the TOTAL
      number of values all chunks hold for its path is at most its room.
   2. Counting: the total is at most the number of values the model's chunks hold for the path ([demand_of_abs]), the chunk
      stream of ser_file segs holds the values of concat chunkss ([all_chunks_ser]), that number is len(channel)
      ([lengths_all]), and a fresh array receiver has room for len(channel) values ([get_data_receiver_concrete],
      [alloc_outer_inv]).  Result: [read_data_fits_of_wf_typed], with the typing of the run ([run_typed]) still assumed.
   3. Typing: a channel has the data type of every typed segment object under its path ([channel_dtype_of_segment_object],
      from a forward invariant of the metadata pass); a fresh receiver has the shape of its channel's type
      ([get_data_receiver_shape]); the translated contiguous and interleaved readers yield arrays of the dtype the object's
      type prescribes ([reader_typed_plain]); every encoded segment has one of the two layouts ([segs_encode_plain]).
      Result: [run_typed_plain], [read_data_fits_of_wf_plain], [tdmsfile_read_data_ser_plain].
   Not derived: [segs_data_ok] (see Props/C01_gen6.v). *)
From Coq Require Import String Ascii.
From Coq Require Import ZArith List Bool Lia ZifyBool.
From Coq Require Import Init.Byte.
Import ListNotations.
From NpTdms Require Import Base.Bytes Base.Res Base.PySlice Model.Tokens Model.SegState Model.Layout Model.Reader
     Gen.TypeTable Gen.PyFuncsReader Gen.PyFuncsDecode Gen.PyFuncsDaqmxRead Gen.PyFuncsDaqmxLoop Gen.PyFuncsEagerLoop
     Proofs.SegStateProofs Proofs.LayoutProofs Proofs.DaqmxProofs Proofs.GenReaderEquiv Proofs.GenDecodeEquiv
     Proofs.GenDecodeRecv Proofs.GenDaqmxEquiv Proofs.GenDaqmxLoopEquiv Proofs.ReadCorrect Proofs.GenEagerEquiv
     Model.FileSyn Proofs.FileSynProofs.
Local Open Scope Z_scope.
Ltac Zify.zify_post_hook ::= Z.to_euclidean_division_equations.

(* ---- what an append never changes ------------------------------------------------------------------------------------ *)

Inductive rshape := SList | SNum (d : npdtype) | STs (raw : bool) (d : npdtype) | SDaq.

Definition shape (r : receiver) : rshape :=
  match r with
  | RList _ => SList
  | RNumpy (_, a, _, _) => SNum (a_dtype a)
  | RTimestamp (_, raw, a, _, _) => STs raw (a_dtype a)
  | RDaqmx _ => SDaq
  end.

(* the preallocated array is a whole number of items, the position is not negative *)
Definition recv_wf (r : receiver) : Prop :=
  match r with
  | RNumpy (_, a, _, pos) => blen (a_raw a) mod dt_itemsize (a_dtype a) = 0 /\ 0 <= pos
  | RTimestamp (_, _, a, _, pos) => blen (a_raw a) mod dt_itemsize (a_dtype a) = 0 /\ 0 <= pos
  | _ => True
  end.

(* free items of the preallocated array *)
Definition room (r : receiver) : Z :=
  match r with
  | RNumpy (_, a, _, pos) => np_len a - pos
  | RTimestamp (_, _, a, _, pos) => np_len a - pos
  | _ => 0
  end.

(* the value is of the receiver's shape *)
Definition val_ok (s : rshape) (v : pydata) : Prop :=
  match s, v with
  | SList, DStrs _ => True
  | SNum d, DArr x => same_items (a_dtype x) d
  | STs raw d, DArr x => raw = true /\ d = ts_dtype LE /\ (exists e, a_dtype x = ts_dtype e) /\ blen (a_raw x) mod 16 = 0
  | SDaq, _ => True
  | _, _ => False
  end.

(* items the value needs in a preallocated array *)
Definition demand (v : pydata) : Z := match v with DArr x => np_len x | DStrs _ => 0 end.

Lemma np_len_nonneg a : 0 <= np_len a.
Proof.
  unfold np_len. destruct (dt_itemsize (a_dtype a) <=? 0) eqn:E; [lia|].
  pose proof (blen_nonneg (a_raw a)). apply Z.div_pos; lia.
Qed.

Lemma demand_nonneg v : 0 <= demand v.
Proof. destruct v; cbn [demand]; [apply np_len_nonneg|lia]. Qed.

Lemma data_fits_of_static r v :
  recv_wf r -> val_ok (shape r) v -> demand v <= room r -> data_fits r v.
Proof.
  destruct r as [[[dt data] sd]|[[[path a] sd] pos]|[[path sd] sp]|[[[[path raw] a] sd] pos]]; destruct v as [x|l];
    cbn [recv_wf shape val_ok demand room data_fits]; intros Hwf Hv Hd; try exact I; try contradiction.
  - destruct Hwf as [Hm Hp]. repeat split; try assumption; lia.
  - destruct Hwf as [Hm Hp]. destruct Hv as [Hr [Ha [He Hx]]]. rewrite Ha in Hm. change (dt_itemsize (ts_dtype LE)) with 16 in Hm.
    repeat split; try assumption; lia.
Qed.

Lemma append_static asdt r v r' :
  recv_wf r -> val_ok (shape r) v -> demand v <= room r ->
  receiver_append_data_gen asdt r v = Ok r' ->
  shape r' = shape r /\ recv_wf r' /\ room r' = room r - demand v.
Proof.
  destruct r as [[[dt data] sd]|[[[path a] sd] pos]|[[path sd] sp]|[[[[path raw] a] sd] pos]]; destruct v as [x|l];
    cbn [recv_wf shape val_ok demand room receiver_append_data_gen]; intros Hwf Hv Hd H; try discriminate; try contradiction.
  - cbn [list_receiver_append_data_gen bind] in H. unfold list_receiver_append_data_gen in H. cbn [bind] in H.
    injection H as <-. cbn [shape recv_wf room]. repeat split; lia.
  - destruct Hwf as [Hm Hp].
    destruct (numpy_receiver_append_eq path a pos x Hv Hm Hp ltac:(lia)) as [a' [Hg [Hdt [Hm' [Hl _]]]]].
    rewrite Hg in H. cbn [bind] in H. injection H as <-. cbn [shape recv_wf room]. rewrite Hdt, Hl.
    pose proof (np_len_nonneg x). repeat split; try assumption; lia.
  - destruct Hwf as [Hm Hp]. destruct Hv as [-> [Ha [[e He] Hx]]]. rewrite Ha in Hm. change (dt_itemsize (ts_dtype LE)) with 16 in Hm.
    destruct (timestamp_receiver_append_eq asdt path e a pos x Ha He Hm Hx Hp ltac:(lia)) as [a' [Hg [Hdt [Hm' [Hl _]]]]].
    rewrite Hg in H. cbn [bind] in H. injection H as <-. cbn [shape recv_wf room]. rewrite Hdt, Ha, Hl.
    change (dt_itemsize (ts_dtype LE)) with 16. pose proof (np_len_nonneg x). repeat split; try assumption; lia.
Qed.

(* ---- the static condition ------------------------------------------------------------------------------------------------ *)

(* a (path, data) item as the contiguous and interleaved readers yield it *)
Definition plain_item (it : bytes * rcdc) : Prop := rc_scaler_data (snd it) = None /\ rc_data (snd it) <> None.

Definition item_demand (p : bytes) (it : bytes * rcdc) : Z :=
  if bytes_eqb p (fst it) then match rc_data (snd it) with Some v => demand v | None => 0 end else 0.

Fixpoint items_demand (p : bytes) (its : list (bytes * rcdc)) : Z :=
  match its with [] => 0 | it :: rest => item_demand p it + items_demand p rest end.

Lemma item_demand_nonneg p it : 0 <= item_demand p it.
Proof. unfold item_demand. destruct (bytes_eqb p (fst it)); [|lia]. destruct (rc_data (snd it)); [apply demand_nonneg|lia]. Qed.

Lemma items_demand_nonneg p its : 0 <= items_demand p its.
Proof. induction its as [|it its IH]; cbn [items_demand]; [lia|]. pose proof (item_demand_nonneg p it). lia. Qed.

Lemma items_demand_app p a b : items_demand p (a ++ b) = items_demand p a + items_demand p b.
Proof. induction a as [|it a IH]; cbn [items_demand app]; [lia|]. rewrite IH. lia. Qed.

Definition static_ok (cd : alist (option receiver)) (its : list (bytes * rcdc)) : Prop :=
  Forall plain_item its /\
  forall p r, alookup p cd = Some (Some r) ->
              recv_wf r /\ items_demand p its <= room r /\
              forall rc v, In (p, rc) its -> rc_data rc = Some v -> val_ok (shape r) v.

Section Static.
Variable asdt : nparr -> res nparr.

Lemma item_static cd it rest :
  static_ok cd (it :: rest) ->
  item_fits cd it /\ forall cd', item_step asdt cd it = Ok cd' -> static_ok cd' rest.
Proof.
  destruct it as [path rc]. intros [Hpl Hr]. inversion Hpl as [|? ? [Hsc Hda] Hpl']; subst. cbn [fst snd] in Hsc, Hda.
  destruct (rc_data rc) as [v|] eqn:Ev; [clear Hda|contradiction].
  unfold item_fits, item_step. cbn [fst snd tdmsfile_read_data_gen_loop8]. rewrite Ev, Hsc. cbn [is_none negb].
  destruct (alookup path cd) as [[r|]|] eqn:El; cbn [need bind].
  - destruct (Hr path r El) as [Hwf [Hdem Hty]].
    cbn [items_demand] in Hdem. unfold item_demand in Hdem. cbn [fst snd] in Hdem. rewrite bytes_eqb_refl, Ev in Hdem.
    pose proof (items_demand_nonneg path rest) as Hnn.
    assert (Hv : val_ok (shape r) v) by (apply (Hty rc v); [left; reflexivity|exact Ev]).
    split; [apply data_fits_of_static; [exact Hwf|exact Hv|lia]|].
    intros cd' H. destruct (receiver_append_data_gen asdt r v) as [r'|e] eqn:Ea; cbn [bind] in H; [|discriminate].
    injection H as <-.
    destruct (append_static asdt r v r' Hwf Hv ltac:(lia) Ea) as [Hs' [Hwf' Hroom']].
    split; [exact Hpl'|]. intros q rq Hq. rewrite alookup_aset in Hq. destruct (bytes_eqb q path) eqn:E.
    + apply bytes_eqb_eq in E. subst q. injection Hq as <-. split; [exact Hwf'|]. split; [lia|].
      intros rc0 v0 Hin Hv0. rewrite Hs'. apply (Hty rc0 v0); [right; exact Hin|exact Hv0].
    + destruct (Hr q rq Hq) as [Hwfq [Hdq Htq]]. split; [exact Hwfq|].
      cbn [items_demand] in Hdq. unfold item_demand in Hdq. cbn [fst snd] in Hdq. rewrite E in Hdq. split; [lia|].
      intros rc0 v0 Hin Hv0. apply (Htq rc0 v0); [right; exact Hin|exact Hv0].
  - split; [exact I|]. intros cd' H. discriminate.
  - split; [exact I|]. intros cd' H. discriminate.
Qed.

Lemma items_static : forall items cd rest,
    static_ok cd (items ++ rest) ->
    items_fit asdt items cd /\ forall cd', tdmsfile_read_data_gen_loop8 asdt items cd = Ok cd' -> static_ok cd' rest.
Proof.
  induction items as [|it items IH]; intros cd rest H.
  - cbn [app items_fit tdmsfile_read_data_gen_loop8]. split; [exact I|]. intros cd' E. injection E as <-. exact H.
  - cbn [app] in H. destruct (item_static cd it (items ++ rest) H) as [Hit Hstep]. cbn [items_fit].
    split; [split; [exact Hit|]|].
    + intros cd1 E1. exact (proj1 (IH cd1 rest (Hstep cd1 E1))).
    + intros cd' E. rewrite loop8_cons in E. destruct (item_step asdt cd it) as [cd1|e] eqn:E1; cbn [bind] in E; [|discriminate].
      exact (proj2 (IH cd1 rest (Hstep cd1 eq_refl)) cd' E).
Qed.

(* all items of all chunks, in the order the chunk loop visits them *)
Definition all_items (l : list rawchunk) : list (bytes * rcdc) := concat (map rdc_channel_data l).

Theorem chunks_fit_of_static : forall l cd, static_ok cd (all_items l) -> chunks_fit asdt l cd.
Proof.
  induction l as [|rc l IH]; intros cd H; cbn [chunks_fit]; [exact I|].
  unfold all_items in H. cbn [map concat] in H. destruct (items_static (rdc_channel_data rc) cd _ H) as [Hit Hstep].
  split; [exact Hit|]. intros cd' E. apply IH. exact (Hstep cd' E).
Qed.

End Static.

(* ---- the total demand is the number of values the model's chunks hold ---------------------------------------------------- *)

Lemma opt_all_length {A} : forall (l : list (option A)) vs, opt_all l = Some vs -> length vs = length l.
Proof.
  induction l as [|x l IH]; intros vs H; cbn [opt_all] in H.
  - injection H as <-. reflexivity.
  - destruct x as [a|]; [|discriminate]. destruct (opt_all l) as [r|]; [|discriminate]. injection H as <-.
    cbn [length]. rewrite (IH r eq_refl). reflexivity.
Qed.

Lemma val_ok_len s v vs : val_ok s v -> s <> SDaq -> pydata_values v = Some vs -> demand v <= Z.of_nat (length vs).
Proof.
  destruct s as [|d|raw d|]; destruct v as [x|l]; cbn [val_ok demand pydata_values]; intros Hv Hs Hvs; try contradiction; try lia.
  - destruct x as [dx rawx]. cbn [a_dtype] in Hv. destruct dx as [ks ws os|]; [|contradiction]. destruct d as [kd wd od|]; [|contradiction].
    destruct Hv as [-> [_ Hw]]. unfold arr_values in Hvs. cbn [a_dtype a_raw] in Hvs. injection Hvs as <-.
    rewrite map_length. unfold np_len. cbn [a_dtype a_raw dt_itemsize]. destruct (wd <=? 0) eqn:E; [lia|].
    rewrite (items_length wd rawx Hw). lia.
  - destruct Hv as [_ [_ [[e He] Hx]]]. destruct x as [dx rawx]. cbn [a_dtype a_raw] in *. subst dx.
    unfold arr_values in Hvs. cbn [a_dtype a_raw] in Hvs.
    assert (H16 : dt_itemsize (ts_dtype e) = 16) by (destruct e; reflexivity).
    assert (Hl : length vs = length (items 16 rawx)).
    { destruct e; cbn [ts_dtype] in Hvs; apply opt_all_length in Hvs; rewrite map_length in Hvs;
        change (dt_itemsize _) with 16 in Hvs; exact Hvs. }
    unfold np_len. cbn [a_dtype a_raw]. rewrite H16. cbn [Z.leb Z.compare]. rewrite Hl, (items_length 16 rawx) by lia. lia.
Qed.

(* item by item, the raw chunks are the model's chunks *)
Definition item_abs (it : bytes * rcdc) (kv : bytes * cdata) : Prop := fst it = fst kv /\ rcdc_cdata_dq (snd it) = Some (snd kv).

Lemma entries_abs_forall2 : forall items c, entries_chunk_dq items = Some c -> Forall2 item_abs items c.
Proof.
  induction items as [|[p rc] items IH]; intros c H; cbn [entries_chunk_dq] in H.
  - injection H as <-. constructor.
  - destruct (rcdc_cdata_dq rc) as [x|] eqn:Ex; [|discriminate]. destruct (entries_chunk_dq items) as [c'|]; [|discriminate].
    injection H as <-. constructor; [split; [reflexivity|exact Ex]|apply IH; reflexivity].
Qed.

Lemma all_items_abs : forall l cs, chunks_abs_dq l = Some cs -> Forall2 item_abs (all_items l) (concat cs).
Proof.
  induction l as [|rc l IH]; intros cs H; unfold chunks_abs_dq in H; cbn [map opt_all] in H.
  - injection H as <-. constructor.
  - destruct (rawchunk_chunk_dq rc) as [c|] eqn:Ec; [|discriminate].
    destruct (opt_all (map rawchunk_chunk_dq l)) as [cs'|] eqn:Ecs; [|discriminate]. injection H as <-.
    unfold all_items. cbn [map concat]. apply Forall2_app; [apply entries_abs_forall2; exact Ec|apply IH; exact Ecs].
Qed.

Lemma chan_values_concat p cs : chan_values p cs = flat_map (entry_values p) (concat cs).
Proof.
  unfold chan_values, chunk_values. induction cs as [|c cs IH]; cbn [flat_map concat]; [reflexivity|].
  rewrite flat_map_app, IH. reflexivity.
Qed.

Lemma plain_of_abs : forall its kvs, Forall2 item_abs its kvs ->
    Forall (fun kv : bytes * cdata => exists vs, snd kv = CData vs) kvs -> Forall plain_item its.
Proof.
  induction 1 as [|it kv its kvs [_ Hab] _ IH]; intros Hc; [constructor|].
  inversion Hc as [|? ? [vs Hvs] Hc']; subst. constructor; [|apply IH; exact Hc'].
  unfold plain_item. unfold rcdc_cdata_dq in Hab. rewrite Hvs in Hab.
  destruct (rc_data (snd it)) as [d|]; destruct (rc_scaler_data (snd it)) as [sd|]; try discriminate.
  - split; [reflexivity|discriminate].
  - destruct (scalers_abs sd); discriminate.
Qed.

Lemma demand_of_abs p : forall its kvs, Forall2 item_abs its kvs ->
    (forall rc v vs, In (p, rc) its -> rc_data rc = Some v -> pydata_values v = Some vs -> demand v <= Z.of_nat (length vs)) ->
    items_demand p its <= Z.of_nat (length (flat_map (entry_values p) kvs)).
Proof.
  induction 1 as [|it kv its kvs [Hk Hab] _ IH]; intros Hlen; cbn [items_demand flat_map]; [lia|].
  rewrite app_length. specialize (IH ltac:(intros rc v vs Hin; apply Hlen; right; exact Hin)).
  enough (item_demand p it <= Z.of_nat (length (entry_values p kv))) by lia.
  unfold item_demand, entry_values. rewrite <- Hk. destruct (bytes_eqb p (fst it)) eqn:E; [|cbn [length]; lia].
  apply bytes_eqb_eq in E. destruct it as [q rc]. cbn [fst snd] in *. subst q.
  unfold rcdc_cdata_dq in Hab. destruct (rc_data rc) as [v|] eqn:Ev; [|cbn [length]; destruct (snd kv); cbn [length]; lia].
  destruct (rc_scaler_data rc); [discriminate|]. destruct (pydata_values v) as [vs|] eqn:Evs; [|discriminate].
  injection Hab as <-. apply (Hlen rc v vs); [left; rewrite E; reflexivity|exact Ev|exact Evs].
Qed.

(* ---- the chunk stream of a serialised file ---------------------------------------------------------------------------------- *)

Lemma chan_values_empty_chunks p toc : chan_values p (empty_chunks toc) = [].
Proof. unfold empty_chunks. destruct (toc_has toc TOC_RAW); reflexivity. Qed.

Lemma empty_chunks_only_cdata toc : Forall only_cdata (empty_chunks toc).
Proof. unfold empty_chunks. destruct (toc_has toc TOC_RAW); repeat constructor. Qed.

Lemma all_chunks_ser data : forall segs gs chunkss pre,
    wf_file segs ->
    data = pre ++ ser_file segs ->
    segs_at (blen pre) segs gs ->
    segs_encode gs segs chunkss ->
    exists cs, all_chunks data gs = Ok cs /\ (forall p, chan_values p cs = chan_values p (concat chunkss)) /\
               Forall only_cdata cs.
Proof.
  induction segs as [|s r IH]; intros gs chunkss pre Hwf Hdata Hat Henc.
  - inversion Hat; subst. inversion Henc; subst. exists []. split; [reflexivity|]. split; [reflexivity|constructor].
  - inversion Hat as [|pos s' r' g gs' Hg Hat']; subst.
    inversion Henc as [|g' gs'' s' r' cs css Hcs Henc']; subst.
    unfold wf_file in Hwf. cbn [forallb] in Hwf. apply andb_prop in Hwf. destruct Hwf as [Hs Hr].
    cbn [all_chunks]. rewrite ser_file_cons.
    rewrite (read_segment_encoded pre s (ser_file r) g cs Hs Hg Hcs). cbn [bind].
    destruct (IH gs' css (pre ++ ser_seg TAG_DATA true s) Hr) as (rest & H2 & Hv2 & Ho2).
    + rewrite <- app_assoc. reflexivity.
    + rewrite blen_app. change TAG_DATA with (tag_of false). change true with (negb false).
      rewrite (blen_ser_seg false s Hs). unfold fseg_len in Hat'. exact Hat'.
    + exact Henc'.
    + rewrite ser_file_cons in H2. rewrite H2. cbn [bind]. eexists. split; [reflexivity|]. split.
      * intros p. cbn [concat]. rewrite !chan_values_app, chan_values_empty_chunks, Hv2. reflexivity.
      * apply Forall_app. split; [apply empty_chunks_only_cdata|]. apply Forall_app. split; [|exact Ho2].
        exact (seg_encodes_only_cdata _ _ _ Hcs).
Qed.

(* ---- the receivers get_data_receiver creates, concretely ------------------------------------------------------------------------ *)

Lemma nptype_itemsize_pos c d : dec_cls_nptype c = Some d -> 0 < dt_itemsize d.
Proof.
  unfold dec_cls_nptype.
  repeat match goal with |- (if ?b then _ else _) = _ -> _ => destruct b end; intros H; try discriminate; injection H as <-;
    cbn [dt_itemsize]; lia.
Qed.

Lemma new_array_facts d n mm a :
  0 <= n -> 0 < dt_itemsize d -> new_numpy_array_gen (Some d) n mm = Ok a ->
  a_dtype a = d /\ blen (a_raw a) = n * dt_itemsize d.
Proof.
  intros Hn Hw. unfold new_numpy_array_gen, np_memmap_new, np_zeros, np_dtype_or_default.
  assert (E : (n <? 0) = false) by lia.
  destruct mm; rewrite E; cbn [bind]; intros H; injection H as <-; cbn [a_dtype a_raw]; (split; [reflexivity|]);
    unfold blen; rewrite repeat_length; nia.
Qed.

(* what a fresh receiver is: well-formed, not a DAQmx receiver when the channel is not one, and -- unless it is a list
   receiver -- with room for exactly [n] values *)
Lemma get_data_receiver_concrete c n raw mm r :
  0 <= n -> ch_dtype c <> Some T_DAQMX ->
  get_data_receiver_gen c n raw mm = Ok (Some r) ->
  recv_wf r /\ shape r <> SDaq /\ ch_dtype c <> None /\ (shape r = SList \/ room r = n).
Proof.
  intros Hn Hnd. unfold get_data_receiver_gen.
  destruct (ch_dtype c) as [dt|] eqn:Hdt; cbn [is_none]; [|discriminate].
  change dec_cls_DaqMxRawData with T_DAQMX.
  destruct (dt =? T_DAQMX) eqn:Edq; [exfalso; apply Hnd; f_equal; lia|].
  destruct (dt =? dec_cls_TimeStamp) eqn:Ets.
  - unfold timestamp_receiver_init_gen. destruct raw.
    + destruct (new_numpy_array_gen (Some (DNum "u" 1 LE)) (n * 16) mm) as [ba|e] eqn:Eb; cbn [bind]; [|discriminate].
      destruct (new_array_facts (DNum "u" 1 LE) (n * 16) mm ba ltac:(lia) ltac:(cbn [dt_itemsize]; lia) Eb) as [Hd Hl]. cbn [dt_itemsize] in Hl.
      unfold np_set_dtype. cbn [dt_itemsize fold_right fst snd Z.add Z.leb Z.compare Pos.add Pos.succ Pos.compare Pos.compare_cont].
      assert (Em : (blen (a_raw ba) mod 16 =? 0) = true) by (rewrite Hl; lia). rewrite Em. cbn [bind py_timestamp_array a_dtype].
      cbn. intros H. injection H as <-. cbn [recv_wf shape room a_dtype a_raw dt_itemsize fold_right fst snd].
      split; [split; [rewrite Hl; lia|lia]|]. split; [discriminate|]. split; [discriminate|]. right.
      unfold np_len. cbn [a_dtype a_raw dt_itemsize fold_right fst snd]. cbn [Z.add Z.leb Z.compare Pos.add Pos.succ Pos.compare Pos.compare_cont].
      rewrite Hl. lia.
    + destruct (new_numpy_array_gen (Some (DNum "M" 8 LE)) n mm) as [a|e] eqn:Ea; cbn [bind]; [|discriminate].
      destruct (new_array_facts (DNum "M" 8 LE) n mm a Hn ltac:(cbn [dt_itemsize]; lia) Ea) as [Hd Hl]. cbn [dt_itemsize] in Hl.
      intros H. injection H as <-. cbn [recv_wf shape room]. rewrite Hd. cbn [dt_itemsize].
      split; [split; [rewrite Hl; lia|lia]|]. split; [discriminate|]. split; [discriminate|]. right.
      unfold np_len. rewrite Hd. cbn [dt_itemsize Z.leb Z.compare]. rewrite Hl. lia.
  - cbn [need bind]. destruct (dec_cls_nptype dt) as [d|] eqn:Enp; cbn [is_none].
    + unfold numpy_receiver_init_gen. rewrite Hdt. cbn [need bind]. rewrite Enp.
      pose proof (nptype_itemsize_pos dt d Enp) as Hw.
      destruct (new_numpy_array_gen (Some d) n mm) as [a|e] eqn:Ea; cbn [bind]; [|discriminate].
      destruct (new_array_facts d n mm a Hn Hw Ea) as [Hd Hl].
      intros H. injection H as <-. cbn [recv_wf shape room]. rewrite Hd.
      split; [split; [rewrite Hl; apply Z_mod_mult|lia]|]. split; [discriminate|]. split; [discriminate|]. right.
      unfold np_len. rewrite Hd. destruct (dt_itemsize d <=? 0) eqn:E; [lia|]. rewrite Hl, Z_div_mult by lia. lia.
    + unfold list_receiver_init_gen. rewrite Hdt.
      destruct (dt =? dec_cls_String); cbn [bind]; intros H; injection H as <-; cbn [recv_wf shape];
        (split; [exact I|]); (split; [discriminate|]); (split; [discriminate|]); left; reflexivity.
Qed.

(* ---- the allocation loop: every receiver of the dictionary is fresh and sized len(channel) ---------------------------------- *)

Definition alloc_inv (CH : list channel) (cd : alist (option receiver)) : Prop :=
  forall p r, alookup p cd = Some (Some r) ->
              recv_wf r /\ shape r <> SDaq /\
              (shape r = SList \/ exists c, In c CH /\ ch_path c = p /\ room r = ch_len c).

Definition chan_plain (CH : list channel) (c : channel) : Prop := In c CH /\ 0 <= ch_len c /\ ch_dtype c <> Some T_DAQMX.

Lemma alloc_inner_inv raw mm CH : forall chans cd cd',
    Forall (chan_plain CH) chans -> alloc_inv CH cd ->
    tdmsfile_read_data_gen_loop6 raw mm chans cd = Ok cd' -> alloc_inv CH cd'.
Proof.
  induction chans as [|c chans IH]; intros cd cd' Hch Hinv H; cbn [tdmsfile_read_data_gen_loop6] in H.
  - injection H as <-. exact Hinv.
  - inversion Hch as [|? ? [Hin [Hn Hnd]] Hch']; subst.
    destruct (get_data_receiver_gen c (ch_len c) raw mm) as [o|e] eqn:Eg; cbn [bind] in H; [|discriminate].
    refine (IH _ _ Hch' _ H). intros p r Hp. rewrite alookup_aset in Hp.
    destruct (bytes_eqb p (ch_path c)) eqn:E; [|exact (Hinv p r Hp)].
    apply bytes_eqb_eq in E. subst p. injection Hp as ->.
    destruct (get_data_receiver_concrete c (ch_len c) raw mm r Hn Hnd Eg) as [Hwf [Hs [_ Hor]]].
    split; [exact Hwf|]. split; [exact Hs|]. destruct Hor as [Hl|Hr]; [left; exact Hl|right]. exists c. repeat split; assumption.
Qed.

Lemma alloc_outer_inv raw mm CH : forall groups cd cd',
    Forall (Forall (chan_plain CH)) groups -> alloc_inv CH cd ->
    tdmsfile_read_data_gen_loop5 raw mm groups cd = Ok cd' -> alloc_inv CH cd'.
Proof.
  induction groups as [|g groups IH]; intros cd cd' Hch Hinv H; cbn [tdmsfile_read_data_gen_loop5] in H.
  - injection H as <-. exact Hinv.
  - inversion Hch as [|? ? Hg Hch']; subst.
    destruct (tdmsfile_read_data_gen_loop6 raw mm g cd) as [cd1|e] eqn:E6; cbn [bind] in H; [|discriminate].
    exact (IH _ _ Hch' (alloc_inner_inv raw mm CH g cd cd1 Hg Hinv E6) H).
Qed.

Lemma forall_groups {P : channel -> Prop} : forall groups, Forall P (concat groups) -> Forall (Forall P) groups.
Proof.
  induction groups as [|g gs IH]; intros H; [constructor|]. cbn [concat] in H. apply Forall_app in H.
  destruct H as [H1 H2]. constructor; [exact H1|apply IH; exact H2].
Qed.

Lemma forall_concat {A} (P : A -> Prop) : forall ls, Forall (Forall P) ls -> Forall P (concat ls).
Proof.
  induction ls as [|l ls IH]; intros H; cbn [concat]; [constructor|]. inversion H; subst. apply Forall_app. split; [assumption|apply IH; assumption].
Qed.

Lemma items_demand_zero p : forall its,
    (forall rc v, In (p, rc) its -> rc_data rc = Some v -> demand v = 0) -> items_demand p its = 0.
Proof.
  induction its as [|[q rc] its IH]; intros H; cbn [items_demand]; [reflexivity|].
  rewrite IH by (intros rc0 v Hin; apply H; right; exact Hin). unfold item_demand. cbn [fst snd].
  destruct (bytes_eqb p q) eqn:E; [|reflexivity]. apply bytes_eqb_eq in E. subst q.
  destruct (rc_data rc) as [v|] eqn:Ev; [|reflexivity]. rewrite (H rc v (or_introl eq_refl) Ev). reflexivity.
Qed.

(* len(channel) is the number of values the file holds for the channel, typed or not (ReadCorrect.lengths_consistent_ser
   without its unused restriction to typed channels) *)
Lemma lengths_all segs w st h chunkss :
  sm_run segs w = Ok st -> build_hierarchy (rs_om st) = Ok h -> segs_encode (rs_segments st) segs chunkss ->
  om_paths_canonical (rs_om st) ->
  forall c, In c (all_channels h) -> Z.of_nat (length (chan_values (ch_path c) (concat chunkss))) = ch_len c.
Proof.
  intros Hrun Hh Henc Hcanon c Hc.
  destruct (chan_from_om_canonical _ c Hcanon (build_hierarchy_channels _ _ Hh c Hc)) as (m & Hin & _ & _ & Hlen).
  destruct (sm_run_trace segs w st Hrun) as (_ & _ & Hnd & _).
  pose proof (alookup_in_nodup _ m (rs_om st) Hnd Hin) as Hlk.
  rewrite Hlen, <- (om_len_counts_values segs w st chunkss (ch_path c) Hrun Henc).
  unfold get_ometa. rewrite Hlk. reflexivity.
Qed.

(* ---- read_data_fits for a serialised file ------------------------------------------------------------------------------------- *)

(* WHAT REMAINS ASSUMED ON THE RUN: every value a chunk holds for a path has the SHAPE of that path's (fresh) receiver --
   strings for a list receiver, items of the same width and kind for a NumPy receiver, a timestamp array for a raw
   timestamp receiver.  It says nothing about positions or room. *)
Definition run_typed (groups : list (list channel)) (raw mm : bool) (segs : list segment) (f0 : posfile) : Prop :=
  forall cd0 l f, tdmsfile_read_data_gen_loop5 raw mm groups [] = Ok cd0 ->
                  reader_read_raw_data_gen (Some segs) f0 = Ok (l, f) ->
                  forall p r rc v, alookup p cd0 = Some (Some r) -> In (p, rc) (all_items l) -> rc_data rc = Some v ->
                                   val_ok (shape r) v.

Section Wf.
Variables (segs : list fseg) (st : rstate) (h : hierarchy) (chunkss : list (list chunk)).
Hypothesis Hwf : wf_file segs.
Hypothesis Hrun : sm_run segs false = Ok st.
Hypothesis Hh : build_hierarchy (rs_om st) = Ok h.
Hypothesis Henc : segs_encode (rs_segments st) segs chunkss.
Hypothesis Hcanon : om_paths_canonical (rs_om st).

Lemma chans_plain_of_wf : Forall (chan_plain (all_channels h)) (all_channels h).
Proof.
  apply Forall_forall. intros c Hc. split; [exact Hc|]. split.
  - rewrite <- (lengths_all segs false st h chunkss Hrun Hh Henc Hcanon c Hc). lia.
  - exact (no_daqmx_channels_ser segs false st h chunkss Hrun Hh Henc c Hc).
Qed.

Lemma chan_ok_of_wf : Forall chan_ok (all_channels h).
Proof.
  eapply Forall_impl; [|exact chans_plain_of_wf]. intros c [_ [Hn Hnd]]. split; [exact Hn|].
  intros sc Hd. contradiction.
Qed.

Lemma shape_list_room r : shape r = SList -> room r = 0.
Proof. destruct r as [[[dt data] sd]|[[[path a] sd] pos]|[[path sd] sp]|[[[[path raw] a] sd] pos]]; cbn [shape room]; intros H; try discriminate; reflexivity. Qed.

Theorem read_data_fits_of_wf_typed asdt raw mm p0 :
  segs_data_ok (ser_file segs) (rs_segments st) ->
  run_typed (groups_of h) raw mm (rs_segments st) (mkPf (ser_file segs) p0) ->
  read_data_fits asdt (groups_of h) raw mm (rs_segments st) (mkPf (ser_file segs) p0).
Proof.
  intros Hsegs Hty cd0 l f E5 Er. apply chunks_fit_of_static.
  pose proof (reader_read_raw_data_eq (ser_file segs) (rs_segments st) p0 Hsegs) as H2. rewrite Er in H2.
  destruct (all_chunks_ser (ser_file segs) segs (rs_segments st) chunkss [] Hwf eq_refl
                           (sm_segment_positions segs false st Hrun) Henc) as (cs & Hall & Hvals & Honly).
  rewrite Hall in H2. cbn [mapr fst snd] in H2. injection H2 as Hl _.
  pose proof (all_items_abs l cs Hl) as Hab.
  assert (Hinv : alloc_inv (all_channels h) cd0).
  { apply (alloc_outer_inv raw mm (all_channels h) (groups_of h) [] cd0); [| |exact E5].
    - apply forall_groups. rewrite <- all_channels_concat. exact chans_plain_of_wf.
    - intros p r Hp. discriminate Hp. }
  split.
  - apply (plain_of_abs _ _ Hab). apply forall_concat. exact Honly.
  - intros p r Hp. destruct (Hinv p r Hp) as [Hwfr [Hnd Hor]].
    assert (Htp : forall rc v, In (p, rc) (all_items l) -> rc_data rc = Some v -> val_ok (shape r) v).
    { intros rc v Hin Hv. exact (Hty cd0 l f E5 Er p r rc v Hp Hin Hv). }
    split; [exact Hwfr|]. split; [|exact Htp].
    destruct Hor as [Hsl|[c [Hc [Hpc Hroom]]]].
    + rewrite (shape_list_room r Hsl). rewrite items_demand_zero; [lia|].
      intros rc v Hin Hv. pose proof (Htp rc v Hin Hv) as Hok. rewrite Hsl in Hok. destruct v; [contradiction|reflexivity].
    + rewrite Hroom, <- (lengths_all segs false st h chunkss Hrun Hh Henc Hcanon c Hc), Hpc, <- Hvals, chan_values_concat.
      apply (demand_of_abs p _ _ Hab). intros rc v vs Hin Hv Hvs. exact (val_ok_len (shape r) v vs (Htp rc v Hin Hv) Hnd Hvs).
Qed.

Hypothesis Htyped : typed_objects_are_channels (rs_om st).

(* the whole translated TdmsFile._read_data on the bytes of the file: it succeeds, its receivers are rd_eager's, each
   channel's receiver holds the values the file encodes for it, and the receivers are handed over *)
Theorem tdmsfile_read_data_ser_typed asdt raw mm p0 :
  segs_data_ok (ser_file segs) (rs_segments st) ->
  run_typed (groups_of h) raw mm (rs_segments st) (mkPf (ser_file segs) p0) ->
  exists cd rawd f recv,
    tdmsfile_read_data_gen asdt (groups_of h) [] raw mm (Some (rs_segments st)) (mkPf (ser_file segs) p0) tt
    = Ok (cd, rawd, true, f) /\
    pf_data f = ser_file segs /\
    cd_abs cd = Some recv /\ rd_eager st h (ser_file segs) = Ok recv /\
    (forall c, In c (all_channels h) -> alookup (ch_path c) recv = Some (expected_data (concat chunkss) c)) /\
    fold_left (handover_step cd) (concat (groups_of h)) (Ok []) = Ok rawd.
Proof.
  intros Hsegs Hty.
  destruct (rd_eager_ser segs st h chunkss Hwf Hrun Henc
              (data_paths_are_channels_ser segs false st h chunkss Hrun Hh Henc Hcanon Htyped)
              (no_daqmx_channels_ser segs false st h chunkss Hrun Hh Henc)
              (channel_paths_distinct_ser _ h Hh Hcanon)) as (recv & Hrd & Hexp).
  pose proof (tdmsfile_read_data_eq asdt st h (ser_file segs) raw mm p0 chan_ok_of_wf Hsegs
                (read_data_fits_of_wf_typed asdt raw mm p0 Hsegs Hty)) as Hag.
  rewrite Hrd in Hag. cbn [mapr] in Hag.
  destruct (tdmsfile_read_data_gen asdt (groups_of h) [] raw mm (Some (rs_segments st)) (mkPf (ser_file segs) p0) tt)
    as [[[[cd rawd] flag] f]|e] eqn:Eg; cbn [mapr res_agree] in Hag; [|contradiction].
  injection Hag as Hcd Hflag Hf. subst flag.
  destruct (tdmsfile_read_data_handover asdt _ _ _ _ _ _ _ _ _ _ Eg) as [Hho _].
  exists cd, rawd, f, recv. repeat split; assumption.
Qed.

End Wf.

(* ======================================================================================================================== *)
(* towards run_typed: the data type of a segment object is the data type of its channel                                      *)
(* ======================================================================================================================== *)

Definition om_has_dtype (p : bytes) (d : Z) (om : alist ometa) : Prop :=
  exists m, alookup p om = Some m /\ om_dtype m = Some d.

Lemma update_object_metadata_has_dtype : forall objs n f prev om prev' om',
    update_object_metadata objs n f prev om = Ok (prev', om') ->
    forall p d, (om_has_dtype p d om \/ exists o, In o objs /\ so_path o = p /\ so_dtype o = Some d) ->
                om_has_dtype p d om'.
Proof.
  induction objs as [|o objs IH]; intros n f prev om prev' om' H p d Hp.
  - cbn [update_object_metadata] in H. injection H as _ <-. destruct Hp as [Hp|(o & [] & _)]. exact Hp.
  - cbn [update_object_metadata] in H.
    destruct (update_ometa (get_ometa (so_path o) om) o n f) as [m'|e] eqn:Em; cbn [bind] in H; [|discriminate].
    destruct (update_ometa_dtype _ _ _ _ _ Em) as [Hd1 Hd2].
    apply (IH _ _ _ _ _ _ H p d).
    destruct (bytes_eqb p (so_path o)) eqn:E.
    + apply bytes_eqb_eq in E. subst p.
      destruct Hp as [(m & Hm & Hty)|(o' & [<-|Hin] & Hpath & Hty)].
      * left. exists m'. rewrite alookup_aset, bytes_eqb_refl. split; [reflexivity|].
        rewrite Hd2; unfold get_ometa; rewrite Hm; [exact Hty|rewrite Hty; discriminate].
      * left. exists m'. rewrite alookup_aset, bytes_eqb_refl. split; [reflexivity|]. rewrite Hd1. exact Hty.
      * right. exists o'. split; [exact Hin|]. split; assumption.
    + destruct Hp as [(m & Hm & Hty)|(o' & [<-|Hin] & Hpath & Hty)].
      * left. exists m. rewrite alookup_aset, E. split; assumption.
      * subst p. rewrite bytes_eqb_refl in E. discriminate.
      * right. exists o'. split; [exact Hin|]. split; assumption.
Qed.

Lemma update_object_properties_has_dtype props : forall om p d,
    om_has_dtype p d om -> om_has_dtype p d (update_object_properties props om).
Proof.
  unfold update_object_properties.
  induction props as [|[k ps] props IH]; intros om p d Hp; [exact Hp|].
  cbn [fold_left fst snd]. apply IH. destruct Hp as (m & Hm & Hty).
  unfold om_has_dtype. rewrite alookup_aset.
  destruct (bytes_eqb p k) eqn:E.
  - apply bytes_eqb_eq in E. subst k. unfold get_ometa. rewrite Hm. eexists. split; [reflexivity|]. exact Hty.
  - exists m. split; assumption.
Qed.

Definition seg_dtypes_in_om (st : rstate) : Prop :=
  forall g o d, In g (rs_segments st) -> In o (sg_objs g) -> so_dtype o = Some d -> om_has_dtype (so_path o) d (rs_om st).

Lemma sm_loop_seg_dtypes : forall segs w pos ps pi st stf,
    sm_loop segs w pos ps pi st = Ok stf -> seg_dtypes_in_om st -> seg_dtypes_in_om stf.
Proof.
  induction segs as [|s r IH]; intros w pos ps pi st stf H Hinv.
  - rewrite sm_loop_nil in H. injection H as <-. exact Hinv.
  - apply sm_loop_cons_inv in H.
    destruct H as (objs & props & idx & cache & nch & fin & po & om & Hro & Hcc & Hum & Hloop).
    apply (IH _ _ _ _ _ _ Hloop). intros g o d Hg Ho Hd. cbn [rs_om rs_segments] in *.
    apply update_object_properties_has_dtype. apply (update_object_metadata_has_dtype _ _ _ _ _ _ _ Hum).
    apply in_app_or in Hg. destruct Hg as [Hg|[<-|[]]].
    + left. exact (Hinv g o d Hg Ho Hd).
    + right. exists o. cbn [sg_objs] in Ho. split; [exact Ho|]. split; [reflexivity|exact Hd].
Qed.

Theorem sm_run_seg_dtypes segs w st : sm_run segs w = Ok st -> seg_dtypes_in_om st.
Proof. unfold sm_run. intros H. apply (sm_loop_seg_dtypes _ _ _ _ _ _ _ H). intros g o d []. Qed.

(* the channel under the path of a typed segment object has the object's data type *)
Theorem channel_dtype_of_segment_object segs w st h :
  sm_run segs w = Ok st -> build_hierarchy (rs_om st) = Ok h -> om_paths_canonical (rs_om st) ->
  forall g o d c, In g (rs_segments st) -> In o (sg_objs g) -> so_dtype o = Some d ->
                  In c (all_channels h) -> ch_path c = so_path o -> ch_dtype c = Some d.
Proof.
  intros Hrun Hh Hcanon g o d c Hg Ho Hd Hc Hp.
  destruct (sm_run_seg_dtypes segs w st Hrun g o d Hg Ho Hd) as (m & Hm & Hdt).
  destruct (chan_from_om_canonical _ c Hcanon (build_hierarchy_channels _ _ Hh c Hc)) as (m' & Hin & _ & Hcd & _).
  destruct (sm_run_trace segs w st Hrun) as (_ & _ & Hnd & _).
  pose proof (alookup_in_nodup _ m' (rs_om st) Hnd Hin) as Hlk. rewrite Hp, Hm in Hlk. injection Hlk as <-.
  rewrite Hcd. exact Hdt.
Qed.

(* ---- the shape of a channel's fresh receiver, from the channel's data type ------------------------------------------------ *)

Definition chan_shape (dt : Z) (raw : bool) : rshape :=
  if dt =? dec_cls_TimeStamp then STs raw (if raw then ts_dtype LE else DNum "M" 8 LE)
  else match dec_cls_nptype dt with Some d => SNum d | None => SList end.

Lemma get_data_receiver_shape c n raw mm r dt :
  0 <= n -> ch_dtype c = Some dt -> dt <> T_DAQMX ->
  get_data_receiver_gen c n raw mm = Ok (Some r) -> shape r = chan_shape dt raw.
Proof.
  intros Hn Hdt Hnd. unfold get_data_receiver_gen, chan_shape. rewrite Hdt. cbn [is_none].
  change dec_cls_DaqMxRawData with T_DAQMX.
  destruct (dt =? T_DAQMX) eqn:Edq; [lia|].
  destruct (dt =? dec_cls_TimeStamp) eqn:Ets.
  - unfold timestamp_receiver_init_gen. destruct raw.
    + destruct (new_numpy_array_gen (Some (DNum "u" 1 LE)) (n * 16) mm) as [ba|e] eqn:Eb; cbn [bind]; [|discriminate].
      destruct (new_array_facts (DNum "u" 1 LE) (n * 16) mm ba ltac:(lia) ltac:(cbn [dt_itemsize]; lia) Eb) as [Hd Hl].
      cbn [dt_itemsize] in Hl.
      unfold np_set_dtype. cbn [dt_itemsize fold_right fst snd Z.add Z.leb Z.compare Pos.add Pos.succ Pos.compare Pos.compare_cont].
      assert (Em : (blen (a_raw ba) mod 16 =? 0) = true) by (rewrite Hl; lia). rewrite Em. cbn [bind py_timestamp_array a_dtype].
      cbn. intros H. injection H as <-. reflexivity.
    + destruct (new_numpy_array_gen (Some (DNum "M" 8 LE)) n mm) as [a|e] eqn:Ea; cbn [bind]; [|discriminate].
      destruct (new_array_facts (DNum "M" 8 LE) n mm a Hn ltac:(cbn [dt_itemsize]; lia) Ea) as [Hd Hl].
      intros H. injection H as <-. cbn [shape]. rewrite Hd. reflexivity.
  - cbn [need bind]. destruct (dec_cls_nptype dt) as [d|] eqn:Enp; cbn [is_none].
    + unfold numpy_receiver_init_gen. rewrite Hdt. cbn [need bind]. rewrite Enp.
      pose proof (nptype_itemsize_pos dt d Enp) as Hw.
      destruct (new_numpy_array_gen (Some d) n mm) as [a|e] eqn:Ea; cbn [bind]; [|discriminate].
      destruct (new_array_facts d n mm a Hn Hw Ea) as [Hd Hl].
      intros H. injection H as <-. cbn [shape]. rewrite Hd. reflexivity.
    + unfold list_receiver_init_gen. rewrite Hdt.
      destruct (dt =? dec_cls_String); cbn [bind]; intros H; injection H as <-; reflexivity.
Qed.

Definition shape_inv (CH : list channel) (raw : bool) (cd : alist (option receiver)) : Prop :=
  forall p r, alookup p cd = Some (Some r) ->
              exists c dt, In c CH /\ ch_path c = p /\ ch_dtype c = Some dt /\ shape r = chan_shape dt raw.

Lemma shape_inner_inv raw mm CH : forall chans cd cd',
    Forall (chan_plain CH) chans -> shape_inv CH raw cd ->
    tdmsfile_read_data_gen_loop6 raw mm chans cd = Ok cd' -> shape_inv CH raw cd'.
Proof.
  induction chans as [|c chans IH]; intros cd cd' Hch Hinv H; cbn [tdmsfile_read_data_gen_loop6] in H.
  - injection H as <-. exact Hinv.
  - inversion Hch as [|? ? [Hin [Hn Hnd]] Hch']; subst.
    destruct (get_data_receiver_gen c (ch_len c) raw mm) as [o|e] eqn:Eg; cbn [bind] in H; [|discriminate].
    refine (IH _ _ Hch' _ H). intros p r Hp. rewrite alookup_aset in Hp.
    destruct (bytes_eqb p (ch_path c)) eqn:E; [|exact (Hinv p r Hp)].
    apply bytes_eqb_eq in E. subst p. injection Hp as ->.
    destruct (get_data_receiver_concrete c (ch_len c) raw mm r Hn Hnd Eg) as [_ [_ [Hty _]]].
    destruct (ch_dtype c) as [dt|] eqn:Hdt; [|contradiction].
    exists c, dt. split; [exact Hin|]. split; [reflexivity|]. split; [exact Hdt|].
    apply (get_data_receiver_shape c (ch_len c) raw mm r dt Hn Hdt); [|exact Eg]. intros ->. apply Hnd. reflexivity.
Qed.

Lemma shape_outer_inv raw mm CH : forall groups cd cd',
    Forall (Forall (chan_plain CH)) groups -> shape_inv CH raw cd ->
    tdmsfile_read_data_gen_loop5 raw mm groups cd = Ok cd' -> shape_inv CH raw cd'.
Proof.
  induction groups as [|g groups IH]; intros cd cd' Hch Hinv H; cbn [tdmsfile_read_data_gen_loop5] in H.
  - injection H as <-. exact Hinv.
  - inversion Hch as [|? ? Hg Hch']; subst.
    destruct (tdmsfile_read_data_gen_loop6 raw mm g cd) as [cd1|e] eqn:E6; cbn [bind] in H; [|discriminate].
    exact (IH _ _ Hch' (shape_inner_inv raw mm CH g cd cd1 Hg Hinv E6) H).
Qed.

(* ---- what a reader yields for a segment object of data type dt, in byte order e --------------------------------------------- *)

Definition value_typed (dt : Z) (e : endian) (v : pydata) : Prop :=
  if dt =? dec_cls_TimeStamp then exists x, v = DArr x /\ a_dtype x = ts_dtype e /\ blen (a_raw x) mod 16 = 0
  else match dec_cls_nptype dt with
       | Some d => exists x, v = DArr x /\ a_dtype x = np_newbyteorder d e
       | None => exists l, v = DStrs l
       end.

Lemma value_typed_val_ok dt e v raw :
  value_typed dt e v -> (dt = dec_cls_TimeStamp -> raw = true) -> val_ok (chan_shape dt raw) v.
Proof.
  unfold value_typed, chan_shape. destruct (dt =? dec_cls_TimeStamp) eqn:Ets.
  - intros (x & -> & Hd & Hm) Hraw. rewrite (Hraw ltac:(lia)). cbn [val_ok]. repeat split; try assumption. exists e. exact Hd.
  - intros H _. destruct (dec_cls_nptype dt) as [d|] eqn:Enp.
    + destruct H as (x & -> & Hd). cbn [val_ok]. rewrite Hd. pose proof (nptype_itemsize_pos dt d Enp) as Hw.
      destruct d as [k w o|fs]; cbn [np_newbyteorder same_items dt_itemsize] in *.
      * repeat split; try reflexivity; exact Hw.
      * revert Enp. unfold dec_cls_nptype.
        repeat match goal with |- (if ?b then _ else _) = _ -> _ => destruct b end; intros Hx; discriminate.
    + destruct H as (l & ->). exact I.
Qed.

(* ---- run_typed reduced to a statement about the translated chunk readers alone ----------------------------------------------- *)

(* every data value the reader yields under a path comes from a typed object of that path in some segment, and has the
   dtype that object's data type prescribes, in the segment's byte order *)
Definition reader_typed (segs : list segment) (f0 : posfile) : Prop :=
  forall l f, reader_read_raw_data_gen (Some segs) f0 = Ok (l, f) ->
              forall p rc v, In (p, rc) (all_items l) -> rc_data rc = Some v ->
                             exists g o dt, In g segs /\ In o (sg_objs g) /\ so_path o = p /\ so_dtype o = Some dt /\
                                            value_typed dt (toc_endian (sg_toc g)) v.

Theorem run_typed_of_reader_typed segs st h chunkss raw mm f0 :
  sm_run segs false = Ok st -> build_hierarchy (rs_om st) = Ok h -> segs_encode (rs_segments st) segs chunkss ->
  om_paths_canonical (rs_om st) ->
  (raw = true \/ forall c, In c (all_channels h) -> ch_dtype c <> Some dec_cls_TimeStamp) ->
  reader_typed (rs_segments st) f0 ->
  run_typed (groups_of h) raw mm (rs_segments st) f0.
Proof.
  intros Hrun Hh Henc Hcanon Hts Hrt cd0 l f E5 Er p r rc v Hp Hin Hv.
  assert (Hinv : shape_inv (all_channels h) raw cd0).
  { apply (shape_outer_inv raw mm (all_channels h) (groups_of h) [] cd0); [| |exact E5].
    - apply forall_groups. rewrite <- all_channels_concat. exact (chans_plain_of_wf segs st h chunkss Hrun Hh Henc Hcanon).
    - intros q rq Hq. discriminate Hq. }
  destruct (Hinv p r Hp) as (c & dt & Hc & Hpc & Hdt & Hsh).
  destruct (Hrt l f Er p rc v Hin Hv) as (g & o & dt' & Hg & Ho & Hpo & Hdo & Hvt).
  pose proof (channel_dtype_of_segment_object segs false st h Hrun Hh Hcanon g o dt' c Hg Ho Hdo Hc ltac:(congruence)) as Hcd.
  rewrite Hdt in Hcd. injection Hcd as ->. rewrite Hsh. apply (value_typed_val_ok dt' _ v raw Hvt).
  intros ->. destruct Hts as [Hr|Hn]; [exact Hr|]. exfalso. exact (Hn c Hc Hdt).
Qed.

(* ======================================================================================================================== *)
(* the dtype of what the translated CONTIGUOUS reader yields                                                                  *)
(* ======================================================================================================================== *)

Lemma from_bytes_typed dt b e x :
  a_dtype b = DNum "u" 1 LE -> dec_cls_nptype dt = None -> tds_from_bytes_gen dt b e = Ok x ->
  dt = dec_cls_TimeStamp /\ a_dtype x = ts_dtype e /\ blen (a_raw x) mod 16 = 0.
Proof.
  intros Hb Enp. unfold tds_from_bytes_gen.
  repeat match goal with |- (if ?c =? ?k then _ else _) = _ -> _ => destruct (Z.eqb_spec c k) as [->|?] end;
    try (intros H; discriminate H); try (vm_compute in Enp; discriminate Enp).
  destruct b as [db rawb]. cbn [a_dtype] in Hb. subst db.
  unfold timestamp_from_bytes_gen, np_reshape2. cbn [Z.leb Z.compare].
  destruct (np_len (mkArr (DNum "u" 1 LE) rawb) mod 16 =? 0) eqn:Em; [|intros H; discriminate H]. cbn [bind].
  assert (Hm : blen rawb mod 16 = 0).
  { unfold np_len in Em. cbn [a_dtype a_raw dt_itemsize Z.leb Z.compare] in Em. rewrite Z.div_1_r in Em. lia. }
  destruct e; cbn [bind]; unfold np2_view; cbn; intros H; injection H as <-; cbn [a_dtype a_raw];
    (split; [reflexivity|]); (split; [reflexivity|exact Hm]).
Qed.

Lemma fromfile_dtype file d n a file' : fromfile_gen file d n = Ok (a, file') -> a_dtype a = d.
Proof.
  unfold fromfile_gen. cbv zeta.
  destruct (np_zeros (n * dt_itemsize d) (DNum "u" 1 LE)) as [buf|]; cbn [bind]; [|discriminate].
  destruct (py_readinto_all file buf) as [[[buf' off] f1]|]; cbn [bind]; [|discriminate].
  destruct (py_floordiv off (dt_itemsize d)) as [q|]; cbn [bind]; [|discriminate].
  unfold np_set_dtype. destruct (dt_itemsize d <=? 0); [discriminate|].
  match goal with |- context [if ?c then Ok _ else Err _] => destruct c end; cbn [bind]; [|discriminate].
  intros H. injection H as <- _. reflexivity.
Qed.

Lemma segobj_read_values_typed o file n e v file' :
  segobj_read_values_gen o file n e = Ok (v, file') -> exists dt, so_dtype o = Some dt /\ value_typed dt e v.
Proof.
  unfold segobj_read_values_gen, value_typed. destruct (so_dtype o) as [dt|]; cbn [need bind]; [|discriminate].
  intros H. exists dt. split; [reflexivity|]. revert H.
  destruct (dec_cls_nptype dt) as [d|] eqn:Enp; cbn [is_none negb need bind].
  - destruct (Z.eqb_spec dt dec_cls_TimeStamp) as [->|Hne]; [vm_compute in Enp; discriminate Enp|].
    destruct (fromfile_gen file (np_newbyteorder d e) n) as [[a f1]|] eqn:Ef; cbn [bind]; [|discriminate].
    intros H. injection H as <- _. exists a. split; [reflexivity|]. exact (fromfile_dtype _ _ _ _ _ Ef).
  - destruct (dec_cls_size dt) as [sz|] eqn:Esz; cbn [is_none negb need bind].
    + destruct (fromfile_gen file (DNum "u" 1 LE) (n * sz)) as [[a f1]|] eqn:Ef; cbn [bind]; [|discriminate].
      destruct (tds_from_bytes_gen dt a e) as [x|] eqn:Efb; cbn [bind]; [|discriminate].
      intros H. injection H as <- _.
      destruct (from_bytes_typed dt a e x (fromfile_dtype _ _ _ _ _ Ef) Enp Efb) as [-> [Hd Hm]].
      cbn [Z.eqb Pos.eqb]. exists x. repeat split; assumption.
    + destruct (Z.eqb_spec dt dec_cls_TimeStamp) as [->|Hne]; [vm_compute in Esz; discriminate Esz|].
      destruct (tds_read_values_gen dt file n e) as [[l f1]|]; cbn [bind]; [|discriminate].
      intros H. injection H as <- _. exists l. reflexivity.
Qed.

Definition item_typed (objs : list sobj) (e : endian) (it : bytes * rcdc) : Prop :=
  forall v, rc_data (snd it) = Some v ->
            exists o dt, In o objs /\ so_path o = fst it /\ so_dtype o = Some dt /\ value_typed dt e v.

Definition entry_typed (objs : list sobj) (e : endian) (kv : bytes * pydata) : Prop :=
  exists o dt, In o objs /\ so_path o = fst kv /\ so_dtype o = Some dt /\ value_typed dt e (snd kv).

Lemma forall_aset {V} (P : bytes * V -> Prop) k (x : V) : forall l, Forall P l -> P (k, x) -> Forall P (aset k x l).
Proof.
  induction l as [|[k' v'] l IH]; intros Hl Hx; cbn [aset].
  - constructor; [exact Hx|constructor].
  - inversion Hl; subst. destruct (bytes_eqb k k') eqn:E.
    + apply bytes_eqb_eq in E. subst k'. constructor; assumption.
    + constructor; [assumption|apply IH; assumption].
Qed.

Lemma contig_loop3_typed ci e nc fin all : forall objs od file od' file',
    (forall o, In o objs -> In o all) -> Forall (entry_typed all e) od ->
    contig_read_data_chunk_gen_loop3 ci e nc fin objs od file = Ok (od', file') -> Forall (entry_typed all e) od'.
Proof.
  induction objs as [|o objs IH]; intros od file od' file' Hsub Hod H; cbn [contig_read_data_chunk_gen_loop3] in H.
  - injection H as <- _. exact Hod.
  - destruct (get_channel_number_values_gen nc fin o ci) as [n|]; cbn [bind] in H; [|discriminate].
    destruct (segobj_read_values_gen o file n e) as [[v f1]|] eqn:Ev; cbn [bind] in H; [|discriminate].
    refine (IH _ _ _ _ (fun o' Ho' => Hsub o' (or_intror Ho')) _ H).
    apply forall_aset; [exact Hod|]. destruct (segobj_read_values_typed _ _ _ _ _ _ Ev) as (dt & Hdt & Hvt).
    exists o, dt. split; [apply Hsub; left; reflexivity|]. split; [reflexivity|]. split; assumption.
Qed.

Lemma channel_data_typed all e od rc :
  Forall (entry_typed all e) od -> rawdatachunk_channel_data_gen od = Ok rc -> Forall (item_typed all e) (rdc_channel_data rc).
Proof.
  intros Hod H. unfold rawdatachunk_channel_data_gen in H. injection H as <-. cbn [rdc_channel_data].
  induction Hod as [|[p d] od (o & dt & Ho & Hp & Hdt & Hvt) _ IH]; cbn [map]; constructor; [|exact IH].
  intros v Hv. cbn [snd rc_data] in Hv. injection Hv as <-. exists o, dt. repeat split; assumption.
Qed.

Lemma contig_chunk_typed nc fin e file objs ci rc file' :
  contig_read_data_chunk_gen nc fin e file objs ci = Ok (rc, file') -> Forall (item_typed objs e) (rdc_channel_data rc).
Proof.
  unfold contig_read_data_chunk_gen. cbv zeta.
  destruct (contig_read_data_chunk_gen_loop3 ci e nc fin objs [] file) as [[od f1]|] eqn:E3; cbn [bind]; [|discriminate].
  destruct (rawdatachunk_channel_data_gen od) as [rc'|] eqn:Ec; cbn [bind]; [|discriminate].
  intros H. injection H as <- _.
  apply (channel_data_typed objs e od rc'); [|exact Ec].
  exact (contig_loop3_typed ci e nc fin objs objs [] file od f1 ltac:(auto) ltac:(constructor) E3).
Qed.

Lemma all_items_snoc l c : all_items (l ++ [c]) = all_items l ++ rdc_channel_data c.
Proof. unfold all_items. rewrite map_app, concat_app. cbn [map concat]. rewrite app_nil_r. reflexivity. Qed.

Lemma contig_loop5_typed objs nc fin e : forall cis ys file l file',
    Forall (item_typed objs e) (all_items ys) ->
    contig_read_data_chunks_gen_loop5 objs nc fin e cis ys file = Ok (l, file') -> Forall (item_typed objs e) (all_items l).
Proof.
  induction cis as [|ci cis IH]; intros ys file l file' Hys H; cbn [contig_read_data_chunks_gen_loop5] in H.
  - injection H as <- _. exact Hys.
  - destruct (contig_read_data_chunk_gen nc fin e file objs ci) as [[rc f1]|] eqn:Ec; cbn [bind] in H; [|discriminate].
    refine (IH _ _ _ _ _ H). rewrite all_items_snoc. apply Forall_app. split; [exact Hys|].
    exact (contig_chunk_typed _ _ _ _ _ _ _ _ Ec).
Qed.

(* ======================================================================================================================== *)
(* the dtype of what the translated INTERLEAVED reader yields                                                                 *)
(* ======================================================================================================================== *)

Lemma from_bytes_typed_all dt b e x :
  a_dtype b = DNum "u" 1 LE -> tds_from_bytes_gen dt b e = Ok x -> value_typed dt e (DArr x).
Proof.
  intros Hb. destruct (dec_cls_nptype dt) as [d|] eqn:Enp.
  - unfold value_typed. destruct (Z.eqb_spec dt dec_cls_TimeStamp) as [->|Hne]; [vm_compute in Enp; discriminate Enp|].
    rewrite Enp. unfold tds_from_bytes_gen.
    repeat match goal with |- (if ?c =? ?k then _ else _) = _ -> _ => destruct (Z.eqb_spec c k) as [->|?] end;
      try (intros H; discriminate H); try (exfalso; apply Hne; reflexivity);
      unfold struct_from_bytes_gen, complex_from_bytes_gen; rewrite Enp; cbn [need bind]; unfold np_set_dtype;
      (destruct (dt_itemsize (np_newbyteorder d e) <=? 0); [intros H; discriminate H|]);
      (match goal with |- context [if ?c then Ok _ else Err _] => destruct c end; cbn [bind]; [|intros H; discriminate H]);
      intros H; injection H as <-; eexists; split; reflexivity.
  - intros H. destruct (from_bytes_typed dt b e x Hb Enp H) as [-> [Hd Hm]]. unfold value_typed. cbn [Z.eqb Pos.eqb].
    exists x. repeat split; assumption.
Qed.

Lemma interleaved_bytes_dtype f w n c f' : read_interleaved_segment_bytes_gen f w n = Ok (c, f') -> a2_dtype c = DNum "u" 1 LE.
Proof.
  unfold read_interleaved_segment_bytes_gen. cbv zeta.
  destruct (fromfile_gen f (DNum "u" 1 LE) (w * n)) as [[a f1]|] eqn:Ef; cbn [bind]; [|discriminate].
  pose proof (fromfile_dtype _ _ _ _ _ Ef) as Ha.
  unfold py_catch, np_reshape2.
  destruct (w <=? 0); cbn [bind].
  - cbn [err_eqb]. destruct (py_floordiv (np_len a) w) as [q|]; cbn [bind]; discriminate.
  - destruct (np_len a mod w =? 0); cbn [bind].
    + intros H. injection H as <- _. exact Ha.
    + cbn [err_eqb]. destruct (py_floordiv (np_len a) w) as [q|]; cbn [bind]; [|discriminate].
      destruct (np_len (np_slice a 0 (q * w)) mod w =? 0); cbn [bind]; [|discriminate].
      intros H. injection H as <- _. cbn [a2_dtype np_slice a_dtype]. exact Ha.
Qed.

Lemma interleaved_loop6_typed comb e all : a2_dtype comb = DNum "u" 1 LE -> forall objs i od pos od' pos',
    (forall o, In o objs -> In o all) -> Forall (entry_typed all e) od ->
    read_interleaved_chunks_gen_loop6 comb e objs i od pos = Ok (od', pos') -> Forall (entry_typed all e) od'.
Proof.
  intros Hc. induction objs as [|o objs IH]; intros i od pos od' pos' Hsub Hod H; cbn [read_interleaved_chunks_gen_loop6] in H.
  - injection H as <- _. exact Hod.
  - destruct (so_dtype o) as [dt|] eqn:Hdt; cbn [need bind] in H; [|discriminate].
    destruct (dec_cls_size dt) as [sz|]; cbn [need bind] in H; [|discriminate].
    destruct (np2_take_columns comb (py_range pos (sz + pos))) as [t6|] eqn:Et; cbn [bind] in H; [|discriminate].
    destruct (tds_from_bytes_gen dt (np2_flatten t6) e) as [x|] eqn:Efb; cbn [bind] in H; [|discriminate].
    refine (IH _ _ _ _ _ (fun o' Ho' => Hsub o' (or_intror Ho')) _ H).
    apply forall_aset; [exact Hod|]. exists o, dt. split; [apply Hsub; left; reflexivity|]. split; [reflexivity|].
    split; [exact Hdt|]. cbn [snd]. apply (from_bytes_typed_all dt (np2_flatten t6) e x); [|exact Efb].
    unfold np2_take_columns in Et. destruct (forallb _ _) in Et; [|discriminate]. injection Et as <-. exact Hc.
Qed.

Lemma interleaved_chunks_typed e file objs n l file' :
  interleaved_read_data_chunks_gen e file objs n = Ok (l, file') -> Forall (item_typed objs e) (all_items l).
Proof.
  unfold interleaved_read_data_chunks_gen. destruct (Z.of_nat (length objs) =? 0).
  - intros H. injection H as <- _. constructor.
  - destruct (negb _); [discriminate|].
    destruct (read_interleaved_chunks_gen e file objs n) as [[rc f1]|] eqn:Er; cbn [bind]; [|discriminate].
    intros H. injection H as <- _. unfold all_items. cbn [map concat]. rewrite app_nil_r.
    unfold read_interleaved_chunks_gen in Er.
    destruct (py_sum_opt _) as [w|]; cbn [bind] in Er; [|discriminate].
    destruct (py_index objs 0) as [o0|]; cbn [bind] in Er; [|discriminate].
    destruct (read_interleaved_segment_bytes_gen file w (so_nvals o0 * n)) as [[comb f2]|] eqn:Eb; cbn [bind] in Er; [|discriminate].
    destruct (read_interleaved_chunks_gen_loop6 comb e objs 0 [] 0) as [[od pos]|] eqn:E6; cbn [bind] in Er; [|discriminate].
    destruct (rawdatachunk_channel_data_gen od) as [rc'|] eqn:Ec; cbn [bind] in Er; [|discriminate].
    injection Er as <- _. apply (channel_data_typed objs e od rc'); [|exact Ec].
    exact (interleaved_loop6_typed comb e objs (interleaved_bytes_dtype _ _ _ _ _ Eb) objs 0 [] 0 od pos ltac:(auto) ltac:(constructor) E6).
Qed.

(* not DAQmx: the contiguous or the interleaved layout *)
Definition plain_layout (g : segment) : Prop := seg_layout g = Ok LContig \/ seg_layout g = Ok LInterleaved.

(* ---- a segment, the whole file ------------------------------------------------------------------------------------------------ *)

Lemma all_items_app a b : all_items (a ++ b) = all_items a ++ all_items b.
Proof. unfold all_items. rewrite map_app, concat_app. reflexivity. Qed.

Lemma segment_chunks_typed sg cur n l cur' :
  plain_layout sg ->
  segment_read_data_chunks_gen sg cur (data_objs (sg_objs sg)) n = Ok (l, cur') ->
  Forall (item_typed (data_objs (sg_objs sg)) (toc_endian (sg_toc sg))) (all_items l).
Proof.
  intros Hlay. unfold segment_read_data_chunks_gen. rewrite get_data_reader_eq.
  destruct Hlay as [Hlay|Hlay]; rewrite Hlay; cbn [mapr bind]; unfold reader_of, reader_read_data_chunks_gen;
    cbn [layout_code Z.eqb Pos.eqb]; rewrite dr_endian_flag.
  - unfold contig_read_data_chunks_gen.
    destruct (contig_read_data_chunks_gen_loop5 _ _ _ _ _ _ _) as [[ys f1]|] eqn:E5; cbn [bind]; [|discriminate].
    rewrite yield_all_1. cbn [bind app]. intros H. injection H as <- _.
    exact (contig_loop5_typed _ _ _ _ _ [] _ _ _ ltac:(constructor) E5).
  - destruct (interleaved_read_data_chunks_gen _ _ _ _) as [[ys f1]|] eqn:Ei; cbn [bind]; [|discriminate].
    rewrite yield_all_1. cbn [bind app]. intros H. injection H as <- _.
    exact (interleaved_chunks_typed _ _ _ _ _ _ Ei).
Qed.

Lemma loop2_app : forall xs ys f l f', segment_read_raw_data_gen_loop2 xs ys f = Ok (l, f') -> l = ys ++ xs.
Proof.
  induction xs as [|x xs IH]; intros ys f l f' H; cbn [segment_read_raw_data_gen_loop2] in H.
  - injection H as <- _. rewrite app_nil_r. reflexivity.
  - destruct (pf_seek f (pf_tell f)) as [f1|]; cbn [bind] in H; [|discriminate].
    rewrite (IH _ _ _ _ H), <- app_assoc. reflexivity.
Qed.

Lemma segment_raw_typed sg f l f' :
  plain_layout sg ->
  segment_read_raw_data_gen sg f = Ok (l, f') ->
  Forall (item_typed (data_objs (sg_objs sg)) (toc_endian (sg_toc sg))) (all_items l).
Proof.
  intros Hlay. unfold segment_read_raw_data_gen. cbv zeta. rewrite map_id_filter.
  set (y0 := if negb (negb (Z.land (sg_toc sg) 8 =? 0)) then Ok ([] ++ [mkRdc []]) else Ok []).
  assert (Hy : exists ys, y0 = Ok ys /\ all_items ys = []).
  { unfold y0. destruct (negb (negb (Z.land (sg_toc sg) 8 =? 0))); eexists; split; reflexivity. }
  destruct Hy as (ys & -> & Hys). cbn [bind].
  destruct (pf_seek f (sg_data sg)) as [f1|]; cbn [bind]; [|discriminate].
  unfold pf_run.
  destruct (segment_read_data_chunks_gen sg _ (data_objs (sg_objs sg)) (sg_nchunks sg)) as [[t cur']|] eqn:Es; cbn [bind]; [|discriminate].
  destruct (segment_read_raw_data_gen_loop2 t ys _) as [[l2 f2]|] eqn:E2; cbn [bind]; [|discriminate].
  intros H. injection H as <- _. rewrite (loop2_app _ _ _ _ _ E2), all_items_app, Hys. cbn [app].
  exact (segment_chunks_typed sg _ _ _ _ Hlay Es).
Qed.

Definition seg_item_typed (segs : list segment) (it : bytes * rcdc) : Prop :=
  exists g, In g segs /\ item_typed (data_objs (sg_objs g)) (toc_endian (sg_toc g)) it.

Lemma reader_loop3_typed all : forall segs f ys f' l,
    (forall g, In g segs -> In g all /\ plain_layout g) ->
    Forall (seg_item_typed all) (all_items ys) ->
    reader_read_raw_data_gen_loop3 segs f ys = Ok (f', l) -> Forall (seg_item_typed all) (all_items l).
Proof.
  induction segs as [|g segs IH]; intros f ys f' l Hall Hys H; cbn [reader_read_raw_data_gen_loop3] in H.
  - injection H as _ <-. exact Hys.
  - destruct (verify_segment_start_gen f g) as [f1|]; cbn [bind] in H; [|discriminate].
    destruct (segment_read_raw_data_gen g f1) as [[t f2]|] eqn:Es; cbn [bind] in H; [|discriminate].
    rewrite yield_all_4 in H. cbn [bind] in H.
    refine (IH _ _ _ _ (fun g' Hg' => Hall g' (or_intror Hg')) _ H).
    rewrite all_items_app. apply Forall_app. split; [exact Hys|].
    destruct (Hall g (or_introl eq_refl)) as [Hin Hlay].
    eapply Forall_impl; [|exact (segment_raw_typed g f1 t f2 Hlay Es)]. intros it Hit. exists g. split; assumption.
Qed.

Theorem reader_typed_plain segs f0 :
  (forall g, In g segs -> plain_layout g) -> reader_typed segs f0.
Proof.
  intros Hlay l f H p rc v Hin Hv. unfold reader_read_raw_data_gen in H.
  destruct (reader_read_raw_data_gen_loop3 segs f0 []) as [[f1 ys]|] eqn:E3; cbn [bind] in H; [|discriminate].
  injection H as <- _.
  pose proof (reader_loop3_typed segs segs f0 [] f1 ys (fun g Hg => conj Hg (Hlay g Hg)) ltac:(constructor) E3) as Ht.
  rewrite Forall_forall in Ht. destruct (Ht _ Hin) as (g & Hg & Hit).
  destruct (Hit v Hv) as (o & dt & Ho & Hp & Hdt & Hvt). cbn [fst] in Hp.
  exists g, o, dt. split; [exact Hg|]. split; [|repeat split; assumption].
  unfold data_objs in Ho. apply filter_In in Ho. exact (proj1 Ho).
Qed.

(* every segment of an encoded file has the contiguous or the interleaved layout *)
Lemma seg_encodes_plain g d cs : seg_encodes g d cs -> plain_layout g.
Proof.
  intros [Hd _ | css Hlay _ _ _ _ _ | nv m rows Hlay _ _ _ _ _ _ _ _ _].
  - unfold plain_layout, seg_layout, have_daqmx, have_interleaved. rewrite Hd. cbn [filter length Nat.eqb bind].
    destruct (negb (toc_has (sg_toc g) TOC_INTERLEAVED)); cbn [bind]; [left|right]; reflexivity.
  - left. exact Hlay.
  - right. exact Hlay.
Qed.

Lemma segs_encode_plain gs segs chunkss : segs_encode gs segs chunkss -> forall g, In g gs -> plain_layout g.
Proof. intros Henc g Hg. destruct (segs_encode_all _ _ _ Henc g Hg) as (s & cs & Hcs). exact (seg_encodes_plain _ _ _ Hcs). Qed.

(* ---- composition ----------------------------------------------------------- *)

Theorem run_typed_plain segs st h chunkss raw mm f0 :
  sm_run segs false = Ok st -> build_hierarchy (rs_om st) = Ok h -> segs_encode (rs_segments st) segs chunkss ->
  om_paths_canonical (rs_om st) ->
  (raw = true \/ forall c, In c (all_channels h) -> ch_dtype c <> Some dec_cls_TimeStamp) ->
  run_typed (groups_of h) raw mm (rs_segments st) f0.
Proof.
  intros Hrun Hh Henc Hcanon Hts.
  exact (run_typed_of_reader_typed segs st h chunkss raw mm f0 Hrun Hh Henc Hcanon Hts
           (reader_typed_plain _ f0 (segs_encode_plain _ _ _ Henc))).
Qed.

Theorem read_data_fits_of_wf_plain segs st h chunkss asdt raw mm p0 :
  wf_file segs -> sm_run segs false = Ok st -> build_hierarchy (rs_om st) = Ok h ->
  segs_encode (rs_segments st) segs chunkss -> om_paths_canonical (rs_om st) ->
  segs_data_ok (ser_file segs) (rs_segments st) ->
  (raw = true \/ forall c, In c (all_channels h) -> ch_dtype c <> Some dec_cls_TimeStamp) ->
  read_data_fits asdt (groups_of h) raw mm (rs_segments st) (mkPf (ser_file segs) p0).
Proof.
  intros Hwf Hrun Hh Henc Hcanon Hsegs Hts.
  apply (read_data_fits_of_wf_typed segs st h chunkss Hwf Hrun Hh Henc Hcanon asdt raw mm p0 Hsegs).
  exact (run_typed_plain segs st h chunkss raw mm _ Hrun Hh Henc Hcanon Hts).
Qed.

Theorem tdmsfile_read_data_ser_plain segs st h chunkss asdt raw mm p0 :
  wf_file segs -> sm_run segs false = Ok st -> build_hierarchy (rs_om st) = Ok h ->
  segs_encode (rs_segments st) segs chunkss -> om_paths_canonical (rs_om st) ->
  typed_objects_are_channels (rs_om st) ->
  segs_data_ok (ser_file segs) (rs_segments st) ->
  (raw = true \/ forall c, In c (all_channels h) -> ch_dtype c <> Some dec_cls_TimeStamp) ->
  exists cd rawd f recv,
    tdmsfile_read_data_gen asdt (groups_of h) [] raw mm (Some (rs_segments st)) (mkPf (ser_file segs) p0) tt
    = Ok (cd, rawd, true, f) /\
    pf_data f = ser_file segs /\
    cd_abs cd = Some recv /\ rd_eager st h (ser_file segs) = Ok recv /\
    (forall c, In c (all_channels h) -> alookup (ch_path c) recv = Some (expected_data (concat chunkss) c)) /\
    fold_left (handover_step cd) (concat (groups_of h)) (Ok []) = Ok rawd.
Proof.
  intros Hwf Hrun Hh Henc Hcanon Htyped Hsegs Hts.
  apply (tdmsfile_read_data_ser_typed segs st h chunkss Hwf Hrun Hh Henc Hcanon Htyped asdt raw mm p0 Hsegs).
  exact (run_typed_plain segs st h chunkss raw mm _ Hrun Hh Henc Hcanon Hts).
Qed.

(* ---- example: ReadCorrect.rc_file (two contiguous segments, an int32 and a string channel, three chunks) --------------------- *)
Section Example.
Import String.
Local Open Scope string_scope.

Ltac vmc t := let v := eval vm_compute in t in change t with v.
Ltac solve_small := repeat split; try reflexivity; try exact I; try (intro; discriminate); try lia.
Ltac seg_front := apply Forall_cons; [split; [cbn [sg_pos]; lia|split; [cbn [sg_data]; lia|unfold seg_data_ok; cbv zeta; split; [vm_compute; lia|]]]|].
Ltac lay := match goal with |- context [seg_layout ?s] => vmc (seg_layout s) end; cbv iota.
Ltac vml := match goal with |- Forall _ ?l => vmc l end.
Ltac contig_seg :=
  lay; split; [|split];
  [ vml; repeat (apply Forall_cons; [eexists; (split; [reflexivity|vm_compute; try exact I; reflexivity])|]); apply Forall_nil
  | intros c; vml; repeat (apply Forall_cons; [cbn [chunk_nvals so_nvals sg_final]; lia|]); apply Forall_nil
  | vm_compute; solve_small; repeat constructor ].

Lemma rc_segs_ok : segs_data_ok (ser_file rc_file) (rs_segments rc_st).
Proof.
  unfold segs_data_ok. vmc (ser_file rc_file). vmc (rs_segments rc_st).
  seg_front. { contig_seg. }
  seg_front. { contig_seg. }
  apply Forall_nil.
Qed.

Lemma rc_run_typed : run_typed (groups_of rc_h) true false (rs_segments rc_st) (mkPf (ser_file rc_file) 0).
Proof.
  exact (run_typed_plain rc_file rc_st rc_h rc_chunks true false _ rc_run rc_hier rc_encodes rc_canonical (or_introl eq_refl)).
Qed.

(* the hypotheses of tdmsfile_read_data_ser_typed hold for rc_file, and the translated run is computed *)
Example rc_read_data_gen :
  wf_file rc_file /\ sm_run rc_file false = Ok rc_st /\ build_hierarchy (rs_om rc_st) = Ok rc_h /\
  segs_encode (rs_segments rc_st) rc_file rc_chunks /\ om_paths_canonical (rs_om rc_st) /\
  typed_objects_are_channels (rs_om rc_st) /\
  segs_data_ok (ser_file rc_file) (rs_segments rc_st) /\
  run_typed (groups_of rc_h) true false (rs_segments rc_st) (mkPf (ser_file rc_file) 0) /\
  mapr (fun r => let '(cd, rawd, flag, f) := r in (cd_abs cd, map fst rawd, flag))
       (tdmsfile_read_data_gen (fun _ => Err EFuel) (groups_of rc_h) [] true false (Some (rs_segments rc_st))
                               (mkPf (ser_file rc_file) 0) tt)
  = Ok (Some [(rc_path_a, Some (CData [hex "01000000"; hex "02000000"; hex "03000000"; hex "04000000"; hex "05000000"; hex "06000000"]));
              (rc_path_b, Some (CData [hex "6162"; hex "63"; []; hex "78797a"; hex "71"; hex "7273"]))],
        [rc_path_a; rc_path_b], true).
Proof.
  split; [exact rc_wf|]. split; [exact rc_run|]. split; [exact rc_hier|]. split; [exact rc_encodes|].
  split; [exact rc_canonical|]. split; [exact rc_typed_channels|]. split; [exact rc_segs_ok|]. split; [exact rc_run_typed|].
  vm_compute. reflexivity.
Qed.
(* ReadCorrect.rc2_file: an INTERLEAVED segment (int16 and bool channel, three rows) and a metadata-only segment; read with
   raw_timestamps = False (no channel has the timestamp type) *)
Ltac inter_seg :=
  lay; split;
  [ vml; repeat (apply Forall_cons; [vm_compute; discriminate|]); apply Forall_nil
  | let o0 := fresh "o0" in let H := fresh "H" in intros o0 H; vm_compute in H; injection H as <-; vm_compute; discriminate ].

Lemma rc2_segs_ok : segs_data_ok (ser_file rc2_file) (rs_segments rc2_st).
Proof.
  unfold segs_data_ok. vmc (ser_file rc2_file). vmc (rs_segments rc2_st).
  seg_front. { inter_seg. }
  seg_front. { first [contig_seg | inter_seg]. }
  apply Forall_nil.
Qed.

Lemma rc2_no_timestamps : forall c, In c (all_channels rc2_h) -> ch_dtype c <> Some dec_cls_TimeStamp.
Proof. intros c Hc. vm_compute in Hc. repeat (destruct Hc as [<-|Hc]; [vm_compute; discriminate|]). contradiction. Qed.

Example rc2_read_data_gen :
  wf_file rc2_file /\ sm_run rc2_file false = Ok rc2_st /\ build_hierarchy (rs_om rc2_st) = Ok rc2_h /\
  segs_encode (rs_segments rc2_st) rc2_file rc2_chunks /\ om_paths_canonical (rs_om rc2_st) /\
  typed_objects_are_channels (rs_om rc2_st) /\
  segs_data_ok (ser_file rc2_file) (rs_segments rc2_st) /\
  (forall c, In c (all_channels rc2_h) -> ch_dtype c <> Some dec_cls_TimeStamp) /\
  mapr (fun r => let '(cd, rawd, flag, f) := r in (cd_abs cd, map fst rawd, flag))
       (tdmsfile_read_data_gen (fun _ => Err EFuel) (groups_of rc2_h) [] false false (Some (rs_segments rc2_st))
                               (mkPf (ser_file rc2_file) 0) tt)
  = Ok (Some [(rc_path_a, Some (CData [hex "0102"; hex "0304"; hex "0506"]));
              (rc_path_b, Some (CData [hex "01"; hex "00"; hex "01"]))],
        [rc_path_a; rc_path_b], true).
Proof.
  split; [exact rc2_wf|]. split; [exact rc2_run|]. split; [exact rc2_hier|]. split; [exact rc2_encodes|].
  split; [exact rc2_canonical|]. split; [exact rc2_typed_channels|]. split; [exact rc2_segs_ok|].
  split; [exact rc2_no_timestamps|]. vm_compute. reflexivity.
Qed.
End Example.
