(* C06, value level, layers L2 and L3: reading the BYTES of a serialised file
   cut at an arbitrary offset.

   [cut_loop]      what the metadata pass computes on the cut file, as a function
                   of the file SYNTAX and the cut offset (no bytes): segments
                   wholly before the cut are analysed as in the complete file;
                   the loop stops when fewer than 28 bytes of a lead-in are left
                   or a segment's metadata is cut (then only the version may be
                   recorded); a segment whose raw data is cut is analysed with
                   its end clamped to the cut and flagged incomplete.
   [md_loop_cut]   rd_metadata on the cut bytes IS cut_loop on the syntax.
   [cut_trace]     if the metadata pass accepts the complete file it accepts
                   every cut of it (this needs no assumption on the raw data:
                   TruncValuesLayout.cut_calculate_chunks_ok), the segment
                   records are those of the complete file up to the cut
                   ([cut_segs]), channel lengths are the sums of the per-segment
                   credits, and the per-object metadata of the cut file embeds
                   into that of the complete file ([om_ext]).
   [eager_loop_cut] the eager data pass over the cut file: complete segments by
                   ReadCorrect.read_segment_encoded, the cut one by
                   TruncValuesLayout.cut_segment_decodes.
   [truncation_values_prefix]  the composed statement (see Props/C06_values.v). *)
From Coq Require Import List ZArith Bool Lia ZifyBool.
From Coq Require Import Init.Byte.
Import ListNotations.
From NpTdms Require Import Base.Bytes Base.Res Model.Tokens Model.TokensWf Model.SegState
     Model.Layout Model.Reader Model.FileSyn Proofs.TokensRoundtrip Proofs.SegStateProofs
     Proofs.LayoutProofs Proofs.FileSynProofs Proofs.SegStateInherit Proofs.TruncProofs
     Proofs.ReadCorrect Proofs.TruncValuesLayout.
Local Open Scope Z_scope.
Ltac Zify.zify_post_hook ::= Z.to_euclidean_division_equations.

(* ======================================================================== *)
(* The metadata pass on a cut file, on syntax                                 *)
(* ======================================================================== *)

(* one segment analysed with end position [np] and incomplete flag [inc]
   (FileSynProofs.seg_step is the instance inc = false, np = exact end) *)
Definition seg_step_g (s : fseg) (inc : bool) (np : Z) (want_index : bool) (seg_pos : Z)
           (prev_seg : option (list sobj)) (prev_index : alist nat) (st : rstate)
           (k : option (list sobj) -> alist nat -> rstate -> res rstate) : res rstate :=
  let toc := fs_toc s in
  let ver := match rs_version st with Some v => Some v | None => Some (fs_version s) end in
  let st := mkRstate (rs_segments st) (rs_prev_objs st) (rs_om st) (rs_cache st) ver in
  let dp := seg_pos + 28 + blen (fs_meta_bytes s) in
  do '(objs, props) <- read_segment_objects toc (fs_meta s) (rs_prev_objs st) prev_seg;
  let '(idx, cache) :=
      match fs_meta s with
      | None => (prev_index, rs_cache st)
      | Some _ => if want_index then get_index (rs_cache st) objs else ([], rs_cache st)
      end in
  do '(nch, fin) <- calculate_chunks toc inc objs (np - dp);
  do '(po, om) <- update_object_metadata objs nch fin (rs_prev_objs st) (rs_om st);
  let om' := update_object_properties props om in
  let seg := mkSeg seg_pos toc np dp inc objs idx nch fin in
  k (Some objs) idx (mkRstate (rs_segments st ++ [seg]) po om' cache ver).

Lemma seg_step_is_g s w pos ps pi st K :
  FileSynProofs.seg_step s w pos ps pi st K =
  seg_step_g s false (pos + 28 + blen (fs_meta_bytes s) + blen (fs_data s)) w pos ps pi st K.
Proof. reflexivity. Qed.

Definition step_idx (s : fseg) (w : bool) (pi : alist nat) (st : rstate) (objs : list sobj)
  : alist nat * index_cache :=
  match fs_meta s with
  | None => (pi, rs_cache st)
  | Some _ => if w then get_index (rs_cache st) objs else ([], rs_cache st)
  end.

Definition step_seg (s : fseg) (inc : bool) (np : Z) (w : bool) (pos : Z) (pi : alist nat) (st : rstate)
           (objs : list sobj) (nch : Z) (fin : option (alist Z)) : segment :=
  mkSeg pos (fs_toc s) np (pos + 28 + blen (fs_meta_bytes s)) inc objs
        (fst (step_idx s w pi st objs)) nch fin.

Definition step_state (s : fseg) (inc : bool) (np : Z) (w : bool) (pos : Z) (pi : alist nat) (st : rstate)
           (objs : list sobj) (props : alist (list prop)) (nch : Z) (fin : option (alist Z))
           (po : alist sobj) (om : alist ometa) : rstate :=
  mkRstate (rs_segments st ++ [step_seg s inc np w pos pi st objs nch fin]) po
           (update_object_properties props om) (snd (step_idx s w pi st objs))
           (match rs_version st with Some v => Some v | None => Some (fs_version s) end).

Lemma seg_step_g_spec s inc np w pos ps pi st K :
  seg_step_g s inc np w pos ps pi st K =
  do '(objs, props) <- read_segment_objects (fs_toc s) (fs_meta s) (rs_prev_objs st) ps;
  do '(nch, fin) <- calculate_chunks (fs_toc s) inc objs (np - (pos + 28 + blen (fs_meta_bytes s)));
  do '(po, om) <- update_object_metadata objs nch fin (rs_prev_objs st) (rs_om st);
  K (Some objs) (fst (step_idx s w pi st objs))
    (step_state s inc np w pos pi st objs props nch fin po om).
Proof.
  unfold seg_step_g, step_state, step_seg, step_idx. cbv zeta.
  cbn [rs_segments rs_prev_objs rs_om rs_cache rs_version].
  destruct (read_segment_objects _ _ _ _) as [[objs props]|e]; cbn [bind]; [|reflexivity].
  destruct (match fs_meta s with
            | Some _ => _
            | None => _
            end) as [idx cache]. cbn [fst snd].
  destruct (calculate_chunks _ _ _ _) as [[nch fin]|e]; cbn [bind]; [|reflexivity].
  destruct (update_object_metadata _ _ _ _ _) as [[po om]|e]; cbn [bind]; reflexivity.
Qed.

Lemma seg_step_g_ext s inc np w seg_pos ps pi st k k' :
  (forall o i st', k o i st' = k' o i st') ->
  seg_step_g s inc np w seg_pos ps pi st k = seg_step_g s inc np w seg_pos ps pi st k'.
Proof. intros Hk. rewrite !seg_step_g_spec.
  destruct (read_segment_objects _ _ _ _) as [[objs props]|e]; cbn [bind]; [|reflexivity].
  destruct (calculate_chunks _ _ _ _) as [[nch fin]|e]; cbn [bind]; [|reflexivity].
  destruct (update_object_metadata _ _ _ _ _) as [[po om]|e]; cbn [bind]; [|reflexivity].
  apply Hk.
Qed.

Fixpoint cut_loop (segs : list fseg) (k : Z) (w : bool) (seg_pos : Z)
         (prev_seg : option (list sobj)) (prev_index : alist nat) (st : rstate) : res rstate :=
  match segs with
  | [] => Ok st
  | s :: r =>
    let dp := seg_pos + 28 + blen (fs_meta_bytes s) in
    let np := dp + blen (fs_data s) in
    if k <? seg_pos + 28 then Ok st
    else if k <? dp then Ok (set_version st (fs_version s))
    else if k <? np then seg_step_g s true k w seg_pos prev_seg prev_index st (fun _ _ st' => Ok st')
    else seg_step_g s false np w seg_pos prev_seg prev_index st
                    (fun o i st' => cut_loop r k w np o i st')
  end.

Lemma blen_take_le_len n (x : bytes) : blen (take n x) <= blen x.
Proof. rewrite take_firstn. unfold blen. rewrite firstn_length. lia. Qed.

Lemma md_loop_at_end f src ii fsz w pos sp ps pi st :
  blen src <= pos -> md_loop (S f) src ii fsz w pos sp ps pi st = Ok st.
Proof.
  intros H. rewrite md_loop_eq. cbv zeta. unfold read_at. rewrite drop_all by exact H.
  rewrite take_nil. reflexivity.
Qed.

(* the cut segment: like FileSynProofs.md_loop_step, for a file that ends inside
   the segment's raw data *)
Lemma md_loop_step_cut s pre src f k w ps pi st :
  wf_fseg s = true ->
  blen pre + 28 + blen (fs_meta_bytes s) <= k < blen pre + 28 + blen (fs_meta_bytes s) + blen (fs_data s) ->
  src = pre ++ ser_leadin (seg_leadin TAG_DATA s) ++ fs_meta_bytes s
            ++ take (k - (blen pre + 28 + blen (fs_meta_bytes s))) (fs_data s) ->
  md_loop (S f) src false (Some k) w (blen pre) (blen pre) ps pi st =
  seg_step_g s true k w (blen pre) ps pi st
             (fun o i st' => md_loop f src false (Some k) w k k o i st').
Proof.
  intros Hwf Hk Hsrc.
  pose proof (wf_seg_leadin false s Hwf) as HwfL. change (tag_of false) with TAG_DATA in HwfL.
  pose proof (ser_leadin_length _ HwfL) as HlenL.
  set (L := seg_leadin TAG_DATA s) in *.
  set (m := fs_meta_bytes s) in *.
  set (d' := take (k - (blen pre + 28 + blen m)) (fs_data s)) in *.
  assert (Hrd : read_at (blen pre) 28 src = ser_leadin L).
  { rewrite Hsrc. apply read_at_app_len. exact HlenL. }
  assert (Hdrop : drop (blen pre + 28) src = m ++ d').
  { rewrite Hsrc. rewrite app_assoc. apply drop_app_len. rewrite blen_app. lia. }
  pose proof (blen_nonneg m) as Hm0.
  pose proof (blen_nonneg (fs_data s)) as Hd0.
  assert (Hlen : blen m + blen (fs_data s) < 0xFFFFFFFFFFFFFFFF).
  { unfold wf_fseg in Hwf. fold m in Hwf. lia. }
  assert (Hnext : l_next L <> 0xFFFFFFFFFFFFFFFF).
  { unfold L, seg_leadin. cbn [l_next]. fold m. lia. }
  rewrite md_loop_eq. cbv zeta.
  rewrite Hrd, HlenL, Z.ltb_irrefl.
  rewrite (parse_leadin_ser L HwfL). cbn [bind].
  pose proof (lead_positions_cut (blen pre) L k Hnext) as Hlp. cbv zeta in Hlp. rewrite Hlp. clear Hlp.
  unfold L, seg_leadin. cbn [l_tag l_toc l_version l_next l_raw]. fold m.
  replace (k <? blen pre + (blen m + blen (fs_data s)) + 28) with true by lia.
  replace (k <? blen pre + 28 + blen m) with false by lia.
  change (bytes_eqb TAG_DATA TAG_DATA) with true. cbn [negb bind].
  rewrite Hdrop.
  unfold seg_step_g. cbv zeta. fold m.
  assert (Hflag : match fs_meta s with
                  | Some es => toc_has (fs_toc s) TOC_META = true /\ wf_metadata es = true
                  | None => toc_has (fs_toc s) TOC_META = false
                  end).
  { clear - Hwf. unfold wf_fseg in Hwf. apply andb_prop in Hwf. destruct Hwf as [_ Hwf].
    destruct (fs_meta s).
    - apply andb_prop in Hwf. exact Hwf.
    - apply negb_true_iff in Hwf. exact Hwf. }
  unfold m at 1. unfold fs_meta_bytes.
  destruct (fs_meta s) as [es|] eqn:Hmeta.
  - destruct Hflag as [Hflag Hes]. rewrite Hflag.
    rewrite (parse_metadata_ser _ es _ Hes). cbn [bind]. reflexivity.
  - rewrite Hflag. cbn [bind]. reflexivity.
Qed.

Lemma md_loop_cut : forall segs pre fuel k w ps pi st,
    wf_file segs ->
    blen pre <= k <= blen pre + blen (ser_file segs) ->
    k - blen pre < 28 * (Z.of_nat fuel - 1) ->
    md_loop fuel (take k (pre ++ ser_file segs)) false (Some k) w (blen pre) (blen pre) ps pi st
    = cut_loop segs k w (blen pre) ps pi st.
Proof.
  induction segs as [|s r IH]; intros pre fuel k w ps pi st Hwf Hk Hfuel.
  - change (ser_file []) with (@nil byte) in *. change (blen []) with 0 in Hk.
    destruct fuel as [|f]; [lia|]. cbn [cut_loop]. apply md_loop_at_end.
    assert (Hk0 : 0 <= k) by (pose proof (blen_nonneg pre); lia).
    pose proof (blen_take_le k (pre ++ []) Hk0). lia.
  - unfold wf_file in Hwf. cbn [forallb] in Hwf. apply andb_prop in Hwf. destruct Hwf as [Hs Hr].
    pose proof (wf_seg_leadin false s Hs) as HwfL. change (tag_of false) with TAG_DATA in HwfL.
    pose proof (ser_leadin_length _ HwfL) as HlenL.
    set (L := seg_leadin TAG_DATA s) in *.
    rewrite (blen_ser_file_cons s r Hs) in Hk.
    pose proof (blen_nonneg (fs_meta_bytes s)) as Hm0.
    pose proof (blen_nonneg (fs_data s)) as Hd0.
    pose proof (blen_nonneg (ser_file r)) as Hr0.
    assert (Hfile : pre ++ ser_file (s :: r)
                    = pre ++ ser_leadin L ++ fs_meta_bytes s ++ fs_data s ++ ser_file r).
    { rewrite ser_file_cons, ser_seg_eq. fold L. rewrite <- !app_assoc. reflexivity. }
    cbn [cut_loop].
    destruct (k <? blen pre + 28) eqn:E1.
    + (* fewer than 28 bytes of the lead-in are left *)
      destruct fuel as [|f]; [lia|]. rewrite md_loop_eq. cbv zeta.
      assert (Hshort : blen (read_at (blen pre) 28 (take k (pre ++ ser_file (s :: r)))) < 28).
      { rewrite take_app_ge by lia. unfold read_at. rewrite drop_app_exact.
        pose proof (blen_take_le_len 28 (take (k - blen pre) (ser_file (s :: r)))).
        assert (Hk0 : 0 <= k - blen pre) by lia.
        pose proof (blen_take_le (k - blen pre) (ser_file (s :: r)) Hk0). lia. }
      replace (blen (read_at (blen pre) 28 (take k (pre ++ ser_file (s :: r)))) <? 28) with true by lia.
      reflexivity.
    + destruct (k <? blen pre + 28 + blen (fs_meta_bytes s)) eqn:E2.
      * (* the lead-in is there, the metadata is not: EOF, only the version is recorded *)
        destruct fuel as [|f]; [lia|].
        assert (Hsrc : take k (pre ++ ser_file (s :: r))
                       = pre ++ ser_leadin L ++
                             take (k - blen pre - 28) (fs_meta_bytes s ++ fs_data s ++ ser_file r)).
        { rewrite Hfile. rewrite take_app_ge by lia. f_equal. rewrite take_app_ge by lia.
          rewrite HlenL. reflexivity. }
        rewrite Hsrc. rewrite md_loop_eq. cbv zeta.
        rewrite (read_at_app_len pre (ser_leadin L) _ 28 HlenL).
        rewrite HlenL, Z.ltb_irrefl. rewrite (parse_leadin_ser L HwfL). cbn [bind].
        assert (Hnext : l_next L <> 0xFFFFFFFFFFFFFFFF).
        { unfold L, seg_leadin. cbn [l_next]. unfold wf_fseg in Hs. lia. }
        pose proof (lead_positions_cut (blen pre) L k Hnext) as Hlp. cbv zeta in Hlp. rewrite Hlp. clear Hlp.
        unfold L, seg_leadin. cbn [l_tag l_toc l_version l_next l_raw].
        replace (k <? blen pre + (blen (fs_meta_bytes s) + blen (fs_data s)) + 28) with true by lia.
        rewrite E2. change (bytes_eqb TAG_DATA TAG_DATA) with true. cbn [negb bind].
        reflexivity.
      * destruct (k <? blen pre + 28 + blen (fs_meta_bytes s) + blen (fs_data s)) eqn:E3.
        -- (* the cut is inside the raw data *)
           destruct fuel as [|[|f]]; [lia|lia|].
           assert (Hsrc : take k (pre ++ ser_file (s :: r))
                          = pre ++ ser_leadin L ++ fs_meta_bytes s
                                ++ take (k - (blen pre + 28 + blen (fs_meta_bytes s))) (fs_data s)).
           { rewrite Hfile. rewrite take_app_ge by lia. f_equal. rewrite take_app_ge by lia.
             rewrite HlenL. f_equal. rewrite take_app_ge by lia. f_equal.
             rewrite take_app_le by lia. f_equal. lia. }
           assert (Hkd : blen pre + 28 + blen (fs_meta_bytes s) <= k
                         < blen pre + 28 + blen (fs_meta_bytes s) + blen (fs_data s)) by lia.
           rewrite (md_loop_step_cut s pre _ (S f) k w ps pi st Hs Hkd Hsrc).
           apply seg_step_g_ext. intros o i st'. apply md_loop_at_end.
           rewrite Hsrc, !blen_app, HlenL, blen_take by lia. lia.
        -- (* the whole segment lies before the cut *)
           destruct fuel as [|f]; [lia|].
           assert (Hsrc : take k (pre ++ ser_file (s :: r))
                          = pre ++ ser_seg (tag_of false) (negb false) s
                                ++ take (k - (blen pre + 28 + blen (fs_meta_bytes s) + blen (fs_data s)))
                                        (ser_file r)).
           { rewrite ser_file_cons. change (tag_of false) with TAG_DATA. cbn [negb].
             rewrite take_app_ge by lia. f_equal.
             rewrite take_app_ge by (change TAG_DATA with (tag_of false); change true with (negb false);
                                     rewrite (blen_ser_seg false s Hs); lia).
             f_equal. f_equal.
             change TAG_DATA with (tag_of false). change true with (negb false).
             rewrite (blen_ser_seg false s Hs). lia. }
           rewrite (md_loop_step s false pre _ _ f k w (blen pre) ps pi st Hs Hsrc) by lia.
           rewrite seg_step_is_g. apply seg_step_g_ext. intros o i st'. cbv iota.
           replace (take k (pre ++ ser_file (s :: r)))
             with (take k ((pre ++ ser_seg TAG_DATA true s) ++ ser_file r))
             by (rewrite <- app_assoc; reflexivity).
           assert (Hb : blen (pre ++ ser_seg TAG_DATA true s)
                        = blen pre + 28 + blen (fs_meta_bytes s) + blen (fs_data s)).
           { rewrite blen_app. change TAG_DATA with (tag_of false). change true with (negb false).
             rewrite (blen_ser_seg false s Hs). lia. }
           rewrite <- Hb. apply IH; [exact Hr|lia|lia].
Qed.

Theorem rd_metadata_cut segs k w :
  wf_file segs -> 0 <= k <= blen (ser_file segs) ->
  rd_metadata (take k (ser_file segs)) false (Some k) w = cut_loop segs k w 0 None [] rstate0.
Proof.
  intros Hwf Hk. unfold rd_metadata.
  apply (md_loop_cut segs [] _ k w None [] rstate0 Hwf).
  - change (blen []) with 0. lia.
  - change (blen []) with 0. pose proof (blen_take k (ser_file segs) Hk) as Hb. unfold blen in Hb. lia.
Qed.

(* ======================================================================== *)
(* Per-object metadata: what does not depend on the chunk counts              *)
(* ======================================================================== *)

(* relation between two ordered dictionaries with the same keys in the same order *)
Definition al_rel {V W} (R : V -> W -> Prop) (x : alist V) (y : alist W) : Prop :=
  Forall2 (fun a b => fst a = fst b /\ R (snd a) (snd b)) x y.

Lemma al_rel_lookup {V W} (R : V -> W -> Prop) x y k :
  al_rel R x y ->
  match alookup k x, alookup k y with
  | Some a, Some b => R a b
  | None, None => True
  | _, _ => False
  end.
Proof.
  induction 1 as [|[k1 a] [k2 b] x y [Hk Hr] _ IH]; [exact I|].
  cbn [fst snd] in Hk, Hr. subst k2. cbn [alookup].
  destruct (bytes_eqb k k1); [exact Hr|exact IH].
Qed.

Lemma al_rel_aset {V W} (R : V -> W -> Prop) x y k a b :
  al_rel R x y -> R a b -> al_rel R (aset k a x) (aset k b y).
Proof.
  intros H Hab. induction H as [|[k1 a1] [k2 b1] x y [Hk Hr] Hxy IH].
  - constructor; [split; [reflexivity|exact Hab]|constructor].
  - cbn [fst snd] in Hk, Hr. subst k2. cbn [aset].
    destruct (bytes_eqb k k1).
    + constructor; [split; [reflexivity|exact Hab]|exact Hxy].
    + constructor; [split; [reflexivity|exact Hr]|exact IH].
Qed.

Lemma al_rel_refl {V} (R : V -> V -> Prop) x : (forall a, R a a) -> al_rel R x x.
Proof. intros H. induction x as [|[k a] x IH]; constructor; [split; [reflexivity|apply H]|exact IH]. Qed.

Lemma al_rel_sym {V W} (R : V -> W -> Prop) x y :
  al_rel R x y -> al_rel (fun b a => R a b) y x.
Proof. induction 1 as [|a b x y [Hk Hr] _ IH]; constructor; [split; [symmetry; exact Hk|exact Hr]|exact IH]. Qed.

Lemma al_rel_keys {V W} (R : V -> W -> Prop) x y : al_rel R x y -> map fst x = map fst y.
Proof. induction 1 as [|a b x y [Hk _] _ IH]; [reflexivity|]. cbn [map]. rewrite Hk, IH. reflexivity. Qed.

(* everything but the length *)
Definition ometa_sim (a b : ometa) : Prop :=
  om_props a = om_props b /\ om_dtype a = om_dtype b /\ om_scalers a = om_scalers b.

Definition om_sim : alist ometa -> alist ometa -> Prop := al_rel ometa_sim.

Lemma ometa_sim_refl a : ometa_sim a a.
Proof. repeat split. Qed.

Lemma om_sim_refl x : om_sim x x.
Proof. apply al_rel_refl. exact ometa_sim_refl. Qed.

Lemma om_sim_sym x y : om_sim x y -> om_sim y x.
Proof.
  intros H. apply al_rel_sym in H. eapply Forall2_imp; [|exact H].
  intros a b [Hk (H1 & H2 & H3)]. split; [exact Hk|]. repeat split; symmetry; assumption.
Qed.

Lemma om_sim_get x y p : om_sim x y -> ometa_sim (get_ometa p x) (get_ometa p y).
Proof.
  intros H. pose proof (al_rel_lookup ometa_sim x y p H) as Hl. unfold get_ometa.
  destruct (alookup p x), (alookup p y); try contradiction; [exact Hl|apply ometa_sim_refl].
Qed.

Lemma update_ometa_sim m m' o n f n' f' m1 :
  ometa_sim m m' -> update_ometa m o n f = Ok m1 ->
  exists m2, update_ometa m' o n' f' = Ok m2 /\ ometa_sim m1 m2.
Proof.
  intros (Hp & Hd & Hs). unfold update_ometa. cbv zeta. rewrite <- Hd, <- Hs, <- Hp.
  destruct (_ && _); [discriminate|].
  destruct (so_daqmx o) as [q|].
  - destruct (om_scalers m) as [st0|].
    + destruct (scaler_types_eqb st0 (scaler_types q)); [|discriminate].
      intros H. injection H as <-. eexists. split; [reflexivity|]. repeat split.
    + intros H. injection H as <-. eexists. split; [reflexivity|]. repeat split.
  - intros H. injection H as <-. eexists. split; [reflexivity|]. repeat split.
Qed.

Lemma uom_sim : forall objs n f n' f' prev om om' po om1,
    om_sim om om' ->
    update_object_metadata objs n f prev om = Ok (po, om1) ->
    exists om2, update_object_metadata objs n' f' prev om' = Ok (po, om2) /\ om_sim om1 om2.
Proof.
  induction objs as [|o objs IH]; intros n f n' f' prev om om' po om1 Hsim H.
  - cbn [update_object_metadata] in *. injection H as <- <-. exists om'. split; [reflexivity|exact Hsim].
  - cbn [update_object_metadata] in *.
    destruct (update_ometa (get_ometa (so_path o) om) o n f) as [m1|e] eqn:Em; cbn [bind] in H; [|discriminate].
    destruct (update_ometa_sim _ _ o n f n' f' m1 (om_sim_get om om' (so_path o) Hsim) Em)
      as (m2 & Em2 & Hm).
    rewrite Em2. cbn [bind].
    apply (IH n f n' f' _ _ _ po om1 (al_rel_aset ometa_sim om om' (so_path o) m1 m2 Hsim Hm) H).
Qed.

Lemma uop_sim props : forall om om',
    om_sim om om' -> om_sim (update_object_properties props om) (update_object_properties props om').
Proof.
  unfold update_object_properties.
  induction props as [|[k ps] props IH]; intros om om' H; [exact H|].
  cbn [fold_left fst snd]. apply IH. apply al_rel_aset; [exact H|].
  destruct (om_sim_get om om' k H) as (H1 & H2 & H3).
  unfold set_props, ometa_sim. cbn [om_props om_dtype om_scalers]. rewrite H1. repeat split; assumption.
Qed.

(* [y] knows every object [x] knows, with the same data type once one is set *)
Definition om_ext (x y : alist ometa) : Prop :=
  forall p m, alookup p x = Some m ->
              exists m', alookup p y = Some m' /\ (om_dtype m <> None -> om_dtype m' = om_dtype m).

Lemma om_ext_refl x : om_ext x x.
Proof. intros p m H. exists m. split; [exact H|reflexivity]. Qed.

Lemma om_ext_trans x y z : om_ext x y -> om_ext y z -> om_ext x z.
Proof.
  intros H1 H2 p m Hm. destruct (H1 p m Hm) as (m1 & Hm1 & Hd1).
  destruct (H2 p m1 Hm1) as (m2 & Hm2 & Hd2). exists m2. split; [exact Hm2|].
  intros Hty. rewrite <- (Hd1 Hty). apply Hd2. rewrite (Hd1 Hty). exact Hty.
Qed.

Lemma om_sim_ext x y : om_sim x y -> om_ext x y.
Proof.
  intros H p m Hm. pose proof (al_rel_lookup ometa_sim x y p H) as Hl. rewrite Hm in Hl.
  destruct (alookup p y) as [m'|]; [|contradiction]. exists m'. split; [reflexivity|].
  intros _. destruct Hl as (_ & Hd & _). symmetry. exact Hd.
Qed.

Lemma uom_ext : forall objs n f prev om po om1,
    update_object_metadata objs n f prev om = Ok (po, om1) -> om_ext om om1.
Proof.
  induction objs as [|o objs IH]; intros n f prev om po om1 H.
  - cbn [update_object_metadata] in H. injection H as _ <-. apply om_ext_refl.
  - cbn [update_object_metadata] in H.
    destruct (update_ometa (get_ometa (so_path o) om) o n f) as [m1|e] eqn:Em; cbn [bind] in H; [|discriminate].
    apply (om_ext_trans _ (aset (so_path o) m1 om)); [|exact (IH _ _ _ _ _ _ H)].
    intros p m Hm. rewrite alookup_aset. destruct (bytes_eqb p (so_path o)) eqn:E.
    + apply bytes_eqb_eq in E. subst p. exists m1. split; [reflexivity|].
      intros Hty. destruct (update_ometa_dtype _ _ _ _ _ Em) as [_ Hd]. rewrite Hd.
      * unfold get_ometa. rewrite Hm. reflexivity.
      * unfold get_ometa. rewrite Hm. exact Hty.
    + exists m. split; [exact Hm|reflexivity].
Qed.

Lemma uop_ext props : forall om, om_ext om (update_object_properties props om).
Proof.
  unfold update_object_properties.
  induction props as [|[k ps] props IH]; intros om; [apply om_ext_refl|].
  cbn [fold_left fst snd]. eapply om_ext_trans; [|apply IH].
  intros p m Hm. rewrite alookup_aset. destruct (bytes_eqb p k) eqn:E.
  - apply bytes_eqb_eq in E. subst k. eexists. split; [reflexivity|].
    intros _. unfold get_ometa. rewrite Hm. reflexivity.
  - exists m. split; [exact Hm|reflexivity].
Qed.

(* one successful step of the complete run, destructured *)
Lemma sm_loop_cons_spec s r w pos ps pi st stf :
  sm_loop (s :: r) w pos ps pi st = Ok stf ->
  exists objs props nch fin po om,
    read_segment_objects (fs_toc s) (fs_meta s) (rs_prev_objs st) ps = Ok (objs, props) /\
    calculate_chunks (fs_toc s) false objs
                     (pos + 28 + blen (fs_meta_bytes s) + blen (fs_data s)
                      - (pos + 28 + blen (fs_meta_bytes s))) = Ok (nch, fin) /\
    update_object_metadata objs nch fin (rs_prev_objs st) (rs_om st) = Ok (po, om) /\
    sm_loop r w (pos + 28 + blen (fs_meta_bytes s) + blen (fs_data s)) (Some objs)
            (fst (step_idx s w pi st objs))
            (step_state s false (pos + 28 + blen (fs_meta_bytes s) + blen (fs_data s)) w pos pi st
                        objs props nch fin po om) = Ok stf.
Proof.
  rewrite sm_loop_cons, seg_step_is_g, seg_step_g_spec.
  destruct (read_segment_objects _ _ _ _) as [[objs props]|e] eqn:Ero; cbn [bind]; [|discriminate].
  destruct (calculate_chunks _ _ _ _) as [[nch fin]|e] eqn:Ecc; cbn [bind]; [|discriminate].
  destruct (update_object_metadata _ _ _ _ _) as [[po om]|e] eqn:Eum; cbn [bind]; [|discriminate].
  intros H. exists objs, props, nch, fin, po, om. repeat split; assumption.
Qed.

Lemma sm_loop_om_ext : forall segs w pos ps pi st stf,
    sm_loop segs w pos ps pi st = Ok stf -> om_ext (rs_om st) (rs_om stf).
Proof.
  induction segs as [|s r IH]; intros w pos ps pi st stf H.
  - rewrite sm_loop_nil in H. injection H as <-. apply om_ext_refl.
  - destruct (sm_loop_cons_spec _ _ _ _ _ _ _ _ H) as (objs & props & nch & fin & po & om & Hro & Hcc & Hum & Hloop).
    apply IH in Hloop. cbn [step_state rs_om] in Hloop.
    eapply om_ext_trans; [exact (uom_ext _ _ _ _ _ _ _ Hum)|].
    eapply om_ext_trans; [apply uop_ext|exact Hloop].
Qed.

(* ======================================================================== *)
(* The segment records of the cut file                                        *)
(* ======================================================================== *)

(* [gc] is the record of the segment [g] of the complete file, cut at file offset [k] *)
Definition cut_of (g : segment) (k : Z) (gc : segment) : Prop :=
  sg_pos gc = sg_pos g /\ sg_toc gc = sg_toc g /\ sg_data gc = sg_data g /\
  sg_next gc = k /\ sg_incomplete gc = true /\ sg_objs gc = sg_objs g /\
  calculate_chunks (sg_toc g) true (sg_objs g) (k - sg_data g) = Ok (sg_nchunks gc, sg_final gc).

(* [cut_segs pos segs k gs gsc n]: of the records [gs] of the complete file
   (syntax [segs], starting at [pos]) the cut file has [gsc]: the first [n]
   unchanged, then possibly one cut record *)
Inductive cut_segs : Z -> list fseg -> Z -> list segment -> list segment -> nat -> Prop :=
| cs_nil pos k : cut_segs pos [] k [] [] 0
| cs_stop pos s r k g gs :
    k < pos + 28 + blen (fs_meta_bytes s) -> cut_segs pos (s :: r) k (g :: gs) [] 0
| cs_data pos s r k g gs gc :
    pos + 28 + blen (fs_meta_bytes s) <= k < pos + fseg_len s ->
    cut_of g k gc -> cut_segs pos (s :: r) k (g :: gs) [gc] 0
| cs_whole pos s r k g gs gsc n :
    pos + fseg_len s <= k ->
    cut_segs (pos + fseg_len s) r k gs gsc n -> cut_segs pos (s :: r) k (g :: gs) (g :: gsc) (S n).

(* number of segments lying wholly before the cut *)
Fixpoint whole_count (pos : Z) (segs : list fseg) (k : Z) : nat :=
  match segs with
  | [] => 0
  | s :: r => if k <? pos + fseg_len s then 0 else S (whole_count (pos + fseg_len s) r k)
  end.

Lemma cut_segs_count pos segs k gs gsc n :
  cut_segs pos segs k gs gsc n -> n = whole_count pos segs k.
Proof.
  induction 1 as [pos k|pos s r k g gs Hk|pos s r k g gs gc Hk Hc|pos s r k g gs gsc n Hk _ IH];
    cbn [whole_count].
  - reflexivity.
  - pose proof (blen_nonneg (fs_data s)). unfold fseg_len.
    replace (k <? pos + (28 + blen (fs_meta_bytes s) + blen (fs_data s))) with true by lia. reflexivity.
  - replace (k <? pos + fseg_len s) with true by lia. reflexivity.
  - replace (k <? pos + fseg_len s) with false by lia. rewrite IH. reflexivity.
Qed.

Lemma set_version_om st v : rs_om (set_version st v) = rs_om st.
Proof. reflexivity. Qed.
Lemma set_version_segments st v : rs_segments (set_version st v) = rs_segments st.
Proof. reflexivity. Qed.

(* Everything the later steps need about the metadata pass on the cut file,
   given that it succeeds on the complete file; one induction. *)
Lemma cut_trace : forall segs w k pos ps pi st stf,
    sm_loop segs w pos ps pi st = Ok stf ->
    exists stc gs gsc n,
      cut_loop segs k w pos ps pi st = Ok stc /\
      rs_segments stf = rs_segments st ++ gs /\
      segs_at pos segs gs /\
      rs_segments stc = rs_segments st ++ gsc /\
      cut_segs pos segs k gs gsc n /\
      (forall p, om_len (get_ometa p (rs_om stc)) =
                 om_len (get_ometa p (rs_om st)) + zsum (map (seg_total p) gsc)) /\
      (NoDup (map fst (rs_om st)) -> NoDup (map fst (rs_om stc))) /\
      (forall p, (om_typed p (rs_om st) \/
                  exists g o, In g gsc /\ In o (sg_objs g) /\ so_path o = p /\ so_dtype o <> None) ->
                 om_typed p (rs_om stc)) /\
      om_ext (rs_om stc) (rs_om stf).
Proof.
  induction segs as [|s r IH]; intros w k pos ps pi st stf H.
  - rewrite sm_loop_nil in H. injection H as <-. exists st, [], [], 0%nat.
    rewrite !app_nil_r. repeat split; try constructor; try reflexivity.
    + intros p. cbn [map zsum fold_right]. lia.
    + tauto.
    + intros p [Hp|(g & o & [] & _)]. exact Hp.
    + apply om_ext_refl.
  - pose proof (sm_loop_trace _ _ _ _ _ _ _ H) as (gs & Hsegs & Hat & _).
    pose proof (sm_loop_om_ext _ _ _ _ _ _ _ H) as Hext.
    destruct (sm_loop_cons_spec _ _ _ _ _ _ _ _ H)
      as (objs & props & nch & fin & po & om & Hro & Hcc & Hum & Hloop).
    set (dp := pos + 28 + blen (fs_meta_bytes s)) in *.
    set (np := dp + blen (fs_data s)) in *.
    pose proof (blen_nonneg (fs_meta_bytes s)) as Hm0.
    pose proof (blen_nonneg (fs_data s)) as Hd0.
    inversion Hat as [|pos' s' r' g1 gs1 Hg1 Hat1]; subst pos' s' r' gs.
    (* the cases in which the loop stops before this segment *)
    assert (Hstop : forall stc, rs_om stc = rs_om st -> rs_segments stc = rs_segments st ->
                                k < dp ->
                                cut_loop (s :: r) k w pos ps pi st = Ok stc ->
                                exists stc gs gsc n,
                                  cut_loop (s :: r) k w pos ps pi st = Ok stc /\
                                  rs_segments stf = rs_segments st ++ gs /\
                                  segs_at pos (s :: r) gs /\
                                  rs_segments stc = rs_segments st ++ gsc /\
                                  cut_segs pos (s :: r) k gs gsc n /\
                                  (forall p, om_len (get_ometa p (rs_om stc)) =
                                             om_len (get_ometa p (rs_om st)) + zsum (map (seg_total p) gsc)) /\
                                  (NoDup (map fst (rs_om st)) -> NoDup (map fst (rs_om stc))) /\
                                  (forall p, (om_typed p (rs_om st) \/
                                              exists g o, In g gsc /\ In o (sg_objs g) /\ so_path o = p /\
                                                          so_dtype o <> None) ->
                                             om_typed p (rs_om stc)) /\
                                  om_ext (rs_om stc) (rs_om stf)).
    { intros stc Hom Hsg Hk Hcut. exists stc, (g1 :: gs1), [], 0%nat.
      rewrite Hom, Hsg, app_nil_r.
      split; [exact Hcut|]. split; [exact Hsegs|]. split; [exact Hat|]. split; [reflexivity|].
      split; [apply cs_stop; exact Hk|].
      split; [intros p; cbn [map zsum fold_right]; lia|]. split; [tauto|].
      split; [intros p [Hp|(g & o & [] & _)]; exact Hp|exact Hext]. }
    destruct (Z_lt_le_dec k dp) as [Hlt|Hge].
    { destruct (k <? pos + 28) eqn:E1.
      - apply (Hstop st); [reflexivity|reflexivity|exact Hlt|].
        cbn [cut_loop]. rewrite E1. reflexivity.
      - apply (Hstop (set_version st (fs_version s))); [reflexivity|reflexivity|exact Hlt|].
        cbn [cut_loop]. fold dp. rewrite E1. replace (k <? dp) with true by lia. reflexivity. }
    clear Hstop. cbn [cut_loop]. fold dp np.
    replace (k <? pos + 28) with false by lia. replace (k <? dp) with false by lia.
    destruct (k <? np) eqn:E3.
    + (* the cut is inside this segment's raw data *)
      assert (Hj : 0 <= k - dp <= np - dp) by lia.
      destruct (cut_calculate_chunks_ok _ false true objs (np - dp) (k - dp) _ Hcc Hj) as [[nch' fin'] Hcc'].
      destruct (uom_sim objs nch fin nch' fin' _ _ _ po om (om_sim_refl _) Hum) as (om2 & Hum' & Hsim).
      rewrite seg_step_g_spec, Hro. cbn [bind]. fold dp. rewrite Hcc'. cbn [bind]. rewrite Hum'. cbn [bind].
      eexists. exists (g1 :: gs1), [step_seg s true k w pos pi st objs nch' fin'], 0%nat.
      split; [reflexivity|]. split; [exact Hsegs|]. split; [exact Hat|].
      split; [reflexivity|].
      assert (Hg1eq : g1 = step_seg s false np w pos pi st objs nch fin).
      { apply sm_loop_trace in Hloop. destruct Hloop as (gs' & Hsegs' & _).
        cbn [step_state rs_segments] in Hsegs'. rewrite Hsegs', <- app_assoc in Hsegs.
        apply app_inv_head in Hsegs. cbn [app] in Hsegs. injection Hsegs as <- _. reflexivity. }
      split.
      { apply cs_data; [unfold fseg_len; lia|]. rewrite Hg1eq. unfold cut_of, step_seg.
        cbn [sg_pos sg_toc sg_data sg_next sg_incomplete sg_objs sg_nchunks sg_final].
        repeat split. exact Hcc'. }
      cbn [step_state rs_om rs_segments].
      split.
      { intros p. rewrite update_object_properties_len.
        rewrite (update_object_metadata_len _ _ _ _ _ _ _ Hum' p).
        cbn [map zsum fold_right]. unfold seg_total, step_seg. cbn [sg_objs sg_nchunks sg_final]. lia. }
      split.
      { intros Hnd0. apply update_object_properties_nodup.
        apply (update_object_metadata_nodup _ _ _ _ _ _ _ Hum'). exact Hnd0. }
      split.
      { intros p Hp. apply update_object_properties_typed.
        apply (update_object_metadata_typed _ _ _ _ _ _ _ Hum' p).
        destruct Hp as [Hp|(g & o & [<-|[]] & Ho & Hpath & Hty)]; [left; exact Hp|].
        right. exists o. split; [exact Ho|]. split; assumption. }
      apply sm_loop_om_ext in Hloop. cbn [step_state rs_om] in Hloop.
      eapply om_ext_trans; [|exact Hloop]. apply om_sim_ext. apply uop_sim. apply om_sim_sym. exact Hsim.
    + (* the whole segment lies before the cut *)
      rewrite seg_step_g_spec, Hro. cbn [bind]. fold dp. rewrite Hcc. cbn [bind].
      rewrite Hum. cbn [bind].
      destruct (IH w k _ _ _ _ _ Hloop)
        as (stc & gs' & gsc & n & Hcut & Hsegs' & Hat' & Hsegsc & Hcs & Hlen & Hnd & Htyped & Hext').
      cbn [step_state rs_segments rs_om] in Hsegs', Hsegsc, Hlen, Hnd, Htyped.
      assert (Hgs : g1 :: gs1 = step_seg s false np w pos pi st objs nch fin :: gs').
      { rewrite Hsegs', <- app_assoc in Hsegs. apply app_inv_head in Hsegs. symmetry. exact Hsegs. }
      injection Hgs as Hg1eq Hgs1. subst gs1.
      exists stc, (g1 :: gs'), (g1 :: gsc), (S n).
      split; [exact Hcut|]. split; [exact Hsegs|]. split; [exact Hat|].
      split; [rewrite Hsegsc, <- app_assoc, Hg1eq; reflexivity|].
      split; [apply cs_whole; [unfold fseg_len; lia|]; unfold fseg_len;
              replace (pos + (28 + blen (fs_meta_bytes s) + blen (fs_data s))) with np by lia; exact Hcs|].
      split.
      { intros p. rewrite Hlen, update_object_properties_len.
        rewrite (update_object_metadata_len _ _ _ _ _ _ _ Hum p).
        cbn [map zsum fold_right]. rewrite Hg1eq. unfold seg_total at 2, step_seg.
        cbn [sg_objs sg_nchunks sg_final]. fold (zsum (map (seg_total p) gsc)). lia. }
      split.
      { intros Hnd0. apply Hnd. apply update_object_properties_nodup.
        apply (update_object_metadata_nodup _ _ _ _ _ _ _ Hum). exact Hnd0. }
      split; [|exact Hext'].
      intros p Hp. apply Htyped.
      destruct Hp as [Hp|(g & o & [<-|Hg] & Ho & Hpath & Hty)].
      * left. apply update_object_properties_typed.
        apply (update_object_metadata_typed _ _ _ _ _ _ _ Hum p). left. exact Hp.
      * left. apply update_object_properties_typed.
        apply (update_object_metadata_typed _ _ _ _ _ _ _ Hum p). right.
        rewrite Hg1eq in Ho. cbn [step_seg sg_objs] in Ho. exists o. split; [exact Ho|]. split; assumption.
      * right. exists g, o. split; [exact Hg|]. split; [exact Ho|]. split; assumption.
Qed.

(* ======================================================================== *)
(* The eager data pass over the cut file                                      *)
(* ======================================================================== *)

(* reader._verify_segment_start + the cursor position: a segment record whose
   position and data position are those of syntax segment [s] written after
   [pre], whatever follows the metadata *)
Lemma read_segment_at pre s X gc :
  wf_fseg s = true ->
  sg_pos gc = blen pre -> sg_data gc = blen pre + 28 + blen (fs_meta_bytes s) ->
  read_segment (pre ++ ser_leadin (seg_leadin TAG_DATA s) ++ fs_meta_bytes s ++ X) gc =
  (do '(cs, _) <- read_segment_chunks gc X; Ok cs).
Proof.
  intros Hwf Hpos Hdata.
  pose proof (wf_seg_leadin false s Hwf) as HwfL. change (tag_of false) with TAG_DATA in HwfL.
  pose proof (ser_leadin_length _ HwfL) as HlenL.
  unfold read_segment.
  set (L := seg_leadin TAG_DATA s) in *. set (m := fs_meta_bytes s) in *.
  assert (Htag : read_at (sg_pos gc) 4 (pre ++ ser_leadin L ++ m ++ X) = TAG_DATA).
  { rewrite Hpos. unfold ser_leadin. unfold L at 1. unfold seg_leadin at 1. cbn [l_tag].
    rewrite <- !app_assoc. apply read_at_app_len. reflexivity. }
  rewrite Htag. change (bytes_eqb TAG_DATA TAG_DATA) with true. cbn [negb].
  assert (Hdrop : drop (sg_data gc) (pre ++ ser_leadin L ++ m ++ X) = X).
  { replace (pre ++ ser_leadin L ++ m ++ X) with ((pre ++ ser_leadin L ++ m) ++ X)
      by (rewrite <- !app_assoc; reflexivity).
    rewrite Hdata. rewrite <- (app_nil_r X) at 1. rewrite drop_app_len; [apply app_nil_r|].
    rewrite !blen_app, HlenL. lia. }
  rewrite Hdrop. reflexivity.
Qed.

Lemma radd_nil_lookup (recv : alist (option cdata)) p :
  alookup p recv = option_map (radd []) (alookup p recv).
Proof. destruct (alookup p recv) as [x|]; cbn [option_map]; [rewrite radd_nil|]; reflexivity. Qed.

Lemma blen_ser_seg_data s :
  wf_fseg s = true -> blen (ser_seg TAG_DATA true s) = fseg_len s.
Proof.
  intros Hs. change TAG_DATA with (tag_of false). change true with (negb false).
  rewrite (blen_ser_seg false s Hs). unfold fseg_len. reflexivity.
Qed.

Lemma eager_loop_cut : forall pos segs k gs gsc n,
    cut_segs pos segs k gs gsc n ->
    forall chunkss pre,
      wf_file segs -> pos = blen pre ->
      segs_at pos segs gs -> segs_encode gs segs chunkss ->
      exists chunks_c,
        (forall recv,
            (forall c kv, In c chunks_c -> In kv c -> is_data_receiver (alookup (fst kv) recv)) ->
            exists recv', fold_left (eager_step (take k (pre ++ ser_file segs))) gsc (Ok recv) = Ok recv' /\
                          forall p, alookup p recv' =
                                    option_map (radd (chan_values p chunks_c)) (alookup p recv)) /\
        (forall c kv, In c chunks_c -> In kv c ->
                      exists g o, In g gsc /\ In o (sg_objs g) /\ so_path o = fst kv /\ so_dtype o <> None) /\
        (forall p, is_prefix (chan_values p chunks_c) (chan_values p (concat chunkss))) /\
        (forall p, is_prefix (chan_values p (concat (firstn n chunkss))) (chan_values p chunks_c)) /\
        (forall p, zsum (map (seg_total p) gsc) = Z.of_nat (length (chan_values p chunks_c))).
Proof.
  induction 1 as [pos k|pos s r k g gs Hk|pos s r k g gs gc Hk Hc|pos s r k g gs gsc n Hk Hcs IH];
    intros chunkss pre Hwf Hpos Hat Henc.
  - exists []. split; [|split; [|split; [|split]]].
    + intros recv _. exists recv. split; [reflexivity|]. intros p. apply radd_nil_lookup.
    + intros c kv [].
    + intros p. apply is_prefix_nil.
    + intros p. destruct chunkss; apply is_prefix_refl.
    + intros p. reflexivity.
  - exists []. split; [|split; [|split; [|split]]].
    + intros recv _. exists recv. split; [reflexivity|]. intros p. apply radd_nil_lookup.
    + intros c kv [].
    + intros p. apply is_prefix_nil.
    + intros p. apply is_prefix_refl.
    + intros p. reflexivity.
  - (* the cut segment *)
    inversion Hat as [|pos' s' r' g' gs' Hg Hat']; subst pos' s' r' g' gs'.
    inversion Henc as [|g' gs' s' r' cs css Hcs Henc']; subst g' gs' s' r' chunkss.
    unfold wf_file in Hwf. cbn [forallb] in Hwf. apply andb_prop in Hwf. destruct Hwf as [Hs Hr].
    destruct Hc as (Hcp & Hct & Hcd & Hcn & Hci & Hco & Hcc).
    destruct Hg as (Hgp & Hgt & Hgd & Hgn & Hgi & Hgcc).
    unfold fseg_len in Hk.
    assert (Hj : 0 <= k - sg_data g < blen (fs_data s)) by (rewrite Hgd; lia).
    destruct (cut_segment_decodes g gc (fs_data s) cs (k - sg_data g) Hcs Hj Hct Hco Hcc)
      as (chunks' & lo & Hread & Hcd' & Hkeys & Hpre & Hcount).
    exists chunks'. split; [|split; [|split; [|split]]].
    + intros recv Hb. cbn [fold_left]. unfold eager_step. cbn [bind].
      pose proof (wf_seg_leadin false s Hs) as HwfL. change (tag_of false) with TAG_DATA in HwfL.
      pose proof (ser_leadin_length _ HwfL) as HlenL.
      pose proof (blen_nonneg (fs_meta_bytes s)) as Hm0.
      assert (Hbytes : take k (pre ++ ser_file (s :: r))
                       = pre ++ ser_leadin (seg_leadin TAG_DATA s) ++ fs_meta_bytes s
                             ++ take (k - sg_data g) (fs_data s)).
      { rewrite ser_file_cons, ser_seg_eq. rewrite <- !app_assoc.
        rewrite take_app_ge by lia. f_equal. rewrite take_app_ge by lia.
        rewrite HlenL. f_equal. rewrite take_app_ge by lia. f_equal.
        rewrite take_app_le by lia. f_equal. lia. }
      rewrite Hbytes, (read_segment_at pre s _ gc Hs) by lia. rewrite Hread. cbn [bind].
      exact (receive_chunks_concat chunks' recv Hcd' Hb).
    + intros c kv Hc Hkv. destruct (Hkeys c kv Hc Hkv) as (o & Ho & Hp & Hty).
      exists gc, o. split; [left; reflexivity|]. rewrite Hco. split; [exact Ho|]. split; assumption.
    + intros p. cbn [concat]. rewrite chan_values_app. apply is_prefix_app_r. apply Hpre.
    + intros p. cbn [firstn concat]. apply is_prefix_nil.
    + intros p. cbn [map zsum fold_right]. rewrite <- Hcount. lia.
  - (* a segment wholly before the cut *)
    inversion Hat as [|pos' s' r' g' gs' Hg Hat']; subst pos' s' r' g' gs'.
    inversion Henc as [|g' gs' s' r' cs css Hcs' Henc']; subst g' gs' s' r' chunkss.
    unfold wf_file in Hwf. cbn [forallb] in Hwf. apply andb_prop in Hwf. destruct Hwf as [Hs Hr].
    pose proof (blen_ser_seg_data s Hs) as Hbs.
    destruct (IH css (pre ++ ser_seg TAG_DATA true s) Hr) as (cc & Hrun & Hkeys & Hpre & Hlow & Hcount);
      [rewrite blen_app, Hbs; lia|exact Hat'|exact Henc'|].
    set (data := take k (pre ++ ser_file (s :: r))) in *.
    assert (Hd2 : take k ((pre ++ ser_seg TAG_DATA true s) ++ ser_file r) = data).
    { unfold data. rewrite ser_file_cons, <- app_assoc. reflexivity. }
    rewrite Hd2 in Hrun.
    assert (Hread : read_segment data g = Ok cs).
    { pose proof (blen_nonneg (fs_meta_bytes s)) as Hm0. pose proof (blen_nonneg (fs_data s)) as Hd0.
      unfold fseg_len in Hk, Hbs.
      unfold data. rewrite ser_file_cons. rewrite take_app_ge by lia.
      rewrite take_app_ge by (rewrite Hbs; lia).
      rewrite Hpos in Hg. exact (read_segment_encoded pre s _ g cs Hs Hg Hcs'). }
    exists (cs ++ cc). split; [|split; [|split; [|split]]].
    + intros recv Hb. cbn [fold_left]. unfold eager_step at 2. cbn [bind]. rewrite Hread. cbn [bind].
      destruct (receive_chunks_concat cs recv (seg_encodes_only_cdata _ _ _ Hcs')) as (recv1 & H1 & Hlk1).
      { intros c kv Hc Hin. apply (Hb c kv); [apply in_or_app; left; exact Hc|exact Hin]. }
      rewrite H1.
      destruct (Hrun recv1) as (recv' & H2 & Hlk2).
      { intros c kv Hc Hin. rewrite Hlk1. apply is_data_receiver_radd.
        apply (Hb c kv); [apply in_or_app; right; exact Hc|exact Hin]. }
      exists recv'. split; [exact H2|]. intros p. rewrite Hlk2, Hlk1, chan_values_app.
      destruct (alookup p recv) as [x|]; cbn [option_map]; [|reflexivity].
      rewrite radd_app. reflexivity.
    + intros c kv Hc Hkv. apply in_app_or in Hc. destruct Hc as [Hc|Hc].
      * destruct (seg_encodes_keys g _ cs Hcs' c kv Hc Hkv) as (o & Ho & Hp & Hty).
        exists g, o. split; [left; reflexivity|]. split; [exact Ho|]. split; assumption.
      * destruct (Hkeys c kv Hc Hkv) as (g0 & o & Hg0 & Ho & Hp & Hty).
        exists g0, o. split; [right; exact Hg0|]. split; [exact Ho|]. split; assumption.
    + intros p. cbn [concat]. rewrite !chan_values_app. apply is_prefix_app_l. apply Hpre.
    + intros p. cbn [firstn concat]. rewrite !chan_values_app. apply is_prefix_app_l. apply Hlow.
    + intros p. cbn [map zsum fold_right]. fold (zsum (map (seg_total p) gsc)).
      rewrite Hcount, chan_values_app, app_length, Nat2Z.inj_add.
      destruct Hg as (_ & _ & _ & _ & _ & Hgcc).
      rewrite (seg_encodes_count g (fs_data s) cs p Hcs' Hgcc). reflexivity.
Qed.

(* the observation, given the metadata pass, the hierarchy and the receivers' run *)
Theorem rd_all_assemble data st h chunks :
  rd_metadata data false (Some (blen data)) false = Ok st ->
  build_hierarchy (rs_om st) = Ok h ->
  (forall recv,
      (forall c kv, In c chunks -> In kv c -> is_data_receiver (alookup (fst kv) recv)) ->
      exists recv', fold_left (eager_step data) (rs_segments st) (Ok recv) = Ok recv' /\
                    forall p, alookup p recv' = option_map (radd (chan_values p chunks)) (alookup p recv)) ->
  data_paths_are_channels h chunks ->
  no_daqmx_channels h ->
  channel_paths_distinct h ->
  lengths_consistent h chunks ->
  rd_all data = Ok (expected_tokens st h chunks, true).
Proof.
  intros Hmd Hh Hrun Hpaths Hnd Hdist Hlen.
  unfold rd_all, rd_all_from. rewrite Hmd. cbn [bind]. rewrite Hh. cbn [bind].
  rewrite rd_eager_fold.
  destruct (recv0_fold (all_channels h) [] Hnd Hdist) as (recv0 & H0 & Hin0 & _).
  rewrite H0. cbn [bind].
  destruct (Hrun recv0) as (recv & Hfold & Hlk).
  { intros c kv Hc Hkv. destruct (Hpaths c kv Hc Hkv) as (ch & Hch & Hp & Hty).
    rewrite <- Hp, (Hin0 ch Hch). unfold recv_init.
    destruct (ch_dtype ch); [|contradiction]. eexists. reflexivity. }
  rewrite Hfold. cbn [bind]. unfold expected_tokens. f_equal. f_equal.
  - f_equal. f_equal. apply obs_hierarchy_ext. intros c Hc. rewrite Hlk, (Hin0 c Hc).
    cbn [option_map]. unfold recv_init, expected_data. destruct (ch_dtype c); reflexivity.
  - apply forallb_forall. intros c Hc. rewrite Hlk, (Hin0 c Hc). cbn [option_map].
    unfold recv_init. destruct (ch_dtype c) as [dt|] eqn:Edt; [|reflexivity].
    cbn [radd cdata_consistent app]. apply Z.eqb_eq. apply Hlen; [exact Hc|]. rewrite Edt. discriminate.
Qed.

(* ======================================================================== *)
(* The hierarchy of the cut file                                              *)
(* ======================================================================== *)

Definition key_parses (p : bytes) : Prop := forall e, path_from_string p <> inl e.

Lemma hier_scan_ok : forall om root gp gc,
    (forall p m, In (p, m) om -> key_parses p) -> exists x, hier_scan om root gp gc = Ok x.
Proof.
  induction om as [|[p m] om IH]; intros root gp gc H.
  - eexists. reflexivity.
  - rewrite hier_scan_cons.
    assert (Hr : forall p0 m0, In (p0, m0) om -> key_parses p0)
      by (intros p0 m0 Hin; apply (H p0 m0); right; exact Hin).
    pose proof (H p m (or_introl eq_refl)) as Hp. unfold key_parses in Hp.
    destruct (path_from_string p) as [e|[[g|] [c|]]]; [exfalso; exact (Hp e eq_refl)|..]; apply IH; exact Hr.
Qed.

Lemma hier_scan_parses : forall om root gp gc x,
    hier_scan om root gp gc = Ok x -> forall p m, In (p, m) om -> key_parses p.
Proof.
  induction om as [|[p0 m0] om IH]; intros root gp gc x H p m Hin; [contradiction|].
  rewrite hier_scan_cons in H. destruct Hin as [Heq|Hin].
  - injection Heq as -> ->. intros e E. rewrite E in H. discriminate.
  - destruct (path_from_string p0) as [e|[[g|] [c|]]]; try discriminate; exact (IH _ _ _ _ H p m Hin).
Qed.

Lemma build_hierarchy_parses om h :
  build_hierarchy om = Ok h -> forall p m, In (p, m) om -> key_parses p.
Proof.
  unfold build_hierarchy. cbv zeta.
  destruct (hier_scan om _ [] []) as [x|e] eqn:E; cbn [bind]; [|discriminate].
  intros _. exact (hier_scan_parses _ _ _ _ _ E).
Qed.

Lemma build_hierarchy_ok om :
  (forall p m, In (p, m) om -> key_parses p) -> exists h, build_hierarchy om = Ok h.
Proof.
  intros H. unfold build_hierarchy. cbv zeta.
  destruct (hier_scan_ok om (match alookup [SB] om with Some m => om_props m | None => [] end) [] [] H)
    as [[[root gp] gc] E].
  rewrite E. cbn [bind]. eexists. reflexivity.
Qed.

Lemma In_alookup_some {V} (k : bytes) (v : V) (l : alist V) :
  In (k, v) l -> exists v', alookup k l = Some v'.
Proof.
  induction l as [|[k' v'] l IH]; intros H; [contradiction|]. cbn [alookup].
  destruct (bytes_eqb k k') eqn:E; [eexists; reflexivity|].
  destruct H as [Heq|H]; [|exact (IH H)].
  injection Heq as -> ->. rewrite bytes_eqb_refl in E. discriminate.
Qed.

Lemma om_ext_in x y p m : om_ext x y -> In (p, m) x -> exists m', In (p, m') y.
Proof.
  intros He Hin. destruct (In_alookup_some p m x Hin) as [m0 Hm0].
  destruct (He p m0 Hm0) as (m' & Hm' & _). exists m'. apply alookup_In. exact Hm'.
Qed.

Lemma om_ext_canonical x y : om_ext x y -> om_paths_canonical y -> om_paths_canonical x.
Proof.
  intros He Hc p m g c Hin Hp. destruct (om_ext_in x y p m He Hin) as [m' Hin'].
  exact (Hc p m' g c Hin' Hp).
Qed.

Lemma om_ext_typed_channels x y :
  NoDup (map fst x) -> om_ext x y -> typed_objects_are_channels y -> typed_objects_are_channels x.
Proof.
  intros Hnd He Hs p m Hin Hty. pose proof (alookup_in_nodup p m x Hnd Hin) as Hm.
  destruct (He p m Hm) as (m' & Hm' & Hd). apply (Hs p m' (alookup_In _ _ _ Hm')).
  rewrite (Hd Hty). exact Hty.
Qed.

Lemma om_ext_parses x y h :
  om_ext x y -> build_hierarchy y = Ok h -> forall p m, In (p, m) x -> key_parses p.
Proof.
  intros He Hh p m Hin. destruct (om_ext_in x y p m He Hin) as [m' Hin'].
  exact (build_hierarchy_parses y h Hh p m' Hin').
Qed.

(* ======================================================================== *)
(* L3: file_status of the cut file                                            *)
(* ======================================================================== *)

(* the cut falls inside the raw data of some segment: data position <= k < end *)
Fixpoint cut_in_data (pos : Z) (segs : list fseg) (k : Z) : bool :=
  match segs with
  | [] => false
  | s :: r =>
    ((pos + 28 + blen (fs_meta_bytes s) <=? k) && (k <? pos + fseg_len s))
    || cut_in_data (pos + fseg_len s) r k
  end.

Definition last_inc (l : list segment) : bool :=
  match rev l with [] => false | g :: _ => sg_incomplete g end.

Lemma cut_in_data_before segs : forall pos k, k < pos -> cut_in_data pos segs k = false.
Proof.
  induction segs as [|s r IH]; intros pos k H; [reflexivity|]. cbn [cut_in_data].
  pose proof (blen_nonneg (fs_meta_bytes s)). pose proof (blen_nonneg (fs_data s)).
  rewrite IH by (unfold fseg_len; lia). replace (_ <=? k) with false by lia. reflexivity.
Qed.

Lemma last_inc_cons g l : l <> [] -> last_inc (g :: l) = last_inc l.
Proof.
  intros Hl. unfold last_inc. cbn [rev]. destruct (rev l) as [|x t] eqn:E.
  - apply (f_equal (@rev segment)) in E. rewrite rev_involutive in E. contradiction.
  - reflexivity.
Qed.

Lemma cut_segs_last pos segs k gs gsc n :
  cut_segs pos segs k gs gsc n -> segs_at pos segs gs -> last_inc gsc = cut_in_data pos segs k.
Proof.
  induction 1 as [pos k|pos s r k g gs Hk|pos s r k g gs gc Hk Hc|pos s r k g gs gsc n Hk Hcs IH];
    intros Hat.
  - reflexivity.
  - cbn [cut_in_data]. pose proof (blen_nonneg (fs_data s)).
    rewrite cut_in_data_before by (unfold fseg_len; lia).
    replace (_ <=? k) with false by lia. reflexivity.
  - cbn [cut_in_data]. destruct Hc as (_ & _ & _ & _ & Hi & _).
    unfold last_inc. cbn [rev app]. rewrite Hi.
    replace (_ <=? k) with true by lia. replace (k <? pos + fseg_len s) with true by lia. reflexivity.
  - inversion Hat as [|pos' s' r' g' gs' Hg Hat']; subst pos' s' r' g' gs'.
    cbn [cut_in_data]. replace (k <? pos + fseg_len s) with false by lia. rewrite andb_false_r. cbn [orb].
    destruct gsc as [|g2 gsc].
    + destruct Hg as (_ & _ & _ & _ & Hi & _). unfold last_inc. cbn [rev app]. rewrite Hi.
      symmetry. inversion Hcs as [pos0 k0|pos0 s0 r0 k0 g0 gs0 Hk0| |]; subst.
      * reflexivity.
      * cbn [cut_in_data]. pose proof (blen_nonneg (fs_data s0)).
        rewrite cut_in_data_before by (unfold fseg_len in *; lia).
        replace (_ <=? k) with false by lia. reflexivity.
    + rewrite last_inc_cons by discriminate. apply IH. exact Hat'.
Qed.

Lemma obs_status_head st :
  exists rest, obs_status st = TZ (if last_inc (rs_segments st) then 1 else 0) :: rest.
Proof.
  unfold obs_status, last_inc. destruct (rev (rs_segments st)) as [|g t].
  - eexists. reflexivity.
  - eexists. reflexivity.
Qed.

(* ======================================================================== *)
(* L2 + L3 composed: reading a cut file                                       *)
(* ======================================================================== *)

Theorem cut_read_core segs st h chunkss k :
  wf_file segs ->
  sm_run segs false = Ok st ->
  build_hierarchy (rs_om st) = Ok h ->
  segs_encode (rs_segments st) segs chunkss ->
  om_paths_canonical (rs_om st) ->
  typed_objects_are_channels (rs_om st) ->
  0 <= k <= blen (ser_file segs) ->
  exists stc hc chunks_c,
    cut_loop segs k false 0 None [] rstate0 = Ok stc /\
    build_hierarchy (rs_om stc) = Ok hc /\
    rd_all (take k (ser_file segs)) = Ok (expected_tokens stc hc chunks_c, true) /\
    (forall p, is_prefix (chan_values p chunks_c) (chan_values p (concat chunkss))) /\
    (forall p, is_prefix (chan_values p (concat (firstn (whole_count 0 segs k) chunkss)))
                         (chan_values p chunks_c)) /\
    (forall c, In c (all_channels hc) ->
               ch_len c = Z.of_nat (length (chan_values (ch_path c) chunks_c))) /\
    last_inc (rs_segments stc) = cut_in_data 0 segs k.
Proof.
  intros Hwf Hrun Hh Henc Hcanon Hshape Hk.
  pose proof Hrun as Hrun0. unfold sm_run in Hrun.
  destruct (cut_trace segs false k 0 None [] rstate0 st Hrun)
    as (stc & gs & gsc & n & Hcut & Hsegs & Hat & Hsegsc & Hcs & Hlen & Hnd & Htyped & Hext).
  cbn [rstate0 rs_segments rs_om app] in Hsegs, Hsegsc, Hlen, Hnd, Htyped.
  pose proof Henc as Henc0. rewrite Hsegs in Henc.
  destruct (eager_loop_cut 0 segs k gs gsc n Hcs chunkss [] Hwf eq_refl Hat Henc)
    as (cc & Hrunc & Hkeys & Hpre & Hlow & Hcount).
  cbn [app] in Hrunc.
  specialize (Hnd (NoDup_nil _)).
  destruct (sm_run_trace segs false st Hrun0) as (_ & _ & Hndfull & _).
  pose proof (om_ext_canonical _ _ Hext Hcanon) as Hcanonc.
  pose proof (om_ext_typed_channels _ _ Hnd Hext Hshape) as Hshapec.
  destruct (build_hierarchy_ok (rs_om stc) (om_ext_parses _ _ h Hext Hh)) as [hc Hhc].
  rewrite <- (cut_segs_count _ _ _ _ _ _ Hcs).
  assert (Hlens : forall c, In c (all_channels hc) ->
                            ch_len c = Z.of_nat (length (chan_values (ch_path c) cc))).
  { intros c Hc.
    destruct (chan_from_om_canonical _ c Hcanonc (build_hierarchy_channels _ _ Hhc c Hc))
      as (m & Hin & _ & _ & Hl).
    pose proof (alookup_in_nodup _ m (rs_om stc) Hnd Hin) as Hlk.
    rewrite Hl, <- Hcount. specialize (Hlen (ch_path c)). unfold get_ometa in Hlen.
    rewrite Hlk in Hlen. cbn [alookup ometa0 om_len] in Hlen. lia. }
  exists stc, hc, cc. split; [exact Hcut|]. split; [exact Hhc|].
  split; [|split; [exact Hpre|split; [exact Hlow|split; [exact Hlens|]]]].
  - apply rd_all_assemble.
    + rewrite blen_take by exact Hk. rewrite (rd_metadata_cut segs k false Hwf Hk). exact Hcut.
    + exact Hhc.
    + rewrite Hsegsc. exact Hrunc.
    + intros c kv Hc Hkv. destruct (Hkeys c kv Hc Hkv) as (g & o & Hg & Ho & Hp & Hty).
      destruct (Htyped (so_path o)) as (m & Hm & Hmty).
      { right. exists g, o. split; [exact Hg|]. split; [exact Ho|]. split; [reflexivity|exact Hty]. }
      apply alookup_In in Hm. destruct (Hshapec _ m Hm Hmty) as (gn & cn & Hparse).
      exists (chan_of_om gn cn m). split; [|split].
      * exact (build_hierarchy_complete _ hc _ m gn cn Hhc Hnd Hcanonc Hm Hparse).
      * change (path_to_string (Some gn) (Some cn) = fst kv).
        rewrite (Hcanonc _ m gn cn Hm Hparse). exact Hp.
      * exact Hmty.
    + intros ch Hch Hdt.
      destruct (build_hierarchy_channels _ _ Hhc ch Hch) as (pstr & m & Hin & Hparse & Heq).
      assert (Hm : om_dtype m = Some T_DAQMX) by (rewrite <- Hdt, Heq; reflexivity).
      pose proof (alookup_in_nodup pstr m _ Hnd Hin) as Hlk.
      destruct (Hext pstr m Hlk) as (m' & Hm' & Hd).
      apply alookup_In in Hm'.
      pose proof (build_hierarchy_complete _ h pstr m' _ _ Hh Hndfull Hcanon Hm' Hparse) as Hchf.
      apply (no_daqmx_channels_ser segs false st h chunkss Hrun0 Hh Henc0 _ Hchf).
      cbn [chan_of_om ch_dtype]. rewrite Hd; [exact Hm|]. rewrite Hm. discriminate.
    + exact (channel_paths_distinct_ser _ hc Hhc Hcanonc).
    + intros c Hc _. symmetry. apply Hlens. exact Hc.
  - rewrite Hsegsc. exact (cut_segs_last _ _ _ _ _ _ Hcs Hat).
Qed.

(* ======================================================================== *)
(* The hierarchy of the cut file is that of the segments whose metadata lies  *)
(* wholly before the cut, up to channel lengths                               *)
(* ======================================================================== *)

(* number of segments whose lead-in and metadata lie wholly before the cut
   (the segment that contains the cut counts when the cut is in its raw data) *)
Fixpoint meta_count (pos : Z) (segs : list fseg) (k : Z) : nat :=
  match segs with
  | [] => 0
  | s :: r =>
    let dp := pos + 28 + blen (fs_meta_bytes s) in
    let np := dp + blen (fs_data s) in
    if k <? dp then 0 else if k <? np then 1 else S (meta_count np r k)
  end.

Lemma cut_prefix_sim : forall segs w k pos ps pi st stf stc,
    sm_loop segs w pos ps pi st = Ok stf ->
    cut_loop segs k w pos ps pi st = Ok stc ->
    exists stp, sm_loop (firstn (meta_count pos segs k) segs) w pos ps pi st = Ok stp /\
                om_sim (rs_om stc) (rs_om stp).
Proof.
  induction segs as [|s r IH]; intros w k pos ps pi st stf stc H Hcut.
  - cbn [cut_loop] in Hcut. injection Hcut as <-. exists st. split; [reflexivity|apply om_sim_refl].
  - destruct (sm_loop_cons_spec _ _ _ _ _ _ _ _ H)
      as (objs & props & nch & fin & po & om & Hro & Hcc & Hum & Hloop).
    pose proof (blen_nonneg (fs_meta_bytes s)) as Hm0.
    pose proof (blen_nonneg (fs_data s)) as Hd0.
    cbn [cut_loop meta_count] in *.
    destruct (k <? pos + 28 + blen (fs_meta_bytes s)) eqn:E2.
    + exists st. split; [reflexivity|].
      destruct (k <? pos + 28); injection Hcut as <-; apply om_sim_refl.
    + replace (k <? pos + 28) with false in Hcut by lia.
      destruct (k <? pos + 28 + blen (fs_meta_bytes s) + blen (fs_data s)) eqn:E3.
      * rewrite seg_step_g_spec, Hro in Hcut. cbn [bind] in Hcut.
        destruct (calculate_chunks _ true _ _) as [[nch' fin']|e]; cbn [bind] in Hcut; [|discriminate].
        destruct (update_object_metadata objs nch' fin' _ _) as [[po' om2]|e] eqn:Hum';
          cbn [bind] in Hcut; [|discriminate].
        injection Hcut as <-.
        destruct (uom_sim objs nch' fin' nch fin _ _ _ po' om2 (om_sim_refl _) Hum') as (om3 & Hum3 & Hsim).
        rewrite Hum in Hum3. injection Hum3 as <- <-.
        eexists. split.
        -- cbn [firstn]. rewrite sm_loop_cons, seg_step_is_g, seg_step_g_spec, Hro. cbn [bind].
           rewrite Hcc. cbn [bind]. rewrite Hum. cbn [bind]. rewrite sm_loop_nil. reflexivity.
        -- cbn [step_state rs_om]. apply uop_sim. exact Hsim.
      * rewrite seg_step_g_spec, Hro in Hcut. cbn [bind] in Hcut. rewrite Hcc in Hcut. cbn [bind] in Hcut.
        rewrite Hum in Hcut. cbn [bind] in Hcut.
        destruct (IH _ _ _ _ _ _ _ _ Hloop Hcut) as (stp & Hp & Hsim).
        exists stp. split; [|exact Hsim].
        cbn [firstn]. rewrite sm_loop_cons, seg_step_is_g, seg_step_g_spec, Hro. cbn [bind].
        rewrite Hcc. cbn [bind]. rewrite Hum. cbn [bind]. exact Hp.
Qed.

Definition chan_sim (a b : channel) : Prop :=
  ch_group a = ch_group b /\ ch_name a = ch_name b /\ ch_path a = ch_path b /\
  ch_dtype a = ch_dtype b /\ ch_scalers a = ch_scalers b /\ ch_props a = ch_props b.

Definition group_sim (a b : group) : Prop :=
  g_name a = g_name b /\ g_props a = g_props b /\ al_rel chan_sim (g_chans a) (g_chans b).

(* the same root properties, the same groups in the same order with the same
   properties, the same channels in the same order with the same names, paths,
   data types, scaler types and properties: everything but len(channel) *)
Definition hier_sim (a b : hierarchy) : Prop :=
  h_root a = h_root b /\ al_rel group_sim (h_groups a) (h_groups b).

Lemma chan_of_om_sim g c m m' : ometa_sim m m' -> chan_sim (chan_of_om g c m) (chan_of_om g c m').
Proof.
  intros (Hp & Hd & Hs). unfold chan_sim, chan_of_om.
  cbn [ch_group ch_name ch_path ch_dtype ch_scalers ch_props]. repeat split; assumption.
Qed.

Lemma hier_scan_sim : forall om om',
    om_sim om om' ->
    forall root gp gc gc' r gp1 gc1,
      al_rel (Forall2 chan_sim) gc gc' ->
      hier_scan om root gp gc = Ok (r, gp1, gc1) ->
      exists gc1', hier_scan om' root gp gc' = Ok (r, gp1, gc1') /\ al_rel (Forall2 chan_sim) gc1 gc1'.
Proof.
  induction 1 as [|[p m] [p' m'] om om' [Hk Hm] _ IH]; intros root gp gc gc' r gp1 gc1 Hgc H.
  - cbn [hier_scan] in *. injection H as <- <- <-. exists gc'. split; [reflexivity|exact Hgc].
  - cbn [fst snd] in Hk, Hm. subst p'. rewrite hier_scan_cons in H. rewrite hier_scan_cons.
    destruct (path_from_string p) as [e|[[g|] [c|]]]; try discriminate.
    + refine (IH _ _ _ _ _ _ _ _ H). apply al_rel_aset; [exact Hgc|].
      apply Forall2_app; [|constructor; [apply chan_of_om_sim; exact Hm|constructor]].
      pose proof (al_rel_lookup _ gc gc' g Hgc) as Hl.
      destruct (alookup g gc), (alookup g gc'); try contradiction; [exact Hl|constructor].
    + destruct Hm as (Hp & _ & _). rewrite <- Hp. exact (IH _ _ _ _ _ _ _ Hgc H).
    + exact (IH _ _ _ _ _ _ _ Hgc H).
    + exact (IH _ _ _ _ _ _ _ Hgc H).
Qed.

Lemma chans_dict_sim l l' : Forall2 chan_sim l l' -> al_rel chan_sim (chans_dict l) (chans_dict l').
Proof.
  unfold chans_dict. intros H.
  assert (G : forall acc acc', al_rel chan_sim acc acc' ->
                               al_rel chan_sim (fold_left (fun acc c => aset (ch_name c) c acc) l acc)
                                      (fold_left (fun acc c => aset (ch_name c) c acc) l' acc')).
  { induction H as [|x y l l' Hxy _ IH]; intros acc acc' Hacc; [exact Hacc|].
    cbn [fold_left]. apply IH. destruct Hxy as (H1 & H2 & H3).
    rewrite <- H2. apply al_rel_aset; [exact Hacc|]. split; [exact H1|]. split; [exact H2|exact H3]. }
  apply G. constructor.
Qed.

Lemma lookup_list_sim (gc gc' : alist (list channel)) k :
  al_rel (Forall2 chan_sim) gc gc' ->
  Forall2 chan_sim (match alookup k gc with Some l => l | None => [] end)
          (match alookup k gc' with Some l => l | None => [] end).
Proof.
  intros H. pose proof (al_rel_lookup _ gc gc' k H) as Hl.
  destruct (alookup k gc), (alookup k gc'); try contradiction; [exact Hl|constructor].
Qed.

Lemma declared_sim (gc gc' : alist (list channel)) (gp : alist (alist prop)) :
  al_rel (Forall2 chan_sim) gc gc' ->
  al_rel group_sim
         (map (fun kv => (fst kv, mkGroup (fst kv) (snd kv)
                                          (chans_dict (match alookup (fst kv) gc with Some l => l | None => [] end))))
              gp)
         (map (fun kv => (fst kv, mkGroup (fst kv) (snd kv)
                                          (chans_dict (match alookup (fst kv) gc' with Some l => l | None => [] end))))
              gp).
Proof.
  intros H. induction gp as [|[k ps] gp IH]; [constructor|].
  cbn [map fst snd]. constructor; [|exact IH]. cbn [fst snd]. split; [reflexivity|].
  split; [reflexivity|]. split; [reflexivity|]. cbn [g_chans].
  apply chans_dict_sim. apply lookup_list_sim. exact H.
Qed.

Lemma groups_fold_sim : forall (rest rest' : alist (list channel)),
    al_rel (Forall2 chan_sim) rest rest' ->
    forall acc acc', al_rel group_sim acc acc' ->
      al_rel group_sim
             (fold_left (fun acc kv =>
                           match alookup (fst kv) acc with
                           | Some _ => acc
                           | None => acc ++ [(fst kv, mkGroup (fst kv) [] (chans_dict (snd kv)))]
                           end) rest acc)
             (fold_left (fun acc kv =>
                           match alookup (fst kv) acc with
                           | Some _ => acc
                           | None => acc ++ [(fst kv, mkGroup (fst kv) [] (chans_dict (snd kv)))]
                           end) rest' acc').
Proof.
  induction 1 as [|[k l] [k' l'] rest rest' [Hk Hl] _ IH]; intros acc acc' Hacc; [exact Hacc|].
  cbn [fst snd] in Hk, Hl. subst k'. cbn [fold_left fst snd]. apply IH.
  pose proof (al_rel_lookup _ acc acc' k Hacc) as Hlk.
  destruct (alookup k acc), (alookup k acc'); try contradiction; [exact Hacc|].
  apply Forall2_app; [exact Hacc|]. constructor; [|constructor]. cbn [fst snd].
  split; [reflexivity|]. split; [reflexivity|]. split; [reflexivity|]. cbn [g_chans].
  apply chans_dict_sim. exact Hl.
Qed.

Theorem build_hierarchy_sim om om' h :
  om_sim om om' -> build_hierarchy om = Ok h ->
  exists h', build_hierarchy om' = Ok h' /\ hier_sim h h'.
Proof.
  intros Hsim. unfold build_hierarchy. cbv zeta.
  assert (Hroot : match alookup [SB] om with Some m => om_props m | None => [] end
                  = match alookup [SB] om' with Some m => om_props m | None => [] end).
  { pose proof (al_rel_lookup _ om om' [SB] Hsim) as Hl.
    destruct (alookup [SB] om), (alookup [SB] om'); try contradiction; [|reflexivity].
    destruct Hl as (Hp & _ & _). exact Hp. }
  rewrite <- Hroot.
  destruct (hier_scan om _ [] []) as [[[root' gprops] gchans]|e] eqn:Hscan; cbn [bind]; [|discriminate].
  intros H. injection H as <-.
  destruct (hier_scan_sim om om' Hsim _ [] [] [] root' gprops gchans ltac:(constructor) Hscan)
    as (gchans' & Hscan' & Hgc).
  rewrite Hscan'. cbn [bind]. eexists. split; [reflexivity|].
  split; [reflexivity|]. cbn [h_groups].
  apply groups_fold_sim; [exact Hgc|]. apply declared_sim. exact Hgc.
Qed.

(* [cut_in_data] spelled out: some segment i has data position <= k < end *)
Lemma cut_in_data_spec segs : forall pos k,
    cut_in_data pos segs k = true <->
    exists i s, nth_error segs i = Some s /\
                pos + seg_offset segs i + 28 + blen (fs_meta_bytes s) <= k
                < pos + seg_offset segs i + fseg_len s.
Proof.
  induction segs as [|s r IH]; intros pos k.
  - cbn [cut_in_data]. split; [discriminate|]. intros ([|i] & s & H & _); discriminate H.
  - cbn [cut_in_data]. rewrite orb_true_iff, IH. split.
    + intros [H|(i & s' & Hn & Hr)].
      * exists 0%nat, s. split; [reflexivity|]. cbn [seg_offset]. lia.
      * exists (S i), s'. split; [exact Hn|]. cbn [seg_offset]. lia.
    + intros ([|i] & s' & Hn & Hr).
      * left. injection Hn as <-. cbn [seg_offset] in Hr. lia.
      * right. exists i, s'. split; [exact Hn|]. cbn [seg_offset] in Hr. lia.
Qed.

(* ======================================================================== *)
(* The composed statement                                                     *)
(* ======================================================================== *)

Theorem truncation_values_prefix segs st h chunkss k :
  wf_file segs ->
  sm_run segs false = Ok st ->
  build_hierarchy (rs_om st) = Ok h ->
  segs_encode (rs_segments st) segs chunkss ->
  om_paths_canonical (rs_om st) ->
  typed_objects_are_channels (rs_om st) ->
  4 <= k <= blen (ser_file segs) ->
  exists stc hc chunks_c stp hp,
    rd_all (take k (ser_file segs)) = Ok (expected_tokens stc hc chunks_c, true) /\
    sm_run (firstn (meta_count 0 segs k) segs) false = Ok stp /\
    build_hierarchy (rs_om stp) = Ok hp /\
    hier_sim hc hp /\
    (forall p, is_prefix (chan_values p chunks_c) (chan_values p (concat chunkss)) /\
               is_prefix (chan_values p (concat (firstn (whole_count 0 segs k) chunkss)))
                         (chan_values p chunks_c)) /\
    (forall c, In c (all_channels hc) ->
               ch_len c = Z.of_nat (length (chan_values (ch_path c) chunks_c))) /\
    exists rest, obs_status stc = TZ (if cut_in_data 0 segs k then 1 else 0) :: rest.
Proof.
  intros Hwf Hrun Hh Henc Hcanon Hshape Hk.
  destruct (cut_read_core segs st h chunkss k Hwf Hrun Hh Henc Hcanon Hshape ltac:(lia))
    as (stc & hc & cc & Hcut & Hhc & Hread & Hpre & Hlow & Hlens & Hlast).
  destruct (cut_prefix_sim segs false k 0 None [] rstate0 st stc Hrun Hcut) as (stp & Hp & Hsim).
  destruct (build_hierarchy_sim _ _ hc Hsim Hhc) as (hp & Hhp & Hhs).
  exists stc, hc, cc, stp, hp.
  split; [exact Hread|]. split; [exact Hp|]. split; [exact Hhp|]. split; [exact Hhs|].
  split; [intros p; split; [apply Hpre|apply Hlow]|]. split; [exact Hlens|].
  rewrite <- Hlast. apply obs_status_head.
Qed.

(* without the lower bound on the cut offset (below 28 bytes the reader finds
   no segment at all); the model accepts these too *)
Theorem truncation_values_prefix_any_offset segs st h chunkss k :
  wf_file segs ->
  sm_run segs false = Ok st ->
  build_hierarchy (rs_om st) = Ok h ->
  segs_encode (rs_segments st) segs chunkss ->
  om_paths_canonical (rs_om st) ->
  typed_objects_are_channels (rs_om st) ->
  0 <= k <= blen (ser_file segs) ->
  exists stc hc chunks_c,
    rd_metadata (take k (ser_file segs)) false (Some k) false = Ok stc /\
    build_hierarchy (rs_om stc) = Ok hc /\
    rd_all (take k (ser_file segs)) = Ok (expected_tokens stc hc chunks_c, true) /\
    (forall p, is_prefix (chan_values p chunks_c) (chan_values p (concat chunkss)) /\
               is_prefix (chan_values p (concat (firstn (whole_count 0 segs k) chunkss)))
                         (chan_values p chunks_c)) /\
    (forall c, In c (all_channels hc) ->
               ch_len c = Z.of_nat (length (chan_values (ch_path c) chunks_c))).
Proof.
  intros Hwf Hrun Hh Henc Hcanon Hshape Hk.
  destruct (cut_read_core segs st h chunkss k Hwf Hrun Hh Henc Hcanon Hshape Hk)
    as (stc & hc & cc & Hcut & Hhc & Hread & Hpre & Hlow & Hlens & Hlast).
  exists stc, hc, cc. rewrite (rd_metadata_cut segs k false Hwf Hk).
  split; [exact Hcut|]. split; [exact Hhc|]. split; [exact Hread|].
  split; [intros p; split; [apply Hpre|apply Hlow]|exact Hlens].
Qed.

(* the metadata pass accepts every cut of a file it accepts (no assumption on
   the raw data, DAQmx included), and finds the segment records [cut_segs] *)
Corollary cut_metadata_succeeds segs w st k :
  wf_file segs ->
  sm_run segs w = Ok st ->
  0 <= k <= blen (ser_file segs) ->
  exists stc gsc n,
    rd_metadata (take k (ser_file segs)) false (Some k) w = Ok stc /\
    rs_segments stc = gsc /\
    cut_segs 0 segs k (rs_segments st) gsc n /\
    n = whole_count 0 segs k /\
    (forall p, om_len (get_ometa p (rs_om stc)) = zsum (map (seg_total p) gsc)) /\
    om_ext (rs_om stc) (rs_om st).
Proof.
  intros Hwf Hrun Hk. unfold sm_run in Hrun.
  destruct (cut_trace segs w k 0 None [] rstate0 st Hrun)
    as (stc & gs & gsc & n & Hcut & Hsegs & Hat & Hsegsc & Hcs & Hlen & _ & _ & Hext).
  cbn [rstate0 rs_segments rs_om app] in Hsegs, Hsegsc, Hlen.
  exists stc, gsc, n. rewrite (rd_metadata_cut segs k w Hwf Hk).
  split; [exact Hcut|]. split; [exact Hsegsc|]. rewrite Hsegs.
  split; [exact Hcs|]. split; [exact (cut_segs_count _ _ _ _ _ _ Hcs)|].
  split; [|exact Hext].
  intros p. rewrite Hlen. unfold get_ometa. cbn [alookup ometa0 om_len]. lia.
Qed.
