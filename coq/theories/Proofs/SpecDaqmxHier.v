(* Refinement of the reader model to Model/SpecDaqmx.v -- the hierarchy.
   Proofs/SpecRefineHier.v (second half) for the content objects of SpecDaqmx.v: the
   channel object also carries the scale id -> type map, and len(channel) is
   SpecDaqmx.channel_len (samples of a DaqMxRawData channel, number of values
   otherwise).  The list and dictionary lemmas of SpecRefineHier.v are re-used. *)
From Coq Require Import List ZArith Bool Lia.
From Coq Require Import Init.Byte.
Import ListNotations.
From NpTdms Require Import Base.Bytes Base.Res Model.Tokens Model.SegState Model.Layout Model.Reader
     Model.Path Model.FileSyn Model.Spec Model.SpecDaqmx Proofs.SegStateProofs Proofs.PathProofs
     Proofs.ReadCorrect Proofs.SpecRefineBase Proofs.SpecRefineMeta Proofs.SpecRefineHier
     Proofs.SpecDaqmxBase Proofs.SpecDaqmxMeta.
Local Open Scope Z_scope.

(* per-object metadata of the model vs. an object of the specification's content *)
Definition gom_rel (pm : bytes * ometa) (po : bytes * dcobj) : Prop :=
  fst pm = fst po /\
  om_props (snd pm) = d_props (snd po) /\
  om_dtype (snd pm) = d_dtype (snd po) /\
  om_scalers (snd pm) = d_types (snd po) /\
  om_len (snd pm) = channel_len (snd po).

(* the channel object TdmsFile builds for content object (p, o), p = /'g'/'name' *)
Definition chan_of_dcobj (g name p : bytes) (o : dcobj) : channel :=
  mkChan g name p (d_dtype o) (d_types o) (channel_len o) (d_props o).

(* ---- the content, classified ------------------------------------------------------- *)

Definition canon_dq (po : bytes * dcobj) : Prop := canonical_path (fst po) = true.

(* declared_dq groups with their properties; channels with their group *)
Definition declared_dq (c : dict dcobj) : alist (alist prop) :=
  flat_map (fun po => match parse_path (fst po) with
                      | Some [g] => [(g, d_props (snd po))]
                      | _ => []
                      end) c.

Definition chlist_dq (c : dict dcobj) : list (bytes * channel) :=
  flat_map (fun po => match parse_path (fst po) with
                      | Some [g; n] => [(g, chan_of_dcobj g n (fst po) (snd po))]
                      | _ => []
                      end) c.

Lemma declared_cons_dq p o c :
  declared_dq ((p, o) :: c) =
  match parse_path p with Some [g] => [(g, d_props o)] | _ => [] end ++ declared_dq c.
Proof. reflexivity. Qed.

Lemma chlist_cons_dq p o c :
  chlist_dq ((p, o) :: c) =
  match parse_path p with Some [g; n] => [(g, chan_of_dcobj g n p o)] | _ => [] end ++ chlist_dq c.
Proof. reflexivity. Qed.

Lemma In_declared_dq g ps c :
  In (g, ps) (declared_dq c) <-> exists p o, In (p, o) c /\ parse_path p = Some [g] /\ ps = d_props o.
Proof.
  unfold declared_dq. rewrite in_flat_map. split.
  - intros [[p o] [Hin H]]. cbn [fst snd] in H.
    destruct (parse_path p) as [[|g' [|n [|x r]]]|] eqn:Hp; try contradiction.
    destruct H as [H|[]]. injection H as Hg Hps. subst g' ps. exists p, o. tauto.
  - intros [p [o [Hin [Hp ->]]]]. exists (p, o). split; [exact Hin|].
    cbn [fst snd]. rewrite Hp. left. reflexivity.
Qed.

Lemma In_chlist_dq g ch c :
  In (g, ch) (chlist_dq c) <->
  exists n p o, In (p, o) c /\ parse_path p = Some [g; n] /\ ch = chan_of_dcobj g n p o.
Proof.
  unfold chlist_dq. rewrite in_flat_map. split.
  - intros [[p o] [Hin H]]. cbn [fst snd] in H.
    destruct (parse_path p) as [[|g' [|n [|x r]]]|] eqn:Hp; try contradiction.
    destruct H as [H|[]]. injection H as Hg Hch. subst g' ch. exists n, p, o. tauto.
  - intros [n [p [o [Hin [Hp ->]]]]]. exists (p, o). split; [exact Hin|].
    cbn [fst snd]. rewrite Hp. left. reflexivity.
Qed.

Lemma canon_same_parse_dq c p o p' o' cs :
  Forall canon_dq c -> In (p, o) c -> In (p', o') c ->
  parse_path p = Some cs -> parse_path p' = Some cs -> p = p'.
Proof.
  intros Hc Hin Hin' Hp Hp'. rewrite Forall_forall in Hc.
  pose proof (canon_parse _ _ (Hc _ Hin) Hp) as H1.
  pose proof (canon_parse _ _ (Hc _ Hin') Hp') as H2.
  cbn [fst] in H1, H2. congruence.
Qed.

Lemma declared_keys_nodup_dq c :
  NoDup (map fst c) -> Forall canon_dq c -> NoDup (map fst (declared_dq c)).
Proof.
  induction c as [|[p o] c IH]; intros Hnd Hc; [constructor|].
  cbn [map fst] in Hnd. inversion Hnd as [|x y Hnin Hnd']; subst x y.
  pose proof Hc as Hc0. inversion Hc as [|x y Hcp Hc']; subst x y.
  rewrite declared_cons_dq, map_app.
  destruct (parse_path p) as [[|g [|n [|x r]]]|] eqn:Hp; cbn [map app]; try (apply IH; assumption).
  cbn [fst]. constructor; [|apply IH; assumption].
  intros Hin. apply in_map_iff in Hin. destruct Hin as [[g' ps] [Eg Hin]]. cbn [fst] in Eg. subst g'.
  apply In_declared_dq in Hin. destruct Hin as [p' [o' [Hin' [Hp' _]]]].
  assert (p = p').
  { exact (canon_same_parse_dq _ p o p' o' _ Hc0 (or_introl eq_refl) (or_intror Hin') Hp Hp'). }
  subst p'. apply Hnin. apply (in_map fst _ _ Hin').
Qed.

Lemma chlist_keys_nodup_dq c :
  NoDup (map fst c) -> Forall canon_dq c ->
  NoDup (map (fun gc => (fst gc, ch_name (snd gc))) (chlist_dq c)).
Proof.
  induction c as [|[p o] c IH]; intros Hnd Hc; [constructor|].
  cbn [map fst] in Hnd. inversion Hnd as [|x y Hnin Hnd']; subst x y.
  pose proof Hc as Hc0. inversion Hc as [|x y Hcp Hc']; subst x y.
  rewrite chlist_cons_dq, map_app.
  destruct (parse_path p) as [[|g [|n [|x r]]]|] eqn:Hp; cbn [map app]; try (apply IH; assumption).
  cbn [fst snd chan_of_dcobj ch_name]. constructor; [|apply IH; assumption].
  intros Hin. apply in_map_iff in Hin. destruct Hin as [[g' ch] [Eg Hin]]. cbn [fst snd] in Eg.
  injection Eg as -> En.
  apply In_chlist_dq in Hin. destruct Hin as [n' [p' [o' [Hin' [Hp' ->]]]]].
  cbn [chan_of_dcobj ch_name] in En. subst n'.
  assert (p = p').
  { exact (canon_same_parse_dq _ p o p' o' _ Hc0 (or_introl eq_refl) (or_intror Hin') Hp Hp'). }
  subst p'. apply Hnin. apply (in_map fst _ _ Hin').
Qed.

Lemma map_flat_map_dq {A B C} (f : B -> C) (h : A -> list B) l :
  map f (flat_map h l) = flat_map (fun x => map f (h x)) l.
Proof.
  induction l as [|a l IH]; [reflexivity|]. cbn [flat_map]. rewrite map_app, IH. reflexivity.
Qed.

Lemma group_names_eq_dq c :
  group_names_dq c = dedup (map fst (declared_dq c) ++ map fst (chlist_dq c)).
Proof.
  unfold group_names_dq, declared_dq, chlist_dq. rewrite !map_flat_map_dq. f_equal. f_equal.
  - apply flat_map_ext. intros [p o]. cbn [fst snd].
    destruct (parse_path p) as [[|g [|n [|x r]]]|]; reflexivity.
  - apply flat_map_ext. intros [p o]. cbn [fst snd].
    destruct (parse_path p) as [[|g [|n [|x r]]]|]; reflexivity.
Qed.

Definition chan_of_triple_dq (g : bytes) (t : bytes * bytes * dcobj) : channel :=
  chan_of_dcobj g (fst (fst t)) (snd (fst t)) (snd t).

Lemma chans_of_channels_dq c g :
  chans_of (chlist_dq c) g = map (chan_of_triple_dq g) (channels_of_dq c g).
Proof.
  induction c as [|[p o] c IH]; [reflexivity|].
  rewrite chlist_cons_dq, chans_of_app, IH.
  unfold channels_of_dq. cbn [flat_map fst snd]. rewrite map_app. f_equal.
  destruct (parse_path p) as [[|g' [|n [|x r]]]|]; try reflexivity.
  rewrite chans_of_cons. destruct (beq g g') eqn:E; [|reflexivity].
  apply beq_eq in E. subst g'. reflexivity.
Qed.

Lemma In_channels_of_dq c g n p o :
  In (n, p, o) (channels_of_dq c g) -> In (p, o) c /\ parse_path p = Some [g; n].
Proof.
  unfold channels_of_dq. rewrite in_flat_map. intros [[p' o'] [Hin H]]. cbn [fst snd] in H.
  destruct (parse_path p') as [[|g' [|n' [|x r]]]|] eqn:Hp; try contradiction.
  destruct (beq g g') eqn:E; [|contradiction].
  apply beq_eq in E. subst g'. destruct H as [H|[]]. injection H as -> -> ->.
  split; [exact Hin|exact Hp].
Qed.

(* ---- the model's scan over metadata matching the content ---------------------------- *)

Lemma chan_of_om_cobj_dq g n m p o :
  path_to_string (Some g) (Some n) = p ->
  gom_rel (p, m) (p, o) ->
  chan_of_om g n m = chan_of_dcobj g n p o.
Proof.
  intros Hp [_ [Hprops [Hdt [Hsc Hlen]]]]. cbn [fst snd] in *.
  unfold chan_of_om, chan_of_dcobj. f_equal; assumption.
Qed.

Lemma hier_scan_folds_dq om c :
  Forall2 gom_rel om c -> Forall canon_dq c ->
  forall root gp gc,
    hier_scan om root gp gc =
    Ok (root, fold_left stepP (declared_dq c) gp, fold_left stepC (chlist_dq c) gc).
Proof.
  induction 1 as [|[pstr m] [p o] om c Hrel HF IH]; intros Hc root gp gc; [reflexivity|].
  inversion Hc as [|x y Hcp Hc']; subst x y. unfold canon_dq in Hcp. cbn [fst] in Hcp.
  assert (Hpp : pstr = p) by (destruct Hrel as [Hpp _]; exact Hpp). subst pstr.
  rewrite hier_scan_cons, declared_cons_dq, chlist_cons_dq.
  pose proof (canonical_path_from_string p Hcp) as H.
  destruct (parse_path p) as [[|g [|n [|x r]]]|]; try contradiction.
  - destruct H as [_ H]. rewrite H. cbn [app]. apply IH. exact Hc'.
  - destruct H as [H _]. rewrite H. cbn [app fold_left].
    change (stepP gp (g, d_props o)) with (aset g (d_props o) gp).
    destruct Hrel as [_ [Hprops _]]. cbn [snd] in Hprops. rewrite Hprops.
    apply IH. exact Hc'.
  - destruct H as [H Hto]. rewrite H. cbn [app fold_left].
    rewrite (chan_of_om_cobj_dq g n m p o Hto Hrel).
    exact (IH Hc' root gp (stepC gc (g, chan_of_dcobj g n p o))).
Qed.

Lemma fold_stepP_declared_dq c :
  NoDup (map fst c) -> Forall canon_dq c -> fold_left stepP (declared_dq c) [] = declared_dq c.
Proof.
  intros Hnd Hc. unfold stepP.
  rewrite (fold_aset_fresh fst snd (declared_dq c) []).
  - cbn [app]. rewrite <- (map_id (declared_dq c)) at 2. apply map_ext. intros [k v]. reflexivity.
  - cbn [map app]. apply declared_keys_nodup_dq; assumption.
Qed.

Lemma root_rel_dq om c k :
  Forall2 gom_rel om c ->
  match alookup k om with Some m => om_props m | None => [] end = props_of_dq c k.
Proof.
  unfold props_of_dq. change (get k c) with (alookup k c).
  induction 1 as [|[p m] [p' o] om c Hrel HF IH]; [reflexivity|].
  destruct Hrel as [Hp [Hprops _]]. cbn [fst snd] in Hp, Hprops. subst p'.
  cbn [alookup]. destruct (bytes_eqb k p); [exact Hprops|exact IH].
Qed.

Lemma declared_props_dq c g ps :
  NoDup (map fst c) -> Forall canon_dq c -> In (g, ps) (declared_dq c) ->
  ps = props_of_dq c (path_of [g]).
Proof.
  intros Hnd Hc Hin. apply In_declared_dq in Hin. destruct Hin as [p [o [Hin [Hp ->]]]].
  rewrite Forall_forall in Hc. pose proof (canon_parse _ _ (Hc _ Hin) Hp) as He.
  cbn [fst] in He. unfold props_of_dq. change (get (path_of [g]) c) with (alookup (path_of [g]) c). rewrite He.
  rewrite (alookup_in_nodup p o c Hnd Hin). reflexivity.
Qed.

Lemma undeclared_props_dq c g :
  Forall canon_dq c -> ~ In g (map fst (declared_dq c)) -> props_of_dq c (path_of [g]) = [].
Proof.
  intros Hc Hnin. unfold props_of_dq. change (get (path_of [g]) c) with (alookup (path_of [g]) c).
  destruct (alookup (path_of [g]) c) as [o|] eqn:E; [|reflexivity].
  exfalso. apply alookup_In in E. apply Hnin.
  rewrite Forall_forall in Hc. pose proof (Hc _ E) as Hcp. unfold canon_dq in Hcp. cbn [fst] in Hcp.
  apply canon_parse_of in Hcp.
  apply in_map_iff. exists (g, d_props o). split; [reflexivity|].
  apply In_declared_dq. exists (path_of [g]), o. tauto.
Qed.

(* ---- the hierarchy in closed form --------------------------------------------------- *)

Definition GR_dq (c : dict dcobj) (g : bytes) : group :=
  mkGroup g (props_of_dq c (path_of [g]))
          (map (fun ch => (ch_name ch, ch)) (chans_of (chlist_dq c) g)).

Definition hier_of_dq (c : dict dcobj) : hierarchy :=
  mkHier (props_of_dq c (path_of [])) (map (fun g => (g, GR_dq c g)) (group_names_dq c)).

Lemma chans_dict_chans_of_dq c g :
  NoDup (map fst c) -> Forall canon_dq c ->
  chans_dict (chans_of (chlist_dq c) g) = map (fun ch => (ch_name ch, ch)) (chans_of (chlist_dq c) g).
Proof.
  intros Hnd Hc. apply chans_dict_nodup. apply chans_of_names_nodup.
  apply chlist_keys_nodup_dq; assumption.
Qed.

Lemma build_hierarchy_closed_dq om c :
  Forall2 gom_rel om c -> NoDup (map fst c) -> Forall canon_dq c ->
  build_hierarchy om = Ok (hier_of_dq c).
Proof.
  intros Hrel Hnd Hc.
  rewrite build_hierarchy_eq, (hier_scan_folds_dq om c Hrel Hc). cbn [bind].
  rewrite (fold_stepP_declared_dq c Hnd Hc), fold_stepC.
  unfold hier_of_dq. f_equal. f_equal.
  - exact (root_rel_dq om c [SB] Hrel).
  - rewrite fold_stepG.
    2:{ unfold gdict. rewrite map_fst_graph. apply NoDup_dedup. }
    rewrite group_names_eq_dq, dedup_app, (dedup_nodup _ (declared_keys_nodup_dq c Hnd Hc)), map_app.
    assert (Hkeys : map fst (map (mkD (gdict (chlist_dq c))) (declared_dq c)) = map fst (declared_dq c)).
    { rewrite map_map. apply map_ext. intros kv. reflexivity. }
    rewrite Hkeys. f_equal.
    + rewrite map_map. apply map_ext_in. intros [g ps] Hin. unfold mkD, GR_dq. cbn [fst snd].
      rewrite lookup_gdict, (chans_dict_chans_of_dq c g Hnd Hc).
      rewrite (declared_props_dq c g ps Hnd Hc Hin). reflexivity.
    + unfold gdict at 1. rewrite filter_map_comm. cbn [fst]. rewrite map_map.
      apply map_ext_in. intros g Hin. apply filter_In in Hin. destruct Hin as [_ Hn].
      unfold notin in Hn. apply negb_true_iff in Hn. apply existsb_beq_notin in Hn.
      unfold mkI, GR_dq. cbn [fst snd].
      rewrite (chans_dict_chans_of_dq c g Hnd Hc), (undeclared_props_dq c g Hc Hn). reflexivity.
Qed.

Lemma hier_of_tokens_dq c (f : channel -> list tok) :
  (forall g name p o, In (p, o) c -> parse_path p = Some [g; name] ->
                      f (chan_of_dcobj g name p o) = values_tokens_dq o) ->
  obs_hierarchy (hier_of_dq c) f = hierarchy_tokens_dq c.
Proof.
  intros Hf. unfold obs_hierarchy, hierarchy_tokens_dq, hier_of_dq. cbn [h_root h_groups].
  rewrite map_length, flat_map_map'. change props_tokens with obs_props. f_equal. f_equal.
  apply flat_map_ext_in'. intros g Hg. cbn [snd GR_dq g_name g_props g_chans].
  unfold group_tokens_dq. f_equal. f_equal.
  rewrite map_length, flat_map_map', chans_of_channels_dq, map_length, flat_map_map'.
  f_equal. apply flat_map_ext_in'. intros [[n p] o] Hin.
  apply In_channels_of_dq in Hin. destruct Hin as [Hin Hp].
  unfold chan_of_triple_dq. cbn [fst snd].
  rewrite (Hf g n p o Hin Hp).
  unfold obs_channel_meta, channel_tokens_dq, chan_of_dcobj.
  cbn [ch_name ch_group ch_path ch_dtype ch_len ch_props app]. reflexivity.
Qed.

Lemma hier_of_channels_dq c ch :
  In ch (all_channels (hier_of_dq c)) ->
  exists g name p o, In (p, o) c /\ parse_path p = Some [g; name] /\ ch = chan_of_dcobj g name p o.
Proof.
  unfold all_channels, hier_of_dq. cbn [h_groups]. rewrite flat_map_map'. cbn [snd GR_dq g_chans].
  intros Hin. apply in_flat_map in Hin. destruct Hin as [g [_ Hin]].
  rewrite map_map in Hin. cbn [snd] in Hin. rewrite map_id in Hin.
  apply In_chans_of, In_chlist_dq in Hin. destruct Hin as [n [p [o H]]].
  exists g, n, p, o. exact H.
Qed.

(* the hierarchy the model builds from per-object metadata that matches the
   specification's content shows exactly the specification's hierarchy *)
Theorem hierarchy_refines_dq : forall (om : alist ometa) (c : dict dcobj),
    Forall2 gom_rel om c ->
    NoDup (map fst c) ->
    Forall (fun po => canonical_path (fst po) = true) c ->
    exists h,
      build_hierarchy om = Ok h /\
      (forall (f : channel -> list tok),
          (forall g name p o, In (p, o) c -> parse_path p = Some [g; name] ->
                              f (chan_of_dcobj g name p o) = values_tokens_dq o) ->
          obs_hierarchy h f = hierarchy_tokens_dq c) /\
      (forall ch, In ch (all_channels h) ->
                  exists g name p o, In (p, o) c /\ parse_path p = Some [g; name] /\
                                     ch = chan_of_dcobj g name p o).
Proof.
  intros om c Hrel Hnd Hc. exists (hier_of_dq c). split; [|split].
  - exact (build_hierarchy_closed_dq om c Hrel Hnd Hc).
  - intros f Hf. exact (hier_of_tokens_dq c f Hf).
  - intros ch Hin. exact (hier_of_channels_dq c ch Hin).
Qed.
