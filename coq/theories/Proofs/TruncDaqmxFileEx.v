(* C06 / C11: instances for Props/C11_cut.v.

   dx_file (ReadCorrectDaqmx.v): a big-endian DAQmx segment (raw buffers 2 x 4 and
   3 x 3 bytes, 17 bytes per chunk, two chunks; raw data at 271..305), a DAQmx
   segment without metadata (one chunk; raw data at 333..350), an ordinary segment
   (raw data at 418..426).  Every data object has its scalers in one raw buffer, so
   the composed theorem applies to EVERY cut of the file.

   dm_file: one little-endian DAQmx segment with the same raw buffers (14 bytes per
   chunk, two chunks; raw data at 200..228) in which channel c0 has one scaler in
   buffer 0 and one in buffer 1.  get_daqmx_final_chunk_lengths gives c0 no entry
   (`len(set(...)) == 1` fails): the hypothesis [cut_one_buffer] fails for cuts
   inside the raw data and so does the conclusion -- rd_all's flag is false (c0 is
   credited 2 values, scaler 0 is handed 4, scaler 5 is handed 2). *)
From Coq Require Import List ZArith Bool Lia.
From Coq Require Import Init.Byte.
Import ListNotations.
From NpTdms Require Import Base.Bytes Base.Res Model.Tokens Model.TokensWf Model.SegState
     Model.Layout Model.Reader Model.FileSyn Proofs.LayoutProofs Proofs.FileSynProofs
     Proofs.DaqmxProofs Proofs.TruncProofs Proofs.ReadCorrect Proofs.ReadCorrectDaqmx
     Proofs.TruncValuesLayout Proofs.TruncValuesFile Proofs.TruncValuesExamples Proofs.TruncLazyDaqmx
     Proofs.TruncDaqmxFile.
Local Open Scope Z_scope.

Example dx_one_buffer : Forall seg_one_buffer (rs_segments dx_st).
Proof.
  assert (Hsegs : rs_segments dx_st = [dx_seg 0; dx_seg 1; dx_seg 2]) by (vm_compute; reflexivity).
  rewrite Hsegs.
  constructor; [|constructor; [|constructor; [|constructor]]];
    apply seg_one_buffer_b_sound; vm_compute; reflexivity.
Qed.

(* the theorem applies to every cut of dx_file *)
Example dx_cut_file_applies : forall k, 4 <= k <= blen (ser_file dx_file) ->
  exists stc hc tail stp hp,
    let whole := concat (firstn (whole_count 0 dx_file k) dx_chunks) in
    rd_all (take k (ser_file dx_file)) = Ok (expected_tokens_dq stc hc (whole ++ tail), true) /\
    sm_run (firstn (meta_count 0 dx_file k) dx_file) false = Ok stp /\
    build_hierarchy (rs_om stp) = Ok hp /\
    hier_sim hc hp /\
    cut_tail 0 dx_file k (rs_segments dx_st) dx_chunks tail /\
    prefix_clauses whole (whole ++ tail) (concat dx_chunks) /\
    (forall c, In c (all_channels hc) -> lens_ok (whole ++ tail) c) /\
    exists rest, obs_status stc = TZ (if cut_in_data 0 dx_file k then 1 else 0) :: rest.
Proof.
  exact (truncation_values_prefix_daqmx_all dx_file dx_st dx_h dx_chunks dx_wf dx_run dx_hier dx_content
           dx_canonical dx_typed_channels dx_one_buffer).
Qed.

Example dx_cut_geometry :
  blen (ser_file dx_file) = 426 /\
  map (fun g => (sg_pos g, sg_data g, sg_next g, sg_nchunks g)) (rs_segments dx_st)
  = [(0, 271, 305, 2); (305, 333, 350, 1); (350, 418, 426, 1)] /\
  map (fun k => (k, whole_count 0 dx_file k, meta_count 0 dx_file k, cut_in_data 0 dx_file k))
      [299; 305; 320; 340; 350; 400; 420; 426]
  = [(299, 0%nat, 1%nat, true); (305, 1%nat, 1%nat, false); (320, 1%nat, 1%nat, false);
     (340, 1%nat, 2%nat, true); (350, 2%nat, 2%nat, false); (400, 2%nat, 2%nat, false);
     (420, 2%nat, 3%nat, true); (426, 3%nat, 3%nat, false)].
Proof. vm_compute. repeat split. Qed.

Example dx_seg_ok0 : daqmx_seg_ok (dx_seg 0) (dx_data 0).
Proof. apply daqmx_seg_ok_b_sound. vm_compute. reflexivity. Qed.

Example dx_seg_ok1 : daqmx_seg_ok (dx_seg 1) (dx_data 1).
Proof. apply daqmx_seg_ok_b_sound. vm_compute. reflexivity. Qed.

(* what cut_tail says for a cut 28 bytes into the raw data of segment 0 and for a cut
   7 bytes into the raw data of segment 1: the tail is cut_direct_chunks *)
Example dx_cut_tail_299 : forall tail,
    cut_tail 0 dx_file 299 (rs_segments dx_st) dx_chunks tail ->
    tail = cut_direct_chunks (dx_seg 0) (dx_data 0) 28.
Proof.
  intros tail H.
  destruct (cut_tail_daqmx _ _ _ dx_content 0 299 tail 0%nat
                           (nth 0 dx_file (mkFseg 0 0 None [])) (dx_seg 0) H) as [_ Ht];
    [reflexivity|reflexivity|vm_compute; split; [discriminate|reflexivity]|exact dx_seg_ok0|].
  exact Ht.
Qed.

Example dx_cut_tail_340 : forall tail,
    cut_tail 0 dx_file 340 (rs_segments dx_st) dx_chunks tail ->
    tail = cut_direct_chunks (dx_seg 1) (dx_data 1) 7.
Proof.
  intros tail H.
  destruct (cut_tail_daqmx _ _ _ dx_content 0 340 tail 1%nat
                           (nth 1 dx_file (mkFseg 0 0 None [])) (dx_seg 1) H) as [_ Ht];
    [reflexivity|reflexivity|vm_compute; split; [discriminate|reflexivity]|exact dx_seg_ok1|].
  exact Ht.
Qed.

Section Tokens.
Import String.
Local Open Scope string_scope.

Example dx_cut_tails :
  cut_direct_chunks (dx_seg 0) (dx_data 0) 28 =
  [ [(dx_p0, CScalers [(0, [hex "0201"; hex "1211"]); (5, [hex "04"; hex "14"])]);
     (dx_p1, CScalers [(0, [hex "00"; hex "01"; hex "00"])]);
     (dx_p2, CData [hex "04030201"; hex "14131211"])];
    [(dx_p0, CScalers [(0, [hex "2221"; hex "3231"]); (5, [hex "24"; hex "34"])]);
     (dx_p1, CScalers [(0, [hex "01"])]);
     (dx_p2, CData [hex "24232221"; hex "34333231"])] ] /\
  cut_direct_chunks (dx_seg 1) (dx_data 1) 7 =
  [ [(dx_p0, CScalers [(0, [hex "4241"]); (5, [hex "44"])]);
     (dx_p1, CScalers [(0, [])]);
     (dx_p2, CData [hex "44434241"])] ].
Proof. vm_compute. split; reflexivity. Qed.

(* 299 = 271 + 28: chunk 0 of segment 0 whole; of chunk 1 buffer 0 is whole (2 rows),
   buffer 1 has ONE complete row: c0 and c2 have 4 values, the digital-line channel
   c1 has 3 + 1; the later segments (group g) are not seen; incomplete *)
Example dx_cut_299 :
  rd_all (take 299 (ser_file dx_file)) =
  Ok ([TZ 4713; TZ 0; TZ 1; TB (hex "6471"); TZ 0; TZ 3;
       TB (hex "6330"); TB (hex "6471"); TB dx_p0; TZ 4294967295; TZ 4; TZ 0;
       TZ 1; TZ 2; TZ 0; TZ 4; TB (hex "0201"); TB (hex "1211"); TB (hex "2221"); TB (hex "3231");
       TZ 5; TZ 4; TB (hex "04"); TB (hex "14"); TB (hex "24"); TB (hex "34");
       TB (hex "6331"); TB (hex "6471"); TB dx_p1; TZ 4294967295; TZ 4; TZ 0;
       TZ 1; TZ 1; TZ 0; TZ 4; TB (hex "00"); TB (hex "01"); TB (hex "00"); TB (hex "01");
       TB (hex "6332"); TB (hex "6471"); TB dx_p2; TZ 3; TZ 4; TZ 0;
       TZ 0; TZ 4; TB (hex "04030201"); TB (hex "14131211"); TB (hex "24232221"); TB (hex "34333231");
       TZ 1; TZ 1; TZ 3; TB dx_p0; TZ 2; TZ 2; TB dx_p1; TZ 3; TZ 1; TB dx_p2; TZ 2; TZ 2], true).
Proof. vm_compute. reflexivity. Qed.

(* 340 = 333 + 7: segment 0 whole (2 chunks); of segment 1's only chunk buffer 0 has
   ONE complete row (7 / 4), buffer 1 none: c0 and c2 have 4 + 1 values, c1 has 6 + 0 *)
Example dx_cut_340 :
  rd_all (take 340 (ser_file dx_file)) =
  Ok ([TZ 4713; TZ 0; TZ 1; TB (hex "6471"); TZ 0; TZ 3;
       TB (hex "6330"); TB (hex "6471"); TB dx_p0; TZ 4294967295; TZ 5; TZ 0;
       TZ 1; TZ 2; TZ 0; TZ 5; TB (hex "0201"); TB (hex "1211"); TB (hex "2221"); TB (hex "3231"); TB (hex "4241");
       TZ 5; TZ 5; TB (hex "04"); TB (hex "14"); TB (hex "24"); TB (hex "34"); TB (hex "44");
       TB (hex "6331"); TB (hex "6471"); TB dx_p1; TZ 4294967295; TZ 6; TZ 0;
       TZ 1; TZ 1; TZ 0; TZ 6; TB (hex "00"); TB (hex "01"); TB (hex "00"); TB (hex "01"); TB (hex "01"); TB (hex "00");
       TB (hex "6332"); TB (hex "6471"); TB dx_p2; TZ 3; TZ 5; TZ 0;
       TZ 0; TZ 5; TB (hex "04030201"); TB (hex "14131211"); TB (hex "24232221"); TB (hex "34333231");
       TB (hex "44434241");
       TZ 1; TZ 1; TZ 3; TB dx_p0; TZ 2; TZ 1; TB dx_p1; TZ 3; TZ 0; TB dx_p2; TZ 2; TZ 1], true).
Proof. vm_compute. reflexivity. Qed.

(* the boundary between the DAQmx segments and any cut inside the next lead-in: the
   content of segment 0, complete *)
Example dx_cut_boundary :
  rd_all (take 305 (ser_file dx_file)) = rd_all (take 320 (ser_file dx_file)) /\
  rd_all (take 305 (ser_file dx_file)) =
  Ok ([TZ 4713; TZ 0; TZ 1; TB (hex "6471"); TZ 0; TZ 3;
       TB (hex "6330"); TB (hex "6471"); TB dx_p0; TZ 4294967295; TZ 4; TZ 0;
       TZ 1; TZ 2; TZ 0; TZ 4; TB (hex "0201"); TB (hex "1211"); TB (hex "2221"); TB (hex "3231");
       TZ 5; TZ 4; TB (hex "04"); TB (hex "14"); TB (hex "24"); TB (hex "34");
       TB (hex "6331"); TB (hex "6471"); TB dx_p1; TZ 4294967295; TZ 6; TZ 0;
       TZ 1; TZ 1; TZ 0; TZ 6; TB (hex "00"); TB (hex "01"); TB (hex "00"); TB (hex "01"); TB (hex "01"); TB (hex "00");
       TB (hex "6332"); TB (hex "6471"); TB dx_p2; TZ 3; TZ 4; TZ 0;
       TZ 0; TZ 4; TB (hex "04030201"); TB (hex "14131211"); TB (hex "24232221"); TB (hex "34333231");
       TZ 0; TZ 0], true).
Proof. vm_compute. split; reflexivity. Qed.
End Tokens.

(* every cut offset 4..426 of dx_file: the model succeeds with flag true *)
Example dx_all_file_cuts : all_cuts_ok dx_file = true.
Proof. vm_compute. reflexivity. Qed.

(* ---- the one-buffer hypothesis is needed ------------------------------------------------ *)

Section Dm.
Import String.
Local Open Scope string_scope.

Definition dm_file : list fseg :=
  [ mkFseg 142 4713
      (Some [ mkEntry dx_p0 (IDaqmx FORMAT_CHANGING_SCALER T_DAQMX 1 2
                                    [mkScaler 3 0 0 0 0; mkScaler 0 1 1 0 5] [4; 3]) [];
              mkEntry dx_p1 (IDaqmx FORMAT_CHANGING_SCALER 3 1 2 [mkScaler 5 0 0 0 0] [4; 3]) [] ])
      (hex "0102030411121314a0a1a2b0b1b22122232431323334c0c1c2d0d1d2") ].

(* the bytes the harness's independent encoder wrote for this description *)
Example dm_bytes :
  ser_file dm_file =
  hex "5444536d8e00000069120000c800000000000000ac00000000000000020000000a0000002f276471272f2763302769120000ffffffff0100000002000000000000000200000003000000000000000000000000000000000000000000000001000000010000000000000005000000020000000400000003000000000000000a0000002f276471272f276331276912000003000000010000000200000000000000010000000500000000000000000000000000000000000000020000000400000003000000000000000102030411121314a0a1a2b0b1b22122232431323334c0c1c2d0d1d2".
Proof. vm_compute. reflexivity. Qed.
End Dm.

Definition dm_st : rstate := match sm_run dm_file false with Ok st => st | Err _ => rstate0 end.
Definition dm_h : hierarchy :=
  match build_hierarchy (rs_om dm_st) with Ok h => h | Err _ => mkHier [] [] end.
Definition dm_seg : segment := nth 0 (rs_segments dm_st) (mkSeg 0 0 0 0 false [] [] 0 None).
Definition dm_data : bytes := fs_data (nth 0 dm_file (mkFseg 0 0 None [])).
Definition dm_chunks : list (list chunk) := [ direct_chunks dm_seg dm_data ].

(* all hypotheses of the theorem but the one-buffer condition hold ... *)
Example dm_hypotheses :
  wf_file dm_file /\
  sm_run dm_file false = Ok dm_st /\
  build_hierarchy (rs_om dm_st) = Ok dm_h /\
  segs_content (rs_segments dm_st) dm_file dm_chunks /\
  om_paths_canonical (rs_om dm_st) /\
  typed_objects_are_channels (rs_om dm_st).
Proof.
  split; [unfold wf_file; vm_compute; reflexivity|].
  split; [vm_compute; reflexivity|]. split; [vm_compute; reflexivity|].
  split; [|split; [apply om_paths_canonical_b_sound; vm_compute; reflexivity
                  |apply typed_objects_are_channels_b_sound; vm_compute; reflexivity]].
  assert (Hsegs : rs_segments dm_st = [dm_seg]) by (vm_compute; reflexivity).
  rewrite Hsegs. unfold dm_file, dm_chunks. constructor; [|constructor].
  apply (sct_daqmx dm_seg _). apply daqmx_seg_ok_b_sound. vm_compute. reflexivity.
Qed.

(* ... the complete file reads with flag true (read_correct_daqmx applies) ... *)
Example dm_complete :
  rd_all (ser_file dm_file) = Ok (expected_tokens_dq dm_st dm_h (concat dm_chunks), true).
Proof.
  destruct dm_hypotheses as (H1 & H2 & H3 & H4 & H5 & H6).
  exact (read_correct_daqmx dm_file dm_st dm_h dm_chunks H1 H2 H3 H4 H5 H6).
Qed.

(* ... the one-buffer condition fails for every cut inside the raw data (200 <= k < 228) ... *)
Example dm_not_one_buffer : forall k, 200 <= k < 228 -> ~ cut_one_buffer 0 dm_file k (rs_segments dm_st).
Proof.
  intros k Hk H.
  assert (Hsegs : rs_segments dm_st = [dm_seg]) by (vm_compute; reflexivity).
  rewrite Hsegs in H. unfold dm_file in H. cbn [cut_one_buffer] in H.
  change (0 + 28 + blen (fs_meta_bytes _)) with 200 in H.
  change (0 + fseg_len _) with 228 in H.
  replace (k <? 200) with false in H by lia. replace (k <? 228) with true in H by lia.
  unfold seg_one_buffer in H.
  assert (Hobjs : exists o r q s s', data_objs (sg_objs dm_seg) = o :: r /\ so_daqmx o = Some q /\
                                     In s (dq_scalers q) /\ In s' (dq_scalers q) /\ sc_buf s = 0 /\ sc_buf s' = 1).
  { vm_compute. do 5 eexists. split; [reflexivity|]. split; [reflexivity|].
    split; [left; reflexivity|]. split; [right; left; reflexivity|]. split; reflexivity. }
  destruct Hobjs as (o & r & q & s & s' & Hd & Hq & Hs & Hs' & Hb & Hb').
  rewrite Hd in H. inversion H as [|x l Ho _]; subst x l.
  unfold obj_one_buffer in Ho. rewrite Hq in Ho. specialize (Ho s s' Hs Hs'). lia.
Qed.

Section DmTokens.
Import String.
Local Open Scope string_scope.

(* ... and so does the conclusion.  224 = 200 + 14 + 10: chunk 0 whole; of chunk 1 buffer 0
   is whole, buffer 1 has no complete row.  c0 is credited 2 + 0 values (no entry in the
   override: "TZ 2; TZ 0" in the status), its scaler 0 is handed 2 + 2, its scaler 5
   2 + 0: the flag is FALSE.  c1 (one buffer): 4 values, len 4. *)
Example dm_cut_224 :
  rd_all (take 224 (ser_file dm_file)) =
  Ok ([TZ 4713; TZ 0; TZ 1; TB (hex "6471"); TZ 0; TZ 2;
       TB (hex "6330"); TB (hex "6471"); TB dx_p0; TZ 4294967295; TZ 2; TZ 0;
       TZ 1; TZ 2; TZ 0; TZ 4; TB (hex "0102"); TB (hex "1112"); TB (hex "2122"); TB (hex "3132");
       TZ 5; TZ 2; TB (hex "a1"); TB (hex "b1");
       TB (hex "6331"); TB (hex "6471"); TB dx_p1; TZ 3; TZ 4; TZ 0;
       TZ 0; TZ 4; TB (hex "01020304"); TB (hex "11121314"); TB (hex "21222324"); TB (hex "31323334");
       TZ 1; TZ 1; TZ 2; TB dx_p0; TZ 2; TZ 0; TB dx_p1; TZ 2; TZ 2], false).
Proof. vm_compute. reflexivity. Qed.
End DmTokens.

(* the flag over all cuts of dm_file: true outside the raw data and at the chunk
   boundary (k = 214), false for every cut that leaves a row of buffer 0 in a
   partial chunk (4 <= k - 200 < 14 and 18 <= k - 200 < 28) *)
Definition cut_flag (segs : list fseg) (k : Z) : option bool :=
  match rd_all (take k (ser_file segs)) with Ok (_, b) => Some b | Err _ => None end.

Example dm_flags :
  forallb (fun k => match cut_flag dm_file (Z.of_nat k) with Some true => true | _ => false end)
          (seq 4 197 ++ seq 200 4 ++ seq 214 4 ++ [228%nat]) = true /\
  forallb (fun k => match cut_flag dm_file (Z.of_nat k) with Some false => true | _ => false end)
          (seq 204 10 ++ seq 218 10) = true.
Proof. vm_compute. split; reflexivity. Qed.
