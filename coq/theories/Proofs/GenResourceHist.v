(* Second part of the simulation between the translated file-handle control flow (Gen/PyFuncsResource.v)
   and Model/Resource.v: with-blocks, TdmsWriter.defragment, histories of calls, and the headline
   statements of property C20 carried over to the translated functions.  See Proofs/GenResourceEquiv.v. *)
From Coq Require Import String List Bool Arith Lia.
Import ListNotations.
From NpTdms Require Import Model.Resource Proofs.ResourceProofs Gen.PyFuncsResource Proofs.GenResourceEquiv.

(* ---- generic facts about the monad ---- *)

Lemma xfinally_out : forall S A (r : xres S A) (f : S -> xres S unit) ob oc,
    out_of r = Some ob -> out_of (f (xstate r)) = Some oc ->
    out_of (xfinally r f) = Some (after ob oc) /\ xstate (xfinally r f) = xstate (f (xstate r)).
Proof.
  intros S A r f ob oc Hb Hc; destruct r as [a s|[e|] s]; cbn in *; try discriminate Hb;
    destruct (f s) as [[] s'|[e'|] s']; cbn in *; try discriminate Hc;
    inversion Hb; inversion Hc; subst; split; reflexivity.
Qed.

Lemma zoom_out : forall S T A (g : S -> T) (st : T -> S -> S) (m : T -> xres T A) s,
    out_of (zoom g st m s) = out_of (m (g s)) /\ xstate (zoom g st m s) = st (xstate (m (g s))) s.
Proof. intros; unfold zoom; destruct (m (g s)) as [a t|[e|] t]; split; reflexivity. Qed.

(* ---- the statements of a with-block (the caller's code; Model/Resource.v bstmt) on the translated state:
   write_segment writes to self._file and, if it is not None, to self._index_file (translated as a whole by
   gen_pyfuncs_wctl.py; here only its use of the two attributes) ---- *)
Definition gwrite (ok : bool) (s : gwr) : xres gwr unit :=
  if ok then
    dox (_, s1) <- zoom gw_tab gw_set_tab (tab_io (gw_file s) true) s;
    match gw_index_file s1 with
    | Some _ => zoom gw_tab gw_set_tab (tab_io (gw_index_file s1) true) s1
    | None => XOk tt s1
    end
  else XErr (Ex EParse) s.

Lemma gwrite_eq : forall ok s, gwr_rwf s = true ->
    unchanged (gwrite ok s) s (w_write ok (wstate_of s)).
Proof. intros [|] s H; dgwr0 s H; crunch. Qed.

Fixpoint gbody (orc : oracle) (b : list bstmt) (s : gwr) : xres gwr unit :=
  match b with
  | [] => XOk tt s
  | BWrite ok :: r => dox (_, s1) <- gwrite ok s; gbody orc r s1
  | BRaise :: _ => XErr (Ex EUser) s
  | BClose :: r => dox (_, s1) <- writer_close_gen orc s; gbody orc r s1
  end.

Definition same_paths (s' s : gwr) : Prop :=
  gw_file_path s' = gw_file_path s /\ gw_index_file_path s' = gw_index_file_path s.

Lemma gbody_sim : forall orc b s, gwr_rwf s = true ->
    wsim (gbody orc b s) (w_body b (wstate_of s)) /\ gwr_rwf (xstate (gbody orc b s)) = true /\
    same_paths (xstate (gbody orc b s)) s.
Proof.
  intros orc b; induction b as [|[ok| |] r IH]; intros s H.
  - repeat split; assumption.
  - cbn [gbody w_body]. destruct (gwrite_eq ok s H) as [Ho Hs].
    destruct (gwrite ok s) as [[] s1|[e|] s1]; cbn in Ho, Hs; try discriminate Ho;
      inversion Ho as [Ho']; rewrite Hs; cbn [xbind].
    + apply IH; exact H.
    + repeat split; assumption.
  - repeat split; assumption.
  - cbn [gbody w_body]. destruct (writer_close_sim orc s H) as [[Ho Hs] [Hw [Hp Hq]]].
    destruct (writer_close_gen orc s) as [[] s1|[e|] s1]; cbn in Ho, Hs, Hw, Hp, Hq; try discriminate Ho;
      destruct (w_close (wstate_of s)) as [o w1]; cbn in Ho, Hs; inversion Ho; subst o w1; cbn [xbind].
    + destruct (IH s1 Hw) as [I1 [I2 [I3 I4]]].
      repeat split; try apply I1; try assumption; congruence.
    + repeat split; assumption.
Qed.

(* with w: body  -- what the translation emits for a with statement on a TdmsWriter (see
   writer_defragment_unfold below): w.__enter__(); try: body  finally: w.__exit__(..) *)
Definition gwith (orc : oracle) (body : gwr -> xres gwr unit) (s : gwr) : xres gwr unit :=
  dox (_, s1) <- writer_enter_gen orc s;
  xfinally (body s1) (writer_exit_gen orc).

Lemma path_ok_same : forall s' s, same_paths s' s -> gwr_rwf s' = true -> gwr_wf s = true -> gwr_wf s' = true.
Proof.
  intros s' s [Hp Hq] Hr Hw; unfold gwr_wf in *; rewrite Hp, Hq, Hr.
  apply andb_true_iff in Hw; destruct Hw as [Hw Hq']; apply andb_true_iff in Hw; destruct Hw as [_ Hp'].
  rewrite Hp', Hq'; reflexivity.
Qed.

Lemma gwith_sim : forall orc b s, gwr_wf s = true -> ws_inv (wstate_of s) = true ->
    let r := gwith orc (gbody orc b) s in
    wsim r (w_with true (wf_of orc) b (wstate_of s)) /\ gwr_wf (xstate r) = true.
Proof.
  intros orc b s Hw Hi r; subst r; unfold gwith, w_with.
  rewrite writer_enter_eq.
  destruct (writer_open_sim orc s Hw (ws_inv_own s Hi)) as [[Ho Hs] Hw1].
  destruct (writer_open_gen orc s) as [[] s1|[e|] s1]; cbn in Ho, Hs, Hw1; try discriminate Ho;
    destruct (w_open true (wf_of orc) (wstate_of s)) as [o w1]; cbn in Ho, Hs; inversion Ho; subst o; rewrite <- Hs.
  - cbn [xbind].
    destruct (gbody_sim orc b s1 (gwr_wf_rwf s1 Hw1)) as [[Bo Bs] [Br Bp]].
    destruct (w_body b (wstate_of s1)) as [ob w2] eqn:Eb; cbn in Bo, Bs.
    destruct (writer_close_sim orc (xstate (gbody orc b s1)) Br) as [[Co Cs] [Cr [Cp Cq]]].
    rewrite Bs in Co, Cs. destruct (w_close w2) as [oc w3] eqn:Ec; cbn in Co, Cs.
    assert (Hx : forall t, writer_exit_gen orc t = writer_close_gen orc t) by (intro; apply writer_exit_eq).
    destruct (xfinally_out _ _ (gbody orc b s1) (writer_exit_gen orc) ob oc Bo) as [Fo Fs].
    { rewrite Hx; exact Co. }
    split; [split|].
    + exact Fo.
    + rewrite Fs, Hx; exact Cs.
    + rewrite Fs, Hx. apply (path_ok_same _ s1); [|exact Cr|exact Hw1].
      destruct Bp as [B1 B2]; split; congruence.
  - split; [split; reflexivity|exact Hw1].
Qed.

(* ---------------------------------------------------------------------- *)
(* What the theorems say about the handle table                            *)

Definition fobj_caller_closed (f : fobj) : bool := match f with FObj Caller Closed => true | _ => false end.
(* no file object the library created with open() is still open *)
Definition tab_no_owned (t : htab) : bool := negb (fobj_lib_open (h_data t)) && negb (fobj_lib_open (h_index t)).
(* no file object supplied by the caller has been closed *)
Definition tab_no_caller_closed (t : htab) : bool :=
  negb (fobj_caller_closed (h_data t)) && negb (fobj_caller_closed (h_index t)).

Lemma tab_no_owned_core : forall s, tab_no_owned (gr_tab s) = true <-> owned_open (core_of s) = [].
Proof.
  intros [[d i na nb lg] p q f x]; dfobj d; dfobj i; cbv; split; intros H; try reflexivity; discriminate H.
Qed.
Lemma tab_no_caller_closed_core : forall s, tab_no_caller_closed (gr_tab s) = no_caller_closed (core_of s).
Proof. intros [[d i na nb lg] p q f x]; dfobj d; dfobj i; reflexivity. Qed.
Lemma tab_no_owned_w : forall s, tab_no_owned (gw_tab s) = w_no_owned (wstate_of s).
Proof. intros [[d i na nb lg] p q f x m]; dfobj d; dfobj i; reflexivity. Qed.
Lemma tab_no_caller_closed_w : forall s, tab_no_caller_closed (gw_tab s) = w_no_caller_closed (wstate_of s).
Proof. intros [[d i na nb lg] p q f x m]; dfobj d; dfobj i; reflexivity. Qed.
Lemma fins_w : forall s, w_no_owned (wstate_of s) = true -> w_left_to_finaliser (wstate_of s) = fins (gw_tab s).
Proof.
  intros [[d i na nb lg] p q f x m] H; dfobj d; dfobj i; try discriminate H;
    unfold w_left_to_finaliser, fins; cbn; rewrite !Nat.add_0_r; reflexivity.
Qed.

(* ---------------------------------------------------------------------- *)
(* Histories of a TdmsWriter                                               *)

Inductive gwop :=
| GWWith (orc : oracle) (b : list bstmt)   (* with writer: b   under the fault points of orc *)
| GWClose                                   (* writer.close() *)
| GWWrite (ok : bool).                      (* writer.write_segment(..) outside a with-block *)

Definition gw_step (orc0 : oracle) (s : gwr) (o : gwop) : xres gwr unit :=
  match o with
  | GWWith orc b => gwith orc (gbody orc b) s
  | GWClose => writer_close_gen orc0 s
  | GWWrite ok => gwrite ok s
  end.

Fixpoint gw_run (orc0 : oracle) (s : gwr) (ops : list gwop) : gwr :=
  match ops with
  | [] => s
  | o :: r => gw_run orc0 (xstate (gw_step orc0 s o)) r
  end.

Definition wop_of (o : gwop) : wop :=
  match o with GWWith orc b => WWith (wf_of orc) b | GWClose => WClose | GWWrite ok => WWrite ok end.

Lemma gw_step_sim : forall orc0 s o, gwr_wf s = true -> ws_inv (wstate_of s) = true ->
    wsim (gw_step orc0 s o) (w_step true (wstate_of s) (wop_of o)) /\ gwr_wf (xstate (gw_step orc0 s o)) = true.
Proof.
  intros orc0 s [orc b| |ok] Hw Hi; cbn [gw_step wop_of w_step].
  - apply gwith_sim; assumption.
  - destruct (writer_close_sim orc0 s (gwr_wf_rwf s Hw)) as [Hs [Hr [Hp Hq]]].
    split; [exact Hs|]. apply (path_ok_same _ s); [split; assumption|exact Hr|exact Hw].
  - destruct (gwrite_eq ok s (gwr_wf_rwf s Hw)) as [Ho Hs]. split; [split|].
    + exact Ho.
    + cbn [snd]; rewrite Hs; reflexivity.
    + rewrite Hs; exact Hw.
Qed.

Lemma gw_run_sim : forall orc0 ops s, gwr_wf s = true -> ws_inv (wstate_of s) = true ->
    wstate_of (gw_run orc0 s ops) = w_run true (wstate_of s) (map wop_of ops) /\
    gwr_wf (gw_run orc0 s ops) = true /\ ws_inv (wstate_of (gw_run orc0 s ops)) = true.
Proof.
  intros orc0 ops; induction ops as [|o r IH]; intros s Hw Hi.
  - repeat split; assumption.
  - cbn [gw_run map w_run]. destruct (gw_step_sim orc0 s o Hw Hi) as [[_ Hs] Hw'].
    rewrite <- Hs. apply IH; [exact Hw'|]. rewrite Hs. apply w_step_inv; exact Hi.
Qed.

(* a writer as constructed by TdmsWriter(file, mode, index_file=..) on a valid target *)
Definition new_writer (orc0 : oracle) (t : wtarget) (mode : string) (lg : list event) (m0 : string) : gwr :=
  xstate (writer_init_gen orc0 (wfile_of t) mode (windex_of t) (init_gwr t lg m0)).

Lemma new_writer_ok : forall orc0 t mode lg m0,
    wstate_of (new_writer orc0 t mode lg m0) = w_init t /\ gwr_wf (new_writer orc0 t mode lg m0) = true /\
    ws_inv (wstate_of (new_writer orc0 t mode lg m0)) = true.
Proof.
  intros orc0 t mode lg m0; unfold new_writer.
  destruct (writer_init_sim orc0 t mode lg m0) as [[_ Hs] [Hw _]]; cbn [snd] in Hs.
  repeat split; [exact Hs|exact Hw|rewrite Hs; apply w_init_inv].
Qed.

Lemma all_fault_free : forall ops, Forall (wop_fault_free true) (map wop_of ops).
Proof.
  induction ops as [|[orc b| |ok] r IH]; constructor; try exact IH; cbn; try exact I; left; reflexivity.
Qed.

(* the headline for the writer, on the translated functions *)
Lemma writer_with_block_closes_gen : forall orc0 t mode lg m0 ops orc b,
    let s' := xstate (gwith orc (gbody orc b) (gw_run orc0 (new_writer orc0 t mode lg m0) ops)) in
    tab_no_owned (gw_tab s') = true /\ fins (gw_tab s') = (0, 0) /\ tab_no_caller_closed (gw_tab s') = true.
Proof.
  intros orc0 t mode lg m0 ops orc b s'; subst s'.
  destruct (new_writer_ok orc0 t mode lg m0) as [H0 [Hw0 Hi0]].
  destruct (gw_run_sim orc0 ops _ Hw0 Hi0) as [Hs [Hw Hi]].
  destruct (gwith_sim orc b _ Hw Hi) as [[_ Hs'] _].
  rewrite Hs, H0 in Hs'.
  destruct (w_history_with_block true t (map wop_of ops) (wf_of orc) b (all_fault_free ops)) as [A [B C]].
  { left; reflexivity. }
  rewrite <- Hs' in A, B, C.
  rewrite tab_no_owned_w, tab_no_caller_closed_w, <- (fins_w _ A). repeat split; assumption.
Qed.

Lemma writer_caller_streams_never_closed_gen : forall orc0 t mode lg m0 ops,
    tab_no_caller_closed (gw_tab (gw_run orc0 (new_writer orc0 t mode lg m0) ops)) = true.
Proof.
  intros orc0 t mode lg m0 ops.
  destruct (new_writer_ok orc0 t mode lg m0) as [H0 [Hw0 Hi0]].
  destruct (gw_run_sim orc0 ops _ Hw0 Hi0) as [Hs _].
  rewrite tab_no_caller_closed_w, Hs, H0. apply w_history_no_caller_closed.
Qed.

(* an exception raised inside the with-block is not swallowed *)
Lemma writer_exception_propagates_gen : forall orc body s s1 e s2,
    writer_enter_gen orc s = XOk tt s1 -> body s1 = XErr e s2 ->
    xout (gwith orc body s) <> None.
Proof.
  intros orc body s s1 e s2 He Hb; unfold gwith; rewrite He; cbn [xbind]; rewrite Hb; cbn [xfinally].
  destruct (writer_exit_gen orc s2) as [[] ?|? ?]; discriminate.
Qed.

(* ---------------------------------------------------------------------- *)
(* TdmsFile: after the API call                                            *)

(* the object returned (or not) by TdmsFile.read / open / read_metadata on a source of the model's kinds *)
Definition api_call (a : api) (orc : oracle) (src : source) (na nb : nat) (lg : list event) : xres gtf unit :=
  static_gen a orc (arg_of src) (init_gtf src na nb lg).

Lemma no_owned_handle_after_read_gen : forall orc a src na nb lg, tag_ok orc src -> a <> ApiOpen ->
    tab_no_owned (gr_tab (gt_rd (xstate (api_call a orc src na nb lg)))) = true.
Proof.
  intros orc a src na nb lg Ht Ha. destruct (static_gen_sim orc a src na nb lg Ht) as [[_ Hs] _].
  apply tab_no_owned_core. unfold api_call.
  change (core_of (gt_rd (xstate (static_gen a orc (arg_of src) (init_gtf src na nb lg)))))
    with (co (world_of (xstate (static_gen a orc (arg_of src) (init_gtf src na nb lg)))
                       (cache (snd (tf_init true a src (o_isfile_index orc) (cf_of orc src) (fc_of orc))))
                       (gen (snd (tf_init true a src (o_isfile_index orc) (cf_of orc src) (fc_of orc)))))).
  rewrite Hs. apply init_closed_api_quiet; [exact Ha|left; reflexivity].
Qed.

Lemma core_of_api_call : forall orc a src na nb lg, tag_ok orc src ->
    core_of (gt_rd (xstate (api_call a orc src na nb lg)))
    = co (snd (tf_init true a src (o_isfile_index orc) (cf_of orc src) (fc_of orc))) /\
    out_of (api_call a orc src na nb lg)
    = Some (fst (tf_init true a src (o_isfile_index orc) (cf_of orc src) (fc_of orc))).
Proof.
  intros orc a src na nb lg Ht. destruct (static_gen_sim orc a src na nb lg Ht) as [[Ho Hs] _].
  split; [|exact Ho]. unfold api_call. rewrite <- Hs. reflexivity.
Qed.

Lemma no_owned_handle_after_open_raises_gen : forall orc src na nb lg, tag_ok orc src ->
    xout (api_call ApiOpen orc src na nb lg) <> None ->
    tab_no_owned (gr_tab (gt_rd (xstate (api_call ApiOpen orc src na nb lg)))) = true.
Proof.
  intros orc src na nb lg Ht Hr. destruct (core_of_api_call orc ApiOpen src na nb lg Ht) as [Hc Ho].
  apply tab_no_owned_core. rewrite Hc. apply init_open_raise_patched.
  intros Hd. rewrite Hd in Ho. apply Hr.
  destruct (api_call ApiOpen orc src na nb lg) as [? ?|[e|] ?]; cbn in Ho |- *; [reflexivity|discriminate Ho..].
Qed.

Lemma caller_streams_after_api_gen : forall orc a src na nb lg, tag_ok orc src ->
    tab_no_caller_closed (gr_tab (gt_rd (xstate (api_call a orc src na nb lg)))) = true.
Proof.
  intros orc a src na nb lg Ht. destruct (core_of_api_call orc a src na nb lg Ht) as [Hc _].
  rewrite tab_no_caller_closed_core, Hc. apply init_no_caller_closed.
Qed.

(* ---------------------------------------------------------------------- *)
(* Histories of calls on a TdmsFile and its channels                       *)

Inductive gop :=
| GClose              (* tdms_file.close() *)
| GExit               (* leaving `with tdms_file:` : __exit__ *)
| GReadChannelData    (* TdmsChannel._read_channel_data (from its index-file-only guard on) *)
| GReadChunk.         (* TdmsChannel._read_channel_data_chunk_for_index *)

Definition gis_close (o : gop) : bool := match o with GClose | GExit => true | _ => false end.

Definition gstep (orc : oracle) (t : gtf) (o : gop) : xres gtf unit :=
  match o with
  | GClose => tdmsfile_close_gen orc t
  | GExit => tdmsfile_exit_gen orc t
  | GReadChannelData => zoom gt_rd gt_set_rd (channel_read_channel_data_gen orc) t
  | GReadChunk => zoom gt_rd gt_set_rd (channel_read_chunk_for_index_gen orc) t
  end.

(* every call of a history has its own fault points *)
Fixpoint grun (t : gtf) (ops : list (oracle * gop)) : gtf :=
  match ops with
  | [] => t
  | (orc, o) :: r => grun (xstate (gstep orc t o)) r
  end.

(* the invariant: the model's, on the image of the state, and well-formed references *)
Definition ginv (t : gtf) : Prop :=
  grd_rwf (gt_rd t) = true /\ winv (world_of t None GDone) = true.

Lemma gstep_close : forall orc t o, gis_close o = true -> gstep orc t o = tdmsfile_close_gen orc t.
Proof. intros orc t [] H; try discriminate H; [reflexivity|apply tdmsfile_exit_eq]. Qed.

Lemma zoom_rd_unchanged : forall (m : grd -> xres grd unit) t o,
    unchanged (m (gt_rd t)) (gt_rd t) o -> unchanged (zoom gt_rd gt_set_rd m t) t o.
Proof.
  intros m t o [Ho Hs]; destruct t as [s rd dr]; cbn [gt_rd] in *; unfold zoom, unchanged; cbn [gt_rd].
  destruct (m s) as [[] s'|[e|] s']; cbn in *; subst; split; try assumption; reflexivity.
Qed.

Lemma gstep_read : forall orc t o, gis_close o = false -> grd_rwf (gt_rd t) = true ->
    unchanged (gstep orc t o) t
              (match o with
               | GReadChannelData => if is_index_file_only (core_of (gt_rd t)) then Raise EIndexOnly
                                     else data_access (core_of (gt_rd t)) (o_data_ok orc)
               | _ => data_access (core_of (gt_rd t)) (o_data_ok orc)
               end).
Proof.
  intros orc t [] Hc Hw; try discriminate Hc; cbn [gstep]; apply zoom_rd_unchanged.
  - apply channel_read_channel_data_eq; exact Hw.
  - apply channel_read_chunk_for_index_eq; exact Hw.
Qed.

Lemma gstep_inv : forall orc t o, ginv t -> ginv (xstate (gstep orc t o)).
Proof.
  intros orc t o [Hw Hi]. destruct (gis_close o) eqn:Ec.
  - rewrite (gstep_close orc t o Ec).
    destruct (tdmsfile_close_sim orc t None GDone Hw) as [_ [Hs [Hr _]]].
    split; [exact Hr|]. rewrite Hs. apply tf_close_winv; exact Hi.
  - destruct (gstep_read orc t o Ec Hw) as [_ Hs]. rewrite Hs. split; assumption.
Qed.

Lemma grun_inv : forall ops t, ginv t -> ginv (grun t ops).
Proof.
  induction ops as [|[orc o] r IH]; intros t H; [exact H|]. cbn [grun]. apply IH, gstep_inv, H.
Qed.

Lemma api_call_inv : forall orc a src na nb lg, tag_ok orc src ->
    xout (api_call a orc src na nb lg) = None -> ginv (xstate (api_call a orc src na nb lg)).
Proof.
  intros orc a src na nb lg Ht Hd. destruct (static_gen_sim orc a src na nb lg Ht) as [[Ho Hs] [Hw _]].
  fold (api_call a orc src na nb lg) in Ho, Hs, Hw.
  assert (Hdone : fst (tf_init true a src (o_isfile_index orc) (cf_of orc src) (fc_of orc)) = Done).
  { destruct (api_call a orc src na nb lg) as [? ?|[e|] ?]; cbn in Hd, Ho; try discriminate Hd.
    inversion Ho; reflexivity. }
  pose proof (init_done_winv true a src _ _ _ Hdone) as Hi.
  split.
  - apply grd_wf_rwf; exact Hw.
  - rewrite <- Hs in Hi. unfold winv in *. exact Hi.
Qed.

(* after close() / __exit__ at any point of any history: it returned and nothing owned is open *)
Lemma close_no_owned_gen : forall orc t o, ginv t -> gis_close o = true ->
    xout (gstep orc t o) = None /\ tab_no_owned (gr_tab (gt_rd (xstate (gstep orc t o)))) = true /\
    quiet (core_of (gt_rd (xstate (gstep orc t o)))) = true.
Proof.
  intros orc t o [Hw Hi] Hc. rewrite (gstep_close orc t o Hc).
  destruct (tdmsfile_close_sim orc t None GDone Hw) as [Ho [Hs _]].
  pose proof (tf_close_done _ Hi) as Hd. pose proof (tf_close_quiet _ Hi) as Hq.
  rewrite Hd in Ho. rewrite <- Hs in Hq. cbn [co world_of] in Hq.
  split; [|split].
  - destruct (tdmsfile_close_gen orc t) as [? ?|[e|] ?]; cbn in Ho |- *; [reflexivity|discriminate Ho..].
  - apply tab_no_owned_core, quiet_owned_open; exact Hq.
  - exact Hq.
Qed.

(* once closed, always closed *)
Lemma gstep_quiet : forall orc t o, ginv t -> quiet (core_of (gt_rd t)) = true ->
    quiet (core_of (gt_rd (xstate (gstep orc t o)))) = true.
Proof.
  intros orc t o Hi Hq. destruct (gis_close o) eqn:Ec.
  - apply close_no_owned_gen; assumption.
  - destruct Hi as [Hw _]. destruct (gstep_read orc t o Ec Hw) as [_ Hs]. rewrite Hs; exact Hq.
Qed.

Lemma grun_quiet : forall ops t, ginv t -> quiet (core_of (gt_rd t)) = true ->
    quiet (core_of (gt_rd (grun t ops))) = true.
Proof.
  induction ops as [|[orc o] r IH]; intros t Hi Hq; [exact Hq|]. cbn [grun].
  apply IH; [apply gstep_inv, Hi|apply gstep_quiet; assumption].
Qed.

(* a read on a closed reader raises "Cannot read data after the underlying TDMS reader is closed" *)
Lemma read_closed_raises_gen : forall orc t o, grd_rwf (gt_rd t) = true -> quiet (core_of (gt_rd t)) = true ->
    gis_close o = false -> gstep orc t o = XErr (Ex EClosed) t.
Proof.
  intros orc t o Hw Hq Hc. destruct (gstep_read orc t o Hc Hw) as [Ho Hs].
  assert (He : ensure_open (core_of (gt_rd t)) = false) by (apply quiet_closed; exact Hq).
  assert (Hx : is_index_file_only (core_of (gt_rd t)) = false).
  { unfold is_index_file_only, ensure_open in *. apply orb_false_iff in He; destruct He as [_ He].
    rewrite He; apply andb_false_r. }
  unfold data_access in Ho; rewrite He, Hx in Ho.
  destruct (gstep orc t o) as [[] t'|[e|] t']; cbn in Ho, Hs; try (destruct o; discriminate Ho); subst t'.
  destruct o; inversion Ho; reflexivity.
Qed.

Lemma close_returned_reader_none : forall orc t,
    xout (tdmsfile_close_gen orc t) = None -> gt_reader (xstate (tdmsfile_close_gen orc t)) = None.
Proof.
  intros orc t; unfold tdmsfile_close_gen. destruct (gt_reader t) as [[]|] eqn:Er; cbn [is_none negb on_some].
  - destruct (zoom gt_rd gt_set_rd (reader_close_gen orc) t) as [[] t'|e t']; cbn; [reflexivity|discriminate].
  - intros _; exact Er.
Qed.

(* close() twice: the second call returns and changes nothing, not even the log *)
Lemma close_idempotent_gen : forall orc1 orc2 t o1 o2, ginv t -> gis_close o1 = true -> gis_close o2 = true ->
    let t1 := xstate (gstep orc1 t o1) in
    xout (gstep orc1 t o1) = None /\ gstep orc2 t1 o2 = XOk tt t1.
Proof.
  intros orc1 orc2 t o1 o2 Hi H1 H2 t1; subst t1.
  destruct (close_no_owned_gen orc1 t o1 Hi H1) as [Hd _]. split; [exact Hd|].
  rewrite (gstep_close orc1 t o1 H1) in *. rewrite (gstep_close orc2 _ o2 H2).
  pose proof (close_returned_reader_none orc1 t Hd) as Hr.
  unfold tdmsfile_close_gen at 1. rewrite Hr. reflexivity.
Qed.

(* ---- the headline statements over whole histories ---- *)

Lemma ginv_no_caller_closed : forall t, ginv t -> tab_no_caller_closed (gr_tab (gt_rd t)) = true.
Proof.
  intros t [_ Hi]. rewrite tab_no_caller_closed_core. unfold winv in Hi.
  apply andb_true_iff in Hi; destruct Hi as [Hi _]. apply inv_no_caller_closed. exact Hi.
Qed.

(* the state after an API call and a history of calls on the object (no call is possible when the API call
   raised: the caller has no object) *)
Definition after_history (a : api) (orc : oracle) (src : source) (na nb : nat) (lg : list event)
           (hist : list (oracle * gop)) : gtf :=
  match xout (api_call a orc src na nb lg) with
  | None => grun (xstate (api_call a orc src na nb lg)) hist
  | Some _ => xstate (api_call a orc src na nb lg)
  end.

Lemma caller_streams_never_closed_gen : forall orc a src na nb lg hist, tag_ok orc src ->
    tab_no_caller_closed (gr_tab (gt_rd (after_history a orc src na nb lg hist))) = true.
Proof.
  intros orc a src na nb lg hist Ht. unfold after_history.
  destruct (xout (api_call a orc src na nb lg)) eqn:Ex.
  - apply caller_streams_after_api_gen; exact Ht.
  - apply ginv_no_caller_closed, grun_inv, api_call_inv; assumption.
Qed.

Lemma no_owned_handle_after_close_gen : forall orc a src na nb lg hist orc' o, tag_ok orc src ->
    xout (api_call a orc src na nb lg) = None -> gis_close o = true ->
    let t := after_history a orc src na nb lg hist in
    xout (gstep orc' t o) = None /\ tab_no_owned (gr_tab (gt_rd (xstate (gstep orc' t o)))) = true.
Proof.
  intros orc a src na nb lg hist orc' o Ht Hd Hc t; subst t. unfold after_history; rewrite Hd.
  destruct (close_no_owned_gen orc' (grun (xstate (api_call a orc src na nb lg)) hist) o) as [A [B _]];
    [apply grun_inv, api_call_inv; assumption|exact Hc|]. split; assumption.
Qed.

(* the reader is closed: after read / read_metadata returned, or after a close at some point *)
Lemma api_closed_quiet : forall orc a src na nb lg, tag_ok orc src -> a <> ApiOpen ->
    xout (api_call a orc src na nb lg) = None ->
    quiet (core_of (gt_rd (xstate (api_call a orc src na nb lg)))) = true.
Proof.
  intros orc a src na nb lg Ht Ha Hd. destruct (core_of_api_call orc a src na nb lg Ht) as [Hc Ho].
  rewrite Hc. apply init_closed_api_closed; [exact Ha|].
  destruct (api_call a orc src na nb lg) as [? ?|[e|] ?]; cbn in Hd, Ho; try discriminate Hd.
  inversion Ho; reflexivity.
Qed.

Lemma read_after_close_raises_gen : forall orc a src na nb lg hist1 orc1 o1 hist2 orc2 o2, tag_ok orc src ->
    xout (api_call a orc src na nb lg) = None -> gis_close o1 = true -> gis_close o2 = false ->
    let t := grun (xstate (gstep orc1 (after_history a orc src na nb lg hist1) o1)) hist2 in
    gstep orc2 t o2 = XErr (Ex EClosed) t.
Proof.
  intros orc a src na nb lg hist1 orc1 o1 hist2 orc2 o2 Ht Hd H1 H2 t; subst t.
  unfold after_history; rewrite Hd.
  pose proof (grun_inv hist1 _ (api_call_inv orc a src na nb lg Ht Hd)) as Hi.
  destruct (close_no_owned_gen orc1 _ o1 Hi H1) as [_ [_ Hq]].
  pose proof (gstep_inv orc1 _ o1 Hi) as Hi1.
  pose proof (grun_inv hist2 _ Hi1) as Hi2.
  apply read_closed_raises_gen; [apply Hi2|apply grun_quiet; assumption|exact H2].
Qed.

Lemma read_after_eager_api_raises_gen : forall orc a src na nb lg hist orc2 o2, tag_ok orc src -> a <> ApiOpen ->
    xout (api_call a orc src na nb lg) = None -> gis_close o2 = false ->
    let t := after_history a orc src na nb lg hist in
    gstep orc2 t o2 = XErr (Ex EClosed) t.
Proof.
  intros orc a src na nb lg hist orc2 o2 Ht Ha Hd H2 t; subst t. unfold after_history; rewrite Hd.
  pose proof (api_call_inv orc a src na nb lg Ht Hd) as Hi0.
  pose proof (grun_inv hist _ Hi0) as Hi.
  apply read_closed_raises_gen; [apply Hi|apply grun_quiet; [exact Hi0|apply api_closed_quiet; assumption]|exact H2].
Qed.

Lemma close_idempotent_history_gen : forall orc a src na nb lg hist orc1 orc2 o1 o2, tag_ok orc src ->
    xout (api_call a orc src na nb lg) = None -> gis_close o1 = true -> gis_close o2 = true ->
    let t1 := xstate (gstep orc1 (after_history a orc src na nb lg hist) o1) in
    xout (gstep orc1 (after_history a orc src na nb lg hist) o1) = None /\ gstep orc2 t1 o2 = XOk tt t1.
Proof.
  intros orc a src na nb lg hist orc1 orc2 o1 o2 Ht Hd H1 H2. unfold after_history; rewrite Hd.
  apply close_idempotent_gen; [apply grun_inv, api_call_inv; assumption|exact H1|exact H2].
Qed.

(* ---------------------------------------------------------------------- *)
(* TdmsWriter.defragment                                                   *)

(* the with statement of defragment is [gwith] on the new writer *)
Lemma writer_defragment_unfold : forall orc src dst ix body s,
    writer_defragment_gen orc src dst ix (zoom gd_wr gd_set_wr body) s
    = dox (_, s1) <- zoom gd_tf gd_set_tf (tdmsfile_init_gen orc src false false) s;
      dox (_, s2) <- zoom gd_wr gd_set_wr (writer_init_gen (orc_dest orc) dst "w"%string ix) s1;
      zoom gd_wr gd_set_wr (gwith (orc_dest orc) body) s2.
Proof.
  intros; unfold writer_defragment_gen, gwith.
  destruct (zoom gd_tf gd_set_tf (tdmsfile_init_gen orc src false false) s) as [[] s1|e s1]; cbn [xbind]; [|reflexivity].
  destruct (zoom gd_wr gd_set_wr (writer_init_gen (orc_dest orc) dst "w"%string ix) s1) as [[] s2|e s2];
    cbn [xbind]; [|reflexivity].
  destruct s2 as [tf w]; unfold zoom; cbn [gd_wr gd_set_wr gd_tf].
  destruct (writer_enter_gen (orc_dest orc) w) as [[] w1|e w1]; cbn; [|reflexivity].
  destruct (body w1) as [[] w2|e w2]; cbn; destruct (writer_exit_gen (orc_dest orc) w2) as [[] w3|e3 w3]; reflexivity.
Qed.

Lemma tf_init_cache_gen : forall fx a src ib cf fc,
    cache (snd (tf_init fx a src ib cf fc)) = None /\ gen (snd (tf_init fx a src ib cf fc)) = GDone.
Proof.
  intros; unfold tf_init.
  repeat match goal with |- context [match ?x with _ => _ end] => destruct x end; split; reflexivity.
Qed.

Definition defrag_body (orc : oracle) (b : list bstmt) : gdf -> xres gdf unit :=
  zoom gd_wr gd_set_wr (gbody (orc_dest orc) b).

Definition init_gdf (src : source) (na nb : nat) (lg : list event) (t : wtarget) (lg' : list event) (m0 : string) : gdf :=
  mkgdf (init_gtf src na nb lg) (init_gwr t lg' m0).

Lemma zoom_tf : forall A (m : gtf -> xres gtf A) T W,
    zoom gd_tf gd_set_tf m (mkgdf T W)
    = match m T with XOk a t => XOk a (mkgdf t W) | XErr e t => XErr e (mkgdf t W) end.
Proof. reflexivity. Qed.
Lemma zoom_wr : forall A (m : gwr -> xres gwr A) T W,
    zoom gd_wr gd_set_wr m (mkgdf T W)
    = match m W with XOk a w => XOk a (mkgdf T w) | XErr e w => XErr e (mkgdf T w) end.
Proof. reflexivity. Qed.

Lemma defragment_sim : forall orc src t b na nb lg lg' m0, tag_ok orc src ->
    let r := writer_defragment_gen orc (arg_of src) (wfile_of t) (windex_of t) (defrag_body orc b)
                                   (init_gdf src na nb lg t lg' m0) in
    let m := defragment true src (o_isfile_index orc) (cf_of orc src) (fc_of orc) t (wf_of (orc_dest orc)) b in
    out_of r = Some (fst (fst m)) /\
    world_of (gd_tf (xstate r)) None GDone = snd (fst m) /\
    (if is_done (fst (tf_init true ApiRead src (o_isfile_index orc) (cf_of orc src) (fc_of orc)))
     then wstate_of (gd_wr (xstate r)) = snd m
     else gd_wr (xstate r) = init_gwr t lg' m0).
Proof.
  intros orc src t b na nb lg lg' m0 Ht r m; subst r m. unfold defrag_body. rewrite writer_defragment_unfold.
  destruct (tdmsfile_init_sim orc ApiRead src na nb lg Ht) as [[Ho Hs] _]. cbn [metadata_only keep_open] in Ho, Hs.
  pose proof (tf_init_cache_gen true ApiRead src (o_isfile_index orc) (cf_of orc src) (fc_of orc)) as [Hc Hg].
  rewrite Hc, Hg in Hs.
  unfold defragment, init_gdf.
  destruct (tf_init true ApiRead src (o_isfile_index orc) (cf_of orc src) (fc_of orc)) as [o w].
  cbn [fst snd] in Ho, Hs.
  rewrite zoom_tf.
  destruct (tdmsfile_init_gen orc (arg_of src) false false (init_gtf src na nb lg)) as [[] t1|[e|] t1];
    cbn in Ho, Hs; try discriminate Ho; inversion Ho; subst o; cbn [xbind is_done].
  - (* the source was read *)
    rewrite zoom_wr.
    destruct (writer_init_sim (orc_dest orc) t "w"%string lg' m0) as [[Wo Ws] [Ww _]]. cbn [fst snd] in Wo, Ws.
    destruct (writer_init_gen (orc_dest orc) (wfile_of t) "w" (windex_of t) (init_gwr t lg' m0)) as [[] w0|[e|] w0];
      cbn in Wo, Ws, Ww; try discriminate Wo. cbn [xbind].
    assert (Wi : ws_inv (wstate_of w0) = true) by (rewrite Ws; apply w_init_inv).
    destruct (gwith_sim (orc_dest orc) b w0 Ww Wi) as [[Go Gs] _]. rewrite Ws in Go, Gs.
    destruct (w_with true (wf_of (orc_dest orc)) b (w_init t)) as [o' s']. cbn [fst snd] in Go, Gs |- *.
    rewrite zoom_wr.
    destruct (gwith (orc_dest orc) (gbody (orc_dest orc) b) w0) as [[] w1|[e|] w1]; cbn in Go, Gs |- *;
      try discriminate Go; repeat split; assumption.
  - (* reading the source raised: no writer is made *)
    cbn [fst snd xstate out_of gd_tf gd_wr]. repeat split; assumption.
Qed.

(* TdmsWriter.defragment, returning or raising anywhere: nothing owned is open on the source files or on the
   destination files, no caller stream is closed *)
Lemma defragment_closes_gen : forall orc src t b na nb lg lg' m0, tag_ok orc src ->
    let r := writer_defragment_gen orc (arg_of src) (wfile_of t) (windex_of t) (defrag_body orc b)
                                   (init_gdf src na nb lg t lg' m0) in
    tab_no_owned (gr_tab (gt_rd (gd_tf (xstate r)))) = true /\
    tab_no_owned (gw_tab (gd_wr (xstate r))) = true /\
    tab_no_caller_closed (gr_tab (gt_rd (gd_tf (xstate r)))) = true /\
    tab_no_caller_closed (gw_tab (gd_wr (xstate r))) = true.
Proof.
  intros orc src t b na nb lg lg' m0 Ht r.
  destruct (defragment_sim orc src t b na nb lg lg' m0 Ht) as [_ [Hw Hs]]. fold r in Hw, Hs.
  pose proof (defragment_no_owned true src (o_isfile_index orc) (cf_of orc src) (fc_of orc) t
                                  (wf_of (orc_dest orc)) b (or_introl eq_refl) (or_introl eq_refl)) as Hm.
  destruct (defragment true src (o_isfile_index orc) (cf_of orc src) (fc_of orc) t (wf_of (orc_dest orc)) b)
    as [[o w] s]. cbn [fst snd] in Hw, Hs. destruct Hm as [A [B [C D]]].
  assert (Hc : core_of (gt_rd (gd_tf (xstate r))) = co w) by (rewrite <- Hw; reflexivity).
  split; [apply tab_no_owned_core; rewrite Hc; exact A|].
  split; [|split; [rewrite tab_no_caller_closed_core, Hc; exact C|]].
  - destruct (is_done _).
    + rewrite tab_no_owned_w, Hs; exact B.
    + rewrite Hs. destruct t as [[|]|[|]]; reflexivity.
  - destruct (is_done _).
    + rewrite tab_no_caller_closed_w, Hs; exact D.
    + rewrite Hs. destruct t as [[|]|[|]]; reflexivity.
Qed.

(* TdmsReader.close itself: after a close that returned, the next close returns at its guard and changes nothing *)
Lemma reader_close_twice_gen : forall orc orc' s, grd_rwf s = true ->
    xout (reader_close_gen orc s) = None ->
    reader_close_gen orc' (xstate (reader_close_gen orc s)) = XOk tt (xstate (reader_close_gen orc s)).
Proof. intros orc orc' s H; dgrd s H; cbv; intros Hx; try reflexivity; discriminate Hx. Qed.

(* ... and it closes exactly the objects whose path is recorded (the ones the constructor opened) *)
Lemma reader_close_log_gen : forall orc s, grd_rwf s = true -> xout (reader_close_gen orc s) = None ->
    h_log (gr_tab (xstate (reader_close_gen orc s)))
    = h_log (gr_tab s) ++
      (if is_none (gr_file s) && is_none (gr_index_file s) then []
       else (if is_some (gr_file_path s) then [EvClose KData] else []) ++
            (if is_some (gr_index_file_path s) then [EvClose KIndex] else [])).
Proof.
  intros orc s H; dgrd s H; cbv -[app]; intros Hx; try discriminate Hx;
    rewrite <- ?app_assoc, ?app_nil_r; reflexivity.
Qed.
