(* Proofs/SensorsRoundStrain.v -- rounding error of StrainScaling.scale in binary64
   (Model/SensorsF.strain_scale_F) against the real formula (Model/SensorsR.strain_scale), one
   bridge configuration at a time, with the scaled calculus of Proofs/SensorsRoundScaled.v.

   Parameter ranges (on the values of the float parameters):
       0 <= nu <= 0.5,  50 <= gage resistance <= 5000,  0 <= lead resistance <= 50,
       |initial voltage| <= 0.1,  1 <= gage factor <= 5,  0.8 <= gain adjustment <= 1.25,
       1 <= excitation <= 10,
   and the bridge voltage  vo = v - initial voltage  within  kappa * excitation, kappa per
   configuration (strain_kappa): what |strain| <= 0.1 can produce for these parameters, and
   small enough to keep the denominators of the non-linear bridges away from zero.
   The bounds are absolute (the quarter bridge subtracts 1 from a number near 1, and the
   initial voltage is subtracted from the reading). *)
From Coq Require Import Reals ZArith List Bool Lra Lia Psatz.
From Coq Require Import PrimFloat.
From Flocq Require Import Core.
From Interval Require Import Tactic.
From NpTdms Require Import Model.SensorsR Model.SensorsF.
From NpTdms Require Import Proofs.SensorsProofs Proofs.HornerRound Proofs.SensorsRoundBase
     Proofs.SensorsRoundScaled.
Open Scope R_scope.
Unset Lia Cache. Unset Nia Cache. Unset Nra Cache.

Definition strain_ranges (nu r0 rl init g gain vex : R) : Prop :=
  0 <= nu <= 0.5 /\ 50 <= r0 <= 5000 /\ 0 <= rl <= 50 /\ -0.1 <= init <= 0.1 /\
  1 <= g <= 5 /\ 0.8 <= gain <= 1.25 /\ 1 <= vex <= 10.

Ltac sck := unfold sc_ok; interval.
Ltac ul := rewrite ?u64_val; lra.

Lemma fnear_of_snear_le : forall f x s e m, snear f x s e m -> 0 < s <= 1 -> 0 <= e -> 0 <= m -> fnear f x e m.
Proof.
  intros f x s e m H Hs He Hm. unfold snear in H.
  eapply fnear_weaken; [exact H| |].
  - rewrite <- (Rmult_1_r e) at 2. apply Rmult_le_compat_l; lra.
  - rewrite <- (Rmult_1_r m) at 2. apply Rmult_le_compat_l; lra.
Qed.

Lemma Rinv_le_1 : forall x, 1 <= x -> 0 < / x <= 1.
Proof.
  intros x Hx. split; [apply Rinv_0_lt_compat; lra|].
  rewrite <- Rinv_1. apply Rinv_le_contravar; lra.
Qed.

(* ---- voltage_out ------------------------------------------------------------------------------ *)

(* on the scale of the excitation voltage: |vo| <= kappa vex *)
Lemma strain_vo_near : forall init v vex kappa,
  Ffin init -> Ffin v -> 1 <= vex <= 10 -> 0 <= kappa <= 1 ->
  Rabs (FR v - FR init) <= kappa * vex ->
  snear (strain_voltage_out_F init v) (FR v - FR init) vex 1.2e-16 kappa.
Proof.
  intros init v vex kappa Hfi Hfv Hvex Hk Hvo. unfold strain_voltage_out_F, snear.
  destruct (init =? 0)%float eqn:Hz.
  - pose proof (feqb_zero_true init Hfi Hz) as H0. rewrite H0, Rminus_0_r in *.
    split; [exact Hfv|]. split; [|exact Hvo].
    replace (FR v - FR v) with 0 by ring. rewrite Rabs_R0. nra.
  - assert (Hkv : kappa * vex <= 1 * vex) by (apply Rmult_le_compat_r; lra).
    pose proof eta64_small as Hes. pose proof eta64_pos as Hep.
    eapply fnear_sub; [apply (fnear_in v (Rabs (FR v)) Hfv (Rle_refl _))
                      |apply (fnear_in init (Rabs (FR init)) Hfi (Rle_refl _))
                      |exact Hvo|ul|ul].
Qed.

(* ---- lead_adjustment = 1.0 / (1.0 + rl / r0) ------------------------------------------------- *)

Lemma lead_adjustment_near : forall rl r0,
  Ffin rl -> Ffin r0 -> 0 <= FR rl <= 50 -> 50 <= FR r0 <= 5000 ->
  fnear (lead_adjustment_F rl r0) (lead_adjustment (FR rl) (FR r0)) 5e-16 1 /\
  0.5 <= lead_adjustment (FR rl) (FR r0) <= 1.
Proof.
  intros rl r0 Hfl Hf0 Hrl Hr0. unfold lead_adjustment_F, lead_adjustment.
  assert (Hq : 0 <= FR rl / FR r0 <= 1) by (apply Rdiv_between; lra).
  assert (H1 : fnear (rl / r0)%float (FR rl / FR r0) 1.2e-16 1).
  { apply fnear_div_exact; try assumption; [lra|apply Rabs_le; lra|fnum|lra]. }
  assert (H2 : fnear (1 + rl / r0)%float (1 + FR rl / FR r0) 3.5e-16 2).
  { eapply fnear_add; [exact fnear_one|exact H1|apply Rabs_le; lra|fnum|fnum]. }
  assert (Hla : 0.5 <= 1 / (1 + FR rl / FR r0) <= 1) by (apply Rdiv_between; lra).
  split; [|exact Hla].
  eapply (fnear_div _ _ _ _ _ _ _ _ 1 1); [exact fnear_one|exact H2| |lra| |fnum|fnum].
  - rewrite Rabs_pos_eq by lra. lra.
  - apply Rabs_le. lra.
Qed.

(* ---- the seven configurations ----------------------------------------------------------------- *)

(* In this section [vof] is any finite float that approximates a real bridge voltage [vo] to
   within 2.5e-16 vex: for the rounding theorems vo = FR v - FR init and vof is
   strain_voltage_out_F init v (error <= 1.2e-16 vex); for the composition with Props/C17.v
   vo is the exact bridge output and the rounding of the measured voltage to binary64 is part
   of the error of vof. *)
Section Strain.
  Variables nu r0 rl g gain vex vof : float.
  Variable vo : R.
  Hypothesis Hfnu : Ffin nu.
  Hypothesis Hfr0 : Ffin r0.
  Hypothesis Hfrl : Ffin rl.
  Hypothesis Hfg : Ffin g.
  Hypothesis Hfgain : Ffin gain.
  Hypothesis Hfvex : Ffin vex.
  Hypothesis Hnu : 0 <= FR nu <= 0.5.
  Hypothesis Hr0 : 50 <= FR r0 <= 5000.
  Hypothesis Hrl : 0 <= FR rl <= 50.
  Hypothesis Hg : 1 <= FR g <= 5.
  Hypothesis Hgain : 0.8 <= FR gain <= 1.25.
  Hypothesis Hvex : 1 <= FR vex <= 10.

  Let LA := lead_adjustment (FR rl) (FR r0).
  Let laf := lead_adjustment_F rl r0.

  Lemma strain_la : snear laf LA 1 5e-16 1 /\ 0.5 <= LA <= 1.
  Proof.
    destruct (lead_adjustment_near rl r0 Hfrl Hfr0 Hrl Hr0) as [H1 H2].
    split; [apply snear_of_fnear; exact H1|exact H2].
  Qed.

  Lemma strain_opn : snear (1 + nu)%float (1 + FR nu) 1 1.7e-16 1.5.
  Proof.
    eapply snear_add; [apply snear_of_fnear; exact fnear_one
                      |apply (snear_in nu 0.5); [assumption|apply Rabs_le; lra]
                      |exact sc_ok_one|apply Rabs_le; lra|snum|snum].
  Qed.

  Lemma strain_omn : snear (1 - nu)%float (1 - FR nu) 1 1.2e-16 1.
  Proof.
    eapply snear_sub; [apply snear_of_fnear; exact fnear_one
                      |apply (snear_in nu 0.5); [assumption|apply Rabs_le; lra]
                      |exact sc_ok_one|apply Rabs_le; lra|snum|snum].
  Qed.

  Lemma strain_self_vex : snear vex (FR vex) (FR vex) 0 1.
  Proof. apply snear_in_self; [assumption|lra]. Qed.
  Lemma strain_self_g : snear g (FR g) (FR g) 0 1.
  Proof. apply snear_in_self; [assumption|lra]. Qed.
  Lemma strain_self_gain : snear gain (FR gain) (FR gain) 0 1.
  Proof. apply snear_in_self; [assumption|lra]. Qed.

  (* FULL_BRIDGE_1:  strain *= (-gain / (vex * g)) *)
  Lemma strain_fb1_near :
    snear vof vo (FR vex) 2.5e-16 0.7 ->
    fnear (vof * (- gain / (vex * g)))%float (vo * (- FR gain / (FR vex * FR g))) 7e-16 0.875.
  Proof.
    intros Hvn.
    assert (Hd : snear (vex * g)%float (FR vex * FR g) (FR vex * FR g) 1.2e-16 1).
    { eapply snear_mul_w; [exact strain_self_vex|exact strain_self_g|sck|snum|lra|snum]. }
    assert (Hn : snear (- gain)%float (- FR gain) 1 0 1.25).
    { apply snear_opp. apply snear_in; [assumption|apply Rabs_le; lra]. }
    assert (Hk : snear (- gain / (vex * g))%float (- FR gain / (FR vex * FR g))
                       (1 / (FR vex * FR g)) 3e-16 1.25).
    { eapply (snear_div_w _ _ _ _ _ _ _ _ _ _ 1); [exact Hn|exact Hd|lra|interval|sck|lra| |lra|snum|lra|snum].
      rewrite Rabs_pos_eq by interval. lra. }
    assert (Ho : snear (vof * (- gain / (vex * g)))%float (vo * (- FR gain / (FR vex * FR g)))
                       (FR vex * (1 / (FR vex * FR g))) 7e-16 0.875).
    { eapply snear_mul_w; [exact Hvn|exact Hk|sck|snum|lra|snum]. }
    eapply fnear_weaken; [eapply (fnear_of_snear_c _ _ _ 1); [exact Ho|lra|lra|]|lra|lra].
    replace (FR vex * (1 / (FR vex * FR g))) with (/ FR g) by (field; lra).
    apply Rinv_le_1. lra.
  Qed.

  (* FULL_BRIDGE_2:  strain *= (-gain * 2.0 / (vex * g * (1.0 + nu))) *)
  Lemma strain_fb2_near :
    snear vof vo (FR vex) 2.5e-16 0.7 ->
    fnear (vof * (- gain * 2 / (vex * g * (1 + nu))))%float
          (vo * (- FR gain * 2 / (FR vex * FR g * (1 + FR nu)))) 2.5e-15 1.75.
  Proof.
    intros Hvn.
    assert (Hn0 : snear (- gain)%float (- FR gain) 1 0 1.25).
    { apply snear_opp. apply snear_in; [assumption|apply Rabs_le; lra]. }
    assert (Hn : snear (- gain * 2)%float (- FR gain * 2) (1 * 1) 2.8e-16 2.5).
    { eapply snear_mul_w; [exact Hn0|apply snear_of_fnear; exact fnear_two|sck|snum|lra|snum]. }
    assert (Hd1 : snear (vex * g)%float (FR vex * FR g) (FR vex * FR g) 1.2e-16 1).
    { eapply snear_mul_w; [exact strain_self_vex|exact strain_self_g|sck|snum|lra|snum]. }
    assert (Hd2 : snear (vex * g * (1 + nu))%float (FR vex * FR g * (1 + FR nu))
                        (FR vex * FR g * 1) 5.2e-16 1.5).
    { eapply snear_mul_w; [exact Hd1|exact strain_opn|sck|snum|lra|snum]. }
    assert (Hk : snear (- gain * 2 / (vex * g * (1 + nu)))%float
                       (- FR gain * 2 / (FR vex * FR g * (1 + FR nu)))
                       (1 * 1 / (FR vex * FR g * 1)) 1.9e-15 2.5).
    { eapply (snear_div_w _ _ _ _ _ _ _ _ _ _ 1); [exact Hn|exact Hd2|lra|interval|sck|lra| |lra|snum|lra|snum].
      rewrite Rabs_pos_eq by interval.
      assert (0 <= FR vex * FR g * FR nu) by (apply Rmult_le_pos; [apply Rmult_le_pos|]; lra). lra. }
    assert (Ho : snear (vof * (- gain * 2 / (vex * g * (1 + nu))))%float
                       (vo * (- FR gain * 2 / (FR vex * FR g * (1 + FR nu))))
                       (FR vex * (1 * 1 / (FR vex * FR g * 1))) 2.2e-15 1.75).
    { eapply snear_mul_w; [exact Hvn|exact Hk|sck|snum|lra|snum]. }
    eapply fnear_weaken; [eapply (fnear_of_snear_c _ _ _ 1); [exact Ho|lra|lra|]|lra|lra].
    replace (FR vex * (1 * 1 / (FR vex * FR g * 1))) with (/ FR g) by (field; lra).
    apply Rinv_le_1. lra.
  Qed.

  (* HALF_BRIDGE_2:  strain *= -2.0 * gain / (g * vex * lead_adjustment) *)
  Lemma strain_hb2_near :
    snear vof vo (FR vex) 2.5e-16 0.35 ->
    fnear (vof * ((-2) * gain / (g * vex * laf)))%float
          (vo * (-2 * FR gain / (FR g * FR vex * LA))) 5e-15 1.75.
  Proof.
    intros Hvn. destruct strain_la as [Hla HLA].
    assert (Hn : snear ((-2) * gain)%float (-2 * FR gain) (1 * 1) 2.8e-16 2.5).
    { eapply snear_mul_w; [apply snear_of_fnear; exact fnear_mtwo
                          |apply (snear_in gain 1.25); [assumption|apply Rabs_le; lra]|sck|snum|lra|snum]. }
    assert (Hd1 : snear (g * vex)%float (FR g * FR vex) (FR g * FR vex) 1.2e-16 1).
    { eapply snear_mul_w; [exact strain_self_g|exact strain_self_vex|sck|snum|lra|snum]. }
    assert (Hd2 : snear (g * vex * laf)%float (FR g * FR vex * LA) (FR g * FR vex * 1) 7.4e-16 1).
    { eapply snear_mul_w; [exact Hd1|exact Hla|sck|snum|lra|snum]. }
    assert (Hk : snear ((-2) * gain / (g * vex * laf))%float (-2 * FR gain / (FR g * FR vex * LA))
                       (1 * 1 / (FR g * FR vex * 1)) 8.7e-15 5).
    { eapply (snear_div_w _ _ _ _ _ _ _ _ _ _ 0.5); [exact Hn|exact Hd2|lra|interval|sck|lra| |lra|snum|lra|snum].
      rewrite Rabs_pos_eq by interval.
      assert (0 <= FR g * FR vex) by (apply Rmult_le_pos; lra). nra. }
    assert (Ho : snear (vof * ((-2) * gain / (g * vex * laf)))%float
                       (vo * (-2 * FR gain / (FR g * FR vex * LA)))
                       (FR vex * (1 * 1 / (FR g * FR vex * 1))) 4.6e-15 1.75).
    { eapply snear_mul_w; [exact Hvn|exact Hk|sck|snum|lra|snum]. }
    eapply fnear_weaken; [eapply (fnear_of_snear_c _ _ _ 1); [exact Ho|lra|lra|]|lra|lra].
    replace (FR vex * (1 * 1 / (FR g * FR vex * 1))) with (/ FR g) by (field; lra).
    apply Rinv_le_1. lra.
  Qed.

  (* QUARTER_BRIDGE_1 / _2:
       strain *= 2.0 / vex;  strain += 1.0;  np.reciprocal(strain);  strain -= 1.0
       strain *= 2.0 * gain / (g * lead_adjustment) *)
  Lemma strain_qb_near :
    snear vof vo (FR vex) 2.5e-16 0.23 ->
    fnear ((1 / (vof * (2 / vex) + 1) - 1) * (2 * gain / (g * laf)))%float
          ((/ (vo * (2 / FR vex) + 1) - 1) * (2 * FR gain / (FR g * LA))) 2.5e-14 4.3.
  Proof.
    intros Hvn. destruct strain_la as [Hla HLA].
    assert (Hk2 : snear (2 / vex)%float (2 / FR vex) (1 / FR vex) 2.3e-16 2).
    { eapply (snear_div_w _ _ _ _ _ _ _ _ _ _ 1); [apply snear_of_fnear; exact fnear_two|exact strain_self_vex
                                                   |lra|lra|sck|lra| |lra|snum|lra|snum].
      rewrite Rabs_pos_eq by lra. lra. }
    assert (Hs1 : fnear (vof * (2 / vex))%float (vo * (2 / FR vex)) 6.2e-16 0.46).
    { apply fnear_of_snear. eapply snear_scale_eq.
      - eapply snear_mul_w; [exact Hvn|exact Hk2|sck|snum|lra|snum].
      - field. lra. }
    set (x1 := vo * (2 / FR vex)) in *.
    assert (Hx1 : -0.46 <= x1 <= 0.46) by (destruct Hs1 as [_ [_ Hm]]; apply Rabs_le_inv in Hm; lra).
    assert (Hs2 : fnear (vof * (2 / vex) + 1)%float (x1 + 1) 7.9e-16 1.46).
    { eapply fnear_add; [exact Hs1|exact fnear_one|apply Rabs_le; lra|fnum|fnum]. }
    assert (Hinv : 0.68 <= 1 / (x1 + 1) <= 1.86) by (apply Rdiv_between; lra).
    assert (Hs3 : fnear (1 / (vof * (2 / vex) + 1))%float (1 / (x1 + 1)) 3e-15 1.86).
    { eapply (fnear_div _ _ _ _ _ _ _ _ 0.54 1.86); [exact fnear_one|exact Hs2| |lra| |fnum|fnum].
      - rewrite Rabs_pos_eq by lra. lra.
      - apply Rabs_le. lra. }
    assert (Hs4 : fnear (1 / (vof * (2 / vex) + 1) - 1)%float (1 / (x1 + 1) - 1) 3.1e-15 0.86).
    { eapply fnear_sub; [exact Hs3|exact fnear_one|apply Rabs_le; lra|fnum|fnum]. }
    assert (Hn3 : snear (2 * gain)%float (2 * FR gain) (1 * 1) 2.8e-16 2.5).
    { eapply snear_mul_w; [apply snear_of_fnear; exact fnear_two
                          |apply (snear_in gain 1.25); [assumption|apply Rabs_le; lra]|sck|snum|lra|snum]. }
    assert (Hd3 : snear (g * laf)%float (FR g * LA) (FR g * 1) 6.2e-16 1).
    { eapply snear_mul_w; [exact strain_self_g|exact Hla|sck|snum|lra|snum]. }
    assert (Hk3 : snear (2 * gain / (g * laf))%float (2 * FR gain / (FR g * LA))
                        (1 * 1 / (FR g * 1)) 7.4e-15 5).
    { eapply (snear_div_w _ _ _ _ _ _ _ _ _ _ 0.5); [exact Hn3|exact Hd3|lra|lra|sck|lra| |lra|snum|lra|snum].
      rewrite Rabs_pos_eq by interval. nra. }
    assert (Ho : snear ((1 / (vof * (2 / vex) + 1) - 1) * (2 * gain / (g * laf)))%float
                       ((1 / (x1 + 1) - 1) * (2 * FR gain / (FR g * LA)))
                       (1 * (1 * 1 / (FR g * 1))) 2.3e-14 4.3).
    { eapply snear_mul_w; [apply snear_of_fnear; exact Hs4|exact Hk3|sck|snum|lra|snum]. }
    replace (/ (x1 + 1)) with (1 / (x1 + 1)) by (unfold Rdiv; ring).
    eapply fnear_weaken; [eapply (fnear_of_snear_c _ _ _ 1); [exact Ho|lra|lra|]|lra|lra].
    replace (1 * (1 * 1 / (FR g * 1))) with (/ FR g) by (field; lra).
    apply Rinv_le_1. lra.
  Qed.

  (* FULL_BRIDGE_3:
       common_factor = -0.5 / gain
       temp = voltage_out * (common_factor * (1.0 - nu) * g)
       temp += common_factor * vex * g * (1.0 + nu)
       strain = voltage_out / temp *)
  Lemma strain_fb3_near :
    snear vof vo (FR vex) 2.5e-16 0.7 ->
    let cf := ((-0x1p-1) / gain)%float in
    let CF := - (1 / 2) / FR gain in
    fnear (vof / (vof * (cf * (1 - nu) * g) + cf * vex * g * (1 + nu)))%float
          (vo / (vo * (CF * (1 - FR nu) * FR g) + CF * FR vex * FR g * (1 + FR nu))) 4e-14 5.84.
  Proof.
    intros Hvn cf CF.
    assert (Hvo : - (0.7 * FR vex) <= vo <= 0.7 * FR vex)
      by (destruct Hvn as [_ [_ Hm]]; apply Rabs_le_inv in Hm; lra).
    assert (Hcf : snear cf CF (1 / FR gain) 5.6e-17 0.5).
    { eapply (snear_div_w _ _ _ _ _ _ _ _ _ _ 1); [apply snear_of_fnear; exact fnear_mhalf|exact strain_self_gain
                                                   |lra|lra|sck|lra| |lra|snum|lra|snum].
      rewrite Rabs_pos_eq by lra. lra. }
    assert (Hp : snear (cf * (1 - nu))%float (CF * (1 - FR nu)) (1 / FR gain * 1) 1.8e-16 0.5).
    { eapply snear_mul_w; [exact Hcf|exact strain_omn|sck|snum|lra|snum]. }
    assert (Hk1 : snear (cf * (1 - nu) * g)%float (CF * (1 - FR nu) * FR g) (1 / FR gain * 1 * FR g) 2.4e-16 0.5).
    { eapply snear_mul_w; [exact Hp|exact strain_self_g|sck|snum|lra|snum]. }
    set (S := FR vex * FR g / FR gain).
    assert (HS : sc_ok S) by (unfold S; sck).
    assert (Ht1 : snear (vof * (cf * (1 - nu) * g))%float (vo * (CF * (1 - FR nu) * FR g)) S 3.4e-16 0.35).
    { eapply snear_scale_eq.
      - eapply snear_mul_w; [exact Hvn|exact Hk1|sck|snum|lra|snum].
      - unfold S. field. lra. }
    assert (Hq1 : snear (cf * vex)%float (CF * FR vex) (1 / FR gain * FR vex) 1.2e-16 0.5).
    { eapply snear_mul_w; [exact Hcf|exact strain_self_vex|sck|snum|lra|snum]. }
    assert (Hq2 : snear (cf * vex * g)%float (CF * FR vex * FR g) (1 / FR gain * FR vex * FR g) 1.8e-16 0.5).
    { eapply snear_mul_w; [exact Hq1|exact strain_self_g|sck|snum|lra|snum]. }
    assert (Hk2 : snear (cf * vex * g * (1 + nu))%float (CF * FR vex * FR g * (1 + FR nu)) S 4.4e-16 0.75).
    { eapply snear_scale_eq.
      - eapply snear_mul_w; [exact Hq2|exact strain_opn|sck|snum|lra|snum].
      - unfold S. field. lra. }
    set (temp := vo * (CF * (1 - FR nu) * FR g) + CF * FR vex * FR g * (1 + FR nu)).
    (* temp = - (g / (2 gain)) * (vo (1 - nu) + vex (1 + nu)),  the bracket is >= 0.3 vex *)
    set (B := vo * (1 - FR nu) + FR vex * (1 + FR nu)).
    assert (HB : 0.3 * FR vex <= B <= 2.2 * FR vex) by (unfold B; nra).
    assert (Htemp : temp = - (FR g / (2 * FR gain) * B)) by (unfold temp, CF, B; field; lra).
    assert (Hcoef : 0 < FR g / (2 * FR gain)) by (apply Rdiv_lt_0_compat; lra).
    assert (Habs : Rabs temp = FR g / (2 * FR gain) * B).
    { rewrite Htemp, Rabs_Ropp. apply Rabs_pos_eq. apply Rmult_le_pos; lra. }
    assert (HS2 : S = 2 * (FR g / (2 * FR gain) * FR vex)) by (unfold S; field; lra).
    assert (Hte : snear (vof * (cf * (1 - nu) * g) + cf * vex * g * (1 + nu))%float temp S 9.2e-16 1.1).
    { eapply snear_add; [exact Ht1|exact Hk2|exact HS| |snum|snum].
      change (Rabs temp <= 1.1 * S). rewrite Habs, HS2.
      assert (FR g / (2 * FR gain) * B <= FR g / (2 * FR gain) * (2.2 * FR vex))
        by (apply Rmult_le_compat_l; lra).
      lra. }
    assert (Ho : snear (vof / (vof * (cf * (1 - nu) * g) + cf * vex * g * (1 + nu)))%float
                       (vo / temp) (FR vex / S) 3.2e-14 4.67).
    { eapply (snear_div_w _ _ _ _ _ _ _ _ _ _ 0.15); [exact Hvn|exact Hte|lra|apply sc_ok_pos; exact HS
                                                     |unfold S; sck|lra| |lra|snum|snum|snum].
      change (0.15 * S <= Rabs temp). rewrite Habs, HS2.
      assert (FR g / (2 * FR gain) * (0.3 * FR vex) <= FR g / (2 * FR gain) * B)
        by (apply Rmult_le_compat_l; lra).
      lra. }
    eapply fnear_weaken; [eapply (fnear_of_snear_c _ _ _ 1.25); [exact Ho|lra|lra|]|lra|lra].
    unfold S. replace (FR vex / (FR vex * FR g / FR gain)) with (FR gain / FR g) by (field; lra).
    apply Rdiv_between with (lo := 0) (x := FR gain) (c := FR g); lra.
  Qed.

  (* HALF_BRIDGE_1:
       common_factor = -g * vex * lead_adjustment / (4.0 * gain)
       temp = voltage_out * (common_factor * 2.0 * (1.0 - nu) / vex)
       temp += common_factor * (1.0 + nu)
       strain = voltage_out / temp *)
  Lemma strain_hb1_near :
    snear vof vo (FR vex) 2.5e-16 0.35 ->
    let cf := (- g * vex * laf / (4 * gain))%float in
    let CF := - FR g * FR vex * LA / (4 * FR gain) in
    fnear (vof / (vof * (cf * 2 * (1 - nu) / vex) + cf * (1 + nu)))%float
          (vo / (vo * (CF * 2 * (1 - FR nu) / FR vex) + CF * (1 + FR nu))) 2.5e-13 11.7.
  Proof.
    intros Hvn cf CF. destruct strain_la as [Hla HLA].
    assert (Hvo : - (0.35 * FR vex) <= vo <= 0.35 * FR vex)
      by (destruct Hvn as [_ [_ Hm]]; apply Rabs_le_inv in Hm; lra).
    (* the lead adjustment on its own scale *)
    assert (Hlas : snear laf LA LA 1e-15 1).
    { destruct Hla as [Hf [He _]]. unfold snear. split; [exact Hf|]. split.
      - apply Rle_trans with (1 := He). lra.
      - rewrite Rabs_pos_eq by lra. lra. }
    assert (Hng : snear (- g)%float (- FR g) (FR g) 0 1) by (apply snear_opp; exact strain_self_g).
    assert (Hp1 : snear (- g * vex)%float (- FR g * FR vex) (FR g * FR vex) 1.2e-16 1).
    { eapply snear_mul_w; [exact Hng|exact strain_self_vex|sck|snum|lra|snum]. }
    assert (Hp2 : snear (- g * vex * laf)%float (- FR g * FR vex * LA) (FR g * FR vex * LA) 1.3e-15 1).
    { eapply snear_mul_w; [exact Hp1|exact Hlas|sck|snum|lra|snum]. }
    assert (Hd4 : snear (4 * gain)%float (4 * FR gain) (1 * FR gain) 4.5e-16 4).
    { eapply snear_mul_w; [apply snear_of_fnear; exact fnear_four|exact strain_self_gain|sck|snum|lra|snum]. }
    set (S := FR g * FR vex * LA / FR gain).
    assert (HS : sc_ok S) by (unfold S; sck).
    assert (HS0 : 0 < S) by (apply sc_ok_pos; exact HS).
    assert (Hcf : snear cf CF S 3.9e-16 0.25).
    { eapply snear_scale_eq.
      - eapply (snear_div_w _ _ _ _ _ _ _ _ _ _ 4); [exact Hp2|exact Hd4|interval|lra|sck|lra| |lra|snum|snum|snum].
        rewrite Rabs_pos_eq by lra. lra.
      - unfold S. field. lra. }
    assert (Hq1 : snear (cf * 2)%float (CF * 2) (S * 1) 8.4e-16 0.5).
    { eapply snear_mul_w; [exact Hcf|apply snear_of_fnear; exact fnear_two|unfold S; sck|snum|lra|snum]. }
    assert (Hq2 : snear (cf * 2 * (1 - nu))%float (CF * 2 * (1 - FR nu)) (S * 1 * 1) 9.6e-16 0.5).
    { eapply snear_mul_w; [exact Hq1|exact strain_omn|unfold S; sck|snum|lra|snum]. }
    assert (Hk1 : snear (cf * 2 * (1 - nu) / vex)%float (CF * 2 * (1 - FR nu) / FR vex)
                        (S * 1 * 1 / FR vex) 1.1e-15 0.5).
    { eapply (snear_div_w _ _ _ _ _ _ _ _ _ _ 1); [exact Hq2|exact strain_self_vex|lra|lra|unfold S; sck|lra| |lra|snum|lra|snum].
      rewrite Rabs_pos_eq by lra. lra. }
    assert (Ht1 : snear (vof * (cf * 2 * (1 - nu) / vex))%float (vo * (CF * 2 * (1 - FR nu) / FR vex)) S 5.4e-16 0.175).
    { eapply snear_scale_eq.
      - eapply snear_mul_w; [exact Hvn|exact Hk1|unfold S; sck|snum|lra|snum].
      - field. lra. }
    assert (Hk2 : snear (cf * (1 + nu))%float (CF * (1 + FR nu)) S 6.7e-16 0.375).
    { eapply snear_scale_eq.
      - eapply snear_mul_w; [exact Hcf|exact strain_opn|unfold S; sck|snum|lra|snum].
      - ring. }
    set (temp := vo * (CF * 2 * (1 - FR nu) / FR vex) + CF * (1 + FR nu)).
    (* temp = - (S / 4) * (2 vo (1 - nu) / vex + 1 + nu),  the bracket is in [0.3, 2.2] *)
    set (B := 2 * (vo / FR vex) * (1 - FR nu) + (1 + FR nu)).
    assert (Hvr : -0.35 <= vo / FR vex <= 0.35) by (apply Rdiv_between; lra).
    assert (HB : 0.3 <= B <= 2.2) by (unfold B; nra).
    assert (Htemp : temp = - (S / 4 * B)) by (unfold temp, CF, B, S; field; lra).
    assert (Habs : Rabs temp = S / 4 * B).
    { rewrite Htemp, Rabs_Ropp. apply Rabs_pos_eq. apply Rmult_le_pos; lra. }
    assert (Hte : snear (vof * (cf * 2 * (1 - nu) / vex) + cf * (1 + nu))%float temp S 1.3e-15 0.55).
    { eapply snear_add; [exact Ht1|exact Hk2|exact HS| |snum|snum].
      change (Rabs temp <= 0.55 * S). rewrite Habs. replace (0.55 * S) with (S / 4 * 2.2) by lra.
      apply Rmult_le_compat_l; lra. }
    assert (Ho : snear (vof / (vof * (cf * 2 * (1 - nu) / vex) + cf * (1 + nu)))%float
                       (vo / temp) (FR vex / S) 8.6e-14 4.67).
    { eapply (snear_div_w _ _ _ _ _ _ _ _ _ _ 0.075); [exact Hvn|exact Hte|lra|exact HS0
                                                       |unfold S; sck|lra| |lra|snum|snum|snum].
      change (0.075 * S <= Rabs temp). rewrite Habs. replace (0.075 * S) with (S / 4 * 0.3) by lra.
      apply Rmult_le_compat_l; lra. }
    eapply fnear_weaken; [eapply (fnear_of_snear_c _ _ _ 2.5); [exact Ho|lra|lra|]|lra|lra].
    unfold S. replace (FR vex / (FR g * FR vex * LA / FR gain)) with (FR gain / (FR g * LA)) by (field; lra).
    assert (0.5 <= FR g * LA) by nra.
    apply Rdiv_between with (lo := 0) (x := FR gain) (c := FR g * LA); lra.
  Qed.
End Strain.

(* ---- the measured voltage, rounded once --------------------------------------------------------- *)

(* v is the binary64 nearest to the real voltage Vm; voltage_out then approximates Vm - init *)
Lemma strain_vo_near_rounded : forall init v vex Vm kappa,
  Ffin init -> Ffin v -> -0.1 <= FR init <= 0.1 -> 1 <= vex <= 10 -> 0 <= kappa <= 0.7 ->
  FR v = rnd Vm -> Rabs (Vm - FR init) <= kappa * vex ->
  snear (strain_voltage_out_F init v) (Vm - FR init) vex 2.5e-16 kappa.
Proof.
  intros init v vex Vm kappa Hfi Hfv Hinit Hvex Hk Hv Hvo.
  assert (Hkv : kappa * vex <= 0.7 * vex) by (apply Rmult_le_compat_r; lra).
  assert (Hkv0 : 0 <= kappa * vex) by (apply Rmult_le_pos; lra).
  assert (HVm : Rabs Vm <= 0.8 * vex).
  { apply Rabs_le_inv in Hvo. apply Rabs_le. lra. }
  pose proof eta64_small as Hes. pose proof eta64_pos as Hep. pose proof u64_pos as Hu.
  assert (Hvn : fnear v Vm (u64 * (0.8 * vex) + eta64) (0.8 * vex)).
  { split; [exact Hfv|]. split; [|exact HVm]. rewrite Hv.
    apply Rle_trans with (1 := rnd_error Vm). apply Rplus_le_compat_r.
    apply Rmult_le_compat_l; lra. }
  unfold strain_voltage_out_F, snear.
  destruct (init =? 0)%float eqn:Hz.
  - pose proof (feqb_zero_true init Hfi Hz) as H0. rewrite H0, Rminus_0_r in *.
    destruct Hvn as [_ [He _]].
    split; [exact Hfv|]. split; [|exact Hvo].
    apply Rle_trans with (1 := He). ul.
  - eapply fnear_sub; [exact Hvn|apply (fnear_in init (Rabs (FR init)) Hfi (Rle_refl _))
                      |exact Hvo|ul|ul].
Qed.
