(* C06 / C11, whole-file level: reading the BYTES of a serialised file that mixes
   ordinary and DAQmx segments, cut at an arbitrary offset.

   TruncValuesFile.v proves the statement for files of ordinary segments
   (segs_encode, receivers of plain data); TruncLazyDaqmx.v proves what the
   DAQmx DECODER returns for a raw data block cut at any byte count.  Here the two
   are composed, with the receivers of ReadCorrectDaqmx.v (scaler data per scale
   id), for the hypotheses of ReadCorrectDaqmx.read_correct_daqmx:

     [plain_decode_origin]   every entry a contiguous / interleaved decoder returns
                             (whatever the bytes) is plain data under the path of a
                             typed data object without DAQmx metadata
     [cut_tail]              what the segment that contains the cut contributes:
                             a list of chunks [tail] whose values are, per path and
                             per (path, scale id), a prefix of the complete
                             segment's; for a DAQmx segment it IS
                             TruncLazyDaqmx.cut_direct_chunks (complete chunks, then
                             the complete rows of every raw buffer)
     [seg_one_buffer]        every data object of the segment has all its scalers in
                             ONE raw buffer.  Needed for the DAQmx segment that
                             contains the cut only: daqmx.get_daqmx_final_chunk_lengths
                             credits an object for the partial chunk only when
                             len(set(raw_buffer_index of its scalers)) == 1; an
                             object spread over several buffers is credited 0 while
                             its scalers do get rows, so len(channel) falls short of
                             the values the receivers are handed
                             ([cut_needs_one_buffer]: the flag of rd_all is false)
     [daqmx_cut_count_typed/_raw]  len(channel) credit of the cut record = number of
                             values per (path) / per (path, scale id)
     [eager_loop_cut_dq]     the eager data pass over the cut file
     [cut_prefix_segs]       the cut file's reader state against the run on the
                             segments whose metadata lies before the cut: same
                             object lists, same per-object metadata up to lengths --
                             this carries ReadCorrectDaqmx.sm_run_tracks (data type and
                             scaler types agree with every segment object) and
                             daqmx_typed_has_scalers over to the CUT state
     [cut_read_core_dq], [truncation_values_prefix_daqmx]  the composed statement
                             (see Props/C11_cut.v). *)
From Coq Require Import List ZArith Bool Lia ZifyBool.
From Coq Require Import Init.Byte.
Import ListNotations.
From NpTdms Require Import Base.Bytes Base.Res Model.Tokens Model.TokensWf Model.SegState
     Model.Layout Model.Reader Model.FileSyn Proofs.TokensRoundtrip Proofs.SegStateProofs
     Proofs.LayoutProofs Proofs.FileSynProofs Proofs.SegStateInherit Proofs.DaqmxProofs
     Proofs.TruncProofs Proofs.ReadCorrect Proofs.ReadCorrectDaqmx Proofs.TruncValuesLayout
     Proofs.TruncValuesFile Proofs.TruncLazyDaqmx.
Local Open Scope Z_scope.
Ltac Zify.zify_post_hook ::= Z.to_euclidean_division_equations.

(* ======================================================================== *)
(* Entries of the chunks a contiguous / interleaved decoder returns           *)
(* ======================================================================== *)

Definition plain_entry (dobjs : list sobj) (kv : bytes * cdata) : Prop :=
  exists vs o, snd kv = CData vs /\ In o dobjs /\ so_path o = fst kv /\ so_dtype o <> None.

Lemma read_values_dtype e o n cur x : read_values e o n cur = Ok x -> so_dtype o <> None.
Proof. unfold read_values. destruct (so_dtype o); [discriminate|]. intros H. discriminate H. Qed.

Lemma read_contig_chunk_entries all e ci n f : forall objs cur acc c cur',
    read_contig_chunk e objs ci n f cur acc = Ok (c, cur') ->
    incl objs all -> Forall (plain_entry all) acc -> Forall (plain_entry all) c.
Proof.
  induction objs as [|o r IH]; intros cur acc c cur' H Hincl Hacc; cbn [read_contig_chunk] in H.
  - injection H as <- _. exact Hacc.
  - destruct (read_values e o (chunk_nvals o ci n f) cur) as [[vs cur1]|] eqn:E; cbn [bind] in H; [|discriminate].
    refine (IH _ _ _ _ H _ _).
    + intros x Hx. apply Hincl. right. exact Hx.
    + apply Forall_aset; [exact Hacc|]. exists vs, o. cbn [fst snd].
      split; [reflexivity|]. split; [apply Hincl; left; reflexivity|]. split; [reflexivity|].
      exact (read_values_dtype _ _ _ _ _ E).
Qed.

Lemma interleaved_columns_entries all e rows : forall objs pos acc c,
    interleaved_columns e objs rows pos acc = Ok c ->
    incl objs all -> Forall (plain_entry all) acc -> Forall (plain_entry all) c.
Proof.
  induction objs as [|o r IH]; intros pos acc c H Hincl Hacc; cbn [interleaved_columns] in H.
  - injection H as <-. exact Hacc.
  - destruct (so_dtype o) as [dt|] eqn:Edt; [|discriminate].
    destruct (sized o) as [sz|]; [|discriminate].
    refine (IH _ _ _ H _ _).
    + intros x Hx. apply Hincl. right. exact Hx.
    + apply Forall_aset; [exact Hacc|]. eexists. exists o. cbn [fst snd].
      split; [reflexivity|]. split; [apply Hincl; left; reflexivity|]. split; [reflexivity|].
      rewrite Edt. discriminate.
Qed.

Lemma read_chunks_loop_forall (P : chunk -> Prop) (rd : Z -> bytes -> res (chunk * bytes)) :
  (forall ci c ch c', rd ci c = Ok (ch, c') -> P ch) ->
  forall fuel ci n cur cs cur', read_chunks_loop fuel rd ci n cur = Ok (cs, cur') -> Forall P cs.
Proof.
  intros Hrd. induction fuel as [|f IH]; intros ci n cur cs cur' H; cbn [read_chunks_loop] in H.
  - destruct (n <=? ci); [|discriminate]. injection H as <- _. constructor.
  - destruct (n <=? ci); [injection H as <- _; constructor|].
    destruct (rd ci cur) as [[c0 cur1]|] eqn:E0; cbn [bind] in H; [|discriminate].
    destruct (read_chunks_loop f rd (ci + 1) n cur1) as [[cs1 cur2]|] eqn:E1; cbn [bind] in H; [|discriminate].
    injection H as <- _. constructor; [exact (Hrd _ _ _ _ E0)|exact (IH _ _ _ _ _ E1)].
Qed.

Lemma plain_decode_entries g cur cs cur' lay :
  seg_layout g = Ok lay -> lay <> LDaqmx ->
  read_segment_chunks g cur = Ok (cs, cur') ->
  Forall (Forall (plain_entry (data_objs (sg_objs g)))) cs.
Proof.
  intros Hlay Hne H. unfold read_segment_chunks in H. rewrite Hlay in H. cbn [bind] in H.
  destruct lay; [| |contradiction].
  - refine (read_chunks_loop_forall _ _ _ _ _ _ _ _ _ H). intros ci c ch c' Hrd. cbv beta in Hrd.
    apply (read_contig_chunk_entries _ _ _ _ _ _ _ _ _ _ Hrd); [apply incl_refl|constructor].
  - unfold read_interleaved in H. destruct (data_objs (sg_objs g)) as [|o0 r] eqn:Ed.
    + injection H as <- _. constructor.
    + destruct (negb _); [discriminate|].
      destruct (read_rows _ _ cur) as [rows rest].
      destruct (interleaved_columns _ _ rows 0 []) as [c|] eqn:Ec; cbn [bind] in H; [|discriminate].
      injection H as <- _. constructor; [|constructor].
      apply (interleaved_columns_entries _ _ _ _ _ _ _ Ec); [apply incl_refl|constructor].
Qed.

(* ... in the form the receivers' lemma wants *)
Lemma plain_decode_origin g cur cs cur' lay :
  seg_layout g = Ok lay -> lay <> LDaqmx ->
  read_segment_chunks g cur = Ok (cs, cur') ->
  forall c kv, In c cs -> In kv c -> entry_origin g kv.
Proof.
  intros Hlay Hne H c kv Hc Hkv.
  pose proof (plain_decode_entries g cur cs cur' lay Hlay Hne H) as HF.
  rewrite Forall_forall in HF. specialize (HF c Hc). rewrite Forall_forall in HF.
  destruct (HF kv Hkv) as (vs & o & Hv & Ho & Hp & Hty).
  destruct (so_dtype o) as [dt|] eqn:Edt; [|contradiction].
  left. exists vs, o, dt. repeat split; try assumption. left.
  exact (seg_layout_not_daqmx g lay Hlay Hne o Ho).
Qed.

(* a decoded DAQmx chunk: every entry belongs to a typed data object *)
Lemma chunk_shape_origin g data c :
  daqmx_seg_ok g data -> chunk_shape (data_objs (sg_objs g)) c ->
  forall kv, In kv c -> entry_origin g kv.
Proof.
  intros Hok [_ Hent] kv Hkv. rewrite Forall_forall in Hent.
  pose proof Hok as (_ & Hnd & _).
  pose proof (daqmx_seg_ok_kinds g _ Hok) as Hkinds. rewrite Forall_forall in Hkinds.
  destruct (Hent kv Hkv) as [(l & o & Hl & Ho & Hp & Hdt & _ & Hids)|(vs & o & Hv & Ho & Hp & Hdt)].
  - right. destruct (Hkinds o Ho) as (q & Hq & _).
    exists l, o, q. repeat split; try assumption.
    intros iv Hiv. destruct (Hids iv Hiv) as (o' & q' & s' & Ho' & Hp' & Hq' & Hs' & Hid').
    assert (o' = o) by (eapply (NoDup_map_inj so_path); [exact Hnd| | |congruence]; assumption).
    subst o'. rewrite Hq in Hq'. injection Hq' as <-. rewrite <- Hid'. apply in_map. exact Hs'.
  - left. destruct (Hkinds o Ho) as (q & Hq & _ & [Hraw|(s0 & dt & _ & Hdt' & Hne)]); [contradiction|].
    exists vs, o, dt. repeat split; try assumption. right. exact Hne.
Qed.

Lemma entry_origin_objs g g' kv : sg_objs g' = sg_objs g -> entry_origin g kv -> entry_origin g' kv.
Proof. unfold entry_origin. intros ->. exact (fun H => H). Qed.

(* a raw data block cannot be both an ordinary encoding and a DAQmx block *)
Lemma seg_encodes_not_daqmx_ok g data cs : seg_encodes g data cs -> daqmx_seg_ok g data -> False.
Proof.
  intros Henc Hok. pose proof Hok as (Hne & _).
  destruct (data_objs (sg_objs g)) as [|o r] eqn:Ed; [exact (Hne eq_refl)|].
  assert (Ho : In o (data_objs (sg_objs g))) by (rewrite Ed; left; reflexivity).
  pose proof (seg_encodes_no_daqmx g data cs Henc o Ho) as Hnone.
  pose proof (daqmx_seg_ok_kinds g data Hok) as Hk. rewrite Forall_forall in Hk.
  destruct (Hk o Ho) as (q & Hq & _). rewrite Hnone in Hq. discriminate.
Qed.

(* ======================================================================== *)
(* What the segment containing the cut contributes                            *)
(* ======================================================================== *)

(* [tail]: the chunks of segment (g, s) -- whose complete content is [cs] -- that a
   file cut j bytes into the segment's raw data holds *)
Definition cut_tail_at (g : segment) (s : fseg) (j : Z) (cs tail : list chunk) : Prop :=
  (daqmx_seg_ok g (fs_data s) -> tail = cut_direct_chunks g (fs_data s) j) /\
  forall p, is_prefix (chan_values p tail) (chan_values p cs) /\
            forall id, is_prefix (chan_scaler_values p id tail) (chan_scaler_values p id cs).

(* the segment list is walked as the reader walks the file: the cut is before the
   segment's raw data (nothing of it is read), inside its raw data, or behind it *)
Fixpoint cut_tail (pos : Z) (segs : list fseg) (k : Z) (gs : list segment)
         (chunkss : list (list chunk)) (tail : list chunk) : Prop :=
  match segs, gs, chunkss with
  | s :: r, g :: gs', cs :: css =>
    if k <? pos + 28 + blen (fs_meta_bytes s) then tail = []
    else if k <? pos + fseg_len s then cut_tail_at g s (k - (pos + 28 + blen (fs_meta_bytes s))) cs tail
    else cut_tail (pos + fseg_len s) r k gs' css tail
  | _, _, _ => tail = []
  end.

(* all scalers of every data object of the segment live in one raw buffer *)
Definition obj_one_buffer (o : sobj) : Prop :=
  match so_daqmx o with
  | Some q => forall s s', In s (dq_scalers q) -> In s' (dq_scalers q) -> sc_buf s = sc_buf s'
  | None => True
  end.

Definition seg_one_buffer (g : segment) : Prop := Forall obj_one_buffer (data_objs (sg_objs g)).

(* ... required of the segment whose raw data contains the cut, of no other *)
Fixpoint cut_one_buffer (pos : Z) (segs : list fseg) (k : Z) (gs : list segment) : Prop :=
  match segs, gs with
  | s :: r, g :: gs' =>
    if k <? pos + 28 + blen (fs_meta_bytes s) then True
    else if k <? pos + fseg_len s then seg_one_buffer g
    else cut_one_buffer (pos + fseg_len s) r k gs'
  | _, _ => True
  end.

Lemma all_one_buffer_cut : forall segs gs pos k,
    Forall seg_one_buffer gs -> cut_one_buffer pos segs k gs.
Proof.
  induction segs as [|s r IH]; intros gs pos k H; [exact I|].
  destruct gs as [|g gs']; [exact I|]. inversion H as [|x l Hg Hr]; subst x l.
  cbn [cut_one_buffer]. destruct (k <? _); [exact I|]. destruct (k <? _); [exact Hg|apply IH; exact Hr].
Qed.

Definition obj_one_buffer_b (o : sobj) : bool :=
  match so_daqmx o with
  | Some q => match dq_scalers q with
              | [] => true
              | s0 :: _ => forallb (fun s => sc_buf s =? sc_buf s0) (dq_scalers q)
              end
  | None => true
  end.

Lemma obj_one_buffer_b_sound o : obj_one_buffer_b o = true -> obj_one_buffer o.
Proof.
  unfold obj_one_buffer_b, obj_one_buffer. destruct (so_daqmx o) as [q|]; [|trivial].
  destruct (dq_scalers q) as [|s0 r] eqn:E; [intros _ s s' []|].
  intros H s s' Hs Hs'. rewrite forallb_forall in H.
  pose proof (H s Hs). pose proof (H s' Hs'). lia.
Qed.

Definition seg_one_buffer_b (g : segment) : bool := forallb obj_one_buffer_b (data_objs (sg_objs g)).

Lemma seg_one_buffer_b_sound g : seg_one_buffer_b g = true -> seg_one_buffer g.
Proof.
  unfold seg_one_buffer_b, seg_one_buffer. rewrite forallb_forall, Forall_forall.
  intros H o Ho. apply obj_one_buffer_b_sound. exact (H o Ho).
Qed.

(* ======================================================================== *)
(* len(channel) credit of the cut DAQmx record = values per path / scale id   *)
(* ======================================================================== *)

Lemma dedup_z_const b : forall l, l <> [] -> (forall x, In x l -> x = b) -> dedup_z l = [b].
Proof.
  induction l as [|x r IH]; intros Hne Hall; [contradiction|]. cbn [dedup_z].
  assert (Hx : x = b) by (apply Hall; left; reflexivity). subst x.
  destruct r as [|y r'].
  - reflexivity.
  - assert (Hy : y = b) by (apply Hall; right; left; reflexivity). subst y.
    cbn [existsb]. rewrite Z.eqb_refl. cbn [orb]. apply IH; [discriminate|].
    intros x Hx. apply Hall. right. exact Hx.
Qed.

Lemma obj_total_path_count' p objs n f :
  obj_total p objs n f = path_count p (fun o => seg_values o n f) objs.
Proof. reflexivity. Qed.

Lemma flat_map_length_const {A} (f : A -> list bytes) (k : Z) : forall l,
    Forall (fun x => Z.of_nat (length (f x)) = k) l ->
    Z.of_nat (length (flat_map f l)) = Z.of_nat (length l) * k.
Proof.
  induction 1 as [|x l Hx _ IH]; [reflexivity|].
  cbn [flat_map length]. rewrite app_length, Nat2Z.inj_add, IH, Hx. lia.
Qed.

(* number of values a view [f] of a chunk sees in the chunks of a cut block *)
Lemma cut_direct_values_length g data j (f : chunk -> list bytes) nv r :
  let dobjs := data_objs (sg_objs g) in
  let dims := dims_spec dobjs in
  let cb := chunk_bytes dims in
  let e := toc_endian (sg_toc g) in
  0 <= j -> 0 < cb ->
  (forall i, Z.of_nat (length (f (direct_chunk e dobjs dims data i))) = nv) ->
  Z.of_nat (length (f (direct_chunk_rows e dobjs dims (daqmx_buffer_lengths dims (j mod cb)) data
                                        (Z.to_nat (j / cb))))) = r ->
  Z.of_nat (length (flat_map f (cut_direct_chunks g data j))) = (j / cb) * nv + (if j mod cb =? 0 then 0 else r).
Proof.
  intros dobjs dims cb e Hj Hcb Hfull Hpart. unfold cut_direct_chunks. cbv zeta. fold dobjs dims cb e.
  rewrite flat_map_app, app_length, Nat2Z.inj_add.
  rewrite (flat_map_length_const f nv).
  2:{ apply Forall_map. apply Forall_forall. intros i _. apply Hfull. }
  rewrite map_length, seq_length.
  assert (Hq : 0 <= j / cb) by (apply Z.div_pos; lia).
  rewrite (Z2Nat.id _ Hq).
  destruct (j mod cb =? 0).
  - cbn [flat_map length]. change (Z.of_nat 0) with 0. reflexivity.
  - cbn [flat_map]. rewrite app_nil_r, Hpart. reflexivity.
Qed.

Lemma gen_chunk_typed_values val dobjs o q s dt :
  NoDup (map so_path dobjs) -> In o dobjs ->
  so_daqmx o = Some q -> so_dtype o = Some dt -> dt <> T_DAQMX -> dq_scalers q = [s] ->
  chunk_values (so_path o) (gen_chunk val dobjs) = val (dq_kind q) s.
Proof.
  intros Hnd Ho Hq Hdt Hne Hs.
  rewrite (proj1 (gen_chunk_at val dobjs o Hnd Ho)).
  exact (proj1 (gen_entries_typed val o q s dt Hq Hdt Hne Hs)).
Qed.

Lemma gen_chunk_raw_values val dobjs o q s :
  NoDup (map so_path dobjs) -> In o dobjs ->
  so_daqmx o = Some q -> so_dtype o = Some T_DAQMX ->
  NoDup (map sc_id (dq_scalers q)) -> In s (dq_scalers q) ->
  chunk_scaler_values (so_path o) (sc_id s) (gen_chunk val dobjs) = val (dq_kind q) s.
Proof.
  intros Hnd Ho Hq Hdt Hids Hs.
  rewrite (proj2 (gen_chunk_at val dobjs o Hnd Ho) (sc_id s)).
  rewrite (proj2 (gen_entries_raw val o q Hq Hdt) (sc_id s)).
  rewrite (flat_map_unique sc_id _ _ s Hids Hs).
  - rewrite Z.eqb_refl. reflexivity.
  - intros y _ Hy. replace (sc_id y =? sc_id s) with false by lia. reflexivity.
Qed.

Section CutCount.
Variables (g gc : segment) (data : bytes) (j : Z).
Hypothesis Hok : daqmx_seg_ok g data.
Hypothesis Hj : 0 <= j < blen data.
Hypothesis Htoc : sg_toc gc = sg_toc g.
Hypothesis Hobjs : sg_objs gc = sg_objs g.
Hypothesis Hcc : calculate_chunks (sg_toc g) true (sg_objs g) j = Ok (sg_nchunks gc, sg_final gc).

Let dobjs := data_objs (sg_objs g).
Let dims := dims_spec dobjs.
Let cb := chunk_bytes dims.

Lemma cut_cb_pos : 0 < cb.
Proof.
  pose proof Hok as (_ & _ & _ & _ & m & Hm & Hlen & _).
  destruct (daqmx_seg_ok_dims g data Hok) as [_ Hnn].
  pose proof (chunk_bytes_nonneg _ Hnn) as Hcb0. fold dobjs dims cb in Hcb0, Hlen. nia.
Qed.

Lemma cut_seg_total_absent p :
  (forall o, In o dobjs -> so_path o <> p) -> seg_total p gc = 0.
Proof.
  intros Habs. unfold seg_total. rewrite obj_total_data_objs, Hobjs, obj_total_path_count'.
  apply path_count_absent. exact Habs.
Qed.

Lemma cut_seg_total_at o :
  In o dobjs -> seg_total (so_path o) gc = seg_values o (sg_nchunks gc) (sg_final gc).
Proof.
  intros Ho. unfold seg_total. rewrite obj_total_data_objs, Hobjs, obj_total_path_count'.
  pose proof Hok as (_ & Hnd & _).
  exact (path_count_unique (so_path o) _ _ o Hnd Ho eq_refl).
Qed.

Lemma daqmx_cut_count_typed p :
  typed_view p g ->
  Z.of_nat (length (chan_values p (cut_direct_chunks g data j))) = seg_total p gc.
Proof.
  intros Hview. pose proof cut_cb_pos as Hcb. pose proof Hok as (_ & Hnd & _). fold dobjs in Hnd.
  destruct (path_in_dec p dobjs) as [(o & Ho & Hp)|Habs].
  - subst p. rewrite (cut_seg_total_at o Ho).
    pose proof (daqmx_seg_ok_kinds g data Hok) as Hk. rewrite Forall_forall in Hk.
    destruct (Hk o Ho) as (q & Hq & _ & [Hraw|(s & dt & Hs & Hdt & Hne)]).
    { exfalso. exact (Hview o Ho eq_refl Hraw). }
    assert (Hded : dedup_z (map sc_buf (dq_scalers q)) = [sc_buf s]) by (rewrite Hs; reflexivity).
    destruct (daqmx_cut_credit g gc data j o q (sc_buf s) Hok Hj Htoc Hobjs Hcc Ho Hq Hded) as (Hcred & _ & Hlens).
    fold dobjs dims cb in Hcred, Hlens. rewrite Hcred.
    assert (Hsin : In s (dq_scalers q)) by (rewrite Hs; left; reflexivity).
    unfold chan_values.
    apply (cut_direct_values_length g data j (chunk_values (so_path o)) (so_nvals o)); [lia|exact Hcb| |].
    + intros i. fold dobjs dims. rewrite direct_chunk_gen.
      rewrite (gen_chunk_typed_values _ dobjs o q s dt Hnd Ho Hq Hdt Hne Hs).
      exact (proj1 (Hlens (toc_endian (sg_toc g)) s i Hsin)).
    + fold dobjs dims cb. unfold direct_chunk_rows.
      rewrite (gen_chunk_typed_values _ dobjs o q s dt Hnd Ho Hq Hdt Hne Hs).
      exact (proj2 (Hlens (toc_endian (sg_toc g)) s _ Hsin)).
  - rewrite (cut_seg_total_absent p Habs).
    unfold chan_values. rewrite (flat_map_all_nil (chunk_values p)); [reflexivity|].
    intros c Hc. unfold cut_direct_chunks in Hc. cbv zeta in Hc. fold dobjs dims cb in Hc.
    apply in_app_or in Hc. destruct Hc as [Hc|Hc].
    + apply in_map_iff in Hc. destruct Hc as (i & <- & _). rewrite direct_chunk_gen.
      exact (proj1 (gen_chunk_absent _ dobjs p Habs)).
    + destruct (j mod cb =? 0); [destruct Hc|]. destruct Hc as [<-|[]].
      exact (proj1 (gen_chunk_absent _ dobjs p Habs)).
Qed.

Lemma daqmx_cut_count_raw p id :
  raw_view p id g -> seg_one_buffer g ->
  Z.of_nat (length (chan_scaler_values p id (cut_direct_chunks g data j))) = seg_total p gc.
Proof.
  intros Hview Hone. pose proof cut_cb_pos as Hcb. pose proof Hok as (_ & Hnd & _). fold dobjs in Hnd.
  destruct (path_in_dec p dobjs) as [(o & Ho & Hp)|Habs].
  - subst p. rewrite (cut_seg_total_at o Ho).
    pose proof (daqmx_seg_ok_kinds g data Hok) as Hk. rewrite Forall_forall in Hk.
    destruct (Hk o Ho) as (q & Hq & Hids & Hkind).
    assert (Hty : so_dtype o <> None) by (destruct Hkind as [H|(s & dt & _ & H & _)]; rewrite H; discriminate).
    destruct (Hview o Ho eq_refl Hty) as (Hraw & q' & Hq' & Hin).
    rewrite Hq in Hq'. injection Hq' as <-.
    apply in_map_iff in Hin. destruct Hin as (s & Hsid & Hs). subst id.
    assert (Hded : dedup_z (map sc_buf (dq_scalers q)) = [sc_buf s]).
    { apply dedup_z_const.
      - destruct (dq_scalers q); [destruct Hs|discriminate].
      - intros x Hx. apply in_map_iff in Hx. destruct Hx as (s' & <- & Hs').
        unfold seg_one_buffer in Hone. rewrite Forall_forall in Hone. specialize (Hone o Ho).
        unfold obj_one_buffer in Hone. rewrite Hq in Hone. exact (Hone s' s Hs' Hs). }
    destruct (daqmx_cut_credit g gc data j o q (sc_buf s) Hok Hj Htoc Hobjs Hcc Ho Hq Hded) as (Hcred & _ & Hlens).
    fold dobjs dims cb in Hcred, Hlens. rewrite Hcred.
    unfold chan_scaler_values.
    apply (cut_direct_values_length g data j (chunk_scaler_values (so_path o) (sc_id s)) (so_nvals o));
      [lia|exact Hcb| |].
    + intros i. fold dobjs dims. rewrite direct_chunk_gen.
      rewrite (gen_chunk_raw_values _ dobjs o q s Hnd Ho Hq Hraw Hids Hs).
      exact (proj1 (Hlens (toc_endian (sg_toc g)) s i Hs)).
    + fold dobjs dims cb. unfold direct_chunk_rows.
      rewrite (gen_chunk_raw_values _ dobjs o q s Hnd Ho Hq Hraw Hids Hs).
      exact (proj2 (Hlens (toc_endian (sg_toc g)) s _ Hs)).
  - rewrite (cut_seg_total_absent p Habs).
    unfold chan_scaler_values. rewrite (flat_map_all_nil (chunk_scaler_values p id)); [reflexivity|].
    intros c Hc. unfold cut_direct_chunks in Hc. cbv zeta in Hc. fold dobjs dims cb in Hc.
    apply in_app_or in Hc. destruct Hc as [Hc|Hc].
    + apply in_map_iff in Hc. destruct Hc as (i & <- & _). rewrite direct_chunk_gen.
      exact (proj2 (gen_chunk_absent _ dobjs p Habs) id).
    + destruct (j mod cb =? 0); [destruct Hc|]. destruct Hc as [<-|[]].
      exact (proj2 (gen_chunk_absent _ dobjs p Habs) id).
Qed.
End CutCount.

(* ======================================================================== *)
(* The eager data pass over the cut file                                      *)
(* ======================================================================== *)

(* what the receivers hold after the chunks [chunks] were handed to them *)
Definition run_spec (recv recv' : alist (option cdata)) (chunks : list chunk) : Prop :=
  forall p, alookup p recv' =
            option_map (radd2 (chan_values p chunks) (fun id => chan_scaler_values p id chunks))
                       (alookup p recv).

Lemma run_spec_nil recv : run_spec recv recv [].
Proof.
  intros p. cbn [chan_values chan_scaler_values flat_map].
  destruct (alookup p recv) as [x|]; cbn [option_map]; [|reflexivity].
  f_equal. symmetry. exact (radd2_nil x).
Qed.

Lemma run_spec_ext recv recv' a b :
  Forall2 chunk_ext a b -> run_spec recv recv' a -> run_spec recv recv' b.
Proof.
  intros Hext H p. rewrite (H p). destruct (chunks_ext_values _ _ Hext p) as [Hv Hs].
  destruct (alookup p recv) as [x|]; cbn [option_map]; [|reflexivity]. f_equal.
  apply radd2_ext; [exact Hv|exact Hs].
Qed.

Lemma run_spec_trans r0 r1 r2 a b :
  run_spec r0 r1 a -> run_spec r1 r2 b -> run_spec r0 r2 (a ++ b).
Proof.
  intros H1 H2 p. rewrite (H2 p), (H1 p).
  destruct (alookup p r0) as [x|]; cbn [option_map]; [|reflexivity]. f_equal.
  rewrite radd2_radd2. apply radd2_ext.
  - rewrite chan_values_app. reflexivity.
  - intros id. rewrite chan_scaler_values_app. reflexivity.
Qed.

Lemma only_cdata_chan_scaler_values p id (chunks : list chunk) :
  Forall only_cdata chunks -> chan_scaler_values p id chunks = [].
Proof.
  intros H. unfold chan_scaler_values. apply flat_map_all_nil. intros c Hc.
  rewrite Forall_forall in H. apply only_cdata_scaler_values. exact (H c Hc).
Qed.

Lemma seg_encodes_layout g data cs :
  seg_encodes g data cs -> data <> [] -> exists lay, seg_layout g = Ok lay /\ lay <> LDaqmx.
Proof.
  intros [Hd Hdata | css Hlay _ _ _ _ _ | nv m rows Hlay _ _ _ _ _ _ _ _ _] Hne.
  - contradiction.
  - exists LContig. split; [exact Hlay|discriminate].
  - exists LInterleaved. split; [exact Hlay|discriminate].
Qed.

Lemma typed_view_objs p g g' : sg_objs g' = sg_objs g -> typed_view p g' -> typed_view p g.
Proof. unfold typed_view. intros ->. exact (fun H => H). Qed.

Lemma raw_view_objs p id g g' : sg_objs g' = sg_objs g -> raw_view p id g' -> raw_view p id g.
Proof. unfold raw_view. intros ->. exact (fun H => H). Qed.

(* a plain decoded chunk list holds nothing under a path seen as raw scaler data *)
Lemma plain_decode_raw_view g cur cs cur' lay p id :
  seg_layout g = Ok lay -> lay <> LDaqmx ->
  read_segment_chunks g cur = Ok (cs, cur') ->
  raw_view p id g -> chan_values p cs = [].
Proof.
  intros Hlay Hne H Hview. unfold chan_values. apply flat_map_all_nil. intros c Hc.
  apply chunk_values_not_in. intros Hin. apply in_map_iff in Hin. destruct Hin as (kv & Hk & Hkv).
  pose proof (plain_decode_entries g cur cs cur' lay Hlay Hne H) as HF.
  rewrite Forall_forall in HF. specialize (HF c Hc). rewrite Forall_forall in HF.
  destruct (HF kv Hkv) as (vs & o & _ & Ho & Hp & Hty).
  destruct (Hview o Ho (eq_trans Hp Hk) Hty) as (_ & q & Hq & _).
  rewrite (seg_layout_not_daqmx g lay Hlay Hne o Ho) in Hq. discriminate.
Qed.

Lemma eager_loop_cut_dq : forall pos segs k gs gsc n,
    cut_segs pos segs k gs gsc n ->
    forall chunkss pre,
      wf_file segs -> pos = blen pre ->
      segs_at pos segs gs -> segs_content gs segs chunkss ->
      exists tail,
        cut_tail pos segs k gs chunkss tail /\
        (forall recv,
            (forall g kv, In g gsc -> entry_origin g kv -> entry_fits kv (alookup (fst kv) recv)) ->
            exists recv', fold_left (eager_step (take k (pre ++ ser_file segs))) gsc (Ok recv) = Ok recv' /\
                          run_spec recv recv' (concat (firstn n chunkss) ++ tail)) /\
        (forall p, (forall g, In g gsc -> typed_view p g) ->
                   zsum (map (seg_total p) gsc)
                   = Z.of_nat (length (chan_values p (concat (firstn n chunkss) ++ tail)))) /\
        (forall p id, (forall g, In g gsc -> raw_view p id g) -> cut_one_buffer pos segs k gs ->
                      zsum (map (seg_total p) gsc)
                      = Z.of_nat (length (chan_scaler_values p id (concat (firstn n chunkss) ++ tail)))).
Proof.
  induction 1 as [pos k|pos s r k g gs Hk|pos s r k g gs gc Hk Hc|pos s r k g gs gsc n Hk Hcs IH];
    intros chunkss pre Hwf Hpos Hat Hcon.
  - inversion Hcon; subst. exists []. split; [reflexivity|]. split; [|split].
    + intros recv _. exists recv. split; [reflexivity|]. apply run_spec_nil.
    + intros p _. reflexivity.
    + intros p id _ _. reflexivity.
  - inversion Hcon as [|g' gs' s' r' cs css Hcs Hcon']; subst g' gs' s' r' chunkss.
    exists []. split; [|split; [|split]].
    + cbn [cut_tail]. replace (k <? pos + 28 + blen (fs_meta_bytes s)) with true by lia. reflexivity.
    + intros recv _. exists recv. split; [reflexivity|]. apply run_spec_nil.
    + intros p _. reflexivity.
    + intros p id _ _. reflexivity.
  - (* the cut segment *)
    inversion Hat as [|pos' s' r' g' gs' Hg Hat']; subst pos' s' r' g' gs'.
    inversion Hcon as [|g' gs' s' r' cs css Hcs Hcon']; subst g' gs' s' r' chunkss.
    unfold wf_file in Hwf. cbn [forallb] in Hwf. apply andb_prop in Hwf. destruct Hwf as [Hs Hr].
    destruct Hc as (Hcp & Hct & Hcd & Hcn & Hci & Hco & Hcc).
    destruct Hg as (Hgp & Hgt & Hgd & Hgn & Hgi & Hgcc).
    pose proof (wf_seg_leadin false s Hs) as HwfL. change (tag_of false) with TAG_DATA in HwfL.
    pose proof (ser_leadin_length _ HwfL) as HlenL.
    pose proof (blen_nonneg (fs_meta_bytes s)) as Hm0.
    unfold fseg_len in Hk.
    assert (Hj : 0 <= k - sg_data g < blen (fs_data s)) by (rewrite Hgd; lia).
    assert (Hbytes : take k (pre ++ ser_file (s :: r))
                     = pre ++ ser_leadin (seg_leadin TAG_DATA s) ++ fs_meta_bytes s
                           ++ take (k - sg_data g) (fs_data s)).
    { rewrite ser_file_cons, ser_seg_eq. rewrite <- !app_assoc.
      rewrite take_app_ge by lia. f_equal. rewrite take_app_ge by lia.
      rewrite HlenL. f_equal. rewrite take_app_ge by lia. f_equal.
      rewrite take_app_le by lia. f_equal. lia. }
    assert (Htail_test : forall tl, cut_tail_at g s (k - sg_data g) cs tl ->
                                    cut_tail pos (s :: r) k (g :: gs) (cs :: css) tl).
    { intros tl Htl. cbn [cut_tail].
      replace (k <? pos + 28 + blen (fs_meta_bytes s)) with false by lia.
      unfold fseg_len. replace (k <? pos + (28 + blen (fs_meta_bytes s) + blen (fs_data s))) with true by lia.
      rewrite <- Hgd. exact Htl. }
    destruct Hcs as [cs Henc|Hok].
    + (* ... is an ordinary segment *)
      destruct (cut_segment_decodes g gc (fs_data s) cs (k - sg_data g) Henc Hj Hct Hco Hcc)
        as (chunks' & lo & Hread & Hcd' & _ & Hpre & Hcount).
      destruct (seg_encodes_layout g _ cs Henc) as (lay & Hlay & Hlne).
      { intros E. rewrite E in Hj. change (blen []) with 0 in Hj. lia. }
      assert (Hlayc : seg_layout gc = Ok lay) by (rewrite (seg_layout_ext gc g Hct Hco); exact Hlay).
      exists chunks'. split; [|split; [|split]].
      * apply Htail_test. split.
        -- intros Hok. exfalso. exact (seg_encodes_not_daqmx_ok g _ cs Henc Hok).
        -- intros p. split; [apply Hpre|]. intros id.
           rewrite (only_cdata_chan_scaler_values p id chunks' Hcd'). apply is_prefix_nil.
      * intros recv Hfit. cbn [fold_left]. unfold eager_step. cbn [bind].
        rewrite Hbytes, (read_segment_at pre s _ gc Hs) by lia. rewrite Hread. cbn [bind].
        destruct (receive_chunks_gen chunks' recv) as (recv' & Hfold & Hlk).
        { intros c kv Hc Hkv. apply (Hfit gc kv); [left; reflexivity|].
          exact (plain_decode_origin gc _ chunks' lo lay Hlayc Hlne Hread c kv Hc Hkv). }
        exists recv'. split; [exact Hfold|]. exact Hlk.
      * intros p _. cbn [map zsum fold_right firstn concat app]. rewrite <- Hcount. lia.
      * intros p id Hview _. cbn [map zsum fold_right firstn concat app].
        rewrite (only_cdata_chan_scaler_values p id chunks' Hcd'). rewrite <- Hcount.
        rewrite (plain_decode_raw_view gc _ chunks' lo lay p id Hlayc Hlne Hread (Hview gc (or_introl eq_refl))).
        reflexivity.
    + (* ... is a DAQmx segment *)
      destruct (daqmx_truncation_complete_rows g gc (fs_data s) (k - sg_data g) Hok Hj Hct Hco Hcc)
        as (cs_dec & cur' & Hread & Hext & Hshape & Hn).
      exists (cut_direct_chunks g (fs_data s) (k - sg_data g)). split; [|split; [|split]].
      * apply Htail_test. split; [reflexivity|]. intros p.
        destruct (daqmx_cut_prefix g (fs_data s) (k - sg_data g) Hok Hj p) as [[Hp1 _] Hp2].
        split; [exact Hp1|]. intros id. exact (proj1 (Hp2 id)).
      * intros recv Hfit. cbn [fold_left]. unfold eager_step. cbn [bind].
        rewrite Hbytes, (read_segment_at pre s _ gc Hs) by lia. rewrite Hread. cbn [bind].
        destruct (receive_chunks_gen cs_dec recv) as (recv' & Hfold & Hlk).
        { intros c kv Hc Hkv. apply (Hfit gc kv); [left; reflexivity|].
          apply (entry_origin_objs g gc kv Hco).
          rewrite Forall_forall in Hshape.
          exact (chunk_shape_origin g _ c Hok (Hshape c Hc) kv Hkv). }
        exists recv'. split; [exact Hfold|]. cbn [firstn concat app].
        exact (run_spec_ext recv recv' _ _ Hext Hlk).
      * intros p Hview. cbn [map zsum fold_right firstn concat app].
        rewrite (daqmx_cut_count_typed g gc (fs_data s) (k - sg_data g) Hok Hj Hct Hco Hcc p
                   (typed_view_objs p g gc Hco (Hview gc (or_introl eq_refl)))). lia.
      * intros p id Hview Hone. cbn [map zsum fold_right firstn concat app].
        cbn [cut_one_buffer] in Hone.
        replace (k <? pos + 28 + blen (fs_meta_bytes s)) with false in Hone by lia.
        unfold fseg_len in Hone.
        replace (k <? pos + (28 + blen (fs_meta_bytes s) + blen (fs_data s))) with true in Hone by lia.
        rewrite (daqmx_cut_count_raw g gc (fs_data s) (k - sg_data g) Hok Hj Hct Hco Hcc p id
                   (raw_view_objs p id g gc Hco (Hview gc (or_introl eq_refl))) Hone). lia.
  - (* a segment wholly before the cut *)
    inversion Hat as [|pos' s' r' g' gs' Hg Hat']; subst pos' s' r' g' gs'.
    inversion Hcon as [|g' gs' s' r' cs css Hcs' Hcon']; subst g' gs' s' r' chunkss.
    unfold wf_file in Hwf. cbn [forallb] in Hwf. apply andb_prop in Hwf. destruct Hwf as [Hs Hr].
    pose proof (blen_ser_seg_data s Hs) as Hbs.
    pose proof (blen_nonneg (fs_meta_bytes s)) as Hm0. pose proof (blen_nonneg (fs_data s)) as Hd0.
    destruct (IH css (pre ++ ser_seg TAG_DATA true s) Hr) as (tail & Htail & Hrun & Hcnt_t & Hcnt_r);
      [rewrite blen_app, Hbs; lia|exact Hat'|exact Hcon'|].
    set (data := take k (pre ++ ser_file (s :: r))) in *.
    assert (Hd2 : take k ((pre ++ ser_seg TAG_DATA true s) ++ ser_file r) = data).
    { unfold data. rewrite ser_file_cons, <- app_assoc. reflexivity. }
    rewrite Hd2 in Hrun.
    pose proof Hg as Hg0. rewrite Hpos in Hg0.
    destruct (seg_content_decodes g s cs (blen pre) (take (k - blen pre - fseg_len s) (ser_file r)) Hg0 Hcs')
      as (cs_dec & cur' & Hdec & Hext & Horig).
    assert (Hread : read_segment data g = Ok cs_dec).
    { unfold fseg_len in Hk, Hbs.
      unfold data. rewrite ser_file_cons. rewrite take_app_ge by lia.
      rewrite take_app_ge by (rewrite Hbs; lia). rewrite Hbs.
      rewrite (read_segment_ser pre s _ g Hs Hg0).
      replace (k - blen pre - (28 + blen (fs_meta_bytes s) + blen (fs_data s)))
        with (k - blen pre - fseg_len s) by (unfold fseg_len; lia).
      rewrite Hdec. reflexivity. }
    exists tail. split; [|split; [|split]].
    + cbn [cut_tail]. unfold fseg_len in Hk |- *.
      replace (k <? pos + 28 + blen (fs_meta_bytes s)) with false by lia.
      replace (k <? pos + (28 + blen (fs_meta_bytes s) + blen (fs_data s))) with false by lia.
      exact Htail.
    + intros recv Hfit. cbn [fold_left]. unfold eager_step at 2. cbn [bind]. rewrite Hread. cbn [bind].
      destruct (receive_chunks_gen cs_dec recv) as (recv1 & H1 & Hlk1).
      { intros c kv Hc Hin. apply (Hfit g kv); [left; reflexivity|exact (Horig c kv Hc Hin)]. }
      rewrite H1.
      destruct (Hrun recv1) as (recv' & H2 & Hlk2).
      { intros g0 kv Hg0' Hkv. rewrite (Hlk1 (fst kv)). apply entry_fits_radd2.
        apply (Hfit g0 kv); [right; exact Hg0'|exact Hkv]. }
      exists recv'. split; [exact H2|].
      cbn [firstn concat]. rewrite <- app_assoc.
      apply (run_spec_trans recv recv1 recv'); [|exact Hlk2].
      exact (run_spec_ext recv recv1 _ _ Hext Hlk1).
    + intros p Hview. cbn [map zsum fold_right firstn concat]. fold (zsum (map (seg_total p) gsc)).
      rewrite <- app_assoc, chan_values_app, app_length, Nat2Z.inj_add.
      rewrite (Hcnt_t p) by (intros g0 Hg0'; apply Hview; right; exact Hg0').
      rewrite (seg_content_count_typed g s cs pos p Hg Hcs' (Hview g (or_introl eq_refl))). reflexivity.
    + intros p id Hview Hone. cbn [map zsum fold_right firstn concat]. fold (zsum (map (seg_total p) gsc)).
      rewrite <- app_assoc, chan_scaler_values_app, app_length, Nat2Z.inj_add.
      cbn [cut_one_buffer] in Hone. unfold fseg_len in Hk, Hone.
      replace (k <? pos + 28 + blen (fs_meta_bytes s)) with false in Hone by lia.
      replace (k <? pos + (28 + blen (fs_meta_bytes s) + blen (fs_data s))) with false in Hone by lia.
      rewrite (Hcnt_r p id) by (try (intros g0 Hg0'; apply Hview; right; exact Hg0'); exact Hone).
      rewrite (seg_content_count_raw g s cs pos p id Hg Hcs' (Hview g (or_introl eq_refl))). reflexivity.
Qed.

(* ======================================================================== *)
(* The reader state of the cut file against the run on the segments whose      *)
(* metadata lies before the cut                                               *)
(* ======================================================================== *)

Definition same_objs (a b : segment) : Prop := sg_objs a = sg_objs b.

(* TruncValuesFile.cut_prefix_sim, with the segment records: same object lists *)
Lemma cut_prefix_segs : forall segs w k pos ps pi st stf stc,
    sm_loop segs w pos ps pi st = Ok stf ->
    cut_loop segs k w pos ps pi st = Ok stc ->
    exists stp gsc gsp,
      sm_loop (firstn (meta_count pos segs k) segs) w pos ps pi st = Ok stp /\
      om_sim (rs_om stc) (rs_om stp) /\
      rs_segments stc = rs_segments st ++ gsc /\
      rs_segments stp = rs_segments st ++ gsp /\
      Forall2 same_objs gsc gsp.
Proof.
  induction segs as [|s r IH]; intros w k pos ps pi st stf stc H Hcut.
  - cbn [cut_loop] in Hcut. injection Hcut as <-. exists st, [], [].
    rewrite app_nil_r. repeat split; try reflexivity; [apply om_sim_refl|constructor].
  - destruct (sm_loop_cons_spec _ _ _ _ _ _ _ _ H)
      as (objs & props & nch & fin & po & om & Hro & Hcc & Hum & Hloop).
    pose proof (blen_nonneg (fs_meta_bytes s)) as Hm0.
    pose proof (blen_nonneg (fs_data s)) as Hd0.
    cbn [cut_loop meta_count] in *.
    destruct (k <? pos + 28 + blen (fs_meta_bytes s)) eqn:E2.
    + exists st, [], []. rewrite app_nil_r. split; [reflexivity|].
      destruct (k <? pos + 28); injection Hcut as <-;
        (split; [apply om_sim_refl|]; split; [reflexivity|]; split; [reflexivity|constructor]).
    + replace (k <? pos + 28) with false in Hcut by lia.
      destruct (k <? pos + 28 + blen (fs_meta_bytes s) + blen (fs_data s)) eqn:E3.
      * rewrite seg_step_g_spec, Hro in Hcut. cbn [bind] in Hcut.
        destruct (calculate_chunks _ true _ _) as [[nch' fin']|e]; cbn [bind] in Hcut; [|discriminate].
        destruct (update_object_metadata objs nch' fin' _ _) as [[po' om2]|e] eqn:Hum';
          cbn [bind] in Hcut; [|discriminate].
        injection Hcut as <-.
        destruct (uom_sim objs nch' fin' nch fin _ _ _ po' om2 (om_sim_refl _) Hum') as (om3 & Hum3 & Hsim).
        rewrite Hum in Hum3. injection Hum3 as <- <-.
        eexists. eexists. eexists. split.
        -- cbn [firstn]. rewrite sm_loop_cons, seg_step_is_g, seg_step_g_spec, Hro. cbn [bind].
           rewrite Hcc. cbn [bind]. rewrite Hum. cbn [bind]. rewrite sm_loop_nil. reflexivity.
        -- cbn [step_state rs_om rs_segments]. split; [apply uop_sim; exact Hsim|].
           split; [reflexivity|]. split; [reflexivity|].
           constructor; [reflexivity|constructor].
      * rewrite seg_step_g_spec, Hro in Hcut. cbn [bind] in Hcut. rewrite Hcc in Hcut. cbn [bind] in Hcut.
        rewrite Hum in Hcut. cbn [bind] in Hcut.
        destruct (IH _ _ _ _ _ _ _ _ Hloop Hcut) as (stp & gsc & gsp & Hp & Hsim & Hsc & Hsp & HF).
        cbn [step_state rs_segments] in Hsc, Hsp.
        exists stp. eexists. eexists. split.
        -- cbn [firstn]. rewrite sm_loop_cons, seg_step_is_g, seg_step_g_spec, Hro. cbn [bind].
           rewrite Hcc. cbn [bind]. rewrite Hum. cbn [bind]. exact Hp.
        -- split; [exact Hsim|]. rewrite <- app_assoc in Hsc, Hsp.
           split; [exact Hsc|]. split; [exact Hsp|].
           cbn [app]. constructor; [reflexivity|exact HF].
Qed.

Lemma mtracks_sim m m' o : ometa_sim m m' -> mtracks m' o -> mtracks m o.
Proof. intros (_ & Hd & Hs) [H1 H2]. split; [rewrite Hd; exact H1|rewrite Hs; exact H2]. Qed.

Lemma om_tracks_sim om om' o : om_sim om om' -> om_tracks om' o -> om_tracks om o.
Proof.
  intros Hsim (m' & Hm' & Ht). pose proof (al_rel_lookup ometa_sim om om' (so_path o) Hsim) as Hl.
  rewrite Hm' in Hl. destruct (alookup (so_path o) om) as [m|] eqn:Em; [|contradiction].
  exists m. split; [exact Em|]. exact (mtracks_sim m m' o Hl Ht).
Qed.

(* ---- typed_object_channel / entry_origin_fits of ReadCorrectDaqmx.v, for any
   per-object metadata that tracks the objects of a list of segment records ---- *)

Lemma typed_object_channel_gen (om : alist ometa) h (gs : list segment) g o dt :
  (forall g o, In g gs -> In o (sg_objs g) -> om_tracks om o) ->
  NoDup (map fst om) ->
  build_hierarchy om = Ok h ->
  om_paths_canonical om ->
  typed_objects_are_channels om ->
  In g gs -> In o (sg_objs g) -> so_dtype o = Some dt ->
  exists m ch, alookup (so_path o) om = Some m /\ mtracks m o /\
               In ch (all_channels h) /\ ch_path ch = so_path o /\
               ch_dtype ch = Some dt /\ ch_scalers ch = om_scalers m /\ ch_len ch = om_len m.
Proof.
  intros Htr Hnd Hh Hcanon Hshape Hg Ho Hdt.
  destruct (Htr g o Hg Ho) as (m & Hm & Ht).
  pose proof (alookup_In _ _ _ Hm) as Hin.
  assert (Hmdt : om_dtype m = Some dt) by (apply (proj1 Ht); exact Hdt).
  destruct (Hshape _ m Hin) as (gn & cn & Hparse); [rewrite Hmdt; discriminate|].
  exists m, (chan_of_om gn cn m). split; [exact Hm|]. split; [exact Ht|].
  split; [exact (build_hierarchy_complete _ h _ m gn cn Hh Hnd Hcanon Hin Hparse)|].
  split; [exact (Hcanon _ m gn cn Hin Hparse)|]. split; [exact Hmdt|]. split; reflexivity.
Qed.

Lemma entry_origin_fits_gen (om : alist ometa) h (gs : list segment) recv0 g kv :
  (forall g o, In g gs -> In o (sg_objs g) -> om_tracks om o) ->
  (forall g o, In g gs -> In o (sg_objs g) -> so_dtype o = Some T_DAQMX -> so_daqmx o <> None) ->
  NoDup (map fst om) ->
  build_hierarchy om = Ok h ->
  om_paths_canonical om ->
  typed_objects_are_channels om ->
  (forall c, In c (all_channels h) -> alookup (ch_path c) recv0 = Some (recv_init2 c)) ->
  In g gs -> entry_origin g kv ->
  entry_fits kv (alookup (fst kv) recv0).
Proof.
  intros Htr Hdq Hnd Hh Hcanon Hshape Hrecv Hg Horig.
  assert (Hsub : forall o, In o (data_objs (sg_objs g)) -> In o (sg_objs g)).
  { intros o Ho. unfold data_objs in Ho. apply filter_In in Ho. tauto. }
  destruct Horig as [(vs & o & dt & Hv & Ho & Hp & Hdt & Hnq)|(l & o & q & Hl & Ho & Hp & Hdt & Hq & Hids)].
  - destruct (typed_object_channel_gen om h gs g o dt Htr Hnd Hh Hcanon Hshape Hg (Hsub o Ho) Hdt)
      as (m & ch & Hm & Ht & Hch & Hcp & Hcd & Hcs & _).
    assert (Hne : dt <> T_DAQMX).
    { destruct Hnq as [Hnone|Hne]; [|exact Hne]. intros ->.
      exact (Hdq g o Hg (Hsub o Ho) Hdt Hnone). }
    unfold entry_fits. rewrite Hv, <- Hp, <- Hcp, (Hrecv ch Hch). unfold recv_init2. rewrite Hcd.
    replace (dt =? T_DAQMX) with false by lia. eexists. reflexivity.
  - destruct (typed_object_channel_gen om h gs g o T_DAQMX Htr Hnd Hh Hcanon Hshape Hg (Hsub o Ho) Hdt)
      as (m & ch & Hm & Ht & Hch & Hcp & Hcd & Hcs & _).
    destruct (proj2 Ht q Hq) as (sts & Hsts & Hnds & Heq).
    unfold entry_fits. rewrite Hl, <- Hp, <- Hcp, (Hrecv ch Hch). unfold recv_init2.
    rewrite Hcd, Z.eqb_refl, Hcs, Hsts. eexists. split; [reflexivity|].
    rewrite map_keys_same. split; [exact Hnds|].
    intros iv Hiv. apply (st_equiv_keys _ _ _ Heq). apply scaler_types_keys. exact (Hids iv Hiv).
Qed.

(* ======================================================================== *)
(* Reading a cut file: the core                                               *)
(* ======================================================================== *)

(* len(channel) = the number of values returned, per channel / per scale id *)
Definition lens_ok (chunks : list chunk) (c : channel) : Prop :=
  (forall dt, ch_dtype c = Some dt -> dt <> T_DAQMX ->
              ch_len c = Z.of_nat (length (chan_values (ch_path c) chunks))) /\
  (forall sts id, ch_dtype c = Some T_DAQMX -> ch_scalers c = Some sts -> In id (map fst sts) ->
                  ch_len c = Z.of_nat (length (chan_scaler_values (ch_path c) id chunks))).

Lemma lens_ok_consistent chunks c :
  lens_ok chunks c -> cdata_consistent (ch_len c) (expected_data_dq chunks c) = true.
Proof.
  intros [Ht Hr]. unfold expected_data_dq. destruct (ch_dtype c) as [dt|] eqn:Edt; [|reflexivity].
  destruct (dt =? T_DAQMX) eqn:Edq.
  - assert (dt = T_DAQMX) by lia. subst dt.
    destruct (ch_scalers c) as [sts|] eqn:Est; [|reflexivity].
    cbn [cdata_consistent]. apply forallb_forall. intros iv Hiv. apply in_map_iff in Hiv.
    destruct Hiv as (kv & <- & Hkv). cbn [snd fst]. apply Z.eqb_eq. symmetry.
    apply (Hr sts (fst kv) eq_refl eq_refl). apply in_map. exact Hkv.
  - cbn [cdata_consistent]. apply Z.eqb_eq. symmetry. apply (Ht dt eq_refl). lia.
Qed.

Lemma cut_segs_origin pos segs k gs gsc n :
  cut_segs pos segs k gs gsc n ->
  forall g, In g gsc -> exists g', In g' gs /\ sg_objs g = sg_objs g'.
Proof.
  induction 1 as [pos k|pos s r k g gs Hk|pos s r k g gs gc Hk Hc|pos s r k g gs gsc n Hk Hcs IH];
    intros g0 Hg0.
  - destruct Hg0.
  - destruct Hg0.
  - destruct Hg0 as [<-|[]]. destruct Hc as (_ & _ & _ & _ & _ & Hco & _).
    exists g. split; [left; reflexivity|exact Hco].
  - destruct Hg0 as [<-|Hg0].
    + exists g. split; [left; reflexivity|reflexivity].
    + destruct (IH g0 Hg0) as (g' & Hg' & Ho). exists g'. split; [right; exact Hg'|exact Ho].
Qed.

Theorem cut_read_core_dq segs st h chunkss k :
  wf_file segs ->
  sm_run segs false = Ok st ->
  build_hierarchy (rs_om st) = Ok h ->
  segs_content (rs_segments st) segs chunkss ->
  om_paths_canonical (rs_om st) ->
  typed_objects_are_channels (rs_om st) ->
  cut_one_buffer 0 segs k (rs_segments st) ->
  0 <= k <= blen (ser_file segs) ->
  exists stc hc tail stp,
    cut_loop segs k false 0 None [] rstate0 = Ok stc /\
    build_hierarchy (rs_om stc) = Ok hc /\
    sm_run (firstn (meta_count 0 segs k) segs) false = Ok stp /\
    om_sim (rs_om stc) (rs_om stp) /\
    cut_tail 0 segs k (rs_segments st) chunkss tail /\
    rd_all (take k (ser_file segs))
    = Ok (expected_tokens_dq stc hc (concat (firstn (whole_count 0 segs k) chunkss) ++ tail), true) /\
    (forall c, In c (all_channels hc) ->
               lens_ok (concat (firstn (whole_count 0 segs k) chunkss) ++ tail) c) /\
    last_inc (rs_segments stc) = cut_in_data 0 segs k.
Proof.
  intros Hwf Hrun Hh Hcon Hcanon Hshape Hone Hk.
  pose proof Hrun as Hrun0. unfold sm_run in Hrun.
  destruct (cut_trace segs false k 0 None [] rstate0 st Hrun)
    as (stc & gs & gsc & n & Hcut & Hsegs & Hat & Hsegsc & Hcs & Hlen & Hnd & Htyped & Hext).
  cbn [rstate0 rs_segments rs_om app] in Hsegs, Hsegsc, Hlen, Hnd, Htyped.
  rewrite Hsegs in Hcon, Hone.
  destruct (eager_loop_cut_dq 0 segs k gs gsc n Hcs chunkss [] Hwf eq_refl Hat Hcon)
    as (tail & Htail & Hrunc & Hcnt_t & Hcnt_r).
  cbn [app] in Hrunc.
  specialize (Hnd (NoDup_nil _)).
  pose proof (om_ext_canonical _ _ Hext Hcanon) as Hcanonc.
  pose proof (om_ext_typed_channels _ _ Hnd Hext Hshape) as Hshapec.
  destruct (build_hierarchy_ok (rs_om stc) (om_ext_parses _ _ h Hext Hh)) as [hc Hhc].
  pose proof (cut_segs_count _ _ _ _ _ _ Hcs) as Hn. subst n.
  (* the run on the segments whose metadata lies before the cut *)
  destruct (cut_prefix_segs segs false k 0 None [] rstate0 st stc Hrun Hcut)
    as (stp & gsc' & gsp & Hp & Hsim & Hsc' & Hsp & HF).
  cbn [rstate0 rs_segments app] in Hsc', Hsp. rewrite Hsegsc in Hsc'. subst gsc'.
  assert (Hrunp : sm_run (firstn (meta_count 0 segs k) segs) false = Ok stp) by exact Hp.
  (* the cut state's metadata tracks the objects of its segment records *)
  assert (Htr : forall g o, In g gsc -> In o (sg_objs g) -> om_tracks (rs_om stc) o).
  { intros g o Hg Ho. destruct (Forall2_in_l _ _ _ g HF Hg) as (g' & Hg' & Hobjs).
    unfold same_objs in Hobjs. rewrite Hobjs in Ho. rewrite <- Hsp in Hg'.
    exact (om_tracks_sim _ _ o Hsim (sm_run_tracks _ false stp Hrunp g' o Hg' Ho)). }
  assert (Hdq : forall g o, In g gsc -> In o (sg_objs g) -> so_dtype o = Some T_DAQMX -> so_daqmx o <> None).
  { intros g o Hg Ho Hdt. destruct (cut_segs_origin _ _ _ _ _ _ Hcs g Hg) as (g' & Hg' & Hobjs).
    rewrite Hobjs in Ho. rewrite <- Hsegs in Hg'.
    exact (proj1 (sm_run_dq segs false st Hrun0 g' o Hg' Ho) Hdt). }
  (* receivers *)
  assert (Hsc : forall c, In c (all_channels hc) -> ch_dtype c = Some T_DAQMX -> ch_scalers c <> None).
  { intros c Hc Hdt.
    destruct (build_hierarchy_channels _ _ Hhc c Hc) as (pstr & m & Hin & _ & Heq).
    pose proof (alookup_in_nodup pstr m (rs_om stc) Hnd Hin) as Hlk.
    assert (Hm : om_dtype m = Some T_DAQMX) by (rewrite <- Hdt, Heq; reflexivity).
    pose proof (al_rel_lookup ometa_sim _ _ pstr Hsim) as Hl. rewrite Hlk in Hl.
    destruct (alookup pstr (rs_om stp)) as [m'|] eqn:Em'; [|contradiction].
    destruct Hl as (_ & Hd & Hs).
    destruct (daqmx_typed_has_scalers _ false stp pstr m' Hrunp Em') as (sts & Hsts & _);
      [rewrite <- Hd; exact Hm|].
    rewrite Heq. cbn [chan_of_om ch_scalers]. rewrite Hs, Hsts. discriminate. }
  destruct (recv0_fold_gen (all_channels hc) [] Hsc (channel_paths_distinct_ser _ hc Hhc Hcanonc))
    as (recv0 & H0 & Hin0 & _).
  destruct (Hrunc recv0) as (recv & Hfold & Hlk).
  { intros g kv Hg Hkv.
    exact (entry_origin_fits_gen (rs_om stc) hc gsc recv0 g kv Htr Hdq Hnd Hhc Hcanonc Hshapec Hin0 Hg Hkv). }
  set (chunks_c := concat (firstn (whole_count 0 segs k) chunkss) ++ tail) in *.
  (* lengths *)
  assert (Hlens : forall c, In c (all_channels hc) -> lens_ok chunks_c c).
  { intros c Hc.
    destruct (chan_from_om_canonical2 _ c Hcanonc (build_hierarchy_channels _ _ Hhc c Hc))
      as (m & Hin & Hdt & Hl & Hscl).
    pose proof (alookup_in_nodup _ m (rs_om stc) Hnd Hin) as Hlkm.
    assert (Hlen' : ch_len c = zsum (map (seg_total (ch_path c)) gsc)).
    { rewrite Hl. specialize (Hlen (ch_path c)). unfold get_ometa in Hlen.
      rewrite Hlkm in Hlen. cbn [alookup ometa0 om_len] in Hlen. lia. }
    assert (Hsub : forall g o, In o (data_objs (sg_objs g)) -> In o (sg_objs g)).
    { intros g o Ho. unfold data_objs in Ho. apply filter_In in Ho. tauto. }
    assert (Htrc : forall g o, In g gsc -> In o (data_objs (sg_objs g)) ->
                               so_path o = ch_path c -> mtracks m o).
    { intros g o Hg Ho Hpo. destruct (Htr g o Hg (Hsub g o Ho)) as (m' & Hm' & Ht).
      rewrite Hpo, Hlkm in Hm'. injection Hm' as <-. exact Ht. }
    split.
    - intros dt Edt Hne. rewrite Hlen'. apply Hcnt_t.
      intros g Hg o Ho Hpo Eo. pose proof (Htrc g o Hg Ho Hpo) as [Ht1 _].
      pose proof (Ht1 _ Eo) as Hm. rewrite <- Hdt, Edt in Hm. injection Hm as ->. apply Hne. reflexivity.
    - intros sts id Edt Est Hid. rewrite Hlen'. apply Hcnt_r; [|exact Hone].
      intros g Hg o Ho Hpo Hty. pose proof (Htrc g o Hg Ho Hpo) as [Ht1 Ht2].
      destruct (so_dtype o) as [dt'|] eqn:Eo; [|contradiction].
      pose proof (Ht1 dt' eq_refl) as Hm. rewrite <- Hdt, Edt in Hm. injection Hm as <-.
      split; [reflexivity|].
      destruct (so_daqmx o) as [q|] eqn:Hq; [|exfalso; exact (Hdq g o Hg (Hsub g o Ho) Eo Hq)].
      exists q. split; [reflexivity|].
      destruct (Ht2 q eq_refl) as (sts' & Hsts' & _ & Heq).
      rewrite <- Hscl, Est in Hsts'. injection Hsts' as <-.
      apply scaler_types_keys. apply (st_equiv_keys _ _ _ Heq). exact Hid. }
  exists stc, hc, tail, stp.
  split; [exact Hcut|]. split; [exact Hhc|]. split; [exact Hrunp|]. split; [exact Hsim|].
  split; [rewrite Hsegs; exact Htail|]. split; [|split; [exact Hlens|]].
  - unfold rd_all, rd_all_from. rewrite blen_take by exact Hk.
    rewrite (rd_metadata_cut segs k false Hwf Hk), Hcut. cbn [bind]. rewrite Hhc. cbn [bind].
    rewrite rd_eager_fold, H0. cbn [bind]. rewrite Hsegsc, Hfold. cbn [bind].
    unfold expected_tokens_dq. fold chunks_c.
    assert (Hdata : forall c, In c (all_channels hc) ->
                              alookup (ch_path c) recv = Some (expected_data_dq chunks_c c)).
    { intros c Hc. rewrite (Hlk (ch_path c)), (Hin0 c Hc). cbn [option_map].
      rewrite radd2_recv_init2. reflexivity. }
    f_equal. f_equal.
    + f_equal. f_equal. apply obs_hierarchy_ext. intros c Hc. rewrite (Hdata c Hc). reflexivity.
    + apply forallb_forall. intros c Hc. rewrite (Hdata c Hc).
      apply lens_ok_consistent. exact (Hlens c Hc).
  - rewrite Hsegsc. exact (cut_segs_last _ _ _ _ _ _ Hcs Hat).
Qed.

(* ======================================================================== *)
(* What [cut_tail] says                                                       *)
(* ======================================================================== *)

(* per path and per (path, scale id): what the cut file holds is a prefix of the
   complete file's values *)
Lemma cut_tail_prefix : forall gs segs chunkss,
    segs_content gs segs chunkss ->
    forall pos k tail,
      cut_tail pos segs k gs chunkss tail ->
      forall p,
        is_prefix (chan_values p (concat (firstn (whole_count pos segs k) chunkss) ++ tail))
                  (chan_values p (concat chunkss)) /\
        forall id,
          is_prefix (chan_scaler_values p id (concat (firstn (whole_count pos segs k) chunkss) ++ tail))
                    (chan_scaler_values p id (concat chunkss)).
Proof.
  induction 1 as [|g gs s r cs css Hcs Hcon IH]; intros pos k tail Htail p.
  - cbn [cut_tail] in Htail. subst tail. cbn [whole_count firstn concat app].
    split; [apply is_prefix_nil|intros id; apply is_prefix_nil].
  - pose proof (blen_nonneg (fs_data s)) as Hd0.
    cbn [cut_tail whole_count] in *. unfold fseg_len in *.
    destruct (k <? pos + 28 + blen (fs_meta_bytes s)) eqn:E1.
    + subst tail. replace (k <? pos + (28 + blen (fs_meta_bytes s) + blen (fs_data s))) with true by lia.
      cbn [firstn concat app]. split; [apply is_prefix_nil|intros id; apply is_prefix_nil].
    + destruct (k <? pos + (28 + blen (fs_meta_bytes s) + blen (fs_data s))) eqn:E2.
      * destruct Htail as [_ Hpre]. destruct (Hpre p) as [Hv Hs].
        cbn [firstn concat app]. split.
        -- rewrite chan_values_app. apply is_prefix_app_r. exact Hv.
        -- intros id. rewrite chan_scaler_values_app. apply is_prefix_app_r. exact (Hs id).
      * destruct (IH _ _ _ Htail p) as [Hv Hs]. cbn [firstn concat]. rewrite <- app_assoc. split.
        -- rewrite !(chan_values_app p cs). apply is_prefix_app_l. exact Hv.
        -- intros id. rewrite !(chan_scaler_values_app p id cs). apply is_prefix_app_l. exact (Hs id).
Qed.

Lemma seg_offset_nonneg : forall segs i, 0 <= seg_offset segs i.
Proof.
  induction segs as [|s r IH]; intros [|i]; cbn [seg_offset]; try lia.
  specialize (IH i). unfold fseg_len.
  pose proof (blen_nonneg (fs_meta_bytes s)). pose proof (blen_nonneg (fs_data s)). lia.
Qed.

(* the cut lies in the raw data of segment i (TruncValuesFile.cut_in_data_spec), a
   readable DAQmx segment: i segments lie wholly before the cut and the tail is
   cut_direct_chunks -- complete chunks, then the complete rows of every raw buffer *)
Lemma cut_tail_daqmx : forall gs segs chunkss,
    segs_content gs segs chunkss ->
    forall pos k tail i s g,
      cut_tail pos segs k gs chunkss tail ->
      nth_error segs i = Some s -> nth_error gs i = Some g ->
      pos + seg_offset segs i + 28 + blen (fs_meta_bytes s) <= k < pos + seg_offset segs i + fseg_len s ->
      daqmx_seg_ok g (fs_data s) ->
      i = whole_count pos segs k /\
      tail = cut_direct_chunks g (fs_data s) (k - (pos + seg_offset segs i + 28 + blen (fs_meta_bytes s))).
Proof.
  induction 1 as [|g0 gs s0 r cs css Hcs Hcon IH]; intros pos k tail i s g Htail Hs Hg Hk Hok.
  - destruct i; discriminate.
  - pose proof (blen_nonneg (fs_data s0)) as Hd0. pose proof (blen_nonneg (fs_meta_bytes s0)) as Hm0.
    cbn [cut_tail whole_count] in *.
    destruct i as [|i]; cbn [nth_error seg_offset] in Hs, Hg, Hk |- *.
    + injection Hs as <-. injection Hg as <-.
      replace (k <? pos + 28 + blen (fs_meta_bytes s0)) with false in Htail by lia.
      replace (k <? pos + fseg_len s0) with true in * by lia.
      split; [reflexivity|]. destruct Htail as [Hdq _].
      rewrite (Hdq Hok). f_equal. lia.
    + pose proof (seg_offset_nonneg r i) as Hoff. pose proof (blen_nonneg (fs_meta_bytes s)) as Hm1.
      unfold fseg_len in Hk, Htail |- *.
      replace (k <? pos + 28 + blen (fs_meta_bytes s0)) with false in Htail by lia.
      replace (k <? pos + (28 + blen (fs_meta_bytes s0) + blen (fs_data s0))) with false in * by lia.
      destruct (IH _ _ _ i s g Htail Hs Hg) as [Hi Ht]; [unfold fseg_len; lia|exact Hok|].
      split; [f_equal; exact Hi|]. rewrite Ht. f_equal. unfold fseg_len. lia.
Qed.

(* the cut is in no segment's raw data: nothing beyond the whole segments *)
Lemma cut_tail_outside : forall segs gs chunkss pos k tail,
    cut_tail pos segs k gs chunkss tail -> cut_in_data pos segs k = false -> tail = [].
Proof.
  induction segs as [|s r IH]; intros gs chunkss pos k tail Htail Hcid; [exact Htail|].
  destruct gs as [|g gs]; [exact Htail|]. destruct chunkss as [|cs css]; [exact Htail|].
  cbn [cut_tail cut_in_data] in *. apply orb_false_iff in Hcid. destruct Hcid as [H1 H2].
  destruct (k <? pos + 28 + blen (fs_meta_bytes s)) eqn:E1; [exact Htail|].
  destruct (k <? pos + fseg_len s) eqn:E2; [lia|].
  exact (IH _ _ _ _ _ Htail H2).
Qed.

(* ======================================================================== *)
(* The composed statement                                                     *)
(* ======================================================================== *)

Definition prefix_clauses (whole chunks_c full : list chunk) : Prop :=
  forall p,
    is_prefix (chan_values p chunks_c) (chan_values p full) /\
    is_prefix (chan_values p whole) (chan_values p chunks_c) /\
    forall id,
      is_prefix (chan_scaler_values p id chunks_c) (chan_scaler_values p id full) /\
      is_prefix (chan_scaler_values p id whole) (chan_scaler_values p id chunks_c).

Lemma cut_prefix_clauses gs segs chunkss pos k tail :
  segs_content gs segs chunkss -> cut_tail pos segs k gs chunkss tail ->
  prefix_clauses (concat (firstn (whole_count pos segs k) chunkss))
                 (concat (firstn (whole_count pos segs k) chunkss) ++ tail) (concat chunkss).
Proof.
  intros Hcon Htail p. destruct (cut_tail_prefix gs segs chunkss Hcon pos k tail Htail p) as [Hv Hs].
  split; [exact Hv|]. split; [rewrite chan_values_app; apply is_prefix_self_app|].
  intros id. split; [exact (Hs id)|]. rewrite chan_scaler_values_app. apply is_prefix_self_app.
Qed.

Theorem truncation_values_prefix_daqmx segs st h chunkss k :
  wf_file segs ->
  sm_run segs false = Ok st ->
  build_hierarchy (rs_om st) = Ok h ->
  segs_content (rs_segments st) segs chunkss ->
  om_paths_canonical (rs_om st) ->
  typed_objects_are_channels (rs_om st) ->
  cut_one_buffer 0 segs k (rs_segments st) ->
  4 <= k <= blen (ser_file segs) ->
  exists stc hc tail stp hp,
    let whole := concat (firstn (whole_count 0 segs k) chunkss) in
    rd_all (take k (ser_file segs)) = Ok (expected_tokens_dq stc hc (whole ++ tail), true) /\
    sm_run (firstn (meta_count 0 segs k) segs) false = Ok stp /\
    build_hierarchy (rs_om stp) = Ok hp /\
    hier_sim hc hp /\
    cut_tail 0 segs k (rs_segments st) chunkss tail /\
    prefix_clauses whole (whole ++ tail) (concat chunkss) /\
    (forall c, In c (all_channels hc) -> lens_ok (whole ++ tail) c) /\
    exists rest, obs_status stc = TZ (if cut_in_data 0 segs k then 1 else 0) :: rest.
Proof.
  intros Hwf Hrun Hh Hcon Hcanon Hshape Hone Hk.
  destruct (cut_read_core_dq segs st h chunkss k Hwf Hrun Hh Hcon Hcanon Hshape Hone ltac:(lia))
    as (stc & hc & tail & stp & Hcut & Hhc & Hp & Hsim & Htail & Hread & Hlens & Hlast).
  destruct (build_hierarchy_sim _ _ hc Hsim Hhc) as (hp & Hhp & Hhs).
  exists stc, hc, tail, stp, hp. cbv zeta.
  split; [exact Hread|]. split; [exact Hp|]. split; [exact Hhp|]. split; [exact Hhs|].
  split; [exact Htail|]. split; [exact (cut_prefix_clauses _ _ _ _ _ _ Hcon Htail)|].
  split; [exact Hlens|]. rewrite <- Hlast. apply obs_status_head.
Qed.

(* from offset 0, with the reader state named as the result of the metadata pass on
   the cut bytes *)
Theorem truncation_values_prefix_daqmx_any_offset segs st h chunkss k :
  wf_file segs ->
  sm_run segs false = Ok st ->
  build_hierarchy (rs_om st) = Ok h ->
  segs_content (rs_segments st) segs chunkss ->
  om_paths_canonical (rs_om st) ->
  typed_objects_are_channels (rs_om st) ->
  cut_one_buffer 0 segs k (rs_segments st) ->
  0 <= k <= blen (ser_file segs) ->
  exists stc hc tail,
    let whole := concat (firstn (whole_count 0 segs k) chunkss) in
    rd_metadata (take k (ser_file segs)) false (Some k) false = Ok stc /\
    build_hierarchy (rs_om stc) = Ok hc /\
    rd_all (take k (ser_file segs)) = Ok (expected_tokens_dq stc hc (whole ++ tail), true) /\
    cut_tail 0 segs k (rs_segments st) chunkss tail /\
    prefix_clauses whole (whole ++ tail) (concat chunkss) /\
    (forall c, In c (all_channels hc) -> lens_ok (whole ++ tail) c).
Proof.
  intros Hwf Hrun Hh Hcon Hcanon Hshape Hone Hk.
  destruct (cut_read_core_dq segs st h chunkss k Hwf Hrun Hh Hcon Hcanon Hshape Hone Hk)
    as (stc & hc & tail & stp & Hcut & Hhc & Hp & Hsim & Htail & Hread & Hlens & Hlast).
  exists stc, hc, tail. cbv zeta. rewrite (rd_metadata_cut segs k false Hwf Hk).
  split; [exact Hcut|]. split; [exact Hhc|]. split; [exact Hread|]. split; [exact Htail|].
  split; [exact (cut_prefix_clauses _ _ _ _ _ _ Hcon Htail)|exact Hlens].
Qed.

(* every data object of every segment in one buffer: every cut *)
Corollary truncation_values_prefix_daqmx_all segs st h chunkss :
  wf_file segs ->
  sm_run segs false = Ok st ->
  build_hierarchy (rs_om st) = Ok h ->
  segs_content (rs_segments st) segs chunkss ->
  om_paths_canonical (rs_om st) ->
  typed_objects_are_channels (rs_om st) ->
  Forall seg_one_buffer (rs_segments st) ->
  forall k, 4 <= k <= blen (ser_file segs) ->
  exists stc hc tail stp hp,
    let whole := concat (firstn (whole_count 0 segs k) chunkss) in
    rd_all (take k (ser_file segs)) = Ok (expected_tokens_dq stc hc (whole ++ tail), true) /\
    sm_run (firstn (meta_count 0 segs k) segs) false = Ok stp /\
    build_hierarchy (rs_om stp) = Ok hp /\
    hier_sim hc hp /\
    cut_tail 0 segs k (rs_segments st) chunkss tail /\
    prefix_clauses whole (whole ++ tail) (concat chunkss) /\
    (forall c, In c (all_channels hc) -> lens_ok (whole ++ tail) c) /\
    exists rest, obs_status stc = TZ (if cut_in_data 0 segs k then 1 else 0) :: rest.
Proof.
  intros Hwf Hrun Hh Hcon Hcanon Hshape Hall k Hk.
  exact (truncation_values_prefix_daqmx segs st h chunkss k Hwf Hrun Hh Hcon Hcanon Hshape
           (all_one_buffer_cut segs _ 0 k Hall) Hk).
Qed.

(* files without DAQmx segments: TruncValuesFile.truncation_values_prefix's hypotheses
   are an instance (the one-buffer condition is vacuous) *)
Lemma seg_encodes_one_buffer g data cs : seg_encodes g data cs -> seg_one_buffer g.
Proof.
  intros Henc. apply Forall_forall. intros o Ho. unfold obj_one_buffer.
  rewrite (seg_encodes_no_daqmx g data cs Henc o Ho). exact I.
Qed.

Lemma segs_encode_one_buffer : forall gs segs chunkss,
    segs_encode gs segs chunkss -> Forall seg_one_buffer gs.
Proof.
  induction 1 as [|g gs s r cs css Hcs _ IH]; constructor; [|exact IH].
  exact (seg_encodes_one_buffer g _ cs Hcs).
Qed.
