(* Model/SpecDaqmx.v is a conservative extension of Model/Spec.v: on a file whose
   metadata holds no DAQmx index the two specifications give the same meaning (the
   content embedded by SpecDaqmx.embed; errors are the same errors), the same tokens,
   and have the same side condition. *)
From Coq Require Import List ZArith Bool Lia.
From Coq Require Import Init.Byte.
Import ListNotations.
From NpTdms Require Import Base.Bytes Base.Res Model.Tokens Model.SegState Model.Reader Model.FileSyn
     Model.Spec Model.SpecDaqmx Proofs.SegStateProofs Proofs.SpecRefineBase.
Local Open Scope Z_scope.

(* ---- dictionaries with embedded values ------------------------------------------------ *)

Definition vmap {A B} (f : A -> B) (d : dict A) : dict B := map (fun kv => (fst kv, f (snd kv))) d.

Lemma get_vmap {A B} (f : A -> B) p : forall d, get p (vmap f d) = option_map f (get p d).
Proof.
  induction d as [|[k v] r IH]; [reflexivity|]. cbn [vmap map get fst snd].
  destruct (beq p k); [reflexivity|exact IH].
Qed.

Lemma put_vmap {A B} (f : A -> B) p v : forall d, put p (f v) (vmap f d) = vmap f (put p v d).
Proof.
  induction d as [|[k v0] r IH]; [reflexivity|]. cbn [vmap map put fst snd].
  destruct (beq p k); [reflexivity|]. cbn [map fst snd]. f_equal. exact IH.
Qed.

Lemma vmap_keys {A B} (f : A -> B) d : map fst (vmap f d) = map fst d.
Proof. unfold vmap. rewrite map_map. reflexivity. Qed.

Definition emb_state (st : sstate) : dstate :=
  mkDstate (vmap (option_map GP) (active st)) (vmap GP (last st)) (vmap embed_obj (objs st)).

Definition emb_res {A B} (f : A -> B) (r : spec_res A) : spec_res B :=
  match r with SOk a => SOk (f a) | SErr e => SErr e end.

Definition entry_plain (x : entry) : bool := match e_idx x with IDaqmx _ _ _ _ _ _ => false | _ => true end.

Definition seg_plain_meta (s : fseg) : bool :=
  match fs_meta s with None => true | Some es => forallb entry_plain es end.

(* ---- metadata ------------------------------------------------------------------------------ *)

Lemma apply_entry_emb st x :
  entry_plain x = true -> apply_entry_dq (emb_state st) x = emb_res emb_state (apply_entry st x).
Proof.
  unfold entry_plain, apply_entry_dq, apply_entry, emb_state, type_ok. cbn [dactive dlast dobjs].
  destruct (e_idx x) as [| |lf dt dim n total|]; intros Hp; try discriminate.
  - cbn [emb_res]. f_equal. change (@None gidx) with (option_map GP (@None rawidx)).
    rewrite (put_vmap (option_map GP)). reflexivity.
  - rewrite !get_vmap. destruct (get (e_path x) (last st)) as [i|]; cbn [option_map emb_res].
    + f_equal. change (Some (GP i)) with (option_map GP (Some i)).
      rewrite (put_vmap (option_map GP)). reflexivity.
    + destruct (get (e_path x) (objs st)); reflexivity.
  - destruct (index_of dt dim n total) as [i|]; [|reflexivity].
    rewrite get_vmap. 
    assert (E : match option_map GP (get (e_path x) (last st)) with Some i' => gi_dt i' =? dt | None => true end
                = match get (e_path x) (last st) with Some i' => ri_dt i' =? dt | None => true end).
    { destruct (get (e_path x) (last st)); reflexivity. }
    rewrite E. destruct (match get (e_path x) (last st) with Some i' => ri_dt i' =? dt | None => true end);
      cbn [emb_res]; [|reflexivity].
    f_equal. change (Some (GP i)) with (option_map GP (Some i)).
    rewrite (put_vmap (option_map GP)), (put_vmap GP). reflexivity.
Qed.

Lemma apply_entries_emb : forall es st,
    forallb entry_plain es = true ->
    apply_entries_dq (emb_state st) es = emb_res emb_state (apply_entries st es).
Proof.
  induction es as [|x es IH]; intros st H; [reflexivity|].
  cbn [forallb] in H. apply andb_prop in H. destruct H as [Hx Hes].
  cbn [apply_entries_dq apply_entries]. rewrite (apply_entry_emb st x Hx).
  destruct (apply_entry st x) as [st1|e]; cbn [emb_res sbind]; [apply IH; exact Hes|reflexivity].
Qed.

Lemma touch_emb lst c p :
  touch_dq (vmap GP lst) (vmap embed_obj c) p = vmap embed_obj (touch lst c p).
Proof.
  unfold touch_dq, touch. rewrite !get_vmap.
  assert (Ho : match option_map embed_obj (get p c) with Some o => o | None => dcobj0 end
               = embed_obj (match get p c with Some o => o | None => cobj0 end)).
  { destruct (get p c); reflexivity. }
  rewrite Ho. set (o := match get p c with Some o => o | None => cobj0 end).
  rewrite <- (put_vmap embed_obj). f_equal.
  unfold embed_obj. cbn [d_props d_dtype d_vals d_types d_len d_svals o_props o_dtype o_vals].
  destruct (get p lst); reflexivity.
Qed.

Lemma fold_touch_emb lst : forall ps c,
    fold_left (touch_dq (vmap GP lst)) ps (vmap embed_obj c) = vmap embed_obj (fold_left (touch lst) ps c).
Proof.
  induction ps as [|p ps IH]; intros c; [reflexivity|]. cbn [fold_left]. rewrite touch_emb. apply IH.
Qed.

Lemma set_props_emb c x : set_props_dq (vmap embed_obj c) x = vmap embed_obj (Spec.set_props c x).
Proof.
  unfold set_props_dq, Spec.set_props. rewrite get_vmap.
  destruct (get (e_path x) c) as [o|]; cbn [option_map]; [|reflexivity].
  rewrite <- (put_vmap embed_obj). reflexivity.
Qed.

Lemma fold_set_props_emb : forall es c,
    fold_left set_props_dq es (vmap embed_obj c) = vmap embed_obj (fold_left Spec.set_props es c).
Proof.
  induction es as [|x es IH]; intros c; [reflexivity|]. cbn [fold_left]. rewrite set_props_emb. apply IH.
Qed.

Lemma apply_metadata_emb first st s :
  seg_plain_meta s = true ->
  apply_metadata_dq first (emb_state st) s = emb_res emb_state (apply_metadata first st s).
Proof.
  unfold seg_plain_meta, apply_metadata_dq, apply_metadata. intros Hp.
  destruct (fs_meta s) as [es|].
  - assert (Hstart : (if toc_has (fs_toc s) TOC_NEWLIST
                      then mkDstate [] (dlast (emb_state st)) (dobjs (emb_state st)) else emb_state st)
                     = emb_state (if toc_has (fs_toc s) TOC_NEWLIST
                                  then mkSstate [] (last st) (objs st) else st)).
    { destruct (toc_has (fs_toc s) TOC_NEWLIST); reflexivity. }
    rewrite Hstart, (apply_entries_emb es _ Hp).
    destruct (apply_entries _ es) as [st1|e]; cbn [emb_res sbind]; [|reflexivity].
    unfold emb_state. cbn [dactive dlast dobjs]. rewrite vmap_keys, fold_touch_emb, fold_set_props_emb.
    reflexivity.
  - destruct first; cbn [emb_res sbind]; [reflexivity|].
    unfold emb_state. cbn [dactive dlast dobjs fold_left]. rewrite vmap_keys, fold_touch_emb. reflexivity.
Qed.

(* ---- raw data ------------------------------------------------------------------------------- *)

Lemma data_objects_emb : forall act,
    data_objects_dq (vmap (option_map GP) act) = map (fun o => (fst o, GP (snd o))) (data_objects act).
Proof.
  induction act as [|[p a] r IH]; [reflexivity|].
  cbn [vmap map data_objects_dq data_objects flat_map fst snd]. fold (vmap (option_map GP) r).
  change (flat_map (fun pa : bytes * option gidx => match snd pa with Some i => [(fst pa, i)] | None => [] end)
                   (vmap (option_map GP) r)) with (data_objects_dq (vmap (option_map GP) r)).
  rewrite IH. destruct a as [i|]; reflexivity.
Qed.

Lemma plain_part_emb : forall l : list (bytes * rawidx),
    plain_part (map (fun o => (fst o, GP (snd o))) l) = Some l.
Proof.
  induction l as [|[p i] r IH]; [reflexivity|]. cbn [map plain_part fst snd]. rewrite IH. reflexivity.
Qed.

Lemma add_values_emb c pv : add_values_dq (vmap embed_obj c) pv = vmap embed_obj (add_values c pv).
Proof.
  unfold add_values_dq, add_values. rewrite get_vmap.
  destruct (get (fst pv) c) as [o|]; cbn [option_map]; [|reflexivity].
  rewrite <- (put_vmap embed_obj). f_equal.
  unfold embed_obj. cbn [d_props d_dtype d_vals d_types d_len d_svals o_props o_dtype o_vals].
  rewrite app_length, Nat2Z.inj_add. reflexivity.
Qed.

Lemma add_chunk_emb pobjs c vss : add_chunk_dq pobjs (vmap embed_obj c) vss = vmap embed_obj (add_chunk pobjs c vss).
Proof.
  unfold add_chunk_dq, add_chunk. generalize (combine (map fst pobjs) vss). intros l. revert c.
  induction l as [|pv l IH]; intros c; [reflexivity|]. cbn [fold_left]. rewrite add_values_emb. apply IH.
Qed.

Lemma fold_add_chunk_emb pobjs : forall css c,
    fold_left (add_chunk_dq pobjs) css (vmap embed_obj c) = vmap embed_obj (fold_left (add_chunk pobjs) css c).
Proof.
  induction css as [|vss css IH]; intros c; [reflexivity|]. cbn [fold_left]. rewrite add_chunk_emb. apply IH.
Qed.

Lemma spec_segment_emb first st s :
  seg_plain_meta s = true ->
  spec_segment_dq first (emb_state st) s = emb_res emb_state (spec_segment first st s).
Proof.
  intros Hp. unfold spec_segment_dq, spec_segment. rewrite (apply_metadata_emb first st s Hp).
  destruct (apply_metadata first st s) as [st1|e]; cbn [emb_res sbind]; [|reflexivity].
  unfold emb_state at 1 2. cbn [dactive]. rewrite data_objects_emb, plain_part_emb.
  destruct (decode_data (fs_toc s) (data_objects (active st1)) (fs_data s)) as [css|e]; cbn [emb_res sbind];
    [|reflexivity].
  unfold emb_state. cbn [dactive dlast dobjs]. rewrite fold_add_chunk_emb. reflexivity.
Qed.

Lemma spec_segments_emb : forall segs first st,
    forallb seg_plain_meta segs = true ->
    spec_segments_dq first (emb_state st) segs = emb_res emb_state (spec_segments first st segs).
Proof.
  induction segs as [|s segs IH]; intros first st H; [reflexivity|].
  cbn [forallb] in H. apply andb_prop in H. destruct H as [Hs Hr].
  cbn [spec_segments_dq spec_segments]. rewrite (spec_segment_emb first st s Hs).
  destruct (spec_segment first st s) as [st1|e]; cbn [emb_res sbind]; [apply IH; exact Hr|reflexivity].
Qed.

Lemma no_daqmx_index_plain segs : no_daqmx_index segs = true -> forallb seg_plain_meta segs = true.
Proof. intros H. exact H. Qed.

Theorem spec_meaning_dq_conservative segs :
  no_daqmx_index segs = true ->
  spec_meaning_dq segs = emb_res embed (spec_meaning segs).
Proof.
  intros H. unfold spec_meaning_dq, spec_meaning.
  change dstate0 with (emb_state sstate0).
  rewrite (spec_segments_emb segs true sstate0 (no_daqmx_index_plain segs H)).
  destruct (spec_segments true sstate0 segs) as [st|e]; reflexivity.
Qed.

(* ---- the side condition ---------------------------------------------------------------------- *)

Lemma seg_ok_dq_plain s : seg_plain_meta s = true -> seg_ok_dq s = seg_ok s.
Proof.
  unfold seg_plain_meta, seg_ok_dq, seg_ok. destruct (fs_meta s) as [es|]; [|reflexivity].
  intros H. f_equal. induction es as [|x es IH]; [reflexivity|].
  cbn [forallb] in H |- *. apply andb_prop in H. destruct H as [Hx Hes]. rewrite (IH Hes). f_equal.
  unfold entry_ok_dq, entry_ok, entry_plain in *. destruct (e_idx x); try reflexivity. discriminate.
Qed.

Theorem spec_ok_dq_conservative segs : no_daqmx_index segs = true -> (spec_ok_dq segs <-> spec_ok segs).
Proof.
  intros H. unfold spec_ok_dq, spec_ok.
  assert (E : forallb seg_ok_dq segs = forallb seg_ok segs).
  { apply no_daqmx_index_plain in H. induction segs as [|s segs IH]; [reflexivity|].
    cbn [forallb] in H |- *. apply andb_prop in H. destruct H as [Hs Hr].
    rewrite (seg_ok_dq_plain s Hs), (IH Hr). reflexivity. }
  rewrite E. tauto.
Qed.

(* ---- tokens ------------------------------------------------------------------------------------ *)

(* no ordinary index has the data type DaqMxRawData *)
Lemma index_of_not_daqmx dt dim n total i : index_of dt dim n total = Some i -> ri_dt i <> T_DAQMX.
Proof.
  unfold index_of. destruct (negb (dim =? 1)); [discriminate|].
  destruct (type_size dt) as [sz|] eqn:E.
  - intros H. injection H as <-. cbn [ri_dt]. intros ->. discriminate E.
  - destruct total; [|discriminate]. destruct (dt =? T_STRING) eqn:Es; [|discriminate].
    intros H. injection H as <-. cbn [ri_dt]. intros ->. discriminate Es.
Qed.

Definition not_dq (o : cobj) : Prop := o_dtype o <> Some T_DAQMX.

Definition no_dq_type (st : sstate) : Prop :=
  (forall p i, get p (last st) = Some i -> ri_dt i <> T_DAQMX) /\
  Forall (fun po => not_dq (snd po)) (objs st).

Lemma beq_refl' : forall a, beq a a = true.
Proof. exact beq_refl. Qed.

Lemma beq_true_eq : forall a b, beq a b = true -> a = b.
Proof. intros a b H. apply beq_eq. exact H. Qed.

Lemma get_put {V} p k (v : V) : forall d, get p (put k v d) = if beq p k then Some v else get p d.
Proof.
  induction d as [|[k0 v0] r IH]; cbn [put get].
  - destruct (beq p k); reflexivity.
  - destruct (beq k k0) eqn:E; cbn [get].
    + apply beq_true_eq in E. subst k0. destruct (beq p k); reflexivity.
    + destruct (beq p k0) eqn:E2.
      * apply beq_true_eq in E2. subst k0.
        destruct (beq p k) eqn:E3; [|reflexivity].
        apply beq_true_eq in E3. subst k. rewrite beq_refl' in E. discriminate.
      * exact IH.
Qed.

Lemma Forall_put {V} (Q : V -> Prop) k v : forall d,
    Forall (fun po => Q (snd po)) d -> Q v -> Forall (fun po => Q (snd po)) (put k v d).
Proof.
  induction d as [|[k0 v0] r IH]; intros H Hv; cbn [put].
  - constructor; [exact Hv|constructor].
  - inversion H as [|x l Hx Hr]; subst. destruct (beq k k0).
    + constructor; [exact Hv|exact Hr].
    + constructor; [exact Hx|exact (IH Hr Hv)].
Qed.

Lemma get_Forall {V} (Q : V -> Prop) p v : forall d,
    Forall (fun po => Q (snd po)) d -> get p d = Some v -> Q v.
Proof.
  induction d as [|[k0 v0] r IH]; intros H Hg; cbn [get] in Hg; [discriminate|].
  inversion H as [|x l Hx Hr]; subst. destruct (beq p k0); [injection Hg as <-; exact Hx|exact (IH Hr Hg)].
Qed.

Lemma no_dq_type_entry st x st' : no_dq_type st -> apply_entry st x = SOk st' -> no_dq_type st'.
Proof.
  intros [Hl Ho] H. unfold apply_entry in H.
  destruct (e_idx x) as [| |lf dt dim n total|]; try discriminate.
  - injection H as <-. split; assumption.
  - destruct (get (e_path x) (last st)); [injection H as <-; split; assumption|].
    destruct (get (e_path x) (objs st)); discriminate.
  - destruct (index_of dt dim n total) as [i|] eqn:Ei; [|discriminate].
    destruct (match get (e_path x) (last st) with Some i' => ri_dt i' =? dt | None => true end); [|discriminate].
    injection H as <-. split; cbn [last objs]; [|exact Ho].
    intros p j Hj. rewrite get_put in Hj. destruct (beq p (e_path x)); [|exact (Hl p j Hj)].
    injection Hj as <-. exact (index_of_not_daqmx _ _ _ _ _ Ei).
Qed.

Lemma no_dq_type_entries : forall es st st', no_dq_type st -> apply_entries st es = SOk st' -> no_dq_type st'.
Proof.
  induction es as [|x es IH]; intros st st' Hn H; cbn [apply_entries] in H.
  - injection H as <-. exact Hn.
  - destruct (apply_entry st x) as [st1|e] eqn:E; cbn [sbind] in H; [|discriminate].
    exact (IH st1 st' (no_dq_type_entry st x st1 Hn E) H).
Qed.

Lemma no_dq_fold_touch lst : (forall p i, get p lst = Some i -> ri_dt i <> T_DAQMX) ->
  forall ps c, Forall (fun po => not_dq (snd po)) c ->
               Forall (fun po => not_dq (snd po)) (fold_left (touch lst) ps c).
Proof.
  intros Hl. induction ps as [|q ps IH]; intros c Hc; cbn [fold_left]; [exact Hc|].
  apply IH. unfold touch. apply Forall_put; [exact Hc|].
  unfold not_dq. cbn [o_dtype]. destruct (get q lst) as [i|] eqn:Ei; cbn [option_map]; [|discriminate].
  intros H. injection H as H. exact (Hl q i Ei H).
Qed.

Lemma no_dq_fold_set_props : forall es c,
    Forall (fun po => not_dq (snd po)) c -> Forall (fun po => not_dq (snd po)) (fold_left Spec.set_props es c).
Proof.
  induction es as [|x es IH]; intros c Hc; cbn [fold_left]; [exact Hc|].
  apply IH. unfold Spec.set_props. destruct (get (e_path x) c) as [ox|] eqn:Ex; [|exact Hc].
  apply Forall_put; [exact Hc|]. exact (get_Forall not_dq _ ox c Hc Ex).
Qed.

Lemma no_dq_add_values c pv :
    Forall (fun po => not_dq (snd po)) c -> Forall (fun po => not_dq (snd po)) (add_values c pv).
Proof.
  intros Hc. unfold add_values. destruct (get (fst pv) c) as [ox|] eqn:Ex; [|exact Hc].
  apply Forall_put; [exact Hc|]. exact (get_Forall not_dq _ ox c Hc Ex).
Qed.

Lemma no_dq_fold_add_chunk pobjs : forall css c,
    Forall (fun po => not_dq (snd po)) c ->
    Forall (fun po => not_dq (snd po)) (fold_left (add_chunk pobjs) css c).
Proof.
  induction css as [|vss css IH]; intros c Hc; cbn [fold_left]; [exact Hc|].
  apply IH. unfold add_chunk. generalize (combine (map fst pobjs) vss). intros l. revert c Hc.
  induction l as [|pv l IHl]; intros c Hc; cbn [fold_left]; [exact Hc|].
  apply IHl. apply no_dq_add_values. exact Hc.
Qed.

Lemma no_dq_type_segment first st s st' : no_dq_type st -> spec_segment first st s = SOk st' -> no_dq_type st'.
Proof.
  intros Hn H. unfold spec_segment in H.
  destruct (apply_metadata first st s) as [st1|e] eqn:Em; cbn [sbind] in H; [|discriminate].
  destruct (decode_data _ _ _) as [css|e]; cbn [sbind] in H; [|discriminate]. injection H as <-.
  unfold apply_metadata in Em.
  assert (Hste : exists ste, no_dq_type ste /\
                             st1 = mkSstate (active ste) (last ste)
                                            (fold_left Spec.set_props (match fs_meta s with Some es => es | None => [] end)
                                                       (fold_left (touch (last ste)) (map fst (active ste)) (objs ste)))).
  { destruct (fs_meta s) as [es|].
    - destruct (apply_entries _ es) as [ste|e] eqn:Ee; cbn [sbind] in Em; [|discriminate].
      injection Em as <-. exists ste. split; [|reflexivity].
      refine (no_dq_type_entries es _ ste _ Ee). destruct (toc_has (fs_toc s) TOC_NEWLIST); [|exact Hn].
      destruct Hn as [Hl Ho]. split; assumption.
    - destruct first; cbn [sbind] in Em; [discriminate|]. injection Em as <-. exists st. split; [exact Hn|reflexivity]. }
  destruct Hste as (ste & [Hl Ho] & ->). split; cbn [active last objs]; [exact Hl|].
  apply no_dq_fold_add_chunk. apply no_dq_fold_set_props. apply (no_dq_fold_touch _ Hl). exact Ho.
Qed.

Lemma no_dq_type_segments : forall segs first st st',
    no_dq_type st -> spec_segments first st segs = SOk st' -> no_dq_type st'.
Proof.
  induction segs as [|s segs IH]; intros first st st' Hn H; cbn [spec_segments] in H.
  - injection H as <-. exact Hn.
  - destruct (spec_segment first st s) as [st1|e] eqn:E; cbn [sbind] in H; [|discriminate].
    exact (IH false st1 st' (no_dq_type_segment first st s st1 Hn E) H).
Qed.

(* the embedded content shows the same tokens *)
Lemma flat_map_vmap {A B C} (f : A -> B) (g : bytes * B -> list C) (h : bytes * A -> list C) (d : dict A) :
  (forall kv, g (fst kv, f (snd kv)) = h kv) -> flat_map g (vmap f d) = flat_map h d.
Proof.
  intros H. induction d as [|kv r IH]; [reflexivity|]. cbn [vmap map flat_map]. fold (vmap f r).
  rewrite IH, H. reflexivity.
Qed.

Lemma group_names_emb c : group_names_dq (vmap embed_obj c) = group_names c.
Proof.
  unfold group_names_dq, group_names. f_equal. f_equal; apply flat_map_vmap; intros kv; reflexivity.
Qed.

Lemma props_of_emb c p : props_of_dq (vmap embed_obj c) p = props_of c p.
Proof. unfold props_of_dq, props_of. rewrite get_vmap. destruct (get p c); reflexivity. Qed.

Lemma channel_tokens_emb g n p o :
  not_dq o -> channel_tokens_dq g (n, p, embed_obj o) = channel_tokens values_tokens g (n, p, o).
Proof.
  intros Hq. unfold channel_tokens_dq, channel_tokens, channel_len, values_tokens_dq, values_tokens, embed_obj.
  cbn [d_props d_dtype d_vals d_types d_len d_svals]. unfold not_dq in Hq.
  destruct (o_dtype o) as [dt|]; [|reflexivity].
  destruct (dt =? T_DAQMX) eqn:E; [|reflexivity].
  exfalso. apply Hq. f_equal. apply Z.eqb_eq. exact E.
Qed.

Lemma channels_tokens_emb g : forall c,
    Forall (fun po => not_dq (snd po)) c ->
    flat_map (channel_tokens_dq g) (channels_of_dq (vmap embed_obj c) g)
    = flat_map (channel_tokens values_tokens g) (channels_of c g) /\
    length (channels_of_dq (vmap embed_obj c) g) = length (channels_of c g).
Proof.
  induction c as [|[p o] c IH]; intros H; [split; reflexivity|].
  inversion H as [|x l Hx Hr]; subst. destruct (IH Hr) as [IH1 IH2].
  unfold channels_of_dq, channels_of in *. cbn [vmap map flat_map fst snd]. fold (vmap embed_obj c).
  rewrite !flat_map_app, !app_length, IH1, IH2.
  destruct (parse_path p) as [[|g' [|ch [|x r]]]|]; try (split; reflexivity).
  destruct (beq g g'); [|split; reflexivity].
  cbn [flat_map length]. rewrite !app_nil_r. rewrite (channel_tokens_emb g ch p o Hx). split; reflexivity.
Qed.

Lemma hierarchy_tokens_emb c :
  Forall (fun po => not_dq (snd po)) c ->
  hierarchy_tokens_dq (vmap embed_obj c) = hierarchy_tokens values_tokens c.
Proof.
  intros H. unfold hierarchy_tokens_dq, hierarchy_tokens. rewrite props_of_emb, group_names_emb.
  f_equal. f_equal. apply flat_map_ext. intros g. unfold group_tokens_dq, group_tokens.
  rewrite props_of_emb. destruct (channels_tokens_emb g c H) as [H1 H2]. rewrite H1, H2. reflexivity.
Qed.

Theorem spec_tokens_dq_conservative segs c :
  spec_meaning segs = SOk c -> spec_tokens_dq (embed c) = spec_tokens c.
Proof.
  unfold spec_meaning. destruct (spec_segments true sstate0 segs) as [st|e] eqn:E; cbn [sbind]; [|discriminate].
  intros H. injection H as <-.
  assert (Hn : no_dq_type st).
  { refine (no_dq_type_segments segs true sstate0 st _ E). split; [intros p i H; discriminate H|constructor]. }
  unfold spec_tokens_dq, spec_tokens, embed. cbn [dc_version dc_objs c_version c_objs].
  fold (vmap embed_obj (objs st)). rewrite (hierarchy_tokens_emb _ (proj2 Hn)). reflexivity.
Qed.
