(* The consuming parser of Model/Tokens.v inverts the canonical serialiser on
   well-formed syntax (Model/TokensWf.v), for both byte orders and with any
   bytes following. *)

From Coq Require Import List ZArith Bool Lia ZifyBool.
From Coq Require Import Init.Byte.
Import ListNotations.
From NpTdms Require Import Base.Bytes Base.Res Model.Tokens Model.TokensWf.
Local Open Scope Z_scope.

(* ---- widths --------------------------------------------------------------- *)

Lemma pow256_1 : 256 ^ Z.of_nat 1 = 256. Proof. reflexivity. Qed.
Lemma pow256_4 : 256 ^ Z.of_nat 4 = 4294967296. Proof. reflexivity. Qed.
Lemma pow256_8 : 256 ^ Z.of_nat 8 = 18446744073709551616. Proof. reflexivity. Qed.

Lemma is_u8_spec z : is_u8 z = true <-> 0 <= z < 256.
Proof. unfold is_u8. lia. Qed.
Lemma is_u32_spec z : is_u32 z = true <-> 0 <= z < 4294967296.
Proof. unfold is_u32. lia. Qed.
Lemma is_u64_spec z : is_u64 z = true <-> 0 <= z < 18446744073709551616.
Proof. unfold is_u64. lia. Qed.
Lemma is_i32_spec z : is_i32 z = true <-> -2147483648 <= z < 2147483648.
Proof. unfold is_i32. lia. Qed.

(* ---- primitive reads ------------------------------------------------------ *)

Lemma get_exact_app x r n : blen x = n -> get_exact n (x ++ r) = Ok (x, r).
Proof.
  intros H. subst n. unfold get_exact, get_raw.
  rewrite take_app_exact, drop_app_exact, Z.eqb_refl. reflexivity.
Qed.

Lemma blen_u_enc e n z : blen (u_enc e n z) = Z.of_nat n.
Proof. unfold blen. rewrite u_enc_length. reflexivity. Qed.

Lemma get_u32_put e z r : is_u32 z = true -> get_u32 e (put_u32 e z ++ r) = Ok (z, r).
Proof.
  intros H. apply is_u32_spec in H. unfold get_u32, put_u32.
  rewrite get_exact_app by (rewrite blen_u_enc; reflexivity).
  cbn [bind]. rewrite u_dec_enc by (rewrite pow256_4; exact H). reflexivity.
Qed.

Lemma get_u64_put e z r : is_u64 z = true -> get_u64 e (put_u64 e z ++ r) = Ok (z, r).
Proof.
  intros H. apply is_u64_spec in H. unfold get_u64, put_u64.
  rewrite get_exact_app by (rewrite blen_u_enc; reflexivity).
  cbn [bind]. rewrite u_dec_enc by (rewrite pow256_8; exact H). reflexivity.
Qed.

Lemma get_u8_put z r : is_u8 z = true -> get_u8 (put_u8 z ++ r) = Ok (z, r).
Proof.
  intros H. apply is_u8_spec in H. unfold get_u8, put_u8.
  rewrite get_exact_app by reflexivity.
  cbn [bind]. f_equal. f_equal. cbn [u_dec le_dec]. rewrite b2z_z2b by exact H. lia.
Qed.

Lemma get_raw_app x r : get_raw (blen x) (x ++ r) = (x, r).
Proof. unfold get_raw. rewrite take_app_exact, drop_app_exact. reflexivity. Qed.

Lemma get_string_put e s r :
  is_u32 (blen s) = true -> get_string e (put_string e s ++ r) = Ok (s, r).
Proof.
  intros H. unfold get_string, put_string. rewrite <- app_assoc.
  rewrite get_u32_put by exact H. cbn [bind]. rewrite get_raw_app. reflexivity.
Qed.

(* ---- for _ in range(n): parse ------------------------------------------- *)

Lemma repeat_parse_ser {A} (p : bytes -> res (A * bytes)) (ser : A -> bytes) (ok : A -> bool) :
  (forall x r, ok x = true -> p (ser x ++ r) = Ok (x, r)) ->
  forall xs fuel r, forallb ok xs = true -> (length xs <= fuel)%nat ->
    repeat_parse p fuel (Z.of_nat (length xs)) (flat_map ser xs ++ r) = Ok (xs, r).
Proof.
  intros Hp xs. induction xs as [|x xs IH]; intros fuel r Hok Hfuel.
  - destruct fuel; reflexivity.
  - cbn [forallb] in Hok. apply andb_prop in Hok. destruct Hok as [Hx Hxs].
    cbn [length] in Hfuel. destruct fuel as [|f]; [lia|].
    cbn [repeat_parse].
    replace (Z.of_nat (length (x :: xs)) <=? 0) with false by (cbn [length]; lia).
    cbn [flat_map]. rewrite <- app_assoc. rewrite (Hp x _ Hx). cbn [bind].
    replace (Z.of_nat (length (x :: xs)) - 1) with (Z.of_nat (length xs)) by (cbn [length]; lia).
    rewrite IH by (try assumption; lia). reflexivity.
Qed.

(* the serialised list is at least as long as its element count *)
Lemma flat_map_length_ge_ok {A} (ser : A -> bytes) (ok : A -> bool) (xs : list A) :
  (forall x, ok x = true -> (1 <= length (ser x))%nat) -> forallb ok xs = true ->
  (length xs <= length (flat_map ser xs))%nat.
Proof.
  intros H. induction xs as [|x xs IH]; intros Hok; cbn [flat_map length]; [lia|].
  cbn [forallb] in Hok. apply andb_prop in Hok. destruct Hok as [Hx Hxs].
  rewrite app_length. specialize (H x Hx). specialize (IH Hxs). lia.
Qed.

Lemma flat_map_length_ge {A} (ser : A -> bytes) (xs : list A) :
  (forall x, (1 <= length (ser x))%nat) -> (length xs <= length (flat_map ser xs))%nat.
Proof.
  intros H. induction xs as [|x xs IH]; cbn [flat_map length]; [lia|].
  rewrite app_length. specialize (H x). lia.
Qed.

(* every well-formed element serialises to at least one byte *)
Lemma parse_n_ser_ok {A} (p : bytes -> res (A * bytes)) (ser : A -> bytes) (ok : A -> bool) :
  (forall x r, ok x = true -> p (ser x ++ r) = Ok (x, r)) ->
  (forall x, ok x = true -> (1 <= length (ser x))%nat) ->
  forall xs r, forallb ok xs = true ->
    parse_n p (Z.of_nat (length xs)) (flat_map ser xs ++ r) = Ok (xs, r).
Proof.
  intros Hp Hlen xs r Hok. unfold parse_n.
  apply repeat_parse_ser with (ok := ok); try assumption.
  rewrite app_length. pose proof (flat_map_length_ge_ok ser ok xs Hlen Hok). lia.
Qed.

Lemma parse_n_ser {A} (p : bytes -> res (A * bytes)) (ser : A -> bytes) (ok : A -> bool) :
  (forall x r, ok x = true -> p (ser x ++ r) = Ok (x, r)) ->
  (forall x, (1 <= length (ser x))%nat) ->
  forall xs r, forallb ok xs = true ->
    parse_n p (Z.of_nat (length xs)) (flat_map ser xs ++ r) = Ok (xs, r).
Proof.
  intros Hp Hlen. apply parse_n_ser_ok; [exact Hp|]. intros x _. apply Hlen.
Qed.

(* ---- lengths of the serialised pieces (all at least one byte) ------------- *)

Lemma put_u32_length e z : length (put_u32 e z) = 4%nat.
Proof. apply u_enc_length. Qed.
Lemma put_u64_length e z : length (put_u64 e z) = 8%nat.
Proof. apply u_enc_length. Qed.

Lemma put_string_length e s : length (put_string e s) = (4 + length s)%nat.
Proof. unfold put_string. rewrite app_length, put_u32_length. reflexivity. Qed.

Lemma ser_prop_length_ge e p : (1 <= length (ser_prop e p))%nat.
Proof. unfold ser_prop. rewrite app_length, put_string_length. lia. Qed.

Lemma ser_scaler_length_ge e k s : (1 <= length (ser_scaler e k s))%nat.
Proof. unfold ser_scaler. rewrite app_length, put_u32_length. lia. Qed.

Lemma ser_entry_length_ge e x : (1 <= length (ser_entry e x))%nat.
Proof. unfold ser_entry. rewrite app_length, put_string_length. lia. Qed.

(* ---- properties ----------------------------------------------------------- *)

Lemma canon_store_rev e ty v :
  (ty =? T_C64) || (ty =? T_C128) = false ->
  canon_value e ty (store_value e ty v) = v.
Proof.
  intros H. unfold store_value, canon_value. destruct e; [reflexivity|].
  rewrite H. apply rev_involutive.
Qed.

Lemma blen_store_value e ty v :
  (ty =? T_C64) || (ty =? T_C128) = false -> blen (store_value e ty v) = blen v.
Proof.
  intros H. unfold store_value, canon_value. destruct e; [reflexivity|].
  rewrite H. unfold blen. rewrite rev_length. reflexivity.
Qed.

Lemma readable_not_complex ty :
  readable_prop_type ty = true -> (ty =? T_C64) || (ty =? T_C128) = false.
Proof.
  unfold readable_prop_type, is_struct_type, T_STRING, T_TIME, T_C64, T_C128. lia.
Qed.

Lemma readable_tds_size ty :
  readable_prop_type ty = true -> exists s, tds_size ty = Some s.
Proof.
  unfold readable_prop_type, is_struct_type, T_STRING, T_TIME. intros H.
  assert (C : ty = 1 \/ ty = 2 \/ ty = 3 \/ ty = 4 \/ ty = 5 \/ ty = 6 \/ ty = 7 \/ ty = 8 \/
              ty = 9 \/ ty = 10 \/ ty = 0x19 \/ ty = 0x1A \/ ty = 0x20 \/ ty = 0x21 \/ ty = 0x44) by lia.
  repeat (destruct C as [C|C]; [subst ty; eexists; reflexivity|]).
  subst ty; eexists; reflexivity.
Qed.

Lemma parse_prop_value_ser e ty v r :
  readable_prop_type ty = true -> prop_val_ok ty v = true ->
  parse_prop_value e ty (ser_prop_value e ty v ++ r) = Ok (v, r).
Proof.
  intros Hr Hv. pose proof (readable_not_complex ty Hr) as Hnc.
  destruct (readable_tds_size ty Hr) as [sz Hsz].
  unfold parse_prop_value, ser_prop_value, prop_val_ok in *. rewrite Hsz in *.
  destruct (ty =? T_STRING) eqn:Es.
  - apply get_string_put. exact Hv.
  - destruct sz as [n|]; [|discriminate Hv].
    assert (Hn : blen v = n) by lia.
    destruct (ty =? T_TIME) eqn:Et.
    + assert (ty = T_TIME) by lia. subst ty. cbv in Hsz. injection Hsz as Hsz. subst n.
      rewrite get_exact_app by (rewrite blen_store_value by exact Hnc; exact Hn).
      cbn [bind]. rewrite canon_store_rev by exact Hnc. reflexivity.
    + assert (Hst : is_struct_type ty = true).
      { unfold readable_prop_type in Hr. rewrite Es, Et in Hr. exact Hr. }
      rewrite Hst.
      rewrite get_exact_app by (rewrite blen_store_value by exact Hnc; exact Hn).
      cbn [bind]. rewrite canon_store_rev by exact Hnc. reflexivity.
Qed.

Lemma wf_prop_type_u32 p : wf_prop p = true -> is_u32 (p_type p) = true.
Proof.
  unfold wf_prop, readable_prop_type, is_struct_type, T_STRING, T_TIME, is_u32. lia.
Qed.

Theorem parse_prop_ser : forall e p rest,
  wf_prop p = true -> parse_prop e (ser_prop e p ++ rest) = Ok (p, rest).
Proof.
  intros e p rest Hwf. pose proof (wf_prop_type_u32 p Hwf) as Hty.
  unfold wf_prop in Hwf. apply andb_prop in Hwf. destruct Hwf as [Hwf Hval].
  apply andb_prop in Hwf. destruct Hwf as [Hname Hread].
  unfold parse_prop, ser_prop. rewrite <- !app_assoc.
  rewrite get_string_put by exact Hname. cbn [bind].
  rewrite get_u32_put by exact Hty. cbn [bind].
  rewrite parse_prop_value_ser by assumption. cbn [bind].
  destruct p; reflexivity.
Qed.

Lemma parse_props_ser e ps rest :
  len_u32 ps = true -> forallb wf_prop ps = true ->
  parse_props e (put_u32 e (Z.of_nat (length ps)) ++ flat_map (ser_prop e) ps ++ rest) = Ok (ps, rest).
Proof.
  intros Hl Hps. unfold parse_props. rewrite get_u32_put by exact Hl. cbn [bind].
  apply parse_n_ser with (ok := wf_prop).
  - intros x r Hx. apply parse_prop_ser. exact Hx.
  - apply ser_prop_length_ge.
  - exact Hps.
Qed.

(* ---- raw data index ------------------------------------------------------- *)

Lemma parse_scaler_ser e kind s rest :
  wf_scaler kind s = true ->
  parse_scaler e kind (ser_scaler e kind s ++ rest) = Ok (s, rest).
Proof.
  intros Hwf. unfold wf_scaler in Hwf.
  apply andb_prop in Hwf. destruct Hwf as [Hwf Hid].
  apply andb_prop in Hwf. destruct Hwf as [Hwf Hfmt].
  apply andb_prop in Hwf. destruct Hwf as [Hwf Hoff].
  apply andb_prop in Hwf. destruct Hwf as [Hty Hbuf].
  unfold parse_scaler, ser_scaler. rewrite <- !app_assoc.
  rewrite get_u32_put by exact Hty. cbn [bind].
  rewrite get_u32_put by exact Hbuf. cbn [bind].
  rewrite get_u32_put by exact Hoff. cbn [bind].
  destruct (kind =? DIGITAL_LINE_SCALER) eqn:Ek.
  - rewrite get_u8_put by exact Hfmt. cbn [bind].
    rewrite get_u32_put by exact Hid. cbn [bind]. destruct s; reflexivity.
  - rewrite get_u32_put by exact Hfmt. cbn [bind].
    rewrite get_u32_put by exact Hid. cbn [bind]. destruct s; reflexivity.
Qed.

Lemma put_u32_length_ge e z : (1 <= length (put_u32 e z))%nat.
Proof. rewrite put_u32_length. lia. Qed.

Theorem parse_idx_ser : forall e i rest,
  wf_idx i = true -> parse_idx e (ser_idx e i ++ rest) = Ok (i, rest).
Proof.
  intros e i rest Hwf. destruct i as [| |lf dt dim n total|kind dt dim n scalers widths].
  - unfold parse_idx, ser_idx. rewrite get_u32_put by reflexivity. cbn [bind]. reflexivity.
  - unfold parse_idx, ser_idx. rewrite get_u32_put by reflexivity. cbn [bind]. reflexivity.
  - cbn [wf_idx] in Hwf.
    apply andb_prop in Hwf. destruct Hwf as [Hwf Htot].
    apply andb_prop in Hwf. destruct Hwf as [Hwf Hn].
    apply andb_prop in Hwf. destruct Hwf as [Hwf Hdim].
    apply andb_prop in Hwf. destruct Hwf as [Hwf Hdt].
    apply andb_prop in Hwf. destruct Hwf as [Hwf Hd].
    apply andb_prop in Hwf. destruct Hwf as [Hwf Hf].
    apply andb_prop in Hwf. destruct Hwf as [Hwf Hm].
    apply andb_prop in Hwf. destruct Hwf as [Hlf Hnd].
    apply negb_true_iff in Hnd, Hm, Hf, Hd.
    unfold parse_idx, ser_idx. rewrite <- !app_assoc.
    rewrite get_u32_put by exact Hlf. cbn [bind].
    rewrite Hnd, Hm, Hf, Hd. cbn [orb].
    rewrite get_u32_put by exact Hdt. cbn [bind].
    rewrite get_u32_put by exact Hdim. cbn [bind].
    rewrite get_u64_put by exact Hn. cbn [bind].
    destruct total as [t|].
    + apply andb_prop in Htot. destruct Htot as [Hs Ht]. rewrite Hs.
      rewrite get_u64_put by exact Ht. cbn [bind]. reflexivity.
    + apply negb_true_iff in Htot. rewrite Htot. reflexivity.
  - cbn [wf_idx] in Hwf.
    apply andb_prop in Hwf. destruct Hwf as [Hwf Hws].
    apply andb_prop in Hwf. destruct Hwf as [Hwf Hwl].
    apply andb_prop in Hwf. destruct Hwf as [Hwf Hss].
    apply andb_prop in Hwf. destruct Hwf as [Hwf Hsl].
    apply andb_prop in Hwf. destruct Hwf as [Hwf Hn].
    apply andb_prop in Hwf. destruct Hwf as [Hwf Hdim].
    apply andb_prop in Hwf. destruct Hwf as [Hk Hdt].
    assert (Hku : is_u32 kind = true).
    { unfold is_u32, FORMAT_CHANGING_SCALER, DIGITAL_LINE_SCALER in *. lia. }
    assert (Hnd : (kind =? RAW_DATA_INDEX_NO_DATA) = false).
    { unfold RAW_DATA_INDEX_NO_DATA, FORMAT_CHANGING_SCALER, DIGITAL_LINE_SCALER in *. lia. }
    assert (Hm : (kind =? RAW_DATA_INDEX_MATCHES_PREVIOUS) = false).
    { unfold RAW_DATA_INDEX_MATCHES_PREVIOUS, FORMAT_CHANGING_SCALER, DIGITAL_LINE_SCALER in *. lia. }
    unfold parse_idx, ser_idx. rewrite <- !app_assoc.
    rewrite get_u32_put by exact Hku. cbn [bind].
    rewrite Hnd, Hm, Hk.
    rewrite get_u32_put by exact Hdt. cbn [bind].
    rewrite get_u32_put by exact Hdim. cbn [bind].
    rewrite get_u64_put by exact Hn. cbn [bind].
    rewrite get_u32_put by exact Hsl. cbn [bind].
    rewrite (parse_n_ser (parse_scaler e kind) (ser_scaler e kind) (wf_scaler kind)).
    + cbn [bind]. rewrite get_u32_put by exact Hwl. cbn [bind].
      rewrite (parse_n_ser (get_u32 e) (put_u32 e) is_u32).
      * cbn [bind]. reflexivity.
      * intros x r Hx. apply get_u32_put. exact Hx.
      * apply put_u32_length_ge.
      * exact Hws.
    + intros x r Hx. apply parse_scaler_ser. exact Hx.
    + apply ser_scaler_length_ge.
    + exact Hss.
Qed.

(* ---- entries and the metadata block --------------------------------------- *)

Theorem parse_entry_ser : forall e x rest,
  wf_entry x = true -> parse_entry e (ser_entry e x ++ rest) = Ok (x, rest).
Proof.
  intros e x rest Hwf. unfold wf_entry in Hwf.
  apply andb_prop in Hwf. destruct Hwf as [Hwf Hps].
  apply andb_prop in Hwf. destruct Hwf as [Hwf Hpl].
  apply andb_prop in Hwf. destruct Hwf as [Hpath Hidx].
  unfold parse_entry, ser_entry. rewrite <- !app_assoc.
  rewrite get_string_put by exact Hpath. cbn [bind].
  rewrite parse_idx_ser by exact Hidx. cbn [bind].
  rewrite parse_props_ser by assumption. cbn [bind].
  destruct x; reflexivity.
Qed.

Theorem parse_metadata_ser : forall e es rest,
  wf_metadata es = true ->
  parse_metadata e (ser_metadata e es ++ rest) = Ok (es, rest).
Proof.
  intros e es rest Hwf. unfold wf_metadata in Hwf.
  apply andb_prop in Hwf. destruct Hwf as [Hl Hes].
  unfold parse_metadata, ser_metadata. rewrite <- app_assoc.
  rewrite get_u32_put by exact Hl. cbn [bind].
  apply parse_n_ser with (ok := wf_entry).
  - intros x r Hx. apply parse_entry_ser. exact Hx.
  - apply ser_entry_length_ge.
  - exact Hes.
Qed.

(* ---- lead-in -------------------------------------------------------------- *)

Lemma pow256_4_half : 256 ^ Z.of_nat 4 / 2 = 2147483648. Proof. reflexivity. Qed.

Theorem parse_leadin_ser_app : forall l rest,
  wf_leadin l = true -> parse_leadin (ser_leadin l ++ rest) = Ok l.
Proof.
  intros l rest Hwf. unfold wf_leadin in Hwf.
  apply andb_prop in Hwf. destruct Hwf as [Hwf Hraw].
  apply andb_prop in Hwf. destruct Hwf as [Hwf Hnext].
  apply andb_prop in Hwf. destruct Hwf as [Hwf Hver].
  apply andb_prop in Hwf. destruct Hwf as [Htag Htoc].
  apply is_i32_spec in Hver.
  unfold parse_leadin, ser_leadin. rewrite <- !app_assoc.
  rewrite get_exact_app by lia. cbn [bind].
  fold (put_u32 LE (l_toc l)). rewrite get_u32_put by exact Htoc. cbn [bind].
  cbv zeta.
  set (e := toc_endian (l_toc l)).
  unfold s_enc at 1.
  rewrite get_exact_app by (rewrite blen_u_enc; reflexivity). cbn [bind].
  rewrite get_u64_put by exact Hnext. cbn [bind].
  rewrite get_u64_put by exact Hraw. cbn [bind].
  fold (s_enc e 4 (l_version l)).
  rewrite s_dec_enc by (try lia; rewrite pow256_4_half; lia).
  destruct l; reflexivity.
Qed.

Theorem parse_leadin_ser : forall l,
  wf_leadin l = true -> parse_leadin (ser_leadin l) = Ok l.
Proof.
  intros l Hwf. rewrite <- (app_nil_r (ser_leadin l)). apply parse_leadin_ser_app. exact Hwf.
Qed.

Lemma ser_leadin_length l :
  wf_leadin l = true -> blen (ser_leadin l) = 28.
Proof.
  intros Hwf. unfold wf_leadin in Hwf.
  assert (Htag : blen (l_tag l) = 4) by lia.
  unfold ser_leadin, s_enc, put_u64. rewrite !blen_app, !blen_u_enc. lia.
Qed.
