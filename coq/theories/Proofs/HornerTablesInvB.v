(* Proofs/HornerTablesInvB.v -- inverse tables, types N, R, S, T: per piece the rounding bound of
   Proofs/HornerTables.v holds (computed coefficient by coefficient with `interval`). *)
From Coq Require Import Reals ZArith List Lra Bool.
From Coq Require Import PrimFloat FloatOps.
From Flocq Require Import Core BinarySingleNaN.
From Interval Require Import Tactic.
Import ListNotations.
From NpTdms Require Import Gen.ThermoTables.
From NpTdms Require Import Model.ThermoR.
From NpTdms Require Import Proofs.HornerRound.
From NpTdms Require Import Proofs.HornerTables.
Open Scope R_scope.

Lemma inv_pieces_ok_N :
  all2 (piece_ok (fst (inv_range TN)) (snd (inv_range TN))) (code_invR TN) (inv_Xe TN).
Proof. pieces_ok_tac. Qed.

Lemma inv_pieces_ok_R :
  all2 (piece_ok (fst (inv_range TR)) (snd (inv_range TR))) (code_invR TR) (inv_Xe TR).
Proof. pieces_ok_tac. Qed.

Lemma inv_pieces_ok_S :
  all2 (piece_ok (fst (inv_range TS)) (snd (inv_range TS))) (code_invR TS) (inv_Xe TS).
Proof. pieces_ok_tac. Qed.

Lemma inv_pieces_ok_T :
  all2 (piece_ok (fst (inv_range TT)) (snd (inv_range TT))) (code_invR TT) (inv_Xe TT).
Proof. pieces_ok_tac. Qed.
