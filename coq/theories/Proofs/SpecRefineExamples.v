(* Concrete files for Props/C01_spec.v: the specification evaluated, compared with
   the reader model on the serialised bytes, and the hypotheses of the refinement
   theorems discharged. *)
From Coq Require Import List ZArith Bool.
From Coq Require Import Init.Byte.
Import ListNotations.
From NpTdms Require Import Base.Bytes Base.Res Model.Tokens Model.SegState Model.Layout Model.Reader
     Model.FileSyn Model.Spec Proofs.FileSynProofs Proofs.ReadCorrect Proofs.ReadCorrectZ Proofs.SpecRefine.
Local Open Scope Z_scope.

Section Files.
Import String.
Local Open Scope string_scope.

Definition sx_path_g : bytes := hex "2f276727".
Definition sx_path_a : bytes := hex "2f2767272f276127".
Definition sx_path_b : bytes := hex "2f2767272f276227".
Definition sx_path_c : bytes := hex "2f2767272f276327".

(* 'same as before' + 'no data' + an omitted object.
   Segment 1 (new object list): channels a (int32 x 2), b (int16 x 1), c (int8 x 1).
   Segment 2: a 'same as before', b 'no data', c NOT LISTED (carries over with data):
              the chunk holds a's two values and c's one.
   Segment 3: b 'same as before' (its index of segment 1 is reused) with a property;
              a and c not listed: the chunk holds a, b, c. *)
Definition sx_file : list fseg :=
  [ mkFseg 14 4713
      (Some [ mkEntry sx_path_a (IFull 20 3 1 2 None) [];
              mkEntry sx_path_b (IFull 20 2 1 1 None) [];
              mkEntry sx_path_c (IFull 20 1 1 1 None) [] ])
      (hex "01000000020000000a007f");
    mkFseg 10 4713
      (Some [ mkEntry sx_path_a IMatchPrev [];
              mkEntry sx_path_b INoData [] ])
      (hex "03000000040000007e");
    mkFseg 10 4713
      (Some [ mkEntry sx_path_b IMatchPrev [mkProp (hex "75") T_STRING (hex "6d56")] ])
      (hex "05000000060000000b007d") ].

Definition sx_content : content :=
  mkContent 4713
    [ (sx_path_a, mkCobj [] (Some 3)
                         [hex "01000000"; hex "02000000"; hex "03000000"; hex "04000000";
                          hex "05000000"; hex "06000000"]);
      (sx_path_b, mkCobj [(hex "75", mkProp (hex "75") T_STRING (hex "6d56"))] (Some 2)
                         [hex "0a00"; hex "0b00"]);
      (sx_path_c, mkCobj [] (Some 1) [hex "7f"; hex "7e"; hex "7d"]) ].

(* the content of ReadCorrect.rc_file (contiguous, two chunks, a metadata-less
   segment) and rc2_file (interleaved; then a new list with only the group) *)
Definition rc_content : content :=
  mkContent 4713
    [ (hex "2f", mkCobj [] None []);
      (sx_path_g, mkCobj [(hex "6e", mkProp (hex "6e") T_STRING (hex "6869"))] None []);
      (sx_path_a, mkCobj [(hex "70", mkProp (hex "70") 3 (hex "07000000"))] (Some 3)
                         [hex "01000000"; hex "02000000"; hex "03000000"; hex "04000000";
                          hex "05000000"; hex "06000000"]);
      (sx_path_b, mkCobj [] (Some T_STRING)
                         [hex "6162"; hex "63"; []; hex "78797a"; hex "71"; hex "7273"]) ].

Definition rc2_content : content :=
  mkContent 4713
    [ (sx_path_a, mkCobj [] (Some 2) [hex "0102"; hex "0304"; hex "0506"]);
      (sx_path_b, mkCobj [] (Some T_BOOL) [hex "01"; hex "00"; hex "01"]);
      (sx_path_g, mkCobj [(hex "6e", mkProp (hex "6e") T_STRING (hex "6869"))] None []) ].

(* ReadCorrectZ.rcz_file: channel a declared with ZERO values and no raw data in
   segment 1 (chunk size 0 although the segment has a data object), re-declared
   with two values in segment 2 *)
Definition rcz_content : content :=
  mkContent 4713
    [ (hex "2f", mkCobj [] None []);
      (sx_path_g, mkCobj [] None []);
      (sx_path_a, mkCobj [] (Some 3) [hex "01000000"; hex "02000000"]) ].

(* the three forbidden encodings *)
Definition fb_first_without_metadata : list fseg := [ mkFseg 8 4713 None [] ].

Definition fb_match_prev_undefined : list fseg :=
  [ mkFseg 14 4713 (Some [ mkEntry sx_path_a IMatchPrev [] ]) [] ].

Definition fb_type_change : list fseg :=
  [ mkFseg 14 4713 (Some [ mkEntry sx_path_a (IFull 20 3 1 1 None) [] ]) (hex "01000000");
    mkFseg 10 4713 (Some [ mkEntry sx_path_a (IFull 20 2 1 1 None) [] ]) (hex "0200") ].

(* the decided corner: "no data", then "same as before", for an object that never
   had an index.  The specification calls it an error of its own
   (MatchPrevNeverIndexed, not one of the three forbidden encodings); the reader's
   metadata pass accepts it, and the eager read fails as soon as the segment has a chunk *)
Definition corner_no_chunk : list fseg :=
  [ mkFseg 14 4713 (Some [ mkEntry sx_path_a INoData [] ]) [];
    mkFseg 10 4713 (Some [ mkEntry sx_path_a IMatchPrev [] ]) [] ].

Definition corner_with_chunk : list fseg :=
  [ mkFseg 14 4713 (Some [ mkEntry sx_path_a INoData [] ]) [];
    mkFseg 10 4713 (Some [ mkEntry sx_path_a IMatchPrev [];
                           mkEntry sx_path_b (IFull 20 1 1 1 None) [] ]) (hex "7f") ].
End Files.

Example sx_wf : wf_file sx_file.
Proof. unfold wf_file. vm_compute. reflexivity. Qed.
Example sx_ok : spec_ok sx_file.
Proof. unfold spec_ok. vm_compute. reflexivity. Qed.
Example sx_meaning : spec_meaning sx_file = SOk sx_content.
Proof. vm_compute. reflexivity. Qed.
Example sx_read : rd_all (ser_file sx_file) = Ok (spec_tokens sx_content, true).
Proof. exact (reader_refines_spec sx_file sx_content sx_wf sx_ok sx_meaning). Qed.
(* the same by evaluating both sides *)
Example sx_read_computed : rd_all (ser_file sx_file) = Ok (spec_tokens sx_content, true).
Proof. vm_compute. reflexivity. Qed.

Example rc_ok : spec_ok rc_file.
Proof. unfold spec_ok. vm_compute. reflexivity. Qed.
Example rc_meaning : spec_meaning rc_file = SOk rc_content.
Proof. vm_compute. reflexivity. Qed.
Example rc_read : rd_all (ser_file rc_file) = Ok (spec_tokens rc_content, true).
Proof. exact (reader_refines_spec rc_file rc_content rc_wf rc_ok rc_meaning). Qed.
Example rc_read_computed : rd_all (ser_file rc_file) = Ok (spec_tokens rc_content, true).
Proof. vm_compute. reflexivity. Qed.

Example rc2_ok : spec_ok rc2_file.
Proof. unfold spec_ok. vm_compute. reflexivity. Qed.
Example rc2_meaning : spec_meaning rc2_file = SOk rc2_content.
Proof. vm_compute. reflexivity. Qed.
Example rc2_read : rd_all (ser_file rc2_file) = Ok (spec_tokens rc2_content, true).
Proof. exact (reader_refines_spec rc2_file rc2_content rc2_wf rc2_ok rc2_meaning). Qed.
Example rc2_read_computed : rd_all (ser_file rc2_file) = Ok (spec_tokens rc2_content, true).
Proof. vm_compute. reflexivity. Qed.

Example rcz_ok : spec_ok rcz_file.
Proof. unfold spec_ok. vm_compute. reflexivity. Qed.
Example rcz_meaning : spec_meaning rcz_file = SOk rcz_content.
Proof. vm_compute. reflexivity. Qed.
Example rcz_read : rd_all (ser_file rcz_file) = Ok (spec_tokens rcz_content, true).
Proof. exact (reader_refines_spec rcz_file rcz_content rcz_wf rcz_ok rcz_meaning). Qed.
Example rcz_read_computed : rd_all (ser_file rcz_file) = Ok (spec_tokens rcz_content, true).
Proof. vm_compute. reflexivity. Qed.

(* forbidden encodings: the specification's verdict, the hypotheses of the
   rejection theorem, and the model's verdict on the bytes *)
Example fb1_spec : spec_meaning fb_first_without_metadata = SErr FirstWithoutMetadata.
Proof. vm_compute. reflexivity. Qed.
Example fb1_hyps : wf_file fb_first_without_metadata /\ spec_ok fb_first_without_metadata.
Proof. split; vm_compute; reflexivity. Qed.
Example fb1_read : rd_all (ser_file fb_first_without_metadata) = Err EValue.
Proof. vm_compute. reflexivity. Qed.

Example fb2_spec : spec_meaning fb_match_prev_undefined = SErr MatchPrevUndefined.
Proof. vm_compute. reflexivity. Qed.
Example fb2_hyps : wf_file fb_match_prev_undefined /\ spec_ok fb_match_prev_undefined.
Proof. split; vm_compute; reflexivity. Qed.
Example fb2_read : rd_all (ser_file fb_match_prev_undefined) = Err EValue.
Proof. vm_compute. reflexivity. Qed.

Example fb3_spec : spec_meaning fb_type_change = SErr TypeChange.
Proof. vm_compute. reflexivity. Qed.
Example fb3_hyps : wf_file fb_type_change /\ spec_ok fb_type_change.
Proof. split; vm_compute; reflexivity. Qed.
Example fb3_read : rd_all (ser_file fb_type_change) = Err EValue.
Proof. vm_compute. reflexivity. Qed.

(* the corner *)
Example corner_spec :
  spec_meaning corner_no_chunk = SErr MatchPrevNeverIndexed /\
  spec_meaning corner_with_chunk = SErr MatchPrevNeverIndexed /\
  ~ forbidden MatchPrevNeverIndexed.
Proof.
  split; [vm_compute; reflexivity|]. split; [vm_compute; reflexivity|].
  intros [H|[H|H]]; discriminate.
Qed.
Example corner_read :
  (exists t, rd_all (ser_file corner_no_chunk) = Ok t) /\
  rd_all (ser_file corner_with_chunk) = Err EOther.
Proof. split; [eexists; vm_compute; reflexivity|vm_compute; reflexivity]. Qed.
