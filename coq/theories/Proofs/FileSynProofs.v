(* The reader's metadata pass on the BYTES of a serialised file is the abstract
   state machine run on the file's SYNTAX (Model/FileSyn.v):

     rd_metadata (ser_file segs) false (Some (blen (ser_file segs))) w = sm_run segs w

   and the same for the matching index file (tag TDSh, raw data removed) read
   with the data file's size known, hence index transparency for serialised
   files.  One induction over the segment list covers both streams: the source
   position advances by the whole segment in the data file and by lead-in +
   metadata in the index file, the segment position is the same in both. *)

From Coq Require Import List ZArith Bool Lia ZifyBool.
From Coq Require Import Init.Byte.
Import ListNotations.
From NpTdms Require Import Base.Bytes Base.Res Model.Tokens Model.TokensWf Model.SegState
     Model.Layout Model.Reader Model.FileSyn Proofs.TokensRoundtrip.
Local Open Scope Z_scope.

(* ---- well-formed file syntax ------------------------------------------------ *)

(* Per segment, everything the proofs below need:
   - the ToC mask is a u32 and the version an i32 (they are stored in 4 bytes);
   - the next-segment offset (metadata + raw data length) is below
     0xFFFFFFFFFFFFFFFF: it fits a u64 and is not the "length unknown" marker
     (the raw data offset, being smaller, then fits as well);
   - the metadata flag of the ToC mask is set exactly when there is a metadata
     block, and the block is well formed for the consuming parser
     (Model/TokensWf.v: field widths, readable property types, ...). *)
Definition wf_fseg (s : fseg) : bool :=
  is_u32 (fs_toc s) && is_i32 (fs_version s) &&
  (blen (fs_meta_bytes s) + blen (fs_data s) <? 0xFFFFFFFFFFFFFFFF) &&
  match fs_meta s with
  | Some es => toc_has (fs_toc s) TOC_META && wf_metadata es
  | None => negb (toc_has (fs_toc s) TOC_META)
  end.

Definition wf_file (segs : list fseg) : Prop := forallb wf_fseg segs = true.

(* the same, spelled out *)
Definition wf_fseg_P (s : fseg) : Prop :=
  0 <= fs_toc s < 4294967296 /\
  -2147483648 <= fs_version s < 2147483648 /\
  blen (fs_meta_bytes s) + blen (fs_data s) < 0xFFFFFFFFFFFFFFFF /\
  match fs_meta s with
  | Some es => toc_has (fs_toc s) TOC_META = true /\ wf_metadata es = true
  | None => toc_has (fs_toc s) TOC_META = false
  end.

Lemma wf_fseg_spec s : wf_fseg s = true <-> wf_fseg_P s.
Proof.
  unfold wf_fseg, wf_fseg_P, is_u32, is_i32. destruct (fs_meta s); lia.
Qed.

Lemma wf_file_spec segs : wf_file segs <-> Forall wf_fseg_P segs.
Proof.
  unfold wf_file. rewrite forallb_forall, Forall_forall.
  split; intros H s Hs; apply wf_fseg_spec; apply H; exact Hs.
Qed.

(* ---- small facts about slicing ---------------------------------------------- *)

Lemma read_at_app_len pre x post n :
  blen x = n -> read_at (blen pre) n (pre ++ x ++ post) = x.
Proof. intros <-. apply read_at_app. Qed.

Lemma drop_app_len pre x post n :
  blen pre = n -> drop n (pre ++ x ++ post) = x ++ post.
Proof. intros <-. apply drop_app_exact. Qed.

Lemma read_at_end pre : read_at (blen pre) 28 (pre ++ []) = [].
Proof. unfold read_at. rewrite drop_app_exact. reflexivity. Qed.

(* ---- one step of either loop, with the continuation abstracted ------------- *)

Definition seg_step (s : fseg) (want_index : bool) (seg_pos : Z)
           (prev_seg : option (list sobj)) (prev_index : alist nat) (st : rstate)
           (k : option (list sobj) -> alist nat -> rstate -> res rstate) : res rstate :=
  let toc := fs_toc s in
  let ver := match rs_version st with Some v => Some v | None => Some (fs_version s) end in
  let st := mkRstate (rs_segments st) (rs_prev_objs st) (rs_om st) (rs_cache st) ver in
  let dp := seg_pos + 28 + blen (fs_meta_bytes s) in
  let np := dp + blen (fs_data s) in
  do '(objs, props) <- read_segment_objects toc (fs_meta s) (rs_prev_objs st) prev_seg;
  let '(idx, cache) :=
      match fs_meta s with
      | None => (prev_index, rs_cache st)
      | Some _ => if want_index then get_index (rs_cache st) objs else ([], rs_cache st)
      end in
  do '(nch, fin) <- calculate_chunks toc false objs (np - dp);
  do '(po, om) <- update_object_metadata objs nch fin (rs_prev_objs st) (rs_om st);
  let om' := update_object_properties props om in
  let seg := mkSeg seg_pos toc np dp false objs idx nch fin in
  k (Some objs) idx (mkRstate (rs_segments st ++ [seg]) po om' cache ver).

Lemma seg_step_ext s w seg_pos ps pi st k k' :
  (forall o i st', k o i st' = k' o i st') ->
  seg_step s w seg_pos ps pi st k = seg_step s w seg_pos ps pi st k'.
Proof.
  intros Hk. unfold seg_step. cbv zeta.
  destruct (read_segment_objects _ _ _ _) as [[objs props]|e]; cbn [bind]; [|reflexivity].
  destruct (match fs_meta s with
            | Some _ => _
            | None => _
            end) as [idx cache].
  destruct (calculate_chunks _ _ _ _) as [[nch fin]|e]; cbn [bind]; [|reflexivity].
  destruct (update_object_metadata _ _ _ _ _) as [[po om]|e]; cbn [bind]; [|reflexivity].
  apply Hk.
Qed.

Lemma sm_loop_nil w seg_pos ps pi st : sm_loop [] w seg_pos ps pi st = Ok st.
Proof. reflexivity. Qed.

Lemma sm_loop_cons s r w seg_pos ps pi st :
  sm_loop (s :: r) w seg_pos ps pi st =
  seg_step s w seg_pos ps pi st
           (fun o i st' =>
              sm_loop r w (seg_pos + 28 + blen (fs_meta_bytes s) + blen (fs_data s)) o i st').
Proof. reflexivity. Qed.

(* md_loop, one unfolding *)
Lemma md_loop_eq f src is_index file_size want_index src_pos seg_pos prev_seg prev_index st :
  md_loop (S f) src is_index file_size want_index src_pos seg_pos prev_seg prev_index st =
    let lead_bytes := read_at src_pos 28 src in
    if blen lead_bytes <? 28 then Ok st
    else
      do l <- parse_leadin lead_bytes;
      if negb (bytes_eqb (l_tag l) (if is_index then TAG_INDEX else TAG_DATA)) then Err EValue
      else
        let ver := match rs_version st with Some v => Some v | None => Some (l_version l) end in
        let st := mkRstate (rs_segments st) (rs_prev_objs st) (rs_om st) (rs_cache st) ver in
        do lr <- lead_positions seg_pos l file_size;
        match lr with
        | LeadEof => Ok st
        | LeadOk dp np inc =>
          let toc := l_toc l in
          do md <- (if toc_has toc TOC_META
                    then do '(es, _) <- parse_metadata (toc_endian toc) (drop (src_pos + 28) src); Ok (Some es)
                    else Ok None);
          do '(objs, props) <- read_segment_objects toc md (rs_prev_objs st) prev_seg;
          let '(idx, cache) :=
              match md with
              | None => (prev_index, rs_cache st)
              | Some _ => if want_index then get_index (rs_cache st) objs else ([], rs_cache st)
              end in
          do '(nch, fin) <- calculate_chunks toc inc objs (np - dp);
          do '(po, om) <- update_object_metadata objs nch fin (rs_prev_objs st) (rs_om st);
          let om' := update_object_properties props om in
          let seg := mkSeg seg_pos toc np dp inc objs idx nch fin in
          let st' := mkRstate (rs_segments st ++ [seg]) po om' cache ver in
          let src_pos' := if is_index then src_pos + (dp - seg_pos) else np in
          md_loop f src is_index file_size want_index src_pos' np (Some objs) idx st'
        end.
Proof. reflexivity. Qed.

(* ---- the lead-in of a serialised segment ------------------------------------ *)

Definition seg_leadin (tag : bytes) (s : fseg) : leadin :=
  mkLeadin tag (fs_toc s) (fs_version s)
           (blen (fs_meta_bytes s) + blen (fs_data s)) (blen (fs_meta_bytes s)).

Lemma ser_seg_eq tag wd s :
  ser_seg tag wd s =
  ser_leadin (seg_leadin tag s) ++ fs_meta_bytes s ++ (if wd then fs_data s else []).
Proof. reflexivity. Qed.

Definition tag_of (is_index : bool) : bytes := if is_index then TAG_INDEX else TAG_DATA.

Lemma wf_seg_leadin ii s : wf_fseg s = true -> wf_leadin (seg_leadin (tag_of ii) s) = true.
Proof.
  intros Hwf. unfold wf_fseg in Hwf.
  apply andb_prop in Hwf. destruct Hwf as [Hwf _].
  apply andb_prop in Hwf. destruct Hwf as [Hwf Hlen].
  apply andb_prop in Hwf. destruct Hwf as [Htoc Hver].
  pose proof (blen_nonneg (fs_meta_bytes s)) as Hm.
  pose proof (blen_nonneg (fs_data s)) as Hd.
  unfold wf_leadin, seg_leadin. cbn [l_tag l_toc l_version l_next l_raw].
  rewrite Htoc, Hver.
  replace (blen (tag_of ii) =? 4) with true by (destruct ii; reflexivity).
  cbn [andb]. unfold is_u64. lia.
Qed.

Lemma lead_positions_exact seg_pos l fsz :
  l_next l <> 0xFFFFFFFFFFFFFFFF ->
  seg_pos + l_next l + 28 <= fsz ->
  lead_positions seg_pos l (Some fsz) =
  Ok (LeadOk (seg_pos + 28 + l_raw l) (seg_pos + l_next l + 28) false).
Proof.
  intros Hn Hsz. unfold lead_positions.
  destruct (l_next l =? 18446744073709551615) eqn:E.
  - apply Z.eqb_eq in E. contradiction.
  - cbv zeta. destruct (fsz <? seg_pos + l_next l + 28) eqn:C; [lia|reflexivity].
Qed.

(* length of a serialised segment *)
Lemma blen_ser_seg ii s :
  wf_fseg s = true ->
  blen (ser_seg (tag_of ii) (negb ii) s) =
  28 + blen (fs_meta_bytes s) + (if ii then 0 else blen (fs_data s)).
Proof.
  intros Hwf. rewrite ser_seg_eq, !blen_app.
  rewrite (ser_leadin_length _ (wf_seg_leadin ii s Hwf)).
  destruct ii; cbn [negb]; [change (blen []) with 0|]; lia.
Qed.

Lemma ser_seg_length_ge tag wd s : (1 <= length (ser_seg tag wd s))%nat.
Proof.
  rewrite ser_seg_eq. unfold ser_leadin. rewrite !app_length, u_enc_length. lia.
Qed.

(* ---- one iteration of md_loop on a serialised segment ----------------------- *)

Lemma md_loop_step s ii pre rest src f fsz w seg_pos ps pi st :
  wf_fseg s = true ->
  src = pre ++ ser_seg (tag_of ii) (negb ii) s ++ rest ->
  seg_pos + 28 + blen (fs_meta_bytes s) + blen (fs_data s) <= fsz ->
  md_loop (S f) src ii (Some fsz) w (blen pre) seg_pos ps pi st =
  seg_step s w seg_pos ps pi st
    (fun o i st' =>
       md_loop f src ii (Some fsz) w
               (if ii then blen pre + (seg_pos + 28 + blen (fs_meta_bytes s) - seg_pos)
                else seg_pos + 28 + blen (fs_meta_bytes s) + blen (fs_data s))
               (seg_pos + 28 + blen (fs_meta_bytes s) + blen (fs_data s)) o i st').
Proof.
  intros Hwf Hsrc Hsz.
  pose proof (wf_seg_leadin ii s Hwf) as HwfL.
  pose proof (ser_leadin_length _ HwfL) as HlenL.
  set (L := seg_leadin (tag_of ii) s) in *.
  set (m := fs_meta_bytes s) in *.
  set (d' := if negb ii then fs_data s else []).
  assert (Hsrc' : src = pre ++ ser_leadin L ++ (m ++ d' ++ rest)).
  { rewrite Hsrc, ser_seg_eq. fold L. fold m. fold d'. rewrite <- !app_assoc. reflexivity. }
  assert (Hrd : read_at (blen pre) 28 src = ser_leadin L).
  { rewrite Hsrc'. apply read_at_app_len. exact HlenL. }
  assert (Hdrop : drop (blen pre + 28) src = m ++ d' ++ rest).
  { rewrite Hsrc'. rewrite app_assoc. apply drop_app_len. rewrite blen_app. lia. }
  pose proof (blen_nonneg m) as Hm0.
  pose proof (blen_nonneg (fs_data s)) as Hd0.
  assert (Hlen : blen m + blen (fs_data s) < 0xFFFFFFFFFFFFFFFF).
  { unfold wf_fseg in Hwf. fold m in Hwf. lia. }
  assert (Hnext : l_next L <> 0xFFFFFFFFFFFFFFFF).
  { unfold L, seg_leadin. cbn [l_next]. fold m. lia. }
  assert (Hfit : seg_pos + l_next L + 28 <= fsz).
  { unfold L, seg_leadin. cbn [l_next]. fold m. lia. }
  rewrite md_loop_eq. cbv zeta.
  rewrite Hrd, HlenL, Z.ltb_irrefl.
  rewrite (parse_leadin_ser L HwfL). cbn [bind].
  rewrite (lead_positions_exact seg_pos L fsz Hnext Hfit). cbn [bind].
  unfold L, seg_leadin. cbn [l_tag l_toc l_version l_next l_raw]. fold m.
  replace (bytes_eqb (tag_of ii) (if ii then TAG_INDEX else TAG_DATA)) with true
    by (destruct ii; reflexivity).
  cbn [negb].
  rewrite Hdrop.
  replace (seg_pos + (blen m + blen (fs_data s)) + 28)
    with (seg_pos + 28 + blen m + blen (fs_data s)) by lia.
  unfold seg_step. cbv zeta. fold m.
  assert (Hflag : match fs_meta s with
                  | Some es => toc_has (fs_toc s) TOC_META = true /\ wf_metadata es = true
                  | None => toc_has (fs_toc s) TOC_META = false
                  end).
  { unfold wf_fseg in Hwf. destruct (fs_meta s); lia. }
  unfold m at 1. unfold fs_meta_bytes.
  destruct (fs_meta s) as [es|] eqn:Hmeta.
  - destruct Hflag as [Hflag Hes]. rewrite Hflag.
    rewrite (parse_metadata_ser _ es _ Hes). cbn [bind]. reflexivity.
  - rewrite Hflag. cbn [bind]. reflexivity.
Qed.

(* ---- the whole loop ---------------------------------------------------------- *)

(* the data file ([false]) or the matching index file ([true]) *)
Definition ser_segs (ii : bool) (segs : list fseg) : bytes :=
  flat_map (ser_seg (tag_of ii) (negb ii)) segs.

Lemma ser_file_segs segs : ser_file segs = ser_segs false segs.
Proof. reflexivity. Qed.

Lemma ser_index_segs segs : ser_index segs = ser_segs true segs.
Proof. reflexivity. Qed.

Lemma blen_ser_file_cons s r :
  wf_fseg s = true ->
  blen (ser_file (s :: r)) =
  28 + blen (fs_meta_bytes s) + blen (fs_data s) + blen (ser_file r).
Proof.
  intros Hwf. rewrite !ser_file_segs. unfold ser_segs. cbn [flat_map].
  rewrite blen_app, (blen_ser_seg false s Hwf). reflexivity.
Qed.

Lemma md_loop_ser : forall segs ii pre fuel fsz w seg_pos ps pi st,
  wf_file segs ->
  (length segs < fuel)%nat ->
  seg_pos + blen (ser_file segs) <= fsz ->
  (ii = false -> seg_pos = blen pre) ->
  md_loop fuel (pre ++ ser_segs ii segs) ii (Some fsz) w (blen pre) seg_pos ps pi st =
  sm_loop segs w seg_pos ps pi st.
Proof.
  induction segs as [|s r IH]; intros ii pre fuel fsz w seg_pos ps pi st Hwf Hfuel Hsz Hpos.
  - destruct fuel as [|f]; [cbn [length] in Hfuel; lia|].
    rewrite md_loop_eq. cbv zeta. unfold ser_segs. cbn [flat_map].
    rewrite read_at_end. reflexivity.
  - destruct fuel as [|f]; [cbn [length] in Hfuel; lia|].
    cbn [length] in Hfuel.
    unfold wf_file in Hwf. cbn [forallb] in Hwf. apply andb_prop in Hwf.
    destruct Hwf as [Hs Hr].
    rewrite (blen_ser_file_cons s r Hs) in Hsz.
    pose proof (blen_nonneg (ser_file r)) as Hr0.
    unfold ser_segs. cbn [flat_map]. fold (ser_segs ii r).
    rewrite (md_loop_step s ii pre (ser_segs ii r) _ f fsz w seg_pos ps pi st Hs eq_refl)
      by lia.
    rewrite sm_loop_cons. apply seg_step_ext. intros o i st'.
    rewrite app_assoc.
    replace (if ii then blen pre + (seg_pos + 28 + blen (fs_meta_bytes s) - seg_pos)
             else seg_pos + 28 + blen (fs_meta_bytes s) + blen (fs_data s))
      with (blen (pre ++ ser_seg (tag_of ii) (negb ii) s)).
    + apply IH.
      * exact Hr.
      * lia.
      * lia.
      * intros Hii. rewrite blen_app, (blen_ser_seg ii s Hs), Hii.
        rewrite (Hpos Hii). lia.
    + rewrite blen_app, (blen_ser_seg ii s Hs). destruct ii; [lia|].
      rewrite (Hpos eq_refl). lia.
Qed.

Lemma ser_segs_length_ge ii segs : (length segs <= length (ser_segs ii segs))%nat.
Proof.
  unfold ser_segs. apply flat_map_length_ge. intros x. apply ser_seg_length_ge.
Qed.

(* Reading the serialised file IS the state machine on its syntax. *)
Theorem rd_metadata_ser : forall segs w, wf_file segs ->
    rd_metadata (ser_file segs) false (Some (blen (ser_file segs))) w = sm_run segs w.
Proof.
  intros segs w Hwf. unfold rd_metadata, sm_run.
  pose proof (ser_segs_length_ge false segs) as Hlen.
  rewrite ser_file_segs at 1 2.
  apply (md_loop_ser segs false [] _ (blen (ser_file segs)) w 0 None [] rstate0 Hwf).
  - lia.
  - lia.
  - reflexivity.
Qed.

(* Reading the matching index file, with the data file's size known, is the
   same state machine run. *)
Theorem rd_metadata_ser_index : forall segs w, wf_file segs ->
    rd_metadata (ser_index segs) true (Some (blen (ser_file segs))) w = sm_run segs w.
Proof.
  intros segs w Hwf. unfold rd_metadata, sm_run.
  pose proof (ser_segs_length_ge true segs) as Hlen.
  rewrite ser_index_segs.
  apply (md_loop_ser segs true [] _ (blen (ser_file segs)) w 0 None [] rstate0 Hwf).
  - lia.
  - lia.
  - discriminate.
Qed.

Theorem index_transparent_ser : forall segs w, wf_file segs ->
    rd_metadata (ser_index segs) true (Some (blen (ser_file segs))) w =
    rd_metadata (ser_file segs) false (Some (blen (ser_file segs))) w.
Proof.
  intros segs w Hwf. rewrite rd_metadata_ser_index, rd_metadata_ser by exact Hwf. reflexivity.
Qed.

(* ---- a concrete instance ----------------------------------------------------- *)

(* Two segments.  The first has a metadata block (root, a group with a string
   property, an int32 channel with two values per chunk and an int32 property)
   and 16 bytes of raw data (two chunks); the second has no metadata block: it
   repeats the object list of the first and carries one more chunk. *)
Import String.
Local Open Scope string_scope.

Definition ex_file : list fseg :=
  [ mkFseg 14 4713
      (Some [ mkEntry (hex "2f") INoData [];
              mkEntry (hex "2f276727") INoData [mkProp (hex "6e") T_STRING (hex "6869")];
              mkEntry (hex "2f2767272f276327") (IFull 20 3 1 2 None)
                      [mkProp (hex "70") 3 (hex "07000000")] ])
      (hex "01000000020000000300000004000000");
    mkFseg 8 4713 None (hex "0500000006000000") ].

Example ex_file_wf : wf_file ex_file.
Proof. unfold wf_file. vm_compute. reflexivity. Qed.

(* both sides of [rd_metadata_ser] compute to the same successful run *)
Example ex_file_run :
  rd_metadata (ser_file ex_file) false (Some (blen (ser_file ex_file))) true = sm_run ex_file true /\
  match sm_run ex_file true with
  | Ok st => map (fun g => (sg_pos g, sg_data g, sg_next g, sg_nchunks g)) (rs_segments st)
             = [(0, 125, 141, 2); (141, 169, 177, 1)]
  | Err _ => False
  end.
Proof. vm_compute. split; reflexivity. Qed.

Example ex_index_run :
  rd_metadata (ser_index ex_file) true (Some (blen (ser_file ex_file))) true = sm_run ex_file true /\
  blen (ser_index ex_file) = 153 /\ blen (ser_file ex_file) = 177.
Proof. vm_compute. repeat split; reflexivity. Qed.
