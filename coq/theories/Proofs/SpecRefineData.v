(* Refinement of the reader model to Model/Spec.v — raw data.
   Whenever the specification's [decode_data] accepts a raw data block, that
   block IS the model-level encoding ([seg_encodes], Proofs/ReadCorrect.v) of
   chunks that hold exactly the values the specification extracted; so the
   existing theorem [read_correct] applies to it. *)
From Coq Require Import List ZArith Bool Lia ZifyBool.
From Coq Require Import Init.Byte.
Import ListNotations.
From NpTdms Require Import Base.Bytes Base.Res Model.Tokens Model.SegState Model.Layout Model.Reader
     Model.FileSyn Model.Spec Proofs.SegStateProofs Proofs.LayoutProofs Proofs.ReadCorrect
     Proofs.SpecRefineBase.
Local Open Scope Z_scope.
Ltac Zify.zify_post_hook ::= Z.to_euclidean_division_equations.

(* ---- lists -------------------------------------------------------------------- *)

Lemma firstn_add {A} (a b : nat) (l : list A) :
  firstn (a + b) l = firstn a l ++ firstn b (skipn a l).
Proof.
  revert l. induction a as [|a IH]; intros l; [reflexivity|].
  destruct l as [|x l]; cbn [Nat.add firstn skipn app].
  - rewrite firstn_nil. reflexivity.
  - rewrite IH. reflexivity.
Qed.

Lemma pieces_length n k (d : bytes) : length (pieces n k d) = n.
Proof. revert d. induction n as [|n IH]; intros d; cbn [pieces length]; [reflexivity|]. rewrite IH. reflexivity. Qed.

Lemma pieces_concat n k : forall d : bytes, concat (pieces n k d) = firstn (n * k) d.
Proof.
  induction n as [|n IH]; intros d; [reflexivity|].
  cbn [pieces concat Nat.mul]. rewrite IH, firstn_add. reflexivity.
Qed.

Lemma pieces_Forall n k : forall d : bytes,
    (n * k <= length d)%nat -> Forall (fun p => length p = k) (pieces n k d).
Proof.
  induction n as [|n IH]; intros d Hd; cbn [pieces]; constructor.
  - cbn [Nat.mul] in Hd. rewrite firstn_length. lia.
  - apply IH. cbn [Nat.mul] in Hd. rewrite skipn_length. lia.
Qed.

(* a block of a whole number of [w]-byte units cut into those units *)
Lemma pieces_whole (d : bytes) (w : Z) :
  0 < w -> blen d mod w = 0 ->
  concat (pieces (Z.to_nat (blen d / w)) (Z.to_nat w) d) = d /\
  Forall (fun x => blen x = w) (pieces (Z.to_nat (blen d / w)) (Z.to_nat w) d) /\
  Z.of_nat (length (pieces (Z.to_nat (blen d / w)) (Z.to_nat w) d)) = blen d / w.
Proof.
  intros Hw Hmod.
  assert (Hq : 0 <= blen d / w) by (apply Z.div_pos; [apply blen_nonneg|lia]).
  assert (Hd : blen d = blen d / w * w).
  { pose proof (Z.div_mod (blen d) w) as H. rewrite Hmod in H. lia. }
  assert (Hn : (Z.to_nat (blen d / w) * Z.to_nat w)%nat = length d).
  { rewrite <- Z2Nat.inj_mul by lia. rewrite <- Hd. unfold blen. apply Nat2Z.id. }
  split; [|split].
  - rewrite pieces_concat, Hn. apply firstn_all.
  - eapply Forall_impl; [|apply pieces_Forall; lia].
    intros x Hx. unfold blen. rewrite Hx. lia.
  - rewrite pieces_length. lia.
Qed.

Lemma all_some_map_inv {A B} (f : A -> option B) : forall l ys,
    all_some (map f l) = Some ys -> Forall2 (fun x y => f x = Some y) l ys.
Proof.
  induction l as [|a l IH]; intros ys H; cbn [map all_some] in H.
  - injection H as <-. constructor.
  - destruct (f a) as [y|] eqn:E; [|discriminate].
    destruct (all_some (map f l)) as [ys'|] eqn:E2; cbn [option_map] in H; [|discriminate].
    injection H as <-. constructor; [exact E|]. apply IH. reflexivity.
Qed.

Lemma beq_sym a b : beq a b = beq b a.
Proof.
  destruct (beq a b) eqn:E; symmetry.
  - apply beq_eq in E. subst b. apply beq_refl.
  - apply beq_neq in E. apply beq_neq. congruence.
Qed.

(* ---- sizes ---------------------------------------------------------------------- *)

Lemma chunk_bytes_cons o r : chunk_bytes (o :: r) = ri_bytes (snd o) + chunk_bytes r.
Proof. reflexivity. Qed.

Lemma chunk_bytes_nonneg dobjs :
  Forall (fun o => idx_ok (snd o)) dobjs -> 0 <= chunk_bytes dobjs.
Proof.
  induction 1 as [|o r Ho _ IH]; [unfold chunk_bytes; cbn; lia|].
  rewrite chunk_bytes_cons. destruct Ho as (_ & Hb & _). lia.
Qed.

Lemma chunk_bytes_pos dobjs :
  Forall (fun o => idx_ok (snd o)) dobjs -> dobjs <> [] -> 0 < chunk_bytes dobjs.
Proof.
  intros Hok Hne. destruct Hok as [|o r Ho Hr]; [contradiction|].
  rewrite chunk_bytes_cons. destruct Ho as (_ & Hb & _).
  pose proof (chunk_bytes_nonneg r Hr). lia.
Qed.

Lemma type_size_some dt sz : type_size dt = Some sz -> tds_size dt = Some (Some sz).
Proof.
  unfold type_size. destruct (tds_size dt) as [[s|]|]; try discriminate.
  intros H. injection H as ->. reflexivity.
Qed.

Lemma type_size_pos dt sz : type_size dt = Some sz -> 0 < sz.
Proof. intros H. exact (tds_size_pos dt sz (type_size_some dt sz H)). Qed.

Lemma sized_dobj o : sized (dobj o) = type_size (ri_dt (snd o)).
Proof. destruct o as [p [dt n b]]. reflexivity. Qed.

Lemma paths_dobj dobjs : map so_path (map dobj dobjs) = map fst dobjs.
Proof. rewrite map_map. apply map_ext. intros o. reflexivity. Qed.

Lemma dsizes_dobj dobjs : zsum (map so_dsize (map dobj dobjs)) = chunk_bytes dobjs.
Proof. rewrite map_map. reflexivity. Qed.

(* ---- one object's values in a contiguous chunk ---------------------------------- *)

Lemma slices_spec : forall offs prev body ss,
    slices prev offs body = Some ss -> end_offsets prev ss = offs /\ concat ss = body.
Proof.
  induction offs as [|o r IH]; intros prev body ss H; cbn [slices] in H.
  - destruct body; [|discriminate]. injection H as <-. split; reflexivity.
  - destruct ((o <? prev) || (blen body <? o - prev)) eqn:C; [discriminate|].
    destruct (slices o r (skipn (Z.to_nat (o - prev)) body)) as [ss'|] eqn:E;
      cbn [option_map] in H; [|discriminate].
    injection H as <-. destruct (IH _ _ _ E) as [He Hc].
    assert (Hb : prev + blen (firstn (Z.to_nat (o - prev)) body) = o).
    { unfold blen in *. rewrite firstn_length. lia. }
    cbn [end_offsets concat]. rewrite Hb, He, Hc. split; [reflexivity|apply firstn_skipn].
Qed.

Lemma end_offsets_bound (B : Z) : forall ss prev,
    Forall (fun o => o < B) (end_offsets prev ss) -> prev < B -> prev + zsum (map blen ss) < B.
Proof.
  induction ss as [|s r IH]; intros prev Hall Hp; cbn [map zsum fold_right]; [lia|].
  cbn [end_offsets] in Hall. inversion Hall as [|x l Hx Hl]; subst x l.
  specialize (IH _ Hl Hx). unfold zsum in IH. lia.
Qed.

Lemma put_dec_pieces e (ps : list bytes) :
  Forall (fun p => length p = 4%nat) ps ->
  flat_map (put_u32 e) (map (u_dec e) ps) = concat ps.
Proof.
  induction 1 as [|p ps Hp _ IH]; [reflexivity|].
  cbn [map flat_map concat]. rewrite IH. f_equal.
  unfold put_u32. rewrite <- Hp. apply u_enc_dec.
Qed.

Lemma obj_values_enc e (o : bytes * rawidx) (x : bytes) vs :
  idx_ok (snd o) -> blen x = ri_bytes (snd o) ->
  obj_values e (snd o) x = Some vs ->
  vals_ok (so_nvals (dobj o)) (dobj o) vs /\ enc_obj e (dobj o) vs = x.
Proof.
  destruct o as [p [dt n b]]. unfold idx_ok, obj_values, vals_ok, enc_obj, dobj, mk_obj.
  cbn [fst snd ri_dt ri_n ri_bytes so_nvals so_dtype].
  intros (Hn & Hb & Ht) Hx Hov.
  destruct (type_size dt) as [sz|] eqn:Hts.
  - (* fixed size *)
    pose proof (type_size_pos _ _ Hts) as Hsz.
    rewrite (type_size_some _ _ Hts). injection Hov as <-.
    assert (Hlen : (Z.to_nat n * Z.to_nat sz)%nat = length x).
    { rewrite <- Z2Nat.inj_mul by lia. unfold blen in Hx. lia. }
    split; [split|].
    + rewrite map_length, pieces_length. lia.
    + apply Forall_map. eapply Forall_impl; [|apply pieces_Forall; lia].
      intros v Hv. rewrite canon_value_blen. unfold blen. rewrite Hv. lia.
    + unfold enc_values. rewrite flat_map_concat_map, map_map.
      rewrite (map_ext _ (fun v => v)) by (intros v; apply canon_then_store).
      rewrite map_id, pieces_concat, Hlen. apply firstn_all.
  - (* strings *)
    subst dt. change (tds_size T_STRING) with (Some (@None Z)). cbv iota.
    destruct ((n <? 0) || (blen x <? 4 * n)) eqn:C; [discriminate|].
    destruct (slices_spec _ _ _ _ Hov) as [He Hc].
    assert (H4 : Forall (fun p => length p = 4%nat) (pieces (Z.to_nat n) 4 x)).
    { apply pieces_Forall. unfold blen in C. lia. }
    split; [split; [|split; [reflexivity|]]|].
    + rewrite <- (end_offsets_length 0 vs), He, map_length, pieces_length. lia.
    + change (2 ^ 32) with 4294967296.
      apply (end_offsets_bound 4294967296 vs 0); [|lia].
      rewrite He. apply Forall_map. eapply Forall_impl; [|exact H4].
      intros q Hq. pose proof (u_dec_range e q) as Hr. rewrite Hq in Hr.
      change (256 ^ Z.of_nat 4) with 4294967296 in Hr. lia.
    + unfold enc_strings. rewrite He, Hc, (put_dec_pieces e _ H4), pieces_concat.
      rewrite Nat.mul_comm. apply firstn_skipn.
Qed.

(* ---- one contiguous chunk --------------------------------------------------------- *)

Lemma chunk_values_enc e : forall dobjs (x : bytes) vss,
    Forall (fun o => idx_ok (snd o)) dobjs -> blen x = chunk_bytes dobjs ->
    Spec.chunk_values e dobjs x = Some vss ->
    Forall2 (fun o vs => vals_ok (so_nvals o) o vs) (map dobj dobjs) vss /\
    Forall2 (dsize_ok e) (map dobj dobjs) vss /\
    x = enc_chunk e (combine (map dobj dobjs) vss).
Proof.
  induction dobjs as [|[p i] r IH]; intros x vss Hok Hx Hcv; cbn [Spec.chunk_values] in Hcv.
  - injection Hcv as <-. destruct x as [|b x]; [|unfold blen, chunk_bytes in Hx; cbn in Hx; lia].
    split; [constructor|split; [constructor|reflexivity]].
  - destruct (obj_values e i (firstn (Z.to_nat (ri_bytes i)) x)) as [vs|] eqn:Hov; [|discriminate].
    destruct (Spec.chunk_values e r (skipn (Z.to_nat (ri_bytes i)) x)) as [vss'|] eqn:Hr; [|discriminate].
    injection Hcv as <-.
    inversion Hok as [|o l Hi Hrok]; subst o l. cbn [snd] in Hi.
    rewrite chunk_bytes_cons in Hx. cbn [snd] in Hx.
    pose proof (chunk_bytes_nonneg r Hrok) as Hnn.
    assert (Hb : 0 < ri_bytes i) by (destruct Hi as (_ & Hb & _); exact Hb).
    assert (Hx1 : blen (firstn (Z.to_nat (ri_bytes i)) x) = ri_bytes i)
      by (unfold blen in *; rewrite firstn_length; lia).
    assert (Hx2 : blen (skipn (Z.to_nat (ri_bytes i)) x) = chunk_bytes r)
      by (unfold blen in *; rewrite skipn_length; lia).
    destruct (obj_values_enc e (p, i) _ vs Hi Hx1 Hov) as [Hv He].
    destruct (IH _ _ Hrok Hx2 Hr) as (IH1 & IH2 & IH3).
    cbn [map combine]. split; [|split].
    + constructor; assumption.
    + constructor; [|assumption]. unfold dsize_ok. rewrite He, Hx1. reflexivity.
    + unfold enc_chunk in *. cbn [flat_map fst snd]. rewrite He, <- IH3.
      symmetry. apply firstn_skipn.
Qed.

Lemma units_contig e dobjs :
  Forall (fun o => idx_ok (snd o)) dobjs ->
  forall (l : list bytes) css,
    Forall2 (fun x vss => Spec.chunk_values e dobjs x = Some vss) l css ->
    Forall (fun x => blen x = chunk_bytes dobjs) l ->
    Forall (fun vss => Forall2 (fun o vs => vals_ok (so_nvals o) o vs) (map dobj dobjs) vss) css /\
    Forall (Forall2 (dsize_ok e) (map dobj dobjs)) css /\
    concat l = enc_chunks e (map dobj dobjs) css.
Proof.
  intros Hok. induction 1 as [|x vss l css Hx _ IH]; intros Hl.
  - split; [constructor|split; [constructor|reflexivity]].
  - inversion Hl as [|y l' Hy Hl']; subst y l'.
    destruct (IH Hl') as (I1 & I2 & I3).
    destruct (chunk_values_enc e dobjs x vss Hok Hy Hx) as (C1 & C2 & C3).
    split; [constructor; assumption|split; [constructor; assumption|]].
    unfold enc_chunks in *. cbn [concat flat_map]. rewrite I3, <- C3. reflexivity.
Qed.

(* ---- growing the content ------------------------------------------------------------ *)

(* every object's values grow by [f path] *)
Definition grow (f : bytes -> list bytes) (c : dict cobj) : dict cobj :=
  map (fun po => (fst po, mkCobj (o_props (snd po)) (o_dtype (snd po)) (o_vals (snd po) ++ f (fst po)))) c.

(* what an association list of values holds under a path *)
Definition vals_at (k : bytes) (l : list (bytes * list bytes)) : list bytes :=
  flat_map (fun kv => if beq k (fst kv) then snd kv else []) l.

Lemma grow_keys f c : map fst (grow f c) = map fst c.
Proof. unfold grow. rewrite map_map. reflexivity. Qed.

Lemma grow_ext f g c : (forall k, f k = g k) -> grow f c = grow g c.
Proof. intros H. unfold grow. apply map_ext. intros po. rewrite H. reflexivity. Qed.

Lemma grow_grow f g c : grow g (grow f c) = grow (fun k => f k ++ g k) c.
Proof. unfold grow. rewrite map_map. apply map_ext. intros po. cbn [fst snd o_props o_dtype o_vals]. rewrite app_assoc. reflexivity. Qed.

Lemma grow_one_id (f : bytes -> list bytes) (po : bytes * cobj) :
  f (fst po) = [] ->
  (fst po, mkCobj (o_props (snd po)) (o_dtype (snd po)) (o_vals (snd po) ++ f (fst po))) = po.
Proof. intros H. rewrite H, app_nil_r. destruct po as [k [a b c]]. reflexivity. Qed.

Lemma grow_id f c : (forall k, In k (map fst c) -> f k = []) -> grow f c = c.
Proof.
  intros H. unfold grow. rewrite <- (map_id c) at 2. apply map_ext_in. intros po Hin.
  apply grow_one_id. apply H. apply in_map. exact Hin.
Qed.

Lemma add_values_grow (c : dict cobj) (pv : bytes * list bytes) :
  NoDup (map fst c) ->
  add_values c pv = grow (fun k => if beq k (fst pv) then snd pv else []) c.
Proof.
  destruct pv as [p vs]. unfold add_values. cbn [fst snd].
  induction c as [|[k o] c IH]; intros Hnd; [reflexivity|].
  cbn [map fst] in Hnd. inversion Hnd as [|x l Hnin Hnd']; subst x l. specialize (IH Hnd').
  cbn [get]. destruct (beq p k) eqn:E.
  - apply beq_eq in E. subst k. cbn [put]. rewrite beq_refl.
    unfold grow. cbn [map fst snd]. rewrite beq_refl. f_equal.
    symmetry. apply (grow_id (fun k => if beq k p then vs else [])).
    intros k Hk. destruct (beq k p) eqn:E; [|reflexivity].
    apply beq_eq in E. subst k. contradiction.
  - assert (Hhd : (k, o) = (k, mkCobj (o_props o) (o_dtype o) (o_vals o ++ (if beq k p then vs else [])))).
    { rewrite beq_sym, E. symmetry. apply (grow_one_id (fun _ => []) (k, o)). reflexivity. }
    destruct (get p c) as [o'|] eqn:G.
    + cbn [put]. rewrite E. unfold grow in *. cbn [map fst snd]. rewrite <- IH, <- Hhd. reflexivity.
    + unfold grow in *. cbn [map fst snd]. rewrite <- IH, <- Hhd. reflexivity.
Qed.

Lemma fold_add_values : forall (l : list (bytes * list bytes)) (c : dict cobj),
    NoDup (map fst c) -> fold_left add_values l c = grow (fun k => vals_at k l) c.
Proof.
  induction l as [|pv l IH]; intros c Hnd; cbn [fold_left].
  - symmetry. apply grow_id. reflexivity.
  - rewrite add_values_grow by exact Hnd.
    rewrite IH by (rewrite grow_keys; exact Hnd).
    rewrite grow_grow. apply grow_ext. reflexivity.
Qed.

Lemma fold_add_chunk dobjs : forall css (c : dict cobj),
    NoDup (map fst c) ->
    fold_left (add_chunk dobjs) css c =
    grow (fun k => flat_map (fun vss => vals_at k (combine (map fst dobjs) vss)) css) c.
Proof.
  induction css as [|vss css IH]; intros c Hnd; cbn [fold_left].
  - symmetry. apply grow_id. reflexivity.
  - unfold add_chunk at 2. rewrite fold_add_values by exact Hnd.
    rewrite IH by (rewrite grow_keys; exact Hnd).
    rewrite grow_grow. apply grow_ext. reflexivity.
Qed.

Lemma vals_at_not_in k : forall (ps : list bytes) (vss : list (list bytes)),
    ~ In k ps -> vals_at k (combine ps vss) = [].
Proof.
  induction ps as [|p ps IH]; intros vss Hnin; [reflexivity|].
  destruct vss as [|vs vss]; [reflexivity|].
  cbn [combine]. unfold vals_at in *. cbn [flat_map fst snd].
  destruct (beq k p) eqn:E.
  - apply beq_eq in E. subst p. exfalso. apply Hnin. left. reflexivity.
  - cbn [app]. apply IH. intros Hin. apply Hnin. right. exact Hin.
Qed.

(* a contiguous chunk of the model holds what the specification's unit holds *)
Lemma chunk_of_vals k : forall dobjs (vss : list (list bytes)),
    ReadCorrect.chunk_values k (chunk_of (combine (map dobj dobjs) vss)) =
    vals_at k (combine (map fst dobjs) vss).
Proof.
  induction dobjs as [|o r IH]; intros vss; [reflexivity|].
  destruct vss as [|vs vss]; [reflexivity|].
  cbn [map combine]. unfold chunk_of. cbn [map fst snd]. fold (chunk_of (combine (map dobj r) vss)).
  rewrite chunk_values_cons, IH. reflexivity.
Qed.

Lemma chan_values_map k (F : list (list bytes) -> chunk) : forall css,
    chan_values k (map F css) = flat_map (fun vss => ReadCorrect.chunk_values k (F vss)) css.
Proof.
  induction css as [|vss css IH]; [reflexivity|].
  cbn [map flat_map]. rewrite chan_values_cons, IH. reflexivity.
Qed.

(* ---- the layout the model chooses ------------------------------------------------------ *)

Lemma no_daqmx_dobj dobjs :
  filter (fun o => match so_daqmx o with Some _ => true | None => false end) (map dobj dobjs) = [].
Proof. induction dobjs as [|o r IH]; [reflexivity|]. cbn [map]. destruct o as [p i]. cbn. exact IH. Qed.

Lemma have_daqmx_dobj objs dobjs : data_objs objs = map dobj dobjs -> have_daqmx objs = Ok false.
Proof. intros H. unfold have_daqmx. rewrite H, no_daqmx_dobj. reflexivity. Qed.

Lemma unsized_fixed dobjs :
  forallb is_fixed dobjs = true ->
  filter (fun o => match sized o with None => true | Some _ => false end) (map dobj dobjs) = [].
Proof.
  induction dobjs as [|o r IH]; intros H; [reflexivity|].
  cbn [forallb] in H. apply andb_prop in H. destruct H as [Ho Hr].
  cbn [map filter]. rewrite sized_dobj. unfold is_fixed in Ho.
  destruct (type_size (ri_dt (snd o))); [|discriminate]. apply IH. exact Hr.
Qed.

Lemma seg_layout_dobj g dobjs il :
  data_objs (sg_objs g) = map dobj dobjs ->
  have_interleaved (sg_toc g) (map dobj dobjs) = Ok il ->
  seg_layout g = Ok (if il then LInterleaved else LContig).
Proof.
  intros Hdo Hil. unfold seg_layout. rewrite (have_daqmx_dobj _ _ Hdo). cbn [bind].
  rewrite Hdo, Hil. reflexivity.
Qed.

(* ---- contiguous segments ------------------------------------------------------------------ *)

Lemma decode_contig g dobjs (d : bytes) css :
  data_objs (sg_objs g) = map dobj dobjs ->
  NoDup (map fst dobjs) ->
  Forall (fun o => idx_ok (snd o)) dobjs ->
  dobjs <> [] ->
  have_interleaved (sg_toc g) (map dobj dobjs) = Ok false ->
  whole_chunks (toc_endian (sg_toc g)) (chunk_bytes dobjs) dobjs d = SOk css ->
  exists cs : list chunk,
    seg_encodes g d cs /\
    forall c0 : dict cobj, NoDup (map fst c0) ->
      fold_left (add_chunk dobjs) css c0 = grow (fun k => chan_values k cs) c0.
Proof.
  intros Hdo Hnd Hok Hne Hil Hwc.
  pose proof (chunk_bytes_pos dobjs Hok Hne) as Hpos.
  unfold whole_chunks in Hwc.
  destruct (chunk_bytes dobjs =? 0) eqn:E0; [lia|].
  destruct (negb (blen d mod chunk_bytes dobjs =? 0)) eqn:Em; [discriminate|].
  destruct (all_some _) as [css'|] eqn:Has; [|discriminate]. injection Hwc as ->.
  apply all_some_map_inv in Has.
  destruct (pieces_whole d (chunk_bytes dobjs) Hpos ltac:(lia)) as (Hcat & Hlens & _).
  destruct (units_contig (toc_endian (sg_toc g)) dobjs Hok _ _ Has Hlens) as (U1 & U2 & U3).
  rewrite Hcat in U3.
  exists (map (fun vss => chunk_of (combine (data_objs (sg_objs g)) vss)) css). split.
  - apply se_contig; rewrite ?Hdo.
    + exact (seg_layout_dobj g dobjs false Hdo Hil).
    + rewrite dsizes_dobj. exact Hpos.
    + rewrite paths_dobj. exact Hnd.
    + exact U1.
    + exact U2.
    + exact U3.
  - intros c0 Hc0. rewrite (fold_add_chunk dobjs css c0 Hc0). apply grow_ext. intros k.
    rewrite chan_values_map, Hdo. apply flat_map_ext. intros vss.
    symmetry. apply chunk_of_vals.
Qed.

(* ---- interleaved segments ---------------------------------------------------------------- *)

Definition sing (v : bytes) : list bytes := [v].

Lemma width_nonneg dobjs :
  forallb is_fixed dobjs = true -> 0 <= chunk_bytes (map one_value dobjs).
Proof.
  induction dobjs as [|o r IH]; intros H; [unfold chunk_bytes; cbn; lia|].
  cbn [forallb] in H. apply andb_prop in H. destruct H as [Ho Hr].
  cbn [map]. rewrite chunk_bytes_cons. specialize (IH Hr).
  unfold is_fixed in Ho. unfold one_value at 1. cbn [snd ri_bytes].
  destruct (type_size (ri_dt (snd o))) as [sz|] eqn:Hts; [|discriminate].
  pose proof (type_size_pos _ _ Hts). lia.
Qed.

Lemma width_pos_spec dobjs :
  forallb is_fixed dobjs = true -> dobjs <> [] -> 0 < chunk_bytes (map one_value dobjs).
Proof.
  intros H Hne. destruct dobjs as [|o r]; [contradiction|].
  cbn [forallb] in H. apply andb_prop in H. destruct H as [Ho Hr].
  cbn [map]. rewrite chunk_bytes_cons. pose proof (width_nonneg r Hr) as Hnn.
  unfold is_fixed in Ho. unfold one_value at 1. cbn [snd ri_bytes].
  destruct (type_size (ri_dt (snd o))) as [sz|] eqn:Hts; [|discriminate].
  pose proof (type_size_pos _ _ Hts). lia.
Qed.

Lemma one_value_bytes o sz : type_size (ri_dt (snd o)) = Some sz -> ri_bytes (snd (one_value o)) = sz.
Proof. intros H. unfold one_value. cbn [snd ri_bytes]. rewrite H. reflexivity. Qed.

(* a chunk of nv rows *)
Lemma chunk_bytes_rows nv dobjs :
  Forall (fun o => idx_ok (snd o)) dobjs ->
  forallb is_fixed dobjs = true ->
  Forall (fun o => ri_n (snd o) = nv) dobjs ->
  chunk_bytes dobjs = nv * chunk_bytes (map one_value dobjs).
Proof.
  induction 1 as [|o r Ho _ IH]; intros Hfix Hn; [unfold chunk_bytes; cbn; lia|].
  cbn [forallb] in Hfix. apply andb_prop in Hfix. destruct Hfix as [Hfo Hfr].
  inversion Hn as [|x l Hno Hnr]; subst x l. specialize (IH Hfr Hnr).
  cbn [map]. rewrite !chunk_bytes_cons, IH.
  unfold is_fixed in Hfo. destruct Ho as (_ & _ & Hb).
  destruct (type_size (ri_dt (snd o))) as [sz|] eqn:Hts; [|discriminate].
  rewrite (one_value_bytes o sz Hts), Hb, Hno. ring.
Qed.

(* one row *)
Lemma row_values_enc e : forall dobjs (x : bytes) vss,
    forallb is_fixed dobjs = true -> blen x = chunk_bytes (map one_value dobjs) ->
    Spec.chunk_values e (map one_value dobjs) x = Some vss ->
    exists row, vss = map sing row /\ row_ok (map dobj dobjs) row /\
                x = enc_row e (map dobj dobjs) row.
Proof.
  induction dobjs as [|[p [dt n b]] r IH]; intros x vss Hfix Hx Hcv.
  - cbn [map Spec.chunk_values] in Hcv. injection Hcv as <-.
    destruct x as [|y x]; [|unfold blen, chunk_bytes in Hx; cbn in Hx; lia].
    exists []. split; [reflexivity|split; [constructor|reflexivity]].
  - cbn [forallb] in Hfix. apply andb_prop in Hfix. destruct Hfix as [Hfo Hfr].
    unfold is_fixed in Hfo. cbn [snd ri_dt] in Hfo.
    destruct (type_size dt) as [sz|] eqn:Hts; [|discriminate].
    pose proof (type_size_pos _ _ Hts) as Hsz.
    assert (Hone : one_value (p, mkIdx dt n b) = (p, mkIdx dt 1 sz))
      by (unfold one_value; cbn [fst snd ri_dt]; rewrite Hts; reflexivity).
    cbn [map] in Hcv, Hx. rewrite Hone in Hcv, Hx.
    rewrite chunk_bytes_cons in Hx. cbn [snd ri_bytes] in Hx.
    cbn [Spec.chunk_values ri_bytes] in Hcv. unfold obj_values in Hcv.
    cbn [ri_dt ri_n] in Hcv. rewrite Hts in Hcv.
    change (Z.to_nat 1) with 1%nat in Hcv. cbn [pieces map] in Hcv.
    destruct (Spec.chunk_values e (map one_value r) (skipn (Z.to_nat sz) x)) as [vss'|] eqn:Hr;
      [|discriminate].
    injection Hcv as <-.
    pose proof (width_nonneg r Hfr) as Hnn.
    assert (Hx2 : blen (skipn (Z.to_nat sz) x) = chunk_bytes (map one_value r))
      by (unfold blen in *; rewrite skipn_length; lia).
    destruct (IH _ _ Hfr Hx2 Hr) as (row & -> & Hrow & Henc).
    rewrite firstn_firstn, Nat.min_id.
    exists (canon_value e dt (firstn (Z.to_nat sz) x) :: row).
    split; [reflexivity|split].
    + cbn [map]. constructor; [|exact Hrow].
      rewrite sized_dobj. cbn [snd ri_dt]. rewrite Hts, canon_value_blen. f_equal.
      unfold blen in *. rewrite firstn_length. lia.
    + cbn [map]. unfold enc_row in *. cbn [combine flat_map fst snd].
      change (dtype_or0 (dobj (p, mkIdx dt n b))) with dt.
      rewrite canon_then_store, <- Henc. symmetry. apply firstn_skipn.
Qed.

Lemma units_rows e dobjs :
  forallb is_fixed dobjs = true ->
  forall (l : list bytes) css,
    Forall2 (fun x vss => Spec.chunk_values e (map one_value dobjs) x = Some vss) l css ->
    Forall (fun x => blen x = chunk_bytes (map one_value dobjs)) l ->
    exists rows, css = map (map sing) rows /\ length rows = length l /\
                 Forall (row_ok (map dobj dobjs)) rows /\
                 concat l = enc_rows e (map dobj dobjs) rows.
Proof.
  intros Hfix. induction 1 as [|x vss l css Hx _ IH]; intros Hl.
  - exists []. split; [reflexivity|split; [reflexivity|split; [constructor|reflexivity]]].
  - inversion Hl as [|y l' Hy Hl']; subst y l'.
    destruct (IH Hl') as (rows & -> & Hlen & Hrows & Hcat).
    destruct (row_values_enc e dobjs x vss Hfix Hy Hx) as (row & -> & Hrow & Henc).
    exists (row :: rows). split; [reflexivity|split; [cbn [length]; lia|split]].
    + constructor; assumption.
    + unfold enc_rows in *. cbn [concat flat_map]. rewrite Hcat, <- Henc. reflexivity.
Qed.

Lemma vals_at_row k p ps v row :
  vals_at k (combine (p :: ps) (map sing (v :: row))) =
  (if beq k p then [v] else []) ++ vals_at k (combine ps (map sing row)).
Proof. reflexivity. Qed.

(* the single chunk of an interleaved segment holds, per object, the column of
   its values = what the specification's rows hold for it, row after row *)
Lemma cols_of_vals k : forall dobjs (rows : list (list bytes)),
    NoDup (map fst dobjs) ->
    Forall (fun row => length row = length dobjs) rows ->
    flat_map (fun row => vals_at k (combine (map fst dobjs) (map sing row))) rows =
    ReadCorrect.chunk_values k (cols_of (map dobj dobjs) rows).
Proof.
  induction dobjs as [|o r IH]; intros rows Hnd Hrows.
  - cbn [map cols_of]. induction rows as [|row rows IHr]; [reflexivity|]. cbn [flat_map]. 
    inversion Hrows as [|y l' Hy Hl']; subst y l'. rewrite (IHr Hl'). reflexivity.
  - cbn [map fst] in Hnd. inversion Hnd as [|y l' Hnin Hnd']; subst y l'.
    cbn [map cols_of]. rewrite chunk_values_cons. unfold entry_values. cbn [fst snd].
    change (so_path (dobj o)) with (fst o). change (bytes_eqb k (fst o)) with (beq k (fst o)).
    destruct (beq k (fst o)) eqn:E.
    + apply beq_eq in E. subst k.
      rewrite (chunk_values_not_in (fst o) (cols_of (map dobj r) (map (@tl bytes) rows)))
        by (rewrite cols_of_key_list, paths_dobj; exact Hnin).
      rewrite app_nil_r. clear IH.
      induction Hrows as [|row rows Hrow _ IHr]; [reflexivity|].
      destruct row as [|v row]; [discriminate|].
      cbn [flat_map]. rewrite vals_at_row, beq_refl.
      rewrite (vals_at_not_in (fst o) (map fst r) _ Hnin). cbn [app map hd]. rewrite IHr. reflexivity.
    + cbn [app]. rewrite <- IH; [|exact Hnd'|].
      * clear IH. induction Hrows as [|row rows Hrow _ IHr]; [reflexivity|].
        destruct row as [|v row]; [discriminate|].
        cbn [flat_map]. rewrite vals_at_row, E. cbn [app map tl].
        rewrite IHr. reflexivity.
      * apply Forall_map. eapply Forall_impl; [|exact Hrows].
        intros [|v row] Hrow; [discriminate|]. cbn [tl length] in *. lia.
Qed.

Lemma flat_map_map {A B C} (f : A -> B) (g : B -> list C) (l : list A) :
  flat_map g (map f l) = flat_map (fun x => g (f x)) l.
Proof. induction l as [|a l IH]; [reflexivity|]. cbn [map flat_map]. rewrite IH. reflexivity. Qed.

Lemma decode_interleaved g dobjs (d : bytes) css :
  data_objs (sg_objs g) = map dobj dobjs ->
  NoDup (map fst dobjs) ->
  Forall (fun o => idx_ok (snd o)) dobjs ->
  dobjs <> [] ->
  forallb is_fixed dobjs = true ->
  same_counts dobjs = true ->
  toc_has (sg_toc g) TOC_INTERLEAVED = true ->
  whole_chunks (toc_endian (sg_toc g)) (chunk_bytes dobjs) (map one_value dobjs) d = SOk css ->
  exists cs : list chunk,
    seg_encodes g d cs /\
    forall c0 : dict cobj, NoDup (map fst c0) ->
      fold_left (add_chunk dobjs) css c0 = grow (fun k => chan_values k cs) c0.
Proof.
  intros Hdo Hnd Hok Hne Hfix Hsame Htoc Hwc.
  pose proof (chunk_bytes_pos dobjs Hok Hne) as Hpos.
  pose proof (width_pos_spec dobjs Hfix Hne) as Hw.
  destruct dobjs as [|o0 r] eqn:Edobjs; [contradiction|]. rewrite <- Edobjs in *.
  set (nv := ri_n (snd o0)).
  assert (Hnv : 0 < nv).
  { subst nv. rewrite Edobjs in Hok. inversion Hok as [|x l Ho _]; subst x l.
    destruct Ho as (Hn & _). exact Hn. }
  assert (Hcounts : Forall (fun o => ri_n (snd o) = nv) dobjs).
  { rewrite Edobjs in *. cbn [same_counts] in Hsame. constructor; [reflexivity|].
    apply Forall_forall. intros o Hin. rewrite forallb_forall in Hsame.
    specialize (Hsame o Hin). subst nv. lia. }
  pose proof (chunk_bytes_rows nv dobjs Hok Hfix Hcounts) as Hcb.
  set (w := chunk_bytes (map one_value dobjs)) in *.
  unfold whole_chunks in Hwc.
  destruct (chunk_bytes dobjs =? 0) eqn:E0; [lia|].
  destruct (negb (blen d mod chunk_bytes dobjs =? 0)) eqn:Em; [discriminate|].
  fold w in Hwc.
  destruct (all_some _) as [css'|] eqn:Has; [|discriminate]. injection Hwc as ->.
  apply all_some_map_inv in Has.
  assert (Hmod : blen d mod chunk_bytes dobjs = 0) by lia.
  assert (Hm0 : 0 <= blen d / chunk_bytes dobjs) by (apply Z.div_pos; [apply blen_nonneg|lia]).
  assert (Hd : blen d = blen d / chunk_bytes dobjs * chunk_bytes dobjs).
  { pose proof (Z.div_mod (blen d) (chunk_bytes dobjs)) as H. rewrite Hmod in H. lia. }
  assert (Hdw : blen d = (nv * (blen d / chunk_bytes dobjs)) * w) by (rewrite Hd at 1; rewrite Hcb; ring).
  assert (Hmodw : blen d mod w = 0) by (rewrite Hdw; apply Z.mod_mul; lia).
  assert (Hdivw : blen d / w = nv * (blen d / chunk_bytes dobjs))
    by (rewrite Hdw at 1; apply Z.div_mul; lia).
  destruct (pieces_whole d w Hw Hmodw) as (Hcat & Hlens & Hcount).
  destruct (units_rows (toc_endian (sg_toc g)) dobjs Hfix _ _ Has Hlens)
    as (rows & -> & Hlen & Hrows & Henc).
  rewrite Hcat in Henc.
  assert (Hil : have_interleaved (sg_toc g) (map dobj dobjs) = Ok true).
  { unfold have_interleaved. rewrite Htoc. cbn [negb]. rewrite (unsized_fixed dobjs Hfix). reflexivity. }
  exists [cols_of (data_objs (sg_objs g)) rows]. split.
  - apply (se_interleaved g d nv (blen d / chunk_bytes dobjs) rows); rewrite ?Hdo.
    + exact (seg_layout_dobj g dobjs true Hdo Hil).
    + rewrite Edobjs. discriminate.
    + exact Hnv.
    + exact Hm0.
    + apply Forall_map. rewrite Forall_forall in *. intros o Hin.
      specialize (Hok o Hin). specialize (Hcounts o Hin).
      rewrite forallb_forall in Hfix. specialize (Hfix o Hin). unfold is_fixed in Hfix.
      unfold size_or0. rewrite sized_dobj.
      destruct o as [p [dt n b]]. cbn [snd ri_dt ri_n] in *.
      destruct Hok as (_ & _ & Hb). cbn [ri_dt ri_bytes ri_n] in Hb.
      destruct (type_size dt) as [sz|]; [|discriminate].
      split; [exact Hcounts|]. exact Hb.
    + apply Forall_map. rewrite Forall_forall. intros o Hin.
      rewrite forallb_forall in Hfix. specialize (Hfix o Hin). unfold is_fixed in Hfix.
      rewrite sized_dobj. destruct (type_size (ri_dt (snd o))); [discriminate|discriminate].
    + rewrite paths_dobj. exact Hnd.
    + exact Hrows.
    + rewrite Hlen, Hcount. exact Hdivw.
    + exact Henc.
  - intros c0 Hc0. rewrite (fold_add_chunk dobjs _ c0 Hc0). apply grow_ext. intros k.
    rewrite chan_values_cons. cbn [chan_values flat_map]. rewrite app_nil_r, Hdo.
    rewrite flat_map_map. apply cols_of_vals; [exact Hnd|].
    eapply Forall_impl; [|exact Hrows]. intros row Hrow.
    destruct (Forall2_combine _ _ _ Hrow) as [_ Hl]. rewrite map_length in Hl. symmetry. exact Hl.
Qed.

(* ---- the theorem ---------------------------------------------------------------------------- *)

Theorem decode_data_encodes : forall (g : segment) (dobjs : list (bytes * rawidx)) (d : bytes) css,
    data_objs (sg_objs g) = map dobj dobjs ->
    NoDup (map fst dobjs) ->
    Forall (fun o => idx_ok (snd o)) dobjs ->
    decode_data (sg_toc g) dobjs d = SOk css ->
    exists cs : list chunk,
      seg_encodes g d cs /\
      forall c0 : dict cobj,
        NoDup (map fst c0) ->
        fold_left (add_chunk dobjs) css c0 =
        map (fun po => (fst po, mkCobj (o_props (snd po)) (o_dtype (snd po))
                                       (o_vals (snd po) ++ chan_values (fst po) cs))) c0.
Proof.
  intros g dobjs d css Hdo Hnd Hok Hdec.
  change (exists cs : list chunk,
             seg_encodes g d cs /\
             forall c0 : dict cobj, NoDup (map fst c0) ->
               fold_left (add_chunk dobjs) css c0 = grow (fun k => chan_values k cs) c0).
  destruct dobjs as [|o0 r] eqn:Edobjs.
  - (* no data objects: the block must be empty *)
    assert (Hwc : whole_chunks (toc_endian (sg_toc g)) 0 [] d = SOk css).
    { unfold decode_data in Hdec. cbn [forallb same_counts map] in Hdec.
      change (chunk_bytes []) with 0 in Hdec.
      destruct (negb (toc_has (sg_toc g) TOC_INTERLEAVED)); exact Hdec. }
    unfold whole_chunks in Hwc. cbn [Z.eqb] in Hwc.
    destruct (blen d =? 0) eqn:E; [|discriminate]. injection Hwc as <-.
    assert (d = []) as -> by (destruct d; [reflexivity|unfold blen in E; cbn [length] in E; lia]).
    exists []. split.
    + apply se_empty; [exact Hdo|reflexivity].
    + intros c0 _. cbn [fold_left]. symmetry. apply grow_id. reflexivity.
  - rewrite <- Edobjs in *.
    assert (Hne : dobjs <> []) by (rewrite Edobjs; discriminate).
    unfold decode_data in Hdec.
    destruct (toc_has (sg_toc g) TOC_INTERLEAVED) eqn:Htoc; cbn [negb] in Hdec.
    + destruct (forallb is_fixed dobjs) eqn:Hfix.
      * destruct (same_counts dobjs) eqn:Hsame; [|discriminate].
        exact (decode_interleaved g dobjs d css Hdo Hnd Hok Hne Hfix Hsame Htoc Hdec).
      * (* a lone string channel *)
        destruct dobjs as [|o1 [|o2 r']] eqn:E1; try discriminate. rewrite <- E1 in *.
        apply (decode_contig g dobjs d css Hdo Hnd Hok Hne); [|exact Hdec].
        unfold have_interleaved. rewrite Htoc. cbn [negb]. rewrite E1 in *.
        cbn [forallb] in Hfix. rewrite andb_true_r in Hfix. unfold is_fixed in Hfix.
        cbn [map filter]. rewrite sized_dobj.
        destruct (type_size (ri_dt (snd o1))); [discriminate|reflexivity].
    + apply (decode_contig g dobjs d css Hdo Hnd Hok Hne); [|exact Hdec].
      unfold have_interleaved. rewrite Htoc. reflexivity.
Qed.

(* the hypotheses are satisfiable: a contiguous segment (int16 x 2 and two strings
   per chunk, two chunks) and an interleaved one (int16 and int8, 2 values per
   chunk, two chunks = four rows) *)
Section Examples.
Import String.
Local Open Scope string_scope.

Example decode_data_encodes_example_contig :
  let dobjs := [(hex "2f2761", mkIdx 2 2 4); (hex "2f2762", mkIdx T_STRING 2 11)] in
  let g := mkSeg 0 14 0 0 false (map dobj dobjs) [] 0 None in
  let d := hex "01000200030000000300000061626305000600000000000300000078797a" in
  data_objs (sg_objs g) = map dobj dobjs /\ NoDup (map fst dobjs) /\
  Forall (fun o => idx_ok (snd o)) dobjs /\
  decode_data (sg_toc g) dobjs d =
  SOk [ [ [hex "0100"; hex "0200"]; [hex "616263"; []] ];
        [ [hex "0500"; hex "0600"]; [[]; hex "78797a"] ] ].
Proof.
  cbv zeta. split; [reflexivity|split; [|split; [|vm_compute; reflexivity]]].
  - constructor; [intros [H|[]]; vm_compute in H; discriminate|].
    constructor; [intros []|constructor].
  - repeat constructor; vm_compute; reflexivity.
Qed.

Example decode_data_encodes_example_interleaved :
  let dobjs := [(hex "2f2761", mkIdx 2 2 4); (hex "2f2762", mkIdx 1 2 2)] in
  let g := mkSeg 0 46 0 0 false (map dobj dobjs) [] 0 None in
  let d := hex "0100aa0200bb0300cc0400dd" in
  data_objs (sg_objs g) = map dobj dobjs /\ NoDup (map fst dobjs) /\
  Forall (fun o => idx_ok (snd o)) dobjs /\
  decode_data (sg_toc g) dobjs d =
  SOk [ [ [hex "0100"]; [hex "aa"] ]; [ [hex "0200"]; [hex "bb"] ];
        [ [hex "0300"]; [hex "cc"] ]; [ [hex "0400"]; [hex "dd"] ] ].
Proof.
  cbv zeta. split; [reflexivity|split; [|split; [|vm_compute; reflexivity]]].
  - constructor; [intros [H|[]]; vm_compute in H; discriminate|].
    constructor; [intros []|constructor].
  - repeat constructor; vm_compute; reflexivity.
Qed.
End Examples.

Print Assumptions decode_data_encodes.
