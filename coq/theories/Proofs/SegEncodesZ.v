(* [seg_encodes] of Proofs/ReadCorrect.v has no case for a segment whose data
   objects all declare ZERO bytes per chunk (all channels of length 0): the
   reader then reads no chunk (contiguous) or one chunk of empty columns
   (interleaved), and the raw data block must be empty.  [seg_encodes_z] adds
   these two cases; Proofs/ReadCorrectZ.v re-proves read_correct for it. *)
From Coq Require Import List ZArith Bool.
From Coq Require Import Init.Byte.
Import ListNotations.
From NpTdms Require Import Base.Bytes Base.Res Model.Tokens Model.SegState Model.Layout Model.Reader
     Model.FileSyn Proofs.LayoutProofs Proofs.ReadCorrect.
Local Open Scope Z_scope.

Inductive seg_encodes_z (g : segment) (data : bytes) : list chunk -> Prop :=
| sez_enc cs : seg_encodes g data cs -> seg_encodes_z g data cs
| sez_zero_contig :
    seg_layout g = Ok LContig ->
    data_objs (sg_objs g) <> [] ->
    zsum (map so_dsize (data_objs (sg_objs g))) = 0 ->
    data = [] ->
    seg_encodes_z g data []
| sez_zero_interleaved :
    seg_layout g = Ok LInterleaved ->
    data_objs (sg_objs g) <> [] ->
    zsum (map so_dsize (data_objs (sg_objs g))) = 0 ->
    Forall (fun o => so_nvals o = 0) (data_objs (sg_objs g)) ->
    Forall (fun o => sized o <> None) (data_objs (sg_objs g)) ->
    NoDup (map so_path (data_objs (sg_objs g))) ->
    data = [] ->
    seg_encodes_z g data [cols_of (data_objs (sg_objs g)) []].

Inductive segs_encode_z : list segment -> list fseg -> list (list chunk) -> Prop :=
| senz_nil : segs_encode_z [] [] []
| senz_cons g gs s r cs css :
    seg_encodes_z g (fs_data s) cs -> segs_encode_z gs r css ->
    segs_encode_z (g :: gs) (s :: r) (cs :: css).
