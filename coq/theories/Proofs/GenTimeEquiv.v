(* The timestamp functions TRANSLATED from the Python source on every run
   (Gen/PyFuncsTime.v; harness/gen/gen_pyfuncs_time.py) are EQUAL to the hand-written
   model (Model/Timestamp.v).

   The translation carries NumPy's own checks (datetime64 / timedelta64 arithmetic raises
   OverflowError outside (-2^63, 2^63), NaT = -2^63 propagates) and the explicit uint64 wraps
   of the array path; the hand model computes over Z and leaves representability to the
   hypotheses of its theorems.  So:
     - the integer cores are equal for ALL inputs ([scalar_steps_eq], [array_steps_eq],
       the tables, the struct layout);
     - the whole functions are equal to the model exactly where NumPy can represent the
       intermediate values ([rep]), and are characterised outside ([..._inv], [..._fails]).
   An edit of the source changes the translated Gallina and breaks the proofs here. *)
From Coq Require Import ZArith List Bool Lia ZifyBool.
Import ListNotations.
From NpTdms Require Import Base.Bytes Base.Res Model.Timestamp Proofs.TimestampProofs Gen.PyFuncsTime.
Local Open Scope Z_scope.
Ltac Zify.zify_post_hook ::= Z.to_euclidean_division_equations.

(* ---- tables and constants --------------------------------------------------- *)

Lemma steps_per_second_tbl_eq r : steps_per_second_tbl r = steps_per_second r.
Proof. destruct r; reflexivity. Qed.

(* NumPy's units, the source's table and the model's table are the same numbers *)
Lemma np_ups_eq r : np_ups r = steps_per_second r.
Proof. destruct r; reflexivity. Qed.

Lemma steps_tables_eq r : steps_per_second_tbl r = steps_per_second r /\ np_ups r = steps_per_second r.
Proof. split; [apply steps_per_second_tbl_eq | apply np_ups_eq]. Qed.

Lemma time_constants_eq :
  fraction_tolerance_const = TOL /\ epoch_const = EPOCH_S /\ tdms_epoch_const = TDMS_EPOCH_US.
Proof. repeat split. Qed.

Lemma fraction_tolerance_const_eq : fraction_tolerance_const = TOL.
Proof. reflexivity. Qed.

Lemma epoch_const_eq : epoch_const = EPOCH_S.
Proof. reflexivity. Qed.

Lemma tdms_epoch_const_eq : tdms_epoch_const = TDMS_EPOCH_US.
Proof. reflexivity. Qed.

Lemma np_u64_eq z : np_u64 z = u64 z.
Proof. reflexivity. Qed.

(* ---- the NumPy primitives where they succeed ----------------------------------- *)

(* representable and not NaT *)
Definition rep (x : Z) : Prop := - 2 ^ 63 < x < 2 ^ 63.

Lemma is_nat_false x : - 2 ^ 63 < x -> is_nat x = false.
Proof. unfold is_nat, NAT64. lia. Qed.

Lemma np_chk_ok x : rep x -> np_chk x = Ok x.
Proof. unfold rep, np_chk. intros H. replace ((- 2 ^ 63 <? x) && (x <? 2 ^ 63)) with true by lia. reflexivity. Qed.

Lemma np_chk_inv x y : np_chk x = Ok y -> y = x /\ rep x.
Proof.
  unfold np_chk, rep. destruct ((- 2 ^ 63 <? x) && (x <? 2 ^ 63)) eqn:E; [|discriminate].
  intros [= <-]. lia.
Qed.

Lemma np_dt_add_ok a b : - 2 ^ 63 < a -> - 2 ^ 63 < b -> rep (a + b) -> np_dt_add a b = Ok (a + b).
Proof. intros Ha Hb H. unfold np_dt_add. rewrite !is_nat_false by assumption. apply np_chk_ok, H. Qed.

Lemma np_dt_sub_ok a b : - 2 ^ 63 < a -> - 2 ^ 63 < b -> rep (a - b) -> np_dt_sub a b = Ok (a - b).
Proof. intros Ha Hb H. unfold np_dt_sub. rewrite !is_nat_false by assumption. apply np_chk_ok, H. Qed.

Lemma np_cast_s_ok u a : - 2 ^ 63 < a -> rep (a * steps_per_second u) -> np_cast Rs u a = Ok (a * steps_per_second u).
Proof.
  intros Ha H. unfold np_cast. rewrite is_nat_false by assumption. rewrite np_ups_eq.
  change (np_ups Rs) with 1. rewrite Z.div_1_r. apply np_chk_ok, H.
Qed.

Lemma np_timedelta64_ok v : - 2 ^ 63 <= v < 2 ^ 63 -> np_timedelta64 v = Ok v.
Proof.
  intros H. unfold np_timedelta64. replace ((- 2 ^ 63 <=? v) && (v <? 2 ^ 63)) with true by lia. reflexivity.
Qed.

Lemma np_int_mul_td_1 k : rep k -> np_int_mul_td k 1 = Ok k.
Proof.
  intros H. unfold np_int_mul_td, rep in *. replace ((- 2 ^ 63 <=? k) && (k <? 2 ^ 63)) with true by lia.
  change (is_nat 1) with false. cbv iota. rewrite Z.mul_1_r. apply np_chk_ok, H.
Qed.

Lemma f64_of_int_small a : - 2 ^ 53 < a < 2 ^ 53 -> f64_of_int a = a.
Proof. intros H. unfold f64_of_int. replace (Z.abs a <? 2 ^ 53) with true by lia. reflexivity. Qed.

(* ---- struct.pack('<Qq', fractions, seconds) = the model's 16 bytes --------------- *)

Lemma struct_pack_Qq_eq s f :
  struct_pack_le [(8%nat, false, f); (8%nat, true, s)]
  = match wr_ts LE s f with Some b => Ok b | None => Err EStruct end.
Proof.
  unfold struct_pack_le, pack_field, wr_ts, i64b, u64b. rewrite pow256_8.
  change (2 ^ 64 / 2) with (2 ^ 63).
  destruct ((0 <=? f) && (f <? 2 ^ 64)) eqn:Ef;
    destruct ((- 2 ^ 63 <=? s) && (s <? 2 ^ 63)) eqn:Es; cbn [bind andb]; reflexivity.
Qed.

Lemma tdms_timestamp_bytes_eq s f :
  tdms_timestamp_bytes_gen s f = match wr_ts LE s f with Some b => Ok b | None => Err EStruct end.
Proof.
  unfold tdms_timestamp_bytes_gen. rewrite struct_pack_Qq_eq. destruct (wr_ts LE s f); reflexivity.
Qed.

(* ---- the integer cores: equal for all inputs -------------------------------------- *)

Lemma scalar_steps_eq r s f : scalar_steps_gen r s f = Ok (frac_steps_scalar r f).
Proof.
  unfold scalar_steps_gen, frac_steps_scalar.
  rewrite steps_per_second_tbl_eq, fraction_tolerance_const_eq. reflexivity.
Qed.

Lemma np_uint64_tbl r : np_uint64 (steps_per_second_tbl r) = Ok (steps_per_second r).
Proof. destruct r; reflexivity. Qed.

Lemma array_steps_eq r s f : array_steps_gen r s f = Ok (frac_steps_array r f).
Proof.
  unfold array_steps_gen. rewrite np_uint64_tbl. cbn [bind].
  change (np_uint64 fraction_tolerance_const) with (Ok TOL). cbn [bind]. reflexivity.
Qed.

(* ---- TdmsTimestamp.as_datetime64 ---------------------------------------------------- *)

(* what the scalar method does after computing [steps]: four checked NumPy operations *)
Definition dt64_checked (r : resolution) (s steps : Z) : res Z :=
  do t1 <- np_timedelta64 s;
  do t2 <- np_dt_add epoch_const t1;
  do t3 <- np_int_mul_td steps 1;
  do t4 <- np_cast Rs r t2;
  np_dt_add t4 t3.

Lemma scalar_as_datetime64_unfold r s f :
  scalar_as_datetime64_gen r s f = dt64_checked r s (frac_steps_scalar r f).
Proof.
  unfold scalar_as_datetime64_gen, dt64_checked, frac_steps_scalar.
  rewrite steps_per_second_tbl_eq, fraction_tolerance_const_eq. cbv zeta.
  destruct (np_timedelta64 s) as [t1|]; [|reflexivity]. cbn [bind].
  destruct (np_dt_add epoch_const t1) as [t2|]; [|reflexivity]. cbn [bind].
  destruct (np_int_mul_td _ 1) as [t3|]; [|reflexivity]. cbn [bind].
  destruct (np_cast Rs r t2) as [t4|]; [|reflexivity]. cbn [bind].
  destruct (np_dt_add t4 t3); reflexivity.
Qed.

(* the values NumPy forms: the seconds, EPOCH + seconds, that scaled to the unit, the steps, the sum *)
Definition representable (r : resolution) (s steps : Z) : Prop :=
  rep s /\ rep (EPOCH_S + s) /\ rep ((EPOCH_S + s) * steps_per_second r) /\ rep steps /\
  rep (dt64_of r s steps).

Lemma dt64_checked_ok r s steps :
  representable r s steps -> dt64_checked r s steps = Ok (dt64_of r s steps).
Proof.
  intros (Hs & H1 & H2 & H3 & H4). unfold dt64_checked, rep in *.
  assert (HE : EPOCH_S = -2082844800) by reflexivity.
  rewrite np_timedelta64_ok by lia. cbn [bind]. rewrite epoch_const_eq.
  rewrite np_dt_add_ok by (unfold rep; lia). cbn [bind].
  rewrite np_int_mul_td_1 by (unfold rep; exact H3). cbn [bind].
  rewrite np_cast_s_ok by (unfold rep; lia). cbn [bind].
  apply np_dt_add_ok; unfold rep, dt64_of in *; lia.
Qed.

(* conversely: whenever the checked computation succeeds on a timestamp whose seconds are
   not the NaT pattern, every intermediate value was representable and the result is the
   model's *)
Lemma dt64_checked_inv r s steps d :
  dt64_checked r s steps = Ok d -> s <> - 2 ^ 63 -> representable r s steps /\ d = dt64_of r s steps.
Proof.
  unfold dt64_checked. intros H Hs.
  unfold np_timedelta64 in H. destruct ((- 2 ^ 63 <=? s) && (s <? 2 ^ 63)) eqn:Es; [|discriminate].
  cbn [bind] in H. rewrite epoch_const_eq in H.
  unfold np_dt_add at 1 in H. change (is_nat EPOCH_S) with false in H.
  rewrite is_nat_false in H by lia. cbn [orb] in H.
  destruct (np_chk (EPOCH_S + s)) as [t2|] eqn:E2; [|discriminate]. cbn [bind] in H.
  apply np_chk_inv in E2. destruct E2 as [-> H2].
  unfold np_int_mul_td in H. destruct ((- 2 ^ 63 <=? steps) && (steps <? 2 ^ 63)) eqn:Est; [|discriminate].
  change (is_nat 1) with false in H. cbv iota in H. rewrite Z.mul_1_r in H.
  destruct (np_chk steps) as [t3|] eqn:E3; [|discriminate]. cbn [bind] in H.
  apply np_chk_inv in E3. destruct E3 as [-> H3].
  unfold np_cast in H. rewrite is_nat_false in H by (unfold rep in H2; lia).
  rewrite np_ups_eq in H. change (np_ups Rs) with 1 in H. rewrite Z.div_1_r in H.
  destruct (np_chk ((EPOCH_S + s) * steps_per_second r)) as [t4|] eqn:E4; [|discriminate]. cbn [bind] in H.
  apply np_chk_inv in E4. destruct E4 as [-> H4].
  unfold np_dt_add in H. rewrite !is_nat_false in H by (unfold rep in *; lia). cbn [orb] in H.
  apply np_chk_inv in H. destruct H as [-> H5].
  split; [|reflexivity]. unfold representable, rep, dt64_of in *. repeat split; try lia.
Qed.

Lemma frac_steps_scalar_rep r f : 0 <= f < 2 ^ 64 -> 0 <= frac_steps_scalar r f <= steps_per_second r.
Proof.
  intros Hf. rewrite frac_steps_scalar_div. pose proof (steps_range r) as Hm. unfold TOL.
  set (m := steps_per_second r) in *.
  assert (Hp : 0 <= (f + 2 ^ 12) * m <= 2 ^ 64 * m + 4095 * m) by nia.
  set (p := (f + 2 ^ 12) * m) in *. lia.
Qed.

Theorem scalar_as_datetime64_eq r s f :
  representable r s (frac_steps_scalar r f) ->
  scalar_as_datetime64_gen r s f = Ok (conv_scalar r s f).
Proof. intros H. rewrite scalar_as_datetime64_unfold. apply dt64_checked_ok, H. Qed.

Theorem scalar_as_datetime64_inv r s f d :
  scalar_as_datetime64_gen r s f = Ok d -> s <> - 2 ^ 63 ->
  representable r s (frac_steps_scalar r f) /\ d = conv_scalar r s f.
Proof. rewrite scalar_as_datetime64_unfold. apply dt64_checked_inv. Qed.

(* seconds = -2^63 is NumPy's NaT: the scalar method answers NaT *)
Lemma scalar_as_datetime64_nat r f :
  0 <= f < 2 ^ 64 -> scalar_as_datetime64_gen r (- 2 ^ 63) f = Ok NAT64.
Proof.
  intros Hf. rewrite scalar_as_datetime64_unfold. unfold dt64_checked.
  change (np_timedelta64 (- 2 ^ 63)) with (Ok NAT64). cbn [bind].
  change (np_dt_add epoch_const NAT64) with (Ok NAT64). cbn [bind].
  pose proof (frac_steps_scalar_rep r f Hf) as Hst. pose proof (steps_range r) as Hm.
  rewrite np_int_mul_td_1 by (unfold rep; lia). cbn [bind].
  change (np_cast Rs r NAT64) with (Ok NAT64). cbn [bind]. reflexivity.
Qed.

(* ---- TimestampArray.as_datetime64 (per element) --------------------------------------- *)

Lemma array_as_datetime64_unfold r s f :
  array_as_datetime64_gen r s f =
  (do t3 <- np_int_mul_td s 1;
   do t4 <- np_dt_add epoch_const t3;
   do t5 <- np_cast Rs r t4;
   np_dt_add t5 (np_u64_as_i64 (frac_steps_array r f))).
Proof.
  unfold array_as_datetime64_gen. rewrite np_uint64_tbl. cbn [bind].
  change (np_uint64 fraction_tolerance_const) with (Ok TOL). cbn [bind]. cbv zeta.
  fold (u64 (Z.land f 4294967295 + TOL)).
  change (Z.shiftr (np_u64 (np_u64 (Z.shiftr f 32 * steps_per_second r) +
                            Z.shiftr (np_u64 (u64 (Z.land f 4294967295 + TOL) * steps_per_second r)) 32)) 32)
    with (frac_steps_array r f).
  destruct (np_int_mul_td s 1) as [t3|]; [|reflexivity]. cbn [bind].
  destruct (np_dt_add epoch_const t3) as [t4|]; [|reflexivity]. cbn [bind].
  destruct (np_cast Rs r t4) as [t5|]; [|reflexivity]. cbn [bind].
  destruct (np_dt_add t5 _); reflexivity.
Qed.

Lemma np_u64_as_i64_small x : 0 <= x < 2 ^ 63 -> np_u64_as_i64 x = x.
Proof. intros H. unfold np_u64_as_i64. replace (x <? 2 ^ 63) with true by lia. reflexivity. Qed.

(* the array method and the scalar method give the same answer -- value or exception -- for
   every timestamp a file can hold, except seconds = -2^63 (see [scalar_array_differ_at_nat]) *)
Theorem scalar_eq_array_gen r s f :
  0 <= f < 2 ^ 64 -> - 2 ^ 63 < s < 2 ^ 63 ->
  array_as_datetime64_gen r s f = scalar_as_datetime64_gen r s f.
Proof.
  intros Hf Hs. rewrite array_as_datetime64_unfold, scalar_as_datetime64_unfold. unfold dt64_checked.
  rewrite frac_steps_array_scalar by exact Hf.
  pose proof (frac_steps_scalar_rep r f Hf) as Hst. pose proof (steps_range r) as Hm.
  rewrite np_u64_as_i64_small by lia.
  rewrite np_int_mul_td_1 by exact Hs. rewrite np_timedelta64_ok by lia. cbn [bind].
  destruct (np_dt_add epoch_const s) as [t2|]; [|reflexivity]. cbn [bind].
  rewrite np_int_mul_td_1 by (unfold rep; lia). cbn [bind]. reflexivity.
Qed.

Theorem array_as_datetime64_eq r s f :
  0 <= f < 2 ^ 64 -> representable r s (frac_steps_array r f) ->
  array_as_datetime64_gen r s f = Ok (conv_array r s f).
Proof.
  intros Hf H. assert (Hs : - 2 ^ 63 < s < 2 ^ 63) by (destruct H as [Hs _]; exact Hs).
  rewrite scalar_eq_array_gen by assumption. unfold conv_array.
  rewrite frac_steps_array_scalar in * by exact Hf. apply scalar_as_datetime64_eq, H.
Qed.

(* ---- TimeStamp.__init__ ------------------------------------------------------------------ *)

(* the encoder on every datetime64[us] value NumPy can subtract the epoch from *)
Theorem timestamp_init_eq d :
  rep d -> d - TDMS_EPOCH_US < 2 ^ 63 ->
  timestamp_init_gen d
  = match wr_ts LE (fst (enc_dt d)) (snd (enc_dt d)) with
    | Some b => Ok (fst (enc_dt d), snd (enc_dt d), b)
    | None => Err EStruct
    end.
Proof.
  intros Hd Hv. unfold timestamp_init_gen. cbv zeta. rewrite tdms_epoch_const_eq.
  unfold rep in Hd.
  rewrite np_dt_sub_ok by (unfold TDMS_EPOCH_US, rep in *; lia). cbn [bind].
  change (np_cast Rs Rus 1) with (Ok 1000000). cbn [bind].
  assert (Hv' : - 2 ^ 63 + 2000000000000000 < d - TDMS_EPOCH_US < 2 ^ 63) by (unfold TDMS_EPOCH_US in *; lia).
  set (v := d - TDMS_EPOCH_US) in *.
  unfold np_td_floordiv. rewrite is_nat_false by lia. change (is_nat 1000000) with false.
  change (1000000 =? 0) with false. cbn [orb]. cbv iota.
  rewrite np_timedelta64_ok by lia. cbn [bind].
  rewrite np_cast_s_ok by (unfold rep; cbn [steps_per_second]; lia). cbn [bind steps_per_second].
  rewrite np_dt_sub_ok by (unfold rep; lia). cbn [bind].
  unfold np_td_truediv1. rewrite is_nat_false by lia. rewrite f64_of_int_small by lia.
  cbn [need bind].
  (* the two fields, whatever their syntactic form, are the model's (integer reasoning) *)
  assert (Hs : fst (enc_dt d) = v / 1000000) by reflexivity.
  assert (Hf : snd (enc_dt d) = - ((- (v - v / 1000000 * 1000000) * 2 ^ 64) / 10 ^ 6)) by reflexivity.
  match goal with
  | |- context [struct_pack_le [(_, _, ?F); (_, _, ?S)]] =>
    replace F with (snd (enc_dt d)) by (rewrite Hf; lia);
    replace S with (fst (enc_dt d)) by (rewrite Hs; lia)
  end.
  rewrite struct_pack_Qq_eq. destruct (wr_ts LE _ _); reflexivity.
Qed.

(* the fields always fit the struct: the encoder never raises struct.error *)
Theorem timestamp_init_ok d :
  rep d -> d - TDMS_EPOCH_US < 2 ^ 63 ->
  exists b, wr_ts LE (fst (enc_dt d)) (snd (enc_dt d)) = Some b /\ length b = 16%nat /\
            rd_ts LE b = Some (enc_dt d) /\
            timestamp_init_gen d = Ok (fst (enc_dt d), snd (enc_dt d), b).
Proof.
  intros Hd Hv. assert (Hi : in_i64 (d - TDMS_EPOCH_US)) by (unfold in_i64, rep, TDMS_EPOCH_US in *; lia).
  destruct (enc_us_ranges _ Hi) as [Hs Hf]. fold (enc_dt d) in Hs, Hf.
  destruct (raw_bytes_roundtrip LE _ _ Hf Hs) as (b & Hw & Hl & Hr).
  exists b. rewrite timestamp_init_eq, Hw by assumption.
  rewrite <- surjective_pairing in Hr. auto.
Qed.

(* outside that domain NumPy refuses: NaT gives ValueError (int(nan)), a distance from the
   epoch beyond int64 gives OverflowError *)
Theorem timestamp_init_fails d :
  - 2 ^ 63 <= d < 2 ^ 63 ->
  (d = - 2 ^ 63 -> timestamp_init_gen d = Err EValue) /\
  (2 ^ 63 <= d - TDMS_EPOCH_US -> timestamp_init_gen d = Err EOther).
Proof.
  intros Hd. split.
  - intros ->. reflexivity.
  - intros Hv. unfold timestamp_init_gen. cbv zeta. rewrite tdms_epoch_const_eq.
    unfold np_dt_sub. rewrite is_nat_false by (unfold TDMS_EPOCH_US in Hv; lia).
    change (is_nat TDMS_EPOCH_US) with false. cbn [orb]. unfold np_chk.
    replace ((- 2 ^ 63 <? d - TDMS_EPOCH_US) && (d - TDMS_EPOCH_US <? 2 ^ 63)) with false by lia.
    reflexivity.
Qed.

(* ---- transported headline theorems ----------------------------------------------------------- *)

(* the start of the second containing d is what NumPy scales to microseconds when decoding *)
Lemma representable_enc_dt d :
  - 2 ^ 63 + 1000000 <= d -> d - TDMS_EPOCH_US < 2 ^ 63 ->
  representable Rus (fst (enc_dt d)) (frac_steps_scalar Rus (snd (enc_dt d))).
Proof.
  intros Hlo Hv.
  assert (Hi : in_i64 (d - TDMS_EPOCH_US)) by (unfold in_i64, TDMS_EPOCH_US in *; lia).
  destruct (enc_us_ranges _ Hi) as [Hs Hf]. fold (enc_dt d) in Hs, Hf.
  pose proof (frac_steps_scalar_rep Rus _ Hf) as Hst. cbn [steps_per_second] in Hst.
  pose proof (enc_dt_second_start d) as Hss.
  pose proof (dec_enc_dt d) as Hdec. unfold dec_dt, conv_scalar in Hdec.
  unfold representable, rep. rewrite Hdec. cbn [steps_per_second].
  unfold in_i64, in_u64 in *.
  assert (Hs2 : fst (enc_dt d) = (d - TDMS_EPOCH_US) / 1000000) by reflexivity.
  unfold TDMS_EPOCH_US, EPOCH_S in *. repeat split; try lia.
Qed.

Theorem ts_roundtrip_gen d :
  - 2 ^ 63 + 1000000 <= d -> d - TDMS_EPOCH_US < 2 ^ 63 ->
  exists s f b,
    timestamp_init_gen d = Ok (s, f, b) /\ length b = 16%nat /\ rd_ts LE b = Some (s, f) /\
    tdms_timestamp_bytes_gen s f = Ok b /\
    scalar_as_datetime64_gen Rus s f = Ok d /\ array_as_datetime64_gen Rus s f = Ok d.
Proof.
  intros Hlo Hv.
  assert (Hd : rep d) by (unfold rep, TDMS_EPOCH_US in *; lia).
  destruct (timestamp_init_ok d Hd Hv) as (b & Hw & Hl & Hr & Hg).
  exists (fst (enc_dt d)), (snd (enc_dt d)), b.
  rewrite <- surjective_pairing. repeat split; try assumption.
  - rewrite tdms_timestamp_bytes_eq, Hw. reflexivity.
  - rewrite scalar_as_datetime64_eq by (apply representable_enc_dt; assumption).
    f_equal. apply dec_enc_dt.
  - assert (Hi : in_i64 (d - TDMS_EPOCH_US)) by (unfold in_i64, TDMS_EPOCH_US in *; lia).
    destruct (enc_us_ranges _ Hi) as [Hs Hf]. fold (enc_dt d) in Hs, Hf.
    rewrite array_as_datetime64_eq.
    + f_equal. apply dec_enc_dt_array, Hi.
    + exact Hf.
    + rewrite frac_steps_array_scalar by exact Hf. apply representable_enc_dt; assumption.
Qed.

(* whatever the translated scalar method returns (other than for the NaT seconds) is within
   one unit of the exact rational time, counted from 1970 in the source's own table *)
Theorem conv_within_unit_gen r s f d :
  0 <= f < 2 ^ 64 -> s <> - 2 ^ 63 ->
  scalar_as_datetime64_gen r s f = Ok d ->
  let m := steps_per_second_tbl r in
  let X := (epoch_const + s) * 2 ^ 64 + f in
  m * X - 2 ^ 64 < d * 2 ^ 64 <= m * X + m * fraction_tolerance_const /\
  m * fraction_tolerance_const < 2 ^ 64.
Proof.
  intros Hf Hs H. apply scalar_as_datetime64_inv in H; [|exact Hs]. destruct H as [_ ->].
  cbv zeta. rewrite steps_per_second_tbl_eq, epoch_const_eq, fraction_tolerance_const_eq.
  rewrite conv_scalar_conv. pose proof (conv_within_unit r s f Hf) as Hc. cbv zeta in Hc. nia.
Qed.

Theorem conv_within_unit_array_gen r s f d :
  0 <= f < 2 ^ 64 -> - 2 ^ 63 < s < 2 ^ 63 ->
  array_as_datetime64_gen r s f = Ok d ->
  let m := steps_per_second_tbl r in
  let X := (epoch_const + s) * 2 ^ 64 + f in
  m * X - 2 ^ 64 < d * 2 ^ 64 <= m * X + m * fraction_tolerance_const /\
  m * fraction_tolerance_const < 2 ^ 64.
Proof.
  intros Hf Hs H. rewrite scalar_eq_array_gen in H by assumption.
  apply conv_within_unit_gen; try assumption. lia.
Qed.

(* whole arrays *)
Lemma array_list_eq r l :
  Forall (fun sf => 0 <= snd sf < 2 ^ 64 /\ representable r (fst sf) (frac_steps_array r (snd sf))) l ->
  array_as_datetime64_list_gen r l = Ok (map (fun sf => conv_array r (fst sf) (snd sf)) l).
Proof.
  unfold array_as_datetime64_list_gen. induction 1 as [|sf l [Hf Hr] _ IH]; [reflexivity|].
  cbn [mapM map]. rewrite array_as_datetime64_eq by assumption. cbn [bind]. rewrite IH. reflexivity.
Qed.

(* ---- the one place where the two decoders differ ------------------------------------------------
   seconds = -2^63 (the int64 pattern NumPy reads as NaT): TdmsTimestamp.as_datetime64 returns
   NaT, TimestampArray.as_datetime64 raises OverflowError (int64 * timedelta64). *)
Lemma scalar_array_differ_at_nat :
  scalar_as_datetime64_gen Rus (- 2 ^ 63) 0 = Ok NAT64 /\
  array_as_datetime64_gen Rus (- 2 ^ 63) 0 = Err EOther.
Proof. split; reflexivity. Qed.

(* ---- examples -------------------------------------------------------------------------------------- *)

Lemma ex_gen_2020 :
  exists b, timestamp_init_gen 1577836816000001 = Ok (3660681616, 18446744073710, b) /\
            scalar_as_datetime64_gen Rus 3660681616 18446744073710 = Ok 1577836816000001 /\
            array_as_datetime64_gen Rus 3660681616 18446744073710 = Ok 1577836816000001.
Proof. eexists. vm_compute. repeat split. Qed.

Lemma ex_gen_hypotheses :
  (- 2 ^ 63 + 1000000 <= 1577836816000001 /\ 1577836816000001 - TDMS_EPOCH_US < 2 ^ 63) /\
  representable Rns 3524551547 (frac_steps_scalar Rns 12345678900000000000).
Proof. unfold representable, rep. vm_compute. repeat split; discriminate. Qed.

Lemma ex_gen_pinned :
  map (fun r => scalar_as_datetime64_gen r 3524551547 12345678900000000000) [Rs; Rms; Rus; Rns]
  = map Ok [1441706747; 1441706747669; 1441706747669260; 1441706747669260594] /\
  map (fun r => array_as_datetime64_gen r 3524551547 12345678900000000000) [Rs; Rms; Rus; Rns]
  = map Ok [1441706747; 1441706747669; 1441706747669260; 1441706747669260594].
Proof. vm_compute. split; reflexivity. Qed.
