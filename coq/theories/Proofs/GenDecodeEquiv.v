(* The DATA DECODING path of the reader TRANSLATED from the Python source on every run
   (Gen/PyFuncsDecode.v; harness/gen/gen_pyfuncs_decode.py: nptdms/types.py, base_segment.py,
   tdms_segment.py) is EQUAL to what the hand-written models do (Model/Tokens.v property value
   parsing, Model/Layout.v read_values / read_contig_chunk / read_interleaved).

   The translated functions work on Python-level values (struct values, str, NumPy arrays given by
   dtype and raw bytes); the models work on canonical little-endian value bytes.  The abstraction
   from the former to the latter is defined HERE ([pyval_toks], [arr_values], [pydata_values],
   [rcdc_cdata], [rawchunk_chunk]); every statement says: the translated function, seen through
   the abstraction, is the model function -- same values, same file position, same exception. *)
From Coq Require Import String Ascii.
From Coq Require Import ZArith List Bool Lia ZifyBool.
From Coq Require Import Init.Byte.
Import ListNotations.
From NpTdms Require Import Base.Bytes Base.Res Base.PySlice Model.Tokens Model.SegState Model.Layout Model.Reader
     Gen.TypeTable Gen.PyFuncsReader Gen.PyFuncsDecode Proofs.LayoutProofs Proofs.DaqmxProofs Proofs.GenReaderEquiv.
Local Open Scope Z_scope.

Ltac Zify.zify_post_hook ::= Z.to_euclidean_division_equations.

(* ---- reflected tables ------------------------------------------------------------------------ *)

Ltac chain ty :=
  repeat match goal with
         | |- context [ty =? ?k] => destruct (Z.eqb_spec ty k); [subst ty; try reflexivity|]
         end.

Lemma dec_tds_lookup_eq ty :
  dec_tds_lookup ty = match tds_size ty with Some _ => Some ty | None => None end.
Proof. unfold dec_tds_lookup, tds_size. chain ty. reflexivity. Qed.

Lemma dec_cls_size_eq c :
  dec_cls_size c = match tds_size c with Some (Some k) => Some k | _ => None end.
Proof. unfold dec_cls_size, tds_size. chain c. reflexivity. Qed.

Lemma dec_struct_declaration_some c :
  is_none (dec_cls_struct_declaration c) = negb (is_struct_type c).
Proof.
  unfold dec_cls_struct_declaration, is_struct_type. chain c. cbn [is_none]. lia.
Qed.

Lemma dec_nptype_some c : is_none (dec_cls_nptype c) = negb (has_nptype c).
Proof.
  unfold dec_cls_nptype, has_nptype, is_struct_type, T_C64, T_C128. chain c. cbn [is_none]. lia.
Qed.

(* the item size of a class's NumPy dtype is the class's size *)
Lemma dec_nptype_itemsize c d :
  dec_cls_nptype c = Some d -> tds_size c = Some (Some (dt_itemsize d)) /\ exists k o, d = DNum k (dt_itemsize d) o.
Proof.
  unfold dec_cls_nptype, tds_size.
  repeat match goal with
         | |- context [c =? ?k] => destruct (Z.eqb_spec c k);
                                     [subst c; intros H;
                                      first [discriminate H
                                            | injection H as <-; split; [reflexivity|eexists; eexists; reflexivity]]|]
         end.
  intros H. discriminate H.
Qed.

Lemma dec_constants_eq :
  dec_cls_String = T_STRING /\ dec_cls_TimeStamp = T_TIME /\ dec_cls_Boolean = T_BOOL /\
  dec_cls_ComplexSingleFloat = T_C64 /\ dec_cls_ComplexDoubleFloat = T_C128 /\ dec_cls_DaqMxRawData = T_DAQMX /\
  dec_cls_Uint32 = 7.
Proof. repeat split. Qed.

(* ---- byte-level facts --------------------------------------------------------------------------- *)

Lemma take_all (n : Z) (b : bytes) : blen b <= n -> take n b = b.
Proof. intros H. rewrite take_firstn. apply firstn_all2. unfold blen in H. lia. Qed.

Lemma drop_all (n : Z) (b : bytes) : blen b <= n -> drop n b = [].
Proof. intros H. rewrite drop_skipn. apply skipn_all2. unfold blen in H. lia. Qed.

Lemma take_neg (n : Z) (b : bytes) : n <= 0 -> take n b = [].
Proof. intros H. rewrite take_firstn. replace (Z.to_nat n) with 0%nat by lia. reflexivity. Qed.

Lemma drop_neg (n : Z) (b : bytes) : n <= 0 -> drop n b = b.
Proof. intros H. rewrite drop_skipn. replace (Z.to_nat n) with 0%nat by lia. reflexivity. Qed.

Lemma take_drop_id (n : Z) (b : bytes) : take n b ++ drop n b = b.
Proof. rewrite take_firstn, drop_skipn. apply firstn_skipn. Qed.

Lemma s_dec_BE l : s_dec BE l = s_dec LE (rev l).
Proof. unfold s_dec. rewrite rev_length. reflexivity. Qed.

Lemma u_dec_BE l : u_dec BE l = u_dec LE (rev l).
Proof. reflexivity. Qed.

(* ---- struct.unpack ------------------------------------------------------------------------------ *)

(* one field, read from the file: file.read(n) then struct.unpack(e + c, ..)[0] *)
Lemma struct_unpack_one e c (w : nat) (x : bytes) :
  struct_code_width c = Some w ->
  py_struct_unpack (e, String c EmptyString) x
  = if blen x =? Z.of_nat w then Ok [struct_field e c x] else Err EStruct.
Proof.
  intros Hw. unfold py_struct_unpack. cbn [fst snd struct_unpack_from]. rewrite Hw.
  destruct (blen x <? Z.of_nat w) eqn:Hlt.
  - destruct (blen x =? Z.of_nat w) eqn:He; [lia|reflexivity].
  - destruct (blen x =? Z.of_nat w) eqn:He.
    + assert (Hs : skipn w x = []) by (apply skipn_all2; unfold blen in He; lia).
      rewrite Hs. rewrite firstn_all2 by (unfold blen in He; lia). reflexivity.
    + destruct (skipn w x) as [|b r] eqn:Hs; [|reflexivity].
      exfalso. assert (Hl : length (skipn w x) = 0%nat) by (rewrite Hs; reflexivity).
      rewrite skipn_length in Hl. unfold blen in *. lia.
Qed.

(* StructType.read on a class with size n and a one-character struct code *)
Lemma struct_read_spec c e bs n code (w : nat) :
  dec_cls_size c = Some n -> dec_cls_struct_declaration c = Some (String code EmptyString) ->
  struct_code_width code = Some w -> Z.of_nat w = n ->
  struct_read_gen c bs e = do '(x, r) <- get_exact n bs; Ok (struct_field e code x, r).
Proof.
  intros Hs Hd Hw Hn. unfold struct_read_gen. rewrite Hs, Hd. cbn [need bind].
  unfold py_read. assert (Hn0 : (n <? 0) = false) by lia. rewrite Hn0. cbn [bind].
  rewrite (struct_unpack_one e code w) by exact Hw. unfold get_exact, get_raw. rewrite Hn.
  destruct (blen (take n bs) =? n); reflexivity.
Qed.

(* ---- what a value returned by <class>.read shows (Model/Reader.v obs_prop_value) --------------------- *)

Definition pyval_toks (v : pyval) : list tok :=
  match v with
  | PVs (SInt x) => [TZ 0; TZ x]
  | PVs (SF32 b) => [TZ 1; TB (le_enc 8 (f32_to_f64_bits b))]
  | PVs (SF64 b) => [TZ 1; TB (le_enc 8 b)]
  | PVb b => [TZ 2; TZ (if b then 1 else 0)]
  | PVstr s => [TZ 3; TB s]
  | PVts t => [TZ 4; TZ (ts_seconds t); TZ (ts_second_fractions t)]
  end.

Definition mapr {A B} (f : A -> B) (r : res A) : res B :=
  match r with Ok a => Ok (f a) | Err e => Err e end.

Lemma get_exact_blen n bs x r : get_exact n bs = Ok (x, r) -> blen x = n.
Proof.
  unfold get_exact, get_raw. destruct (blen (take n bs) =? n) eqn:E; [|discriminate].
  intros [= <- <-]. lia.
Qed.

Lemma canon_scalar e ty x :
  (ty =? T_C64) || (ty =? T_C128) = false ->
  canon_value e ty x = match e with LE => x | BE => rev x end.
Proof. intros H. unfold canon_value. destruct e; [reflexivity|]. rewrite H. reflexivity. Qed.

Lemma signed_field e ty x :
  (ty =? T_C64) || (ty =? T_C128) = false -> s_dec e x = s_dec LE (canon_value e ty x).
Proof. intros H. rewrite canon_scalar by exact H. destruct e; [reflexivity|apply s_dec_BE]. Qed.

Lemma unsigned_field e ty x :
  (ty =? T_C64) || (ty =? T_C128) = false -> u_dec e x = u_dec LE (canon_value e ty x).
Proof. intros H. rewrite canon_scalar by exact H. destruct e; reflexivity. Qed.

Lemma le_enc_u_dec e ty x :
  (ty =? T_C64) || (ty =? T_C128) = false -> le_enc (length x) (u_dec e x) = canon_value e ty x.
Proof.
  intros H. rewrite (unsigned_field e ty x H). rewrite <- (canon_value_length e ty x). apply le_enc_dec.
Qed.

(* the struct types, one by one: (size, struct code) as reflected, and the observation *)
Lemma struct_read_obs ty e bs :
  is_struct_type ty = true -> ty <> T_BOOL ->
  mapr (fun p => (pyval_toks (PVs (fst p)), snd p)) (struct_read_gen ty bs e)
  = mapr (fun p => (obs_prop_value ty (fst p), snd p)) (parse_prop_value e ty bs).
Proof.
  intros Hst Hnb. unfold parse_prop_value. rewrite Hst.
  assert (Hcases : ty = 1 \/ ty = 2 \/ ty = 3 \/ ty = 4 \/ ty = 5 \/ ty = 6 \/ ty = 7 \/ ty = 8 \/ ty = 9 \/ ty = 10
                   \/ ty = 0x19 \/ ty = 0x1A).
  { unfold is_struct_type, T_BOOL in *. lia. }
  repeat (destruct Hcases as [-> | Hcases]); [.. | subst ty];
    match goal with
    | |- context [struct_read_gen ?t _ _] =>
      let sz := eval vm_compute in (dec_cls_size t) in
      let sd := eval vm_compute in (dec_cls_struct_declaration t) in
      match sz with
      | Some ?n =>
        match sd with
        | Some (String ?c EmptyString) =>
          let w := eval vm_compute in (Z.to_nat n) in
          rewrite (struct_read_spec t e bs n c w eq_refl eq_refl eq_refl eq_refl)
        end
      end
    end;
    cbn [tds_size Z.eqb Pos.eqb T_STRING T_TIME];
    (destruct (get_exact _ bs) as [[x r]|er] eqn:Hg; cbn [bind mapr fst snd]; [|reflexivity]);
    pose proof (get_exact_blen _ _ _ _ Hg) as Hlen;
    unfold struct_field, ceq; cbn [Ascii.eqb Bool.eqb orb andb]; unfold obs_prop_value;
    cbn [Z.leb Z.eqb Z.compare Pos.compare Pos.compare_cont Pos.eqb andb orb T_BOOL T_STRING T_TIME pyval_toks];
    f_equal; f_equal.
  all: match goal with
       | Hl : blen ?x = _ |- context [canon_value ?e ?t ?x] =>
         first [ rewrite (signed_field e t x) by reflexivity; reflexivity
               | rewrite (unsigned_field e t x) by reflexivity; reflexivity
               | rewrite <- (le_enc_u_dec e t x) by reflexivity;
                 replace (length x) with 8%nat by (unfold blen in Hl; lia); reflexivity ]
       end.
Qed.

(* two fields *)
Lemma struct_unpack_two e c1 c2 (w1 w2 : nat) (x : bytes) :
  struct_code_width c1 = Some w1 -> struct_code_width c2 = Some w2 ->
  py_struct_unpack (e, String c1 (String c2 EmptyString)) x
  = if blen x =? Z.of_nat (w1 + w2) then Ok [struct_field e c1 (firstn w1 x); struct_field e c2 (skipn w1 x)]
    else Err EStruct.
Proof.
  intros H1 H2. unfold py_struct_unpack. cbn [fst snd struct_unpack_from]. rewrite H1, H2.
  assert (Hsk : blen (skipn w1 x) = blen x - Z.min (Z.of_nat w1) (blen x)).
  { unfold blen. rewrite skipn_length. lia. }
  destruct (blen x <? Z.of_nat w1) eqn:Hlt1.
  - destruct (blen x =? Z.of_nat (w1 + w2)) eqn:He; [lia|reflexivity].
  - destruct (blen (skipn w1 x) <? Z.of_nat w2) eqn:Hlt2.
    + destruct (blen x =? Z.of_nat (w1 + w2)) eqn:He; [lia|reflexivity].
    + destruct (blen x =? Z.of_nat (w1 + w2)) eqn:He.
      * assert (Hs : skipn w2 (skipn w1 x) = []).
        { apply skipn_all2. unfold blen in *. rewrite skipn_length in *. lia. }
        rewrite Hs. rewrite (firstn_all2 (n := w2)); [reflexivity|].
        unfold blen in *. rewrite skipn_length in *. lia.
      * destruct (skipn w2 (skipn w1 x)) as [|b r] eqn:Hs; [|reflexivity].
        exfalso. assert (Hl : length (skipn w2 (skipn w1 x)) = 0%nat) by (rewrite Hs; reflexivity).
        rewrite !skipn_length in Hl. unfold blen in *. rewrite skipn_length in *. lia.
Qed.

Lemma py_read_nonneg bs n : 0 <= n -> py_read bs n = Ok (take n bs, drop n bs).
Proof. intros H. unfold py_read. destruct (n <? 0) eqn:E; [lia|reflexivity]. Qed.

(* ---- Boolean.read ----------------------------------------------------------------------------------- *)

Lemma one_byte (x : bytes) : blen x = 1 -> exists b, x = [b].
Proof.
  destruct x as [|b [|b' r]]; unfold blen; cbn [length]; intros H; try lia. exists b. reflexivity.
Qed.

Lemma boolean_read_obs e bs :
  mapr (fun p => (pyval_toks (PVb (fst p)), snd p)) (boolean_read_gen T_BOOL bs e)
  = mapr (fun p => (obs_prop_value T_BOOL (fst p), snd p)) (parse_prop_value e T_BOOL bs).
Proof.
  unfold boolean_read_gen, parse_prop_value.
  rewrite (struct_read_spec T_BOOL e bs 1 "b"%char 1 eq_refl eq_refl eq_refl eq_refl).
  cbn [tds_size T_BOOL T_STRING T_TIME Z.eqb Pos.eqb is_struct_type Z.leb Z.compare Pos.compare Pos.compare_cont andb orb].
  destruct (get_exact 1 bs) as [[x r]|er] eqn:Hg; cbn [bind mapr fst snd]; [|reflexivity].
  destruct (one_byte x (get_exact_blen _ _ _ _ Hg)) as [b ->].
  f_equal. f_equal. unfold struct_field, ceq. cbn [Ascii.eqb Bool.eqb orb andb sval_truth pyval_toks].
  unfold obs_prop_value.
  cbn [Z.leb Z.eqb Z.compare Pos.compare Pos.compare_cont Pos.eqb andb orb T_BOOL T_STRING T_TIME].
  assert (Hc : canon_value e T_BOOL [b] = [b]) by (destruct e; reflexivity). rewrite Hc.
  assert (Hu : u_dec LE [b] = b2z b) by (cbn; lia).
  assert (Hs : s_dec e [b] = if b2z b <? 128 then b2z b else b2z b - 256).
  { unfold s_dec, s_of_u. assert (Hub : u_dec e [b] = b2z b) by (destruct e; cbn; lia). rewrite Hub. reflexivity. }
  rewrite Hu, Hs. pose proof (b2z_range b) as Hr.
  destruct (b2z b <? 128) eqn:E1; destruct (b2z b =? 0) eqn:E2;
    repeat match goal with |- context [?a =? 0] => destruct (a =? 0) eqn:?; try lia end; reflexivity.
Qed.

(* ---- TimeStamp.read ----------------------------------------------------------------------------------- *)

Lemma firstn_skipn_rev {A} (n : nat) (l : list A) :
  skipn n (rev l) = rev (firstn (length l - n) l).
Proof.
  rewrite <- (firstn_skipn (length l - n) l) at 1. rewrite rev_app_distr.
  rewrite skipn_app. rewrite rev_length, skipn_length.
  destruct (Nat.le_gt_cases n (length l)) as [Hle|Hgt].
  - replace (length l - (length l - n))%nat with n by lia.
    rewrite skipn_all2 by (rewrite rev_length, skipn_length; lia).
    replace (n - n)%nat with 0%nat by lia. reflexivity.
  - replace (length l - n)%nat with 0%nat by lia. cbn [firstn rev]. rewrite skipn_all2 by (rewrite rev_length, skipn_length; lia).
    cbn [app]. apply skipn_all2. cbn. lia.
Qed.

Lemma firstn_rev' {A} (n : nat) (l : list A) :
  (n <= length l)%nat -> firstn n (rev l) = rev (skipn (length l - n) l).
Proof.
  intros H. assert (E : rev l = rev (skipn (length l - n) l) ++ rev (firstn (length l - n) l)).
  { rewrite <- rev_app_distr, firstn_skipn. reflexivity. }
  rewrite E at 1. rewrite firstn_app. rewrite rev_length, skipn_length.
  replace (n - (length l - (length l - n)))%nat with 0%nat by lia. cbn [firstn]. rewrite app_nil_r.
  apply firstn_all2. rewrite rev_length, skipn_length. lia.
Qed.

Lemma timestamp_read_obs e bs :
  mapr (fun p => (pyval_toks (PVts (fst p)), snd p)) (timestamp_read_gen T_TIME bs e)
  = mapr (fun p => (obs_prop_value T_TIME (fst p), snd p)) (parse_prop_value e T_TIME bs).
Proof.
  unfold timestamp_read_gen, parse_prop_value.
  cbn [tds_size T_TIME T_STRING Z.eqb Pos.eqb].
  rewrite py_read_nonneg by lia. cbn [bind]. unfold get_exact, get_raw.
  unfold py_struct_unpack_int.
  destruct e.
  - rewrite (struct_unpack_two LE "Q" "q" 8 8) by reflexivity.
    change (Z.of_nat (8 + 8)) with 16.
    destruct (blen (take 16 bs) =? 16) eqn:Hl; cbn [bind mapM sval_as_int struct_field ceq Ascii.eqb Bool.eqb orb andb py_unpack2 mapr fst snd];
      [|reflexivity].
    f_equal. f_equal. unfold obs_prop_value.
    cbn [Z.leb Z.eqb Z.compare Pos.compare Pos.compare_cont Pos.eqb andb orb T_BOOL T_STRING T_TIME pyval_toks
              ts_seconds ts_second_fractions canon_value].
    set (x := take 16 bs) in *. rewrite (drop_skipn 8 x), (take_firstn 8 x). reflexivity.
  - rewrite (struct_unpack_two BE "q" "Q" 8 8) by reflexivity.
    change (Z.of_nat (8 + 8)) with 16.
    destruct (blen (take 16 bs) =? 16) eqn:Hl; cbn [bind mapM sval_as_int struct_field ceq Ascii.eqb Bool.eqb orb andb py_unpack2 mapr fst snd];
      [|reflexivity].
    f_equal. f_equal. unfold obs_prop_value.
    cbn [Z.leb Z.eqb Z.compare Pos.compare Pos.compare_cont Pos.eqb andb orb T_BOOL T_STRING T_TIME pyval_toks
              ts_seconds ts_second_fractions].
    set (x := take 16 bs) in *.
    change (canon_value BE T_TIME x) with (rev x).
    assert (Hlen : length x = 16%nat) by (unfold blen in Hl; lia).
    rewrite (drop_skipn 8 (rev x)), (take_firstn 8 (rev x)). change (Z.to_nat 8) with 8%nat.
    rewrite firstn_skipn_rev, Hlen. change (16 - 8)%nat with 8%nat.
    rewrite s_dec_BE, u_dec_BE. rewrite (firstn_rev' 8 x) by lia. rewrite Hlen. reflexivity.
Qed.

(* ---- String._decode, String.read ------------------------------------------------------------------------ *)

(* the str a byte string decodes to (as UTF-8 bytes): itself when it is valid UTF-8, else with U+FFFD for
   every invalid unit (errors='replace') *)
Definition str_fix (s : bytes) : bytes := if utf8_valid s then s else utf8_replace_fuel (length s) s.

Lemma string_decode_eq s : string_decode_gen s = Ok (str_fix s).
Proof.
  unfold string_decode_gen, str_fix, py_decode_utf8, py_decode_utf8_replace.
  destruct (utf8_valid s); reflexivity.
Qed.

Lemma str_fix_valid s : utf8_valid s = true -> str_fix s = s.
Proof. unfold str_fix. intros ->. reflexivity. Qed.

Lemma four_bytes_unpack e x :
  py_struct_unpack_int (e, "L"%string) x = if blen x =? 4 then Ok [u_dec e x] else Err EStruct.
Proof.
  unfold py_struct_unpack_int. rewrite (struct_unpack_one e "L" 4) by reflexivity. change (Z.of_nat 4) with 4.
  destruct (blen x =? 4); reflexivity.
Qed.

Lemma string_read_eq e bs :
  string_read_gen bs e = do '(s, r) <- get_string e bs; Ok (str_fix s, r).
Proof.
  unfold string_read_gen, get_string, get_u32, get_exact, get_raw.
  rewrite py_read_nonneg by lia. cbn [bind]. rewrite four_bytes_unpack.
  destruct (blen (take 4 bs) =? 4) eqn:Hl; cbn [bind]; [|reflexivity].
  unfold py_index, zlen. cbn [length Z.of_nat Z.ltb Z.compare Z.leb andb nth_error Z.to_nat bind].
  cbn. rewrite py_read_nonneg by (pose proof (u_dec_range e (take 4 bs)); lia). cbn [bind].
  rewrite string_decode_eq. reflexivity.
Qed.

(* ---- <class>.read for every class of tds_data_types: the property value parser of the model ------------------ *)

(* what the model's value bytes become in the str the code returns (strings only) *)
Definition prop_fix (ty : Z) (v : bytes) : bytes := if ty =? T_STRING then str_fix v else v.

Lemma mapr_ext {A B} (f g : A -> B) (r : res A) : (forall a, f a = g a) -> mapr f r = mapr g r.
Proof. intros H. destruct r; cbn; [rewrite H|]; reflexivity. Qed.

Theorem tds_read_eq e ty bs :
  tds_size ty <> None ->
  mapr (fun p => (pyval_toks (fst p), snd p)) (tds_read_gen ty bs e)
  = mapr (fun p => (obs_prop_value ty (prop_fix ty (fst p)), snd p)) (parse_prop_value e ty bs).
Proof.
  intros Hk.
  assert (Hcases : (is_struct_type ty = true /\ ty <> T_BOOL) \/ ty = T_BOOL \/ ty = T_STRING \/ ty = T_TIME \/
                   ((ty = 0 \/ ty = 11 \/ ty = 0x1B \/ ty = T_C64 \/ ty = T_C128 \/ ty = T_DAQMX))).
  { unfold tds_size, is_struct_type, T_BOOL, T_STRING, T_TIME, T_C64, T_C128, T_DAQMX in *.
    repeat match goal with
           | H : context [ty =? ?k] |- _ => destruct (Z.eqb_spec ty k); [subst ty; cbn; lia|]
           end.
    contradiction. }
  destruct Hcases as [[Hst Hnb] | [-> | [-> | [-> | Hrest]]]].
  - assert (Hf : forall v, prop_fix ty v = v).
    { intros v. unfold prop_fix. destruct (Z.eqb_spec ty T_STRING) as [->|]; [discriminate Hst|reflexivity]. }
    transitivity (mapr (fun p => (obs_prop_value ty (fst p), snd p)) (parse_prop_value e ty bs));
      [|apply mapr_ext; intros [v r]; cbn [fst snd]; rewrite Hf; reflexivity].
    rewrite <- struct_read_obs by assumption.
    unfold tds_read_gen.
    assert (Hc : ty = 1 \/ ty = 2 \/ ty = 3 \/ ty = 4 \/ ty = 5 \/ ty = 6 \/ ty = 7 \/ ty = 8 \/ ty = 9 \/ ty = 10
                 \/ ty = 0x19 \/ ty = 0x1A) by (unfold is_struct_type, T_BOOL in *; lia).
    repeat (destruct Hc as [-> | Hc]); [.. | subst ty]; cbn [Z.eqb Pos.eqb];
      (destruct (struct_read_gen _ bs e) as [[v f]|er]; reflexivity).
  - change (tds_read_gen T_BOOL bs e) with (do '(v, file) <- boolean_read_gen T_BOOL bs e; Ok (PVb v, file)).
    rewrite <- boolean_read_obs. destruct (boolean_read_gen T_BOOL bs e) as [[v f]|er]; reflexivity.
  - change (tds_read_gen T_STRING bs e) with (do '(v, file) <- string_read_gen bs e; Ok (PVstr v, file)).
    rewrite string_read_eq. unfold parse_prop_value. cbn [tds_size T_STRING Z.eqb Pos.eqb].
    destruct (get_string e bs) as [[s r]|er]; reflexivity.
  - change (tds_read_gen T_TIME bs e) with (do '(v, file) <- timestamp_read_gen T_TIME bs e; Ok (PVts v, file)).
    rewrite <- timestamp_read_obs. destruct (timestamp_read_gen T_TIME bs e) as [[v f]|er]; reflexivity.
  - unfold T_C64, T_C128, T_DAQMX in Hrest.
    repeat (destruct Hrest as [-> | Hrest]); [.. | subst ty]; reflexivity.
Qed.

(* for property values that are valid UTF-8 (every well-formed file) nothing is replaced *)
Lemma prop_fix_valid ty v : (ty = T_STRING -> utf8_valid v = true) -> prop_fix ty v = v.
Proof.
  unfold prop_fix. destruct (Z.eqb_spec ty T_STRING) as [->|]; [|reflexivity].
  intros H. apply str_fix_valid. apply H. reflexivity.
Qed.

(* ---- NumPy arrays as the model's value lists --------------------------------------------------------------- *)

Lemma items_of_In fuel sz : forall b it, In it (items_of fuel sz b) -> blen it = sz.
Proof.
  induction fuel as [|f IH]; intros b it H; [destruct H|].
  cbn [items_of] in H. destruct ((blen b <? sz) || (sz <=? 0)) eqn:E; [destruct H|].
  destruct H as [<- | H]; [|exact (IH _ _ H)].
  rewrite blen_take by lia. lia.
Qed.

Lemma items_In sz b it : In it (items sz b) -> blen it = sz.
Proof. apply items_of_In. Qed.

Lemma items_of_fuel sz : 0 < sz -> forall f f' b, (length b <= f)%nat -> (length b <= f')%nat ->
  items_of f sz b = items_of f' sz b.
Proof.
  intros Hsz. induction f as [|f IH]; intros f' b Hf Hf'.
  - destruct b; [|cbn in Hf; lia]. destruct f'; cbn [items_of]; [reflexivity|].
    assert (E : (blen [] <? sz) || (sz <=? 0) = true) by (unfold blen; cbn; lia). rewrite E. reflexivity.
  - destruct f' as [|f'].
    + destruct b; [|cbn in Hf'; lia]. cbn [items_of].
      assert (E : (blen [] <? sz) || (sz <=? 0) = true) by (unfold blen; cbn; lia). rewrite E. reflexivity.
    + cbn [items_of]. destruct ((blen b <? sz) || (sz <=? 0)) eqn:E; [reflexivity|]. f_equal.
      assert (Hl : blen (drop sz b) = blen b - Z.min sz (blen b)) by (apply blen_drop; lia).
      apply IH; unfold blen in *; lia.
Qed.

Lemma items_small sz b : blen b < sz -> items sz b = [].
Proof.
  intros H. unfold items. destruct (length b) eqn:El; [reflexivity|]. cbn [items_of].
  assert (E : (blen b <? sz) || (sz <=? 0) = true) by lia. rewrite E. reflexivity.
Qed.

Lemma items_step sz b : 0 < sz -> sz <= blen b -> items sz b = take sz b :: items sz (drop sz b).
Proof.
  intros Hsz H. unfold items. destruct (length b) as [|f] eqn:El; [unfold blen in H; lia|].
  cbn [items_of]. assert (E : (blen b <? sz) || (sz <=? 0) = false) by lia. rewrite E. f_equal.
  assert (Hl : blen (drop sz b) = blen b - Z.min sz (blen b)) by (apply blen_drop; lia).
  apply items_of_fuel; [exact Hsz| |]; unfold blen in *; lia.
Qed.

(* the incomplete tail does not matter: buffer[:rounded_bytes] *)
Lemma items_take_round sz : 0 < sz -> forall (n : nat) b, (length b <= n)%nat ->
  items sz (take (blen b / sz * sz) b) = items sz b.
Proof.
  intros Hsz. induction n as [|n IH]; intros b Hn.
  - destruct b; [|cbn in Hn; lia]. reflexivity.
  - destruct (Z_lt_le_dec (blen b) sz) as [Hlt|Hge].
    + rewrite Z.div_small by (pose proof (blen_nonneg b); lia). rewrite take_neg by lia.
      rewrite (items_small sz b) by lia. apply items_small. unfold blen; cbn; lia.
    + set (k := blen b / sz). assert (Hk : 1 <= k) by (unfold k; apply Z.div_le_lower_bound; lia).
      assert (Hkb : k * sz <= blen b) by (unfold k; pose proof (Z.mul_div_le (blen b) sz Hsz); lia).
      rewrite (items_step sz b) by lia.
      rewrite (items_step sz (take (k * sz) b)) by (try rewrite blen_take; nia).
      rewrite take_take. rewrite Z.min_l by nia. f_equal.
      rewrite drop_take by lia.
      assert (Hd : blen (drop sz b) = blen b - sz) by (rewrite blen_drop by lia; lia).
      assert (Hk' : blen (drop sz b) / sz = k - 1).
      { rewrite Hd. unfold k. replace (blen b - sz) with (blen b + (-1) * sz) by lia.
        rewrite Z.div_add by lia. lia. }
      replace (k * sz - sz) with (blen (drop sz b) / sz * sz) by (rewrite Hk'; lia).
      apply IH. unfold blen in *. lia.
Qed.

(* byte order of one item: NumPy's view of a stored item = the model's canon_value *)
Lemma canon_num_agree ty d e it :
  dec_cls_nptype ty = Some d -> blen it = dt_itemsize d ->
  match np_newbyteorder d e with
  | DNum k w o => np_canon_num k o it = canon_value e ty it
  | DStruct _ => False
  end.
Proof.
  unfold dec_cls_nptype.
  repeat match goal with
         | |- context [ty =? ?k] =>
           destruct (Z.eqb_spec ty k);
             [subst ty; intros H; first [discriminate H | injection H as <-]; cbn [dt_itemsize np_newbyteorder Z.eqb Pos.eqb];
              intros Hl; destruct e; try reflexivity;
              try (destruct (one_byte it Hl) as [b ->]; reflexivity)|]
         end.
  intros H; discriminate H.
Qed.

Lemma opt_all_map {A B} (f : A -> option B) (g : A -> B) (l : list A) :
  (forall a, In a l -> f a = Some (g a)) -> opt_all (map f l) = Some (map g l).
Proof.
  induction l as [|a l IH]; intros H; [reflexivity|]. cbn [map opt_all].
  rewrite (H a (or_introl eq_refl)). rewrite IH by (intros x Hx; apply H; right; exact Hx). reflexivity.
Qed.

(* one field of one item of a structured array, in canonical form *)
Definition struct_item_field (fs : list (string * (ascii * Z * endian))) (name : string) (it : bytes) : option bytes :=
  match np_field_find name fs 0 with
  | Some (off, (k, w, o)) => Some (np_canon_num k o (take w (drop off it)))
  | None => None
  end.
(* a timestamp item in the model's canonical form: second_fractions (u8, LE) then seconds (i8, LE) *)
Definition ts_item_canon (fs : list (string * (ascii * Z * endian))) (it : bytes) : option bytes :=
  match struct_item_field fs "second_fractions" it, struct_item_field fs "seconds" it with
  | Some f, Some s => Some (f ++ s)
  | _, _ => None
  end.

(* the values an array holds, as the model has them (None: a structured array that is not a timestamp array) *)
Definition arr_values (a : nparr) : option (list bytes) :=
  match a_dtype a with
  | DNum k w o => Some (map (np_canon_num k o) (items w (a_raw a)))
  | DStruct fs => opt_all (map (ts_item_canon fs) (items (dt_itemsize (a_dtype a)) (a_raw a)))
  end.

Definition pydata_values (d : pydata) : option (list bytes) :=
  match d with DArr a => arr_values a | DStrs l => Some l end.

(* the dtype of a timestamp array in byte order e (TimeStamp.from_bytes) *)
Definition ts_dtype (e : endian) : npdtype :=
  match e with
  | LE => DStruct [("second_fractions"%string, ("u"%char, 8, LE)); ("seconds"%string, ("i"%char, 8, LE))]
  | BE => DStruct [("seconds"%string, ("i"%char, 8, BE)); ("second_fractions"%string, ("u"%char, 8, BE))]
  end.

Lemma sixteen_split (it : bytes) : blen it = 16 -> take 8 it ++ take 8 (drop 8 it) = it.
Proof.
  intros H. rewrite (take_all 8 (drop 8 it)) by (rewrite blen_drop by lia; lia). apply take_drop_id.
Qed.

Lemma ts_values e raw :
  arr_values (mkArr (ts_dtype e) raw) = Some (map (canon_value e T_TIME) (items 16 raw)).
Proof.
  unfold arr_values. destruct e; cbn [ts_dtype a_dtype a_raw dt_itemsize fold_right snd fst Z.add].
  - apply opt_all_map. intros it Hin. apply items_In in Hin.
    unfold ts_item_canon, struct_item_field. cbn. rewrite (drop_neg 0) by lia.
    rewrite sixteen_split by exact Hin. reflexivity.
  - apply opt_all_map. intros it Hin. apply items_In in Hin.
    unfold ts_item_canon, struct_item_field. cbn. rewrite (drop_neg 0) by lia.
    rewrite <- rev_app_distr. rewrite sixteen_split by exact Hin. reflexivity.
Qed.

(* ---- <class>.from_bytes ---------------------------------------------------------------------------------- *)

Lemma np_set_dtype_u1 raw d :
  0 < dt_itemsize d ->
  np_set_dtype (mkArr U1 raw) d = if blen raw mod dt_itemsize d =? 0 then Ok (mkArr d raw) else Err EValue.
Proof. intros H. unfold np_set_dtype. cbn [a_raw]. destruct (dt_itemsize d <=? 0) eqn:E; [lia|reflexivity]. Qed.

Lemma newbyteorder_itemsize d e : dt_itemsize (np_newbyteorder d e) = dt_itemsize d.
Proof.
  destruct d as [k w o|fs]; [reflexivity|]. cbn [np_newbyteorder dt_itemsize].
  induction fs as [|[n [[k w] o]] r IH]; [reflexivity|]. cbn [map fold_right fst snd]. rewrite IH. reflexivity.
Qed.

(* classes with a NumPy dtype: the array keeps the bytes, its dtype is the class's in the file's byte order,
   and its values are the model's canonical values *)
Theorem numeric_from_bytes_eq ty d sz raw e :
  dec_cls_nptype ty = Some d -> tds_size ty = Some (Some sz) ->
  tds_from_bytes_gen ty (mkArr U1 raw) e
  = (if blen raw mod sz =? 0 then Ok (mkArr (np_newbyteorder d e) raw) else Err EValue)
  /\ arr_values (mkArr (np_newbyteorder d e) raw) = Some (map (canon_value e ty) (items sz raw)).
Proof.
  intros Hd Hs. destruct (dec_nptype_itemsize ty d Hd) as [Hs' [k [o Hk]]].
  assert (Hsz : sz = dt_itemsize d) by congruence. pose proof (tds_size_pos _ _ Hs) as Hpos.
  split.
  - assert (Hgen : tds_from_bytes_gen ty (mkArr U1 raw) e
                   = do array <- np_set_dtype (mkArr U1 raw) (np_newbyteorder d e); Ok array).
    { revert Hd. unfold tds_from_bytes_gen, dec_cls_nptype.
      repeat match goal with
             | |- context [ty =? ?c] =>
               destruct (Z.eqb_spec ty c);
                 [subst ty; intros H; first [discriminate H | injection H as <-]; reflexivity|]
             end.
      intros H; discriminate H. }
    rewrite Hgen, np_set_dtype_u1 by (rewrite newbyteorder_itemsize; lia).
    rewrite newbyteorder_itemsize, <- Hsz. destruct (blen raw mod sz =? 0); reflexivity.
  - destruct d as [k' w o'|fs]; [|discriminate Hk]. cbn [dt_itemsize] in *. subst sz.
    pose proof (fun it => canon_num_agree ty _ e it Hd) as Hag. cbn [np_newbyteorder dt_itemsize] in Hag.
    unfold arr_values. cbn [np_newbyteorder a_dtype a_raw]. f_equal.
    apply map_ext_in. intros it Hin. apply items_In in Hin. apply Hag. exact Hin.
Qed.

(* TimeStamp.from_bytes: ValueError unless whole 16-byte items; the values are the model's *)
Theorem timestamp_from_bytes_eq raw e :
  tds_from_bytes_gen T_TIME (mkArr U1 raw) e
  = if blen raw mod 16 =? 0 then Ok (mkArr (ts_dtype e) raw) else Err EValue.
Proof.
  change (tds_from_bytes_gen T_TIME (mkArr U1 raw) e) with (timestamp_from_bytes_gen T_TIME (mkArr U1 raw) e).
  unfold timestamp_from_bytes_gen, np_reshape2, np_len. cbn [a_dtype a_raw U1 dt_itemsize Z.leb Z.compare].
  rewrite Z.div_1_r. destruct (blen raw mod 16 =? 0); cbn [bind]; [|reflexivity].
  destruct e; reflexivity.
Qed.

(* ---- String.read_values ------------------------------------------------------------------------------------ *)

Lemma uint32_read_eq e bs :
  (do '(v, f) <- struct_read_gen dec_cls_Uint32 bs e; do z <- sval_as_int v; Ok (z, f)) = get_u32 e bs.
Proof.
  rewrite (struct_read_spec dec_cls_Uint32 e bs 4 "L"%char 4 eq_refl eq_refl eq_refl eq_refl).
  unfold get_u32. destruct (get_exact 4 bs) as [[x r]|er]; reflexivity.
Qed.

Lemma get_u32_shorter e bs z r : get_u32 e bs = Ok (z, r) -> (length r < length bs)%nat.
Proof.
  unfold get_u32, get_exact, get_raw. destruct (blen (take 4 bs) =? 4) eqn:E; [|discriminate].
  cbn [bind]. intros [= _ <-]. rewrite blen_take in E by lia.
  assert (Hl : blen (drop 4 bs) = blen bs - Z.min 4 (blen bs)) by (apply blen_drop; lia).
  unfold blen in *. lia.
Qed.

(* the first loop: number_values end offsets, each an unsigned 32-bit field *)
Lemma read_values_loop1 e : forall (xs : list Z) (fuel : nat) offsets file,
    (length file < fuel)%nat ->
    string_read_values_gen_loop1 e xs offsets file
    = do '(offs, cur1) <- repeat_parse (get_u32 e) fuel (Z.of_nat (length xs)) file; Ok (offsets ++ offs, cur1).
Proof.
  induction xs as [|i xs IH]; intros fuel offsets file Hf.
  - cbn [string_read_values_gen_loop1 length Z.of_nat]. destruct fuel; cbn; rewrite app_nil_r; reflexivity.
  - cbn [string_read_values_gen_loop1]. destruct fuel as [|fuel]; [lia|].
    cbn [repeat_parse]. assert (Hn : (Z.of_nat (length (i :: xs)) <=? 0) = false) by (cbn [length]; lia). rewrite Hn.
    pose proof (uint32_read_eq e file) as Hu.
    destruct (struct_read_gen dec_cls_Uint32 file e) as [[v f]|er] eqn:Hr; cbn [bind] in *.
    + destruct (sval_as_int v) as [z|er] eqn:Hz; cbn [bind] in *; rewrite <- Hu; cbn [bind]; [|reflexivity].
      symmetry in Hu. apply get_u32_shorter in Hu.
      rewrite (IH fuel) by lia.
      replace (Z.of_nat (length (i :: xs)) - 1) with (Z.of_nat (length xs)) by (cbn [length]; lia).
      destruct (repeat_parse (get_u32 e) fuel (Z.of_nat (length xs)) f) as [[offs cur1]|er]; cbn [bind]; [|reflexivity].
      rewrite <- app_assoc. reflexivity.
    + rewrite <- Hu. reflexivity.
Qed.

Lemma repeat_parse_length {A} (p : bytes -> res (A * bytes)) : forall fuel n bs l r,
    repeat_parse p fuel n bs = Ok (l, r) -> Z.of_nat (length l) = Z.max 0 n.
Proof.
  induction fuel as [|f IH]; intros n bs l r H; cbn [repeat_parse] in H.
  - destruct (n <=? 0) eqn:E; [|discriminate]. injection H as <- _. cbn. lia.
  - destruct (n <=? 0) eqn:E; [injection H as <- _; cbn; lia|].
    destruct (p bs) as [[x bs1]|]; cbn [bind] in H; [|discriminate].
    destruct (repeat_parse p f (n - 1) bs1) as [[xs bs2]|] eqn:Hr; cbn [bind] in H; [|discriminate].
    injection H as <- _. apply IH in Hr. cbn [length]. lia.
Qed.

Lemma py_index_app {A} (pre : list A) (x : A) (r : list A) :
  py_index (pre ++ x :: r) (Z.of_nat (length pre)) = Ok x.
Proof.
  unfold py_index, zlen. rewrite app_length. cbn [length].
  destruct (Z.of_nat (length pre) <? 0) eqn:E1; [lia|].
  assert (E2 : (0 <=? Z.of_nat (length pre)) && (Z.of_nat (length pre) <? Z.of_nat (length pre + S (length r))) = true) by lia.
  rewrite E2, Nat2Z.id. rewrite nth_error_app2 by lia. rewrite Nat.sub_diag. reflexivity.
Qed.

(* the second loop: string i is the bytes between end offset i-1 and end offset i *)
Lemma read_values_loop2 : forall (rest : list Z) (pre : list Z) (prev : Z) strings file,
    string_read_values_gen_loop2 (pre ++ prev :: rest)
                                 (map (fun k => 0 + Z.of_nat k) (seq (length pre) (length rest))) strings file
    = let '(ss, cur2) := read_strings rest prev file in Ok (strings ++ map str_fix ss, cur2).
Proof.
  induction rest as [|o rest IH]; intros pre prev strings file.
  - cbn. rewrite app_nil_r. reflexivity.
  - cbn [length seq map string_read_values_gen_loop2 read_strings].
    replace (0 + Z.of_nat (length pre) + 1) with (Z.of_nat (length (pre ++ [prev]))) by (rewrite app_length; cbn [length]; lia).
    replace (pre ++ prev :: o :: rest) with ((pre ++ [prev]) ++ o :: rest) at 1 by (rewrite <- app_assoc; reflexivity).
    rewrite py_index_app. cbn [bind].
    replace (0 + Z.of_nat (length pre)) with (Z.of_nat (length pre)) by lia.
    rewrite py_index_app. cbn [bind]. unfold py_read, get_raw.
    assert (Hstep : forall s cur1,
               (do t6__ <- string_decode_gen s;
                string_read_values_gen_loop2 (pre ++ prev :: o :: rest)
                                             (map (fun k => 0 + Z.of_nat k) (seq (S (length pre)) (length rest)))
                                             (strings ++ [t6__]) cur1)
               = let '(ss, cur2) := read_strings rest o cur1 in Ok (strings ++ map str_fix (s :: ss), cur2)).
    { intros s cur1. rewrite string_decode_eq. cbn [bind].
      replace (pre ++ prev :: o :: rest) with ((pre ++ [prev]) ++ o :: rest) by (rewrite <- app_assoc; reflexivity).
      replace (S (length pre)) with (length (pre ++ [prev])) by (rewrite app_length; cbn [length]; lia).
      rewrite IH. destruct (read_strings rest o cur1) as [ss cur2]. cbn [map]. rewrite <- app_assoc. reflexivity. }
    destruct (o - prev <? 0); cbn [bind]; rewrite Hstep;
      match goal with |- context [read_strings rest o ?c] => destruct (read_strings rest o c) as [ss cur2] end; reflexivity.
Qed.

(* String.read_values = the string branch of the model's read_values; every string goes through String._decode *)
Theorem string_read_values_eq c e n cur :
  string_read_values_gen c cur n e
  = do '(offs, cur1) <- parse_n (get_u32 e) n cur;
    let '(ss, cur2) := read_strings offs 0 cur1 in Ok (map str_fix ss, cur2).
Proof.
  unfold string_read_values_gen, parse_n.
  rewrite (read_values_loop1 e _ (S (length cur))) by lia.
  assert (Hlen : length (py_range 0 n) = Z.to_nat n).
  { unfold py_range. rewrite map_length, seq_length. f_equal. lia. }
  assert (Hrp : repeat_parse (get_u32 e) (S (length cur)) (Z.of_nat (length (py_range 0 n))) cur
                = repeat_parse (get_u32 e) (S (length cur)) n cur).
  { rewrite Hlen. destruct (Z_le_gt_dec n 0) as [Hle|Hgt].
    - replace (Z.to_nat n) with 0%nat by lia. cbn [repeat_parse Z.of_nat].
      assert (E : (n <=? 0) = true) by lia. rewrite E. reflexivity.
    - rewrite Z2Nat.id by lia. reflexivity. }
  rewrite Hrp.
  destruct (repeat_parse (get_u32 e) (S (length cur)) n cur) as [[offs cur1]|er] eqn:Hp; cbn [bind]; [|reflexivity].
  apply repeat_parse_length in Hp.
  unfold py_range. replace (Z.to_nat (n - 0)) with (length offs) by lia.
  pose proof (read_values_loop2 offs [] 0 [] cur1) as H2. cbn [app length] in H2. cbn [app]. rewrite H2.
  destruct (read_strings offs 0 cur1) as [ss cur2]. reflexivity.
Qed.

(* ---- fromfile ------------------------------------------------------------------------------------------------ *)

Lemma blen_repeat (b : byte) (k : Z) : 0 <= k -> blen (List.repeat b (Z.to_nat k)) = k.
Proof. intros H. unfold blen. rewrite repeat_length. lia. Qed.

Lemma take_app_le (r : Z) (a b : bytes) : 0 <= r -> r <= blen a -> take r (a ++ b) = take r a.
Proof.
  intros H0 H. rewrite !take_firstn. rewrite firstn_app.
  replace (Z.to_nat r - length a)%nat with 0%nat by (unfold blen in H; lia). cbn [firstn]. apply app_nil_r.
Qed.

Theorem fromfile_eq cur d n :
  0 <= n -> 0 < dt_itemsize d ->
  fromfile_gen cur d n
  = Ok (mkArr d (take (blen (take (n * dt_itemsize d) cur) / dt_itemsize d * dt_itemsize d) (take (n * dt_itemsize d) cur)),
        drop (n * dt_itemsize d) cur).
Proof.
  intros Hn Hsz. unfold fromfile_gen. set (sz := dt_itemsize d) in *.
  unfold np_zeros. assert (E0 : (n * sz <? 0) = false) by nia. rewrite E0. cbn [bind].
  unfold py_readinto_all. cbn [a_raw a_dtype bind dt_itemsize].
  rewrite Z.mul_1_r. rewrite blen_repeat by nia.
  set (got := take (n * sz) cur). set (zeros := List.repeat x00 (Z.to_nat (n * sz))).
  unfold py_floordiv. assert (E1 : (sz =? 0) = false) by lia. rewrite E1. cbn [bind].
  assert (Hgot : blen got <= n * sz) by (unfold got; rewrite blen_take by nia; lia).
  assert (Hgot0 : 0 <= blen got) by apply blen_nonneg.
  set (r := blen got / sz * sz).
  assert (Hr : 0 <= r <= blen got).
  { unfold r. pose proof (Z.mul_div_le (blen got) sz Hsz). split; [|lia].
    apply Z.mul_nonneg_nonneg; [apply Z.div_pos|]; lia. }
  assert (Hraw : blen (got ++ drop (blen got) zeros) = n * sz).
  { rewrite blen_app, blen_drop by lia. unfold zeros. rewrite blen_repeat by nia. lia. }
  unfold np_slice, np_len. cbn [a_dtype a_raw dt_itemsize]. cbn [Z.leb Z.compare]. rewrite Z.div_1_r, Hraw.
  assert (Ha0 : adjust_index (n * sz) 0 1 = 0).
  { unfold adjust_index. cbn [Z.ltb Z.compare]. destruct (0 >=? n * sz) eqn:E; [|reflexivity]. cbn [Z.ltb Z.compare]. lia. }
  assert (Har : adjust_index (n * sz) r 1 = r).
  { unfold adjust_index. destruct (r <? 0) eqn:E; [lia|]. destruct (r >=? n * sz) eqn:E'; [|reflexivity].
    cbn [Z.ltb Z.compare]. lia. }
  rewrite Ha0, Har. rewrite Z.mul_0_l, Z.sub_0_r, Z.mul_1_r. rewrite (drop_neg 0) by lia.
  rewrite take_app_le by lia.
  unfold np_set_dtype. cbn [a_raw]. fold sz. destruct (sz <=? 0) eqn:E2; [lia|].
  assert (Hm : blen (take r got) mod sz =? 0 = true).
  { rewrite blen_take by lia. rewrite Z.min_l by lia. unfold r. rewrite Z.mod_mul by lia. reflexivity. }
  rewrite Hm. reflexivity.
Qed.

(* the values of what fromfile returns are the model's complete items of the bytes read *)
Corollary fromfile_items cur d n :
  0 <= n -> 0 < dt_itemsize d ->
  exists a, fromfile_gen cur d n = Ok (a, drop (n * dt_itemsize d) cur) /\ a_dtype a = d /\
            items (dt_itemsize d) (a_raw a) = items (dt_itemsize d) (take (n * dt_itemsize d) cur).
Proof.
  intros Hn Hsz. eexists. split; [apply fromfile_eq; assumption|]. split; [reflexivity|]. cbn [a_raw].
  apply (items_take_round _ Hsz (length (take (n * dt_itemsize d) cur))). lia.
Qed.

(* ---- TdmsSegmentObject.read_values ------------------------------------------------------------------------------ *)

Lemma sized_no_nptype_is_time dt sz :
  has_nptype dt = false -> tds_size dt = Some (Some sz) -> dt = T_TIME /\ sz = 16.
Proof.
  unfold has_nptype, is_struct_type, tds_size, T_C64, T_C128, T_TIME.
  repeat match goal with
         | |- context [dt =? ?k] => destruct (Z.eqb_spec dt k); [subst dt; cbn; intros H1 H2; try discriminate; injection H2 as <-; split; reflexivity|]
         end.
  intros _ H; discriminate H.
Qed.

Lemma prop_fix_id dt : dt <> T_STRING -> forall vs, map (prop_fix dt) vs = vs.
Proof.
  intros H vs. unfold prop_fix. destruct (Z.eqb_spec dt T_STRING) as [->|]; [contradiction|]. apply map_id.
Qed.

(* the data types an object with data can have (Model/SegState.v new_object establishes it) *)
Definition data_type_ok (dt : Z) : Prop :=
  match tds_size dt with Some (Some _) => True | Some None => dt = T_STRING | None => False end.

Theorem segobj_read_values_eq e o n cur dt :
  so_dtype o = Some dt -> data_type_ok dt -> 0 <= n ->
  mapr (fun p => (pydata_values (fst p), snd p)) (segobj_read_values_gen o cur n e)
  = mapr (fun p => (Some (map (prop_fix dt) (fst p)), snd p)) (read_values e o n cur).
Proof.
  intros Hdt Hok Hn. unfold segobj_read_values_gen, read_values, data_type_ok in *. rewrite Hdt. cbn [need bind].
  destruct (dec_cls_nptype dt) as [d|] eqn:Hd.
  - (* a class with a NumPy dtype: fromfile with that dtype in the file's byte order *)
    cbn [is_none negb need bind].
    destruct (dec_nptype_itemsize dt d Hd) as [Hs _]. rewrite Hs.
    pose proof (tds_size_pos _ _ Hs) as Hpos.
    assert (Hnp : has_nptype dt = true).
    { pose proof (dec_nptype_some dt) as H. rewrite Hd in H. cbn in H. destruct (has_nptype dt); [reflexivity|discriminate]. }
    rewrite Hnp. unfold get_raw.
    rewrite fromfile_eq by (rewrite ?newbyteorder_itemsize; lia). rewrite newbyteorder_itemsize.
    cbn [bind mapr fst snd pydata_values]. f_equal. f_equal.
    destruct (numeric_from_bytes_eq dt d _ (take (blen (take (n * dt_itemsize d) cur) / dt_itemsize d * dt_itemsize d)
                                                 (take (n * dt_itemsize d) cur)) e Hd Hs) as [_ Hv].
    rewrite Hv. f_equal.
    assert (Hns : dt <> T_STRING) by (intros ->; discriminate Hd).
    rewrite prop_fix_id by exact Hns. f_equal.
    apply (items_take_round _ Hpos (length (take (n * dt_itemsize d) cur))). lia.
  - cbn [is_none negb]. rewrite dec_cls_size_eq.
    assert (Hnp : has_nptype dt = false).
    { pose proof (dec_nptype_some dt) as H. rewrite Hd in H. cbn in H. destruct (has_nptype dt); [discriminate|reflexivity]. }
    destruct (tds_size dt) as [[sz|]|] eqn:Hs; [| |contradiction].
    + (* TimeStamp: the bytes as uint8, then TimeStamp.from_bytes *)
      destruct (sized_no_nptype_is_time dt sz Hnp Hs) as [-> ->]. cbn [is_none negb need bind].
      rewrite fromfile_eq by (cbn; lia). cbn [dt_itemsize bind]. rewrite !Z.mul_1_r, Z.div_1_r.
      rewrite (take_all (blen (take (n * 16) cur))) by lia.
      rewrite timestamp_from_bytes_eq. change (has_nptype T_TIME) with false. unfold get_raw. cbn iota.
      destruct (blen (take (n * 16) cur) mod 16 =? 0); cbn [negb bind mapr fst snd pydata_values]; [|reflexivity].
      rewrite ts_values. rewrite prop_fix_id by discriminate. reflexivity.
    + (* String *)
      subst dt. cbn [is_none negb need bind].
      change (tds_read_values_gen T_STRING cur n e) with (string_read_values_gen T_STRING cur n e).
      rewrite string_read_values_eq.
      destruct (parse_n (get_u32 e) n cur) as [[offs cur1]|er]; cbn [bind mapr]; [|reflexivity].
      destruct (read_strings offs 0 cur1) as [ss cur2]. cbn [mapr fst snd pydata_values]. reflexivity.
Qed.

(* ---- read_property ------------------------------------------------------------------------------------------------ *)

(* tdms_segment.read_property = Model/Tokens.v parse_prop: the name and the value go through String._decode *)
Theorem read_property_eq e bs :
  mapr (fun p => (fst (fst p), pyval_toks (snd (fst p)), snd p)) (read_property_gen bs e)
  = mapr (fun p => (str_fix (p_name (fst p)), obs_prop_value (p_type (fst p)) (prop_fix (p_type (fst p)) (p_val (fst p))), snd p))
         (parse_prop e bs).
Proof.
  unfold read_property_gen, parse_prop. rewrite string_read_eq.
  destruct (get_string e bs) as [[name r1]|er]; cbn [bind mapr]; [|reflexivity].
  pose proof (uint32_read_eq e r1) as Hu.
  destruct (struct_read_gen dec_cls_Uint32 r1 e) as [[v f]|er] eqn:Hr; cbn [bind] in *.
  - destruct (sval_as_int v) as [ty|er] eqn:Hz; cbn [bind] in *; rewrite <- Hu; cbn [bind mapr]; [|reflexivity].
    rewrite dec_tds_lookup_eq. unfold parse_prop_value at 1.
    destruct (tds_size ty) as [sz|] eqn:Hs; cbn [need bind mapr]; [|reflexivity].
    assert (Hk : tds_size ty <> None) by congruence.
    pose proof (tds_read_eq e ty f Hk) as Ht. unfold parse_prop_value in Ht. rewrite Hs in Ht.
    destruct (tds_read_gen ty f e) as [[pv f2]|er2]; cbn [mapr bind fst snd] in *.
    + match type of Ht with _ = mapr _ ?m => destruct m as [[v2 r3]|er3] end; cbn [mapr bind fst snd] in *; [|discriminate].
      injection Ht as Ht1 Ht2. subst. cbn [p_name p_type p_val fst snd]. rewrite Ht1. reflexivity.
    + match type of Ht with _ = mapr _ ?m => destruct m as [[v2 r3]|er3] end; cbn [mapr bind fst snd] in *; [discriminate|].
      injection Ht as ->. reflexivity.
  - rewrite <- Hu. reflexivity.
Qed.

(* ---- chunks: RawDataChunk / RawChannelDataChunk as the model's chunk ---------------------------------------------------- *)

Definition rcdc_cdata (c : rcdc) : option cdata :=
  match rc_data c, rc_scaler_data c with
  | Some d, None => match pydata_values d with Some vs => Some (CData vs) | None => None end
  | _, _ => None
  end.

Fixpoint data_chunk (d : alist pydata) : option chunk :=
  match d with
  | [] => Some []
  | (p, v) :: r =>
    match pydata_values v, data_chunk r with
    | Some vs, Some c => Some ((p, CData vs) :: c)
    | _, _ => None
    end
  end.

Fixpoint entries_chunk (l : alist rcdc) : option chunk :=
  match l with
  | [] => Some []
  | (p, v) :: r =>
    match rcdc_cdata v, entries_chunk r with
    | Some x, Some c => Some ((p, x) :: c)
    | _, _ => None
    end
  end.

Definition rawchunk_chunk (c : rawchunk) : option chunk := entries_chunk (rdc_channel_data c).

(* RawDataChunk.channel_data(d) *)
Lemma channel_data_eq d :
  exists rc, rawdatachunk_channel_data_gen d = Ok rc /\ rawchunk_chunk rc = data_chunk d.
Proof.
  eexists. split; [reflexivity|]. unfold rawchunk_chunk. cbn [rdc_channel_data].
  induction d as [|[p v] r IH]; [reflexivity|]. cbn [map entries_chunk data_chunk rcdc_cdata rc_data rc_scaler_data].
  rewrite IH. destruct (pydata_values v); reflexivity.
Qed.

Lemma data_chunk_aset k v vs : forall d c,
    pydata_values v = Some vs -> data_chunk d = Some c -> data_chunk (aset k v d) = Some (aset k (CData vs) c).
Proof.
  induction d as [|[p w] r IH]; intros c Hv Hd.
  - cbn in Hd. injection Hd as <-. cbn [aset data_chunk]. rewrite Hv. reflexivity.
  - cbn [data_chunk] in Hd. destruct (pydata_values w) as [ws|] eqn:Hw; [|discriminate].
    destruct (data_chunk r) as [cr|] eqn:Hr; [|discriminate]. injection Hd as <-.
    cbn [aset]. destruct (bytes_eqb k p); cbn [data_chunk].
    + rewrite Hv, Hr. reflexivity.
    + rewrite Hw, (IH cr Hv eq_refl). reflexivity.
Qed.

(* ---- ContiguousDataReader._read_data_chunk ---------------------------------------------------------------------------- *)

Definition obj_ok (o : sobj) : Prop := exists dt, so_dtype o = Some dt /\ data_type_ok dt.

(* String._decode leaves the strings of this read unchanged (they are valid UTF-8) *)
Definition decode_neutral (o : sobj) (vs : list bytes) : Prop :=
  so_dtype o = Some T_STRING -> Forall (fun s => utf8_valid s = true) vs.

Fixpoint chunk_strings_valid (e : endian) (objs : list sobj) (ci nc : Z) (fin : option (alist Z)) (cur : bytes) : Prop :=
  match objs with
  | [] => True
  | o :: r =>
    match read_values e o (chunk_nvals o ci nc fin) cur with
    | Ok (vs, cur1) => decode_neutral o vs /\ chunk_strings_valid e r ci nc fin cur1
    | Err _ => True
    end
  end.

Lemma decode_neutral_fix o dt vs : so_dtype o = Some dt -> decode_neutral o vs -> map (prop_fix dt) vs = vs.
Proof.
  intros Hdt Hn. destruct (Z.eq_dec dt T_STRING) as [->|Hne]; [|apply prop_fix_id; exact Hne].
  specialize (Hn Hdt). induction Hn as [|s r Hs _ IH]; [reflexivity|]. cbn [map]. rewrite IH. f_equal.
  unfold prop_fix. cbn. apply str_fix_valid. exact Hs.
Qed.

Lemma contig_loop_eq e ci nc fin : forall objs cur od acc,
    Forall obj_ok objs -> Forall (fun o => 0 <= chunk_nvals o ci nc fin) objs ->
    chunk_strings_valid e objs ci nc fin cur -> data_chunk od = Some acc ->
    mapr (fun p => (data_chunk (fst p), snd p)) (contig_read_data_chunk_gen_loop3 ci e nc fin objs od cur)
    = mapr (fun p => (Some (fst p), snd p)) (read_contig_chunk e objs ci nc fin cur acc).
Proof.
  induction objs as [|o objs IH]; intros cur od acc Hok Hnn Hval Hod.
  - cbn [contig_read_data_chunk_gen_loop3 read_contig_chunk mapr fst snd]. rewrite Hod. reflexivity.
  - cbn [contig_read_data_chunk_gen_loop3 read_contig_chunk]. rewrite get_channel_number_values_eq. cbn [bind].
    inversion Hok as [|? ? [dt [Hdt Hdok]] Hok']; subst. inversion Hnn as [|? ? Hn0 Hnn']; subst.
    pose proof (segobj_read_values_eq e o (chunk_nvals o ci nc fin) cur dt Hdt Hdok Hn0) as Hrv.
    cbn [chunk_strings_valid] in Hval.
    destruct (read_values e o (chunk_nvals o ci nc fin) cur) as [[vs cur1]|er] eqn:Hm;
      destruct (segobj_read_values_gen o cur (chunk_nvals o ci nc fin) e) as [[d f]|er'] eqn:Hg;
      cbn [mapr fst snd bind] in *; try discriminate.
    + injection Hrv as Hd ->. destruct Hval as [Hneu Hval'].
      rewrite (decode_neutral_fix o dt vs Hdt Hneu) in Hd.
      apply IH; try assumption. apply data_chunk_aset; assumption.
    + injection Hrv as ->. reflexivity.
Qed.

Theorem contig_read_data_chunk_eq e objs ci nc fin cur :
  Forall obj_ok objs -> Forall (fun o => 0 <= chunk_nvals o ci nc fin) objs ->
  chunk_strings_valid e objs ci nc fin cur ->
  mapr (fun p => (rawchunk_chunk (fst p), snd p)) (contig_read_data_chunk_gen nc fin e cur objs ci)
  = mapr (fun p => (Some (fst p), snd p)) (read_contig_chunk e objs ci nc fin cur []).
Proof.
  intros Hok Hnn Hval. unfold contig_read_data_chunk_gen.
  pose proof (contig_loop_eq e ci nc fin objs cur [] [] Hok Hnn Hval eq_refl) as H.
  destruct (contig_read_data_chunk_gen_loop3 ci e nc fin objs [] cur) as [[od f]|er]; cbn [bind mapr fst snd] in *.
  - destruct (channel_data_eq od) as [rc [Hrc Habs]]. rewrite Hrc. cbn [bind mapr fst snd]. rewrite Habs. exact H.
  - exact H.
Qed.

(* ---- BaseDataReader.read_data_chunks as ContiguousDataReader inherits it ----------------------------------------------- *)

Lemma py_range_nil a b : b <= a -> py_range a b = [].
Proof. intros H. unfold py_range. replace (Z.to_nat (b - a)) with 0%nat by lia. reflexivity. Qed.

Lemma py_range_cons a b : a < b -> py_range a b = a :: py_range (a + 1) b.
Proof.
  intros H. unfold py_range. replace (Z.to_nat (b - a)) with (S (Z.to_nat (b - (a + 1)))) by lia.
  cbn [seq map]. f_equal; [lia|]. rewrite <- seq_shift, map_map. apply map_ext. intros k. lia.
Qed.

(* String._decode leaves every string of every chunk unchanged *)
Fixpoint chunks_strings_valid (e : endian) (objs : list sobj) (nc : Z) (fin : option (alist Z)) (cis : list Z)
         (cur : bytes) : Prop :=
  match cis with
  | [] => True
  | ci :: r =>
    chunk_strings_valid e objs ci nc fin cur /\
    match read_contig_chunk e objs ci nc fin cur [] with
    | Ok (_, cur1) => chunks_strings_valid e objs nc fin r cur1
    | Err _ => True
    end
  end.

Definition chunks_abs (l : list rawchunk) : option (list chunk) := opt_all (map rawchunk_chunk l).

Lemma chunks_abs_snoc l c cs x :
  chunks_abs l = Some cs -> rawchunk_chunk c = Some x -> chunks_abs (l ++ [c]) = Some (cs ++ [x]).
Proof.
  unfold chunks_abs. revert cs. induction l as [|y l IH]; intros cs Hl Hc.
  - cbn in Hl. injection Hl as <-. cbn. rewrite Hc. reflexivity.
  - cbn [map opt_all app] in *. destruct (rawchunk_chunk y) as [yc|]; [|discriminate].
    destruct (opt_all (map rawchunk_chunk l)) as [lc|] eqn:E; [|discriminate]. injection Hl as <-.
    rewrite (IH lc eq_refl Hc). reflexivity.
Qed.

Lemma contig_chunks_loop_eq e objs nc0 fin nc : forall (n : nat) ci ys ysa cur fuel,
    Z.to_nat (nc - ci) = n -> (n <= fuel)%nat ->
    Forall obj_ok objs -> (forall c, Forall (fun o => 0 <= chunk_nvals o c nc0 fin) objs) ->
    chunks_strings_valid e objs nc0 fin (py_range ci nc) cur ->
    chunks_abs ys = Some ysa ->
    mapr (fun p => (chunks_abs (fst p), snd p))
         (contig_read_data_chunks_gen_loop5 objs nc0 fin e (py_range ci nc) ys cur)
    = mapr (fun p => (Some (ysa ++ fst p), snd p))
           (read_chunks_loop fuel (fun c b => read_contig_chunk e objs c nc0 fin b []) ci nc cur).
Proof.
  induction n as [|n IH]; intros ci ys ysa cur fuel Hn Hfuel Hok Hnn Hval Hys.
  - rewrite py_range_nil by lia. cbn [contig_read_data_chunks_gen_loop5 mapr fst snd].
    destruct fuel; cbn [read_chunks_loop]; assert (E : (nc <=? ci) = true) by lia; rewrite E;
      cbn [mapr fst snd]; rewrite Hys, app_nil_r; reflexivity.
  - rewrite py_range_cons in * by lia. cbn [contig_read_data_chunks_gen_loop5].
    destruct fuel as [|fuel]; [lia|]. cbn [read_chunks_loop]. assert (E : (nc <=? ci) = false) by lia. rewrite E.
    cbn [chunks_strings_valid] in Hval. destruct Hval as [Hv1 Hv2].
    pose proof (contig_read_data_chunk_eq e objs ci nc0 fin cur Hok (Hnn ci) Hv1) as Hc.
    destruct (contig_read_data_chunk_gen nc0 fin e cur objs ci) as [[rc f]|er];
      destruct (read_contig_chunk e objs ci nc0 fin cur []) as [[c cur1]|er']; cbn [mapr fst snd bind] in *; try discriminate.
    + injection Hc as Hrc ->.
      rewrite (IH (ci + 1) (ys ++ [rc]) (ysa ++ [c]) cur1 fuel) by (try assumption; try lia; apply chunks_abs_snoc; assumption).
      destruct (read_chunks_loop fuel _ (ci + 1) nc cur1) as [[cs cur2]|er2]; cbn [mapr fst snd bind]; [|reflexivity].
      rewrite <- app_assoc. reflexivity.
    + injection Hc as ->. reflexivity.
Qed.

Theorem contig_read_data_chunks_eq e objs nc0 fin nc cur fuel :
  (Z.to_nat nc <= fuel)%nat ->
  Forall obj_ok objs -> (forall c, Forall (fun o => 0 <= chunk_nvals o c nc0 fin) objs) ->
  chunks_strings_valid e objs nc0 fin (py_range 0 nc) cur ->
  mapr (fun p => (chunks_abs (fst p), snd p)) (contig_read_data_chunks_gen nc0 fin e cur objs nc)
  = mapr (fun p => (Some (fst p), snd p))
         (read_chunks_loop fuel (fun c b => read_contig_chunk e objs c nc0 fin b []) 0 nc cur).
Proof.
  intros Hfuel Hok Hnn Hval. unfold contig_read_data_chunks_gen.
  pose proof (contig_chunks_loop_eq e objs nc0 fin nc (Z.to_nat (nc - 0)) 0 [] [] cur fuel eq_refl
                                    ltac:(lia) Hok Hnn Hval eq_refl) as H.
  destruct (contig_read_data_chunks_gen_loop5 objs nc0 fin e (py_range 0 nc) [] cur) as [[ys f]|er];
    cbn [bind mapr fst snd] in *; exact H.
Qed.

(* ---- read_interleaved_segment_bytes ---------------------------------------------------------------------------------- *)

Lemma np_len_u1 raw : np_len (mkArr U1 raw) = blen raw.
Proof. unfold np_len. cbn [a_dtype a_raw U1 dt_itemsize Z.leb Z.compare]. apply Z.div_1_r. Qed.

(* rows of w bytes: the bytes read, cropped to whole rows *)
Theorem read_interleaved_segment_bytes_eq cur w n :
  0 < w -> 0 <= n ->
  read_interleaved_segment_bytes_gen cur w n
  = Ok (mkArr2 U1 w (take (blen (take (w * n) cur) / w * w) (take (w * n) cur)), drop (w * n) cur).
Proof.
  intros Hw Hn. unfold read_interleaved_segment_bytes_gen.
  rewrite fromfile_eq by (cbn [dt_itemsize]; nia). cbn [dt_itemsize bind]. rewrite !Z.mul_1_r, Z.div_1_r.
  set (got := take (w * n) cur). rewrite (take_all (blen got)) by lia.
  fold U1. unfold np_reshape2 at 1. assert (E : (w <=? 0) = false) by lia. rewrite E. rewrite np_len_u1.
  pose proof (blen_nonneg got) as Hg0. pose proof (Z.mul_div_le (blen got) w Hw) as Hle.
  destruct (blen got mod w =? 0) eqn:Hm.
  - cbn [py_catch bind]. rewrite (take_all _ got) by nia. reflexivity.
  - cbn [py_catch err_eqb bind]. unfold py_floordiv. assert (E0 : (w =? 0) = false) by lia. rewrite E0. cbn [bind].
    unfold np_slice. rewrite np_len_u1. cbn [a_dtype a_raw U1 dt_itemsize].
    assert (Hr : 0 <= blen got / w * w) by (apply Z.mul_nonneg_nonneg; [apply Z.div_pos|]; lia).
    assert (Ha0 : adjust_index (blen got) 0 1 = 0).
    { unfold adjust_index. cbn [Z.ltb Z.compare]. destruct (0 >=? blen got) eqn:E'; [|reflexivity]. cbn [Z.ltb Z.compare]. lia. }
    assert (Har : adjust_index (blen got) (blen got / w * w) 1 = blen got / w * w).
    { unfold adjust_index. destruct (blen got / w * w <? 0) eqn:E1; [lia|].
      destruct (blen got / w * w >=? blen got) eqn:E2; [|reflexivity]. cbn [Z.ltb Z.compare]. lia. }
    rewrite Ha0, Har, Z.mul_0_l, Z.sub_0_r, Z.mul_1_r. rewrite (drop_neg 0) by lia.
    unfold np_reshape2. rewrite E. rewrite np_len_u1. rewrite blen_take by lia. rewrite Z.min_l by lia.
    rewrite Z.mod_mul by lia. cbn [Z.eqb bind]. reflexivity.
Qed.

(* ---- column selection ------------------------------------------------------------------------------------------------ *)

Lemma take_split (a b : Z) (l : bytes) : 0 <= a -> 0 <= b -> take (a + b) l = take a l ++ take b (drop a l).
Proof.
  intros Ha Hb. rewrite !take_firstn, drop_skipn. rewrite Z2Nat.inj_add by lia. apply firstn_add'.
Qed.

(* the bytes of a row at the columns pos .. pos+sz-1, one by one, are the slice row[pos : pos+sz] *)
Lemma bytes_by_columns (w : Z) (row : bytes) : forall (k : nat) pos,
    0 <= pos -> pos + Z.of_nat k <= w ->
    flat_map (fun c => take 1 (drop ((if c <? 0 then c + w else c) * 1) row)) (py_range pos (Z.of_nat k + pos))
    = take (Z.of_nat k) (drop pos row).
Proof.
  induction k as [|k IH]; intros pos Hp Hb.
  - rewrite py_range_nil by lia. cbn [flat_map Z.of_nat]. rewrite take_neg by lia. reflexivity.
  - rewrite py_range_cons by lia. cbn [flat_map].
    replace (Z.of_nat (S k) + pos) with (Z.of_nat k + (pos + 1)) by lia.
    rewrite IH by lia. assert (E : (pos <? 0) = false) by lia. rewrite E, Z.mul_1_r.
    replace (Z.of_nat (S k)) with (1 + Z.of_nat k) by lia. rewrite take_split by lia.
    rewrite drop_drop by lia. reflexivity.
Qed.

Lemma take_columns_eq w raw pos sz :
  0 < w -> 0 <= pos -> 0 < sz -> pos + sz <= w ->
  np2_take_columns (mkArr2 U1 w raw) (py_range pos (sz + pos))
  = Ok (mkArr2 U1 (zlen (py_range pos (sz + pos))) (flat_map (fun row => take sz (drop pos row)) (items w raw))).
Proof.
  intros Hw Hp Hsz Hb. unfold np2_take_columns. cbn [a2_cols a2_dtype a2_raw U1 dt_itemsize].
  assert (Hall : forallb (fun c => (- w <=? c) && (c <? w)) (py_range pos (sz + pos)) = true).
  { apply forallb_forall. intros c Hc. unfold py_range in Hc. apply in_map_iff in Hc. destruct Hc as [k [<- Hk]].
    apply in_seq in Hk. lia. }
  rewrite Hall, Z.mul_1_r. f_equal. f_equal.
  apply flat_map_ext. intros row.
  replace sz with (Z.of_nat (Z.to_nat sz)) at 1 2 by lia. apply bytes_by_columns; lia.
Qed.

Lemma flat_map_concat_items sz (f : bytes -> bytes) (rows : list bytes) :
  0 < sz -> (forall row, In row rows -> blen (f row) = sz) ->
  items sz (flat_map f rows) = map f rows /\ blen (flat_map f rows) mod sz = 0.
Proof.
  intros Hsz Hf. assert (Hfm : flat_map f rows = concat (map f rows)) by apply flat_map_concat_map.
  rewrite Hfm.
  assert (Hall : Forall (fun v => blen v = sz) (map f rows)).
  { apply Forall_forall. intros v Hv. apply in_map_iff in Hv. destruct Hv as [row [<- Hr]]. apply Hf. exact Hr. }
  split; [apply items_roundtrip; assumption|].
  rewrite (blen_concat_const sz (map f rows) Hall). apply Z.mod_mul. lia.
Qed.

(* one object's column: select, flatten, from_bytes = the model's column_values *)
Lemma column_from_bytes e dt sz w raw pos :
  tds_size dt = Some (Some sz) -> 0 < w -> 0 <= pos -> pos + sz <= w ->
  exists a, (do t <- np2_take_columns (mkArr2 U1 w raw) (py_range pos (sz + pos));
             tds_from_bytes_gen dt (np2_flatten t) e) = Ok a
            /\ arr_values a = Some (column_values e dt (items w raw) pos sz).
Proof.
  intros Hs Hw Hp Hb. pose proof (tds_size_pos _ _ Hs) as Hsz.
  rewrite take_columns_eq by lia. cbn [bind]. unfold np2_flatten. cbn [a2_dtype a2_raw].
  set (f := fun row : bytes => take sz (drop pos row)).
  assert (Hf : forall row, In row (items w raw) -> blen (f row) = sz).
  { intros row Hr. apply items_In in Hr. unfold f. rewrite blen_take, blen_drop by lia. lia. }
  destruct (flat_map_concat_items sz f (items w raw) Hsz Hf) as [Hit Hmod].
  destruct (dec_cls_nptype dt) as [d|] eqn:Hd.
  - destruct (numeric_from_bytes_eq dt d sz (flat_map f (items w raw)) e Hd Hs) as [Hg Hv].
    rewrite Hg. assert (E : (blen (flat_map f (items w raw)) mod sz =? 0) = true) by lia. rewrite E.
    eexists. split; [reflexivity|]. rewrite Hv, Hit. unfold column_values. rewrite map_map. reflexivity.
  - assert (Hnp : has_nptype dt = false).
    { pose proof (dec_nptype_some dt) as H. rewrite Hd in H. cbn in H. destruct (has_nptype dt); [discriminate|reflexivity]. }
    destruct (sized_no_nptype_is_time dt sz Hnp Hs) as [-> ->].
    rewrite timestamp_from_bytes_eq. assert (E : (blen (flat_map f (items w raw)) mod 16 =? 0) = true) by lia. rewrite E.
    eexists. split; [reflexivity|]. rewrite ts_values, Hit. unfold column_values. rewrite map_map. reflexivity.
Qed.

(* ---- InterleavedDataReader._read_interleaved_chunks ---------------------------------------------------------------------- *)

Lemma sized_dec_size o sz :
  sized o = Some sz -> exists dt, so_dtype o = Some dt /\ tds_size dt = Some (Some sz) /\ dec_cls_size dt = Some sz.
Proof.
  intros H. destruct (sized_inv o sz H) as [dt [Hd Hs]]. exists dt. repeat split; try assumption.
  rewrite dec_cls_size_eq, Hs. reflexivity.
Qed.

Lemma interleaved_loop_eq e w raw : forall objs i cd acc pos,
    0 < w -> 0 <= pos -> pos + zsum (map size_or0 objs) <= w ->
    Forall (fun o => sized o <> None) objs -> data_chunk cd = Some acc ->
    mapr (fun p => data_chunk (fst p)) (read_interleaved_chunks_gen_loop6 (mkArr2 U1 w raw) e objs i cd pos)
    = mapr (fun c => Some c) (interleaved_columns e objs (items w raw) pos acc).
Proof.
  induction objs as [|o objs IH]; intros i cd acc pos Hw Hp Hb Hall Hcd.
  - cbn [read_interleaved_chunks_gen_loop6 interleaved_columns mapr fst]. rewrite Hcd. reflexivity.
  - inversion Hall as [|? ? Ho Hall']; subst. destruct (sized o) as [sz|] eqn:Hsz; [|contradiction].
    destruct (sized_dec_size o sz Hsz) as [dt [Hdt [Hs Hds]]]. pose proof (tds_size_pos _ _ Hs) as Hpos.
    cbn [map zsum fold_right] in Hb. unfold size_or0 at 1 in Hb. rewrite Hsz in Hb.
    assert (Hrest : 0 <= zsum (map size_or0 objs)).
    { clear - Hall'. induction Hall' as [|x l Hx _ IHl]; cbn [map zsum fold_right]; [lia|].
      unfold size_or0 at 1. destruct (sized x) as [s|] eqn:E; [|contradiction]. apply sized_pos in E. unfold zsum in IHl. lia. }
    unfold zsum in *.
    cbn [read_interleaved_chunks_gen_loop6 interleaved_columns]. rewrite Hdt. cbn [need bind]. rewrite Hsz, Hds. cbn [need bind].
    destruct (column_from_bytes e dt sz w raw pos Hs Hw Hp ltac:(lia)) as [a [Ha Hv]].
    destruct (np2_take_columns (mkArr2 U1 w raw) (py_range pos (sz + pos))) as [t|er]; cbn [bind] in *; [|discriminate].
    rewrite Ha. cbn [bind].
    apply (IH (i + 1)); try assumption; try lia.
    apply data_chunk_aset; [exact Hv|exact Hcd].
Qed.

Lemma py_sum_opt_sized objs :
  Forall (fun o => sized o <> None) objs ->
  py_sum_opt (map (fun o => match so_dtype o with Some c => dec_cls_size c | None => None end) objs)
  = Ok (zsum (map size_or0 objs)).
Proof.
  induction 1 as [|o l Ho _ IH]; [reflexivity|]. cbn [map py_sum_opt zsum fold_right].
  destruct (sized o) as [sz|] eqn:Hsz; [|contradiction].
  destruct (sized_dec_size o sz Hsz) as [dt [Hdt [_ Hds]]]. rewrite Hdt, Hds, IH. cbn [bind].
  assert (Hso : size_or0 o = sz) by (unfold size_or0; rewrite Hsz; reflexivity). rewrite Hso. reflexivity.
Qed.

Theorem read_interleaved_chunks_eq e cur o0 objs nchunks :
  Forall (fun o => sized o <> None) (o0 :: objs) -> 0 <= so_nvals o0 * nchunks ->
  mapr (fun p => (rawchunk_chunk (fst p), snd p)) (read_interleaved_chunks_gen e cur (o0 :: objs) nchunks)
  = mapr (fun p => (Some (fst p), snd p))
         (let width := zsum (map size_or0 (o0 :: objs)) in
          let '(rows, rest) := read_rows width (so_nvals o0 * nchunks) cur in
          do c <- interleaved_columns e (o0 :: objs) rows 0 []; Ok (c, rest)).
Proof.
  intros Hall Hn. unfold read_interleaved_chunks_gen. rewrite py_sum_opt_sized by exact Hall. cbn [bind].
  pose proof (width_pos (o0 :: objs) ltac:(discriminate) Hall) as Hw.
  set (w := zsum (map size_or0 (o0 :: objs))) in *.
  change (py_index (o0 :: objs) 0) with (Ok (A:=sobj) o0). cbn [bind].
  rewrite read_interleaved_segment_bytes_eq by lia. cbn [bind].
  unfold read_rows, get_raw. set (got := take (w * (so_nvals o0 * nchunks)) cur).
  assert (Hit : items w (take (blen got / w * w) got) = items w got).
  { apply (items_take_round w Hw (length got)). lia. }
  pose proof (interleaved_loop_eq e w (take (blen got / w * w) got) (o0 :: objs) 0 [] [] 0 Hw ltac:(lia) ltac:(lia) Hall eq_refl)
    as Hl.
  rewrite Hit in Hl.
  destruct (read_interleaved_chunks_gen_loop6 (mkArr2 U1 w (take (blen got / w * w) got)) e (o0 :: objs) 0 [] 0)
    as [[cd' pos']|er]; destruct (interleaved_columns e (o0 :: objs) (items w got) 0 []) as [c|er'];
    cbn [bind mapr fst snd] in *; try discriminate.
  - destruct (channel_data_eq cd') as [rc [Hrc Habs]]. rewrite Hrc. cbn [bind mapr fst snd]. rewrite Habs. injection Hl as ->. reflexivity.
  - injection Hl as ->. reflexivity.
Qed.

(* ---- InterleavedDataReader.read_data_chunks = the model's read_interleaved ----------------------------------------------- *)

Lemma dedup_one_iff x l :
  (zlen (dedup_z (x :: l)) =? 1) = forallb (fun y => y =? x) (x :: l).
Proof.
  assert (H : forall l, (forall y, In y l -> y = x) -> l <> [] -> dedup_z l = [x]).
  { induction l0 as [|a r IHr]; intros Hall Hne; [contradiction|]. cbn [dedup_z].
    assert (Ha : a = x) by (apply Hall; left; reflexivity). subst a.
    destruct r as [|b r'].
    - reflexivity.
    - assert (E : existsb (Z.eqb x) (b :: r') = true).
      { apply existsb_exists. exists b. split; [left; reflexivity|]. rewrite (Hall b (or_intror (or_introl eq_refl))). lia. }
      rewrite E. apply IHr; [intros y Hy; apply Hall; right; exact Hy|discriminate]. }
  destruct (forallb (fun y => y =? x) (x :: l)) eqn:Hf.
  - rewrite H; [reflexivity| |discriminate]. intros y Hy. rewrite forallb_forall in Hf. specialize (Hf y Hy). lia.
  - (* some element differs from x: at least two distinct values survive *)
    assert (Hin : forall l, In x (dedup_z (l ++ [x]))).
    { clear. intros l. induction l as [|a r IH]; [left; reflexivity|]. cbn [app dedup_z].
      destruct (existsb (Z.eqb a) (r ++ [x])); [exact IH|right; exact IH]. }
    assert (Hmem : forall l y, In y l -> In y (dedup_z l)).
    { clear. induction l as [|a r IH]; intros y Hy; [destruct Hy|]. cbn [dedup_z].
      destruct (existsb (Z.eqb a) r) eqn:E.
      - destruct Hy as [<-|Hy]; [|apply IH; exact Hy]. apply existsb_exists in E. destruct E as [z [Hz Hez]].
        assert (a = z) by lia. subst z. apply IH. exact Hz.
      - destruct Hy as [<-|Hy]; [left; reflexivity|right; apply IH; exact Hy]. }
    assert (Hex : exists y, In y (x :: l) /\ y <> x).
    { clear - Hf. induction (x :: l) as [|a r IH]; [discriminate|]. cbn [forallb] in Hf.
      destruct (a =? x) eqn:E; [|exists a; split; [left; reflexivity|lia]].
      destruct (IH Hf) as [y [Hy Hne]]. exists y. split; [right; exact Hy|exact Hne]. }
    destruct Hex as [y [Hy Hne]].
    pose proof (Hmem (x :: l) x (or_introl eq_refl)) as Hx. pose proof (Hmem (x :: l) y Hy) as Hy'.
    destruct (dedup_z (x :: l)) as [|a [|b r]] eqn:Ed.
    + destruct Hx.
    + destruct Hx as [<-|[]]. destruct Hy' as [<-|[]]. contradiction.
    + unfold zlen. cbn [length]. lia.
Qed.

Theorem interleaved_read_data_chunks_eq e cur objs nchunks :
  Forall (fun o => sized o <> None) objs ->
  (forall o0, hd_error objs = Some o0 -> 0 <= so_nvals o0 * nchunks) ->
  mapr (fun p => (chunks_abs (fst p), snd p)) (interleaved_read_data_chunks_gen e cur objs nchunks)
  = mapr (fun p => (Some (fst p), snd p)) (read_interleaved e objs nchunks cur).
Proof.
  intros Hall Hn. unfold interleaved_read_data_chunks_gen, read_interleaved.
  destruct objs as [|o0 objs]; [reflexivity|].
  assert (E0 : (Z.of_nat (length (o0 :: objs)) =? 0) = false) by (cbn [length]; lia). rewrite E0.
  change (map (fun o => so_nvals o) (o0 :: objs)) with (so_nvals o0 :: map (fun o => so_nvals o) objs).
  rewrite dedup_one_iff.
  assert (Ef : forall l, forallb (fun y => y =? so_nvals o0) (map (fun o => so_nvals o) l)
                         = forallb (fun o => so_nvals o =? so_nvals o0) l).
  { induction l as [|a r IH]; [reflexivity|]. cbn [map forallb]. rewrite IH. reflexivity. }
  change (so_nvals o0 :: map (fun o => so_nvals o) objs) with (map (fun o => so_nvals o) (o0 :: objs)).
  rewrite Ef. destruct (forallb (fun o => so_nvals o =? so_nvals o0) (o0 :: objs)); cbn [negb]; [|reflexivity].
  pose proof (read_interleaved_chunks_eq e cur o0 objs nchunks Hall (Hn o0 eq_refl)) as H.
  change (map (fun o => match sized o with Some s => s | None => 0 end) (o0 :: objs)) with (map size_or0 (o0 :: objs)).
  cbv zeta in H.
  destruct (read_rows (zsum (map size_or0 (o0 :: objs))) (so_nvals o0 * nchunks) cur) as [rows rest].
  destruct (read_interleaved_chunks_gen e cur (o0 :: objs) nchunks) as [[rc f]|er]; cbn [bind mapr fst snd] in *.
  - destruct (interleaved_columns e (o0 :: objs) rows 0 []) as [c|er]; cbn [bind mapr fst snd] in *; [|discriminate].
    injection H as Hrc ->. unfold chunks_abs. cbn [map opt_all]. rewrite Hrc. reflexivity.
  - destruct (interleaved_columns e (o0 :: objs) rows 0 []) as [c|er']; cbn [bind mapr fst snd] in *; [discriminate|].
    injection H as ->. reflexivity.
Qed.

(* ---- data_chunk_to_channel_chunk, InterleavedDataReader.read_channel_data_chunks ------------------------------------------- *)

(* the values a channel chunk holds (an empty chunk holds none) *)
Definition rcdc_values (r : rcdc) : option (list bytes) :=
  match rc_data r, rc_scaler_data r with
  | Some d, None => pydata_values d
  | None, None => Some []
  | _, _ => None
  end.

(* the model's values of a path in a decoded chunk (Model/LazyBytes.v chunk_vals) *)
Definition chunk_vals (path : bytes) (c : chunk) : list bytes :=
  match alookup path c with
  | Some (CData vs) => vs
  | _ => []
  end.

Definition channel_of_chunk (rc : rawchunk) (path : bytes) : rcdc :=
  match alookup path (rdc_channel_data rc) with Some c => c | None => mkRcdc None None end.

Lemma data_chunk_to_channel_chunk_eq rc path :
  data_chunk_to_channel_chunk_gen rc path = Ok (channel_of_chunk rc path).
Proof.
  unfold data_chunk_to_channel_chunk_gen, channel_of_chunk.
  destruct (alookup path (rdc_channel_data rc)); reflexivity.
Qed.

Lemma channel_of_chunk_vals rc c path :
  rawchunk_chunk rc = Some c -> rcdc_values (channel_of_chunk rc path) = Some (chunk_vals path c).
Proof.
  unfold rawchunk_chunk, channel_of_chunk, chunk_vals. generalize (rdc_channel_data rc). intros l. revert c.
  induction l as [|[p v] r IH]; intros c H.
  - cbn in H. injection H as <-. reflexivity.
  - cbn [entries_chunk] in H. destruct (rcdc_cdata v) as [x|] eqn:Hx; [|discriminate].
    destruct (entries_chunk r) as [cr|] eqn:Hr; [|discriminate]. injection H as <-. cbn [alookup].
    destruct (bytes_eqb path p); [|apply IH; reflexivity].
    unfold rcdc_cdata in Hx. unfold rcdc_values.
    destruct (rc_data v) as [d|]; [|discriminate]. destruct (rc_scaler_data v); [discriminate|].
    destruct (pydata_values d) as [vs|]; [|discriminate]. injection Hx as <-. reflexivity.
Qed.

Lemma mapM_total {A B} (f : A -> res B) (g : A -> B) (l : list A) :
  (forall a, f a = Ok (g a)) -> mapM f l = Ok (map g l).
Proof. intros H. induction l as [|a r IH]; [reflexivity|]. cbn [mapM map]. rewrite H, IH. reflexivity. Qed.

(* InterleavedDataReader.read_channel_data_chunks: read_data_chunks, then the channel's entry of each chunk *)
Theorem interleaved_read_channel_data_chunks_eq e cur objs path a b :
  interleaved_read_channel_data_chunks_gen e cur objs path a b
  = do '(cs, f) <- interleaved_read_data_chunks_gen e cur objs (b - a);
    Ok (map (fun c => channel_of_chunk c path) cs, f).
Proof.
  unfold interleaved_read_channel_data_chunks_gen.
  destruct (interleaved_read_data_chunks_gen e cur objs (b - a)) as [[cs f]|er]; cbn [bind]; [|reflexivity].
  rewrite (mapM_total _ (fun c => channel_of_chunk c path)); [reflexivity|].
  intros c. rewrite data_chunk_to_channel_chunk_eq. reflexivity.
Qed.

(* ---- ContiguousDataReader._read_channel_data_chunk: the seek arithmetic --------------------------------------------------- *)

(* what the code adds to current_position for an object that is not the channel *)
Definition skip_bytes (o : sobj) (n : Z) : res Z :=
  if n =? so_nvals o then Ok (so_dsize o)
  else match sized o with
       | Some sz => Ok (sz * n)
       | None => if n =? 0 then Ok 0 else Err EOther
       end.

(* the model's sequential walk to the channel: the data type and values of the first object named [path] and the
   cursor after it (None: no such object; the cursor is then after the whole chunk) *)
Fixpoint seq_channel_chunk (e : endian) (objs : list sobj) (ci nc : Z) (fin : option (alist Z)) (path : bytes)
         (cur : bytes) : res (option (list bytes) * bytes) :=
  match objs with
  | [] => Ok (None, cur)
  | o :: r =>
    do '(vs, cur1) <- read_values e o (chunk_nvals o ci nc fin) cur;
    if bytes_eqb (so_path o) path then Ok (Some vs, cur1)
    else seq_channel_chunk e r ci nc fin path cur1
  end.

(* the declared sizes are the real sizes: for every object before the channel, reading it sequentially consumes
   exactly the bytes the code skips; String._decode is neutral on the channel's own strings *)
Fixpoint sizes_real (e : endian) (objs : list sobj) (ci nc : Z) (fin : option (alist Z)) (path : bytes)
         (cur : bytes) : Prop :=
  match objs with
  | [] => True
  | o :: r =>
    match read_values e o (chunk_nvals o ci nc fin) cur with
    | Ok (vs, cur1) =>
      if bytes_eqb (so_path o) path then decode_neutral o vs
      else exists k, skip_bytes o (chunk_nvals o ci nc fin) = Ok k /\ 0 <= k <= blen cur /\ cur1 = drop k cur
                     /\ sizes_real e r ci nc fin path cur1
    | Err _ => bytes_eqb (so_path o) path = true
    end
  end.

Lemma skip_bytes_gen o n dt :
  so_dtype o = Some dt ->
  (if n =? so_nvals o then Ok (so_dsize o)
   else if negb (is_none (dec_cls_size dt))
        then do s <- need EType (dec_cls_size dt); Ok (s * n)
        else if n =? 0 then Ok 0 else Err EOther) = skip_bytes o n.
Proof.
  intros Hdt. unfold skip_bytes, sized. rewrite Hdt, dec_cls_size_eq.
  destruct (n =? so_nvals o); [reflexivity|].
  destruct (tds_size dt) as [[sz|]|]; reflexivity.
Qed.

Lemma channel_loop_sim e nc fin data ci path : forall objs cd cpos fpos,
    0 <= cpos -> Forall obj_ok objs -> Forall (fun o => 0 <= chunk_nvals o ci nc fin) objs ->
    sizes_real e objs ci nc fin path (drop cpos data) ->
    mapr (fun p => (rcdc_values (fst (fst p)), pf_pos (snd p)))
         (contig_read_channel_data_chunk_gen_loop4 ci path e nc fin objs cd cpos (mkPf data fpos))
    = mapr (fun p => match fst p with
                     | Some vs => (Some vs, cpos + (blen (drop cpos data) - blen (snd p)))
                     | None => (rcdc_values cd, fpos)
                     end)
           (seq_channel_chunk e objs ci nc fin path (drop cpos data)).
Proof.
  induction objs as [|o objs IH]; intros cd cpos fpos Hp Hok Hnn Hreal.
  - reflexivity.
  - cbn [contig_read_channel_data_chunk_gen_loop4 seq_channel_chunk]. rewrite get_channel_number_values_eq. cbn [bind].
    inversion Hok as [|? ? [dt [Hdt Hdok]] Hok']; subst. inversion Hnn as [|? ? Hn0 Hnn']; subst.
    set (n := chunk_nvals o ci nc fin) in *. cbn [sizes_real] in Hreal. fold n in Hreal.
    destruct (bytes_eqb (so_path o) path) eqn:Hpath.
    + (* the channel: seek to the accumulated position and read *)
      unfold pf_seek. assert (E : (cpos <? 0) = false) by lia. rewrite E. cbn [bind].
      unfold pf_run. cbn [pf_pos pf_data].
      pose proof (segobj_read_values_eq e o n (drop cpos data) dt Hdt Hdok Hn0) as Hrv.
      destruct (read_values e o n (drop cpos data)) as [[vs cur1]|er];
        destruct (segobj_read_values_gen o (drop cpos data) n e) as [[d f]|er']; cbn [mapr fst snd bind] in *; try discriminate.
      * injection Hrv as Hd ->. rewrite (decode_neutral_fix o dt vs Hdt Hreal) in Hd.
        unfold rcdc_values, pf_tell. cbn [rc_data rc_scaler_data pf_pos fst snd mapr]. rewrite Hd. reflexivity.
      * injection Hrv as ->. reflexivity.
    + (* another object: skip what it declares *)
      destruct (read_values e o n (drop cpos data)) as [[vs cur1]|er] eqn:Hrd; [|discriminate Hreal].
      destruct Hreal as [k [Hk [Hk0 [Hcur Hreal']]]]. cbn [bind].
      pose proof (skip_bytes_gen o n dt Hdt) as Hsg. rewrite Hk in Hsg.
      assert (Hcur' : cur1 = drop (cpos + k) data) by (rewrite Hcur; apply drop_drop; lia).
      rewrite Hcur' in *.
      assert (Hkb : k <= blen data - Z.min cpos (blen data)) by (rewrite <- blen_drop by lia; lia).
      destruct (n =? so_nvals o) eqn:En.
      * injection Hsg as Hsg. rewrite Hsg. rewrite (IH cd (cpos + k) fpos) by (try assumption; lia).
        destruct (seq_channel_chunk e objs ci nc fin path (drop (cpos + k) data)) as [[[vs'|] cur2]|er2]; cbn [mapr fst snd]; try reflexivity.
        f_equal. f_equal. rewrite (blen_drop cpos), (blen_drop (cpos + k)) by lia. pose proof (blen_nonneg data). lia.
      * rewrite Hdt. cbn [need bind].
        destruct (negb (is_none (dec_cls_size dt))) eqn:Ed.
        -- try rewrite Hdt. cbn [need bind].
           destruct (dec_cls_size dt) as [s|]; [|discriminate Ed]. cbn [need bind] in *. injection Hsg as Hsg. rewrite Hsg.
           rewrite (IH cd (cpos + k) fpos) by (try assumption; lia).
           destruct (seq_channel_chunk e objs ci nc fin path (drop (cpos + k) data)) as [[[vs'|] cur2]|er2]; cbn [mapr fst snd]; try reflexivity.
           f_equal. f_equal. rewrite (blen_drop cpos), (blen_drop (cpos + k)) by lia. pose proof (blen_nonneg data). lia.
        -- destruct (n =? 0) eqn:E0; [|discriminate Hsg]. injection Hsg as <-. rewrite Z.add_0_r in *.
           rewrite (IH cd cpos fpos) by (try assumption; lia).
           destruct (seq_channel_chunk e objs ci nc fin path (drop cpos data)) as [[[vs'|] cur2]|er2]; reflexivity.
Qed.

(* the seek-over walk returns the values the sequential model reads for the channel and leaves the file just after
   them; a path that is not in the chunk gives an empty chunk and does not move the file *)
Theorem contig_read_channel_data_chunk_sim e nc fin data pos objs ci path :
  0 <= pos -> Forall obj_ok objs -> Forall (fun o => 0 <= chunk_nvals o ci nc fin) objs ->
  sizes_real e objs ci nc fin path (drop pos data) ->
  mapr (fun p => (rcdc_values (fst p), pf_pos (snd p)))
       (contig_read_channel_data_chunk_gen nc fin e (mkPf data pos) objs ci path)
  = mapr (fun p => match fst p with
                   | Some vs => (Some vs, pos + (blen (drop pos data) - blen (snd p)))
                   | None => (Some [], pos)
                   end)
         (seq_channel_chunk e objs ci nc fin path (drop pos data)).
Proof.
  intros Hp Hok Hnn Hreal. unfold contig_read_channel_data_chunk_gen. unfold pf_tell. cbn [pf_pos].
  pose proof (channel_loop_sim e nc fin data ci path objs (mkRcdc None None) pos pos Hp Hok Hnn Hreal) as H.
  destruct (contig_read_channel_data_chunk_gen_loop4 ci path e nc fin objs (mkRcdc None None) pos (mkPf data pos))
    as [[[cd cp] f]|er]; cbn [bind mapr fst snd] in *; exact H.
Qed.
