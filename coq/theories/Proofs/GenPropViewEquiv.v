(* The property views TRANSLATED from nptdms/tdms.py (Gen/PyFuncsPropView.v): _convert_properties keeps keys and
   order and shows a timestamp value as the model's decoding dec_dt (datetime64[us]) unless raw_timestamps. *)
From Coq Require Import String.
From Coq Require Import ZArith List Bool Lia PrimFloat.
Import ListNotations.
From NpTdms Require Import Base.Res Model.Timestamp Gen.PyFuncsTime Gen.PyFuncsTimeTrack Gen.PyFuncsPropView.
From NpTdms Require Import Proofs.TimestampProofs Proofs.GenTimeEquiv.
Local Open Scope Z_scope.

(* what a property value looks like through TdmsFile / TdmsGroup / TdmsChannel .properties *)
Definition view_value (raw_ts : bool) (v : tpval) : tpval :=
  match v with
  | TVTimestamp s f => if raw_ts then v else TVDatetime (dec_dt (s, f))
  | _ => v
  end.
Definition view_props (raw_ts : bool) (p : list (string * tpval)) : list (string * tpval) :=
  map (fun kv => (fst kv, view_value raw_ts (snd kv))) p.

(* the timestamp is one NumPy can represent as datetime64[us] without overflow on the way *)
Definition value_ok (v : tpval) : Prop :=
  match v with TVTimestamp s f => representable Rus s (frac_steps_scalar Rus f) | _ => True end.

Theorem convert_prop_eq raw_ts v : (raw_ts = false -> value_ok v) ->
  convert_prop_gen raw_ts v = Ok (view_value raw_ts v).
Proof.
  intros H. unfold convert_prop_gen, view_value. destruct v; cbn [tp_is_timestamp andb]; try reflexivity.
  destruct raw_ts; cbn [negb andb]; [reflexivity|].
  unfold tp_as_datetime64_us. rewrite scalar_as_datetime64_eq by (apply H; reflexivity). reflexivity.
Qed.

Theorem convert_properties_eq raw_ts p :
  (raw_ts = false -> Forall (fun kv => value_ok (snd kv)) p) ->
  convert_properties_gen raw_ts p = Ok (view_props raw_ts p).
Proof.
  intros H. unfold convert_properties_gen.
  assert (E : mapM (fun '(k, v) => do t1__ <- convert_prop_gen raw_ts v; Ok (k, t1__)) p = Ok (view_props raw_ts p)).
  { induction p as [|[k v] r IH]; [reflexivity|]. cbn [mapM].
    rewrite convert_prop_eq by (intros E; specialize (H E); inversion H; assumption). cbn [bind].
    rewrite IH by (intros E; specialize (H E); inversion H; assumption). reflexivity. }
  rewrite E. reflexivity.
Qed.

Corollary convert_properties_raw p : convert_properties_gen true p = Ok p.
Proof.
  rewrite convert_properties_eq by discriminate. f_equal. unfold view_props.
  induction p as [|[k v] r IH]; [reflexivity|]. cbn [map fst snd]. rewrite IH. destruct v; reflexivity.
Qed.

(* keys and order are kept *)
Corollary convert_properties_keys raw_ts p q : convert_properties_gen raw_ts p = Ok q ->
  (raw_ts = false -> Forall (fun kv => value_ok (snd kv)) p) -> map fst q = map fst p.
Proof.
  intros Hq H. rewrite convert_properties_eq in Hq by exact H. injection Hq as <-. unfold view_props.
  rewrite map_map. reflexivity.
Qed.

(* a time written as the TDMS timestamp of the datetime64[us] count d is shown as d (Props/C12.v ts_roundtrip) *)
Theorem timestamp_property_roundtrip d k :
  - 2 ^ 63 + 1000000 <= d -> d - TDMS_EPOCH_US < 2 ^ 63 ->
  convert_properties_gen false [(k, TVTimestamp (fst (enc_dt d)) (snd (enc_dt d)))] = Ok [(k, TVDatetime d)].
Proof.
  intros Hlo Hv. rewrite convert_properties_eq.
  - unfold view_props. cbn [map fst snd view_value]. rewrite <- surjective_pairing. rewrite dec_enc_dt. reflexivity.
  - intros _. constructor; [|constructor]. cbn [snd value_ok]. apply representable_enc_dt; assumption.
Qed.

Theorem file_properties_eq p : TdmsFile_properties_gen p = Ok p.
Proof. reflexivity. Qed.
