(* C16 carried through the file: names written are the names read.

   Model/Writer.v builds every object path from the NAMES it is given with the
   C16 printer ([obj_path]: ByteStr.path_of = Path.components_to_path at bytes,
   quote 0x27, slash 0x2F), and the content specification of write_read
   (Proofs/WriteReadSpec.v) selects what belongs to an object BY PATH
   ([at_path]: byte-string equality with the printed path).  Here:

     path_eqb_kind     equality of printed paths = equality of the names that
                       were printed (C16 injectivity, via classify);
     by_kind_obj_seq   therefore every selection by path over the file's
                       object sequence is the selection BY NAME over the
                       objects the caller passed in, in call order
                       ([written]); the properties / data type / values of a
                       channel are those written under exactly its (group,
                       channel) name pair ([content_channel_by_name],
                       [content_data_by_name]);
     chan_lookup       a written channel is found in the hierarchy the reader
                       reports under its group name and its channel name;
     content_keys      for EVERY reported channel: dictionary keys are
                       pairwise distinct, name / group_name are the keys, path
                       is the printed pair, parsing the path gives the pair
                       back;
     chan_block, two_chan_blocks   where the channel(s) appear in the flat
                       token list [rd_all] returns.

   No new model definitions; [written], [is_kind], [by_kind], [lookup_chan] are
   projections used to state the theorems of Props/C16_file.v. *)
From Coq Require Import List ZArith Bool Lia.
From Coq Require Import Init.Byte.
Import ListNotations.
From NpTdms Require Import Base.Bytes Base.Res Model.Path Model.Tokens Model.TokensWf Model.ByteStr
  Model.StrictParse Model.Writer Proofs.PathProofs Proofs.ByteStrProofs Proofs.WriterProofs.
From NpTdms Require Import Model.SegState Model.Layout Model.Reader Model.FileSyn
  Proofs.SegStateProofs Proofs.WriteReadSpec Proofs.WriteReadBytes Proofs.WriteReadState
  Proofs.WriteReadHier Proofs.WriteReadCalls Proofs.WriteRead.
Local Open Scope Z_scope.

(* ---- what the caller passed in -------------------------------------------------------------- *)

(* every object of every write_segment call of every session, in call order *)
Definition written (ss : wsessions) : list wobj := concat (all_calls ss).

(* an object's identity: root, group g, channel c of group g (ByteStr.pkind) *)
Definition kind_path (k : pkind) : bytes :=
  match k with
  | KRoot => ROOT_PATH
  | KGroup g => group_path g
  | KChan g c => chan_path g c
  end.

(* the object was created with exactly these names *)
Definition is_kind (k : pkind) (o : wobj) : bool :=
  match k, o with
  | KRoot, WRoot _ => true
  | KGroup g, WGroup g' _ => bytes_eqb g g'
  | KChan g c, WChan g' c' _ _ _ => bytes_eqb g g' && bytes_eqb c c'
  | _, _ => false
  end.

Definition named (g c : bytes) (o : wobj) : bool := is_kind (KChan g c) o.

Definition by_kind {B} (k : pkind) (f : wobj -> list B) (o : wobj) : list B :=
  if is_kind k o then f o else [].

(* what was written under the name pair (g, c), over all calls, in order *)
Definition values_by_name (g c : bytes) (l : list wobj) : list bytes :=
  flat_map (by_kind (KChan g c) obj_values) l.
Definition dtypes_by_name (g c : bytes) (l : list wobj) : list Z :=
  flat_map (by_kind (KChan g c) obj_dtypes) l.
Definition props_by_kind (k : pkind) (l : list wobj) : list prop :=
  flat_map (by_kind k obj_props) l.

Definition chan_by_name (l : list wobj) (g c : bytes) : channel :=
  mkChan g c (chan_path g c) (hd_error (dtypes_by_name g c l)) None
         (Z.of_nat (length (values_by_name g c l)))
         (merge_props (props_by_kind (KChan g c) l) []).

Definition lookup_chan (h : hierarchy) (g c : bytes) : option channel :=
  match alookup g (h_groups h) with
  | Some G => alookup c (g_chans G)
  | None => None
  end.

(* ---- C16 at bytes: equal paths = equal names ----------------------------------------------------- *)

Lemma chan_path_inj g c g' c' : chan_path g c = chan_path g' c' -> g = g' /\ c = c'.
Proof.
  intros H.
  assert (E : Some (KChan g c) = Some (KChan g' c')) by (rewrite <- !classify_chan, H; reflexivity).
  injection E as -> ->. split; reflexivity.
Qed.

Lemma classify_kind k : classify (kind_path k) = Some k.
Proof. destruct k; [apply classify_root|apply classify_group|apply classify_chan]. Qed.

Lemma kind_path_inj k k' : kind_path k = kind_path k' -> k = k'.
Proof.
  intros H. assert (E : Some k = Some k') by (rewrite <- !classify_kind, H; reflexivity).
  injection E as ->. reflexivity.
Qed.

Definition kind_of (o : wobj) : pkind :=
  match o with
  | WRoot _ => KRoot
  | WGroup g _ => KGroup g
  | WChan g c _ _ _ => KChan g c
  end.

Lemma obj_path_kind o : obj_path o = kind_path (kind_of o).
Proof. destruct o; reflexivity. Qed.

Lemma is_kind_spec k o : is_kind k o = true <-> k = kind_of o.
Proof.
  destruct k as [|g|g c]; destruct o as [ps|g' ps|g' c' dt vs ps]; cbn [is_kind kind_of];
    try (split; [discriminate|intros E; discriminate E]).
  - split; reflexivity.
  - rewrite bytes_eqb_eq. split; [intros ->; reflexivity|intros E; injection E as ->; reflexivity].
  - rewrite andb_true_iff, !bytes_eqb_eq. split.
    + intros [-> ->]. reflexivity.
    + intros E. injection E as -> ->. split; reflexivity.
Qed.

(* the comparison of printed paths the specification makes decides equality of names *)
Lemma path_eqb_kind k o : bytes_eqb (kind_path k) (obj_path o) = is_kind k o.
Proof.
  destruct (is_kind k o) eqn:E.
  - apply is_kind_spec in E. subst k. rewrite obj_path_kind. apply bytes_eqb_refl.
  - apply bytes_eqb_neq. intros H. rewrite obj_path_kind in H. apply kind_path_inj in H.
    apply is_kind_spec in H. rewrite H in E. discriminate.
Qed.

Lemma at_path_by_kind {B} k (f : wobj -> list B) o : at_path (kind_path k) f o = by_kind k f o.
Proof. unfold at_path, by_kind. rewrite path_eqb_kind. reflexivity. Qed.

(* the same fact in the vocabulary of Props/C16.v: the writer's path is the C16
   printer applied to the names, and the C16 parser inverts it *)
Lemma obj_path_is_printer g c dt vs ps :
  obj_path (WChan g c dt vs ps) = components_to_path byte byte_eqb QUOTE SLASH (Some g) (Some c).
Proof. reflexivity. Qed.

Lemma group_path_is_printer g ps :
  obj_path (WGroup g ps) = components_to_path byte byte_eqb QUOTE SLASH (Some g) None.
Proof. reflexivity. Qed.

(* ---- selections over a call, a file ------------------------------------------------------------------- *)

Lemma flat_map_filter_keep {A B} (p : A -> bool) (h : A -> list B) l :
  (forall a, p a = false -> h a = []) -> flat_map h (filter p l) = flat_map h l.
Proof.
  intros H. induction l as [|a l IH]; [reflexivity|]. cbn [filter flat_map].
  destruct (p a) eqn:E; cbn [flat_map]; rewrite IH; [reflexivity|]. rewrite (H a E). reflexivity.
Qed.

Lemma flat_map_nil {A B} (h : A -> list B) l : (forall a, In a l -> h a = []) -> flat_map h l = [].
Proof.
  induction l as [|a l IH]; intros H; [reflexivity|]. cbn [flat_map].
  rewrite (H a (or_introl eq_refl)), IH; [reflexivity|]. intros b Hb. apply H. right. exact Hb.
Qed.

Lemma flat_map_filter_drop {A B} (p : A -> bool) (h : A -> list B) l :
  (forall a, p a = true -> h a = []) -> flat_map h (filter p l) = [].
Proof. intros H. apply flat_map_nil. intros a Ha. apply filter_In in Ha. apply H. exact (proj2 Ha). Qed.

Lemma flat_map_flat_map {A B C} (f : A -> list B) (h : B -> list C) l :
  flat_map h (flat_map f l) = flat_map (fun a => flat_map h (f a)) l.
Proof. induction l as [|a l IH]; [reflexivity|]. cbn [flat_map]. rewrite flat_map_app, IH. reflexivity. Qed.

Lemma flat_map_concat {A B} (h : A -> list B) ll :
  flat_map h (concat ll) = flat_map (flat_map h) ll.
Proof. induction ll as [|l ll IH]; [reflexivity|]. cbn [concat flat_map]. rewrite flat_map_app, IH. reflexivity. Qed.

(* a selection that looks at objects of one kind only sees them in the order
   they were passed in: within a call the writer moves roots before groups
   before channels and keeps the order inside each kind *)
Definition one_kind {B} (h : wobj -> list B) : Prop :=
  (forall o, is_root o = false -> h o = []) \/
  (forall o, is_group o = false -> h o = []) \/
  (forall o, is_chan o = false -> h o = []).

Lemma call_seq_one_kind {B} (h : wobj -> list B) objs :
  blank_vanish h -> one_kind h -> flat_map h (call_seq objs) = flat_map h objs.
Proof.
  intros Hb Hk. unfold call_seq, implied_groups. rewrite !flat_map_app.
  rewrite (flat_map_blank_groups h _ Hb). cbn [app].
  destruct Hk as [Hk|[Hk|Hk]].
  - rewrite (flat_map_filter_keep is_root h objs Hk).
    rewrite (flat_map_filter_drop is_group), (flat_map_filter_drop is_chan); [apply app_nil_r| |];
      intros o Ho; apply Hk; destruct o; cbn in *; congruence.
  - rewrite (flat_map_filter_keep is_group h objs Hk).
    rewrite (flat_map_filter_drop is_root), (flat_map_filter_drop is_chan); [apply app_nil_r| |];
      intros o Ho; apply Hk; destruct o; cbn in *; congruence.
  - rewrite (flat_map_filter_keep is_chan h objs Hk).
    rewrite (flat_map_filter_drop is_root), (flat_map_filter_drop is_group); [reflexivity| |];
      intros o Ho; apply Hk; destruct o; cbn in *; congruence.
Qed.

Lemma obj_seq_one_kind {B} (h : wobj -> list B) ss :
  blank_vanish h -> one_kind h -> flat_map h (obj_seq ss) = flat_map h (written ss).
Proof.
  intros Hb Hk. unfold obj_seq, written. rewrite flat_map_flat_map, flat_map_concat.
  apply flat_map_ext. intros objs. apply call_seq_one_kind; assumption.
Qed.

Lemma by_kind_one_kind {B} k (f : wobj -> list B) : one_kind (by_kind k f).
Proof.
  unfold one_kind, by_kind. destruct k as [|g|g c]; [left|right; left|right; right];
    intros o Ho; destruct o; cbn in *; try reflexivity; discriminate Ho.
Qed.

Lemma by_kind_blank {B} k (f : wobj -> list B) :
  f (WRoot []) = [] -> (forall g, f (WGroup g []) = []) -> blank_vanish (by_kind k f).
Proof.
  intros Hr Hg. split; [|intros g]; unfold by_kind.
  - rewrite Hr. destruct (is_kind k (WRoot [])); reflexivity.
  - rewrite Hg. destruct (is_kind k (WGroup g [])); reflexivity.
Qed.

(* selection by printed path over the file sequence = selection by name over
   the objects passed in *)
Lemma by_kind_obj_seq {B} k (f : wobj -> list B) ss :
  f (WRoot []) = [] -> (forall g, f (WGroup g []) = []) ->
  flat_map (at_path (kind_path k) f) (obj_seq ss) = flat_map (by_kind k f) (written ss).
Proof.
  intros Hr Hg.
  rewrite (flat_map_ext _ _ (at_path_by_kind k f)).
  apply obj_seq_one_kind; [apply by_kind_blank; assumption|apply by_kind_one_kind].
Qed.

Lemma props_at_by_kind k ss :
  props_at (kind_path k) (obj_seq ss) = merge_props (props_by_kind k (written ss)) [].
Proof. unfold props_at, props_by_kind. rewrite by_kind_obj_seq; reflexivity. Qed.

Lemma values_at_by_name g c ss :
  values_at (chan_path g c) (obj_seq ss) = values_by_name g c (written ss).
Proof. unfold values_at, values_by_name. apply (by_kind_obj_seq (KChan g c)); reflexivity. Qed.

Lemma dtypes_of_by_name g c ss :
  dtypes_of (chan_path g c) (obj_seq ss) = dtypes_by_name g c (written ss).
Proof. unfold dtypes_of, dtypes_by_name. apply (by_kind_obj_seq (KChan g c)); reflexivity. Qed.

Lemma content_channel_by_name ss g c :
  content_channel (obj_seq ss) g c = chan_by_name (written ss) g c.
Proof.
  unfold content_channel, chan_by_name, dtype_at.
  change (flat_map (at_path (chan_path g c) obj_dtypes) (obj_seq ss)) with (dtypes_of (chan_path g c) (obj_seq ss)).
  rewrite dtypes_of_by_name, values_at_by_name.
  rewrite (props_at_by_kind (KChan g c)). reflexivity.
Qed.

Lemma content_data_by_name ss g c :
  content_data (obj_seq ss) (chan_by_name (written ss) g c) =
  match hd_error (dtypes_by_name g c (written ss)) with
  | None => None
  | Some _ => Some (CData (values_by_name g c (written ss)))
  end.
Proof.
  unfold content_data. cbn [chan_by_name ch_dtype ch_path].
  destruct (hd_error (dtypes_by_name g c (written ss))); [|reflexivity].
  rewrite values_at_by_name. reflexivity.
Qed.

(* ---- the written objects appear in the file sequence; groups are declared ------------------------- *)

Lemma written_chan_in_seq ss o : In o (written ss) -> is_chan o = true -> In o (obj_seq ss).
Proof.
  unfold written, obj_seq. intros Hin Hc. apply in_concat in Hin. destruct Hin as [objs [Hobjs Ho]].
  apply in_flat_map. exists objs. split; [exact Hobjs|].
  unfold call_seq. apply in_or_app. right. apply in_or_app. right. apply in_or_app. right.
  apply filter_In. split; assumption.
Qed.

Lemma written_group_in_seq ss o : In o (written ss) -> is_group o = true -> In o (obj_seq ss).
Proof.
  unfold written, obj_seq. intros Hin Hc. apply in_concat in Hin. destruct Hin as [objs [Hobjs Ho]].
  apply in_flat_map. exists objs. split; [exact Hobjs|].
  unfold call_seq. apply in_or_app. right. apply in_or_app. left.
  apply filter_In. split; assumption.
Qed.

Lemma groups_present_obj_seq ss : groups_present (obj_seq ss).
Proof.
  intros g c dt vs ps Hin. unfold obj_seq in *. apply in_flat_map in Hin. destruct Hin as [objs [Hobjs Ho]].
  rewrite flat_map_flat_map. apply in_flat_map. exists objs. split; [exact Hobjs|].
  assert (Hreq : In g (groups_required objs)).
  { unfold call_seq in Ho. repeat (apply in_app_or in Ho; destruct Ho as [Ho|Ho]).
    - apply filter_In in Ho. destruct Ho as [_ Ho]. discriminate Ho.
    - apply filter_In in Ho. destruct Ho as [_ Ho]. discriminate Ho.
    - unfold implied_groups in Ho. apply in_map_iff in Ho. destruct Ho as [x [Ho _]]. discriminate Ho.
    - apply filter_In in Ho. destruct Ho as [Ho _]. unfold groups_required. apply in_flat_map.
      eexists. split; [exact Ho|]. left. reflexivity. }
  unfold call_seq. rewrite !flat_map_app. apply in_or_app. right. apply in_or_app. right.
  apply in_or_app. left. unfold implied_groups. rewrite names_blank_groups.
  apply in_sorted_set. exact Hreq.
Qed.

Lemma written_chan_names ss o g c :
  In o (written ss) -> named g c o = true ->
  In g (group_names (obj_seq ss)) /\ In c (chan_names g (obj_seq ss)).
Proof.
  intros Hin Hn. unfold named in Hn. apply is_kind_spec in Hn.
  destruct o as [ps|g' ps|g' c' dt vs ps]; cbn [kind_of] in Hn; try discriminate Hn.
  injection Hn as <- <-.
  pose proof (written_chan_in_seq ss _ Hin eq_refl) as Hs. split.
  - unfold group_names. apply (proj2 (dedup_in _ _)). exact (groups_present_obj_seq ss _ _ _ _ _ Hs).
  - unfold chan_names. apply (proj2 (dedup_in _ _)). apply in_flat_map.
    eexists. split; [exact Hs|]. cbn [chan_name_of]. rewrite bytes_eqb_refl. left. reflexivity.
Qed.

Lemma written_group_names ss g ps :
  In (WGroup g ps) (written ss) -> In g (group_names (obj_seq ss)).
Proof.
  intros Hin. pose proof (written_group_in_seq ss _ Hin eq_refl) as Hs.
  unfold group_names. apply (proj2 (dedup_in _ _)). apply in_flat_map.
  eexists. split; [exact Hs|]. left. reflexivity.
Qed.

(* ---- lookups in the reported hierarchy ------------------------------------------------------------------ *)

Lemma alookup_graph_in {V} (F : bytes -> V) g D :
  In g D -> alookup g (map (fun x => (x, F x)) D) = Some (F g).
Proof.
  induction D as [|x D IH]; intros Hin; [destruct Hin|].
  cbn [map alookup]. destruct (bytes_eqb g x) eqn:E.
  - apply bytes_eqb_eq in E. subst x. reflexivity.
  - apply IH. destruct Hin as [->|Hin]; [rewrite bytes_eqb_refl in E; discriminate|exact Hin].
Qed.

Lemma group_lookup S g :
  In g (group_names S) -> alookup g (h_groups (content_hierarchy S)) = Some (content_group S g).
Proof. intros H. unfold content_hierarchy. cbn [h_groups]. apply (alookup_graph_in (content_group S)). exact H. Qed.

Lemma chan_lookup S g c :
  In g (group_names S) -> In c (chan_names g S) ->
  lookup_chan (content_hierarchy S) g c = Some (content_channel S g c).
Proof.
  intros Hg Hc. unfold lookup_chan. rewrite (group_lookup S g Hg).
  unfold content_group. cbn [g_chans]. apply (alookup_graph_in (content_channel S g)). exact Hc.
Qed.

(* every channel the reader reports: keys distinct, names are the keys, the
   path is the printed pair and parses back to the pair *)
Definition well_keyed (h : hierarchy) : Prop :=
  NoDup (map fst (h_groups h)) /\
  forall g G, In (g, G) (h_groups h) ->
    g_name G = g /\ NoDup (map fst (g_chans G)) /\
    forall c ch, In (c, ch) (g_chans G) ->
      ch_name ch = c /\ ch_group ch = g /\
      ch_path ch = components_to_path byte byte_eqb QUOTE SLASH (Some g) (Some c) /\
      from_string byte byte_eqb QUOTE SLASH (ch_path ch) = inr (Some g, Some c).

Lemma map_fst_graph {V} (F : bytes -> V) D : map fst (map (fun x => (x, F x)) D) = D.
Proof. rewrite map_map. cbn [fst]. apply map_id. Qed.

Lemma content_keys S : well_keyed (content_hierarchy S).
Proof.
  unfold well_keyed, content_hierarchy. cbn [h_groups]. split.
  - rewrite map_fst_graph. apply dedup_nodup.
  - intros g G HG. apply in_map_iff in HG. destruct HG as [g0 [E _]]. injection E as -> <-.
    unfold content_group. cbn [g_name g_chans]. split; [reflexivity|]. split.
    + rewrite map_fst_graph. apply dedup_nodup.
    + intros c ch Hch. apply in_map_iff in Hch. destruct Hch as [c0 [E _]]. injection E as -> <-.
      unfold content_channel. cbn [ch_name ch_group ch_path]. repeat split.
      apply from_string_chan_b.
Qed.

(* ---- where a channel sits in the token list --------------------------------------------------------- *)

Definition chan_block (D : channel -> list tok) (ch : channel) : list tok := obs_channel_meta ch ++ D ch.

Definition group_block (D : channel -> list tok) (g : bytes * group) : list tok :=
  TB (g_name (snd g)) :: obs_props (g_props (snd g)) ++
  TZ (Z.of_nat (length (g_chans (snd g)))) ::
  flat_map (fun c => chan_block D (snd c)) (g_chans (snd g)).

Lemma obs_hierarchy_blocks h D :
  obs_hierarchy h D =
  obs_props (h_root h) ++ TZ (Z.of_nat (length (h_groups h))) :: flat_map (group_block D) (h_groups h).
Proof. reflexivity. Qed.

(* [T] contains [B] as a contiguous block *)
Definition has_block {A} (T B : list A) : Prop := exists pre post, T = pre ++ B ++ post.

(* [T] contains [B1] and [B2] as disjoint contiguous blocks *)
Definition has_two_blocks {A} (T B1 B2 : list A) : Prop :=
  exists t1 t2 t3, T = t1 ++ B1 ++ t2 ++ B2 ++ t3 \/ T = t1 ++ B2 ++ t2 ++ B1 ++ t3.

Lemma has_block_wrap {A} (a b T B : list A) : has_block T B -> has_block (a ++ T ++ b) B.
Proof.
  intros (p & q & ->). exists (a ++ p), (q ++ b). rewrite <- !app_assoc. reflexivity.
Qed.

Lemma has_two_blocks_wrap {A} (a b T B1 B2 : list A) :
  has_two_blocks T B1 B2 -> has_two_blocks (a ++ T ++ b) B1 B2.
Proof.
  intros (t1 & t2 & t3 & [-> | ->]); exists (a ++ t1), t2, (t3 ++ b); [left|right];
    rewrite <- !app_assoc; reflexivity.
Qed.

Lemma flat_map_has_block {X A} (f : X -> list A) l x B :
  In x l -> has_block (f x) B -> has_block (flat_map f l) B.
Proof.
  intros Hin HB. apply in_split in Hin. destruct Hin as (l1 & l2 & ->).
  rewrite flat_map_app. cbn [flat_map]. apply (has_block_wrap (flat_map f l1) (flat_map f l2)) in HB.
  exact HB.
Qed.

Lemma in_split2 {A} (x y : A) l : In x l -> In y l -> x <> y ->
  exists l1 l2 l3, l = l1 ++ x :: l2 ++ y :: l3 \/ l = l1 ++ y :: l2 ++ x :: l3.
Proof.
  intros Hx Hy Hne. apply in_split in Hx. destruct Hx as (a & b & ->).
  apply in_app_or in Hy. destruct Hy as [Hy|[Hy|Hy]].
  - apply in_split in Hy. destruct Hy as (a1 & a2 & ->). exists a1, a2, b. right.
    rewrite <- app_assoc. reflexivity.
  - exfalso. apply Hne. exact Hy.
  - apply in_split in Hy. destruct Hy as (b1 & b2 & ->). exists a, b1, b2. left. reflexivity.
Qed.

Lemma flat_map_two_blocks_same {X A} (f : X -> list A) l x B1 B2 :
  In x l -> has_two_blocks (f x) B1 B2 -> has_two_blocks (flat_map f l) B1 B2.
Proof.
  intros Hin HB. apply in_split in Hin. destruct Hin as (l1 & l2 & ->).
  rewrite flat_map_app. cbn [flat_map]. apply (has_two_blocks_wrap (flat_map f l1) (flat_map f l2)) in HB.
  exact HB.
Qed.

Lemma flat_map_two_blocks_diff {X A} (f : X -> list A) l x y B1 B2 :
  In x l -> In y l -> x <> y -> has_block (f x) B1 -> has_block (f y) B2 ->
  has_two_blocks (flat_map f l) B1 B2.
Proof.
  intros Hx Hy Hne (p1 & q1 & E1) (p2 & q2 & E2).
  destruct (in_split2 x y l Hx Hy Hne) as (l1 & l2 & l3 & [-> | ->]).
  - exists (flat_map f l1 ++ p1), (q1 ++ flat_map f l2 ++ p2), (q2 ++ flat_map f l3). left.
    rewrite flat_map_app. cbn [flat_map]. rewrite flat_map_app. cbn [flat_map]. rewrite E1, E2.
    rewrite <- !app_assoc. reflexivity.
  - exists (flat_map f l1 ++ p2), (q2 ++ flat_map f l2 ++ p1), (q1 ++ flat_map f l3). right.
    rewrite flat_map_app. cbn [flat_map]. rewrite flat_map_app. cbn [flat_map]. rewrite E1, E2.
    rewrite <- !app_assoc. reflexivity.
Qed.

Lemma has_block_self {A} (B : list A) : has_block B B.
Proof. exists [], []. rewrite app_nil_r. reflexivity. Qed.

Lemma has_block_prefix {A} (a T B : list A) : has_block T B -> has_block (a ++ T) B.
Proof. intros (p & q & ->). exists (a ++ p), q. rewrite <- app_assoc. reflexivity. Qed.

Lemma has_block_cons {A} (x : A) (T B : list A) : has_block T B -> has_block (x :: T) B.
Proof. apply (has_block_prefix [x]). Qed.

Lemma has_two_blocks_prefix {A} (a T B1 B2 : list A) :
  has_two_blocks T B1 B2 -> has_two_blocks (a ++ T) B1 B2.
Proof.
  intros (t1 & t2 & t3 & [-> | ->]); exists (a ++ t1), t2, t3; [left|right];
    rewrite <- !app_assoc; reflexivity.
Qed.

Lemma has_two_blocks_cons {A} (x : A) (T B1 B2 : list A) :
  has_two_blocks T B1 B2 -> has_two_blocks (x :: T) B1 B2.
Proof. apply (has_two_blocks_prefix [x]). Qed.

Lemma group_block_has D g G c ch :
  In (c, ch) (g_chans G) -> has_block (group_block D (g, G)) (chan_block D ch).
Proof.
  intros Hin. unfold group_block. cbn [snd].
  apply has_block_cons, has_block_prefix, has_block_cons.
  apply (flat_map_has_block _ _ (c, ch)); [exact Hin|]. apply has_block_self.
Qed.

Lemma chan_block_in_tokens h D g G c ch :
  In (g, G) (h_groups h) -> In (c, ch) (g_chans G) ->
  has_block (obs_hierarchy h D) (chan_block D ch).
Proof.
  intros HG Hch. rewrite obs_hierarchy_blocks.
  apply has_block_prefix, has_block_cons.
  apply (flat_map_has_block _ _ (g, G)); [exact HG|].
  apply (group_block_has D g G c ch Hch).
Qed.

Lemma has_block_suffix {A} (T b B : list A) : has_block T B -> has_block (T ++ b) B.
Proof. intros (p & q & ->). exists p, (q ++ b). rewrite <- !app_assoc. reflexivity. Qed.

Lemma has_two_blocks_suffix {A} (T b B1 B2 : list A) :
  has_two_blocks T B1 B2 -> has_two_blocks (T ++ b) B1 B2.
Proof.
  intros (t1 & t2 & t3 & [-> | ->]); exists t1, t2, (t3 ++ b); [left|right];
    rewrite <- !app_assoc; reflexivity.
Qed.

Lemma group_block_two D g G c1 ch1 c2 ch2 :
  In (c1, ch1) (g_chans G) -> In (c2, ch2) (g_chans G) -> c1 <> c2 ->
  has_two_blocks (group_block D (g, G)) (chan_block D ch1) (chan_block D ch2).
Proof.
  intros H1 H2 Hne. unfold group_block. cbn [snd].
  apply has_two_blocks_cons, has_two_blocks_prefix, has_two_blocks_cons.
  apply (flat_map_two_blocks_diff _ _ (c1, ch1) (c2, ch2)); [exact H1|exact H2| | |].
  - intros E. apply Hne. injection E as E _. exact E.
  - apply has_block_self.
  - apply has_block_self.
Qed.

Lemma nodup_keys_unique {V} (l : list (bytes * V)) k v1 v2 :
  NoDup (map fst l) -> In (k, v1) l -> In (k, v2) l -> v1 = v2.
Proof.
  induction l as [|[k' v'] l IH]; intros Hnd H1 H2; [destruct H1|].
  cbn [map fst] in Hnd. inversion Hnd as [|x y Hk Hl]; subst.
  destruct H1 as [E1|H1]; destruct H2 as [E2|H2].
  - injection E1 as _ <-. injection E2 as _ <-. reflexivity.
  - injection E1 as -> _. exfalso. apply Hk. apply (in_map fst) in H2. exact H2.
  - injection E2 as -> _. exfalso. apply Hk. apply (in_map fst) in H1. exact H1.
  - apply IH; assumption.
Qed.

Lemma two_chan_blocks_in_tokens h D g1 G1 c1 ch1 g2 G2 c2 ch2 :
  NoDup (map fst (h_groups h)) ->
  In (g1, G1) (h_groups h) -> In (c1, ch1) (g_chans G1) ->
  In (g2, G2) (h_groups h) -> In (c2, ch2) (g_chans G2) ->
  (g1, c1) <> (g2, c2) ->
  has_two_blocks (obs_hierarchy h D) (chan_block D ch1) (chan_block D ch2).
Proof.
  intros Hnd HG1 Hc1 HG2 Hc2 Hne. rewrite obs_hierarchy_blocks.
  apply has_two_blocks_prefix, has_two_blocks_cons.
  destruct (bytes_eqb g1 g2) eqn:E.
  - apply bytes_eqb_eq in E. subst g2.
    assert (G2 = G1) by (apply (nodup_keys_unique _ g1 G2 G1 Hnd HG2 HG1)). subst G2.
    apply (flat_map_two_blocks_same _ _ (g1, G1)); [exact HG1|].
    apply (group_block_two D g1 G1 c1 ch1 c2 ch2); [exact Hc1|exact Hc2|]. intros Ec. apply Hne. rewrite Ec. reflexivity.
  - apply bytes_eqb_neq in E.
    apply (flat_map_two_blocks_diff _ _ (g1, G1) (g2, G2)); [exact HG1|exact HG2| | |].
    + intros Ep. apply E. injection Ep as Ep _. exact Ep.
    + apply (group_block_has D g1 G1 c1 ch1). exact Hc1.
    + apply (group_block_has D g2 G2 c2 ch2). exact Hc2.
Qed.

(* ---- only what was written is found ----------------------------------------------------------------------- *)

Lemma alookup_graph_some {V} (F : bytes -> V) g D v :
  alookup g (map (fun x => (x, F x)) D) = Some v -> In g D /\ v = F g.
Proof.
  induction D as [|x D IH]; cbn [map alookup]; [discriminate|].
  destruct (bytes_eqb g x) eqn:E.
  - apply bytes_eqb_eq in E. subst x. intros H. injection H as <-. split; [left|]; reflexivity.
  - intros H. destruct (IH H) as [Hin Hv]. split; [right; exact Hin|exact Hv].
Qed.

Lemma obj_seq_chan_written ss o : In o (obj_seq ss) -> is_chan o = true -> In o (written ss).
Proof.
  unfold obj_seq, written. intros Hin Hc. apply in_flat_map in Hin. destruct Hin as [objs [Hobjs Ho]].
  apply in_concat. exists objs. split; [exact Hobjs|].
  unfold call_seq in Ho. repeat (apply in_app_or in Ho; destruct Ho as [Ho|Ho]).
  - apply filter_In in Ho. exact (proj1 Ho).
  - apply filter_In in Ho. exact (proj1 Ho).
  - unfold implied_groups in Ho. apply in_map_iff in Ho. destruct Ho as [x [<- _]]. discriminate Hc.
  - apply filter_In in Ho. exact (proj1 Ho).
Qed.

Lemma lookup_chan_written ss g c ch :
  lookup_chan (content_hierarchy (obj_seq ss)) g c = Some ch ->
  (exists o, In o (written ss) /\ named g c o = true) /\ ch = chan_by_name (written ss) g c.
Proof.
  unfold lookup_chan, content_hierarchy. cbn [h_groups].
  destruct (alookup g (map (fun g0 => (g0, content_group (obj_seq ss) g0)) (group_names (obj_seq ss))))
    as [G|] eqn:EG; [|discriminate].
  apply alookup_graph_some in EG. destruct EG as [_ ->]. unfold content_group. cbn [g_chans].
  intros Hc. apply alookup_graph_some in Hc. destruct Hc as [Hin ->]. split.
  - unfold chan_names in Hin. apply (proj1 (dedup_in _ _)) in Hin. apply in_flat_map in Hin.
    destruct Hin as [o [Ho Hn]]. exists o.
    destruct o as [ps|g' ps|g' c' dt vs ps]; cbn [chan_name_of] in Hn; try destruct Hn.
    destruct (bytes_eqb g g') eqn:E; [|destruct Hn]. destruct Hn as [<-|[]].
    split; [apply obj_seq_chan_written; [exact Ho|reflexivity]|].
    unfold named. cbn [is_kind]. rewrite E, bytes_eqb_refl. reflexivity.
  - apply content_channel_by_name.
Qed.

(* ---- the theorems of Props/C16_file.v ------------------------------------------------------------------------ *)

Definition file_tokens (ss : wsessions) : list tok := content_tokens_of_calls ss.

(* what rd_all shows of a channel's data *)
Definition data_tokens (ss : wsessions) (ch : channel) : list tok :=
  obs_cdata (content_data (obj_seq ss) ch).

Lemma file_tokens_eq ss :
  file_tokens ss =
  TZ (content_version ss) ::
  obs_hierarchy (content_hierarchy (obj_seq ss)) (data_tokens ss) ++ [TZ 0; TZ 0].
Proof. reflexivity. Qed.

Lemma own_data ss g c :
  data_tokens ss (chan_by_name (written ss) g c) =
  obs_cdata match hd_error (dtypes_by_name g c (written ss)) with
            | None => None
            | Some _ => Some (CData (values_by_name g c (written ss)))
            end.
Proof. unfold data_tokens. rewrite content_data_by_name. reflexivity. Qed.

Lemma chan_block_names D ss g c :
  chan_block D (chan_by_name (written ss) g c) =
  TB c :: TB g :: TB (components_to_path byte byte_eqb QUOTE SLASH (Some g) (Some c)) ::
  TZ (match hd_error (dtypes_by_name g c (written ss)) with Some t => t | None => -1 end) ::
  TZ (Z.of_nat (length (values_by_name g c (written ss)))) ::
  obs_props (merge_props (props_by_kind (KChan g c) (written ss)) []) ++
  D (chan_by_name (written ss) g c).
Proof. reflexivity. Qed.

Theorem names_preserved_lemma : forall sessions data index g c o,
  Writer.wf_file sessions = true ->
  sizes_below_marker sessions = true ->
  dtypes_consistent sessions = true ->
  wr_file sessions = Ok (data, index) ->
  In o (written sessions) -> named g c o = true ->
  let H := content_hierarchy (obj_seq sessions) in
  let ch := chan_by_name (written sessions) g c in
  rd_all data = Ok (file_tokens sessions, true) /\
  (exists G, alookup g (h_groups H) = Some G /\ g_name G = g /\ alookup c (g_chans G) = Some ch) /\
  ch_name ch = c /\ ch_group ch = g /\
  ch_path ch = components_to_path byte byte_eqb QUOTE SLASH (Some g) (Some c) /\
  from_string byte byte_eqb QUOTE SLASH (ch_path ch) = inr (Some g, Some c) /\
  has_block (file_tokens sessions) (chan_block (data_tokens sessions) ch).
Proof.
  intros ss data index g c o Hwf Hsz Hdt Hwr Hin Hn H ch.
  destruct (written_chan_names ss o g c Hin Hn) as [Hg Hc].
  split; [exact (write_read_lemma ss data index Hwf Hsz Hdt Hwr)|].
  assert (HG : alookup g (h_groups H) = Some (content_group (obj_seq ss) g)) by (apply group_lookup; exact Hg).
  assert (HC : alookup c (g_chans (content_group (obj_seq ss) g)) = Some ch).
  { unfold content_group. cbn [g_chans]. unfold ch. rewrite <- content_channel_by_name.
    apply (alookup_graph_in (content_channel (obj_seq ss) g)). exact Hc. }
  split; [exists (content_group (obj_seq ss) g); repeat split; assumption|].
  repeat split; [apply from_string_chan_b|].
  rewrite file_tokens_eq. apply has_block_cons, has_block_suffix.
  apply (chan_block_in_tokens _ _ g (content_group (obj_seq ss) g) c ch).
  - unfold H, content_hierarchy. cbn [h_groups]. apply in_map_iff. exists g. split; [reflexivity|exact Hg].
  - unfold content_group. cbn [g_chans]. apply in_map_iff. exists c. split; [|exact Hc].
    unfold ch. rewrite <- content_channel_by_name. reflexivity.
Qed.

Theorem group_preserved_lemma : forall sessions data index g ps,
  Writer.wf_file sessions = true ->
  sizes_below_marker sessions = true ->
  dtypes_consistent sessions = true ->
  wr_file sessions = Ok (data, index) ->
  In (WGroup g ps) (written sessions) ->
  let H := content_hierarchy (obj_seq sessions) in
  rd_all data = Ok (file_tokens sessions, true) /\
  exists G, alookup g (h_groups H) = Some G /\ g_name G = g /\
            g_props G = merge_props (props_by_kind (KGroup g) (written sessions)) [].
Proof.
  intros ss data index g ps Hwf Hsz Hdt Hwr Hin H.
  split; [exact (write_read_lemma ss data index Hwf Hsz Hdt Hwr)|].
  exists (content_group (obj_seq ss) g). split; [apply group_lookup; exact (written_group_names ss g ps Hin)|].
  split; [reflexivity|]. unfold content_group. cbn [g_props]. apply (props_at_by_kind (KGroup g)).
Qed.

Theorem names_never_alias_lemma : forall sessions data index g1 c1 o1 g2 c2 o2,
  Writer.wf_file sessions = true ->
  sizes_below_marker sessions = true ->
  dtypes_consistent sessions = true ->
  wr_file sessions = Ok (data, index) ->
  In o1 (written sessions) -> named g1 c1 o1 = true ->
  In o2 (written sessions) -> named g2 c2 o2 = true ->
  (g1, c1) <> (g2, c2) ->
  let H := content_hierarchy (obj_seq sessions) in
  let ch1 := chan_by_name (written sessions) g1 c1 in
  let ch2 := chan_by_name (written sessions) g2 c2 in
  rd_all data = Ok (file_tokens sessions, true) /\
  lookup_chan H g1 c1 = Some ch1 /\ lookup_chan H g2 c2 = Some ch2 /\
  ch_path ch1 <> ch_path ch2 /\
  has_two_blocks (file_tokens sessions)
                 (chan_block (data_tokens sessions) ch1) (chan_block (data_tokens sessions) ch2).
Proof.
  intros ss data index g1 c1 o1 g2 c2 o2 Hwf Hsz Hdt Hwr Hin1 Hn1 Hin2 Hn2 Hne H ch1 ch2.
  destruct (written_chan_names ss o1 g1 c1 Hin1 Hn1) as [Hg1 Hc1].
  destruct (written_chan_names ss o2 g2 c2 Hin2 Hn2) as [Hg2 Hc2].
  split; [exact (write_read_lemma ss data index Hwf Hsz Hdt Hwr)|].
  split; [unfold ch1; rewrite <- content_channel_by_name; apply chan_lookup; assumption|].
  split; [unfold ch2; rewrite <- content_channel_by_name; apply chan_lookup; assumption|].
  split.
  - cbn [ch1 ch2 chan_by_name ch_path]. intros E. apply chan_path_inj in E. destruct E as [-> ->].
    apply Hne. reflexivity.
  - rewrite file_tokens_eq. apply has_two_blocks_cons, has_two_blocks_suffix.
    apply (two_chan_blocks_in_tokens _ _ g1 (content_group (obj_seq ss) g1) c1 ch1
                                         g2 (content_group (obj_seq ss) g2) c2 ch2).
    + exact (proj1 (content_keys (obj_seq ss))).
    + unfold content_hierarchy. cbn [h_groups]. apply in_map_iff. exists g1. split; [reflexivity|exact Hg1].
    + unfold content_group. cbn [g_chans]. apply in_map_iff. exists c1. split; [|exact Hc1].
      unfold ch1. rewrite <- content_channel_by_name. reflexivity.
    + unfold content_hierarchy. cbn [h_groups]. apply in_map_iff. exists g2. split; [reflexivity|exact Hg2].
    + unfold content_group. cbn [g_chans]. apply in_map_iff. exists c2. split; [|exact Hc2].
      unfold ch2. rewrite <- content_channel_by_name. reflexivity.
    + exact Hne.
Qed.

(* every channel of the observation, and only written names are found *)
Theorem reported_names_lemma : forall sessions data index,
  Writer.wf_file sessions = true ->
  sizes_below_marker sessions = true ->
  dtypes_consistent sessions = true ->
  wr_file sessions = Ok (data, index) ->
  let H := content_hierarchy (obj_seq sessions) in
  rd_all data = Ok (file_tokens sessions, true) /\
  well_keyed H /\
  forall g c ch, lookup_chan H g c = Some ch ->
    (exists o, In o (written sessions) /\ named g c o = true) /\
    ch = chan_by_name (written sessions) g c.
Proof.
  intros ss data index Hwf Hsz Hdt Hwr H.
  split; [exact (write_read_lemma ss data index Hwf Hsz Hdt Hwr)|].
  split; [apply content_keys|]. intros g c ch. apply lookup_chan_written.
Qed.
