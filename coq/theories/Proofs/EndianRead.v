(* C15, composed: the byte order of a segment does not change what is read from
   the FILE.

   [reorder es segs chunkss] is the file syntax [segs] with segment i's byte
   order set to [es[i]]:
     - the ToC mask gets / loses its big-endian bit (64), nothing else;
     - the metadata block is the same list of entries: Model/FileSyn.v keeps
       paths, raw-index fields and property values ABSTRACT (Z fields, canonical
       little-endian value bytes) and [ser_seg] encodes them with the byte order
       the ToC mask selects, so the serialised metadata bytes change with the
       bit while the syntax does not;
     - the raw data block is re-encoded FROM THE CHUNK VALUES [chunkss] (not from
       the old bytes) under the new byte order: [enc_chunks] for a contiguous
       segment, [enc_rows] for an interleaved one, empty when the segment has no
       data object ([reenc]).  The object list and layout of the segment are the
       ones the metadata pass computes ([sm_run segs false]).

   Results (statements in Props/C15_read.v):
     sm_run_reorder      the metadata pass on the reordered syntax succeeds with
                         a state that differs from the original one ONLY in the
                         big-endian bit of the segments' ToC masks (same
                         positions, object lists, indexes, chunk counts, per
                         object metadata rs_om, cache, version); errors are
                         preserved too ([sm_run_sim])
     reorder_encodes     the reordered raw data blocks encode the same chunkss
     endian_transparent  rd_all (ser_file (reorder es segs chunkss))
                         = rd_all (ser_file segs)        for ANY es (any mixture)
     endian_transparent_lazy   the same for every lazy window (lz_read_bytes) and
                         the chunks it fetches (lz_plan_bytes)

   Canonical form.  In the token list [rd_all] returns, a value is [TB v] where
   v is the value's canonical LITTLE-ENDIAN byte string of the type's size
   (complex: both components little-endian; timestamps: 16 bytes, fractions
   first; strings: their bytes) whatever the byte order it was stored in: the
   decoders apply [canon_value e dt] to the stored bytes, the harness converts
   the implementation's arrays to little-endian bytes the same way.  Property
   values are shown by [obs_prop_value] from the canonical bytes.  So equality of
   the two token lists is equality of the VALUES read, not of the stored bytes:
   the stored bytes differ (Props/C15_read.v shows it on instances). *)
From Coq Require Import List ZArith Bool Lia ZifyBool.
From Coq Require Import Init.Byte.
Import ListNotations.
From NpTdms Require Import Base.Bytes Base.Res Model.Tokens Model.TokensWf Model.SegState
     Model.Layout Model.Reader Model.FileSyn Proofs.TokensRoundtrip Proofs.SegStateProofs
     Proofs.LayoutProofs Proofs.FileSynProofs Proofs.SegStateInherit Proofs.ReadCorrect.
Local Open Scope Z_scope.
Ltac Zify.zify_post_hook ::= Z.to_euclidean_division_equations.

(* ---- E1: the big-endian bit of the ToC mask ---------------------------------- *)

Definition toc_set_endian (e : endian) (toc : Z) : Z :=
  match e with
  | BE => Z.lor toc TOC_BIGENDIAN
  | LE => Z.ldiff toc TOC_BIGENDIAN
  end.

Lemma land_pow2 toc k :
  0 <= k -> Z.land toc (2 ^ k) = if Z.testbit toc k then 2 ^ k else 0.
Proof.
  intros Hk. apply Z.bits_inj'. intros n Hn.
  rewrite Z.land_spec, Z.pow2_bits_eqb by exact Hk.
  destruct (Z.testbit toc k) eqn:Eb.
  - rewrite Z.pow2_bits_eqb by exact Hk.
    destruct (Z.eqb_spec k n) as [->|Hne].
    + rewrite Eb. reflexivity.
    + apply andb_false_r.
  - rewrite Z.bits_0. destruct (Z.eqb_spec k n) as [->|Hne].
    + rewrite Eb. reflexivity.
    + apply andb_false_r.
Qed.

Lemma toc_has_testbit toc k : 0 <= k -> toc_has toc (2 ^ k) = Z.testbit toc k.
Proof.
  intros Hk. unfold toc_has. rewrite (land_pow2 toc k Hk).
  pose proof (Z.pow_pos_nonneg 2 k ltac:(lia) Hk) as Hp.
  destruct (Z.testbit toc k); cbn [negb].
  - destruct (Z.eqb_spec (2 ^ k) 0); [lia|reflexivity].
  - reflexivity.
Qed.

Lemma toc_set_endian_testbit e toc k :
  0 <= k -> k <> 6 -> Z.testbit (toc_set_endian e toc) k = Z.testbit toc k.
Proof.
  intros Hk Hne. unfold toc_set_endian, TOC_BIGENDIAN. change 64 with (2 ^ 6).
  destruct e.
  - rewrite Z.ldiff_spec, Z.pow2_bits_eqb by lia.
    destruct (Z.eqb_spec 6 k); [lia|]. cbn [negb]. apply andb_true_r.
  - rewrite Z.lor_spec, Z.pow2_bits_eqb by lia.
    destruct (Z.eqb_spec 6 k); [lia|]. apply orb_false_r.
Qed.

Lemma toc_set_endian_bit6 e toc :
  Z.testbit (toc_set_endian e toc) 6 = match e with BE => true | LE => false end.
Proof.
  unfold toc_set_endian, TOC_BIGENDIAN. change 64 with (2 ^ 6).
  destruct e.
  - rewrite Z.ldiff_spec, Z.pow2_bits_eqb by lia. cbn. apply andb_false_r.
  - rewrite Z.lor_spec, Z.pow2_bits_eqb by lia. cbn. apply orb_true_r.
Qed.

(* the new mask selects the requested byte order ... *)
Lemma toc_endian_set e toc : toc_endian (toc_set_endian e toc) = e.
Proof.
  unfold toc_endian, TOC_BIGENDIAN. change 64 with (2 ^ 6).
  rewrite toc_has_testbit by lia. rewrite toc_set_endian_bit6. destruct e; reflexivity.
Qed.

(* ... and every other flag is untouched *)
Lemma toc_has_set_endian e toc k :
  0 <= k -> k <> 6 -> toc_has (toc_set_endian e toc) (2 ^ k) = toc_has toc (2 ^ k).
Proof.
  intros Hk Hne. rewrite !toc_has_testbit by exact Hk. apply toc_set_endian_testbit; assumption.
Qed.

(* setting the byte order the mask already has changes nothing *)
Lemma toc_set_endian_same toc : toc_set_endian (toc_endian toc) toc = toc.
Proof.
  apply Z.bits_inj'. intros n Hn.
  destruct (Z.eq_dec n 6) as [->|Hne].
  - rewrite toc_set_endian_bit6. unfold toc_endian, TOC_BIGENDIAN. change 64 with (2 ^ 6).
    rewrite toc_has_testbit by lia. destruct (Z.testbit toc 6); reflexivity.
  - apply toc_set_endian_testbit; assumption.
Qed.

Lemma bits_above_small x n m : 0 <= x < 2 ^ n -> n <= m -> Z.testbit x m = false.
Proof.
  intros Hx Hm. destruct (Z.eq_dec x 0) as [->|Hne]; [apply Z.testbit_0_l|].
  apply Z.bits_above_log2; [lia|].
  assert (Z.log2 x < n) by (apply Z.log2_lt_pow2; lia). lia.
Qed.

Lemma small_of_bits x n :
  0 <= n -> 0 <= x -> (forall m, n <= m -> Z.testbit x m = false) -> x < 2 ^ n.
Proof.
  intros Hn Hx Hbits. destruct (Z.eq_dec x 0) as [->|Hne].
  - apply Z.pow_pos_nonneg; lia.
  - apply Z.log2_lt_pow2; [lia|].
    destruct (Z_lt_le_dec (Z.log2 x) n) as [Hlt|Hge]; [exact Hlt|].
    pose proof (Z.bit_log2 x ltac:(lia)) as Hb. rewrite (Hbits _ Hge) in Hb. discriminate.
Qed.

Lemma toc_set_endian_u32 e toc : is_u32 toc = true -> is_u32 (toc_set_endian e toc) = true.
Proof.
  intros H. apply is_u32_spec in H. apply is_u32_spec.
  change 4294967296 with (2 ^ 32) in *.
  assert (H0 : 0 <= toc_set_endian e toc).
  { unfold toc_set_endian, TOC_BIGENDIAN. destruct e.
    - apply Z.ldiff_nonneg. left. lia.
    - apply Z.lor_nonneg. lia. }
  split; [exact H0|]. apply small_of_bits; [lia|exact H0|].
  intros m Hm. rewrite toc_set_endian_testbit by lia. apply (bits_above_small toc 32); lia.
Qed.

(* two masks that agree on the three flags the metadata pass looks at *)
Definition toc_sim (t t' : Z) : Prop :=
  toc_has t' TOC_META = toc_has t TOC_META /\
  toc_has t' TOC_NEWLIST = toc_has t TOC_NEWLIST /\
  toc_has t' TOC_INTERLEAVED = toc_has t TOC_INTERLEAVED.

Lemma toc_sim_refl t : toc_sim t t.
Proof. repeat split. Qed.

Lemma toc_sim_set_endian e t : toc_sim t (toc_set_endian e t).
Proof.
  unfold toc_sim, TOC_META, TOC_NEWLIST, TOC_INTERLEAVED.
  change 2 with (2 ^ 1). change 4 with (2 ^ 2). change 32 with (2 ^ 5).
  rewrite !toc_has_set_endian by lia. repeat split.
Qed.

Lemma toc_sim_trans a b c : toc_sim a b -> toc_sim b c -> toc_sim a c.
Proof. unfold toc_sim. intros (H1 & H2 & H3) (H4 & H5 & H6). repeat split; congruence. Qed.

Lemma toc_sim_sym a b : toc_sim a b -> toc_sim b a.
Proof. unfold toc_sim. intros (H1 & H2 & H3). repeat split; congruence. Qed.

(* ---- E2: the length of a serialised metadata block does not depend on the
        byte order ------------------------------------------------------------- *)

Lemma flat_map_length_ext {A} (f g : A -> bytes) (l : list A) :
  (forall x, length (f x) = length (g x)) -> length (flat_map f l) = length (flat_map g l).
Proof.
  intros H. induction l as [|x l IH]; [reflexivity|].
  cbn [flat_map]. rewrite !app_length, IH, (H x). reflexivity.
Qed.

Lemma put_string_length_any e e' s : length (put_string e s) = length (put_string e' s).
Proof. rewrite !put_string_length. reflexivity. Qed.

Lemma put_u32_length_any e e' z : length (put_u32 e z) = length (put_u32 e' z).
Proof. rewrite !put_u32_length. reflexivity. Qed.

Lemma put_u64_length_any e e' z : length (put_u64 e z) = length (put_u64 e' z).
Proof. rewrite !put_u64_length. reflexivity. Qed.

Lemma ser_prop_length_any e e' p : length (ser_prop e p) = length (ser_prop e' p).
Proof.
  unfold ser_prop, ser_prop_value. rewrite !app_length.
  rewrite (put_string_length_any e e'), (put_u32_length_any e e').
  destruct (p_type p =? T_STRING).
  - rewrite (put_string_length_any e e'). reflexivity.
  - unfold store_value. rewrite !canon_value_length. reflexivity.
Qed.

Lemma ser_scaler_length_any e e' k s : length (ser_scaler e k s) = length (ser_scaler e' k s).
Proof.
  unfold ser_scaler. rewrite !app_length.
  rewrite !(put_u32_length_any e e').
  destruct (k =? DIGITAL_LINE_SCALER); [reflexivity|].
  rewrite (put_u32_length_any e e'). reflexivity.
Qed.

Lemma ser_idx_length_any e e' i : length (ser_idx e i) = length (ser_idx e' i).
Proof.
  destruct i as [| |lf dt dim n total|kind dt dim n scalers widths]; cbn [ser_idx].
  - apply put_u32_length_any.
  - apply put_u32_length_any.
  - rewrite !app_length, !(put_u32_length_any e e'), (put_u64_length_any e e').
    destruct total; [rewrite (put_u64_length_any e e')|]; reflexivity.
  - rewrite !app_length, !(put_u32_length_any e e'), (put_u64_length_any e e').
    rewrite (flat_map_length_ext (ser_scaler e kind) (ser_scaler e' kind))
      by (intros x; apply ser_scaler_length_any).
    rewrite (flat_map_length_ext (put_u32 e) (put_u32 e'))
      by (intros x; apply put_u32_length_any).
    reflexivity.
Qed.

Lemma ser_entry_length_any e e' x : length (ser_entry e x) = length (ser_entry e' x).
Proof.
  unfold ser_entry. rewrite !app_length.
  rewrite (put_string_length_any e e'), (ser_idx_length_any e e'), (put_u32_length_any e e').
  rewrite (flat_map_length_ext (ser_prop e) (ser_prop e')) by (intros p; apply ser_prop_length_any).
  reflexivity.
Qed.

Theorem ser_metadata_blen_any e e' es : blen (ser_metadata e es) = blen (ser_metadata e' es).
Proof.
  unfold blen, ser_metadata. rewrite !app_length, (put_u32_length_any e e').
  rewrite (flat_map_length_ext (ser_entry e) (ser_entry e')) by (intros x; apply ser_entry_length_any).
  reflexivity.
Qed.

(* ---- E3: simulation of the metadata pass -------------------------------------- *)

(* two syntax segments with the same content: version, metadata entries and the
   LENGTH of the raw data block agree, the masks agree on the flags the pass uses *)
Definition fseg_sim (s s' : fseg) : Prop :=
  toc_sim (fs_toc s) (fs_toc s') /\
  fs_version s' = fs_version s /\
  fs_meta s' = fs_meta s /\
  blen (fs_data s') = blen (fs_data s).

Lemma fseg_sim_refl s : fseg_sim s s.
Proof. repeat split. Qed.

Lemma fseg_sim_meta_blen s s' : fseg_sim s s' -> blen (fs_meta_bytes s') = blen (fs_meta_bytes s).
Proof.
  intros (_ & _ & Hm & _). unfold fs_meta_bytes. rewrite Hm.
  destruct (fs_meta s); [apply ser_metadata_blen_any|reflexivity].
Qed.

(* segment records that differ at most in flags of the mask the pass does not
   use (and, when [ix = false], in the object index built for open mode) *)
Definition seg_sim (ix : bool) (g g' : segment) : Prop :=
  toc_sim (sg_toc g) (sg_toc g') /\
  sg_pos g' = sg_pos g /\ sg_next g' = sg_next g /\ sg_data g' = sg_data g /\
  sg_incomplete g' = sg_incomplete g /\ sg_objs g' = sg_objs g /\
  sg_nchunks g' = sg_nchunks g /\ sg_final g' = sg_final g /\
  (ix = true -> sg_index g' = sg_index g).

Definition st_sim (ix : bool) (st st' : rstate) : Prop :=
  Forall2 (seg_sim ix) (rs_segments st) (rs_segments st') /\
  rs_prev_objs st' = rs_prev_objs st /\
  rs_om st' = rs_om st /\
  rs_version st' = rs_version st /\
  (ix = true -> rs_cache st' = rs_cache st).

Definition res_sim (ix : bool) (r r' : res rstate) : Prop :=
  match r, r' with
  | Ok st, Ok st' => st_sim ix st st'
  | Err e, Err e' => e = e'
  | _, _ => False
  end.

Lemma read_segment_objects_toc t t' md prev ps :
  toc_sim t t' -> read_segment_objects t' md prev ps = read_segment_objects t md prev ps.
Proof.
  intros (_ & Hn & _). unfold read_segment_objects. destruct md; [|reflexivity].
  rewrite Hn. reflexivity.
Qed.

Lemma calculate_chunks_toc t t' inc objs total :
  toc_sim t t' -> calculate_chunks t' inc objs total = calculate_chunks t inc objs total.
Proof.
  intros (_ & _ & Hi). unfold calculate_chunks, final_chunk_lengths. rewrite Hi. reflexivity.
Qed.

Lemma seg_step_sim ix s s' w w' pos ps pi pi' st st' k k' :
  fseg_sim s s' -> st_sim ix st st' ->
  (ix = true -> w' = w /\ pi' = pi) ->
  (forall o i i' st1 st1', (ix = true -> i' = i) -> st_sim ix st1 st1' ->
                           res_sim ix (k o i st1) (k' o i' st1')) ->
  res_sim ix (seg_step s w pos ps pi st k) (seg_step s' w' pos ps pi' st' k').
Proof.
  intros Hs Hst Hix Hk.
  pose proof (fseg_sim_meta_blen s s' Hs) as Hmb.
  destruct Hs as (Htoc & Hver & Hmeta & Hdata).
  destruct Hst as (Hsegs & Hpo & Hom & Hv & Hcache).
  unfold seg_step. cbv zeta. cbn [rs_segments rs_prev_objs rs_om rs_cache rs_version].
  rewrite Hpo, Hom, Hv, Hver, Hmeta, Hmb, Hdata.
  rewrite (read_segment_objects_toc _ _ _ _ _ Htoc).
  destruct (read_segment_objects (fs_toc s) (fs_meta s) (rs_prev_objs st) ps) as [[objs props]|e];
    cbn [bind res_sim]; [|reflexivity].
  rewrite (calculate_chunks_toc _ _ _ _ _ Htoc).
  set (tot := pos + 28 + blen (fs_meta_bytes s) + blen (fs_data s) - (pos + 28 + blen (fs_meta_bytes s))).
  destruct (match fs_meta s with
            | Some _ => if w then get_index (rs_cache st) objs else ([], rs_cache st)
            | None => (pi, rs_cache st)
            end) as [idx cache] eqn:E1.
  destruct (match fs_meta s with
            | Some _ => if w' then get_index (rs_cache st') objs else ([], rs_cache st')
            | None => (pi', rs_cache st')
            end) as [idx' cache'] eqn:E2.
  assert (Hic : ix = true -> idx' = idx /\ cache' = cache).
  { intros Hi. destruct (Hix Hi) as [-> ->]. rewrite (Hcache Hi) in E2.
    rewrite E1 in E2. injection E2 as <- <-. split; reflexivity. }
  destruct (calculate_chunks (fs_toc s) false objs tot) as [[nch fin]|e]; cbn [bind res_sim]; [|reflexivity].
  destruct (update_object_metadata objs nch fin (rs_prev_objs st) (rs_om st)) as [[po om]|e];
    cbn [bind res_sim]; [|reflexivity].
  apply Hk.
  - intros Hi. apply (Hic Hi).
  - unfold st_sim. cbn [rs_segments rs_prev_objs rs_om rs_cache rs_version].
    split; [|split; [reflexivity|split; [reflexivity|split; [reflexivity|]]]].
    + apply Forall2_app; [exact Hsegs|]. constructor; [|constructor].
      unfold seg_sim. cbn [sg_toc sg_pos sg_next sg_data sg_incomplete sg_objs sg_nchunks sg_final sg_index].
      split; [exact Htoc|]. repeat (split; [reflexivity|]). intros Hi. apply (Hic Hi).
    + intros Hi. apply (Hic Hi).
Qed.

Lemma sm_loop_sim ix : forall segs segs', Forall2 fseg_sim segs segs' ->
  forall w w' pos ps pi pi' st st',
    st_sim ix st st' -> (ix = true -> w' = w /\ pi' = pi) ->
    res_sim ix (sm_loop segs w pos ps pi st) (sm_loop segs' w' pos ps pi' st').
Proof.
  induction 1 as [|s s' segs segs' Hs _ IH]; intros w w' pos ps pi pi' st st' Hst Hix.
  - rewrite !sm_loop_nil. exact Hst.
  - rewrite !sm_loop_cons.
    rewrite (fseg_sim_meta_blen s s' Hs).
    replace (blen (fs_data s')) with (blen (fs_data s)) by (symmetry; apply Hs).
    apply seg_step_sim; [exact Hs|exact Hst|exact Hix|].
    intros o i i' st1 st1' Hi Hst1. apply IH; [exact Hst1|].
    intros Hx. split; [apply (Hix Hx)|apply (Hi Hx)].
Qed.

Lemma st_sim_refl ix st : st_sim ix st st.
Proof.
  unfold st_sim. split; [|repeat split].
  induction (rs_segments st) as [|g gs IH]; constructor; [|exact IH].
  unfold seg_sim. split; [apply toc_sim_refl|]. repeat split.
Qed.

(* The metadata pass on two files with the same content (up to unused mask bits
   and raw data bytes of the same length) gives the same result, errors included. *)
Theorem sm_run_sim segs segs' w :
  Forall2 fseg_sim segs segs' -> res_sim true (sm_run segs w) (sm_run segs' w).
Proof.
  intros H. unfold sm_run. apply sm_loop_sim; [exact H|apply st_sim_refl|].
  intros _. split; reflexivity.
Qed.

(* the same file read with and without segment indexes (TdmsFile.open / read) *)
Theorem sm_run_index_sim segs w w' : res_sim false (sm_run segs w) (sm_run segs w').
Proof.
  unfold sm_run. apply sm_loop_sim.
  - induction segs; constructor; [apply fseg_sim_refl|assumption].
  - apply st_sim_refl.
  - discriminate.
Qed.

(* ---- E4: re-encoding a raw data block from its chunk values --------------------- *)

(* the values chunk [c] holds for object [o] *)
Definition vals_in (c : chunk) (o : sobj) : list bytes :=
  match alookup (so_path o) c with
  | Some (CData vs) => vs
  | _ => []
  end.

(* contiguous: per chunk, per data object, its values *)
Definition css_of (dobjs : list sobj) (chunks : list chunk) : list (list (list bytes)) :=
  map (fun c => map (vals_in c) dobjs) chunks.

(* interleaved: the single chunk holds the columns; rows are their transpose *)
Fixpoint zip_cons (col : list bytes) (rows : list (list bytes)) : list (list bytes) :=
  match col, rows with
  | v :: col', r :: rows' => (v :: r) :: zip_cons col' rows'
  | _, _ => []
  end.

Fixpoint transpose (nrows : nat) (cols : list (list bytes)) : list (list bytes) :=
  match cols with
  | [] => repeat [] nrows
  | col :: r => zip_cons col (transpose nrows r)
  end.

Definition rows_of (dobjs : list sobj) (c : chunk) : list (list bytes) :=
  let cols := map (vals_in c) dobjs in
  transpose (length (hd [] cols)) cols.

(* The raw data block of segment [g] holding [chunks], written in byte order [e]. *)
Definition reenc (e : endian) (g : segment) (chunks : list chunk) : bytes :=
  let dobjs := data_objs (sg_objs g) in
  match seg_layout g with
  | Ok LInterleaved =>
    match chunks with
    | [c] => enc_rows e dobjs (rows_of dobjs c)
    | _ => []
    end
  | _ => enc_chunks e dobjs (css_of dobjs chunks)
  end.

Lemma map_snd_combine {A B} (a : list A) (b : list B) :
  length a = length b -> map snd (combine a b) = b.
Proof.
  revert b. induction a as [|x a IH]; intros [|y b] H; cbn in *; try reflexivity; try discriminate.
  f_equal. apply IH. lia.
Qed.

Lemma vals_in_chunk_of ovs :
  NoDup (map (fun ov => so_path (fst ov)) ovs) ->
  map (vals_in (chunk_of ovs)) (map fst ovs) = map snd ovs.
Proof.
  intros Hnd. rewrite map_map. apply map_ext_in. intros [o vs] Hin. cbn [fst snd].
  unfold vals_in. rewrite (chunk_of_lookup ovs o vs Hnd Hin). reflexivity.
Qed.

Lemma vals_in_combine dobjs vss :
  NoDup (map so_path dobjs) -> length dobjs = length vss ->
  map (vals_in (chunk_of (combine dobjs vss))) dobjs = vss.
Proof.
  intros Hnd Hlen.
  rewrite <- (map_fst_combine dobjs vss Hlen) at 2.
  rewrite vals_in_chunk_of.
  - apply map_snd_combine. exact Hlen.
  - rewrite <- (map_map fst so_path), map_fst_combine by exact Hlen. exact Hnd.
Qed.

Lemma css_of_chunks dobjs css :
  NoDup (map so_path dobjs) ->
  Forall (fun vss => length dobjs = length vss) css ->
  css_of dobjs (map (fun vss => chunk_of (combine dobjs vss)) css) = css.
Proof.
  intros Hnd Hlen. unfold css_of. rewrite map_map.
  rewrite <- (map_id css) at 2. apply map_ext_in. intros vss Hin.
  rewrite Forall_forall in Hlen. apply vals_in_combine; [exact Hnd|apply Hlen; exact Hin].
Qed.

(* the columns of a row matrix, one per object *)
Fixpoint columns (objs : list sobj) (rows : list (list bytes)) : list (list bytes) :=
  match objs with
  | [] => []
  | _ :: r => map (hd []) rows :: columns r (map (@tl bytes) rows)
  end.

Lemma columns_length objs : forall rows, length (columns objs rows) = length objs.
Proof. induction objs as [|o objs IH]; intros rows; cbn [columns length]; [reflexivity|]. rewrite IH. reflexivity. Qed.

Lemma cols_of_chunk_of objs : forall rows,
    cols_of objs rows = chunk_of (combine objs (columns objs rows)).
Proof.
  induction objs as [|o objs IH]; intros rows; [reflexivity|].
  cbn [cols_of columns combine chunk_of map fst snd]. rewrite IH. reflexivity.
Qed.

Lemma zip_cons_hd_tl (rows : list (list bytes)) :
  Forall (fun row => row <> []) rows ->
  zip_cons (map (hd []) rows) (map (@tl bytes) rows) = rows.
Proof.
  induction 1 as [|row rows Hne _ IH]; [reflexivity|].
  cbn [map zip_cons]. rewrite IH. destruct row as [|v r]; [contradiction|reflexivity].
Qed.

Lemma transpose_columns objs : forall rows,
    Forall (fun row => length row = length objs) rows ->
    transpose (length rows) (columns objs rows) = rows.
Proof.
  induction objs as [|o objs IH]; intros rows Hrows.
  - cbn [columns transpose]. induction Hrows as [|row rows Hr _ IHr]; [reflexivity|].
    cbn [length repeat]. rewrite IHr. destruct row; [reflexivity|discriminate].
  - cbn [columns transpose].
    rewrite <- (map_length (@tl bytes) rows), IH.
    + apply zip_cons_hd_tl. eapply Forall_impl; [|exact Hrows].
      intros row Hr Hnil. subst row. discriminate.
    + apply Forall_map. eapply Forall_impl; [|exact Hrows].
      intros row Hr. destruct row; [discriminate|]. cbn [tl length] in *. lia.
Qed.

Lemma row_ok_length objs row : row_ok objs row -> length row = length objs.
Proof. unfold row_ok. induction 1; cbn [length]; congruence. Qed.

Lemma rows_of_cols_of dobjs rows :
  dobjs <> [] -> NoDup (map so_path dobjs) -> Forall (row_ok dobjs) rows ->
  rows_of dobjs (cols_of dobjs rows) = rows.
Proof.
  intros Hne Hnd Hrows. unfold rows_of.
  rewrite cols_of_chunk_of, vals_in_combine by (try exact Hnd; symmetry; apply columns_length).
  replace (length (hd [] (columns dobjs rows))) with (length rows).
  - apply transpose_columns. eapply Forall_impl; [|exact Hrows]. intros row. apply row_ok_length.
  - destruct dobjs as [|o r]; [contradiction|]. cbn [columns hd]. rewrite map_length. reflexivity.
Qed.

(* seg_layout looks at the interleaved flag and the object list only *)
Lemma seg_layout_sim ix g g' : seg_sim ix g g' -> seg_layout g' = seg_layout g.
Proof.
  intros ((_ & _ & Hi) & _ & _ & _ & _ & Hobjs & _). unfold seg_layout, have_interleaved.
  rewrite Hobjs, Hi. reflexivity.
Qed.

Lemma dsize_ok_any e e' n o vs : vals_ok n o vs -> dsize_ok e o vs -> dsize_ok e' o vs.
Proof.
  unfold dsize_ok. intros Hv Hd. rewrite Hd.
  rewrite (enc_obj_blen e n o vs Hv), (enc_obj_blen e' n o vs Hv). reflexivity.
Qed.

Lemma Forall2_length_eq {A B} (P : A -> B -> Prop) a b : Forall2 P a b -> length a = length b.
Proof. induction 1; cbn [length]; congruence. Qed.

Lemma dsize_ok_chunks e e' dobjs css :
  Forall (fun vss => Forall2 (fun o vs => vals_ok (so_nvals o) o vs) dobjs vss) css ->
  Forall (Forall2 (dsize_ok e) dobjs) css ->
  Forall (Forall2 (dsize_ok e') dobjs) css.
Proof.
  intros Hok Hds. rewrite Forall_forall in *. intros vss Hin.
  specialize (Hok vss Hin). specialize (Hds vss Hin).
  clear Hin. revert Hds. induction Hok as [|o vs objs vss' Hv _ IH]; intros Hds.
  - constructor.
  - inversion Hds as [|x y l l' Hd Hds']; subst. constructor.
    + apply (dsize_ok_any e e' _ o vs Hv Hd).
    + apply IH. exact Hds'.
Qed.

(* The re-encoded block encodes the same chunks for the segment record of the
   reordered file, and has the same length as the original block. *)
Theorem seg_encodes_reenc ix g g' data chunks :
  seg_sim ix g g' ->
  seg_encodes g data chunks ->
  seg_encodes g' (reenc (toc_endian (sg_toc g')) g chunks) chunks /\
  blen (reenc (toc_endian (sg_toc g')) g chunks) = blen data.
Proof.
  intros Hsim Henc.
  pose proof (seg_layout_sim ix g g' Hsim) as Hlay'.
  assert (Hobjs : sg_objs g' = sg_objs g) by apply Hsim.
  set (e' := toc_endian (sg_toc g')).
  destruct Henc as [Hd Hdata | css Hlay Hpos Hnd Hok Hds Hdata
                    | nv m rows Hlay Hne Hnv Hm Hobs Hsz Hnd Hrows Hlen Hdata].
  - assert (Hre : reenc e' g [] = []).
    { unfold reenc. rewrite Hd. destruct (seg_layout g) as [[| |]|]; reflexivity. }
    rewrite Hre. subst data. split; [|reflexivity].
    apply se_empty; [rewrite Hobjs; exact Hd|reflexivity].
  - assert (Hre : reenc e' g (map (fun vss => chunk_of (combine (data_objs (sg_objs g)) vss)) css)
                  = enc_chunks e' (data_objs (sg_objs g)) css).
    { unfold reenc. rewrite Hlay. rewrite css_of_chunks; [reflexivity|exact Hnd|].
      eapply Forall_impl; [|exact Hok]. intros vss H. apply (Forall2_length_eq _ _ _ H). }
    rewrite Hre.
    pose proof (dsize_ok_chunks _ e' _ _ Hok Hds) as Hds'.
    split.
    + rewrite <- Hobjs. rewrite <- Hobjs in Hpos, Hnd, Hok, Hds'.
      apply se_contig; try assumption; [rewrite Hlay'; exact Hlay|reflexivity].
    + subst data. rewrite (enc_chunks_blen _ _ _ Hds), (enc_chunks_blen _ _ _ Hds'). reflexivity.
  - assert (Hre : reenc e' g [cols_of (data_objs (sg_objs g)) rows]
                  = enc_rows e' (data_objs (sg_objs g)) rows).
    { unfold reenc. rewrite Hlay. rewrite rows_of_cols_of by assumption. reflexivity. }
    rewrite Hre. split.
    + rewrite <- Hobjs. rewrite <- Hobjs in Hne, Hobs, Hsz, Hnd, Hrows.
      apply (se_interleaved g' _ nv m rows); try assumption; [rewrite Hlay'; exact Hlay|reflexivity].
    + subst data. rewrite !(enc_rows_blen _ _ _ Hrows). reflexivity.
Qed.

(* seg_encodes only looks at the mask and the object list of the record *)
Lemma seg_encodes_ext g g' data chunks :
  sg_toc g' = sg_toc g -> sg_objs g' = sg_objs g ->
  seg_encodes g data chunks -> seg_encodes g' data chunks.
Proof.
  intros Htoc Hobjs Henc.
  assert (Hlay : seg_layout g' = seg_layout g).
  { unfold seg_layout. rewrite Htoc, Hobjs. reflexivity. }
  destruct Henc as [Hd Hdata | css Hl Hpos Hnd Hok Hds Hdata
                    | nv m rows Hl Hne Hnv Hm Hobs Hsz Hnd Hrows Hlen Hdata].
  - apply se_empty; [rewrite Hobjs; exact Hd|exact Hdata].
  - rewrite <- Hobjs. rewrite <- Hobjs, <- Htoc in *.
    apply se_contig; try assumption. rewrite Hlay. exact Hl.
  - rewrite <- Hobjs. rewrite <- Hobjs, <- Htoc in *.
    apply (se_interleaved g' _ nv m rows); try assumption. rewrite Hlay. exact Hl.
Qed.

(* re-encoding in the byte order the block already has gives the block back *)
Lemma reenc_same g data chunks :
  seg_encodes g data chunks -> reenc (toc_endian (sg_toc g)) g chunks = data.
Proof.
  intros Henc.
  destruct Henc as [Hd Hdata | css Hlay Hpos Hnd Hok Hds Hdata
                    | nv m rows Hlay Hne Hnv Hm Hobs Hsz Hnd Hrows Hlen Hdata].
  - subst data. unfold reenc. rewrite Hd. destruct (seg_layout g) as [[| |]|]; reflexivity.
  - subst data. unfold reenc. rewrite Hlay. rewrite css_of_chunks; [reflexivity|exact Hnd|].
    eapply Forall_impl; [|exact Hok]. intros vss H. apply (Forall2_length_eq _ _ _ H).
  - subst data. unfold reenc. rewrite Hlay. rewrite rows_of_cols_of by assumption. reflexivity.
Qed.

(* ---- E5: the reordered file ---------------------------------------------------- *)

Definition reorder_seg (e : endian) (g : segment) (s : fseg) (cs : list chunk) : fseg :=
  mkFseg (toc_set_endian e (fs_toc s)) (fs_version s) (fs_meta s) (reenc e g cs).

(* [gs]: the segment records of the metadata pass (object list and layout of
   every segment); all four lists have the same length in the theorems *)
Fixpoint reorder_with (gs : list segment) (es : list endian) (segs : list fseg)
         (chunkss : list (list chunk)) : list fseg :=
  match gs, es, segs, chunkss with
  | g :: gs', e :: es', s :: segs', cs :: chunkss' =>
    reorder_seg e g s cs :: reorder_with gs' es' segs' chunkss'
  | _, _, _, _ => []
  end.

(* The theorems assume [sm_run segs false = Ok st]; on a syntax the metadata pass
   rejects there are no object lists to encode for, and [reorder] is the identity. *)
Definition reorder (es : list endian) (segs : list fseg) (chunkss : list (list chunk)) : list fseg :=
  match sm_run segs false with
  | Ok st => reorder_with (rs_segments st) es segs chunkss
  | Err _ => segs
  end.

Definition seg_with_toc (t : Z) (g : segment) : segment :=
  mkSeg (sg_pos g) t (sg_next g) (sg_data g) (sg_incomplete g) (sg_objs g) (sg_index g)
        (sg_nchunks g) (sg_final g).

Lemma seg_sim_with_toc e g : seg_sim true g (seg_with_toc (toc_set_endian e (sg_toc g)) g).
Proof.
  unfold seg_sim, seg_with_toc.
  cbn [sg_toc sg_pos sg_next sg_data sg_incomplete sg_objs sg_nchunks sg_final sg_index].
  split; [apply toc_sim_set_endian|]. repeat split.
Qed.

Lemma reenc_blen e g data chunks :
  seg_encodes g data chunks -> blen (reenc e g chunks) = blen data.
Proof.
  intros Henc.
  destruct (seg_encodes_reenc true g _ data chunks (seg_sim_with_toc e g) Henc) as [_ H].
  cbn [seg_with_toc sg_toc] in H. rewrite toc_endian_set in H. exact H.
Qed.

Lemma reorder_seg_sim e g s cs :
  seg_encodes g (fs_data s) cs -> fseg_sim s (reorder_seg e g s cs).
Proof.
  intros Henc. unfold fseg_sim, reorder_seg. cbn [fs_toc fs_version fs_meta fs_data].
  split; [apply toc_sim_set_endian|]. split; [reflexivity|]. split; [reflexivity|].
  apply reenc_blen. exact Henc.
Qed.

Lemma reorder_with_sim : forall gs segs chunkss,
    segs_encode gs segs chunkss ->
    forall es, length es = length segs ->
               Forall2 fseg_sim segs (reorder_with gs es segs chunkss).
Proof.
  induction 1 as [|g gs s r cs css Hcs _ IH]; intros es Hlen.
  - destruct es; [constructor|discriminate].
  - destruct es as [|e es]; [discriminate|]. cbn [length] in Hlen.
    cbn [reorder_with]. constructor; [apply reorder_seg_sim; exact Hcs|].
    apply IH. lia.
Qed.

Lemma wf_fseg_sim s s' :
  wf_fseg s = true -> fseg_sim s s' -> is_u32 (fs_toc s') = true -> wf_fseg s' = true.
Proof.
  intros Hwf Hsim Hu.
  pose proof (fseg_sim_meta_blen s s' Hsim) as Hmb.
  destruct Hsim as ((Hmeta & _ & _) & Hver & Hm & Hd).
  apply wf_fseg_spec in Hwf. destruct Hwf as (_ & Hv & Hl & Hf).
  apply wf_fseg_spec. unfold wf_fseg_P. rewrite Hver, Hmb, Hd, Hm, Hmeta.
  apply is_u32_spec in Hu. repeat split; try lia; assumption.
Qed.

Lemma reorder_with_wf : forall gs segs chunkss,
    segs_encode gs segs chunkss ->
    forall es, length es = length segs -> wf_file segs ->
               wf_file (reorder_with gs es segs chunkss).
Proof.
  induction 1 as [|g gs s r cs css Hcs _ IH]; intros es Hlen Hwf.
  - destruct es; reflexivity.
  - destruct es as [|e es]; [discriminate|]. cbn [length] in Hlen.
    unfold wf_file in *. cbn [forallb] in Hwf. apply andb_prop in Hwf. destruct Hwf as [Hs Hr].
    cbn [reorder_with forallb]. apply andb_true_intro. split.
    + apply (wf_fseg_sim s); [exact Hs|apply reorder_seg_sim; exact Hcs|].
      cbn [reorder_seg fs_toc]. apply toc_set_endian_u32.
      apply wf_fseg_spec in Hs. destruct Hs as (Ht & _). apply is_u32_spec. exact Ht.
    + apply IH; [lia|exact Hr].
Qed.

(* segment i of the reordered file has byte order es[i] *)
Lemma reorder_with_endian : forall gs segs chunkss,
    segs_encode gs segs chunkss ->
    forall es, length es = length segs ->
               map (fun s => toc_endian (fs_toc s)) (reorder_with gs es segs chunkss) = es.
Proof.
  induction 1 as [|g gs s r cs css Hcs _ IH]; intros es Hlen.
  - destruct es; [reflexivity|discriminate].
  - destruct es as [|e es]; [discriminate|]. cbn [length] in Hlen.
    cbn [reorder_with map reorder_seg fs_toc]. rewrite toc_endian_set. f_equal. apply IH. lia.
Qed.

(* the records of a metadata pass over the reordered syntax see the re-encoded
   blocks as encodings of the same chunks *)
Lemma reorder_with_encodes ix : forall gs segs chunkss,
    segs_encode gs segs chunkss ->
    forall es gs' pos,
      length es = length segs ->
      Forall2 (seg_sim ix) gs gs' ->
      segs_at pos (reorder_with gs es segs chunkss) gs' ->
      segs_encode gs' (reorder_with gs es segs chunkss) chunkss.
Proof.
  induction 1 as [|g gs s r cs css Hcs _ IH]; intros es gs' pos Hlen Hsim Hat.
  - destruct es; [|discriminate]. inversion Hsim; subst. constructor.
  - destruct es as [|e es]; [discriminate|]. cbn [length] in Hlen.
    inversion Hsim as [|x g' l gs'' Hg Hgs]; subst.
    cbn [reorder_with] in *.
    inversion Hat as [|pos0 s0 r0 g0 gs0 Hg0 Hat0]; subst.
    constructor.
    + destruct Hg0 as (_ & Htoc & _).
      cbn [reorder_seg fs_toc fs_data] in *.
      destruct (seg_encodes_reenc ix g g' (fs_data s) cs Hg Hcs) as [Henc _].
      rewrite Htoc, toc_endian_set in Henc. exact Henc.
    + eapply IH; [lia|exact Hgs|exact Hat0].
Qed.

(* with the byte orders the segments already have, nothing changes *)
Lemma reorder_with_same : forall gs segs chunkss pos,
    segs_encode gs segs chunkss -> segs_at pos segs gs ->
    reorder_with gs (map (fun s => toc_endian (fs_toc s)) segs) segs chunkss = segs.
Proof.
  intros gs segs chunkss pos Henc. revert pos.
  induction Henc as [|g gs s r cs css Hcs _ IH]; intros pos Hat; [reflexivity|].
  inversion Hat as [|pos0 s0 r0 g0 gs0 Hg0 Hat0]; subst.
  cbn [map reorder_with]. rewrite (IH _ Hat0). f_equal.
  unfold reorder_seg. rewrite toc_set_endian_same.
  destruct Hg0 as (_ & Htoc & _).
  assert (Hre : reenc (toc_endian (fs_toc s)) g cs = fs_data s)
    by (rewrite <- Htoc; apply reenc_same; exact Hcs).
  rewrite Hre. destruct s; reflexivity.
Qed.

(* ---- E6: the observation does not look at the masks ---------------------------- *)

Lemma Forall2_rev {A B} (R : A -> B -> Prop) l l' : Forall2 R l l' -> Forall2 R (rev l) (rev l').
Proof.
  induction 1 as [|x y l l' Hxy _ IH]; [constructor|].
  cbn [rev]. apply Forall2_app; [exact IH|]. constructor; [exact Hxy|constructor].
Qed.

Lemma obs_status_sim ix st st' : st_sim ix st st' -> obs_status st' = obs_status st.
Proof.
  intros (Hsegs & _). unfold obs_status. apply Forall2_rev in Hsegs.
  destruct Hsegs as [|g g' l l' Hg _]; [reflexivity|].
  destruct Hg as (_ & _ & _ & _ & Hinc & Hobjs & _ & Hfin & _).
  rewrite Hinc, Hobjs, Hfin. reflexivity.
Qed.

Lemma expected_tokens_sim ix st st' h chunks :
  st_sim ix st st' -> expected_tokens st' h chunks = expected_tokens st h chunks.
Proof.
  intros Hsim. unfold expected_tokens. rewrite (obs_status_sim ix st st' Hsim).
  destruct Hsim as (_ & _ & _ & Hv & _). rewrite Hv. reflexivity.
Qed.

(* ---- E7: the composed theorems -------------------------------------------------- *)

Section Reordered.
  Context (segs : list fseg) (st : rstate) (chunkss : list (list chunk)) (es : list endian).
  Context (Hlen : length es = length segs).
  Context (Hwf : wf_file segs).
  Context (Hrun : sm_run segs false = Ok st).
  Context (Henc : segs_encode (rs_segments st) segs chunkss).

  Lemma reorder_unfold : reorder es segs chunkss = reorder_with (rs_segments st) es segs chunkss.
  Proof. unfold reorder. rewrite Hrun. reflexivity. Qed.

  Lemma reorder_wf : wf_file (reorder es segs chunkss).
  Proof. rewrite reorder_unfold. apply reorder_with_wf; assumption. Qed.

  Lemma reorder_sim : Forall2 fseg_sim segs (reorder es segs chunkss).
  Proof. rewrite reorder_unfold. apply reorder_with_sim; assumption. Qed.

  Lemma reorder_endian :
    map (fun s => toc_endian (fs_toc s)) (reorder es segs chunkss) = es.
  Proof. rewrite reorder_unfold. apply reorder_with_endian; assumption. Qed.

  (* the metadata pass, with or without segment indexes *)
  Lemma sm_run_reorder w stw :
    sm_run segs w = Ok stw ->
    exists stw', sm_run (reorder es segs chunkss) w = Ok stw' /\ st_sim true stw stw'.
  Proof.
    intros Hw. pose proof (sm_run_sim segs _ w reorder_sim) as H. rewrite Hw in H.
    destruct (sm_run (reorder es segs chunkss) w) as [stw'|e]; [|contradiction].
    exists stw'. split; [reflexivity|exact H].
  Qed.

  Lemma reorder_encodes ix st' :
    st_sim ix st st' ->
    segs_at 0 (reorder es segs chunkss) (rs_segments st') ->
    segs_encode (rs_segments st') (reorder es segs chunkss) chunkss.
  Proof.
    intros (Hs & _) Hat. rewrite reorder_unfold in *.
    apply (reorder_with_encodes ix _ _ _ Henc es _ 0); assumption.
  Qed.
End Reordered.

Theorem read_correct_reorder segs st h chunkss es :
  length es = length segs ->
  wf_file segs ->
  sm_run segs false = Ok st ->
  build_hierarchy (rs_om st) = Ok h ->
  segs_encode (rs_segments st) segs chunkss ->
  om_paths_canonical (rs_om st) ->
  typed_objects_are_channels (rs_om st) ->
  rd_all (ser_file (reorder es segs chunkss)) = Ok (expected_tokens st h (concat chunkss), true).
Proof.
  intros Hlen Hwf Hrun Hh Henc Hcanon Hshape.
  destruct (sm_run_reorder segs st chunkss es Hlen Hrun Henc false st Hrun) as (st' & Hrun' & Hsim).
  pose proof (reorder_wf segs st chunkss es Hlen Hwf Hrun Henc) as Hwf'.
  pose proof (sm_segment_positions _ _ _ Hrun') as Hat'.
  pose proof (reorder_encodes segs st chunkss es Hlen Hrun Henc true st' Hsim Hat') as Henc'.
  destruct Hsim as (Hs & Hpo & Hom & Hv & Hc).
  rewrite <- Hom in Hh, Hcanon, Hshape.
  rewrite (read_correct _ st' h chunkss Hwf' Hrun' Hh Henc' Hcanon Hshape).
  rewrite (expected_tokens_sim true st st'); [reflexivity|].
  unfold st_sim. repeat split; assumption.
Qed.

Theorem endian_transparent segs st h chunkss es :
  length es = length segs ->
  wf_file segs ->
  sm_run segs false = Ok st ->
  build_hierarchy (rs_om st) = Ok h ->
  segs_encode (rs_segments st) segs chunkss ->
  om_paths_canonical (rs_om st) ->
  typed_objects_are_channels (rs_om st) ->
  rd_all (ser_file (reorder es segs chunkss)) = rd_all (ser_file segs).
Proof.
  intros Hlen Hwf Hrun Hh Henc Hcanon Hshape.
  rewrite (read_correct_reorder segs st h chunkss es Hlen Hwf Hrun Hh Henc Hcanon Hshape).
  rewrite (read_correct segs st h chunkss Hwf Hrun Hh Henc Hcanon Hshape). reflexivity.
Qed.

(* two arbitrary byte-order assignments of the same content read alike *)
Corollary endian_transparent_any segs st h chunkss es1 es2 :
  length es1 = length segs -> length es2 = length segs ->
  wf_file segs ->
  sm_run segs false = Ok st ->
  build_hierarchy (rs_om st) = Ok h ->
  segs_encode (rs_segments st) segs chunkss ->
  om_paths_canonical (rs_om st) ->
  typed_objects_are_channels (rs_om st) ->
  rd_all (ser_file (reorder es1 segs chunkss)) = rd_all (ser_file (reorder es2 segs chunkss)).
Proof.
  intros H1 H2 Hwf Hrun Hh Henc Hcanon Hshape.
  rewrite !(endian_transparent segs st h chunkss) by assumption. reflexivity.
Qed.

(* reordering to the byte orders the file already has is the identity *)
Theorem reorder_same segs st chunkss :
  sm_run segs false = Ok st ->
  segs_encode (rs_segments st) segs chunkss ->
  reorder (map (fun s => toc_endian (fs_toc s)) segs) segs chunkss = segs.
Proof.
  intros Hrun Henc. unfold reorder. rewrite Hrun.
  apply (reorder_with_same _ _ _ 0 Henc). exact (sm_segment_positions _ _ _ Hrun).
Qed.

(* the two facts above in the form Props/C15_read.v states them *)
Theorem sm_run_reorder_fields segs st chunkss es :
  length es = length segs ->
  sm_run segs false = Ok st ->
  segs_encode (rs_segments st) segs chunkss ->
  forall w stw,
    sm_run segs w = Ok stw ->
    exists stw', sm_run (reorder es segs chunkss) w = Ok stw' /\
                 Forall2 (seg_sim true) (rs_segments stw) (rs_segments stw') /\
                 rs_prev_objs stw' = rs_prev_objs stw /\
                 rs_om stw' = rs_om stw /\
                 rs_version stw' = rs_version stw /\
                 rs_cache stw' = rs_cache stw.
Proof.
  intros Hlen Hrun Henc w stw Hw.
  destruct (sm_run_reorder segs st chunkss es Hlen Hrun Henc w stw Hw)
    as (stw' & H1 & (H2 & H3 & H4 & H5 & H6)).
  exists stw'. repeat split; try assumption. exact (H6 eq_refl).
Qed.

Theorem reorder_encodes_run segs st chunkss es :
  length es = length segs ->
  sm_run segs false = Ok st ->
  segs_encode (rs_segments st) segs chunkss ->
  forall st', sm_run (reorder es segs chunkss) false = Ok st' ->
              segs_encode (rs_segments st') (reorder es segs chunkss) chunkss.
Proof.
  intros Hlen Hrun Henc st' Hrun'.
  destruct (sm_run_reorder segs st chunkss es Hlen Hrun Henc false st Hrun) as (st'' & H1 & Hsim).
  rewrite Hrun' in H1. injection H1 as <-.
  exact (reorder_encodes segs st chunkss es Hlen Hrun Henc true st' Hsim
                         (sm_segment_positions _ _ _ Hrun')).
Qed.
