(* The per-channel index (_build_index) and the two binary searches, characterised
   by prefix sums of the per-segment value counts. *)
From Coq Require Import ZArith List Bool Lia ZifyBool.
From NpTdms Require Import Base.Res Base.PySlice Model.LazyRead Proofs.LazyReadLemmas.
Import ListNotations.
Open Scope Z_scope.

Fixpoint zsum (l : list Z) : Z := match l with [] => 0 | x :: r => x + zsum r end.

Lemma zsum_app : forall a b, zsum (a ++ b) = zsum a + zsum b.
Proof. induction a as [|x a IH]; intros b; cbn [app zsum]; [lia|]. rewrite IH. lia. Qed.

Lemma zsum_nonneg : forall l, (forall x, In x l -> 0 <= x) -> 0 <= zsum l.
Proof.
  induction l as [|x r IH]; intros H; cbn [zsum]; [lia|].
  assert (0 <= x) by (apply H; left; reflexivity).
  assert (0 <= zsum r) by (apply IH; intros y Hy; apply H; right; exact Hy). lia.
Qed.

Lemma In_zfirstn : forall {A} n (l : list A) x, In x (zfirstn n l) -> In x l.
Proof.
  intros A n l x H. rewrite <- (zfirstn_zskipn n l). apply in_or_app. left. exact H.
Qed.

Lemma In_sl : forall {A} a b (l : list A) x, In x (sl a b l) -> In x l.
Proof.
  intros A a b l x H. unfold sl in H. apply In_zfirstn in H.
  rewrite <- (zfirstn_zskipn a l). apply in_or_app. right. exact H.
Qed.

(* prefix sums *)
Definition psum (l : list Z) (k : Z) : Z := zsum (zfirstn k l).

Lemma psum_0 : forall l k, k <= 0 -> psum l k = 0.
Proof. intros. unfold psum. rewrite zfirstn_nonpos by lia. reflexivity. Qed.

Lemma psum_all : forall l k, zlen l <= k -> psum l k = zsum l.
Proof. intros. unfold psum. rewrite zfirstn_all by lia. reflexivity. Qed.

Lemma psum_split : forall l a b, 0 <= a -> a <= b -> psum l b = psum l a + zsum (sl a b l).
Proof. intros l a b Ha Hab. unfold psum. rewrite (zfirstn_app_sl a b) by lia. apply zsum_app. Qed.

Lemma psum_mono : forall l a b, (forall x, In x l -> 0 <= x) -> 0 <= a -> a <= b -> psum l a <= psum l b.
Proof.
  intros l a b Hnn Ha Hab. rewrite (psum_split l a b) by lia.
  assert (0 <= zsum (sl a b l)).
  { apply zsum_nonneg. intros x Hx. apply Hnn. eapply In_sl. exact Hx. }
  lia.
Qed.

Lemma psum_cons : forall x r k, 0 < k -> psum (x :: r) k = x + psum r (k - 1).
Proof.
  intros x r k Hk. unfold psum, zfirstn.
  replace (Z.to_nat k) with (S (Z.to_nat (k - 1))) by lia. reflexivity.
Qed.

(* ---- scan_first_last ---------------------------------------------------- *)

Lemma scan_spec : forall nums i first last F L,
  (forall x, In x nums -> 0 <= x) -> 0 <= i ->
  scan_first_last i nums first last = (F, L) ->
  (first = -1 ->
     (F = -1 /\ L = last /\ zsum nums = 0) \/
     (i <= F /\ F <= L /\ L < i + zlen nums /\ psum nums (F - i) = 0 /\
      0 < psum nums (F - i + 1) /\ psum nums (L - i + 1) = zsum nums)) /\
  (first <> -1 ->
     F = first /\
     ((L = last /\ zsum nums = 0) \/
      (i <= L /\ L < i + zlen nums /\ psum nums (L - i + 1) = zsum nums))).
Proof.
  induction nums as [|x r IH]; intros i first last F L Hnn Hi Hscan.
  - cbn in Hscan. injection Hscan as <- <-. split; intros H.
    + left. repeat split; try reflexivity; exact H.
    + split; [reflexivity|]. left. split; reflexivity.
  - cbn [scan_first_last] in Hscan.
    assert (Hx : 0 <= x) by (apply Hnn; left; reflexivity).
    assert (Hr : forall y, In y r -> 0 <= y) by (intros y Hy; apply Hnn; right; exact Hy).
    assert (Hzr : 0 <= zsum r) by (apply zsum_nonneg; exact Hr).
    pose proof (zlen_nonneg r) as Hlr.
    rewrite zlen_cons. cbn [zsum].
    destruct (x >? 0) eqn:Ex.
    + (* a segment with values *)
      specialize (IH (i + 1) (if first =? -1 then i else first) i F L Hr ltac:(lia) Hscan).
      destruct IH as [_ IH2].
      assert (Hne : (if first =? -1 then i else first) <> -1) by (destruct (first =? -1) eqn:E; lia).
      destruct (IH2 Hne) as [HF HL]. clear IH2.
      assert (HLgen : i <= L /\ L < i + (1 + zlen r) /\ psum (x :: r) (L - i + 1) = x + zsum r).
      { destruct HL as [[HL1 HL2]|[HL1 [HL2 HL3]]].
        - subst L. replace (i - i + 1) with 1 by lia. rewrite psum_cons by lia.
          rewrite psum_0 by lia. lia.
        - rewrite psum_cons by lia. replace (L - i + 1 - 1) with (L - (i + 1) + 1) by lia. lia. }
      split; intros Hf.
      * right. replace (first =? -1) with true in HF by lia. subst F.
        replace (i - i) with 0 by lia. rewrite psum_0 by lia.
        replace (0 + 1) with 1 by lia. rewrite psum_cons by lia. rewrite psum_0 by lia.
        lia.
      * replace (first =? -1) with false in HF by lia. split; [exact HF|]. right. exact HLgen.
    + (* no values here *)
      assert (x = 0) by lia. subst x.
      specialize (IH (i + 1) first last F L Hr ltac:(lia) Hscan).
      destruct IH as [IH1 IH2]. split; intros Hf.
      * destruct (IH1 Hf) as [[H1 [H2 H3]]|[H1 [H2 [H3 [H4 [H5 H6]]]]]].
        -- left. repeat split; try assumption; try lia.
        -- right. rewrite !psum_cons by lia.
           replace (F - i - 1) with (F - (i + 1)) by lia.
           replace (F - i + 1 - 1) with (F - (i + 1) + 1) by lia.
           replace (L - i + 1 - 1) with (L - (i + 1) + 1) by lia. lia.
      * destruct (IH2 Hf) as [HF [[H1 H2]|[H1 [H2 H3]]]].
        -- split; [exact HF|]. left. split; [exact H1|lia].
        -- split; [exact HF|]. right. rewrite psum_cons by lia.
           replace (L - i + 1 - 1) with (L - (i + 1) + 1) by lia. lia.
Qed.

(* ---- cumsum ------------------------------------------------------------- *)

Lemma cumsum_length : forall l acc, zlen (cumsum acc l) = zlen l.
Proof. induction l as [|x r IH]; intros acc; cbn [cumsum]; [reflexivity|]. rewrite !zlen_cons, IH. reflexivity. Qed.

Lemma cumsum_nth : forall l acc k, 0 <= k -> k < zlen l ->
  nth_error (cumsum acc l) (Z.to_nat k) = Some (acc + psum l (k + 1)).
Proof.
  induction l as [|x r IH]; intros acc k Hk Hlt.
  - rewrite zlen_nil in Hlt. lia.
  - rewrite zlen_cons in Hlt. cbn [cumsum]. rewrite psum_cons by lia.
    destruct (Z.eq_dec k 0) as [->|Hne].
    + rewrite psum_0 by lia. change (Z.to_nat 0) with O. cbn [nth_error]. f_equal. lia.
    + replace (Z.to_nat k) with (S (Z.to_nat (k - 1))) by lia. cbn [nth_error].
      rewrite IH by lia. f_equal. replace (k - 1 + 1) with (k + 1 - 1) by lia. lia.
Qed.

(* non-decreasing, as a recursive predicate *)
Fixpoint zsorted (l : list Z) : Prop :=
  match l with
  | [] => True
  | y :: r => (forall z, In z r -> y <= z) /\ zsorted r
  end.

Lemma cumsum_lower : forall l acc z, (forall x, In x l -> 0 <= x) -> In z (cumsum acc l) -> acc <= z.
Proof.
  induction l as [|x r IH]; intros acc z Hnn Hin; cbn [cumsum] in Hin; [destruct Hin|].
  assert (0 <= x) by (apply Hnn; left; reflexivity).
  destruct Hin as [<-|Hin]; [lia|].
  apply IH in Hin; [lia|]. intros y Hy. apply Hnn. right. exact Hy.
Qed.

Lemma cumsum_sorted : forall l acc, (forall x, In x l -> 0 <= x) -> zsorted (cumsum acc l).
Proof.
  induction l as [|x r IH]; intros acc Hnn; cbn [cumsum zsorted]; [exact I|].
  assert (Hr : forall y, In y r -> 0 <= y) by (intros y Hy; apply Hnn; right; exact Hy).
  split; [|apply IH; exact Hr].
  intros z Hz. eapply cumsum_lower; eauto.
Qed.

(* ---- searchsorted as counting functions --------------------------------- *)

Section Count.


  Lemma filter_len_le : forall (p : Z -> bool) l, (length (filter p l) <= length l)%nat.
  Proof.
    intros p. induction l as [|y r IH]; cbn [filter length]; [lia|].
    destruct (p y); cbn [length]; lia.
  Qed.

  Lemma ss_right_bounds : forall l x, 0 <= searchsorted_right l x <= zlen l.
  Proof.
    intros l x. unfold searchsorted_right, zlen. pose proof (filter_len_le (fun y => y <=? x) l). lia.
  Qed.

  Lemma ss_left_bounds : forall l x, 0 <= searchsorted_left l x <= zlen l.
  Proof.
    intros l x. unfold searchsorted_left, zlen. pose proof (filter_len_le (fun y => y <? x) l). lia.
  Qed.

  Lemma filter_none : forall (p : Z -> bool) l, (forall z, In z l -> p z = false) -> filter p l = [].
  Proof.
    intros p. induction l as [|y r IH]; intros H; [reflexivity|]. cbn [filter].
    rewrite (H y) by (left; reflexivity). apply IH. intros z Hz. apply H. right. exact Hz.
  Qed.

  (* counting with an antitone predicate over a sorted list *)
  Lemma count_spec : forall (p : Z -> bool),
    (forall y z, y <= z -> p y = false -> p z = false) ->
    forall l k v, zsorted l -> 0 <= k ->
    nth_error l (Z.to_nat k) = Some v -> (p v = true <-> k < zlen (filter p l)).
  Proof.
    intros p Hp. induction l as [|y r IH]; intros k v Hs Hk Hnth.
    - destruct (Z.to_nat k); discriminate.
    - cbn [zsorted] in Hs. destruct Hs as [Hmin Hs]. cbn [filter].
      destruct (Z.eq_dec k 0) as [->|Hne].
      + cbn in Hnth. injection Hnth as <-.
        destruct (p y) eqn:E.
        * rewrite zlen_cons. pose proof (zlen_nonneg (filter p r)). split; [lia|reflexivity].
        * assert (Hf : filter p r = []).
          { apply filter_none. intros z Hz. apply (Hp y z); [apply Hmin; exact Hz | exact E]. }
          rewrite Hf. unfold zlen. cbn [length]. split; [discriminate|lia].
      + replace (Z.to_nat k) with (S (Z.to_nat (k - 1))) in Hnth by lia. cbn [nth_error] in Hnth.
        specialize (IH (k - 1) v Hs ltac:(lia) Hnth).
        destruct (p y) eqn:E.
        * rewrite zlen_cons. split; intros H; [apply IH in H; lia | apply IH; lia].
        * assert (Hin : In v r) by (eapply nth_error_In; exact Hnth).
          assert (Hv : p v = false) by (apply (Hp y v); [apply Hmin; exact Hin | exact E]).
          assert (Hf : filter p r = []).
          { apply filter_none. intros z Hz. apply (Hp y z); [apply Hmin; exact Hz | exact E]. }
          rewrite Hf. unfold zlen. cbn [length]. split; [congruence|lia].
  Qed.

  (* for a sorted array: entry k is <= x  iff  k < searchsorted(side='right') *)
  Lemma ss_right_spec : forall l x k v, zsorted l -> 0 <= k ->
    nth_error l (Z.to_nat k) = Some v -> (v <= x <-> k < searchsorted_right l x).
  Proof.
    intros l x k v Hs Hk Hnth. unfold searchsorted_right.
    rewrite <- (count_spec (fun y => y <=? x)) by (eauto; intros; lia). lia.
  Qed.

  (* entry k is < x  iff  k < searchsorted(side='left') *)
  Lemma ss_left_spec : forall l x k v, zsorted l -> 0 <= k ->
    nth_error l (Z.to_nat k) = Some v -> (v < x <-> k < searchsorted_left l x).
  Proof.
    intros l x k v Hs Hk Hnth. unfold searchsorted_left.
    rewrite <- (count_spec (fun y => y <? x)) by (eauto; intros; lia). lia.
  Qed.
End Count.
