From Coq Require Import List ZArith Bool Lia ZifyBool.
From Coq Require Import Init.Byte.
Import ListNotations.
From NpTdms Require Import Base.Bytes Base.Res Model.Tokens Model.TokensWf Model.SegState
     Model.Layout Model.Reader Model.FileSyn Proofs.TokensRoundtrip Proofs.SegStateProofs
     Proofs.LayoutProofs Proofs.FileSynProofs.
Local Open Scope Z_scope.
Ltac Zify.zify_post_hook ::= Z.to_euclidean_division_equations.

Definition fseg_len (s : fseg) : Z := 28 + blen (fs_meta_bytes s) + blen (fs_data s).

Definition set_ver (st : rstate) (v : Z) : rstate :=
  mkRstate (rs_segments st) (rs_prev_objs st) (rs_om st) (rs_cache st)
           (match rs_version st with Some v0 => Some v0 | None => Some v end).

Lemma sm_loop_cons_inv s r w pos ps pi st stf :
  sm_loop (s :: r) w pos ps pi st = Ok stf ->
  exists objs props idx cache nch fin po om,
    read_segment_objects (fs_toc s) (fs_meta s) (rs_prev_objs st) ps = Ok (objs, props) /\
    calculate_chunks (fs_toc s) false objs (blen (fs_data s)) = Ok (nch, fin) /\
    update_object_metadata objs nch fin (rs_prev_objs st) (rs_om st) = Ok (po, om) /\
    sm_loop r w (pos + fseg_len s) (Some objs) idx
            (mkRstate (rs_segments st ++
                         [mkSeg pos (fs_toc s) (pos + fseg_len s) (pos + 28 + blen (fs_meta_bytes s))
                                false objs idx nch fin])
                      po (update_object_properties props om) cache
                      (match rs_version st with Some v0 => Some v0 | None => Some (fs_version s) end))
    = Ok stf.
Proof.
  rewrite sm_loop_cons. unfold seg_step. cbv zeta. cbn [rs_segments rs_prev_objs rs_om rs_cache rs_version].
  destruct (read_segment_objects _ _ _ _) as [[objs props]|e] eqn:Ero; cbn [bind]; [|discriminate].
  destruct (match fs_meta s with
            | Some _ => _
            | None => _
            end) as [idx cache].
  replace (pos + 28 + blen (fs_meta_bytes s) + blen (fs_data s) - (pos + 28 + blen (fs_meta_bytes s)))
    with (blen (fs_data s)) by lia.
  destruct (calculate_chunks _ _ _ _) as [[nch fin]|e] eqn:Ecc; cbn [bind]; [|discriminate].
  destruct (update_object_metadata _ _ _ _ _) as [[po om]|e] eqn:Eum; cbn [bind]; [|discriminate].
  intros H. exists objs, props, idx, cache, nch, fin, po, om.
  split; [reflexivity|]. split; [exact Ecc|]. split; [exact Eum|].
  unfold fseg_len.
  replace (pos + (28 + blen (fs_meta_bytes s) + blen (fs_data s)))
    with (pos + 28 + blen (fs_meta_bytes s) + blen (fs_data s)) by lia.
  exact H.
Qed.

(* ---- R1: positions and chunk counts of the segments the metadata pass records ---- *)

Definition seg_at (pos : Z) (s : fseg) (g : segment) : Prop :=
  sg_pos g = pos /\
  sg_toc g = fs_toc s /\
  sg_data g = pos + 28 + blen (fs_meta_bytes s) /\
  sg_next g = pos + 28 + blen (fs_meta_bytes s) + blen (fs_data s) /\
  sg_incomplete g = false /\
  calculate_chunks (sg_toc g) (sg_incomplete g) (sg_objs g) (blen (fs_data s))
  = Ok (sg_nchunks g, sg_final g).

Inductive segs_at : Z -> list fseg -> list segment -> Prop :=
| segs_at_nil pos : segs_at pos [] []
| segs_at_cons pos s r g gs :
    seg_at pos s g -> segs_at (pos + fseg_len s) r gs -> segs_at pos (s :: r) (g :: gs).

Lemma sm_loop_segments : forall segs w pos ps pi st stf,
    sm_loop segs w pos ps pi st = Ok stf ->
    exists gs, rs_segments stf = rs_segments st ++ gs /\ segs_at pos segs gs.
Proof.
  induction segs as [|s r IH]; intros w pos ps pi st stf H.
  - rewrite sm_loop_nil in H. injection H as <-. exists []. rewrite app_nil_r.
    split; [reflexivity|constructor].
  - apply sm_loop_cons_inv in H.
    destruct H as (objs & props & idx & cache & nch & fin & po & om & Hro & Hcc & Hum & Hloop).
    apply IH in Hloop. destruct Hloop as (gs & Hsegs & Hat).
    cbn [rs_segments] in Hsegs. rewrite <- app_assoc in Hsegs. cbn [app] in Hsegs.
    eexists. split; [exact Hsegs|].
    constructor; [|exact Hat].
    unfold seg_at. cbn [sg_pos sg_toc sg_data sg_next sg_incomplete sg_objs sg_nchunks sg_final].
    unfold fseg_len. repeat split; try reflexivity; try lia. exact Hcc.
Qed.

Theorem sm_segment_positions segs w st :
  sm_run segs w = Ok st -> segs_at 0 segs (rs_segments st).
Proof.
  unfold sm_run. intros H. apply sm_loop_segments in H.
  destruct H as (gs & Hsegs & Hat). cbn [rs_segments rstate0 app] in Hsegs.
  rewrite Hsegs. exact Hat.
Qed.

Lemma segs_at_length pos segs gs : segs_at pos segs gs -> length segs = length gs.
Proof. induction 1; cbn [length]; congruence. Qed.

(* ---- R2: read_segment on the serialised file ---- *)

Lemma read_segment_ser pre s rest g :
  wf_fseg s = true ->
  seg_at (blen pre) s g ->
  read_segment (pre ++ ser_seg TAG_DATA true s ++ rest) g =
  (do '(cs, _) <- read_segment_chunks g (fs_data s ++ rest); Ok cs).
Proof.
  intros Hwf (Hpos & Htoc & Hdata & Hnext & Hinc & Hcc).
  pose proof (wf_seg_leadin false s Hwf) as HwfL.
  pose proof (ser_leadin_length _ HwfL) as HlenL.
  change (tag_of false) with TAG_DATA in *.
  unfold read_segment. rewrite ser_seg_eq.
  set (L := seg_leadin TAG_DATA s) in *.
  set (m := fs_meta_bytes s) in *.
  assert (Htag : read_at (sg_pos g) 4 (pre ++ (ser_leadin L ++ m ++ fs_data s) ++ rest) = TAG_DATA).
  { rewrite Hpos. unfold ser_leadin. unfold L at 1. unfold seg_leadin at 1. cbn [l_tag].
    rewrite <- !app_assoc. apply read_at_app_len. reflexivity. }
  rewrite Htag. change (bytes_eqb TAG_DATA TAG_DATA) with true. cbn [negb].
  assert (Hdrop : drop (sg_data g) (pre ++ (ser_leadin L ++ m ++ fs_data s) ++ rest) = fs_data s ++ rest).
  { replace (pre ++ (ser_leadin L ++ m ++ fs_data s) ++ rest)
      with ((pre ++ ser_leadin L ++ m) ++ fs_data s ++ rest)
      by (rewrite <- !app_assoc; reflexivity).
    rewrite Hdata, <- app_assoc. rewrite (app_assoc pre). apply drop_app_len.
    rewrite !blen_app, HlenL. lia. }
  rewrite Hdrop. reflexivity.
Qed.

(* ---- R3: a segment's raw data block encodes a list of chunks ---- *)

Inductive seg_encodes (g : segment) (data : bytes) : list chunk -> Prop :=
| se_empty :
    data_objs (sg_objs g) = [] -> data = [] -> seg_encodes g data []
| se_contig (css : list (list (list bytes))) :
    seg_layout g = Ok LContig ->
    0 < zsum (map so_dsize (data_objs (sg_objs g))) ->
    NoDup (map so_path (data_objs (sg_objs g))) ->
    Forall (fun vss => Forall2 (fun o vs => vals_ok (so_nvals o) o vs) (data_objs (sg_objs g)) vss) css ->
    Forall (Forall2 (dsize_ok (toc_endian (sg_toc g))) (data_objs (sg_objs g))) css ->
    data = enc_chunks (toc_endian (sg_toc g)) (data_objs (sg_objs g)) css ->
    seg_encodes g data (map (fun vss => chunk_of (combine (data_objs (sg_objs g)) vss)) css)
| se_interleaved (nv m : Z) (rows : list (list bytes)) :
    seg_layout g = Ok LInterleaved ->
    data_objs (sg_objs g) <> [] -> 0 < nv -> 0 <= m ->
    Forall (fun o => so_nvals o = nv /\ so_dsize o = so_nvals o * size_or0 o) (data_objs (sg_objs g)) ->
    Forall (fun o => sized o <> None) (data_objs (sg_objs g)) ->
    NoDup (map so_path (data_objs (sg_objs g))) ->
    Forall (row_ok (data_objs (sg_objs g))) rows ->
    Z.of_nat (length rows) = nv * m ->
    data = enc_rows (toc_endian (sg_toc g)) (data_objs (sg_objs g)) rows ->
    seg_encodes g data [cols_of (data_objs (sg_objs g)) rows].

Lemma seg_encodes_read g data chunks rest :
  seg_encodes g data chunks ->
  calculate_chunks (sg_toc g) (sg_incomplete g) (sg_objs g) (blen data) = Ok (sg_nchunks g, sg_final g) ->
  read_segment_chunks g (data ++ rest) = Ok (chunks, rest).
Proof.
  intros Henc Hcc. destruct Henc as [Hd Hdata | css Hlay Hpos Hnd Hok Hds Hdata
                                     | nv m rows Hlay Hne Hnv Hm Hobjs Hsz Hnd Hrows Hlen Hdata].
  - subst data. cbn [app].
    unfold calculate_chunks, chunk_size, have_daqmx in Hcc. rewrite Hd in Hcc.
    cbn in Hcc. injection Hcc as Hn _.
    unfold read_segment_chunks, seg_layout, have_daqmx. rewrite Hd. cbn [filter length Nat.eqb bind].
    unfold have_interleaved. rewrite <- Hn.
    destruct (negb (toc_has (sg_toc g) TOC_INTERLEAVED)); cbn [bind filter length Nat.eqb]; reflexivity.
  - subst data. apply contig_segment_roundtrip; assumption.
  - subst data. apply (interleaved_segment_roundtrip g nv m); assumption.
Qed.

Lemma read_segment_encoded pre s rest g chunks :
  wf_fseg s = true ->
  seg_at (blen pre) s g ->
  seg_encodes g (fs_data s) chunks ->
  read_segment (pre ++ ser_seg TAG_DATA true s ++ rest) g = Ok chunks.
Proof.
  intros Hwf Hat Henc. rewrite (read_segment_ser pre s rest g Hwf Hat).
  destruct Hat as (_ & _ & _ & _ & _ & Hcc).
  rewrite (seg_encodes_read g (fs_data s) chunks rest Henc Hcc). reflexivity.
Qed.

(* ---- R4: receivers concatenate ---- *)

(* the values one chunk holds for [path]: every entry under that path
   (a chunk built by the decoders has at most one, see [chunk_values_lookup]) *)
Definition entry_values (path : bytes) (kv : bytes * cdata) : list bytes :=
  if bytes_eqb path (fst kv) then match snd kv with CData vs => vs | CScalers _ => [] end else [].

Definition chunk_values (path : bytes) (c : chunk) : list bytes := flat_map (entry_values path) c.

(* file-order concatenation over a list of chunks *)
Definition chan_values (path : bytes) (chunks : list chunk) : list bytes :=
  flat_map (chunk_values path) chunks.

Definition only_cdata (c : chunk) : Prop := Forall (fun kv => exists vs, snd kv = CData vs) c.

(* appending to a receiver's content *)
Definition radd (vs : list bytes) (r : option cdata) : option cdata :=
  match r with
  | Some (CData acc) => Some (CData (acc ++ vs))
  | x => x
  end.

Definition is_data_receiver (r : option (option cdata)) : Prop :=
  exists acc, r = Some (Some (CData acc)).

Lemma radd_nil r : radd [] r = r.
Proof. destruct r as [[acc|sc]|]; cbn [radd]; [rewrite app_nil_r|..]; reflexivity. Qed.

Lemma radd_app a b r : radd (a ++ b) r = radd b (radd a r).
Proof. destruct r as [[acc|sc]|]; cbn [radd]; [rewrite app_assoc|..]; reflexivity. Qed.

Lemma receive_chunk_nil recv : receive_chunk recv [] = Ok recv.
Proof. reflexivity. Qed.

Definition rc_step (a : res (alist (option cdata))) (kv : bytes * cdata) : res (alist (option cdata)) :=
  do a0 <- a;
  match alookup (fst kv) a0 with
  | None => Err EKey
  | Some rc => do rc' <- receive rc (snd kv); Ok (aset (fst kv) rc' a0)
  end.

Lemma receive_chunk_fold recv c : receive_chunk recv c = fold_left rc_step c (Ok recv).
Proof. reflexivity. Qed.

Lemma receive_entries_concat : forall (c : chunk) recv,
    only_cdata c ->
    (forall kv, In kv c -> is_data_receiver (alookup (fst kv) recv)) ->
    exists recv', fold_left rc_step c (Ok recv) = Ok recv' /\
                  forall p, alookup p recv' = option_map (radd (chunk_values p c)) (alookup p recv).
Proof.
  induction c as [|[k d] c IH]; intros recv Hcd Hbound.
  - exists recv. split; [reflexivity|]. intros p. cbn [chunk_values flat_map].
    destruct (alookup p recv) as [r|]; cbn [option_map]; [rewrite radd_nil|]; reflexivity.
  - inversion Hcd as [|x l [vs Hvs] Hcd']; subst x l. cbn [snd] in Hvs. subst d.
    destruct (Hbound (k, CData vs) (or_introl eq_refl)) as [acc Hacc]. cbn [fst] in Hacc.
    cbn [fold_left]. unfold rc_step at 2. cbn [bind fst snd]. rewrite Hacc. cbn [receive bind].
    destruct (IH (aset k (Some (CData (acc ++ vs))) recv) Hcd') as (recv' & Hfold & Hlk).
    { intros kv Hin. rewrite alookup_aset.
      destruct (bytes_eqb (fst kv) k); [eexists; reflexivity|].
      apply Hbound. right. exact Hin. }
    exists recv'. split; [exact Hfold|]. intros p. rewrite Hlk, alookup_aset.
    change (chunk_values p ((k, CData vs) :: c))
      with ((if bytes_eqb p k then vs else []) ++ chunk_values p c).
    destruct (bytes_eqb p k) eqn:E.
    + apply bytes_eqb_eq in E. subst p. rewrite Hacc. cbn [option_map radd].
      rewrite app_assoc. reflexivity.
    + cbn [app]. reflexivity.
Qed.

Definition rcs_step (b : res (alist (option cdata))) (c : chunk) : res (alist (option cdata)) :=
  do b0 <- b; receive_chunk b0 c.

Lemma chan_values_app p a b : chan_values p (a ++ b) = chan_values p a ++ chan_values p b.
Proof. unfold chan_values. apply flat_map_app. Qed.

Lemma chan_values_cons p c r : chan_values p (c :: r) = chunk_values p c ++ chan_values p r.
Proof. reflexivity. Qed.

Lemma is_data_receiver_radd vs r :
  is_data_receiver r -> is_data_receiver (option_map (radd vs) r).
Proof. intros [acc ->]. cbn [option_map radd]. eexists. reflexivity. Qed.

(* R4: folding receive_chunk over a list of chunks appends, for every path,
   the values the chunks hold for it, in order; other bindings are unchanged
   (for them [chan_values] is empty or the binding is not a data receiver). *)
Theorem receive_chunks_concat : forall (chunks : list chunk) recv,
    Forall only_cdata chunks ->
    (forall c kv, In c chunks -> In kv c -> is_data_receiver (alookup (fst kv) recv)) ->
    exists recv', fold_left rcs_step chunks (Ok recv) = Ok recv' /\
                  forall p, alookup p recv' = option_map (radd (chan_values p chunks)) (alookup p recv).
Proof.
  induction chunks as [|c chunks IH]; intros recv Hcd Hbound.
  - exists recv. split; [reflexivity|]. intros p. cbn [chan_values flat_map].
    destruct (alookup p recv) as [r|]; cbn [option_map]; [rewrite radd_nil|]; reflexivity.
  - inversion Hcd as [|x l Hc Hcd']; subst x l.
    destruct (receive_entries_concat c recv Hc) as (recv1 & H1 & Hlk1).
    { intros kv Hin. apply (Hbound c kv); [left; reflexivity|exact Hin]. }
    cbn [fold_left]. unfold rcs_step at 2. cbn [bind]. rewrite receive_chunk_fold, H1.
    destruct (IH recv1 Hcd') as (recv' & H2 & Hlk2).
    { intros c' kv Hc' Hin. rewrite Hlk1. apply is_data_receiver_radd.
      apply (Hbound c' kv); [right; exact Hc'|exact Hin]. }
    exists recv'. split; [exact H2|]. intros p. rewrite Hlk2, Hlk1, chan_values_cons.
    destruct (alookup p recv) as [r|]; cbn [option_map]; [|reflexivity].
    rewrite radd_app. reflexivity.
Qed.

(* ---- R5: the eager data pass on a serialised file ---- *)

Inductive segs_encode : list segment -> list fseg -> list (list chunk) -> Prop :=
| sen_nil : segs_encode [] [] []
| sen_cons g gs s r cs css :
    seg_encodes g (fs_data s) cs -> segs_encode gs r css ->
    segs_encode (g :: gs) (s :: r) (cs :: css).

Lemma chunk_of_only_cdata ovs : only_cdata (chunk_of ovs).
Proof.
  unfold only_cdata, chunk_of. apply Forall_map. apply Forall_forall.
  intros ov _. cbn [snd]. eexists. reflexivity.
Qed.

Lemma cols_of_only_cdata objs : forall rows, only_cdata (cols_of objs rows).
Proof.
  induction objs as [|o objs IH]; intros rows; cbn [cols_of]; constructor.
  - cbn [snd]. eexists. reflexivity.
  - apply IH.
Qed.

Lemma seg_encodes_only_cdata g data chunks : seg_encodes g data chunks -> Forall only_cdata chunks.
Proof.
  intros [| css | nv m rows]; intros.
  - constructor.
  - apply Forall_map. apply Forall_forall. intros vss _. apply chunk_of_only_cdata.
  - constructor; [apply cols_of_only_cdata|constructor].
Qed.

Definition eager_step (data : bytes) (a : res (alist (option cdata))) (g : segment)
  : res (alist (option cdata)) :=
  do a0 <- a; do cs <- read_segment data g; fold_left rcs_step cs (Ok a0).

Lemma ser_file_cons s r : ser_file (s :: r) = ser_seg TAG_DATA true s ++ ser_file r.
Proof. reflexivity. Qed.

Lemma eager_loop_ser data : forall segs gs chunkss pre recv,
    wf_file segs ->
    data = pre ++ ser_file segs ->
    segs_at (blen pre) segs gs ->
    segs_encode gs segs chunkss ->
    (forall c kv, In c (concat chunkss) -> In kv c -> is_data_receiver (alookup (fst kv) recv)) ->
    exists recv', fold_left (eager_step data) gs (Ok recv) = Ok recv' /\
                  forall p, alookup p recv' =
                            option_map (radd (chan_values p (concat chunkss))) (alookup p recv).
Proof.
  induction segs as [|s r IH]; intros gs chunkss pre recv Hwf Hdata Hat Henc Hbound.
  - inversion Hat; subst. inversion Henc; subst. exists recv. split; [reflexivity|].
    intros p. cbn [concat chan_values flat_map].
    destruct (alookup p recv) as [x|]; cbn [option_map]; [rewrite radd_nil|]; reflexivity.
  - inversion Hat as [|pos s' r' g gs' Hg Hat']; subst.
    inversion Henc as [|g' gs'' s' r' cs css Hcs Henc']; subst.
    unfold wf_file in Hwf. cbn [forallb] in Hwf. apply andb_prop in Hwf. destruct Hwf as [Hs Hr].
    cbn [fold_left]. unfold eager_step at 2. cbn [bind].
    rewrite ser_file_cons.
    rewrite (read_segment_encoded pre s (ser_file r) g cs Hs Hg Hcs). cbn [bind].
    cbn [concat] in Hbound.
    destruct (receive_chunks_concat cs recv (seg_encodes_only_cdata _ _ _ Hcs)) as (recv1 & H1 & Hlk1).
    { intros c kv Hc Hin. apply (Hbound c kv); [apply in_or_app; left; exact Hc|exact Hin]. }
    rewrite H1.
    destruct (IH gs' css (pre ++ ser_seg TAG_DATA true s) recv1 Hr) as (recv' & H2 & Hlk2).
    + rewrite <- app_assoc. reflexivity.
    + rewrite blen_app. change TAG_DATA with (tag_of false). change true with (negb false).
      rewrite (blen_ser_seg false s Hs). unfold fseg_len in Hat'.
      replace (blen pre + (28 + blen (fs_meta_bytes s) + blen (fs_data s)))
        with (blen pre + (28 + blen (fs_meta_bytes s) + blen (fs_data s))) by lia.
      exact Hat'.
    + exact Henc'.
    + intros c kv Hc Hin. rewrite Hlk1. apply is_data_receiver_radd.
      apply (Hbound c kv); [apply in_or_app; right; exact Hc|exact Hin].
    + rewrite ser_file_cons in H2. exists recv'. split; [exact H2|].
      intros p. rewrite Hlk2, Hlk1. cbn [concat]. rewrite chan_values_app.
      destruct (alookup p recv) as [x|]; cbn [option_map]; [|reflexivity].
      rewrite radd_app. reflexivity.
Qed.

(* the receivers get_data_receiver creates *)
Definition recv_init (c : channel) : option cdata :=
  match ch_dtype c with None => None | Some _ => Some (CData []) end.

Definition recv0_step (a : res (alist (option cdata))) (c : channel) : res (alist (option cdata)) :=
  do a0 <- a; do r <- receiver0 c; Ok (aset (ch_path c) r a0).

Lemma receiver0_plain c : ch_dtype c <> Some T_DAQMX -> receiver0 c = Ok (recv_init c).
Proof.
  unfold receiver0, recv_init. destruct (ch_dtype c) as [dt|]; [|reflexivity].
  intros H. destruct (dt =? T_DAQMX) eqn:E; [|reflexivity].
  apply Z.eqb_eq in E. subst dt. contradiction.
Qed.

Lemma recv0_fold : forall chans acc,
    (forall c, In c chans -> ch_dtype c <> Some T_DAQMX) ->
    NoDup (map ch_path chans) ->
    exists recv0, fold_left recv0_step chans (Ok acc) = Ok recv0 /\
                  (forall c, In c chans -> alookup (ch_path c) recv0 = Some (recv_init c)) /\
                  (forall p, ~ In p (map ch_path chans) -> alookup p recv0 = alookup p acc).
Proof.
  induction chans as [|c chans IH]; intros acc Hnd Hnodup.
  - exists acc. split; [reflexivity|]. split; [intros c []|reflexivity].
  - cbn [map] in Hnodup. inversion Hnodup as [|x l Hnin Hnodup']; subst x l.
    cbn [fold_left]. unfold recv0_step at 2. cbn [bind].
    rewrite (receiver0_plain c) by (apply Hnd; left; reflexivity). cbn [bind].
    destruct (IH (aset (ch_path c) (recv_init c) acc)) as (recv0 & Hfold & Hin & Hout).
    { intros c' Hc'. apply Hnd. right. exact Hc'. }
    { exact Hnodup'. }
    exists recv0. split; [exact Hfold|]. split.
    + intros c' [<-|Hc'].
      * rewrite (Hout _ Hnin), alookup_aset, bytes_eqb_refl. reflexivity.
      * apply Hin. exact Hc'.
    + intros p Hp. rewrite Hout by (intros H; apply Hp; right; exact H).
      rewrite alookup_aset. destruct (bytes_eqb p (ch_path c)) eqn:E; [|reflexivity].
      apply bytes_eqb_eq in E. exfalso. apply Hp. left. symmetry. exact E.
Qed.

(* every path the chunks mention is the path of a typed channel of the hierarchy *)
Definition data_paths_are_channels (h : hierarchy) (chunks : list chunk) : Prop :=
  forall c kv, In c chunks -> In kv c ->
               exists ch, In ch (all_channels h) /\ ch_path ch = fst kv /\ ch_dtype ch <> None.

Definition no_daqmx_channels (h : hierarchy) : Prop :=
  forall ch, In ch (all_channels h) -> ch_dtype ch <> Some T_DAQMX.

Definition channel_paths_distinct (h : hierarchy) : Prop := NoDup (map ch_path (all_channels h)).

(* what a channel's receiver holds after the data pass *)
Definition expected_data (chunks : list chunk) (c : channel) : option cdata :=
  match ch_dtype c with
  | None => None
  | Some _ => Some (CData (chan_values (ch_path c) chunks))
  end.

Lemma rd_eager_fold st h data :
  rd_eager st h data =
  (do recv0 <- fold_left recv0_step (all_channels h) (@Ok (alist (option cdata)) []);
   fold_left (eager_step data) (rs_segments st) (Ok recv0)).
Proof. reflexivity. Qed.

Theorem rd_eager_ser segs st h chunkss :
  wf_file segs ->
  sm_run segs false = Ok st ->
  segs_encode (rs_segments st) segs chunkss ->
  data_paths_are_channels h (concat chunkss) ->
  no_daqmx_channels h ->
  channel_paths_distinct h ->
  exists recv, rd_eager st h (ser_file segs) = Ok recv /\
               forall c, In c (all_channels h) ->
                         alookup (ch_path c) recv = Some (expected_data (concat chunkss) c).
Proof.
  intros Hwf Hrun Henc Hpaths Hnd Hdistinct.
  rewrite rd_eager_fold.
  destruct (recv0_fold (all_channels h) [] Hnd Hdistinct) as (recv0 & H0 & Hin0 & _).
  rewrite H0. cbn [bind].
  pose proof (sm_segment_positions segs false st Hrun) as Hat.
  destruct (eager_loop_ser (ser_file segs) segs (rs_segments st) chunkss [] recv0 Hwf eq_refl Hat Henc)
    as (recv & Hfold & Hlk).
  - intros c kv Hc Hkv. destruct (Hpaths c kv Hc Hkv) as (ch & Hch & Hp & Hty).
    rewrite <- Hp, (Hin0 ch Hch). unfold recv_init.
    destruct (ch_dtype ch); [|contradiction]. eexists. reflexivity.
  - exists recv. split; [exact Hfold|]. intros c Hc.
    rewrite Hlk, (Hin0 c Hc). cbn [option_map]. unfold recv_init, expected_data.
    destruct (ch_dtype c); reflexivity.
Qed.

(* ---- R6: the whole observation ---- *)

Lemma flat_map_ext_in' {A B} (f g : A -> list B) (l : list A) :
  (forall a, In a l -> f a = g a) -> flat_map f l = flat_map g l.
Proof.
  induction l as [|a l IH]; intros H; [reflexivity|].
  cbn [flat_map]. rewrite (H a (or_introl eq_refl)), IH; [reflexivity|].
  intros b Hb. apply H. right. exact Hb.
Qed.

Lemma obs_hierarchy_ext h (f g : channel -> list tok) :
  (forall c, In c (all_channels h) -> f c = g c) -> obs_hierarchy h f = obs_hierarchy h g.
Proof.
  intros H. unfold obs_hierarchy. f_equal. f_equal.
  apply flat_map_ext_in'. intros gr Hgr. f_equal. f_equal. f_equal.
  apply flat_map_ext_in'. intros kc Hkc. f_equal. apply H.
  unfold all_channels. apply in_flat_map. exists gr. split; [exact Hgr|].
  apply in_map. exact Hkc.
Qed.

Definition expected_tokens (st : rstate) (h : hierarchy) (chunks : list chunk) : list tok :=
  TZ (match rs_version st with Some v => v | None => 0 end) ::
  obs_hierarchy h (fun c => obs_cdata (expected_data chunks c)) ++ obs_status st.

(* every typed channel's declared length is the number of values the chunks hold for it *)
Definition lengths_consistent (h : hierarchy) (chunks : list chunk) : Prop :=
  forall c, In c (all_channels h) -> ch_dtype c <> None ->
            Z.of_nat (length (chan_values (ch_path c) chunks)) = ch_len c.

Theorem read_correct_given_lengths segs st h chunkss :
  wf_file segs ->
  sm_run segs false = Ok st ->
  build_hierarchy (rs_om st) = Ok h ->
  segs_encode (rs_segments st) segs chunkss ->
  data_paths_are_channels h (concat chunkss) ->
  no_daqmx_channels h ->
  channel_paths_distinct h ->
  lengths_consistent h (concat chunkss) ->
  rd_all (ser_file segs) = Ok (expected_tokens st h (concat chunkss), true).
Proof.
  intros Hwf Hrun Hh Henc Hpaths Hnd Hdistinct Hlen.
  unfold rd_all, rd_all_from.
  rewrite (rd_metadata_ser segs false Hwf), Hrun. cbn [bind]. rewrite Hh. cbn [bind].
  destruct (rd_eager_ser segs st h chunkss Hwf Hrun Henc Hpaths Hnd Hdistinct) as (recv & Heager & Hlk).
  rewrite Heager. cbn [bind]. unfold expected_tokens. f_equal. f_equal.
  - f_equal. f_equal. apply obs_hierarchy_ext. intros c Hc. rewrite (Hlk c Hc). reflexivity.
  - apply forallb_forall. intros c Hc. rewrite (Hlk c Hc). unfold expected_data.
    destruct (ch_dtype c) as [dt|] eqn:Edt; [|reflexivity].
    cbn [cdata_consistent]. apply Z.eqb_eq. apply Hlen; [exact Hc|]. rewrite Edt. discriminate.
Qed.
