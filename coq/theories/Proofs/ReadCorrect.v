(* C01, composed: reading the BYTES of a serialised file returns exactly the
   values its raw data blocks encode, concatenated in file order, per channel.

   Layers composed here (proved elsewhere, none re-assumed):
     FileSynProofs.rd_metadata_ser      bytes -> syntax for the metadata pass
     LayoutProofs.*_segment_roundtrip   raw data decoders invert the encoders
     LayoutProofs.calculate_chunks_exact
     SegStateInherit (existing_lookup_some, update_object_metadata_values, ...)
   and added here:
     R1 sm_loop_trace / sm_run_trace / sm_segment_positions(_nth)
          positions, chunk counts, per-path value counts (om_len), distinct
          metadata keys, typed objects stay typed, version
     R2 read_segment_ser          tag check + cursor position
     R3 seg_encodes / seg_encodes_read / read_segment_encoded
     R4 receive_chunks_concat     receivers concatenate
     R5 rd_eager_ser              the eager data pass
     R6 read_correct_given_lengths -> read_correct_given_channels ->
        read_correct_given_no_daqmx -> read_correct (-> read_correct_tokens)
          each step discharges hypotheses of the previous one:
          lengths_consistent_ser, channel_paths_distinct_ser,
          data_paths_are_channels_ser, no_daqmx_channels_ser
   plus sound boolean checks (..._b, ..._b_sound) for the hypotheses about the
   hierarchy / metadata, and a concrete two-segment instance (RcExample).
   See Props/C01_read.v for the statements and for what is not covered. *)
From Coq Require Import List ZArith Bool Lia ZifyBool.
From Coq Require Import Init.Byte.
Import ListNotations.
From NpTdms Require Import Base.Bytes Base.Res Model.Tokens Model.TokensWf Model.SegState
     Model.Layout Model.Reader Model.FileSyn Proofs.TokensRoundtrip Proofs.SegStateProofs
     Proofs.LayoutProofs Proofs.FileSynProofs Proofs.SegStateInherit.
Local Open Scope Z_scope.
Ltac Zify.zify_post_hook ::= Z.to_euclidean_division_equations.

Definition fseg_len (s : fseg) : Z := 28 + blen (fs_meta_bytes s) + blen (fs_data s).

Lemma sm_loop_cons_inv s r w pos ps pi st stf :
  sm_loop (s :: r) w pos ps pi st = Ok stf ->
  exists objs props idx cache nch fin po om,
    read_segment_objects (fs_toc s) (fs_meta s) (rs_prev_objs st) ps = Ok (objs, props) /\
    calculate_chunks (fs_toc s) false objs (blen (fs_data s)) = Ok (nch, fin) /\
    update_object_metadata objs nch fin (rs_prev_objs st) (rs_om st) = Ok (po, om) /\
    sm_loop r w (pos + fseg_len s) (Some objs) idx
            (mkRstate (rs_segments st ++
                         [mkSeg pos (fs_toc s) (pos + fseg_len s) (pos + 28 + blen (fs_meta_bytes s))
                                false objs idx nch fin])
                      po (update_object_properties props om) cache
                      (match rs_version st with Some v0 => Some v0 | None => Some (fs_version s) end))
    = Ok stf.
Proof.
  rewrite sm_loop_cons. unfold seg_step. cbv zeta. cbn [rs_segments rs_prev_objs rs_om rs_cache rs_version].
  destruct (read_segment_objects _ _ _ _) as [[objs props]|e] eqn:Ero; cbn [bind]; [|discriminate].
  destruct (match fs_meta s with
            | Some _ => _
            | None => _
            end) as [idx cache].
  replace (pos + 28 + blen (fs_meta_bytes s) + blen (fs_data s) - (pos + 28 + blen (fs_meta_bytes s)))
    with (blen (fs_data s)) by lia.
  destruct (calculate_chunks _ _ _ _) as [[nch fin]|e] eqn:Ecc; cbn [bind]; [|discriminate].
  destruct (update_object_metadata _ _ _ _ _) as [[po om]|e] eqn:Eum; cbn [bind]; [|discriminate].
  intros H. exists objs, props, idx, cache, nch, fin, po, om.
  split; [reflexivity|]. split; [exact Ecc|]. split; [exact Eum|].
  unfold fseg_len.
  replace (pos + (28 + blen (fs_meta_bytes s) + blen (fs_data s)))
    with (pos + 28 + blen (fs_meta_bytes s) + blen (fs_data s)) by lia.
  exact H.
Qed.

(* ---- R1: positions and chunk counts of the segments the metadata pass records ---- *)

Definition seg_at (pos : Z) (s : fseg) (g : segment) : Prop :=
  sg_pos g = pos /\
  sg_toc g = fs_toc s /\
  sg_data g = pos + 28 + blen (fs_meta_bytes s) /\
  sg_next g = pos + 28 + blen (fs_meta_bytes s) + blen (fs_data s) /\
  sg_incomplete g = false /\
  calculate_chunks (sg_toc g) (sg_incomplete g) (sg_objs g) (blen (fs_data s))
  = Ok (sg_nchunks g, sg_final g).

Inductive segs_at : Z -> list fseg -> list segment -> Prop :=
| segs_at_nil pos : segs_at pos [] []
| segs_at_cons pos s r g gs :
    seg_at pos s g -> segs_at (pos + fseg_len s) r gs -> segs_at pos (s :: r) (g :: gs).

(* ---- the metadata pass counts values: om_len ---- *)

(* number of values the metadata pass credits to [p] for one segment *)
Definition obj_total (p : bytes) (objs : list sobj) (n : Z) (f : option (alist Z)) : Z :=
  zsum (map (fun o => if bytes_eqb p (so_path o) then seg_values o n f else 0) objs).

Definition seg_total (p : bytes) (g : segment) : Z :=
  obj_total p (sg_objs g) (sg_nchunks g) (sg_final g).

Lemma get_ometa_aset p k m om :
  get_ometa p (aset k m om) = if bytes_eqb p k then m else get_ometa p om.
Proof. unfold get_ometa. rewrite alookup_aset. destruct (bytes_eqb p k); reflexivity. Qed.

Lemma update_ometa_len m o n f m' :
  update_ometa m o n f = Ok m' -> om_len m' = om_len m + seg_values o n f.
Proof.
  unfold update_ometa. cbv zeta.
  destruct (_ && _); [discriminate|].
  destruct (so_daqmx o) as [q|].
  - destruct (om_scalers m) as [st0|].
    + destruct (scaler_types_eqb st0 (scaler_types q)); [|discriminate].
      intros H. injection H as <-. reflexivity.
    + intros H. injection H as <-. reflexivity.
  - intros H. injection H as <-. reflexivity.
Qed.

Lemma update_object_metadata_len : forall objs n f prev om prev' om',
    update_object_metadata objs n f prev om = Ok (prev', om') ->
    forall p, om_len (get_ometa p om') = om_len (get_ometa p om) + obj_total p objs n f.
Proof.
  induction objs as [|o objs IH]; intros n f prev om prev' om' H p.
  - cbn [update_object_metadata] in H. injection H as _ <-. unfold obj_total. cbn [map zsum fold_right]. lia.
  - cbn [update_object_metadata] in H.
    destruct (update_ometa (get_ometa (so_path o) om) o n f) as [m|e] eqn:Em; cbn [bind] in H; [|discriminate].
    rewrite (IH _ _ _ _ _ _ H p). rewrite get_ometa_aset.
    unfold obj_total. cbn [map zsum fold_right]. fold (zsum (map (fun o0 => if bytes_eqb p (so_path o0) then seg_values o0 n f else 0) objs)).
    destruct (bytes_eqb p (so_path o)) eqn:E.
    + apply bytes_eqb_eq in E. subst p. rewrite (update_ometa_len _ _ _ _ _ Em). lia.
    + lia.
Qed.

Lemma update_object_properties_len props : forall om p,
    om_len (get_ometa p (update_object_properties props om)) = om_len (get_ometa p om).
Proof.
  unfold update_object_properties.
  induction props as [|[k ps] props IH]; intros om p; [reflexivity|].
  cbn [fold_left fst snd]. rewrite IH, get_ometa_aset.
  destruct (bytes_eqb p k) eqn:E; [|reflexivity].
  apply bytes_eqb_eq in E. subst k. reflexivity.
Qed.

Lemma alookup_none_not_in {V} (k : bytes) (l : alist V) :
  alookup k l = None -> ~ In k (map fst l).
Proof.
  induction l as [|[k' v'] r IH]; cbn [alookup map fst In]; intros H; [tauto|].
  destruct (bytes_eqb k k') eqn:E; [discriminate|].
  apply bytes_eqb_neq in E. intros [Heq|Hin]; [congruence|]. exact (IH H Hin).
Qed.

Lemma aset_keys_nodup {V} (k : bytes) (v : V) (l : alist V) :
  NoDup (map fst l) -> NoDup (map fst (aset k v l)).
Proof.
  intros H. destruct (alookup k l) as [x|] eqn:E.
  - rewrite aset_keys_in by (rewrite E; discriminate). exact H.
  - rewrite aset_keys_new by exact E.
    apply NoDup_app_intro; [exact H|repeat constructor; intros []|].
    intros x Hx [<-|[]]. exact (alookup_none_not_in _ _ E Hx).
Qed.

Lemma alookup_in_nodup {V} (k : bytes) (v : V) (l : alist V) :
  NoDup (map fst l) -> In (k, v) l -> alookup k l = Some v.
Proof.
  induction l as [|[k' v'] r IH]; cbn [alookup map fst In]; intros Hnd Hin; [contradiction|].
  inversion Hnd as [|x y Hnin Hnd']; subst x y.
  destruct Hin as [Heq|Hin].
  - injection Heq as -> ->. rewrite bytes_eqb_refl. reflexivity.
  - destruct (bytes_eqb k k') eqn:E; [|apply IH; assumption].
    apply bytes_eqb_eq in E. subst k'. exfalso. apply Hnin.
    apply (in_map fst r (k, v)). exact Hin.
Qed.

Lemma update_object_metadata_nodup : forall objs n f prev om prev' om',
    update_object_metadata objs n f prev om = Ok (prev', om') ->
    NoDup (map fst om) -> NoDup (map fst om').
Proof.
  induction objs as [|o objs IH]; intros n f prev om prev' om' H Hnd.
  - cbn [update_object_metadata] in H. injection H as _ <-. exact Hnd.
  - cbn [update_object_metadata] in H.
    destruct (update_ometa (get_ometa (so_path o) om) o n f) as [m|e]; cbn [bind] in H; [|discriminate].
    apply (IH _ _ _ _ _ _ H). apply aset_keys_nodup. exact Hnd.
Qed.

Lemma update_object_properties_nodup props : forall om,
    NoDup (map fst om) -> NoDup (map fst (update_object_properties props om)).
Proof.
  unfold update_object_properties.
  induction props as [|[k ps] props IH]; intros om Hnd; [exact Hnd|].
  cbn [fold_left fst snd]. apply IH. apply aset_keys_nodup. exact Hnd.
Qed.

(* ---- typed objects: once a path has a data type in the metadata, it keeps it ---- *)

Definition om_typed (p : bytes) (om : alist ometa) : Prop :=
  exists m, alookup p om = Some m /\ om_dtype m <> None.

Lemma update_ometa_dtype m o n f m' :
  update_ometa m o n f = Ok m' ->
  om_dtype m' = so_dtype o /\ (om_dtype m <> None -> om_dtype m' = om_dtype m).
Proof.
  unfold update_ometa. cbv zeta.
  destruct (om_dtype m) as [x|] eqn:Edt; cbn [andb].
  - destruct (oz_eqb (Some x) (so_dtype o)) eqn:Eeq; cbn [negb]; [|discriminate].
    assert (Hsame : so_dtype o = Some x).
    { unfold oz_eqb in Eeq. destruct (so_dtype o) as [y|]; [|discriminate].
      apply Z.eqb_eq in Eeq. congruence. }
    destruct (so_daqmx o) as [q|].
    + destruct (om_scalers m) as [st0|].
      * destruct (scaler_types_eqb st0 (scaler_types q)); [|discriminate].
        intros H. injection H as <-. cbn [om_dtype]. split; [reflexivity|intros _; exact Hsame].
      * intros H. injection H as <-. cbn [om_dtype]. split; [reflexivity|intros _; exact Hsame].
    + intros H. injection H as <-. cbn [om_dtype]. split; [reflexivity|intros _; exact Hsame].
  - destruct (so_daqmx o) as [q|].
    + destruct (om_scalers m) as [st0|].
      * destruct (scaler_types_eqb st0 (scaler_types q)); [|discriminate].
        intros H. injection H as <-. cbn [om_dtype]. split; [reflexivity|intros H; contradiction].
      * intros H. injection H as <-. cbn [om_dtype]. split; [reflexivity|intros H; contradiction].
    + intros H. injection H as <-. cbn [om_dtype]. split; [reflexivity|intros H; contradiction].
Qed.

Lemma update_object_metadata_typed : forall objs n f prev om prev' om',
    update_object_metadata objs n f prev om = Ok (prev', om') ->
    forall p, (om_typed p om \/ exists o, In o objs /\ so_path o = p /\ so_dtype o <> None) ->
              om_typed p om'.
Proof.
  induction objs as [|o objs IH]; intros n f prev om prev' om' H p Hp.
  - cbn [update_object_metadata] in H. injection H as _ <-.
    destruct Hp as [Hp|(o & [] & _)]. exact Hp.
  - cbn [update_object_metadata] in H.
    destruct (update_ometa (get_ometa (so_path o) om) o n f) as [m'|e] eqn:Em; cbn [bind] in H; [|discriminate].
    destruct (update_ometa_dtype _ _ _ _ _ Em) as [Hd1 Hd2].
    apply (IH _ _ _ _ _ _ H p).
    destruct (bytes_eqb p (so_path o)) eqn:E.
    + apply bytes_eqb_eq in E. subst p.
      destruct Hp as [(m & Hm & Hty)|(o' & [<-|Hin] & Hpath & Hty)].
      * left. exists m'. rewrite alookup_aset, bytes_eqb_refl. split; [reflexivity|].
        rewrite Hd2; unfold get_ometa; rewrite Hm; exact Hty.
      * left. exists m'. rewrite alookup_aset, bytes_eqb_refl. split; [reflexivity|].
        rewrite Hd1. exact Hty.
      * right. exists o'. split; [exact Hin|]. split; assumption.
    + destruct Hp as [(m & Hm & Hty)|(o' & [<-|Hin] & Hpath & Hty)].
      * left. exists m. rewrite alookup_aset, E. split; assumption.
      * subst p. rewrite bytes_eqb_refl in E. discriminate.
      * right. exists o'. split; [exact Hin|]. split; assumption.
Qed.

Lemma update_object_properties_typed props : forall om p,
    om_typed p om -> om_typed p (update_object_properties props om).
Proof.
  unfold update_object_properties.
  induction props as [|[k ps] props IH]; intros om p Hp; [exact Hp|].
  cbn [fold_left fst snd]. apply IH. destruct Hp as (m & Hm & Hty).
  unfold om_typed. rewrite alookup_aset.
  destruct (bytes_eqb p k) eqn:E.
  - apply bytes_eqb_eq in E. subst k. unfold get_ometa. rewrite Hm.
    eexists. split; [reflexivity|]. exact Hty.
  - exists m. split; assumption.
Qed.

(* everything the later steps need to know about a successful run of the
   metadata pass on syntax, in one induction *)
Lemma sm_loop_trace : forall segs w pos ps pi st stf,
    sm_loop segs w pos ps pi st = Ok stf ->
    exists gs,
      rs_segments stf = rs_segments st ++ gs /\
      segs_at pos segs gs /\
      (forall p, om_len (get_ometa p (rs_om stf)) =
                 om_len (get_ometa p (rs_om st)) + zsum (map (seg_total p) gs)) /\
      (NoDup (map fst (rs_om st)) -> NoDup (map fst (rs_om stf))) /\
      (forall p, (om_typed p (rs_om st) \/
                  exists g o, In g gs /\ In o (sg_objs g) /\ so_path o = p /\ so_dtype o <> None) ->
                 om_typed p (rs_om stf)) /\
      rs_version stf = match rs_version st with
                       | Some v => Some v
                       | None => option_map fs_version (hd_error segs)
                       end.
Proof.
  induction segs as [|s r IH]; intros w pos ps pi st stf H.
  - rewrite sm_loop_nil in H. injection H as <-. exists []. rewrite app_nil_r.
    split; [reflexivity|]. split; [constructor|]. split; [intros p; cbn [map zsum fold_right]; lia|].
    split; [tauto|]. split.
    + intros p [Hp|(g & o & [] & _)]. exact Hp.
    + destruct (rs_version st); reflexivity.
  - apply sm_loop_cons_inv in H.
    destruct H as (objs & props & idx & cache & nch & fin & po & om & Hro & Hcc & Hum & Hloop).
    apply IH in Hloop. destruct Hloop as (gs & Hsegs & Hat & Hlen & Hnd & Htyped & Hver).
    cbn [rs_segments rs_om rs_version] in Hsegs, Hlen, Hnd, Htyped, Hver.
    rewrite <- app_assoc in Hsegs. cbn [app] in Hsegs.
    eexists. split; [exact Hsegs|]. split; [|split; [|split; [|split]]].
    + constructor; [|exact Hat].
      unfold seg_at. cbn [sg_pos sg_toc sg_data sg_next sg_incomplete sg_objs sg_nchunks sg_final].
      unfold fseg_len. repeat split; try reflexivity; try lia. exact Hcc.
    + intros p. rewrite Hlen, update_object_properties_len.
      rewrite (update_object_metadata_len _ _ _ _ _ _ _ Hum p).
      cbn [map zsum fold_right]. unfold seg_total at 2. cbn [sg_objs sg_nchunks sg_final].
      fold (zsum (map (seg_total p) gs)). lia.
    + intros Hnd0. apply Hnd. apply update_object_properties_nodup.
      apply (update_object_metadata_nodup _ _ _ _ _ _ _ Hum). exact Hnd0.
    + intros p Hp. apply Htyped.
      destruct Hp as [Hp|(g & o & [<-|Hg] & Ho & Hpath & Hty)].
      * left. apply update_object_properties_typed.
        apply (update_object_metadata_typed _ _ _ _ _ _ _ Hum p). left. exact Hp.
      * left. apply update_object_properties_typed.
        apply (update_object_metadata_typed _ _ _ _ _ _ _ Hum p). right.
        cbn [sg_objs] in Ho. exists o. split; [exact Ho|]. split; assumption.
      * right. exists g, o. split; [exact Hg|]. split; [exact Ho|]. split; assumption.
    + rewrite Hver. cbn [hd_error option_map]. destruct (rs_version st); reflexivity.
Qed.

Theorem sm_run_trace segs w st :
  sm_run segs w = Ok st ->
  segs_at 0 segs (rs_segments st) /\
  (forall p, om_len (get_ometa p (rs_om st)) = zsum (map (seg_total p) (rs_segments st))) /\
  NoDup (map fst (rs_om st)) /\
  (forall g o, In g (rs_segments st) -> In o (sg_objs g) -> so_dtype o <> None ->
               om_typed (so_path o) (rs_om st)) /\
  rs_version st = option_map fs_version (hd_error segs).
Proof.
  unfold sm_run. intros H. apply sm_loop_trace in H.
  destruct H as (gs & Hsegs & Hat & Hlen & Hnd & Htyped & Hver).
  cbn [rs_segments rs_om rs_version rstate0 app] in *.
  rewrite Hsegs. split; [exact Hat|]. split; [|split; [|split; [|exact Hver]]].
  - intros p. rewrite Hlen. unfold get_ometa. cbn [alookup ometa0 om_len]. lia.
  - apply Hnd. constructor.
  - intros g o Hg Ho Hty. apply Htyped. right. exists g, o.
    split; [exact Hg|]. split; [exact Ho|]. split; [reflexivity|exact Hty].
Qed.

Corollary sm_segment_positions segs w st :
  sm_run segs w = Ok st -> segs_at 0 segs (rs_segments st).
Proof. intros H. apply sm_run_trace in H. tauto. Qed.

Lemma segs_at_length pos segs gs : segs_at pos segs gs -> length segs = length gs.
Proof. induction 1; cbn [length]; congruence. Qed.

(* ---- R2: read_segment on the serialised file ---- *)

Lemma read_segment_ser pre s rest g :
  wf_fseg s = true ->
  seg_at (blen pre) s g ->
  read_segment (pre ++ ser_seg TAG_DATA true s ++ rest) g =
  (do '(cs, _) <- read_segment_chunks g (fs_data s ++ rest); Ok cs).
Proof.
  intros Hwf (Hpos & Htoc & Hdata & Hnext & Hinc & Hcc).
  pose proof (wf_seg_leadin false s Hwf) as HwfL.
  pose proof (ser_leadin_length _ HwfL) as HlenL.
  change (tag_of false) with TAG_DATA in *.
  unfold read_segment. rewrite ser_seg_eq.
  set (L := seg_leadin TAG_DATA s) in *.
  set (m := fs_meta_bytes s) in *.
  assert (Htag : read_at (sg_pos g) 4 (pre ++ (ser_leadin L ++ m ++ fs_data s) ++ rest) = TAG_DATA).
  { rewrite Hpos. unfold ser_leadin. unfold L at 1. unfold seg_leadin at 1. cbn [l_tag].
    rewrite <- !app_assoc. apply read_at_app_len. reflexivity. }
  rewrite Htag. change (bytes_eqb TAG_DATA TAG_DATA) with true. cbn [negb].
  assert (Hdrop : drop (sg_data g) (pre ++ (ser_leadin L ++ m ++ fs_data s) ++ rest) = fs_data s ++ rest).
  { replace (pre ++ (ser_leadin L ++ m ++ fs_data s) ++ rest)
      with ((pre ++ ser_leadin L ++ m) ++ fs_data s ++ rest)
      by (rewrite <- !app_assoc; reflexivity).
    rewrite Hdata, <- app_assoc. rewrite (app_assoc pre). apply drop_app_len.
    rewrite !blen_app, HlenL. lia. }
  rewrite Hdrop. reflexivity.
Qed.

(* ---- R3: a segment's raw data block encodes a list of chunks ---- *)

Inductive seg_encodes (g : segment) (data : bytes) : list chunk -> Prop :=
| se_empty :
    data_objs (sg_objs g) = [] -> data = [] -> seg_encodes g data []
| se_contig (css : list (list (list bytes))) :
    seg_layout g = Ok LContig ->
    0 < zsum (map so_dsize (data_objs (sg_objs g))) ->
    NoDup (map so_path (data_objs (sg_objs g))) ->
    Forall (fun vss => Forall2 (fun o vs => vals_ok (so_nvals o) o vs) (data_objs (sg_objs g)) vss) css ->
    Forall (Forall2 (dsize_ok (toc_endian (sg_toc g))) (data_objs (sg_objs g))) css ->
    data = enc_chunks (toc_endian (sg_toc g)) (data_objs (sg_objs g)) css ->
    seg_encodes g data (map (fun vss => chunk_of (combine (data_objs (sg_objs g)) vss)) css)
| se_interleaved (nv m : Z) (rows : list (list bytes)) :
    seg_layout g = Ok LInterleaved ->
    data_objs (sg_objs g) <> [] -> 0 < nv -> 0 <= m ->
    Forall (fun o => so_nvals o = nv /\ so_dsize o = so_nvals o * size_or0 o) (data_objs (sg_objs g)) ->
    Forall (fun o => sized o <> None) (data_objs (sg_objs g)) ->
    NoDup (map so_path (data_objs (sg_objs g))) ->
    Forall (row_ok (data_objs (sg_objs g))) rows ->
    Z.of_nat (length rows) = nv * m ->
    data = enc_rows (toc_endian (sg_toc g)) (data_objs (sg_objs g)) rows ->
    seg_encodes g data [cols_of (data_objs (sg_objs g)) rows].

Lemma seg_encodes_read g data chunks rest :
  seg_encodes g data chunks ->
  calculate_chunks (sg_toc g) (sg_incomplete g) (sg_objs g) (blen data) = Ok (sg_nchunks g, sg_final g) ->
  read_segment_chunks g (data ++ rest) = Ok (chunks, rest).
Proof.
  intros Henc Hcc. destruct Henc as [Hd Hdata | css Hlay Hpos Hnd Hok Hds Hdata
                                     | nv m rows Hlay Hne Hnv Hm Hobjs Hsz Hnd Hrows Hlen Hdata].
  - subst data. cbn [app].
    unfold calculate_chunks, chunk_size, have_daqmx in Hcc. rewrite Hd in Hcc.
    cbn in Hcc. injection Hcc as Hn _.
    unfold read_segment_chunks, seg_layout, have_daqmx. rewrite Hd. cbn [filter length Nat.eqb bind].
    unfold have_interleaved. rewrite <- Hn.
    destruct (negb (toc_has (sg_toc g) TOC_INTERLEAVED)); cbn [bind filter length Nat.eqb]; reflexivity.
  - subst data. apply contig_segment_roundtrip; assumption.
  - subst data. apply (interleaved_segment_roundtrip g nv m); assumption.
Qed.

Lemma read_segment_encoded pre s rest g chunks :
  wf_fseg s = true ->
  seg_at (blen pre) s g ->
  seg_encodes g (fs_data s) chunks ->
  read_segment (pre ++ ser_seg TAG_DATA true s ++ rest) g = Ok chunks.
Proof.
  intros Hwf Hat Henc. rewrite (read_segment_ser pre s rest g Hwf Hat).
  destruct Hat as (_ & _ & _ & _ & _ & Hcc).
  rewrite (seg_encodes_read g (fs_data s) chunks rest Henc Hcc). reflexivity.
Qed.

(* ---- R4: receivers concatenate ---- *)

(* the values one chunk holds for [path]: every entry under that path
   (a chunk built by the decoders has at most one, see [chunk_values_lookup]) *)
Definition entry_values (path : bytes) (kv : bytes * cdata) : list bytes :=
  if bytes_eqb path (fst kv) then match snd kv with CData vs => vs | CScalers _ => [] end else [].

Definition chunk_values (path : bytes) (c : chunk) : list bytes := flat_map (entry_values path) c.

(* file-order concatenation over a list of chunks *)
Definition chan_values (path : bytes) (chunks : list chunk) : list bytes :=
  flat_map (chunk_values path) chunks.

Definition only_cdata (c : chunk) : Prop := Forall (fun kv => exists vs, snd kv = CData vs) c.

(* appending to a receiver's content *)
Definition radd (vs : list bytes) (r : option cdata) : option cdata :=
  match r with
  | Some (CData acc) => Some (CData (acc ++ vs))
  | x => x
  end.

Definition is_data_receiver (r : option (option cdata)) : Prop :=
  exists acc, r = Some (Some (CData acc)).

Lemma radd_nil r : radd [] r = r.
Proof. destruct r as [[acc|sc]|]; cbn [radd]; [rewrite app_nil_r|..]; reflexivity. Qed.

Lemma radd_app a b r : radd (a ++ b) r = radd b (radd a r).
Proof. destruct r as [[acc|sc]|]; cbn [radd]; [rewrite app_assoc|..]; reflexivity. Qed.

Lemma receive_chunk_nil recv : receive_chunk recv [] = Ok recv.
Proof. reflexivity. Qed.

Definition rc_step (a : res (alist (option cdata))) (kv : bytes * cdata) : res (alist (option cdata)) :=
  do a0 <- a;
  match alookup (fst kv) a0 with
  | None => Err EKey
  | Some rc => do rc' <- receive rc (snd kv); Ok (aset (fst kv) rc' a0)
  end.

Lemma receive_chunk_fold recv c : receive_chunk recv c = fold_left rc_step c (Ok recv).
Proof. reflexivity. Qed.

Lemma receive_entries_concat : forall (c : chunk) recv,
    only_cdata c ->
    (forall kv, In kv c -> is_data_receiver (alookup (fst kv) recv)) ->
    exists recv', fold_left rc_step c (Ok recv) = Ok recv' /\
                  forall p, alookup p recv' = option_map (radd (chunk_values p c)) (alookup p recv).
Proof.
  induction c as [|[k d] c IH]; intros recv Hcd Hbound.
  - exists recv. split; [reflexivity|]. intros p. cbn [chunk_values flat_map].
    destruct (alookup p recv) as [r|]; cbn [option_map]; [rewrite radd_nil|]; reflexivity.
  - inversion Hcd as [|x l [vs Hvs] Hcd']; subst x l. cbn [snd] in Hvs. subst d.
    destruct (Hbound (k, CData vs) (or_introl eq_refl)) as [acc Hacc]. cbn [fst] in Hacc.
    cbn [fold_left]. unfold rc_step at 2. cbn [bind fst snd]. rewrite Hacc. cbn [receive bind].
    destruct (IH (aset k (Some (CData (acc ++ vs))) recv) Hcd') as (recv' & Hfold & Hlk).
    { intros kv Hin. rewrite alookup_aset.
      destruct (bytes_eqb (fst kv) k); [eexists; reflexivity|].
      apply Hbound. right. exact Hin. }
    exists recv'. split; [exact Hfold|]. intros p. rewrite Hlk, alookup_aset.
    change (chunk_values p ((k, CData vs) :: c))
      with ((if bytes_eqb p k then vs else []) ++ chunk_values p c).
    destruct (bytes_eqb p k) eqn:E.
    + apply bytes_eqb_eq in E. subst p. rewrite Hacc. cbn [option_map radd].
      rewrite app_assoc. reflexivity.
    + cbn [app]. reflexivity.
Qed.

Definition rcs_step (b : res (alist (option cdata))) (c : chunk) : res (alist (option cdata)) :=
  do b0 <- b; receive_chunk b0 c.

Lemma chan_values_app p a b : chan_values p (a ++ b) = chan_values p a ++ chan_values p b.
Proof. unfold chan_values. apply flat_map_app. Qed.

Lemma chan_values_cons p c r : chan_values p (c :: r) = chunk_values p c ++ chan_values p r.
Proof. reflexivity. Qed.

Lemma is_data_receiver_radd vs r :
  is_data_receiver r -> is_data_receiver (option_map (radd vs) r).
Proof. intros [acc ->]. cbn [option_map radd]. eexists. reflexivity. Qed.

(* R4: folding receive_chunk over a list of chunks appends, for every path,
   the values the chunks hold for it, in order; other bindings are unchanged
   (for them [chan_values] is empty or the binding is not a data receiver). *)
Theorem receive_chunks_concat : forall (chunks : list chunk) recv,
    Forall only_cdata chunks ->
    (forall c kv, In c chunks -> In kv c -> is_data_receiver (alookup (fst kv) recv)) ->
    exists recv', fold_left rcs_step chunks (Ok recv) = Ok recv' /\
                  forall p, alookup p recv' = option_map (radd (chan_values p chunks)) (alookup p recv).
Proof.
  induction chunks as [|c chunks IH]; intros recv Hcd Hbound.
  - exists recv. split; [reflexivity|]. intros p. cbn [chan_values flat_map].
    destruct (alookup p recv) as [r|]; cbn [option_map]; [rewrite radd_nil|]; reflexivity.
  - inversion Hcd as [|x l Hc Hcd']; subst x l.
    destruct (receive_entries_concat c recv Hc) as (recv1 & H1 & Hlk1).
    { intros kv Hin. apply (Hbound c kv); [left; reflexivity|exact Hin]. }
    cbn [fold_left]. unfold rcs_step at 2. cbn [bind]. rewrite receive_chunk_fold, H1.
    destruct (IH recv1 Hcd') as (recv' & H2 & Hlk2).
    { intros c' kv Hc' Hin. rewrite Hlk1. apply is_data_receiver_radd.
      apply (Hbound c' kv); [right; exact Hc'|exact Hin]. }
    exists recv'. split; [exact H2|]. intros p. rewrite Hlk2, Hlk1, chan_values_cons.
    destruct (alookup p recv) as [r|]; cbn [option_map]; [|reflexivity].
    rewrite radd_app. reflexivity.
Qed.

(* ---- R5: the eager data pass on a serialised file ---- *)

Inductive segs_encode : list segment -> list fseg -> list (list chunk) -> Prop :=
| sen_nil : segs_encode [] [] []
| sen_cons g gs s r cs css :
    seg_encodes g (fs_data s) cs -> segs_encode gs r css ->
    segs_encode (g :: gs) (s :: r) (cs :: css).

Lemma chunk_of_only_cdata ovs : only_cdata (chunk_of ovs).
Proof.
  unfold only_cdata, chunk_of. apply Forall_map. apply Forall_forall.
  intros ov _. cbn [snd]. eexists. reflexivity.
Qed.

Lemma cols_of_only_cdata objs : forall rows, only_cdata (cols_of objs rows).
Proof.
  induction objs as [|o objs IH]; intros rows; cbn [cols_of]; constructor.
  - cbn [snd]. eexists. reflexivity.
  - apply IH.
Qed.

Lemma seg_encodes_only_cdata g data chunks : seg_encodes g data chunks -> Forall only_cdata chunks.
Proof.
  intros [| css | nv m rows]; intros.
  - constructor.
  - apply Forall_map. apply Forall_forall. intros vss _. apply chunk_of_only_cdata.
  - constructor; [apply cols_of_only_cdata|constructor].
Qed.

Definition eager_step (data : bytes) (a : res (alist (option cdata))) (g : segment)
  : res (alist (option cdata)) :=
  do a0 <- a; do cs <- read_segment data g; fold_left rcs_step cs (Ok a0).

Lemma ser_file_cons s r : ser_file (s :: r) = ser_seg TAG_DATA true s ++ ser_file r.
Proof. reflexivity. Qed.

Lemma eager_loop_ser data : forall segs gs chunkss pre recv,
    wf_file segs ->
    data = pre ++ ser_file segs ->
    segs_at (blen pre) segs gs ->
    segs_encode gs segs chunkss ->
    (forall c kv, In c (concat chunkss) -> In kv c -> is_data_receiver (alookup (fst kv) recv)) ->
    exists recv', fold_left (eager_step data) gs (Ok recv) = Ok recv' /\
                  forall p, alookup p recv' =
                            option_map (radd (chan_values p (concat chunkss))) (alookup p recv).
Proof.
  induction segs as [|s r IH]; intros gs chunkss pre recv Hwf Hdata Hat Henc Hbound.
  - inversion Hat; subst. inversion Henc; subst. exists recv. split; [reflexivity|].
    intros p. cbn [concat chan_values flat_map].
    destruct (alookup p recv) as [x|]; cbn [option_map]; [rewrite radd_nil|]; reflexivity.
  - inversion Hat as [|pos s' r' g gs' Hg Hat']; subst.
    inversion Henc as [|g' gs'' s' r' cs css Hcs Henc']; subst.
    unfold wf_file in Hwf. cbn [forallb] in Hwf. apply andb_prop in Hwf. destruct Hwf as [Hs Hr].
    cbn [fold_left]. unfold eager_step at 2. cbn [bind].
    rewrite ser_file_cons.
    rewrite (read_segment_encoded pre s (ser_file r) g cs Hs Hg Hcs). cbn [bind].
    cbn [concat] in Hbound.
    destruct (receive_chunks_concat cs recv (seg_encodes_only_cdata _ _ _ Hcs)) as (recv1 & H1 & Hlk1).
    { intros c kv Hc Hin. apply (Hbound c kv); [apply in_or_app; left; exact Hc|exact Hin]. }
    rewrite H1.
    destruct (IH gs' css (pre ++ ser_seg TAG_DATA true s) recv1 Hr) as (recv' & H2 & Hlk2).
    + rewrite <- app_assoc. reflexivity.
    + rewrite blen_app. change TAG_DATA with (tag_of false). change true with (negb false).
      rewrite (blen_ser_seg false s Hs). unfold fseg_len in Hat'.
      exact Hat'.
    + exact Henc'.
    + intros c kv Hc Hin. rewrite Hlk1. apply is_data_receiver_radd.
      apply (Hbound c kv); [apply in_or_app; right; exact Hc|exact Hin].
    + rewrite ser_file_cons in H2. exists recv'. split; [exact H2|].
      intros p. rewrite Hlk2, Hlk1. cbn [concat]. rewrite chan_values_app.
      destruct (alookup p recv) as [x|]; cbn [option_map]; [|reflexivity].
      rewrite radd_app. reflexivity.
Qed.

(* the receivers get_data_receiver creates *)
Definition recv_init (c : channel) : option cdata :=
  match ch_dtype c with None => None | Some _ => Some (CData []) end.

Definition recv0_step (a : res (alist (option cdata))) (c : channel) : res (alist (option cdata)) :=
  do a0 <- a; do r <- receiver0 c; Ok (aset (ch_path c) r a0).

Lemma receiver0_plain c : ch_dtype c <> Some T_DAQMX -> receiver0 c = Ok (recv_init c).
Proof.
  unfold receiver0, recv_init. destruct (ch_dtype c) as [dt|]; [|reflexivity].
  intros H. destruct (dt =? T_DAQMX) eqn:E; [|reflexivity].
  apply Z.eqb_eq in E. subst dt. contradiction.
Qed.

Lemma recv0_fold : forall chans acc,
    (forall c, In c chans -> ch_dtype c <> Some T_DAQMX) ->
    NoDup (map ch_path chans) ->
    exists recv0, fold_left recv0_step chans (Ok acc) = Ok recv0 /\
                  (forall c, In c chans -> alookup (ch_path c) recv0 = Some (recv_init c)) /\
                  (forall p, ~ In p (map ch_path chans) -> alookup p recv0 = alookup p acc).
Proof.
  induction chans as [|c chans IH]; intros acc Hnd Hnodup.
  - exists acc. split; [reflexivity|]. split; [intros c []|reflexivity].
  - cbn [map] in Hnodup. inversion Hnodup as [|x l Hnin Hnodup']; subst x l.
    cbn [fold_left]. unfold recv0_step at 2. cbn [bind].
    rewrite (receiver0_plain c) by (apply Hnd; left; reflexivity). cbn [bind].
    destruct (IH (aset (ch_path c) (recv_init c) acc)) as (recv0 & Hfold & Hin & Hout).
    { intros c' Hc'. apply Hnd. right. exact Hc'. }
    { exact Hnodup'. }
    exists recv0. split; [exact Hfold|]. split.
    + intros c' [<-|Hc'].
      * rewrite (Hout _ Hnin), alookup_aset, bytes_eqb_refl. reflexivity.
      * apply Hin. exact Hc'.
    + intros p Hp. rewrite Hout by (intros H; apply Hp; right; exact H).
      rewrite alookup_aset. destruct (bytes_eqb p (ch_path c)) eqn:E; [|reflexivity].
      apply bytes_eqb_eq in E. exfalso. apply Hp. left. symmetry. exact E.
Qed.

(* every path the chunks mention is the path of a typed channel of the hierarchy *)
Definition data_paths_are_channels (h : hierarchy) (chunks : list chunk) : Prop :=
  forall c kv, In c chunks -> In kv c ->
               exists ch, In ch (all_channels h) /\ ch_path ch = fst kv /\ ch_dtype ch <> None.

Definition no_daqmx_channels (h : hierarchy) : Prop :=
  forall ch, In ch (all_channels h) -> ch_dtype ch <> Some T_DAQMX.

Definition channel_paths_distinct (h : hierarchy) : Prop := NoDup (map ch_path (all_channels h)).

(* what a channel's receiver holds after the data pass *)
Definition expected_data (chunks : list chunk) (c : channel) : option cdata :=
  match ch_dtype c with
  | None => None
  | Some _ => Some (CData (chan_values (ch_path c) chunks))
  end.

Lemma rd_eager_fold st h data :
  rd_eager st h data =
  (do recv0 <- fold_left recv0_step (all_channels h) (@Ok (alist (option cdata)) []);
   fold_left (eager_step data) (rs_segments st) (Ok recv0)).
Proof. reflexivity. Qed.

Theorem rd_eager_ser segs st h chunkss :
  wf_file segs ->
  sm_run segs false = Ok st ->
  segs_encode (rs_segments st) segs chunkss ->
  data_paths_are_channels h (concat chunkss) ->
  no_daqmx_channels h ->
  channel_paths_distinct h ->
  exists recv, rd_eager st h (ser_file segs) = Ok recv /\
               forall c, In c (all_channels h) ->
                         alookup (ch_path c) recv = Some (expected_data (concat chunkss) c).
Proof.
  intros Hwf Hrun Henc Hpaths Hnd Hdistinct.
  rewrite rd_eager_fold.
  destruct (recv0_fold (all_channels h) [] Hnd Hdistinct) as (recv0 & H0 & Hin0 & _).
  rewrite H0. cbn [bind].
  pose proof (sm_segment_positions segs false st Hrun) as Hat.
  destruct (eager_loop_ser (ser_file segs) segs (rs_segments st) chunkss [] recv0 Hwf eq_refl Hat Henc)
    as (recv & Hfold & Hlk).
  - intros c kv Hc Hkv. destruct (Hpaths c kv Hc Hkv) as (ch & Hch & Hp & Hty).
    rewrite <- Hp, (Hin0 ch Hch). unfold recv_init.
    destruct (ch_dtype ch); [|contradiction]. eexists. reflexivity.
  - exists recv. split; [exact Hfold|]. intros c Hc.
    rewrite Hlk, (Hin0 c Hc). cbn [option_map]. unfold recv_init, expected_data.
    destruct (ch_dtype c); reflexivity.
Qed.

(* ---- R6: the whole observation ---- *)

Lemma flat_map_ext_in' {A B} (f g : A -> list B) (l : list A) :
  (forall a, In a l -> f a = g a) -> flat_map f l = flat_map g l.
Proof.
  induction l as [|a l IH]; intros H; [reflexivity|].
  cbn [flat_map]. rewrite (H a (or_introl eq_refl)), IH; [reflexivity|].
  intros b Hb. apply H. right. exact Hb.
Qed.

Lemma obs_hierarchy_ext h (f g : channel -> list tok) :
  (forall c, In c (all_channels h) -> f c = g c) -> obs_hierarchy h f = obs_hierarchy h g.
Proof.
  intros H. unfold obs_hierarchy. f_equal. f_equal.
  apply flat_map_ext_in'. intros gr Hgr. f_equal. f_equal. f_equal.
  apply flat_map_ext_in'. intros kc Hkc. f_equal. apply H.
  unfold all_channels. apply in_flat_map. exists gr. split; [exact Hgr|].
  apply in_map. exact Hkc.
Qed.

Definition expected_tokens (st : rstate) (h : hierarchy) (chunks : list chunk) : list tok :=
  TZ (match rs_version st with Some v => v | None => 0 end) ::
  obs_hierarchy h (fun c => obs_cdata (expected_data chunks c)) ++ obs_status st.

(* every typed channel's declared length is the number of values the chunks hold for it *)
Definition lengths_consistent (h : hierarchy) (chunks : list chunk) : Prop :=
  forall c, In c (all_channels h) -> ch_dtype c <> None ->
            Z.of_nat (length (chan_values (ch_path c) chunks)) = ch_len c.

Theorem read_correct_given_lengths segs st h chunkss :
  wf_file segs ->
  sm_run segs false = Ok st ->
  build_hierarchy (rs_om st) = Ok h ->
  segs_encode (rs_segments st) segs chunkss ->
  data_paths_are_channels h (concat chunkss) ->
  no_daqmx_channels h ->
  channel_paths_distinct h ->
  lengths_consistent h (concat chunkss) ->
  rd_all (ser_file segs) = Ok (expected_tokens st h (concat chunkss), true).
Proof.
  intros Hwf Hrun Hh Henc Hpaths Hnd Hdistinct Hlen.
  unfold rd_all, rd_all_from.
  rewrite (rd_metadata_ser segs false Hwf), Hrun. cbn [bind]. rewrite Hh. cbn [bind].
  destruct (rd_eager_ser segs st h chunkss Hwf Hrun Henc Hpaths Hnd Hdistinct) as (recv & Heager & Hlk).
  rewrite Heager. cbn [bind]. unfold expected_tokens. f_equal. f_equal.
  - f_equal. f_equal. apply obs_hierarchy_ext. intros c Hc. rewrite (Hlk c Hc). reflexivity.
  - apply forallb_forall. intros c Hc. rewrite (Hlk c Hc). unfold expected_data.
    destruct (ch_dtype c) as [dt|] eqn:Edt; [|reflexivity].
    cbn [cdata_consistent]. apply Z.eqb_eq. apply Hlen; [exact Hc|]. rewrite Edt. discriminate.
Qed.

(* ---- boolean versions of the hypotheses about the hierarchy (sound) ---- *)

Definition typed_channel_b (c : channel) : bool :=
  match ch_dtype c with Some _ => true | None => false end.

Definition data_paths_are_channels_b (h : hierarchy) (chunks : list chunk) : bool :=
  forallb (fun c : chunk =>
             forallb (fun kv => existsb (fun ch => bytes_eqb (ch_path ch) (fst kv) && typed_channel_b ch)
                                        (all_channels h)) c) chunks.

Lemma data_paths_are_channels_b_sound h chunks :
  data_paths_are_channels_b h chunks = true -> data_paths_are_channels h chunks.
Proof.
  unfold data_paths_are_channels_b. intros H c kv Hc Hkv.
  rewrite forallb_forall in H. specialize (H c Hc). rewrite forallb_forall in H.
  specialize (H kv Hkv). apply existsb_exists in H. destruct H as (ch & Hch & Hb).
  apply andb_prop in Hb. destruct Hb as [Hp Hty]. apply bytes_eqb_eq in Hp.
  exists ch. split; [exact Hch|]. split; [exact Hp|].
  unfold typed_channel_b in Hty. destruct (ch_dtype ch); [discriminate|discriminate].
Qed.

Definition no_daqmx_channels_b (h : hierarchy) : bool :=
  forallb (fun ch => negb (oz_eqb (ch_dtype ch) (Some T_DAQMX))) (all_channels h).

Lemma no_daqmx_channels_b_sound h : no_daqmx_channels_b h = true -> no_daqmx_channels h.
Proof.
  unfold no_daqmx_channels_b. intros H ch Hch E. rewrite forallb_forall in H.
  specialize (H ch Hch). rewrite E in H. cbn [oz_eqb] in H. rewrite Z.eqb_refl in H. discriminate.
Qed.

Fixpoint nodup_paths_b (l : list bytes) : bool :=
  match l with
  | [] => true
  | x :: r => negb (existsb (bytes_eqb x) r) && nodup_paths_b r
  end.

Lemma nodup_paths_b_sound l : nodup_paths_b l = true -> NoDup l.
Proof.
  induction l as [|x r IH]; intros H; [constructor|].
  cbn [nodup_paths_b] in H. apply andb_prop in H. destruct H as [Hx Hr].
  constructor; [|apply IH; exact Hr].
  intros Hin. apply negb_true_iff in Hx.
  assert (Hex : existsb (bytes_eqb x) r = true).
  { apply existsb_exists. exists x. split; [exact Hin|apply bytes_eqb_refl]. }
  rewrite Hex in Hx. discriminate.
Qed.

Definition channel_paths_distinct_b (h : hierarchy) : bool :=
  nodup_paths_b (map ch_path (all_channels h)).

Lemma channel_paths_distinct_b_sound h : channel_paths_distinct_b h = true -> channel_paths_distinct h.
Proof. apply nodup_paths_b_sound. Qed.

Definition lengths_consistent_b (h : hierarchy) (chunks : list chunk) : bool :=
  forallb (fun c => negb (typed_channel_b c) ||
                    (Z.of_nat (length (chan_values (ch_path c) chunks)) =? ch_len c))
          (all_channels h).

Lemma lengths_consistent_b_sound h chunks :
  lengths_consistent_b h chunks = true -> lengths_consistent h chunks.
Proof.
  unfold lengths_consistent_b. intros H c Hc Hty. rewrite forallb_forall in H.
  specialize (H c Hc). unfold typed_channel_b in H.
  destruct (ch_dtype c); [|contradiction]. cbn [negb orb] in H. apply Z.eqb_eq. exact H.
Qed.

(* ---- the encoded chunks hold exactly the credited number of values ---- *)

(* values per chunk (contiguous) or per row set (interleaved) credited to [p] *)
Definition path_count (p : bytes) (w : sobj -> Z) (objs : list sobj) : Z :=
  zsum (map (fun o => if bytes_eqb p (so_path o) then w o else 0) objs).

Lemma path_count_cons p w o objs :
  path_count p w (o :: objs) = (if bytes_eqb p (so_path o) then w o else 0) + path_count p w objs.
Proof. reflexivity. Qed.

Lemma obj_total_data_objs p n f : forall objs,
    obj_total p objs n f = obj_total p (data_objs objs) n f.
Proof.
  unfold obj_total, data_objs.
  induction objs as [|o objs IH]; [reflexivity|].
  cbn [filter map zsum fold_right].
  destruct (so_has_data o) eqn:E.
  - cbn [map zsum fold_right]. unfold zsum in IH. rewrite IH. reflexivity.
  - unfold zsum in IH. rewrite IH. unfold seg_values. rewrite E. cbn [negb].
    destruct (bytes_eqb p (so_path o)); reflexivity.
Qed.

Lemma obj_total_no_final p n : forall dobjs,
    Forall (fun o => so_has_data o = true) dobjs ->
    obj_total p dobjs n None = n * path_count p so_nvals dobjs.
Proof.
  unfold obj_total, path_count.
  induction 1 as [|o dobjs Ho _ IH]; cbn [map zsum fold_right]; [lia|].
  unfold zsum in IH. rewrite IH. unfold seg_values. rewrite Ho. cbn [negb].
  destruct (bytes_eqb p (so_path o)); lia.
Qed.

Lemma data_objs_have_data objs : Forall (fun o => so_has_data o = true) (data_objs objs).
Proof. unfold data_objs. apply Forall_forall. intros o Ho. apply filter_In in Ho. tauto. Qed.

Lemma chunk_values_cons p k d c :
  chunk_values p ((k, d) :: c) = entry_values p (k, d) ++ chunk_values p c.
Proof. reflexivity. Qed.

(* one contiguous chunk *)
Lemma chunk_of_count p : forall dobjs vss,
    Forall2 (fun o vs => vals_ok (so_nvals o) o vs) dobjs vss ->
    Z.of_nat (length (chunk_values p (chunk_of (combine dobjs vss)))) = path_count p so_nvals dobjs.
Proof.
  induction 1 as [|o vs dobjs vss [Hn _] _ IH]; [reflexivity|].
  cbn [combine chunk_of map fst snd]. rewrite chunk_values_cons, app_length, Nat2Z.inj_add.
  fold (chunk_of (combine dobjs vss)). rewrite IH, path_count_cons.
  unfold entry_values. cbn [fst snd]. destruct (bytes_eqb p (so_path o)); [lia|reflexivity].
Qed.

Lemma chan_values_length_const p (k : Z) : forall chunks : list chunk,
    Forall (fun c => Z.of_nat (length (chunk_values p c)) = k) chunks ->
    Z.of_nat (length (chan_values p chunks)) = Z.of_nat (length chunks) * k.
Proof.
  induction 1 as [|c chunks Hc _ IH]; [reflexivity|].
  rewrite chan_values_cons, app_length, Nat2Z.inj_add, IH, Hc. cbn [length]. lia.
Qed.

(* the single chunk of an interleaved segment *)
Lemma cols_of_count p : forall dobjs rows,
    Z.of_nat (length (chunk_values p (cols_of dobjs rows))) =
    path_count p (fun _ => Z.of_nat (length rows)) dobjs.
Proof.
  induction dobjs as [|o dobjs IH]; intros rows; [reflexivity|].
  cbn [cols_of]. rewrite chunk_values_cons, app_length, Nat2Z.inj_add, IH, path_count_cons.
  unfold entry_values. cbn [fst snd]. rewrite map_length.
  destruct (bytes_eqb p (so_path o)); [rewrite map_length; reflexivity|reflexivity].
Qed.

Lemma path_count_ext p w w' objs :
  Forall (fun o => w o = w' o) objs -> path_count p w objs = path_count p w' objs.
Proof.
  unfold path_count. induction 1 as [|o objs Ho _ IH]; [reflexivity|].
  cbn [map zsum fold_right]. unfold zsum in IH. rewrite IH, Ho. reflexivity.
Qed.

Lemma path_count_scale p n w objs :
  path_count p (fun o => n * w o) objs = n * path_count p w objs.
Proof.
  unfold path_count. induction objs as [|o objs IH]; cbn [map zsum fold_right]; [lia|].
  unfold zsum in IH. rewrite IH. destruct (bytes_eqb p (so_path o)); lia.
Qed.

Theorem seg_encodes_count g data chunks p :
  seg_encodes g data chunks ->
  calculate_chunks (sg_toc g) (sg_incomplete g) (sg_objs g) (blen data) = Ok (sg_nchunks g, sg_final g) ->
  Z.of_nat (length (chan_values p chunks)) = seg_total p g.
Proof.
  intros Henc Hcc. unfold seg_total. rewrite obj_total_data_objs.
  destruct Henc as [Hd Hdata | css Hlay Hpos Hnd Hok Hds Hdata
                    | nv m rows Hlay Hne Hnv Hm Hobjs Hsz Hnd Hrows Hlen Hdata].
  - rewrite Hd. reflexivity.
  - subst data.
    pose proof (seg_layout_contig_chunk_size g Hlay) as Hcs.
    rewrite (enc_chunks_blen _ _ css Hds) in Hcc.
    rewrite (calculate_chunks_exact _ _ _ _ _ Hcs Hpos) in Hcc by lia.
    injection Hcc as Hn Hf. rewrite <- Hf, <- Hn.
    rewrite (obj_total_no_final p _ _ (data_objs_have_data _)).
    rewrite (chan_values_length_const p (path_count p so_nvals (data_objs (sg_objs g)))).
    + rewrite map_length. reflexivity.
    + apply Forall_map. eapply Forall_impl; [|exact Hok]. intros vss Hvss. cbn beta.
      apply chunk_of_count. exact Hvss.
  - subst data.
    pose proof (seg_layout_interleaved_chunk_size g Hlay) as Hcs.
    pose proof (width_pos _ Hne Hsz) as Hw.
    pose proof (interleaved_chunk_bytes nv _ Hobjs) as Hcb.
    rewrite (enc_rows_blen _ _ rows Hrows), Hlen in Hcc.
    replace (nv * m * zsum (map size_or0 (data_objs (sg_objs g))))
      with (m * zsum (map so_dsize (data_objs (sg_objs g)))) in Hcc by nia.
    rewrite (calculate_chunks_exact _ _ _ _ _ Hcs) in Hcc by nia.
    injection Hcc as Hn Hf. rewrite <- Hf, <- Hn.
    rewrite (obj_total_no_final p _ _ (data_objs_have_data _)).
    cbn [chan_values flat_map]. rewrite app_nil_r, cols_of_count, Hlen.
    rewrite (path_count_ext p (fun _ => nv * m) (fun o => m * so_nvals o)).
    + apply path_count_scale.
    + eapply Forall_impl; [|exact Hobjs]. intros o [Ho _]. cbn beta. rewrite Ho. lia.
Qed.

(* ---- the hierarchy's channels come from the per-object metadata ---- *)

Lemma In_aset {V} (k k0 : bytes) (v x : V) (l : alist V) :
  In (k, v) (aset k0 x l) -> (k = k0 /\ v = x) \/ In (k, v) l.
Proof.
  induction l as [|[k' v'] r IH]; cbn [aset In].
  - intros [H|[]]. injection H as <- <-. left. split; reflexivity.
  - destruct (bytes_eqb k0 k') eqn:E.
    + apply bytes_eqb_eq in E. subst k'. intros [H|H].
      * injection H as <- <-. left. split; reflexivity.
      * right. right. exact H.
    + intros [H|H]; [right; left; exact H|].
      destruct (IH H) as [H'|H']; [left; exact H'|right; right; exact H'].
Qed.

Lemma alookup_In {V} (k : bytes) (v : V) (l : alist V) : alookup k l = Some v -> In (k, v) l.
Proof.
  induction l as [|[k' v'] r IH]; cbn [alookup In]; [discriminate|].
  destruct (bytes_eqb k k') eqn:E.
  - apply bytes_eqb_eq in E. subst k'. intros H. injection H as <-. left. reflexivity.
  - intros H. right. apply IH. exact H.
Qed.

Definition chan_of_om (g c : bytes) (m : ometa) : channel :=
  mkChan g c (path_to_string (Some g) (Some c)) (om_dtype m) (om_scalers m) (om_len m) (om_props m).

Lemma hier_scan_cons pstr m r root gprops gchans :
  hier_scan ((pstr, m) :: r) root gprops gchans =
  match path_from_string pstr with
  | inl _ => Err EValue
  | inr (None, _) => hier_scan r root gprops gchans
  | inr (Some g, None) => hier_scan r root (aset g (om_props m) gprops) gchans
  | inr (Some g, Some c) =>
    hier_scan r root gprops
              (aset g ((match alookup g gchans with Some l => l | None => [] end) ++ [chan_of_om g c m]) gchans)
  end.
Proof. reflexivity. Qed.

Lemma hier_scan_chans (P : bytes -> channel -> Prop) :
  forall om root gprops gchans root' gprops' gchans',
    hier_scan om root gprops gchans = Ok (root', gprops', gchans') ->
    (forall pstr m g c, In (pstr, m) om -> path_from_string pstr = inr (Some g, Some c) ->
                        P g (chan_of_om g c m)) ->
    (forall k l ch, In (k, l) gchans -> In ch l -> P k ch) ->
    (forall k l ch, In (k, l) gchans' -> In ch l -> P k ch).
Proof.
  induction om as [|[pstr m] r IH]; intros root gprops gchans root' gprops' gchans' H Hom Hacc.
  - cbn [hier_scan] in H. injection H as _ _ <-. exact Hacc.
  - rewrite hier_scan_cons in H.
    assert (Hom' : forall pstr0 m0 g c, In (pstr0, m0) r -> path_from_string pstr0 = inr (Some g, Some c) ->
                                        P g (chan_of_om g c m0)).
    { intros pstr0 m0 g c Hin. apply Hom. right. exact Hin. }
    destruct (path_from_string pstr) as [e|[[g|] [c|]]] eqn:Ep; try discriminate.
    + refine (IH _ _ _ _ _ _ H Hom' _). intros k l ch Hkl Hch.
      apply In_aset in Hkl. destruct Hkl as [[-> ->]|Hkl]; [|exact (Hacc k l ch Hkl Hch)].
      apply in_app_or in Hch. destruct Hch as [Hch|[<-|[]]].
      * destruct (alookup g gchans) as [l0|] eqn:El; [|contradiction].
        apply alookup_In in El. exact (Hacc g l0 ch El Hch).
      * apply (Hom pstr m g c); [left; reflexivity|exact Ep].
    + exact (IH _ _ _ _ _ _ H Hom' Hacc).
    + exact (IH _ _ _ _ _ _ H Hom' Hacc).
    + exact (IH _ _ _ _ _ _ H Hom' Hacc).
Qed.

Lemma hier_scan_gprops_nodup : forall om root gprops gchans root' gprops' gchans',
    hier_scan om root gprops gchans = Ok (root', gprops', gchans') ->
    NoDup (map fst gprops) -> NoDup (map fst gprops').
Proof.
  induction om as [|[pstr m] r IH]; intros root gprops gchans root' gprops' gchans' H Hnd.
  - cbn [hier_scan] in H. injection H as _ <- _. exact Hnd.
  - rewrite hier_scan_cons in H.
    destruct (path_from_string pstr) as [e|[[g|] [c|]]]; try discriminate.
    + exact (IH _ _ _ _ _ _ H Hnd).
    + refine (IH _ _ _ _ _ _ H _). apply aset_keys_nodup. exact Hnd.
    + exact (IH _ _ _ _ _ _ H Hnd).
    + exact (IH _ _ _ _ _ _ H Hnd).
Qed.

Lemma chans_dict_gen : forall (l : list channel) acc,
    NoDup (map fst acc) ->
    (forall n ch, In (n, ch) acc -> ch_name ch = n) ->
    let d := fold_left (fun acc c => aset (ch_name c) c acc) l acc in
    NoDup (map fst d) /\
    forall n ch, In (n, ch) d -> ch_name ch = n /\ (In (n, ch) acc \/ In ch l).
Proof.
  induction l as [|c l IH]; intros acc Hnd Hacc; cbn zeta.
  - split; [exact Hnd|]. intros n ch H. split; [exact (Hacc n ch H)|left; exact H].
  - cbn [fold_left].
    destruct (IH (aset (ch_name c) c acc)) as [Hnd' Hin'].
    + apply aset_keys_nodup. exact Hnd.
    + intros n ch H. apply In_aset in H. destruct H as [[-> ->]|H]; [reflexivity|exact (Hacc n ch H)].
    + cbn zeta in Hnd', Hin'. split; [exact Hnd'|]. intros n ch H.
      destruct (Hin' n ch H) as [Hn [Ha|Hl]].
      * split; [exact Hn|]. apply In_aset in Ha.
        destruct Ha as [[_ ->]|Ha]; [right; left; reflexivity|left; exact Ha].
      * split; [exact Hn|]. right. right. exact Hl.
Qed.

Lemma chans_dict_spec l :
  NoDup (map fst (chans_dict l)) /\
  forall n ch, In (n, ch) (chans_dict l) -> ch_name ch = n /\ In ch l.
Proof.
  unfold chans_dict. destruct (chans_dict_gen l []) as [Hnd Hin].
  - constructor.
  - intros n ch [].
  - cbn zeta in Hnd, Hin. split; [exact Hnd|]. intros n ch H.
    destruct (Hin n ch H) as [Hn [[]|Hl]]. split; assumption.
Qed.

Lemma chans_dict_In l n ch : In (n, ch) (chans_dict l) -> In ch l.
Proof. intros H. apply (proj2 (chans_dict_spec l)) in H. tauto. Qed.

(* a group of the hierarchy: its channel dictionary has distinct keys, each
   key is the channel's name, and each channel sits in the scan's list for
   this group's name *)
Definition group_ok (gchans : alist (list channel)) (kg : bytes * group) : Prop :=
  NoDup (map fst (g_chans (snd kg))) /\
  forall n ch, In (n, ch) (g_chans (snd kg)) ->
               ch_name ch = n /\ exists l, In (fst kg, l) gchans /\ In ch l.

Lemma groups_fold_ok (gchans : alist (list channel)) : forall (rest : alist (list channel)) acc,
    incl rest gchans ->
    NoDup (map fst acc) ->
    Forall (group_ok gchans) acc ->
    let groups := fold_left (fun acc kv =>
                               match alookup (fst kv) acc with
                               | Some _ => acc
                               | None => acc ++ [(fst kv, mkGroup (fst kv) [] (chans_dict (snd kv)))]
                               end) rest acc in
    NoDup (map fst groups) /\ Forall (group_ok gchans) groups.
Proof.
  induction rest as [|[k l] rest IH]; intros acc Hincl Hnd Hacc; cbn zeta; [split; assumption|].
  cbn [fold_left fst snd]. apply IH.
  - intros x Hx. apply Hincl. right. exact Hx.
  - destruct (alookup k acc) eqn:E; [exact Hnd|].
    rewrite map_app. cbn [map fst]. apply NoDup_app_intro; [exact Hnd|repeat constructor; intros []|].
    intros x Hx [<-|[]]. exact (alookup_none_not_in _ _ E Hx).
  - destruct (alookup k acc); [exact Hacc|].
    apply Forall_app. split; [exact Hacc|]. constructor; [|constructor].
    unfold group_ok. cbn [fst snd g_chans]. destruct (chans_dict_spec l) as [Hnd' Hin'].
    split; [exact Hnd'|]. intros n ch Hin. destruct (Hin' n ch Hin) as [Hn Hl].
    split; [exact Hn|]. exists l. split; [apply Hincl; left; reflexivity|exact Hl].
Qed.

(* what build_hierarchy makes a channel from *)
Definition chan_from_om (om : alist ometa) (ch : channel) : Prop :=
  exists pstr m, In (pstr, m) om /\
                 path_from_string pstr = inr (Some (ch_group ch), Some (ch_name ch)) /\
                 ch = chan_of_om (ch_group ch) (ch_name ch) m.

Theorem build_hierarchy_structure om h :
  build_hierarchy om = Ok h ->
  NoDup (map fst (h_groups h)) /\
  Forall (fun kg => NoDup (map fst (g_chans (snd kg))) /\
                    forall n ch, In (n, ch) (g_chans (snd kg)) ->
                                 ch_name ch = n /\ ch_group ch = fst kg /\ chan_from_om om ch)
         (h_groups h).
Proof.
  unfold build_hierarchy. cbv zeta.
  destruct (hier_scan om _ [] []) as [[[root' gprops] gchans]|e] eqn:Hscan; cbn [bind]; [|discriminate].
  intros H. injection H as <-. cbn [h_groups].
  pose proof (hier_scan_gprops_nodup _ _ _ _ _ _ _ Hscan (NoDup_nil _)) as Hgp.
  destruct (groups_fold_ok gchans gchans
              (map (fun kv => (fst kv, mkGroup (fst kv) (snd kv)
                                  (chans_dict (match alookup (fst kv) gchans with
                                               | Some l => l | None => [] end))))
                   gprops)) as [Hnd Hall].
  - apply incl_refl.
  - rewrite map_map. cbn [fst]. exact Hgp.
  - apply Forall_map. apply Forall_forall. intros [k0 ps] _. unfold group_ok. cbn [fst snd g_chans].
    destruct (chans_dict_spec (match alookup k0 gchans with Some l => l | None => [] end)) as [Hnd' Hin'].
    split; [exact Hnd'|]. intros n ch Hin. destruct (Hin' n ch Hin) as [Hn Hl].
    split; [exact Hn|]. destruct (alookup k0 gchans) as [l|] eqn:El; [|contradiction].
    exists l. split; [apply alookup_In; exact El|exact Hl].
  - cbn zeta in Hnd, Hall. split; [exact Hnd|].
    eapply Forall_impl; [|exact Hall]. intros [k grp] [Hnd' Hin']. cbn [fst snd] in *.
    split; [exact Hnd'|]. intros n ch Hin. destruct (Hin' n ch Hin) as [Hn (l & Hkl & Hchl)].
    split; [exact Hn|].
    refine (hier_scan_chans (fun k ch => ch_group ch = k /\ chan_from_om om ch)
                            om _ [] [] root' gprops gchans Hscan _ _ k l ch Hkl Hchl).
    + intros pstr m g c Hin0 Hp. split; [reflexivity|].
      exists pstr, m. split; [exact Hin0|]. split; [exact Hp|reflexivity].
    + intros k0 l0 ch0 [].
Qed.

Theorem build_hierarchy_channels om h :
  build_hierarchy om = Ok h -> forall ch, In ch (all_channels h) -> chan_from_om om ch.
Proof.
  intros Hh ch Hch. destruct (build_hierarchy_structure om h Hh) as [_ Hall].
  unfold all_channels in Hch. apply in_flat_map in Hch.
  destruct Hch as ([k grp] & Hgrp & Hch). cbn [snd] in Hch. apply in_map_iff in Hch.
  destruct Hch as ([n ch'] & Heq & Hin). cbn [snd] in Heq. subst ch'.
  rewrite Forall_forall in Hall. destruct (Hall (k, grp) Hgrp) as [_ Hg]. cbn [snd] in Hg.
  destruct (Hg n ch Hin) as (_ & _ & H). exact H.
Qed.

(* ---- distinct channels have distinct (group, name) pairs, hence distinct paths ---- *)

Lemma NoDup_map_in {A B C} (f : A -> B) (g : A -> C) (l : list A) :
  NoDup (map f l) ->
  (forall x y, In x l -> In y l -> g x = g y -> f x = f y) ->
  NoDup (map g l).
Proof.
  induction l as [|a l IH]; intros Hnd Hinj; [constructor|].
  cbn [map] in *. inversion Hnd as [|x y Hnin Hnd']; subst x y. constructor.
  - intros Hin. apply in_map_iff in Hin. destruct Hin as (y & Hy & Hyl).
    apply Hnin. rewrite (Hinj a y (or_introl eq_refl) (or_intror Hyl) (eq_sym Hy)).
    apply in_map. exact Hyl.
  - apply IH; [exact Hnd'|]. intros x y Hx Hy. apply Hinj; right; assumption.
Qed.

Definition chan_key (c : channel) : bytes * bytes := (ch_group c, ch_name c).

Lemma all_channels_keys_nodup : forall (groups : alist group),
    NoDup (map fst groups) ->
    Forall (fun kg => NoDup (map fst (g_chans (snd kg))) /\
                      forall n ch, In (n, ch) (g_chans (snd kg)) -> ch_name ch = n /\ ch_group ch = fst kg)
           groups ->
    NoDup (map chan_key (flat_map (fun g => map snd (g_chans (snd g))) groups)).
Proof.
  induction groups as [|[k grp] groups IH]; intros Hnd Hall; [constructor|].
  cbn [map fst] in Hnd. inversion Hnd as [|x y Hnin Hnd']; subst x y.
  inversion Hall as [|x y [Hg1 Hg2] Hall']; subst x y. cbn [fst snd] in Hg1, Hg2.
  cbn [flat_map snd]. rewrite map_app. apply NoDup_app_intro.
  - rewrite map_map. apply (NoDup_map_in fst _ _ Hg1).
    intros [n1 c1] [n2 c2] H1 H2 Heq. cbn [fst snd] in *.
    destruct (Hg2 n1 c1 H1) as [<- _]. destruct (Hg2 n2 c2 H2) as [<- _].
    unfold chan_key in Heq. congruence.
  - apply IH; assumption.
  - intros key H1 H2. rewrite map_map in H1. apply in_map_iff in H1.
    destruct H1 as ([n1 c1] & <- & H1). cbn [snd] in H2.
    apply in_map_iff in H2. destruct H2 as (c2 & Hkey & H2).
    apply in_flat_map in H2. destruct H2 as ([k2 grp2] & Hgrp2 & H2). cbn [snd] in H2.
    apply in_map_iff in H2. destruct H2 as ([n2 c2'] & Heq & H2). cbn [snd] in Heq. subst c2'.
    rewrite Forall_forall in Hall'. destruct (Hall' (k2, grp2) Hgrp2) as [_ Hg2']. cbn [fst snd] in Hg2'.
    destruct (Hg2 n1 c1 H1) as [_ Hk1]. destruct (Hg2' n2 c2 H2) as [_ Hk2].
    unfold chan_key in Hkey. assert (Hk : k2 = k) by congruence.
    apply Hnin. rewrite <- Hk. apply (in_map fst groups (k2, grp2)). exact Hgrp2.
Qed.

(* ---- lengths: ch_len is the number of encoded values ---- *)

Lemma segs_total_count p : forall gs segs chunkss pos,
    segs_at pos segs gs ->
    segs_encode gs segs chunkss ->
    zsum (map (seg_total p) gs) = Z.of_nat (length (chan_values p (concat chunkss))).
Proof.
  induction gs as [|g gs IH]; intros segs chunkss pos Hat Henc.
  - inversion Henc; subst. reflexivity.
  - inversion Henc as [|g' gs' s r cs css Hcs Henc']; subst.
    inversion Hat as [|pos' s' r' g' gs' Hg Hat']; subst.
    cbn [map zsum fold_right concat]. rewrite chan_values_app, app_length, Nat2Z.inj_add.
    fold (zsum (map (seg_total p) gs)). rewrite (IH r css _ Hat' Henc').
    destruct Hg as (_ & _ & _ & _ & _ & Hcc).
    rewrite (seg_encodes_count g (fs_data s) cs p Hcs Hcc). reflexivity.
Qed.

(* the per-object value count of the metadata pass is the number of values the
   file's raw data encodes for that path *)
Theorem om_len_counts_values segs w st chunkss p :
  sm_run segs w = Ok st ->
  segs_encode (rs_segments st) segs chunkss ->
  om_len (get_ometa p (rs_om st)) = Z.of_nat (length (chan_values p (concat chunkss))).
Proof.
  intros Hrun Henc. destruct (sm_run_trace segs w st Hrun) as (Hat & Hlen & _).
  rewrite Hlen. exact (segs_total_count p _ _ _ _ Hat Henc).
Qed.

(* object paths that name a channel are in canonical form: re-serialising the
   parsed components gives the string back (ObjectPath.from_string then
   str(); true of every path npTDMS or LabVIEW writes) *)
Definition om_paths_canonical (om : alist ometa) : Prop :=
  forall p m g c, In (p, m) om ->
                  path_from_string p = inr (Some g, Some c) ->
                  path_to_string (Some g) (Some c) = p.

(* with canonical paths, a channel of the hierarchy IS the metadata entry stored
   under its own path *)
Lemma chan_from_om_canonical om ch :
  om_paths_canonical om -> chan_from_om om ch ->
  exists m, In (ch_path ch, m) om /\
            path_from_string (ch_path ch) = inr (Some (ch_group ch), Some (ch_name ch)) /\
            ch_dtype ch = om_dtype m /\ ch_len ch = om_len m.
Proof.
  intros Hcanon (pstr & m & Hin & Hp & Heq).
  assert (Hpath : ch_path ch = pstr).
  { rewrite Heq. cbn [chan_of_om ch_path]. exact (Hcanon pstr m _ _ Hin Hp). }
  exists m. rewrite Hpath. split; [exact Hin|]. split; [exact Hp|].
  split; rewrite Heq; reflexivity.
Qed.

Theorem channel_paths_distinct_ser om h :
  build_hierarchy om = Ok h -> om_paths_canonical om -> channel_paths_distinct h.
Proof.
  intros Hh Hcanon. unfold channel_paths_distinct.
  destruct (build_hierarchy_structure om h Hh) as [Hnd Hall].
  apply (NoDup_map_in chan_key ch_path).
  - unfold all_channels. apply all_channels_keys_nodup; [exact Hnd|].
    eapply Forall_impl; [|exact Hall]. intros kg [H1 H2]. split; [exact H1|].
    intros n ch Hin. destruct (H2 n ch Hin) as (Hn & Hg & _). split; assumption.
  - intros x y Hx Hy Heq.
    destruct (chan_from_om_canonical om x Hcanon (build_hierarchy_channels om h Hh x Hx))
      as (mx & _ & Hpx & _).
    destruct (chan_from_om_canonical om y Hcanon (build_hierarchy_channels om h Hh y Hy))
      as (my & _ & Hpy & _).
    rewrite Heq, Hpy in Hpx. unfold chan_key. congruence.
Qed.

Theorem lengths_consistent_ser segs w st h chunkss :
  sm_run segs w = Ok st ->
  build_hierarchy (rs_om st) = Ok h ->
  segs_encode (rs_segments st) segs chunkss ->
  om_paths_canonical (rs_om st) ->
  lengths_consistent h (concat chunkss).
Proof.
  intros Hrun Hh Henc Hcanon c Hc Hty.
  destruct (chan_from_om_canonical _ c Hcanon (build_hierarchy_channels _ _ Hh c Hc))
    as (m & Hin & _ & _ & Hlen).
  destruct (sm_run_trace segs w st Hrun) as (_ & _ & Hnd & _).
  pose proof (alookup_in_nodup _ m (rs_om st) Hnd Hin) as Hlk.
  rewrite Hlen, <- (om_len_counts_values segs w st chunkss (ch_path c) Hrun Henc).
  unfold get_ometa. rewrite Hlk. reflexivity.
Qed.

(* R6 with length consistency and distinctness of channel paths discharged *)
Theorem read_correct_given_channels segs st h chunkss :
  wf_file segs ->
  sm_run segs false = Ok st ->
  build_hierarchy (rs_om st) = Ok h ->
  segs_encode (rs_segments st) segs chunkss ->
  data_paths_are_channels h (concat chunkss) ->
  no_daqmx_channels h ->
  om_paths_canonical (rs_om st) ->
  rd_all (ser_file segs) = Ok (expected_tokens st h (concat chunkss), true).
Proof.
  intros Hwf Hrun Hh Henc Hpaths Hnd Hcanon.
  apply read_correct_given_lengths; try assumption.
  - exact (channel_paths_distinct_ser _ h Hh Hcanon).
  - exact (lengths_consistent_ser segs false st h chunkss Hrun Hh Henc Hcanon).
Qed.

Definition om_paths_canonical_b (om : alist ometa) : bool :=
  forallb (fun pm : bytes * ometa =>
             match path_from_string (fst pm) with
             | inr (Some g, Some c) => bytes_eqb (path_to_string (Some g) (Some c)) (fst pm)
             | _ => true
             end) om.

Lemma om_paths_canonical_b_sound om : om_paths_canonical_b om = true -> om_paths_canonical om.
Proof.
  unfold om_paths_canonical_b. intros H p m g c Hin Hp. rewrite forallb_forall in H.
  specialize (H (p, m) Hin). cbn [fst] in H. rewrite Hp in H. apply bytes_eqb_eq. exact H.
Qed.

(* ---- every path with data is a typed channel of the hierarchy ---- *)

(* (a) the keys of the decoded chunks are paths of typed data objects *)
Lemma vals_ok_dtype n o vs : vals_ok n o vs -> so_dtype o <> None.
Proof. intros [_ H] E. rewrite E in H. exact H. Qed.

Lemma sized_dtype o : sized o <> None -> so_dtype o <> None.
Proof. unfold sized. intros H E. rewrite E in H. apply H. reflexivity. Qed.

Lemma chunk_of_keys dobjs : forall vss kv,
    Forall2 (fun o vs => vals_ok (so_nvals o) o vs) dobjs vss ->
    In kv (chunk_of (combine dobjs vss)) ->
    exists o, In o dobjs /\ so_path o = fst kv /\ so_dtype o <> None.
Proof.
  intros vss kv Hok Hin. unfold chunk_of in Hin. apply in_map_iff in Hin.
  destruct Hin as ([o vs] & <- & Hin). cbn [fst snd].
  apply Forall2_combine in Hok. destruct Hok as [Hall _]. rewrite Forall_forall in Hall.
  specialize (Hall (o, vs) Hin). cbn [fst snd] in Hall.
  exists o. split; [exact (in_combine_l _ _ _ _ Hin)|]. split; [reflexivity|].
  exact (vals_ok_dtype _ _ _ Hall).
Qed.

Lemma cols_of_keys : forall dobjs rows kv,
    In kv (cols_of dobjs rows) -> exists o, In o dobjs /\ so_path o = fst kv.
Proof.
  induction dobjs as [|o dobjs IH]; intros rows kv Hin; [contradiction|].
  cbn [cols_of] in Hin. destruct Hin as [<-|Hin].
  - exists o. split; [left; reflexivity|reflexivity].
  - destruct (IH _ _ Hin) as (o' & Ho' & Hp). exists o'. split; [right; exact Ho'|exact Hp].
Qed.

Lemma seg_encodes_keys g data chunks :
  seg_encodes g data chunks ->
  forall c kv, In c chunks -> In kv c ->
               exists o, In o (sg_objs g) /\ so_path o = fst kv /\ so_dtype o <> None.
Proof.
  assert (Hsub : forall o, In o (data_objs (sg_objs g)) -> In o (sg_objs g)).
  { intros o Ho. unfold data_objs in Ho. apply filter_In in Ho. tauto. }
  intros Henc c kv Hc Hkv.
  destruct Henc as [Hd Hdata | css Hlay Hpos Hnd Hok Hds Hdata
                    | nv m rows Hlay Hne Hnv Hm Hobjs Hsz Hnd Hrows Hlen Hdata].
  - contradiction.
  - apply in_map_iff in Hc. destruct Hc as (vss & <- & Hvss).
    rewrite Forall_forall in Hok.
    destruct (chunk_of_keys _ vss kv (Hok vss Hvss) Hkv) as (o & Ho & Hp & Hty).
    exists o. split; [exact (Hsub o Ho)|]. split; assumption.
  - destruct Hc as [<-|[]]. destruct (cols_of_keys _ _ _ Hkv) as (o & Ho & Hp).
    exists o. split; [exact (Hsub o Ho)|]. split; [exact Hp|].
    rewrite Forall_forall in Hsz. exact (sized_dtype o (Hsz o Ho)).
Qed.

Lemma segs_encode_chunk_origin : forall gs segs chunkss,
    segs_encode gs segs chunkss ->
    forall c, In c (concat chunkss) ->
              exists g s cs, In g gs /\ seg_encodes g (fs_data s) cs /\ In c cs.
Proof.
  induction 1 as [|g gs s r cs css Hcs _ IH]; intros c Hc; [contradiction|].
  cbn [concat] in Hc. apply in_app_or in Hc. destruct Hc as [Hc|Hc].
  - exists g, s, cs. split; [left; reflexivity|]. split; assumption.
  - destruct (IH c Hc) as (g' & s' & cs' & Hg' & Henc' & Hc').
    exists g', s', cs'. split; [right; exact Hg'|]. split; assumption.
Qed.

(* (c) every metadata entry whose path names a channel IS a channel of the hierarchy *)
Lemma alookup_app {V} (k : bytes) (a b : alist V) :
  alookup k (a ++ b) = match alookup k a with Some v => Some v | None => alookup k b end.
Proof.
  induction a as [|[k' v'] a IH]; [reflexivity|]. cbn [app alookup].
  destruct (bytes_eqb k k'); [reflexivity|exact IH].
Qed.

Lemma hier_scan_complete : forall om root gprops gchans root' gprops' gchans',
    hier_scan om root gprops gchans = Ok (root', gprops', gchans') ->
    (forall k l, alookup k gchans = Some l -> exists l', alookup k gchans' = Some l' /\ incl l l') /\
    (forall p m g c, In (p, m) om -> path_from_string p = inr (Some g, Some c) ->
                     exists l', alookup g gchans' = Some l' /\ In (chan_of_om g c m) l').
Proof.
  induction om as [|[pstr m] r IH]; intros root gprops gchans root' gprops' gchans' H.
  - cbn [hier_scan] in H. injection H as _ _ <-. split.
    + intros k l Hk. exists l. split; [exact Hk|apply incl_refl].
    + intros p m g c [].
  - rewrite hier_scan_cons in H.
    destruct (path_from_string pstr) as [e|[[g|] [c|]]] eqn:Ep; try discriminate.
    + (* a channel entry *)
      destruct (IH _ _ _ _ _ _ H) as [Hkeep Hnew].
      set (l0 := match alookup g gchans with Some l => l | None => [] end) in *.
      assert (Hg : exists l', alookup g gchans' = Some l' /\ incl (l0 ++ [chan_of_om g c m]) l').
      { apply Hkeep. rewrite alookup_aset, bytes_eqb_refl. reflexivity. }
      split.
      * intros k l Hk. destruct (bytes_eqb k g) eqn:E.
        -- apply bytes_eqb_eq in E. subst k. destruct Hg as (l' & Hl' & Hincl).
           exists l'. split; [exact Hl'|]. intros x Hx. apply Hincl. apply in_or_app. left.
           unfold l0. rewrite Hk. exact Hx.
        -- apply Hkeep. rewrite alookup_aset, E. exact Hk.
      * intros p m0 g0 c0 [Heq|Hin] Hp.
        -- injection Heq as -> ->. rewrite Ep in Hp. injection Hp as <- <-.
           destruct Hg as (l' & Hl' & Hincl). exists l'. split; [exact Hl'|].
           apply Hincl. apply in_or_app. right. left. reflexivity.
        -- exact (Hnew p m0 g0 c0 Hin Hp).
    + destruct (IH _ _ _ _ _ _ H) as [Hkeep Hnew]. split; [exact Hkeep|].
      intros p m0 g0 c0 [Heq|Hin] Hp; [|exact (Hnew p m0 g0 c0 Hin Hp)].
      injection Heq as -> ->. rewrite Ep in Hp. discriminate.
    + destruct (IH _ _ _ _ _ _ H) as [Hkeep Hnew]. split; [exact Hkeep|].
      intros p m0 g0 c0 [Heq|Hin] Hp; [|exact (Hnew p m0 g0 c0 Hin Hp)].
      injection Heq as -> ->. rewrite Ep in Hp. discriminate.
    + destruct (IH _ _ _ _ _ _ H) as [Hkeep Hnew]. split; [exact Hkeep|].
      intros p m0 g0 c0 [Heq|Hin] Hp; [|exact (Hnew p m0 g0 c0 Hin Hp)].
      injection Heq as -> ->. rewrite Ep in Hp. discriminate.
Qed.

Definition group_of_list (k : bytes) (l : list channel) : group := mkGroup k [] (chans_dict l).

Lemma groups_fold_lookup : forall (rest : alist (list channel)) (acc : alist group) k,
    alookup k (fold_left (fun acc kv =>
                            match alookup (fst kv) acc with
                            | Some _ => acc
                            | None => acc ++ [(fst kv, mkGroup (fst kv) [] (chans_dict (snd kv)))]
                            end) rest acc) =
    match alookup k acc with
    | Some grp => Some grp
    | None => option_map (group_of_list k) (alookup k rest)
    end.
Proof.
  induction rest as [|[k0 l0] rest IH]; intros acc k.
  - cbn [fold_left alookup option_map]. destruct (alookup k acc); reflexivity.
  - cbn [fold_left fst snd]. rewrite IH. cbn [alookup].
    destruct (alookup k0 acc) as [g0|] eqn:E0.
    + destruct (alookup k acc) as [grp|] eqn:Ek; [reflexivity|].
      destruct (bytes_eqb k k0) eqn:E; [|reflexivity].
      apply bytes_eqb_eq in E. subst k0. congruence.
    + rewrite alookup_app. destruct (alookup k acc) as [grp|] eqn:Ek; [reflexivity|].
      cbn [alookup]. destruct (bytes_eqb k k0) eqn:E; [|reflexivity].
      apply bytes_eqb_eq in E. subst k0. reflexivity.
Qed.

Lemma declared_lookup (gchans : alist (list channel)) : forall (gprops : alist (alist prop)) k,
    alookup k (map (fun kv => (fst kv, mkGroup (fst kv) (snd kv)
                                  (chans_dict (match alookup (fst kv) gchans with
                                               | Some l => l | None => [] end))))
                   gprops) =
    option_map (fun ps => mkGroup k ps (chans_dict (match alookup k gchans with
                                                     | Some l => l | None => [] end)))
               (alookup k gprops).
Proof.
  induction gprops as [|[k0 ps] gprops IH]; intros k; [reflexivity|].
  cbn [map alookup fst snd]. destruct (bytes_eqb k k0) eqn:E; [|apply IH].
  apply bytes_eqb_eq in E. subst k0. reflexivity.
Qed.

Lemma chans_dict_complete_gen (ch : channel) : forall (l : list channel) acc,
    (alookup (ch_name ch) acc = Some ch \/ In ch l) ->
    (forall ch', In ch' l -> ch_name ch' = ch_name ch -> ch' = ch) ->
    alookup (ch_name ch) (fold_left (fun acc c => aset (ch_name c) c acc) l acc) = Some ch.
Proof.
  induction l as [|c l IH]; intros acc Hor Huniq.
  - destruct Hor as [H|[]]. exact H.
  - cbn [fold_left]. apply IH.
    + destruct (bytes_eqb (ch_name ch) (ch_name c)) eqn:E.
      * apply bytes_eqb_eq in E. left. rewrite alookup_aset, E, bytes_eqb_refl.
        f_equal. apply Huniq; [left; reflexivity|symmetry; exact E].
      * destruct Hor as [H|[->|H]].
        -- left. rewrite alookup_aset, E. exact H.
        -- rewrite bytes_eqb_refl in E. discriminate.
        -- right. exact H.
    + intros ch' Hin. apply Huniq. right. exact Hin.
Qed.

Lemma chans_dict_complete ch l :
  In ch l -> (forall ch', In ch' l -> ch_name ch' = ch_name ch -> ch' = ch) ->
  In (ch_name ch, ch) (chans_dict l).
Proof.
  intros Hin Huniq. apply alookup_In. unfold chans_dict.
  apply chans_dict_complete_gen; [right; exact Hin|exact Huniq].
Qed.

Theorem build_hierarchy_complete om h p m g c :
  build_hierarchy om = Ok h ->
  NoDup (map fst om) ->
  om_paths_canonical om ->
  In (p, m) om ->
  path_from_string p = inr (Some g, Some c) ->
  In (chan_of_om g c m) (all_channels h).
Proof.
  intros Hh Hnd Hcanon Hin Hp. unfold build_hierarchy in Hh. cbv zeta in Hh.
  destruct (hier_scan om _ [] []) as [[[root' gprops] gchans]|e] eqn:Hscan; cbn [bind] in Hh; [|discriminate].
  injection Hh as <-.
  destruct (hier_scan_complete _ _ _ _ _ _ _ Hscan) as [_ Hnew].
  destruct (Hnew p m g c Hin Hp) as (l & Hl & Hch).
  (* the group exists and its dictionary is chans_dict l *)
  assert (Hgrp : exists grp, In (g, grp)
                               (fold_left (fun acc kv =>
                                      match alookup (fst kv) acc with
                                      | Some _ => acc
                                      | None => acc ++ [(fst kv, mkGroup (fst kv) [] (chans_dict (snd kv)))]
                                      end) gchans
                                   (map (fun kv => (fst kv, mkGroup (fst kv) (snd kv)
                                                       (chans_dict (match alookup (fst kv) gchans with
                                                                    | Some l => l | None => [] end))))
                                        gprops))
                             /\ g_chans grp = chans_dict l).
  { pose proof (groups_fold_lookup gchans
                  (map (fun kv => (fst kv, mkGroup (fst kv) (snd kv)
                                      (chans_dict (match alookup (fst kv) gchans with
                                                   | Some l => l | None => [] end))))
                       gprops) g) as Hlk.
    rewrite declared_lookup, Hl in Hlk.
    destruct (alookup g gprops) as [ps|]; cbn [option_map] in Hlk.
    - eexists. split; [apply alookup_In; exact Hlk|reflexivity].
    - eexists. split; [apply alookup_In; exact Hlk|reflexivity]. }
  destruct Hgrp as (grp & Hgin & Hgch).
  unfold all_channels. cbn [h_groups]. apply in_flat_map. exists (g, grp). split; [exact Hgin|].
  cbn [snd]. rewrite Hgch.
  apply (in_map snd _ (c, chan_of_om g c m)).
  change c with (ch_name (chan_of_om g c m)) at 1.
  apply chans_dict_complete; [exact Hch|].
  (* any channel of this group with the same name is the same metadata entry *)
  intros ch' Hch' Hname.
  assert (Hl' : In (g, l) gchans) by (apply alookup_In; exact Hl).
  destruct (hier_scan_chans (fun k ch => ch_group ch = k /\ chan_from_om om ch)
                            om _ [] [] root' gprops gchans Hscan) with (k := g) (l := l) (ch := ch')
    as [Hg' (p' & m' & Hin' & Hp' & Heq')]; try assumption.
  { intros pstr m0 g0 c0 Hin0 Hp0. split; [reflexivity|].
    exists pstr, m0. split; [exact Hin0|]. split; [exact Hp0|reflexivity]. }
  { intros k0 l0 ch0 []. }
  cbn [chan_of_om ch_name] in Hname. rewrite Hg', Hname in Hp'.
  assert (Hpp : p' = p).
  { rewrite <- (Hcanon p' m' g c Hin' Hp'). exact (Hcanon p m g c Hin Hp). }
  subst p'.
  assert (Hmm : m' = m).
  { pose proof (alookup_in_nodup p m' om Hnd Hin') as H1.
    pose proof (alookup_in_nodup p m om Hnd Hin) as H2. congruence. }
  subst m'. rewrite Heq', Hg', Hname. reflexivity.
Qed.

(* every object that has a data type is a channel: its path has a group and a
   channel component (data on the root or on a group object has no reader API) *)
Definition typed_objects_are_channels (om : alist ometa) : Prop :=
  forall p m, In (p, m) om -> om_dtype m <> None ->
              exists g c, path_from_string p = inr (Some g, Some c).

Theorem data_paths_are_channels_ser segs w st h chunkss :
  sm_run segs w = Ok st ->
  build_hierarchy (rs_om st) = Ok h ->
  segs_encode (rs_segments st) segs chunkss ->
  om_paths_canonical (rs_om st) ->
  typed_objects_are_channels (rs_om st) ->
  data_paths_are_channels h (concat chunkss).
Proof.
  intros Hrun Hh Henc Hcanon Hshape c kv Hc Hkv.
  destruct (segs_encode_chunk_origin _ _ _ Henc c Hc) as (g & s & cs & Hg & Hcs & Hccs).
  destruct (seg_encodes_keys g _ cs Hcs c kv Hccs Hkv) as (o & Ho & Hp & Hty).
  destruct (sm_run_trace segs w st Hrun) as (_ & _ & Hnd & Htyped & _).
  destruct (Htyped g o Hg Ho Hty) as (m & Hm & Hmty).
  apply alookup_In in Hm.
  destruct (Hshape _ m Hm Hmty) as (gn & cn & Hparse).
  exists (chan_of_om gn cn m). split; [|split].
  - exact (build_hierarchy_complete _ h _ m gn cn Hh Hnd Hcanon Hm Hparse).
  - change (path_to_string (Some gn) (Some cn) = fst kv).
    rewrite (Hcanon _ m gn cn Hm Hparse). exact Hp.
  - exact Hmty.
Qed.

Definition typed_objects_are_channels_b (om : alist ometa) : bool :=
  forallb (fun pm : bytes * ometa =>
             match om_dtype (snd pm) with
             | None => true
             | Some _ => match path_from_string (fst pm) with
                         | inr (Some _, Some _) => true
                         | _ => false
                         end
             end) om.

Lemma typed_objects_are_channels_b_sound om :
  typed_objects_are_channels_b om = true -> typed_objects_are_channels om.
Proof.
  unfold typed_objects_are_channels_b. intros H p m Hin Hty. rewrite forallb_forall in H.
  specialize (H (p, m) Hin). cbn [fst snd] in H.
  destruct (om_dtype m); [|contradiction].
  destruct (path_from_string p) as [e|[[g|] [c|]]]; try discriminate.
  exists g, c. reflexivity.
Qed.

(* R6 with the channel hypothesis discharged as well; no_daqmx_channels remains *)
Theorem read_correct_given_no_daqmx segs st h chunkss :
  wf_file segs ->
  sm_run segs false = Ok st ->
  build_hierarchy (rs_om st) = Ok h ->
  segs_encode (rs_segments st) segs chunkss ->
  no_daqmx_channels h ->
  om_paths_canonical (rs_om st) ->
  typed_objects_are_channels (rs_om st) ->
  rd_all (ser_file segs) = Ok (expected_tokens st h (concat chunkss), true).
Proof.
  intros Hwf Hrun Hh Henc Hnd Hcanon Hshape.
  apply read_correct_given_channels; try assumption.
  exact (data_paths_are_channels_ser segs false st h chunkss Hrun Hh Henc Hcanon Hshape).
Qed.

(* ---- reading the statement: chunk_values is a dictionary lookup ---- *)

Lemma chunk_values_not_in p (c : chunk) : ~ In p (map fst c) -> chunk_values p c = [].
Proof.
  induction c as [|[k d] c IH]; intros H; [reflexivity|].
  rewrite chunk_values_cons. unfold entry_values. cbn [fst snd].
  destruct (bytes_eqb p k) eqn:E.
  - apply bytes_eqb_eq in E. exfalso. apply H. left. symmetry. exact E.
  - cbn [app]. apply IH. intros Hin. apply H. right. exact Hin.
Qed.

Lemma chunk_values_lookup p (c : chunk) :
  NoDup (map fst c) ->
  chunk_values p c = match alookup p c with Some (CData vs) => vs | _ => [] end.
Proof.
  induction c as [|[k d] c IH]; intros Hnd; [reflexivity|].
  cbn [map fst] in Hnd. inversion Hnd as [|x y Hnin Hnd']; subst x y.
  rewrite chunk_values_cons. unfold entry_values. cbn [fst snd alookup].
  destruct (bytes_eqb p k) eqn:E.
  - apply bytes_eqb_eq in E. subst k. rewrite (chunk_values_not_in p c Hnin), app_nil_r. reflexivity.
  - cbn [app]. apply IH. exact Hnd'.
Qed.

Lemma cols_of_key_list : forall dobjs rows, map fst (cols_of dobjs rows) = map so_path dobjs.
Proof.
  induction dobjs as [|o dobjs IH]; intros rows; [reflexivity|].
  cbn [cols_of map fst]. rewrite IH. reflexivity.
Qed.

Lemma seg_encodes_nodup_keys g data chunks :
  seg_encodes g data chunks -> Forall (fun c : chunk => NoDup (map fst c)) chunks.
Proof.
  intros [Hd Hdata | css Hlay Hpos Hnd Hok Hds Hdata
          | nv m rows Hlay Hne Hnv Hm Hobjs Hsz Hnd Hrows Hlen Hdata].
  - constructor.
  - apply Forall_map. eapply Forall_impl; [|exact Hok]. intros vss Hvss. cbn beta.
    apply Forall2_combine in Hvss. destruct Hvss as [_ Hlen].
    unfold chunk_of. rewrite map_map. cbn [fst].
    rewrite <- (map_map fst so_path), (map_fst_combine _ _ Hlen). exact Hnd.
  - constructor; [|constructor]. rewrite cols_of_key_list. exact Hnd.
Qed.

(* ---- R1 by index ---- *)

Fixpoint seg_offset (segs : list fseg) (i : nat) : Z :=
  match i, segs with
  | S i', s :: r => fseg_len s + seg_offset r i'
  | _, _ => 0
  end.

Lemma segs_at_nth : forall segs gs pos i s,
    segs_at pos segs gs -> nth_error segs i = Some s ->
    exists g, nth_error gs i = Some g /\ seg_at (pos + seg_offset segs i) s g.
Proof.
  induction segs as [|s0 r IH]; intros gs pos i s Hat Hi; [destruct i; discriminate|].
  inversion Hat as [|pos' s' r' g gs' Hg Hat']; subst.
  destruct i as [|i]; cbn [nth_error seg_offset] in *.
  - injection Hi as <-. exists g. split; [reflexivity|]. rewrite Z.add_0_r. exact Hg.
  - destruct (IH gs' _ i s Hat' Hi) as (g' & Hg' & Hat'').
    exists g'. split; [exact Hg'|]. rewrite Z.add_assoc. exact Hat''.
Qed.

Lemma seg_offset_blen : forall segs i,
    wf_file segs -> (i <= length segs)%nat ->
    seg_offset segs i = blen (ser_file (firstn i segs)).
Proof.
  induction segs as [|s r IH]; intros i Hwf Hi.
  - destruct i; reflexivity.
  - destruct i as [|i]; [reflexivity|]. cbn [length] in Hi.
    unfold wf_file in Hwf. cbn [forallb] in Hwf. apply andb_prop in Hwf. destruct Hwf as [Hs Hr].
    cbn [seg_offset firstn]. rewrite (blen_ser_file_cons s _ Hs).
    rewrite (IH i Hr) by lia. unfold fseg_len. lia.
Qed.

(* the i-th segment record of a successful run describes the i-th syntax
   segment at its byte offset in the serialised file *)
Theorem sm_segment_positions_nth segs w st i s :
  wf_file segs ->
  sm_run segs w = Ok st ->
  nth_error segs i = Some s ->
  exists g, nth_error (rs_segments st) i = Some g /\
            seg_at (blen (ser_file (firstn i segs))) s g.
Proof.
  intros Hwf Hrun Hi. pose proof (sm_segment_positions segs w st Hrun) as Hat.
  destruct (segs_at_nth segs _ 0 i s Hat Hi) as (g & Hg & Hsg).
  exists g. split; [exact Hg|]. rewrite Z.add_0_l in Hsg.
  rewrite <- (seg_offset_blen segs i Hwf); [exact Hsg|].
  apply Nat.lt_le_incl. apply nth_error_Some. rewrite Hi. discriminate.
Qed.

(* the version token is the first segment's version *)
Lemma sm_run_version segs w st :
  sm_run segs w = Ok st ->
  match rs_version st with Some v => v | None => 0 end =
  match segs with s :: _ => fs_version s | [] => 0 end.
Proof.
  intros Hrun. destruct (sm_run_trace segs w st Hrun) as (_ & _ & _ & _ & Hver).
  rewrite Hver. destruct segs; reflexivity.
Qed.

(* ---- no DAQmx: a DAQmx-typed object is a DAQmx object, and a DAQmx object
        has raw data in the segment that defines it ---- *)

Lemma update_existing_inv (S P : sobj -> Prop) o i o' :
  (forall o, S o -> P o) ->
  (forall o b, S o -> P (set_has_data o b)) ->
  (forall p i o, new_object p i = Ok o -> P o) ->
  update_existing o i = Ok o' -> S o -> P o'.
Proof.
  intros HSP Htog Hnew H Ho. unfold update_existing in H.
  destruct i as [| |lf dt dim n total|kind dt dim n scalers widths].
  - injection H as <-. destruct (so_has_data o); [apply Htog|apply HSP]; exact Ho.
  - injection H as <-. destruct (so_has_data o); [apply HSP|apply Htog]; exact Ho.
  - exact (Hnew _ _ _ H).
  - exact (Hnew _ _ _ H).
Qed.

Lemma step_entry_inv (S P : sobj -> Prop) base prev ordered x ordered' :
  (forall o, S o -> P o) ->
  (forall o b, S o -> P (set_has_data o b)) ->
  (forall p i o, new_object p i = Ok o -> P o) ->
  (forall b, base = Some b -> Forall S b) ->
  (forall p po, alookup p prev = Some po -> S po) ->
  step_entry base prev ordered x = Ok ordered' ->
  Forall P ordered -> Forall P ordered'.
Proof.
  intros HSP Htog Hnew Hbase Hprev H HF. unfold step_entry in H.
  destruct (match base with Some b => existing_lookup (e_path x) 0 b None | None => None end)
    as [[i o]|] eqn:E.
  - destruct base as [b|]; [|discriminate].
    apply existing_lookup_some in E. destruct E as (_ & Hnth & _).
    apply nth_error_In in Hnth.
    pose proof (Hbase b eq_refl) as Hb. rewrite Forall_forall in Hb.
    destruct (update_existing o (e_idx x)) as [o'|e] eqn:Eu; cbn [bind] in H; [|discriminate].
    injection H as <-. apply Forall_replace_nth; [exact HF|].
    exact (update_existing_inv S P o _ o' HSP Htog Hnew Eu (Hb o Hnth)).
  - destruct (alookup (e_path x) prev) as [po|] eqn:Ep.
    + destruct (reuse_previous po (e_idx x)) as [o'|e] eqn:Eu; cbn [bind] in H; [|discriminate].
      injection H as <-. apply Forall_app. split; [exact HF|]. constructor; [|constructor].
      exact (update_existing_inv S P po _ o' HSP Htog Hnew Eu (Hprev _ _ Ep)).
    + destruct (e_idx x) as [| |lf dt dim n total|kind dt dim n scalers widths] eqn:Ei.
      * destruct (new_object (e_path x) INoData) as [o'|e] eqn:En; cbn [bind] in H; [|discriminate].
        injection H as <-. apply Forall_app. split; [exact HF|]. constructor; [|constructor].
        exact (Hnew _ _ _ En).
      * discriminate.
      * destruct (new_object (e_path x) (IFull lf dt dim n total)) as [o'|e] eqn:En;
          cbn [bind] in H; [|discriminate].
        injection H as <-. apply Forall_app. split; [exact HF|]. constructor; [|constructor].
        exact (Hnew _ _ _ En).
      * destruct (new_object (e_path x) (IDaqmx kind dt dim n scalers widths)) as [o'|e] eqn:En;
          cbn [bind] in H; [|discriminate].
        injection H as <-. apply Forall_app. split; [exact HF|]. constructor; [|constructor].
        exact (Hnew _ _ _ En).
Qed.

Lemma fold_entries_inv (S P : sobj -> Prop) base prev :
  (forall o, S o -> P o) ->
  (forall o b, S o -> P (set_has_data o b)) ->
  (forall p i o, new_object p i = Ok o -> P o) ->
  (forall b, base = Some b -> Forall S b) ->
  (forall p po, alookup p prev = Some po -> S po) ->
  forall es ordered r,
    fold_entries base prev ordered es = Ok r -> Forall P ordered -> Forall P r.
Proof.
  intros HSP Htog Hnew Hbase Hprev. induction es as [|x es IH]; intros ordered r H HF.
  - cbn [fold_entries] in H. injection H as <-. exact HF.
  - cbn [fold_entries] in H.
    destruct (step_entry base prev ordered x) as [o'|e] eqn:Es; cbn [bind] in H; [|discriminate].
    apply (IH o' r H).
    exact (step_entry_inv S P base prev ordered x o' HSP Htog Hnew Hbase Hprev Es HF).
Qed.

Lemma read_segment_objects_inv (S P : sobj -> Prop) toc md prev ps objs props :
  (forall o, S o -> P o) ->
  (forall o b, S o -> P (set_has_data o b)) ->
  (forall p i o, new_object p i = Ok o -> P o) ->
  (forall l, ps = Some l -> Forall S l) ->
  (forall p po, alookup p prev = Some po -> S po) ->
  read_segment_objects toc md prev ps = Ok (objs, props) ->
  Forall P objs.
Proof.
  intros HSP Htog Hnew Hps Hprev H. unfold read_segment_objects in H.
  destruct md as [es|].
  - cbv zeta in H.
    destruct (fold_entries _ prev _ es) as [ordered|e] eqn:Ef; cbn [bind] in H; [|discriminate].
    injection H as <- _.
    refine (fold_entries_inv S P _ prev HSP Htog Hnew _ Hprev es _ ordered Ef _).
    + intros b Hb. destruct (toc_has toc TOC_NEWLIST); [discriminate|]. exact (Hps b Hb).
    + destruct (toc_has toc TOC_NEWLIST); [constructor|].
      destruct ps as [l|]; [|constructor].
      eapply Forall_impl; [|exact (Hps l eq_refl)]. exact HSP.
  - destruct ps as [l|]; [|discriminate]. injection H as <- _.
    eapply Forall_impl; [|exact (Hps l eq_refl)]. exact HSP.
Qed.

(* some recorded segment has a DAQmx object among its data objects *)
Definition daqmx_seen (gs : list segment) : Prop :=
  exists g o, In g gs /\ In o (data_objs (sg_objs g)) /\ so_daqmx o <> None.

Definition dq_settled (gs : list segment) (o : sobj) : Prop :=
  (so_dtype o = Some T_DAQMX -> so_daqmx o <> None) /\
  (so_daqmx o <> None -> daqmx_seen gs).

Definition dq_pending (gs : list segment) (o : sobj) : Prop :=
  (so_dtype o = Some T_DAQMX -> so_daqmx o <> None) /\
  (so_daqmx o <> None -> so_has_data o = true \/ daqmx_seen gs).

Lemma new_object_dq gs p i o : new_object p i = Ok o -> dq_pending gs o.
Proof.
  unfold new_object, dq_pending. intros H.
  destruct i as [| |lf dt dim n total|kind dt dim n scalers widths].
  - injection H as <-. cbn [so_dtype so_daqmx]. split; [discriminate|intros E; contradiction].
  - injection H as <-. cbn [so_dtype so_daqmx]. split; [discriminate|intros E; contradiction].
  - destruct (tds_size dt) as [sz|] eqn:Esz; [|discriminate].
    destruct (_ && _) eqn:Eand; [discriminate|].
    destruct (negb (dim =? 1)); [discriminate|].
    injection H as <-. cbn [so_dtype so_daqmx]. split; [|intros E; contradiction].
    intros Hdt. injection Hdt as ->. exfalso.
    vm_compute in Esz. injection Esz as <-. vm_compute in Eand. discriminate.
  - destruct (tds_size dt) as [sz|]; [|discriminate].
    destruct (negb (dim =? 1)); [discriminate|].
    destruct (negb (forallb _ scalers)); [discriminate|].
    destruct (_ && _); [discriminate|].
    injection H as <-. cbn [so_dtype so_daqmx so_has_data].
    split; [intros _; discriminate|intros _; left; reflexivity].
Qed.

Lemma daqmx_seen_app gs gs' : daqmx_seen gs -> daqmx_seen (gs ++ gs').
Proof.
  intros (g & o & Hg & Ho & Hq). exists g, o. split; [apply in_or_app; left; exact Hg|]. split; assumption.
Qed.

Lemma dq_settled_app gs gs' o : dq_settled gs o -> dq_settled (gs ++ gs') o.
Proof. intros [H1 H2]. split; [exact H1|]. intros H. apply daqmx_seen_app. exact (H2 H). Qed.

(* recording the segment settles its objects *)
Lemma dq_pending_settle gs g o :
  In o (sg_objs g) -> dq_pending gs o -> dq_settled (gs ++ [g]) o.
Proof.
  intros Ho [H1 H2]. split; [exact H1|]. intros Hq. destruct (H2 Hq) as [Hd|Hs].
  - exists g, o. split; [apply in_or_app; right; left; reflexivity|]. split; [|exact Hq].
    unfold data_objs. apply filter_In. split; assumption.
  - apply daqmx_seen_app. exact Hs.
Qed.

Lemma sm_loop_dq : forall segs w pos ps pi st stf,
    sm_loop segs w pos ps pi st = Ok stf ->
    (forall p po, alookup p (rs_prev_objs st) = Some po -> dq_settled (rs_segments st) po) ->
    (forall l, ps = Some l -> Forall (dq_settled (rs_segments st)) l) ->
    (forall g, In g (rs_segments st) -> Forall (dq_settled (rs_segments st)) (sg_objs g)) ->
    forall g, In g (rs_segments stf) -> Forall (dq_settled (rs_segments stf)) (sg_objs g).
Proof.
  induction segs as [|s r IH]; intros w pos ps pi st stf H Hprev Hps Hsegs.
  - rewrite sm_loop_nil in H. injection H as <-. exact Hsegs.
  - apply sm_loop_cons_inv in H.
    destruct H as (objs & props & idx & cache & nch & fin & po & om & Hro & Hcc & Hum & Hloop).
    set (seg := mkSeg pos (fs_toc s) (pos + fseg_len s) (pos + 28 + blen (fs_meta_bytes s))
                      false objs idx nch fin) in *.
    assert (Hpend : Forall (dq_pending (rs_segments st)) objs).
    { apply (read_segment_objects_inv (dq_settled (rs_segments st)) (dq_pending (rs_segments st))
                                      _ _ _ _ _ _) with (6 := Hro).
      - intros o [H1 H2]. split; [exact H1|]. intros Hq. right. exact (H2 Hq).
      - intros o b [H1 H2]. split; [exact H1|]. intros Hq. right. exact (H2 Hq).
      - intros p i o. apply new_object_dq.
      - exact Hps.
      - exact Hprev. }
    assert (Hset : Forall (dq_settled (rs_segments st ++ [seg])) objs).
    { apply Forall_forall. intros o Ho. apply (dq_pending_settle _ seg o); [exact Ho|].
      rewrite Forall_forall in Hpend. exact (Hpend o Ho). }
    apply (IH _ _ _ _ _ _ Hloop); cbn [rs_prev_objs rs_segments].
    + apply (update_object_metadata_values (dq_settled (rs_segments st ++ [seg])) _ _ _ _ _ _ _ Hum).
      * intros p po0 Hp. apply dq_settled_app. exact (Hprev p po0 Hp).
      * exact Hset.
    + intros l Hl. injection Hl as <-. exact Hset.
    + intros g Hg. apply in_app_or in Hg. destruct Hg as [Hg|[<-|[]]].
      * eapply Forall_impl; [|exact (Hsegs g Hg)]. intros o. apply dq_settled_app.
      * exact Hset.
Qed.

Theorem sm_run_dq segs w st :
  sm_run segs w = Ok st ->
  forall g o, In g (rs_segments st) -> In o (sg_objs g) -> dq_settled (rs_segments st) o.
Proof.
  unfold sm_run. intros H g o Hg Ho.
  pose proof (sm_loop_dq segs w 0 None [] rstate0 st H) as Hall.
  cbn [rstate0 rs_prev_objs rs_segments alookup] in Hall.
  assert (HF : Forall (dq_settled (rs_segments st)) (sg_objs g)).
  { apply Hall; try assumption.
    - intros p po Hp. discriminate.
    - intros l Hl. discriminate.
    - intros g0 []. }
  rewrite Forall_forall in HF. exact (HF o Ho).
Qed.

Lemma filter_length_0 {A} (f : A -> bool) (l : list A) :
  length (filter f l) = 0%nat -> forall x, In x l -> f x = false.
Proof.
  induction l as [|a l IH]; intros H x Hx; [contradiction|].
  cbn [filter] in H. destruct (f a) eqn:E; [discriminate|].
  destruct Hx as [<-|Hx]; [exact E|exact (IH H x Hx)].
Qed.

Lemma seg_layout_not_daqmx g lay :
  seg_layout g = Ok lay -> lay <> LDaqmx ->
  forall o, In o (data_objs (sg_objs g)) -> so_daqmx o = None.
Proof.
  unfold seg_layout, have_daqmx. cbv zeta. intros H Hlay o Ho.
  destruct (Nat.eqb (length (filter _ (data_objs (sg_objs g)))) 0) eqn:E0.
  - apply Nat.eqb_eq in E0. pose proof (filter_length_0 _ _ E0 o Ho) as Hf. cbn beta in Hf.
    destruct (so_daqmx o); [discriminate|reflexivity].
  - destruct (Nat.eqb _ (length (data_objs (sg_objs g)))); cbn [bind] in H; [|discriminate].
    injection H as <-. contradiction.
Qed.

Lemma seg_encodes_no_daqmx g data chunks :
  seg_encodes g data chunks -> forall o, In o (data_objs (sg_objs g)) -> so_daqmx o = None.
Proof.
  intros [Hd Hdata | css Hlay Hpos Hnd Hok Hds Hdata
          | nv m rows Hlay Hne Hnv Hm Hobjs Hsz Hnd Hrows Hlen Hdata] o Ho.
  - rewrite Hd in Ho. contradiction.
  - apply (seg_layout_not_daqmx g LContig Hlay); [discriminate|exact Ho].
  - apply (seg_layout_not_daqmx g LInterleaved Hlay); [discriminate|exact Ho].
Qed.

Lemma segs_encode_all : forall gs segs chunkss,
    segs_encode gs segs chunkss ->
    forall g, In g gs -> exists s cs, seg_encodes g (fs_data s) cs.
Proof.
  induction 1 as [|g gs s r cs css Hcs _ IH]; intros g0 Hg0; [contradiction|].
  destruct Hg0 as [<-|Hg0]; [exists s, cs; exact Hcs|exact (IH g0 Hg0)].
Qed.

Lemma segs_encode_no_daqmx gs segs chunkss : segs_encode gs segs chunkss -> ~ daqmx_seen gs.
Proof.
  intros Henc (g & o & Hg & Ho & Hq).
  destruct (segs_encode_all _ _ _ Henc g Hg) as (s & cs & Hcs).
  apply Hq. exact (seg_encodes_no_daqmx g _ cs Hcs o Ho).
Qed.

(* a data type recorded in the per-object metadata is the type of some segment object *)
Lemma update_object_metadata_dtype_origin : forall objs n f prev om prev' om',
    update_object_metadata objs n f prev om = Ok (prev', om') ->
    forall p m, alookup p om' = Some m ->
                (exists m0, alookup p om = Some m0 /\ om_dtype m0 = om_dtype m) \/
                (exists o, In o objs /\ so_dtype o = om_dtype m).
Proof.
  induction objs as [|o objs IH]; intros n f prev om prev' om' H p m Hm.
  - cbn [update_object_metadata] in H. injection H as _ <-. left. exists m. split; [exact Hm|reflexivity].
  - cbn [update_object_metadata] in H.
    destruct (update_ometa (get_ometa (so_path o) om) o n f) as [m1|e] eqn:Em; cbn [bind] in H; [|discriminate].
    destruct (update_ometa_dtype _ _ _ _ _ Em) as [Hd1 _].
    destruct (IH _ _ _ _ _ _ H p m Hm) as [(m0 & Hm0 & Hdt)|(o' & Ho' & Hdt)].
    + rewrite alookup_aset in Hm0. destruct (bytes_eqb p (so_path o)).
      * injection Hm0 as <-. right. exists o. split; [left; reflexivity|]. rewrite <- Hdt. symmetry. exact Hd1.
      * left. exists m0. split; assumption.
    + right. exists o'. split; [right; exact Ho'|exact Hdt].
Qed.

Lemma update_object_properties_dtype_origin props : forall om p m,
    alookup p (update_object_properties props om) = Some m -> om_dtype m <> None ->
    exists m0, alookup p om = Some m0 /\ om_dtype m0 = om_dtype m.
Proof.
  unfold update_object_properties.
  induction props as [|[k ps] props IH]; intros om p m Hm Hty.
  - exists m. split; [exact Hm|reflexivity].
  - cbn [fold_left fst snd] in Hm. destruct (IH _ p m Hm Hty) as (m0 & Hm0 & Hdt).
    rewrite alookup_aset in Hm0. destruct (bytes_eqb p k) eqn:E.
    + apply bytes_eqb_eq in E. subst k. injection Hm0 as <-.
      cbn [set_props om_dtype] in Hdt. unfold get_ometa in Hdt.
      destruct (alookup p om) as [m1|].
      * exists m1. split; [reflexivity|exact Hdt].
      * cbn [ometa0 om_dtype] in Hdt. rewrite <- Hdt in Hty. contradiction.
    + exists m0. split; assumption.
Qed.

Definition om_dtype_has_origin (st : rstate) : Prop :=
  forall p m, alookup p (rs_om st) = Some m -> om_dtype m <> None ->
              exists g o, In g (rs_segments st) /\ In o (sg_objs g) /\ so_dtype o = om_dtype m.

Lemma sm_loop_om_dtype_origin : forall segs w pos ps pi st stf,
    sm_loop segs w pos ps pi st = Ok stf -> om_dtype_has_origin st -> om_dtype_has_origin stf.
Proof.
  induction segs as [|s r IH]; intros w pos ps pi st stf H Hinv.
  - rewrite sm_loop_nil in H. injection H as <-. exact Hinv.
  - apply sm_loop_cons_inv in H.
    destruct H as (objs & props & idx & cache & nch & fin & po & om & Hro & Hcc & Hum & Hloop).
    apply (IH _ _ _ _ _ _ Hloop). intros p m Hm Hty. cbn [rs_om rs_segments] in *.
    destruct (update_object_properties_dtype_origin props om p m Hm Hty) as (m1 & Hm1 & Hdt1).
    destruct (update_object_metadata_dtype_origin _ _ _ _ _ _ _ Hum p m1 Hm1)
      as [(m0 & Hm0 & Hdt0)|(o & Ho & Hdt0)].
    + destruct (Hinv p m0 Hm0) as (g & o & Hg & Ho & Hdt); [rewrite Hdt0, Hdt1; exact Hty|].
      exists g, o. split; [apply in_or_app; left; exact Hg|]. split; [exact Ho|]. congruence.
    + eexists. exists o. split; [apply in_or_app; right; left; reflexivity|].
      cbn [sg_objs]. split; [exact Ho|]. congruence.
Qed.

Theorem no_daqmx_channels_ser segs w st h chunkss :
  sm_run segs w = Ok st ->
  build_hierarchy (rs_om st) = Ok h ->
  segs_encode (rs_segments st) segs chunkss ->
  no_daqmx_channels h.
Proof.
  intros Hrun Hh Henc ch Hch Hdt.
  destruct (build_hierarchy_channels _ _ Hh ch Hch) as (pstr & m & Hin & _ & Heq).
  assert (Hm : om_dtype m = Some T_DAQMX) by (rewrite <- Hdt, Heq; reflexivity).
  destruct (sm_run_trace segs w st Hrun) as (_ & _ & Hnd & _).
  pose proof (alookup_in_nodup pstr m (rs_om st) Hnd Hin) as Hlk.
  assert (Horigin : om_dtype_has_origin st).
  { unfold sm_run in Hrun. apply (sm_loop_om_dtype_origin _ _ _ _ _ _ _ Hrun).
    intros p m0 Hm0. discriminate. }
  destruct (Horigin pstr m Hlk) as (g & o & Hg & Ho & Hso); [rewrite Hm; discriminate|].
  destruct (sm_run_dq segs w st Hrun g o Hg Ho) as [H1 H2].
  apply (segs_encode_no_daqmx _ _ _ Henc). apply H2. apply H1. congruence.
Qed.

(* R6, final form.  Hypotheses: the file syntax is well formed; the metadata
   pass and the hierarchy construction succeed on it; every segment's raw data
   block encodes its chunks; channel paths are canonical; typed objects are
   channels.  Everything else (positions, chunk counts, channel lengths,
   distinct channel paths, data paths being typed channels, absence of DAQmx
   channels) is derived. *)
Theorem read_correct segs st h chunkss :
  wf_file segs ->
  sm_run segs false = Ok st ->
  build_hierarchy (rs_om st) = Ok h ->
  segs_encode (rs_segments st) segs chunkss ->
  om_paths_canonical (rs_om st) ->
  typed_objects_are_channels (rs_om st) ->
  rd_all (ser_file segs) = Ok (expected_tokens st h (concat chunkss), true).
Proof.
  intros Hwf Hrun Hh Henc Hcanon Hshape.
  apply read_correct_given_no_daqmx; try assumption.
  exact (no_daqmx_channels_ser segs false st h chunkss Hrun Hh Henc).
Qed.

(* the same with the observation spelled out: version of the first segment,
   hierarchy with each typed channel's data = file-order concatenation of its
   values over every chunk of every segment, file status of the last segment *)
Corollary read_correct_tokens segs st h chunkss :
  wf_file segs ->
  sm_run segs false = Ok st ->
  build_hierarchy (rs_om st) = Ok h ->
  segs_encode (rs_segments st) segs chunkss ->
  om_paths_canonical (rs_om st) ->
  typed_objects_are_channels (rs_om st) ->
  rd_all (ser_file segs) =
  Ok (TZ (match segs with s :: _ => fs_version s | [] => 0 end) ::
      obs_hierarchy h (fun c => obs_cdata
                                  (match ch_dtype c with
                                   | None => None
                                   | Some _ => Some (CData (chan_values (ch_path c) (concat chunkss)))
                                   end))
      ++ obs_status st, true).
Proof.
  intros Hwf Hrun Hh Henc Hcanon Hshape.
  rewrite (read_correct segs st h chunkss Hwf Hrun Hh Henc Hcanon Hshape).
  unfold expected_tokens. rewrite (sm_run_version segs false st Hrun). reflexivity.
Qed.

(* ---- a concrete instance: every hypothesis holds, and the result computes ---- *)

(* Two segments, one group "g" with a string property, two channels:
   "a" (int32, 2 values per chunk, one int32 property) and "b" (string, 2 values
   per chunk, 11 bytes per chunk).  Segment 1 has a metadata block and TWO chunks
   of raw data; segment 2 has NO metadata block (it repeats the object list of
   segment 1) and one more chunk. *)
Section RcExample.
Import String.
Local Open Scope string_scope.

Definition rc_file : list fseg :=
  [ mkFseg 14 4713
      (Some [ mkEntry (hex "2f") INoData [];
              mkEntry (hex "2f276727") INoData [mkProp (hex "6e") T_STRING (hex "6869")];
              mkEntry (hex "2f2767272f276127") (IFull 20 3 1 2 None)
                      [mkProp (hex "70") 3 (hex "07000000")];
              mkEntry (hex "2f2767272f276227") (IFull 28 T_STRING 1 2 (Some 11)) [] ])
      (hex "010000000200000002000000030000006162630300000004000000000000000300000078797a");
    mkFseg 8 4713 None (hex "05000000060000000100000003000000717273") ].

Definition rc_st : rstate := match sm_run rc_file false with Ok st => st | Err _ => rstate0 end.
Definition rc_h : hierarchy :=
  match build_hierarchy (rs_om rc_st) with Ok h => h | Err _ => mkHier [] [] end.

(* per segment, per chunk, per data object: the values *)
Definition rc_values : list (list (list (list bytes))) :=
  [ [ [ [hex "01000000"; hex "02000000"]; [hex "6162"; hex "63"] ];
      [ [hex "03000000"; hex "04000000"]; [[]; hex "78797a"] ] ];
    [ [ [hex "05000000"; hex "06000000"]; [hex "71"; hex "7273"] ] ] ].

Definition rc_path_a : bytes := hex "2f2767272f276127".
Definition rc_path_b : bytes := hex "2f2767272f276227".

Definition rc_chunks : list (list chunk) :=
  map (map (fun vss => [(rc_path_a, CData (nth 0 vss [])); (rc_path_b, CData (nth 1 vss []))]))
      rc_values.

Example rc_wf : wf_file rc_file.
Proof. unfold wf_file. vm_compute. reflexivity. Qed.

Example rc_run : sm_run rc_file false = Ok rc_st.
Proof. vm_compute. reflexivity. Qed.

Example rc_hier : build_hierarchy (rs_om rc_st) = Ok rc_h.
Proof. vm_compute. reflexivity. Qed.

Definition rc_obj_a : sobj := mkSobj rc_path_a true 2 8 (Some 3) None.          (* int32 x 2 *)
Definition rc_obj_b : sobj := mkSobj rc_path_b true 2 11 (Some T_STRING) None.  (* string x 2, 11 bytes *)

Lemma rc_seg_contig g data dobjs css chunks :
  data_objs (sg_objs g) = dobjs ->
  seg_layout g = Ok LContig ->
  0 < zsum (map so_dsize dobjs) ->
  nodupb (map so_path dobjs) = true ->
  Forall (fun vss => Forall2 (fun o vs => vals_ok (so_nvals o) o vs) dobjs vss) css ->
  Forall (Forall2 (dsize_ok (toc_endian (sg_toc g))) dobjs) css ->
  data = enc_chunks (toc_endian (sg_toc g)) dobjs css ->
  chunks = map (fun vss => chunk_of (combine dobjs vss)) css ->
  seg_encodes g data chunks.
Proof.
  intros <- H1 H2 H3 H4 H5 H6 ->. apply se_contig; try assumption. apply nodupb_sound. exact H3.
Qed.

Example rc_encodes : segs_encode (rs_segments rc_st) rc_file rc_chunks.
Proof.
  assert (Hsegs : rs_segments rc_st = [nth 0 (rs_segments rc_st) (mkSeg 0 0 0 0 false [] [] 0 None);
                                        nth 1 (rs_segments rc_st) (mkSeg 0 0 0 0 false [] [] 0 None)])
    by (vm_compute; reflexivity).
  rewrite Hsegs. clear Hsegs.
  unfold rc_file, rc_chunks, rc_values. cbn [map].
  constructor; [|constructor; [|constructor]].
  - eapply (rc_seg_contig _ _ [rc_obj_a; rc_obj_b] (nth 0 rc_values [])).
    + vm_compute. reflexivity.
    + vm_compute. reflexivity.
    + vm_compute. reflexivity.
    + vm_compute. reflexivity.
    + unfold rc_values. cbn [nth]. repeat constructor.
    + unfold rc_values. cbn [nth]. repeat constructor.
    + vm_compute. reflexivity.
    + vm_compute. reflexivity.
  - eapply (rc_seg_contig _ _ [rc_obj_a; rc_obj_b] (nth 1 rc_values [])).
    + vm_compute. reflexivity.
    + vm_compute. reflexivity.
    + vm_compute. reflexivity.
    + vm_compute. reflexivity.
    + unfold rc_values. cbn [nth]. repeat constructor.
    + unfold rc_values. cbn [nth]. repeat constructor.
    + vm_compute. reflexivity.
    + vm_compute. reflexivity.
Qed.

Example rc_paths : data_paths_are_channels rc_h (List.concat rc_chunks).
Proof. apply data_paths_are_channels_b_sound. vm_compute. reflexivity. Qed.

Example rc_no_daqmx : no_daqmx_channels rc_h.
Proof. apply no_daqmx_channels_b_sound. vm_compute. reflexivity. Qed.

Example rc_canonical : om_paths_canonical (rs_om rc_st).
Proof. apply om_paths_canonical_b_sound. vm_compute. reflexivity. Qed.

Example rc_typed_channels : typed_objects_are_channels (rs_om rc_st).
Proof. apply typed_objects_are_channels_b_sound. vm_compute. reflexivity. Qed.

(* the theorem applies ... *)
Example rc_read_correct :
  rd_all (ser_file rc_file) = Ok (expected_tokens rc_st rc_h (List.concat rc_chunks), true).
Proof.
  exact (read_correct rc_file rc_st rc_h rc_chunks rc_wf rc_run rc_hier rc_encodes
                      rc_canonical rc_typed_channels).
Qed.

(* ... and both sides compute to the same explicit observation: version, root
   properties, one group with its property, channel "a" (type 3, length 6, one
   property, values 1..6 in file order), channel "b" (type 0x20, length 6, the
   six strings in file order), file status *)
Example rc_read_tokens :
  rd_all (ser_file rc_file) =
  Ok ([TZ 4713; TZ 0; TZ 1; TB (hex "67"); TZ 1; TB (hex "6e"); TZ 3; TB (hex "6869"); TZ 2;
       TB (hex "61"); TB (hex "67"); TB rc_path_a; TZ 3; TZ 6; TZ 1; TB (hex "70"); TZ 0; TZ 7;
       TZ 0; TZ 6; TB (hex "01000000"); TB (hex "02000000"); TB (hex "03000000");
       TB (hex "04000000"); TB (hex "05000000"); TB (hex "06000000");
       TB (hex "62"); TB (hex "67"); TB rc_path_b; TZ 32; TZ 6; TZ 0;
       TZ 0; TZ 6; TB (hex "6162"); TB (hex "63"); TB []; TB (hex "78797a"); TB (hex "71");
       TB (hex "7273");
       TZ 0; TZ 0], true) /\
  rd_all (ser_file rc_file) = Ok (expected_tokens rc_st rc_h (List.concat rc_chunks), true).
Proof. vm_compute. split; reflexivity. Qed.

End RcExample.

(* ---- a second instance: interleaved layout, then a segment without data objects ---- *)

Section RcExample2.
Import String.
Local Open Scope string_scope.

(* An interleaved segment (ToC 46 = metadata + new object list + raw data +
   interleaved): channel "a" int16 and channel "b" bool, 3 values each, stored
   as 3 rows of 3 bytes; then a metadata-only segment (ToC 6) that starts a new
   object list holding just the group object with a property: no data objects,
   empty raw data block. *)
Definition rc2_file : list fseg :=
  [ mkFseg 46 4713
      (Some [ mkEntry (hex "2f2767272f276127") (IFull 20 2 1 3 None) [];
              mkEntry (hex "2f2767272f276227") (IFull 20 T_BOOL 1 3 None) [] ])
      (hex "010201030400050601");
    mkFseg 6 4713
      (Some [ mkEntry (hex "2f276727") INoData [mkProp (hex "6e") T_STRING (hex "6869")] ])
      [] ].

Definition rc2_st : rstate := match sm_run rc2_file false with Ok st => st | Err _ => rstate0 end.
Definition rc2_h : hierarchy :=
  match build_hierarchy (rs_om rc2_st) with Ok h => h | Err _ => mkHier [] [] end.

Definition rc2_obj_a : sobj := mkSobj rc_path_a true 3 6 (Some 2) None.       (* int16 x 3 *)
Definition rc2_obj_b : sobj := mkSobj rc_path_b true 3 3 (Some T_BOOL) None.  (* bool x 3 *)

Definition rc2_rows : list (list bytes) :=
  [ [hex "0102"; hex "01"]; [hex "0304"; hex "00"]; [hex "0506"; hex "01"] ].

Definition rc2_chunks : list (list chunk) :=
  [ [ [(rc_path_a, CData [hex "0102"; hex "0304"; hex "0506"]);
       (rc_path_b, CData [hex "01"; hex "00"; hex "01"])] ];
    [] ].

Example rc2_wf : wf_file rc2_file.
Proof. unfold wf_file. vm_compute. reflexivity. Qed.

Example rc2_run : sm_run rc2_file false = Ok rc2_st.
Proof. vm_compute. reflexivity. Qed.

Example rc2_hier : build_hierarchy (rs_om rc2_st) = Ok rc2_h.
Proof. vm_compute. reflexivity. Qed.

Lemma rc_seg_interleaved g data dobjs nv m rows chunks :
  data_objs (sg_objs g) = dobjs ->
  seg_layout g = Ok LInterleaved ->
  dobjs <> [] -> 0 < nv -> 0 <= m ->
  Forall (fun o => so_nvals o = nv /\ so_dsize o = so_nvals o * size_or0 o) dobjs ->
  Forall (fun o => sized o <> None) dobjs ->
  nodupb (map so_path dobjs) = true ->
  Forall (row_ok dobjs) rows ->
  Z.of_nat (List.length rows) = nv * m ->
  data = enc_rows (toc_endian (sg_toc g)) dobjs rows ->
  chunks = [cols_of dobjs rows] ->
  seg_encodes g data chunks.
Proof.
  intros <- H1 H2 H3 H4 H5 H6 H7 H8 H9 H10 ->.
  apply (se_interleaved g data nv m rows); try assumption. apply nodupb_sound. exact H7.
Qed.

Example rc2_encodes : segs_encode (rs_segments rc2_st) rc2_file rc2_chunks.
Proof.
  assert (Hsegs : rs_segments rc2_st = [nth 0 (rs_segments rc2_st) (mkSeg 0 0 0 0 false [] [] 0 None);
                                         nth 1 (rs_segments rc2_st) (mkSeg 0 0 0 0 false [] [] 0 None)])
    by (vm_compute; reflexivity).
  rewrite Hsegs. clear Hsegs.
  unfold rc2_file, rc2_chunks.
  constructor; [|constructor; [|constructor]].
  - eapply (rc_seg_interleaved _ _ [rc2_obj_a; rc2_obj_b] 3 1 rc2_rows).
    + vm_compute. reflexivity.
    + vm_compute. reflexivity.
    + discriminate.
    + reflexivity.
    + discriminate.
    + repeat constructor.
    + repeat constructor; discriminate.
    + vm_compute. reflexivity.
    + unfold rc2_rows. repeat constructor.
    + reflexivity.
    + vm_compute. reflexivity.
    + vm_compute. reflexivity.
  - apply se_empty; vm_compute; reflexivity.
Qed.

Example rc2_canonical : om_paths_canonical (rs_om rc2_st).
Proof. apply om_paths_canonical_b_sound. vm_compute. reflexivity. Qed.

Example rc2_typed_channels : typed_objects_are_channels (rs_om rc2_st).
Proof. apply typed_objects_are_channels_b_sound. vm_compute. reflexivity. Qed.

Example rc2_read_correct :
  rd_all (ser_file rc2_file) = Ok (expected_tokens rc2_st rc2_h (List.concat rc2_chunks), true).
Proof.
  exact (read_correct rc2_file rc2_st rc2_h rc2_chunks rc2_wf rc2_run rc2_hier rc2_encodes
                      rc2_canonical rc2_typed_channels).
Qed.

Example rc2_read_tokens :
  rd_all (ser_file rc2_file) =
  Ok ([TZ 4713; TZ 0; TZ 1; TB (hex "67"); TZ 1; TB (hex "6e"); TZ 3; TB (hex "6869"); TZ 2;
       TB (hex "61"); TB (hex "67"); TB rc_path_a; TZ 2; TZ 3; TZ 0;
       TZ 0; TZ 3; TB (hex "0102"); TB (hex "0304"); TB (hex "0506");
       TB (hex "62"); TB (hex "67"); TB rc_path_b; TZ 33; TZ 3; TZ 0;
       TZ 0; TZ 3; TB (hex "01"); TB (hex "00"); TB (hex "01");
       TZ 0; TZ 0], true).
Proof. vm_compute. reflexivity. Qed.
End RcExample2.
