(* Proofs about Model/Path.v: the path scanner inverts the path printer,
   for every string over every alphabet.  Closed under the global context. *)

From Coq Require Import List Bool.
Import ListNotations.
From NpTdms Require Import Model.Path.

Section PathProofs.
  Variable A : Type.
  Variable eqb : A -> A -> bool.
  Variables q s : A.
  Hypothesis eqb_eq : forall a b, eqb a b = true <-> a = b.
  Hypothesis q_ne_s : q <> s.

  Local Notation escape := (Path.escape A eqb q).
  Local Notation quote := (Path.quote A eqb q).
  Local Notation join_components := (Path.join_components A eqb q s).
  Local Notation to_path_list := (Path.components_to_path_list A eqb q s).
  Local Notation to_path := (Path.components_to_path A eqb q s).
  Local Notation scan := (Path.scan A eqb q s).
  Local Notation scan_skip := (Path.scan_skip A eqb q s).
  Local Notation path_components := (Path.path_components A eqb q s).
  Local Notation from_string := (Path.from_string A eqb q s).

  Lemma eqb_refl a : eqb a a = true.
  Proof. apply eqb_eq; reflexivity. Qed.

  Lemma eqb_neq a b : a <> b -> eqb a b = false.
  Proof.
    intros Hne. destruct (eqb a b) eqn:E; [|reflexivity].
    apply eqb_eq in E. contradiction.
  Qed.

  Lemma eqb_sq : eqb s q = false.
  Proof. apply eqb_neq. intro H. apply q_ne_s. symmetry. exact H. Qed.

  Definition cont (comp : list A) (r : perr + list (list A)) : perr + list (list A) :=
    match r with inl e => inl e | inr cs => inr (comp :: cs) end.

  (* Scanning the escaped text of a component followed by its closing quote:
     the component is recovered and the scanner is back in the outer loop at
     [rest], provided [rest] is the end of the string or begins with a slash. *)
  (* Unfolding equations for the mutual fixpoint (cbn does not refold it). *)
  Lemma scan_skip_cons x l st0 : scan_skip (x :: l) st0 = scan l st0.
  Proof. reflexivity. Qed.

  Lemma scan_inner_cons c n r comp :
      scan (c :: n :: r) (Inner A comp) =
      if eqb c q && eqb n q then scan_skip (n :: r) (Inner A (q :: comp))
      else if eqb c q then cont (rev comp) (scan (n :: r) (Outer A))
           else scan (n :: r) (Inner A (c :: comp)).
  Proof. reflexivity. Qed.

  Lemma scan_inner_last c comp :
      scan [c] (Inner A comp) = if eqb c q then inr [rev comp] else inr [].
  Proof. reflexivity. Qed.

  Lemma scan_outer_cons c n r :
      scan (c :: n :: r) (Outer A) =
      if negb (eqb c s) then inl PathError
      else if negb (eqb n q) then inl PathError
           else scan_skip (n :: r) (Inner A []).
  Proof. reflexivity. Qed.

  Lemma scan_outer_last c :
      scan [c] (Outer A) = if negb (eqb c s) then inl PathError else inr [].
  Proof. reflexivity. Qed.

  Lemma scan_nil st0 : scan [] st0 = inr [].
  Proof. reflexivity. Qed.

  Lemma scan_escape c : forall comp rest,
      (rest = [] \/ exists r, rest = s :: r) ->
      scan (escape c ++ q :: rest) (Inner A comp) =
      cont (rev comp ++ c) (scan rest (Outer A)).
  Proof.
    induction c as [|x c IH]; intros comp rest Hrest.
    - cbn [Path.escape app]. rewrite app_nil_r.
      destruct Hrest as [-> | [r ->]].
      + rewrite scan_inner_last, eqb_refl, scan_nil. reflexivity.
      + rewrite scan_inner_cons, eqb_refl, eqb_sq. reflexivity.
    - cbn [Path.escape].
      destruct (eqb x q) eqn:Exq.
      + apply eqb_eq in Exq. subst x.
        cbn [app]. rewrite scan_inner_cons, eqb_refl. cbn [andb].
        rewrite scan_skip_cons.
        rewrite (IH (q :: comp) rest Hrest).
        cbn [rev]. rewrite <- app_assoc. reflexivity.
      + cbn [app].
        assert (Hne : exists n t, escape c ++ q :: rest = n :: t).
        { destruct (escape c) as [|n t]; cbn [app]; eauto. }
        destruct Hne as (n & t & Hnt).
        rewrite Hnt, scan_inner_cons, Exq. cbn [andb].
        rewrite <- Hnt.
        rewrite (IH (x :: comp) rest Hrest).
        cbn [rev]. rewrite <- app_assoc. reflexivity.
  Qed.

  Lemma scan_quote c rest :
      (rest = [] \/ exists r, rest = s :: r) ->
      scan (s :: quote c ++ rest) (Outer A) = cont c (scan rest (Outer A)).
  Proof.
    intros Hrest. unfold Path.quote.
    cbn [app]. rewrite scan_outer_cons, !eqb_refl. cbn [negb].
    rewrite scan_skip_cons.
    rewrite <- app_assoc. cbn [app].
    rewrite (scan_escape c [] rest Hrest). reflexivity.
  Qed.

  Lemma scan_join cs : cs <> [] ->
      scan (s :: join_components cs) (Outer A) = inr cs.
  Proof.
    induction cs as [|c r IH]; intros Hne; [contradiction|].
    destruct r as [|c' r'].
    - cbn [Path.join_components].
      replace (quote c) with (quote c ++ []) by apply app_nil_r.
      rewrite scan_quote by (left; reflexivity). reflexivity.
    - change (join_components (c :: c' :: r'))
        with (quote c ++ s :: join_components (c' :: r')).
      rewrite scan_quote by (right; eauto).
      rewrite IH by discriminate. reflexivity.
  Qed.

  (* The scanner inverts the printer for ANY number of components. *)
  Theorem path_components_to_path_list cs :
      path_components (to_path_list cs) = inr cs.
  Proof.
    destruct cs as [|c r].
    - unfold Path.path_components, Path.components_to_path_list.
      cbn [Path.join_components]. rewrite scan_outer_last, eqb_refl. reflexivity.
    - apply scan_join. discriminate.
  Qed.

  Theorem to_path_list_injective cs cs' :
      to_path_list cs = to_path_list cs' -> cs = cs'.
  Proof.
    intros H.
    assert (E : @inr perr _ cs = inr cs').
    { rewrite <- (path_components_to_path_list cs), H.
      apply path_components_to_path_list. }
    injection E as E. exact E.
  Qed.

  (* ObjectPath.from_string (str (ObjectPath (g, c))) *)
  Theorem from_string_channel g c :
      from_string (to_path (Some g) (Some c)) = inr (Some g, Some c).
  Proof.
    unfold Path.from_string.
    change (to_path (Some g) (Some c)) with (to_path_list [g; c]).
    rewrite path_components_to_path_list. reflexivity.
  Qed.

  Theorem from_string_group g :
      from_string (to_path (Some g) None) = inr (Some g, None).
  Proof.
    unfold Path.from_string.
    change (to_path (Some g) None) with (to_path_list [g]).
    rewrite path_components_to_path_list. reflexivity.
  Qed.

  Theorem from_string_root :
      from_string (to_path None None) = inr (None, None).
  Proof.
    unfold Path.from_string.
    change (to_path None None) with (to_path_list []).
    rewrite path_components_to_path_list. reflexivity.
  Qed.

  (* A valid object identity: root, group, or channel-in-group. *)
  Definition valid_id (g c : option (list A)) : Prop :=
    g = None -> c = None.

  Theorem to_path_injective g c g' c' :
      valid_id g c -> valid_id g' c' ->
      to_path g c = to_path g' c' -> g = g' /\ c = c'.
  Proof.
    intros V V' H.
    unfold Path.components_to_path in H.
    apply to_path_list_injective in H.
    destruct g as [g|], g' as [g'|], c as [c|], c' as [c'|]; cbn in H;
      try discriminate;
      try (specialize (V eq_refl); discriminate);
      try (specialize (V' eq_refl); discriminate);
      try (injection H; intros; subst; split; reflexivity).
    split; reflexivity.
  Qed.

End PathProofs.
