(* The definitions TRANSLATED from the Python source on every run
   (Gen/PyFuncsReader.v, Gen/TypeTable.v; harness/gen/gen_pyfuncs_reader.py) are
   EQUAL to the hand-written model functions (Model/Tokens.v, Model/SegState.v,
   Model/Layout.v).  With these equalities every theorem about the hand model is a
   theorem about what the source says now; an edit of the source changes the
   translated Gallina and breaks the proofs here.

   Precondition used where DAQmx buffer indices are involved: [bufs_nonneg]
   (every scaler's raw_buffer_index is >= 0 -- it is an unsigned 32-bit field).
   The hand model answers IndexError for a negative index, Python would wrap. *)
From Coq Require Import ZArith List Bool Lia ZifyBool.
Import ListNotations.
From NpTdms Require Import Base.Bytes Base.Res Base.PySlice Model.Tokens Model.SegState Model.Layout
     Gen.TypeTable Gen.PyFuncsReader.
Local Open Scope Z_scope.

(* ---- reflected tables ----------------------------------------------------- *)

Ltac chain_eq ty :=
  repeat match goal with
         | |- context [ty =? ?k] => destruct (Z.eqb_spec ty k); [subst ty; reflexivity|]
         end.

Lemma tt_size_eq ty : tt_size ty = tds_size ty.
Proof. unfold tt_size, tds_size. chain_eq ty. reflexivity. Qed.

Lemma tt_has_nptype_eq ty : tt_has_nptype ty = has_nptype ty.
Proof.
  unfold tt_has_nptype, has_nptype, is_struct_type, T_C64, T_C128. chain_eq ty.
  symmetry. lia.
Qed.

Lemma tt_is_struct_eq ty : tt_is_struct ty = is_struct_type ty.
Proof. unfold tt_is_struct, is_struct_type. chain_eq ty. symmetry. lia. Qed.

Lemma tt_daqmx_type_eq code : tt_daqmx_type code = daqmx_type code.
Proof. unfold tt_daqmx_type, daqmx_type, T_TIME. chain_eq code. reflexivity. Qed.

Lemma tt_constants_eq :
  tt_FORMAT_CHANGING_SCALER = FORMAT_CHANGING_SCALER /\ tt_DIGITAL_LINE_SCALER = DIGITAL_LINE_SCALER /\
  tt_RAW_DATA_INDEX_NO_DATA = RAW_DATA_INDEX_NO_DATA /\
  tt_RAW_DATA_INDEX_MATCHES_PREVIOUS = RAW_DATA_INDEX_MATCHES_PREVIOUS /\
  tt_kTocMetaData = TOC_META /\ tt_kTocRawData = TOC_RAW /\ tt_kTocDAQmxRawData = TOC_DAQMX /\
  tt_kTocInterleavedData = TOC_INTERLEAVED /\ tt_kTocBigEndian = TOC_BIGENDIAN /\
  tt_kTocNewObjList = TOC_NEWLIST.
Proof. repeat split. Qed.

Lemma gsized_eq o : gsized o = sized o.
Proof. unfold gsized, sized. destruct (so_dtype o); [rewrite tt_size_eq|]; reflexivity. Qed.

(* ---- loop-free functions ---------------------------------------------------- *)

Lemma get_channel_number_values_eq n f o ci :
  get_channel_number_values_gen n f o ci = Ok (chunk_nvals o ci n f).
Proof.
  unfold get_channel_number_values_gen, chunk_nvals.
  destruct f as [f|]; [|reflexivity]. destruct (ci =? n - 1); reflexivity.
Qed.

Lemma number_of_segment_values_eq o s :
  number_of_segment_values_gen o s = Ok (seg_values o (sg_nchunks s) (sg_final s)).
Proof.
  unfold number_of_segment_values_gen, seg_values.
  destruct (so_has_data o); [|reflexivity]. destruct (sg_final s); reflexivity.
Qed.

(* the result of _read_lead_in's arithmetic in terms of the model's lead_result *)
Definition lead_view (seg_pos toc : Z) (r : res lead_result) : res (Z * Z * Z * option Z * bool) :=
  match r with
  | Err e => Err e
  | Ok LeadEof => Err EEof
  | Ok (LeadOk dp np inc) => Ok (seg_pos, toc, dp, Some np, inc)
  end.

Lemma read_lead_in_eq fs seg_pos l :
  read_lead_in_gen fs seg_pos (l_toc l) (l_next l) (l_raw l)
  = lead_view seg_pos (l_toc l) (lead_positions seg_pos l fs).
Proof.
  unfold read_lead_in_gen, lead_positions, lead_view.
  replace (seg_pos + 7 * 4 + l_raw l) with (seg_pos + 28 + l_raw l) by lia.
  replace (seg_pos + l_next l + 7 * 4) with (seg_pos + l_next l + 28) by lia.
  destruct (l_next l =? 18446744073709551615) eqn:Hm.
  - destruct fs as [sz|]; cbn [bind need]; [|reflexivity].
    replace (sz <? seg_pos + 28 + l_raw l) with (sz <? seg_pos + 28 + l_raw l) by reflexivity.
    destruct (sz <? seg_pos + 28 + l_raw l); reflexivity.
  - destruct fs as [sz|]; cbn [bind need].
    + replace (seg_pos + l_next l + 28 >? sz) with (sz <? seg_pos + l_next l + 28) by lia.
      destruct (sz <? seg_pos + l_next l + 28); cbn [bind need].
      * destruct (sz <? seg_pos + 28 + l_raw l); reflexivity.
      * reflexivity.
    + reflexivity.
Qed.

(* ---- daqmx._lists_are_equal -------------------------------------------------- *)

Lemma lists_are_equal_eq a b : lists_are_equal_gen a b = Ok (zlist_eqb a b).
Proof.
  unfold lists_are_equal_gen. f_equal. revert b.
  induction a as [|x a IH]; intros [|y b]; cbn [length combine forallb zlist_eqb].
  - reflexivity.
  - destruct (Z.eqb_spec (Z.of_nat 0) (Z.of_nat (S (length b)))); [lia|reflexivity].
  - destruct (Z.eqb_spec (Z.of_nat (S (length a))) (Z.of_nat 0)); [lia|reflexivity].
  - rewrite <- IH.
    replace (Z.of_nat (S (length a)) =? Z.of_nat (S (length b)))
      with (Z.of_nat (length a) =? Z.of_nat (length b)) by lia.
    destruct (Z.of_nat (length a) =? Z.of_nat (length b)), (x =? y); reflexivity.
Qed.

(* ---- TdmsSegment._have_daqmx_objects ------------------------------------------ *)

Definition is_dq (o : sobj) : bool := match so_daqmx o with Some _ => true | None => false end.

Lemma filter_length_le' {A} (f : A -> bool) (l : list A) : (length (filter f l) <= length l)%nat.
Proof. induction l as [|x l IH]; cbn; [lia|]. destruct (f x); cbn; lia. Qed.

Lemma have_daqmx_loop_eq objs a b :
  have_daqmx_objects_gen_loop5 objs a b
  = Ok (a + Z.of_nat (length (data_objs objs)), b + Z.of_nat (length (filter is_dq (data_objs objs)))).
Proof.
  revert a b. induction objs as [|o r IH]; intros a b.
  - cbn. f_equal. f_equal; lia.
  - cbn [have_daqmx_objects_gen_loop5 data_objs filter]. fold (data_objs r).
    destruct (so_has_data o); [|apply IH].
    cbn [filter length]. unfold is_dq at 1. unfold is_none.
    destruct (so_daqmx o); cbn [negb length]; rewrite IH; f_equal; f_equal; lia.
Qed.

Definition opt_view {A} (r : res A) : res (option A) :=
  match r with Ok b => Ok (Some b) | Err e => Err e end.

Lemma have_daqmx_objects_eq s : have_daqmx_objects_gen s = opt_view (have_daqmx (sg_objs s)).
Proof.
  unfold have_daqmx_objects_gen, have_daqmx. rewrite have_daqmx_loop_eq. cbn [bind].
  fold is_dq.
  set (d := data_objs (sg_objs s)). set (nd := length (filter is_dq d)).
  assert (Hle : (nd <= length d)%nat) by apply filter_length_le'.
  destruct (Nat.eqb_spec nd 0) as [E0|E0].
  - replace (0 + Z.of_nat nd =? 0) with true by lia. reflexivity.
  - replace (0 + Z.of_nat nd =? 0) with false by lia.
    destruct (Nat.eqb_spec nd (length d)) as [E1|E1].
    + replace (0 + Z.of_nat nd =? 0 + Z.of_nat (length d)) with true by lia. reflexivity.
    + replace (0 + Z.of_nat nd =? 0 + Z.of_nat (length d)) with false by lia.
      replace (0 + Z.of_nat nd >? 0) with true by lia. reflexivity.
Qed.

(* ---- Python list indexing with a non-negative index ------------------------------ *)

Lemma py_index_nonneg {A} (l : list A) (i : Z) (d : A) :
  0 <= i -> py_index l i = if i <? zlen l then Ok (nth (Z.to_nat i) l d) else Err EIndex.
Proof.
  intros Hi. unfold py_index. replace (i <? 0) with false by lia.
  replace (0 <=? i) with true by lia. cbn [andb].
  destruct (i <? zlen l) eqn:E; [|reflexivity].
  unfold zlen in E. rewrite (nth_error_nth' l d) by lia. reflexivity.
Qed.

Lemma py_setitem_nonneg {A} (l : list A) (i : Z) (x : A) :
  0 <= i -> py_setitem l i x = if i <? zlen l then Ok (replace_nth (Z.to_nat i) x l) else Err EIndex.
Proof.
  intros Hi. unfold py_setitem. replace (i <? 0) with false by lia.
  replace (0 <=? i) with true by lia. reflexivity.
Qed.

(* ---- daqmx.get_buffer_dimensions ----------------------------------------------- *)

Definition scalers_nonneg (q : dq) : Prop := Forall (fun s => 0 <= sc_buf s) (dq_scalers q).
Definition obj_bufs_nonneg (o : sobj) : Prop :=
  match so_daqmx o with Some q => scalers_nonneg q | None => True end.
Definition bufs_nonneg (objs : list sobj) : Prop := Forall obj_bufs_nonneg objs.

Lemma buffer_loop2_eq o scalers : Forall (fun s => 0 <= sc_buf s) scalers -> forall dims,
  get_buffer_dimensions_gen_loop2 o scalers dims = bump_dims dims (so_nvals o) scalers.
Proof.
  induction 1 as [|s r Hs Hr IH]; intros dims; [reflexivity|].
  cbn [get_buffer_dimensions_gen_loop2 bump_dims].
  rewrite (py_index_nonneg dims (sc_buf s) (0, 0) Hs).
  replace ((sc_buf s <? 0) || (Z.of_nat (length dims) <=? sc_buf s)) with (negb (sc_buf s <? zlen dims))
    by (unfold zlen; lia).
  destruct (sc_buf s <? zlen dims) eqn:E; cbn [negb bind]; [|reflexivity].
  destruct (nth (Z.to_nat (sc_buf s)) dims (0, 0)) as [cur w]. cbn [fst snd].
  rewrite (py_setitem_nonneg _ _ _ Hs), E. cbn [bind]. apply IH.
Qed.

Definition dims_view (r : res (option (list Z) * option (list (Z * Z)))) : res (list (Z * Z)) :=
  do '(w, d) <- r; Ok (match d with None => [] | Some d => d end).

Lemma buffer_loop1_some objs : bufs_nonneg objs -> forall w d,
  dims_view (get_buffer_dimensions_gen_loop1 objs (Some w) (Some d)) = buffer_dims_from objs (Some d) w.
Proof.
  induction 1 as [|o r Ho Hr IH]; intros w d; [reflexivity|].
  cbn [get_buffer_dimensions_gen_loop1 buffer_dims_from].
  destruct (so_has_data o); cbn [negb]; [|apply IH].
  unfold obj_bufs_nonneg in Ho.
  destruct (so_daqmx o) as [q|]; cbn [need bind]; [|reflexivity].
  rewrite lists_are_equal_eq. cbn [bind].
  destruct (zlist_eqb (dq_widths q) w); cbn [negb bind]; [|reflexivity].
  rewrite (buffer_loop2_eq o _ Ho).
  destruct (bump_dims d (so_nvals o) (dq_scalers q)); cbn [bind]; [apply IH|reflexivity].
Qed.

Lemma buffer_loop1_none objs : bufs_nonneg objs ->
  dims_view (get_buffer_dimensions_gen_loop1 objs None None) = buffer_dims_from objs None [].
Proof.
  induction 1 as [|o r Ho Hr IH]; [reflexivity|].
  cbn [get_buffer_dimensions_gen_loop1 buffer_dims_from].
  destruct (so_has_data o); cbn [negb]; [|apply IH].
  unfold obj_bufs_nonneg in Ho.
  destruct (so_daqmx o) as [q|]; cbn [need bind]; [|reflexivity].
  rewrite (buffer_loop2_eq o _ Ho).
  destruct (bump_dims _ (so_nvals o) (dq_scalers q)); cbn [bind]; [|reflexivity].
  apply buffer_loop1_some. exact Hr.
Qed.

Theorem get_buffer_dimensions_eq objs :
  bufs_nonneg objs -> get_buffer_dimensions_gen objs = buffer_dims objs.
Proof.
  intros H. unfold get_buffer_dimensions_gen, buffer_dims.
  rewrite <- (buffer_loop1_none objs H). unfold dims_view.
  destruct (get_buffer_dimensions_gen_loop1 objs None None) as [[w d]|]; reflexivity.
Qed.

(* ---- daqmx.get_daqmx_chunk_size, TdmsSegment._get_chunk_size ---------------------- *)

Lemma get_daqmx_chunk_size_eq objs :
  bufs_nonneg objs ->
  get_daqmx_chunk_size_gen objs = do dims <- buffer_dims objs; Ok (zsum (map (fun d => fst d * snd d) dims)).
Proof.
  intros H. unfold get_daqmx_chunk_size_gen. rewrite (get_buffer_dimensions_eq _ H).
  destruct (buffer_dims objs) as [dims|]; cbn [bind]; [|reflexivity].
  f_equal. f_equal. apply map_ext. intros [n w]. reflexivity.
Qed.

Theorem get_chunk_size_eq s :
  bufs_nonneg (sg_objs s) -> get_chunk_size_gen s = chunk_size (sg_objs s).
Proof.
  intros H. unfold get_chunk_size_gen, chunk_size. rewrite have_daqmx_objects_eq.
  destruct (have_daqmx (sg_objs s)) as [[|]|]; cbn [opt_view bind]; [|reflexivity|reflexivity].
  rewrite (get_daqmx_chunk_size_eq _ H).
  destruct (buffer_dims (sg_objs s)); reflexivity.
Qed.

(* ---- TdmsSegment._compute_final_chunk_lengths: the two non-DAQmx loops ------------ *)

Lemma prop_loop_eq cs rem objs : forall acc,
  compute_final_chunk_lengths_gen_loop6 cs rem objs acc
  = Ok (fold_left (fun acc o => if so_has_data o then aset (so_path o) (so_nvals o * rem / cs) acc else acc)
                  objs acc).
Proof.
  induction objs as [|o r IH]; intros acc; [reflexivity|].
  cbn [compute_final_chunk_lengths_gen_loop6 fold_left].
  destruct (so_has_data o); cbn [negb]; apply IH.
Qed.

(* every object with data has a sized type (the `any(...)` early return did not fire) *)
Definition all_sized (objs : list sobj) : Prop :=
  Forall (fun o => so_has_data o = true -> sized o <> None) objs.

Lemma unsized_check_eq objs :
  existsb (fun _ : sobj => true) (filter (fun o => so_has_data o && is_none (gsized o)) objs)
  = existsb (fun o => so_has_data o && match sized o with None => true | Some _ => false end) objs.
Proof.
  induction objs as [|o r IH]; [reflexivity|].
  cbn [filter existsb]. rewrite gsized_eq. unfold is_none at 1.
  destruct (so_has_data o && match sized o with None => true | Some _ => false end); cbn [existsb orb]; auto.
Qed.

Lemma unsized_check_false objs :
  existsb (fun o => so_has_data o && match sized o with None => true | Some _ => false end) objs = false ->
  all_sized objs.
Proof.
  induction objs as [|o r IH]; intros H; [constructor|].
  cbn [existsb] in H. apply orb_false_iff in H. destruct H as [H1 H2].
  constructor; [|apply IH; exact H2].
  intros Hd Hs. rewrite Hd, Hs in H1. discriminate.
Qed.

Lemma contig_loop_eq objs : all_sized objs -> forall acc rem,
  exists rem', compute_final_chunk_lengths_gen_loop7 objs acc rem = Ok (contig_final objs rem acc, rem').
Proof.
  induction 1 as [|o r Ho Hr IH]; intros acc rem; [eexists; reflexivity|].
  cbn [compute_final_chunk_lengths_gen_loop7 contig_final].
  destruct (so_has_data o) eqn:Hd; cbn [negb]; [|apply IH].
  rewrite gsized_eq. specialize (Ho eq_refl).
  destruct (sized o) as [sz|]; [|congruence]. cbn [need bind].
  replace (rem >? so_nvals o * sz) with (so_nvals o * sz <? rem) by lia.
  destruct (so_nvals o * sz <? rem); [apply IH|eexists; reflexivity].
Qed.

(* ---- daqmx.get_daqmx_final_chunk_lengths ------------------------------------------- *)

Lemma map_const_repeat {A B} (c : B) (l : list A) : map (fun _ => c) l = repeat c (length l).
Proof. induction l as [|x l IH]; cbn; [reflexivity|f_equal; exact IH]. Qed.

Lemma replace_nth_app {A} (pre : list A) x v tl :
  replace_nth (length pre) v (pre ++ x :: tl) = pre ++ v :: tl.
Proof. induction pre as [|y pre IH]; cbn; [reflexivity|f_equal; exact IH]. Qed.

Lemma py_setitem_app {A} (pre : list A) x v tl :
  py_setitem (pre ++ x :: tl) (zlen pre) v = Ok (pre ++ v :: tl).
Proof.
  rewrite py_setitem_nonneg by (unfold zlen; lia).
  replace (zlen pre <? zlen (pre ++ x :: tl)) with true
    by (unfold zlen; rewrite app_length; cbn [length]; lia).
  unfold zlen. rewrite Nat2Z.id, replace_nth_app. reflexivity.
Qed.

Lemma daqmx_loop3_eq dims : forall pre rem,
  exists rem',
    get_daqmx_final_chunk_lengths_gen_loop3 dims (zlen pre) (pre ++ repeat 0 (length dims)) rem
    = Ok (pre ++ daqmx_buffer_lengths dims rem, rem').
Proof.
  induction dims as [|[n w] r IH]; intros pre rem; [eexists; reflexivity|].
  cbn [get_daqmx_final_chunk_lengths_gen_loop3 daqmx_buffer_lengths length repeat].
  replace (rem >? n * w) with (n * w <? rem) by lia.
  destruct (n * w <? rem).
  - rewrite py_setitem_app. cbn [bind].
    destruct (IH (pre ++ [n]) (rem - n * w)) as [r' H].
    exists r'.
    replace (zlen pre + 1) with (zlen (pre ++ [n])) by (unfold zlen; rewrite app_length; cbn [length]; lia).
    replace (pre ++ n :: repeat 0 (length r)) with ((pre ++ [n]) ++ repeat 0 (length r))
      by (rewrite <- app_assoc; reflexivity).
    rewrite H. rewrite <- app_assoc. reflexivity.
  - rewrite py_setitem_app. cbn [bind]. rewrite map_const_repeat. eexists. reflexivity.
Qed.

Lemma daqmx_buffer_lengths_length dims : forall rem, length (daqmx_buffer_lengths dims rem) = length dims.
Proof.
  induction dims as [|[n w] r IH]; intros rem; [reflexivity|].
  cbn [daqmx_buffer_lengths]. destruct (n * w <? rem); cbn [length]; [rewrite IH|rewrite map_length]; reflexivity.
Qed.

(* what a successful get_buffer_dimensions says about the objects *)
Definition obj_in_range (n : nat) (o : sobj) : Prop :=
  so_has_data o = true ->
  exists q, so_daqmx o = Some q /\ Forall (fun s => 0 <= sc_buf s < Z.of_nat n) (dq_scalers q).

Lemma replace_nth_length {A} (l : list A) : forall i x, length (replace_nth i x l) = length l.
Proof. induction l as [|y l IH]; intros [|i] x; cbn; auto. Qed.

Lemma bump_dims_ok nv scalers : forall d d',
  bump_dims d nv scalers = Ok d' ->
  length d' = length d /\ Forall (fun s => 0 <= sc_buf s < Z.of_nat (length d)) scalers.
Proof.
  induction scalers as [|s r IH]; intros d d' H; cbn [bump_dims] in H.
  - inversion H. subst. split; [reflexivity|constructor].
  - destruct ((sc_buf s <? 0) || (Z.of_nat (length d) <=? sc_buf s)) eqn:E; [discriminate|].
    destruct (nth (Z.to_nat (sc_buf s)) d (0, 0)) as [cur w].
    apply IH in H. rewrite replace_nth_length in H. destruct H as [H1 H2].
    split; [exact H1|]. constructor; [lia|exact H2].
Qed.

Lemma buffer_dims_from_some_ok objs : forall d w d',
  buffer_dims_from objs (Some d) w = Ok d' ->
  length d' = length d /\ Forall (obj_in_range (length d)) objs.
Proof.
  induction objs as [|o r IH]; intros d w d' H; cbn [buffer_dims_from] in H.
  - inversion H. subst. split; [reflexivity|constructor].
  - destruct (so_has_data o) eqn:Hd; cbn [negb] in H.
    + destruct (so_daqmx o) as [q|] eqn:Hq; [|discriminate].
      destruct (zlist_eqb (dq_widths q) w); cbn [negb] in H; [|discriminate].
      destruct (bump_dims d (so_nvals o) (dq_scalers q)) as [d1|] eqn:Hb; cbn [bind] in H; [|discriminate].
      apply bump_dims_ok in Hb. destruct Hb as [Hl Hs].
      apply IH in H. destruct H as [H1 H2]. rewrite Hl in H1, H2.
      split; [exact H1|]. constructor; [|exact H2].
      intros _. exists q. split; [exact Hq|exact Hs].
    + apply IH in H. destruct H as [H1 H2]. split; [exact H1|].
      constructor; [|exact H2]. intros Hc. congruence.
Qed.

Lemma buffer_dims_ok objs d' : buffer_dims objs = Ok d' -> Forall (obj_in_range (length d')) objs.
Proof.
  unfold buffer_dims. induction objs as [|o r IH]; intros H; cbn [buffer_dims_from] in H; [constructor|].
  destruct (so_has_data o) eqn:Hd; cbn [negb] in H.
  - destruct (so_daqmx o) as [q|] eqn:Hq; [|discriminate].
    destruct (bump_dims _ (so_nvals o) (dq_scalers q)) as [d1|] eqn:Hb; cbn [bind] in H; [|discriminate].
    apply bump_dims_ok in Hb. destruct Hb as [Hl Hs].
    apply buffer_dims_from_some_ok in H. destruct H as [H1 H2]. rewrite H1.
    constructor; [|exact H2].
    intros _. exists q. split; [exact Hq|]. rewrite Hl. exact Hs.
  - constructor; [|apply IH; exact H]. intros Hc. congruence.
Qed.

Lemma dedup_z_In x l : In x (dedup_z l) -> In x l.
Proof.
  induction l as [|y l IH]; cbn [dedup_z]; [auto|].
  destruct (existsb (Z.eqb y) l); cbn [In]; intros H; [right; auto|]. destruct H; [left|right]; auto.
Qed.

Lemma daqmx_loop4_eq lens objs : Forall (obj_in_range (length lens)) objs -> forall acc,
  get_daqmx_final_chunk_lengths_gen_loop4 lens objs acc
  = Ok (fold_left
          (fun acc o =>
             if negb (so_has_data o) then acc
             else match so_daqmx o with
                  | None => acc
                  | Some q =>
                    match dedup_z (map sc_buf (dq_scalers q)) with
                    | [b] => aset (so_path o) (nth (Z.to_nat b) lens 0) acc
                    | _ => acc
                    end
                  end) objs acc).
Proof.
  induction 1 as [|o r Ho Hr IH]; intros acc; [reflexivity|].
  cbn [get_daqmx_final_chunk_lengths_gen_loop4 fold_left].
  destruct (so_has_data o) eqn:Hd; cbn [negb]; [|apply IH].
  destruct (Ho Hd) as [q [Hq Hs]]. rewrite Hq. cbn [need bind].
  change (map (fun s : scaler => sc_buf s) (dq_scalers q)) with (map sc_buf (dq_scalers q)).
  destruct (dedup_z (map sc_buf (dq_scalers q))) as [|b [|b2 t]] eqn:Ed.
  - apply IH.
  - change (Z.of_nat (length [b]) =? 1) with true. cbv iota.
    change (py_index [b] 0) with (Ok b). cbn [bind].
    assert (Hb : 0 <= b < Z.of_nat (length lens)).
    { assert (Hin : In b (map sc_buf (dq_scalers q))) by (apply dedup_z_In; rewrite Ed; left; reflexivity).
      apply in_map_iff in Hin. destruct Hin as [s [Es Hin]]. subst b.
      rewrite Forall_forall in Hs. apply Hs. exact Hin. }
    rewrite (py_index_nonneg lens b 0) by lia.
    replace (b <? zlen lens) with true by (unfold zlen; lia). cbn [bind]. apply IH.
  - replace (Z.of_nat (length (b :: b2 :: t)) =? 1) with false by (cbn [length]; lia). apply IH.
Qed.

Theorem get_daqmx_final_chunk_lengths_eq objs rem :
  bufs_nonneg objs -> get_daqmx_final_chunk_lengths_gen objs rem = daqmx_final objs rem.
Proof.
  intros H. unfold get_daqmx_final_chunk_lengths_gen, daqmx_final.
  rewrite (get_buffer_dimensions_eq _ H).
  destruct (buffer_dims objs) as [dims|] eqn:Hd; cbn [bind]; [|reflexivity].
  rewrite Nat2Z.id.
  destruct (daqmx_loop3_eq dims [] rem) as [r' H3].
  change (zlen (@nil Z)) with 0 in H3. cbn [app] in H3. rewrite H3. cbn [bind].
  rewrite daqmx_loop4_eq; [reflexivity|].
  rewrite daqmx_buffer_lengths_length. apply buffer_dims_ok. exact Hd.
Qed.

(* ---- TdmsSegment._compute_final_chunk_lengths, _calculate_chunks --------------------- *)

Theorem compute_final_chunk_lengths_eq s cs rem :
  bufs_nonneg (sg_objs s) ->
  compute_final_chunk_lengths_gen s cs rem
  = final_chunk_lengths (sg_toc s) (sg_incomplete s) (sg_objs s) cs rem.
Proof.
  intros H. unfold compute_final_chunk_lengths_gen, final_chunk_lengths.
  rewrite have_daqmx_objects_eq.
  destruct (have_daqmx (sg_objs s)) as [[|]|]; cbn [opt_view bind]; [| |reflexivity].
  - rewrite (get_daqmx_final_chunk_lengths_eq _ _ H).
    destruct (daqmx_final (sg_objs s) rem); reflexivity.
  - rewrite unsized_check_eq.
    destruct (existsb _ (sg_objs s)) eqn:Eu; [reflexivity|].
    change (negb (Z.land (sg_toc s) 32 =? 0)) with (toc_has (sg_toc s) TOC_INTERLEAVED).
    destruct (toc_has (sg_toc s) TOC_INTERLEAVED || negb (sg_incomplete s)).
    + rewrite prop_loop_eq. reflexivity.
    + destruct (contig_loop_eq (sg_objs s) (unsized_check_false _ Eu) [] rem) as [r' Hc].
      rewrite Hc. reflexivity.
Qed.

Theorem calculate_chunks_eq s :
  bufs_nonneg (sg_objs s) ->
  calculate_chunks_gen s
  = calculate_chunks (sg_toc s) (sg_incomplete s) (sg_objs s) (sg_next s - sg_data s).
Proof.
  intros H. unfold calculate_chunks_gen, calculate_chunks.
  rewrite (get_chunk_size_eq _ H).
  destruct (chunk_size (sg_objs s)) as [cs|]; cbn [bind]; [|reflexivity].
  set (total := sg_next s - sg_data s).
  destruct ((cs <? 0) || (total <? 0)); [reflexivity|].
  destruct (cs =? 0) eqn:E0.
  - apply Z.eqb_eq in E0. subst cs. destruct (total =? 0); reflexivity.
  - destruct (total mod cs =? 0); [reflexivity|].
    rewrite (compute_final_chunk_lengths_eq _ _ _ H).
    destruct (final_chunk_lengths _ _ _ cs (total mod cs)); reflexivity.
Qed.

(* ======================================================================================== *)
(* Headline theorems about the hand model, transported to the TRANSLATED functions          *)
(* ======================================================================================== *)

From NpTdms Require Import Proofs.LayoutProofs.

(* C01: _calculate_chunks on a whole number of chunks: that number, no override *)
Theorem calculate_chunks_exact_gen s csize n :
  bufs_nonneg (sg_objs s) ->
  get_chunk_size_gen s = Ok csize -> 0 < csize -> 0 <= n ->
  sg_next s - sg_data s = n * csize ->
  calculate_chunks_gen s = Ok (n, None).
Proof.
  intros H Hcs Hpos Hn Ht. rewrite (calculate_chunks_eq _ H), Ht.
  rewrite (get_chunk_size_eq _ H) in Hcs.
  exact (LayoutProofs.calculate_chunks_exact _ _ _ _ _ Hcs Hpos Hn).
Qed.

(* ---- concrete instances (hypotheses are satisfiable; values as the code computes them) --- *)

Section GenExamples.
Import String.
Local Open Scope string_scope.

Definition ex_a := mkSobj (hex "2f2761") true 3 12 (Some 3) None.           (* int32 x 3 *)
Definition ex_b := mkSobj (hex "2f2762") true 2 16 (Some 10) None.          (* float64 x 2 *)
Definition ex_seg (total : Z) (inc : bool) := mkSeg 0 (2 + 4 + 8) (100 + total) 100 inc [ex_a; ex_b] [] 0 None.
Definition ex_q1 := mkSobj (hex "2f2771") true 4 0 (Some T_DAQMX)
                           (Some (mkDq FORMAT_CHANGING_SCALER [mkScaler 3 0 0 0 0; mkScaler 3 1 0 0 1] [4; 2])).
Definition ex_q2 := mkSobj (hex "2f2772") true 3 0 (Some T_DAQMX)
                           (Some (mkDq FORMAT_CHANGING_SCALER [mkScaler 3 1 0 0 0] [4; 2])).
Definition ex_dseg (total : Z) := mkSeg 0 (2 + 4 + 8 + 128) (100 + total) 100 true [ex_q1; ex_q2] [] 0 None.

Lemma ex_bufs_nonneg : bufs_nonneg (sg_objs (ex_seg 56 false)) /\ bufs_nonneg (sg_objs (ex_dseg 30)).
Proof.
  split; repeat constructor; cbn; lia.
Qed.

Lemma ex_c01_values :
  get_chunk_size_gen (ex_seg 56 false) = Ok 28 /\
  calculate_chunks_gen (ex_seg 56 false) = Ok (2, None) /\
  calculate_chunks_gen (ex_seg 40 true) = Ok (2, Some [(so_path ex_a, 3)]) /\
  calculate_chunks_gen (ex_seg 46 true) = Ok (2, Some [(so_path ex_a, 3); (so_path ex_b, 0)]) /\
  calculate_chunks_gen (ex_seg 46 false) = Ok (2, Some [(so_path ex_a, 1); (so_path ex_b, 1)]).
Proof. vm_compute. repeat split. Qed.

Lemma ex_c11_values :
  bufs_nonneg (sg_objs (ex_dseg 30)) /\
  get_buffer_dimensions_gen (sg_objs (ex_dseg 30)) = Ok [(4, 4); (4, 2)] /\
  get_chunk_size_gen (ex_dseg 30) = Ok 24 /\
  calculate_chunks_gen (ex_dseg 30) = Ok (2, Some [(so_path ex_q2, 0)]) /\
  calculate_chunks_gen (ex_dseg 45) = Ok (2, Some [(so_path ex_q2, 2)]).
Proof. split; [exact (proj2 ex_bufs_nonneg)|]. vm_compute. repeat split. Qed.

Lemma ex_c06_values :
  read_lead_in_gen (Some 150) 100 14 80 20 = Ok (100, 14, 148, Some 150, true) /\
  read_lead_in_gen (Some 147) 100 14 80 20 = Err EEof /\
  read_lead_in_gen (Some 500) 100 14 80 20 = Ok (100, 14, 148, Some 208, false) /\
  read_lead_in_gen None 100 14 0xFFFFFFFFFFFFFFFF 20 = Err EType.
Proof. vm_compute. repeat split. Qed.

End GenExamples.
